(* MV.C05.AddrProofs — proofs about MV.C05.AddrModel (temporary reply addresses). *)
From Coq Require Import ZArith List Bool Lia.
From MV Require Import Lib.ListX C05.AddrModel.
Open Scope Z_scope.

Arguments Z.add : simpl never.
Arguments Z.max : simpl never.
Arguments Z.min : simpl never.
Arguments Z.leb : simpl never.
Arguments Z.ltb : simpl never.
Arguments Z.eqb : simpl never.

(* ------------------------------------------------------------------ vocabulary *)

Definition completed (s : st) (e : entry) : Prop := exists o t, In (e, o, t) (fin s).

(* (o, t) is a legitimate way for e to have been released: at the FIRST of answer and timeout *)
Definition good (e : entry) (o : outcome) (t : Z) : Prop :=
  e_at e <= t /\
  match o with
  | ByTimeout => e_kind e = KAsk /\ e_tmo e = Some t /\ (forall y, e_ans e = Some y -> t < y)
  | ByReply => e_kind e = KAsk /\ (e_ans e = Some t \/ e_man e = true) /\ (forall x, e_tmo e = Some x -> t <= x)
  | ByForward => e_kind e = KFwd /\ e_ans e = Some t
  | OBad => False
  end.

Definition wf (e : entry) : Prop :=
  (forall x, e_tmo e = Some x -> e_at e < x) /\ (forall y, e_ans e = Some y -> e_at e <= y) /\
  (e_kind e = KFwd -> e_tmo e = None /\ e_man e = false).

(* invariant; n bounds the ids handed out so far (n = nid s between operations) *)
Record inv0 (n : Z) (s : st) : Prop := {
  i_n : 0 <= n;
  i_made : forall e, In e (reg s) -> In e (made s);
  i_ids : forall e, In e (made s) -> 0 <= e_id e < n;
  i_nodup : NoDup (map e_id (made s));
  i_split : forall e, In e (made s) -> In e (reg s) \/ completed s e;
  i_excl : forall e, In e (reg s) -> ~ completed s e;
  i_fin : forall e o t, In (e, o, t) (fin s) -> In e (made s) /\ t <= now s /\ good e o t;
  i_wf : forall e, In e (made s) -> wf e /\ e_at e <= now s }.

Record inv (n : Z) (s : st) : Prop := {
  i_0 : inv0 n s;
  i_pend : forall e, In e (reg s) -> is_due (now s) e = false }.

Lemma is_due_false_iff t e :
  is_due t e = false <-> (forall x, e_tmo e = Some x -> t < x) /\ (forall y, e_ans e = Some y -> t < y).
Proof.
  unfold is_due, due, omin. destruct (e_tmo e) as [x|], (e_ans e) as [y|]; split.
  - intros H. apply Z.leb_gt in H. split; intros ? E; inversion E; subst; lia.
  - intros [H1 H2]. apply Z.leb_gt. specialize (H1 _ eq_refl). specialize (H2 _ eq_refl). lia.
  - intros H. apply Z.leb_gt in H. split; intros ? E; inversion E; subst; lia.
  - intros [H1 _]. apply Z.leb_gt. specialize (H1 _ eq_refl). lia.
  - intros H. apply Z.leb_gt in H. split; intros ? E; inversion E; subst; lia.
  - intros [_ H2]. apply Z.leb_gt. specialize (H2 _ eq_refl). lia.
  - intros _. split; intros ? E; discriminate.
  - reflexivity.
Qed.

Lemma is_due_true_tmo t e x : e_tmo e = Some x -> x <= t -> is_due t e = true.
Proof.
  intros E H. unfold is_due, due, omin. rewrite E. destruct (e_ans e); apply Z.leb_le; lia.
Qed.

Lemma is_due_true_ans t e y : e_ans e = Some y -> y <= t -> is_due t e = true.
Proof.
  intros E H. unfold is_due, due, omin. rewrite E. destruct (e_tmo e); apply Z.leb_le; lia.
Qed.

Lemma is_due_mono t t' e : t <= t' -> is_due t e = true -> is_due t' e = true.
Proof.
  unfold is_due. destruct (due e); [|discriminate]. intros H E. apply Z.leb_le in E. apply Z.leb_le. lia.
Qed.

(* a due entry that is well formed is released in a legitimate way *)
Lemma good_how t e : wf e -> is_due t e = true -> good e (how e) (due_at e) /\ due_at e <= t.
Proof.
  intros (W1 & W2 & W3) D. unfold is_due in D. unfold due_at, how, good.
  destruct (e_kind e) eqn:K.
  - unfold due, omin in *. destruct (e_tmo e) as [x|] eqn:Et, (e_ans e) as [y|] eqn:Ea; try discriminate.
    + apply Z.leb_le in D. specialize (W1 _ eq_refl). specialize (W2 _ eq_refl).
      destruct (Z.leb_spec y x).
      * replace (Z.min x y) with y by lia. repeat split; try lia; auto. intros ? E; inversion E; lia.
      * replace (Z.min x y) with x by lia. repeat split; try lia; auto. intros ? E; inversion E; lia.
    + apply Z.leb_le in D. specialize (W1 _ eq_refl). repeat split; try lia; auto. intros ? E; discriminate.
    + apply Z.leb_le in D. specialize (W2 _ eq_refl). repeat split; try lia; auto. intros ? E; discriminate.
  - destruct (W3 eq_refl) as [Et _]. unfold due, omin in *. rewrite Et in *.
    destruct (e_ans e) as [y|] eqn:Ea; try discriminate. apply Z.leb_le in D. specialize (W2 _ eq_refl).
    repeat split; try lia; auto.
Qed.

(* ------------------------------------------------------------------ the clock moves *)

Lemma advance_inv n t s : inv0 n s -> now s <= t -> inv n (advance_to t s).
Proof.
  intros I Ht. destruct I as [In0 Im Ii Ind Is Ie If Iw]. split; [split|]; cbn [advance_to now reg fin made].
  - exact In0.
  - intros e H. apply filter_In in H. apply Im, H.
  - exact Ii.
  - exact Ind.
  - intros e H. destruct (Is e H) as [R|(o & t0 & C)].
    + destruct (is_due t e) eqn:D.
      * right. exists (how e), (due_at e). apply in_app_iff. right. apply in_map_iff. exists e. split; auto.
        apply filter_In. auto.
      * left. apply filter_In. rewrite D. auto.
    + right. exists o, t0. apply in_app_iff. auto.
  - intros e H (o & t0 & C). apply filter_In in H as [R D]. apply in_app_iff in C as [C|C].
    + apply (Ie e R). exists o, t0. exact C.
    + apply in_map_iff in C as (e' & E & F). inversion E; subst e'. apply filter_In in F as [_ F]. rewrite F in D. discriminate.
  - intros e o t0 C. apply in_app_iff in C as [C|C].
    + destruct (If e o t0 C) as (A & B & G). split; [exact A|split; [lia|exact G]].
    + apply in_map_iff in C as (e' & E & F). injection E as E1 E2 E3; subst e o t0. apply filter_In in F as [R D].
      destruct (Iw e' (Im e' R)) as [W _]. destruct (good_how t e' W D) as [G L]. split; [auto|split; [exact L|exact G]].
  - intros e H. destruct (Iw e H) as [W A]. split; auto. lia.
  - intros e H. apply filter_In in H as [_ D]. destruct (is_due t e); [discriminate|reflexivity].
Qed.

Lemma inv_bound n m s : inv n s -> n <= m -> inv m s.
Proof.
  intros [[In0 Im Ii Ind Is Ie If Iw] Ip] H. split; [split|]; auto; [lia|]. intros e He. specialize (Ii e He). lia.
Qed.

Lemma inv0_eq n s s' :
  inv0 n s -> reg s' = reg s -> fin s' = fin s -> made s' = made s -> now s' = now s -> inv0 n s'.
Proof.
  intros [In0 Im Ii Ind Is Ie If Iw] Er Ef Em En.
  split; unfold completed in *; rewrite ?Er, ?Ef, ?Em, ?En; auto.
Qed.

Lemma inv_eq n s s' :
  inv n s -> reg s' = reg s -> fin s' = fin s -> made s' = made s -> now s' = now s -> inv n s'.
Proof.
  intros [I0 Ip] Er Ef Em En. split; [eapply inv0_eq; eauto|]. rewrite Er, En. exact Ip.
Qed.

(* ------------------------------------------------------------------ a new address *)

Lemma NoDup_app_one {A} (l : list A) (a : A) : NoDup l -> ~ In a l -> NoDup (l ++ [a]).
Proof.
  induction l as [|h t IH]; intros N H; cbn.
  - constructor; [intros []|constructor].
  - inversion N; subst. constructor.
    + intros X. apply in_app_iff in X as [X|[X|[]]]; [auto|]. subst. apply H. left. reflexivity.
    + apply IH; auto. intros X. apply H. right. exact X.
Qed.

Lemma add_inv0 s e : inv (nid s) s -> e_id e = nid s -> e_at e = now s -> wf e -> inv0 (nid s + 1) (add e s).
Proof.
  intros [[In0 Im Ii Ind Is Ie If Iw] Ip] Eid Eat W.
  assert (Fresh : ~ In e (made s)) by (intros H; specialize (Ii e H); lia).
  split; cbn [add now reg fin made].
  - lia.
  - intros x H. apply in_app_iff in H as [H|[<-|[]]]; apply in_app_iff; [left; auto|right; left; auto].
  - intros x H. apply in_app_iff in H as [H|[<-|[]]]; [specialize (Ii x H); lia|lia].
  - rewrite map_app. cbn [map]. apply NoDup_app_one; auto.
    intros H. apply in_map_iff in H as (x & Ex & Hx). specialize (Ii x Hx). lia.
  - intros x H. apply in_app_iff in H as [H|[<-|[]]].
    + destruct (Is x H) as [R|C]; [left; apply in_app_iff; auto|right; exact C].
    + left. apply in_app_iff. right. left. reflexivity.
  - intros x H C. apply in_app_iff in H as [H|[<-|[]]].
    + exact (Ie x H C).
    + destruct C as (o & t & C). apply Fresh. apply (If _ _ _ C).
  - intros x o t C. destruct (If x o t C) as (A & B & G). split; [apply in_app_iff; auto|split; [exact B|exact G]].
  - intros x H. apply in_app_iff in H as [H|[<-|[]]]; [apply Iw, H|]. split; auto. lia.
Qed.

(* ------------------------------------------------------------------ the manual target answers *)

Lemma reply_inv n i s : inv n s -> inv n (reply i s).
Proof.
  intros [[In0 Im Ii Ind Is Ie If Iw] Ip]. split; [split|]; cbn [reply now reg fin made]; auto.
  - intros e H. apply filter_In in H. apply Im, H.
  - intros e H. destruct (Is e H) as [R|(o & t0 & C)].
    + destruct (is_manual_ask i e) eqn:D.
      * right. exists ByReply, (now s). apply in_app_iff. right. apply in_map_iff. exists e. split; auto.
        apply filter_In. auto.
      * left. apply filter_In. rewrite D. auto.
    + right. exists o, t0. apply in_app_iff. auto.
  - intros e H (o & t0 & C). apply filter_In in H as [R D]. apply in_app_iff in C as [C|C].
    + apply (Ie e R). exists o, t0. exact C.
    + apply in_map_iff in C as (e' & E & F). injection E as E1 E2 E3; subst e'. apply filter_In in F as [_ F].
      rewrite F in D. discriminate.
  - intros e o t0 C. apply in_app_iff in C as [C|C]; [apply If, C|].
    apply in_map_iff in C as (e' & E & F). injection E as E1 E2 E3; subst e o t0. apply filter_In in F as [R D].
    split; [apply Im, R|split; [lia|]]. unfold is_manual_ask in D.
    apply andb_true_iff in D as [D K]. apply andb_true_iff in D as [_ M].
    destruct (Iw e' (Im e' R)) as [_ A]. specialize (Ip e' R). apply is_due_false_iff in Ip as [P _].
    split; [exact A|]. destruct (e_kind e'); [|discriminate]. split; [reflexivity|]. split; [right; exact M|].
    intros x Ex. specialize (P x Ex). lia.
  - intros e H. apply filter_In in H. apply Ip, H.
Qed.

(* ------------------------------------------------------------------ every operation *)

Lemma wf_ask s t T : wf (ask_entry s t T).
Proof.
  unfold wf, ask_entry, timer_of. cbn. split; [|split].
  - intros x. destruct (Z.ltb_spec 0 T); intros E; inversion E. lia.
  - intros y. destruct t; intros E; inversion E. lia.
  - discriminate.
Qed.

Lemma wf_fwd rel s d : wf (fwd_entry rel s d).
Proof.
  unfold wf, fwd_entry. cbn. split; [|split].
  - discriminate.
  - intros y. destruct rel; intros E; inversion E. lia.
  - auto.
Qed.

Lemma act_inv rel s o : inv (nid s) s -> inv (nid s + 1) (act rel s o) /\ nid (act rel s o) = nid s.
Proof.
  intros I. assert (I' : inv (nid s + 1) s) by (apply (inv_bound _ _ _ I); lia).
  destruct o as [a t T|a d|i|dt|a|a|]; cbn [act].
  - destruct (can_act s a); [|auto].
    assert (A : inv0 (nid s + 1) (add (ask_entry s t T) s)) by (apply add_inv0; auto using wf_ask).
    split.
    + unfold settle. destruct t as [d [|]| |]; try (apply advance_inv; [exact A|cbn; lia]).
      apply advance_inv; [|cbn; lia]. eapply inv0_eq; [exact A|..]; reflexivity.
    + destruct t as [d [|]| |]; reflexivity.
  - destruct (can_act s a); [|auto]. split; [|reflexivity].
    unfold settle. apply advance_inv; [|cbn; lia]. apply add_inv0; auto using wf_fwd.
  - destruct (down s); [auto|]. split; [apply reply_inv, I'|reflexivity].
  - split; [|reflexivity]. apply advance_inv; [apply I'|lia].
  - destruct (down s || (a <=? 0)); [auto|]. split; [|reflexivity]. eapply inv_eq; [exact I'|..]; reflexivity.
  - auto.
  - destruct (down s); [auto|]. split; [|reflexivity].
    eapply inv_eq; [apply (advance_inv (nid s + 1) (Z.max (now s) (busy s)) s); [apply I'|lia]|..]; reflexivity.
Qed.

Lemma step_inv rel s o : inv (nid s) s -> inv (nid (step rel s o)) (step rel s o).
Proof.
  intros I. destruct (act_inv rel s o I) as [A E]. unfold step. cbn [next_id nid]. rewrite E.
  eapply inv_eq; [exact A|..]; reflexivity.
Qed.

Lemma init_inv : inv (nid init) init.
Proof.
  split; [split|]; cbn; try tauto; try lia; try constructor.
Qed.

Lemma run_inv rel ops : forall s, inv (nid s) s -> inv (nid (run rel s ops)) (run rel s ops).
Proof.
  induction ops as [|o t IH]; intros s I; cbn; [exact I|]. apply IH, step_inv, I.
Qed.

(* reachable states *)
Definition reach (rel : bool) (s : st) : Prop := exists ops, s = run rel init ops.

Lemma reach_inv rel s : reach rel s -> inv (nid s) s.
Proof. intros [ops ->]. apply run_inv, init_inv. Qed.

Lemma reach_step rel s o : reach rel s -> reach rel (step rel s o).
Proof.
  intros [ops ->]. exists (ops ++ [o]). unfold run. rewrite fold_left_app. reflexivity.
Qed.

Lemma reach_run rel s ops : reach rel s -> reach rel (run rel s ops).
Proof.
  intros [ops0 ->]. exists (ops0 ++ ops). unfold run. rewrite fold_left_app. reflexivity.
Qed.

(* ------------------------------------------------------------------ (a) registered exactly from creation to completion *)

Lemma registered_was_made rel s e : reach rel s -> In e (reg s) -> In e (made s).
Proof. intros R. apply (i_made _ _ (i_0 _ _ (reach_inv _ _ R))). Qed.

Lemma registered_iff_not_completed rel s e :
  reach rel s -> In e (made s) -> (In e (reg s) <-> ~ completed s e).
Proof.
  intros R M. pose proof (i_0 _ _ (reach_inv _ _ R)) as I. split.
  - apply (i_excl _ _ I).
  - intros N. destruct (i_split _ _ I e M) as [H|H]; [exact H|contradiction].
Qed.

Lemma registered_not_overdue rel s e :
  reach rel s -> In e (reg s) ->
  (forall x, e_tmo e = Some x -> now s < x) /\ (forall y, e_ans e = Some y -> now s < y).
Proof. intros R H. apply is_due_false_iff. apply (i_pend _ _ (reach_inv _ _ R)), H. Qed.

Lemma completion_is_first rel s e o t :
  reach rel s -> In (e, o, t) (fin s) -> In e (made s) /\ t <= now s /\ good e o t.
Proof. intros R. apply (i_fin _ _ (i_0 _ _ (reach_inv _ _ R))). Qed.

Lemma ids_unique rel s e e' : reach rel s -> In e (made s) -> In e' (made s) -> e_id e = e_id e' -> e = e'.
Proof.
  intros R. pose proof (i_nodup _ _ (i_0 _ _ (reach_inv _ _ R))) as N. revert N.
  induction (made s) as [|h t IH]; cbn; [tauto|]. intros N [->|H] [->|H'] E; inversion N as [|? ? N1 N2]; subst; auto.
  - exfalso. apply N1. rewrite E. apply in_map, H'.
  - exfalso. apply N1. rewrite <- E. apply in_map, H.
Qed.

(* the three ghost/observable logs only grow and the clock never goes back *)
Lemma act_grows rel s o :
  (exists l, fin (act rel s o) = fin s ++ l) /\ (exists l, made (act rel s o) = made s ++ l) /\ now s <= now (act rel s o).
Proof.
  assert (Z : (exists l, fin s = fin s ++ l) /\ (exists l, made s = made s ++ l) /\ now s <= now s)
    by (repeat split; try (exists []; rewrite app_nil_r; reflexivity); lia).
  destruct o as [a t T|a d|i|dt|a|a|]; cbn [act].
  - destruct (can_act s a); [|exact Z]. destruct t as [d [|]| |]; cbn; repeat split; eauto; lia.
  - destruct (can_act s a); [|exact Z]. cbn; repeat split; eauto; lia.
  - destruct (down s); [exact Z|]. cbn; repeat split; eauto; try lia. exists []; rewrite app_nil_r; reflexivity.
  - cbn; repeat split; eauto; try lia. exists []; rewrite app_nil_r; reflexivity.
  - destruct (down s || (a <=? 0)); exact Z.
  - exact Z.
  - destruct (down s); [exact Z|]. cbn; repeat split; eauto; try lia. exists []; rewrite app_nil_r; reflexivity.
Qed.

Lemma run_grows rel ops : forall s,
  (exists l, fin (run rel s ops) = fin s ++ l) /\ (exists l, made (run rel s ops) = made s ++ l) /\ now s <= now (run rel s ops).
Proof.
  induction ops as [|o t IH]; intros s.
  - cbn. repeat split; try (exists []; rewrite app_nil_r; reflexivity); lia.
  - change (run rel s (o :: t)) with (run rel (step rel s o) t).
    destruct (IH (step rel s o)) as ((l1 & E1) & (l2 & E2) & L). destruct (act_grows rel s o) as ((k1 & F1) & (k2 & F2) & K).
    rewrite E1, E2. unfold step in *. cbn [next_id fin made now] in *. rewrite F1, F2, <- !app_assoc. repeat split; eauto. lia.
Qed.

Lemma completed_for_ever rel s ops e : completed s e -> completed (run rel s ops) e.
Proof.
  intros (o & t & C). destruct (run_grows rel ops s) as ((l & E) & _). exists o, t. rewrite E. apply in_app_iff. auto.
Qed.

Lemma never_registered_again rel s ops e : reach rel s -> completed s e -> ~ In e (reg (run rel s ops)).
Proof.
  intros R C H. pose proof (reach_run rel s ops R) as R'.
  apply (i_excl _ _ (i_0 _ _ (reach_inv _ _ R')) e H). apply completed_for_ever, C.
Qed.

Lemma made_for_ever rel s ops e : In e (made s) -> In e (made (run rel s ops)).
Proof. intros H. destruct (run_grows rel ops s) as (_ & (l & E) & _). rewrite E. apply in_app_iff. auto. Qed.

(* creation: an ask issued by somebody who can still act is accounted for, under the index of the operation, and is
   registered unless its answer arrives in the same instant *)
Lemma ask_created rel s a t T :
  can_act s a = true ->
  let e := ask_entry s t T in
  let s' := step rel s (OAsk a t T) in
  In e (made s') /\ e_id e = nid s /\ e_at e = now s /\ (is_due (now s) e = false -> In e (reg s')).
Proof.
  intros C e s'. subst s'. unfold step. cbn [act]. rewrite C.
  assert (X : forall s2, made s2 = made s ++ [e] -> reg s2 = reg s ++ [e] -> now s2 = now s ->
            In e (made (next_id (settle s2))) /\ (is_due (now s) e = false -> In e (reg (next_id (settle s2))))).
  { intros s2 Em Er En. cbn. rewrite Em, Er, En. split; [apply in_app_iff; right; left; reflexivity|].
    intros D. apply filter_In. rewrite D. split; [apply in_app_iff; right; left; reflexivity|reflexivity]. }
  destruct t as [d [|]| |]; (split; [|split; [reflexivity|split; [reflexivity|]]]); apply X; reflexivity.
Qed.

Lemma fwd_created rel s a d :
  can_act s a = true ->
  let e := fwd_entry rel s d in
  let s' := step rel s (OFwd a d) in
  In e (made s') /\ e_id e = nid s /\ (is_due (now s) e = false -> In e (reg s')).
Proof.
  intros C e s'. subst s'. unfold step. cbn [act]. rewrite C. cbn.
  split; [apply in_app_iff; right; left; reflexivity|split; [reflexivity|]].
  intros D. apply filter_In. fold e. rewrite D. split; [apply in_app_iff; right; left; reflexivity|reflexivity].
Qed.

(* somebody who cannot act any more creates nothing *)
Lemma cannot_act_nothing rel s a t T d :
  can_act s a = false -> act rel s (OAsk a t T) = s /\ act rel s (OFwd a d) = s.
Proof. intros C. cbn [act]. rewrite C. auto. Qed.

(* ------------------------------------------------------------------ (b) quiescence *)

Definition is_ask (e : entry) : bool := match e_kind e with KAsk => true | KFwd => false end.

Lemma nil_if_no_member {A} (l : list A) : (forall x, ~ In x l) -> l = [].
Proof. destruct l as [|h t]; [reflexivity|]. intros H. exfalso. apply (H h). left. reflexivity. Qed.

Lemma no_ask_when_all_settled rel s :
  reach rel s ->
  (forall e, In e (made s) -> e_kind e = KAsk -> completed s e \/ is_due (now s) e = true) ->
  asks s = [] /\ forall e, In e (reg s) -> e_kind e = KFwd.
Proof.
  intros R H. pose proof (reach_inv _ _ R) as I.
  assert (X : forall e, In e (reg s) -> e_kind e = KFwd).
  { intros e He. destruct (e_kind e) eqn:K; [|reflexivity]. exfalso.
    destruct (H e (i_made _ _ (i_0 _ _ I) e He) K) as [C|D].
    - exact (i_excl _ _ (i_0 _ _ I) e He C).
    - rewrite (i_pend _ _ I e He) in D. discriminate. }
  split; [|exact X]. apply nil_if_no_member. intros e He. unfold asks in He. apply filter_In in He as [He K].
  rewrite (X e He) in K. discriminate.
Qed.

Lemma empty_when_all_settled rel s :
  reach rel s -> (forall e, In e (made s) -> completed s e \/ is_due (now s) e = true) -> reg s = [].
Proof.
  intros R H. pose proof (reach_inv _ _ R) as I. apply nil_if_no_member. intros e He.
  destruct (H e (i_made _ _ (i_0 _ _ I) e He)) as [C|D].
  - exact (i_excl _ _ (i_0 _ _ I) e He C).
  - rewrite (i_pend _ _ I e He) in D. discriminate.
Qed.

(* an address with a timer is gone as soon as the clock has reached the timer, whatever else happened *)
Lemma gone_at_timeout rel s e x : reach rel s -> In e (made s) -> e_tmo e = Some x -> x <= now s -> ~ In e (reg s).
Proof.
  intros R _ E L H. destruct (registered_not_overdue rel s e R H) as [P _]. specialize (P x E). lia.
Qed.

Lemma gone_at_answer rel s e y : reach rel s -> In e (made s) -> e_ans e = Some y -> y <= now s -> ~ In e (reg s).
Proof.
  intros R _ E L H. destruct (registered_not_overdue rel s e R H) as [_ P]. specialize (P y E). lia.
Qed.

(* letting enough time pass releases every ask that has a timer *)
Lemma asks_released_by_time rel s dt :
  0 <= dt ->
  (forall e, In e (reg s) -> e_kind e = KAsk -> exists x, e_tmo e = Some x /\ x <= now s + dt) ->
  asks (step rel s (OAdv dt)) = [].
Proof.
  intros P H. apply nil_if_no_member. intros e He. unfold asks, step in He. cbn in He.
  apply filter_In in He as [He K]. apply filter_In in He as [He D].
  destruct (e_kind e) eqn:Ek; [|discriminate]. destruct (H e He Ek) as (x & Ex & Lx).
  rewrite (is_due_true_tmo _ e x Ex) in D; [discriminate|lia].
Qed.

(* after Shutdown nothing is created any more *)
Lemma down_step rel s o :
  down s = true -> down (step rel s o) = true /\ made (step rel s o) = made s /\ incl (reg (step rel s o)) (reg s).
Proof.
  intros D. unfold step. destruct o as [a t T|a d|i|dt|a|a|]; cbn [act]; unfold can_act; rewrite ?D; cbn;
    try (repeat split; auto using incl_refl; fail).
  repeat split; auto. intros e He. apply filter_In in He. apply He.
Qed.

Lemma down_run rel ops : forall s,
  down s = true -> down (run rel s ops) = true /\ made (run rel s ops) = made s /\ incl (reg (run rel s ops)) (reg s).
Proof.
  induction ops as [|o t IH]; intros s D; [cbn; auto using incl_refl|].
  change (run rel s (o :: t)) with (run rel (step rel s o) t).
  destruct (down_step rel s o D) as (D1 & M1 & I1). destruct (IH _ D1) as (D2 & M2 & I2).
  repeat split; auto; [congruence|]. eapply incl_tran; eauto.
Qed.

Lemma shutdown_is_down rel s : down (step rel s OShutdown) = true.
Proof. unfold step. cbn [act]. destruct (down s) eqn:D; cbn; auto. Qed.

Lemma empty_after_shutdown_stays_empty rel s ops : down s = true -> reg s = [] -> reg (run rel s ops) = [].
Proof.
  intros D E. destruct (down_run rel ops s D) as (_ & _ & I). rewrite E in I. apply nil_if_no_member.
  intros e He. exact (I e He).
Qed.

(* what termination, restart and Shutdown do to the registered addresses: nothing (Shutdown: only what time does) *)
Lemma stop_restart_touch_nothing rel s a :
  reg (step rel s (OStop a)) = reg s /\ reg (step rel s (ORestart a)) = reg s /\
  fin (step rel s (OStop a)) = fin s /\ fin (step rel s (ORestart a)) = fin s.
Proof. unfold step. cbn [act]. destruct (down s || (a <=? 0)); cbn; auto. Qed.

Lemma shutdown_is_only_time rel s :
  down s = false ->
  reg (step rel s OShutdown) = filter (fun e => negb (is_due (Z.max (now s) (busy s)) e)) (reg s) /\
  now (step rel s OShutdown) = Z.max (now s) (busy s).
Proof. intros D. unfold step. cbn [act]. rewrite D. cbn. auto. Qed.

(* ------------------------------------------------------------------ (c) what is never released *)

Definition immortal (e : entry) : Prop := due e = None /\ (e_man e = false \/ e_kind e = KFwd).

Lemma immortal_not_due t e : immortal e -> is_due t e = false.
Proof. intros [D _]. unfold is_due. rewrite D. reflexivity. Qed.

Lemma immortal_not_manual i e : immortal e -> is_manual_ask i e = false.
Proof.
  intros [_ [M|K]]; unfold is_manual_ask.
  - rewrite M, andb_false_r. reflexivity.
  - rewrite K, andb_false_r. reflexivity.
Qed.

Lemma immortal_keep_due t e l : immortal e -> In e l -> In e (filter (fun e => negb (is_due t e)) l).
Proof. intros I H. apply filter_In. rewrite (immortal_not_due t e I). auto. Qed.

Lemma immortal_step rel s o e : immortal e -> In e (reg s) -> In e (reg (step rel s o)).
Proof.
  intros I H. unfold step. destruct o as [a t T|a d|i|dt|a|a|]; cbn [act next_id reg].
  - destruct (can_act s a); [|exact H]. destruct t as [d [|]| |]; cbn; apply immortal_keep_due; auto; apply in_app_iff; auto.
  - destruct (can_act s a); [|exact H]. cbn. apply immortal_keep_due; auto. apply in_app_iff; auto.
  - destruct (down s); [exact H|]. cbn. apply filter_In. rewrite (immortal_not_manual i e I). auto.
  - cbn. apply immortal_keep_due; auto.
  - destruct (down s || (a <=? 0)); exact H.
  - exact H.
  - destruct (down s); [exact H|]. cbn. apply immortal_keep_due; auto.
Qed.

Lemma immortal_run rel ops e : forall s, immortal e -> In e (reg s) -> In e (reg (run rel s ops)).
Proof.
  induction ops as [|o t IH]; intros s I H; [exact H|].
  change (run rel s (o :: t)) with (run rel (step rel s o) t). apply IH; auto. apply immortal_step; auto.
Qed.

(* as shipped, every AwaitForward leaves its address registered for ever *)
Lemma fwd_as_shipped_for_ever s a d ops :
  can_act s a = true -> In (fwd_entry false s d) (reg (run false (step false s (OFwd a d)) ops)).
Proof.
  intros C. apply immortal_run.
  - split; [reflexivity|right; reflexivity].
  - destruct (fwd_created false s a d C) as (_ & _ & H). apply H. reflexivity.
Qed.

(* repaired or not: an ask without a timer (timeout <= 0) that nobody answers stays registered for ever *)
Lemma untimed_unanswered_ask_for_ever rel s a T ops :
  can_act s a = true -> T <= 0 -> In (ask_entry s TNever T) (reg (run rel (step rel s (OAsk a TNever T)) ops)).
Proof.
  intros C L. assert (E : timer_of s T = None) by (unfold timer_of; destruct (Z.ltb_spec 0 T); [lia|reflexivity]).
  assert (D : due (ask_entry s TNever T) = None) by (unfold due, ask_entry; cbn; rewrite E; reflexivity).
  apply immortal_run.
  - split; [exact D|left; reflexivity].
  - destruct (ask_created rel s a TNever T C) as (_ & _ & _ & H). apply H. unfold is_due. rewrite D. reflexivity.
Qed.

(* repaired: an AwaitForward is registered until its function has returned, and released at that instant *)
Lemma fwd_repaired_released s a d :
  can_act s a = true -> e_ans (fwd_entry true s d) = Some (now s + Z.max 0 d).
Proof. reflexivity. Qed.

(* Shutdown once everything has settled: nothing is registered when it returns, and nothing ever again *)
Lemma settled_shutdown_empty rel s ops :
  reach rel s ->
  (forall e, In e (made (step rel s OShutdown)) ->
             completed (step rel s OShutdown) e \/ is_due (now (step rel s OShutdown)) e = true) ->
  reg (run rel (step rel s OShutdown) ops) = [].
Proof.
  intros R H. apply empty_after_shutdown_stays_empty; [apply shutdown_is_down|].
  apply (empty_when_all_settled rel); [apply reach_step, R|exact H].
Qed.
