(* MV.C05.AddrModel — the temporary reply addresses of a vivid.ActorSystem (last clause of C05: "afterwards no actor
   or temporary reply address remains registered"). Executable model ONLY; proofs in AddrProofs.v.

   Go sources: engine/future/future.go (New = Register + Initialize: timer armed iff timeout > 0; Close = CAS, close(done),
   timer.Stop, rc.Unregister; DeliveryUserMessage = store + Close; AwaitForward), engine/vivid/actor_context.go
   (FutureAsk, AwaitForward: a future under <actor>/<n> in the ResourceController; onTerminate / tryTerminated /
   onRestart: none of them touches the futures the actor created), engine/vivid/future.go (typed ask),
   engine/vivid/actor_system.go (FutureAsk / AwaitForward through the guard context; Shutdown = terminate the guard,
   wait for the root to finish: it touches no future either).

   The inside of one future (CAS, done channel, forwards mutex) is C07's machine `Fut`; here a future is abstracted to
   "registered from its creation to its one completion" (C07_released, C07_done_closed_once) and the model is about
   the SET of registered temporary addresses over the life of a whole system, in virtual time (ms).

   An entry is identified by the index of the operation that created it (the harness maps <actor>/<n> to that index).
   Events that become due at the same instant are independent (they concern different futures), so time is advanced
   by filtering.

   `rel` = does AwaitForward release its address once the result of the asynchronous function has been delivered:
   true = the repaired code (fixes/C05-awaitforward-release.patch), false = the code as shipped (the goroutine
   delivers the result straight to the target and never completes the future, which has no timer). *)
From Coq Require Import ZArith List Bool.
From MV Require Import Lib.ListX.
Open Scope Z_scope.

Inductive kind := KAsk | KFwd.

(* how a temporary address was released; OBad is never produced by the model (the harness prints it for what it
   cannot represent) *)
Inductive outcome := ByReply | ByTimeout | ByForward | OBad.

Record entry := mkE {
  e_id  : Z;            (* index of the creating operation *)
  e_kind : kind;
  e_at  : Z;            (* instant of creation *)
  e_tmo : option Z;     (* instant at which the timeout timer fires; None: no timer (timeout <= 0, every AwaitForward) *)
  e_ans : option Z;     (* instant at which the answer arrives by itself (ask) / the asynchronous function has returned and its
                           result has been delivered (AwaitForward); None: never by the passage of time *)
  e_man : bool }.       (* ask held by the manual target: answered when an OReply operation says so *)

(* whom an ask is sent to *)
Inductive target :=
| TAfter (d : Z) (blk : bool)  (* answers d ms later; blk: by sleeping in its handler (its mailbox is busy until then, Shutdown
                                  waits for it), otherwise from a goroutine it started *)
| TNever                       (* silent actor, or nobody registered under the address (dead letter) *)
| TManual.                     (* keeps the request; answers when told to (OReply) — if it is still alive *)

Inductive op :=
| OAsk (a : Z) (t : target) (T : Z)   (* asker a (0 = the system itself) : FutureAsk / typed ask with timeout T ms *)
| OFwd (a : Z) (d : Z)                (* asker a : AwaitForward; the asynchronous function returns after d ms *)
| OReply (i : Z)                      (* the manual target answers the ask created by operation i *)
| OAdv (dt : Z)                       (* dt ms pass *)
| OStop (a : Z)                       (* asker actor a is terminated *)
| ORestart (a : Z)                    (* asker actor a fails and is restarted by its supervisor *)
| OShutdown.                          (* ActorSystem.Shutdown *)

Record st := mkS {
  now  : Z;
  reg  : list entry;                      (* registered temporary addresses, in creation order *)
  fin  : list (entry * outcome * Z);      (* released: how and when (ghost + observable) *)
  made : list entry;                      (* ghost: every temporary address ever created *)
  busy : Z;                               (* latest instant at which a target sleeping in its handler wakes up *)
  down : bool;                            (* Shutdown has returned *)
  dead : list Z;                          (* asker actors that have been terminated *)
  nid  : Z }.                             (* index of the next operation *)

Definition init : st := mkS 0 [] [] [] 0 false [] 0.

Definition omin (a b : option Z) : option Z :=
  match a, b with
  | Some x, Some y => Some (Z.min x y)
  | Some x, None => Some x
  | None, b => b
  end.

(* the instant at which the passage of time alone completes the future *)
Definition due (e : entry) : option Z := omin (e_tmo e) (e_ans e).

Definition is_due (t : Z) (e : entry) : bool :=
  match due e with Some x => x <=? t | None => false end.

Definition due_at (e : entry) : Z := match due e with Some x => x | None => 0 end.

(* which of the two came first (generated cases never make them coincide; the model says "answer") *)
Definition how (e : entry) : outcome :=
  match e_kind e with
  | KFwd => ByForward
  | KAsk => match e_ans e, e_tmo e with
            | Some y, Some x => if y <=? x then ByReply else ByTimeout
            | Some _, None => ByReply
            | None, _ => ByTimeout
            end
  end.

(* the clock reaches t (t >= now): every future due by then is completed and its address released *)
Definition advance_to (t : Z) (s : st) : st :=
  mkS t (filter (fun e => negb (is_due t e)) (reg s))
      (fin s ++ map (fun e => (e, how e, due_at e)) (filter (is_due t) (reg s)))
      (made s) (busy s) (down s) (dead s) (nid s).

Definition settle (s : st) : st := advance_to (now s) s.

Definition mem (a : Z) (l : list Z) : bool := existsb (Z.eqb a) l.

(* may asker a still act: the system has not been shut down and the actor has not been terminated *)
Definition can_act (s : st) (a : Z) : bool := negb (down s) && negb (mem a (dead s)).

Definition add (e : entry) (s : st) : st :=
  mkS (now s) (reg s ++ [e]) (fin s) (made s ++ [e]) (busy s) (down s) (dead s) (nid s).

Definition timer_of (s : st) (T : Z) : option Z := if 0 <? T then Some (now s + T) else None.

Definition ask_entry (s : st) (t : target) (T : Z) : entry :=
  mkE (nid s) KAsk (now s) (timer_of s T)
      (match t with TAfter d _ => Some (now s + Z.max 0 d) | _ => None end)
      (match t with TManual => true | _ => false end).

Definition fwd_entry (rel : bool) (s : st) (d : Z) : entry :=
  mkE (nid s) KFwd (now s) None (if rel then Some (now s + Z.max 0 d) else None) false.

Definition set_busy (b : Z) (s : st) : st :=
  mkS (now s) (reg s) (fin s) (made s) (Z.max (busy s) b) (down s) (dead s) (nid s).

Definition is_manual_ask (i : Z) (e : entry) : bool :=
  (e_id e =? i) && e_man e && match e_kind e with KAsk => true | KFwd => false end.

Definition reply (i : Z) (s : st) : st :=
  mkS (now s) (filter (fun e => negb (is_manual_ask i e)) (reg s))
      (fin s ++ map (fun e => (e, ByReply, now s)) (filter (is_manual_ask i) (reg s)))
      (made s) (busy s) (down s) (dead s) (nid s).

Definition next_id (s : st) : st :=
  mkS (now s) (reg s) (fin s) (made s) (busy s) (down s) (dead s) (nid s + 1).

(* one operation, without the bookkeeping of the operation index *)
Definition act (rel : bool) (s : st) (o : op) : st :=
  match o with
  | OAsk a t T =>
      if can_act s a then
        let s1 := add (ask_entry s t T) s in
        let s2 := match t with TAfter d true => set_busy (now s + Z.max 0 d) s1 | _ => s1 end in
        settle s2
      else s
  | OFwd a d => if can_act s a then settle (add (fwd_entry rel s d) s) else s
  | OReply i => if down s then s else reply i s     (* after Shutdown the manual target is gone: the order is a dead letter *)
  | OAdv dt => advance_to (now s + Z.max 0 dt) s
  | OStop a =>
      (* terminating an actor touches none of the futures it created; the system (0) is not stopped this way *)
      if down s || (a <=? 0) then s
      else mkS (now s) (reg s) (fin s) (made s) (busy s) (down s) (a :: dead s) (nid s)
  | ORestart a => s                                    (* nor does a restart: same context, same futures *)
  | OShutdown =>
      (* Shutdown terminates every actor and waits for them: a target sleeping in its handler finishes first, so the
         call returns at max(now, busy); timers and answers due until then happen meanwhile. No future is touched. *)
      if down s then s
      else let s1 := advance_to (Z.max (now s) (busy s)) s in
           mkS (now s1) (reg s1) (fin s1) (made s1) (busy s1) true (dead s1) (nid s1)
  end.

Definition step (rel : bool) (s : st) (o : op) : st := next_id (act rel s o).

Definition run (rel : bool) (s : st) (ops : list op) : st := fold_left (step rel) ops s.

(* the states after each operation *)
Fixpoint trace (rel : bool) (s : st) (ops : list op) : list st :=
  match ops with
  | [] => []
  | o :: t => let s' := step rel s o in s' :: trace rel s' t
  end.

Definition ids (s : st) : list Z := map e_id (reg s).
Definition asks (s : st) : list entry := filter (fun e => match e_kind e with KAsk => true | KFwd => false end) (reg s).
Definition fwds (s : st) : list entry := filter (fun e => match e_kind e with KFwd => true | KAsk => false end) (reg s).
