(* MV.C18.BackoffProofs — proofs about the repaired back-off model (part 1: bounds, stop signal;
   these need no fact about floating-point arithmetic at all: they hold for every float). *)
From Coq Require Import ZArith Bool List Floats Lia.
From MV Require Import C18.BackoffModel.
Open Scope Z_scope.

Lemma clamp_delay_bounds : forall (x : float) (max : Z),
  0 <= max -> 0 <= clamp_delay x max <= max.
Proof.
  intros x max Hmax. unfold clamp_delay.
  destruct (PrimFloat.ltb x f_two63); [|lia].
  destruct (Z.gtb_spec (dur_of_float x) max) as [H|H].
  - destruct (Z.ltb_spec max 0); lia.
  - destruct (Z.ltb_spec (dur_of_float x) 0); lia.
Qed.

Lemma delay_fixed_bounds : forall base max rnd p r,
  0 <= max -> 0 <= delay_fixed base max rnd p r <= max.
Proof.
  intros. unfold delay_fixed. destruct (base <=? 0); [lia|]. apply clamp_delay_bounds; assumption.
Qed.

Lemma stop_spec : forall count limit, stop count limit = true <-> (0 <= limit /\ limit < count).
Proof.
  intros. unfold stop. rewrite andb_true_iff.
  destruct (Z.gtb_spec count limit), (Z.gtb_spec limit (-1)); split; intros; try lia; intuition discriminate.
Qed.

Lemma backoff_stop_iff : forall count limit base max rnd p r,
  0 <= max ->
  (backoff count limit base max rnd p r = -1 <-> (0 <= limit /\ limit < count)).
Proof.
  intros count limit base max rnd p r Hmax. unfold backoff.
  destruct (stop count limit) eqn:Hs.
  - apply stop_spec in Hs. tauto.
  - pose proof (delay_fixed_bounds base max rnd p r Hmax) as Hb. split; [lia|].
    intros H. apply stop_spec in H. congruence.
Qed.

Lemma backoff_nonneg : forall count limit base max rnd p r,
  0 <= max -> ~ (0 <= limit /\ limit < count) ->
  0 <= backoff count limit base max rnd p r.
Proof.
  intros count limit base max rnd p r Hmax Hn. unfold backoff.
  destruct (stop count limit) eqn:Hs.
  - apply stop_spec in Hs. contradiction.
  - apply delay_fixed_bounds; assumption.
Qed.

Lemma backoff_le_max : forall count limit base max rnd p r,
  0 <= max -> backoff count limit base max rnd p r <= max.
Proof.
  intros count limit base max rnd p r Hmax. unfold backoff.
  destruct (stop count limit); [lia|]. apply delay_fixed_bounds; assumption.
Qed.
