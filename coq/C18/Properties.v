(* MV.C18.Properties — the statements of property C18 and nothing else.
   Every theorem is closed by [exact <lemma>] and followed by Print Assumptions. *)
(* Floats is deliberately not imported here: Print Assumptions then prints the kernel's primitive float and
   integer operations with their full names (PrimFloat.mul, PrimInt63.lsr, ...). They are listed because
   primitive operations have no body; they are evaluated by the kernel, they are not logical axioms. *)
From Coq Require Import ZArith Bool List.
From MV Require Import Lib.ListX C18.BackoffModel C18.BackoffProofs.
Open Scope Z_scope.

(* The stop signal -1 comes back exactly when a retry limit is set (limit >= 0) and the count exceeds it —
   for every count, limit, base, non-negative maximum, and whatever floats math.Pow and rand.Float64 return. *)
Theorem C18_stop_iff : forall count limit base max (rnd p r : PrimFloat.float),
  0 <= max ->
  (backoff count limit base max rnd p r = -1 <-> (0 <= limit /\ limit < count)).
Proof. exact backoff_stop_iff. Qed.
Print Assumptions C18_stop_iff.

(* Otherwise the delay is never negative ... *)
Theorem C18_nonneg : forall count limit base max (rnd p r : PrimFloat.float),
  0 <= max -> ~ (0 <= limit /\ limit < count) ->
  0 <= backoff count limit base max rnd p r.
Proof. exact backoff_nonneg. Qed.
Print Assumptions C18_nonneg.

(* ... and never above the maximum (finite, infinite or NaN intermediate results alike). *)
Theorem C18_le_max : forall count limit base max (rnd p r : PrimFloat.float),
  0 <= max -> backoff count limit base max rnd p r <= max.
Proof. exact backoff_le_max. Qed.
Print Assumptions C18_le_max.

(* non-vacuity of the three statements above: the witness of the defect (count 36, 200 ms, 3 s; p = 2^36) on the
   repaired model gives max, the code as it stands (backoff_orig) gives -2^63; count 4 with limit 3 stops *)
Example C18_bounds_example :
  backoff 36 (-1) 200000000 3000000000 (float_of_bits 4602678819172646912) (float_of_bits 4769312005385355264) (rand_of_k 4503599627370496) = 3000000000 /\
  backoff_orig 36 (-1) 200000000 3000000000 (float_of_bits 4602678819172646912) (float_of_bits 4769312005385355264) (rand_of_k 4503599627370496) = -9223372036854775808 /\
  backoff 4 3 200000000 3000000000 (float_of_bits 4602678819172646912) (float_of_bits 4625196817309499392) (rand_of_k 0) = -1 /\
  backoff 3 3 200000000 3000000000 (float_of_bits 4602678819172646912) (float_of_bits 4620693217682128896) (rand_of_k 0) = 1550000000.
Proof. vm_compute. repeat split; reflexivity. Qed.

(* ---------------------------------------------------------------------- statements about the binary64 values
   [FR x] is the real number a finite float denotes, [finite x] says x is neither infinite nor NaN,
   [pos_inf x] / [not_a_number x]: x is +Inf / NaN,
   [in_unit x] := finite x /\ 0 <= FR x <= 1 (documented range of the jitter factor; range of rand.Float64()),
   [exact_delay base rnd p r] := base*p + (r - 1/2)*rnd*base over the reals (the documented formula, p standing for
   multiplier^count as returned by math.Pow), [band_tol base p] := 4 * 2^-53 * (base*p + base).
   These theorems use the specification axioms of primitive floats (Coq.Floats.FloatAxioms) through Flocq, and
   Coq's classical real numbers; see docs/C18-NOTES.md. *)
From Coq Require Import Reals.
From MV Require Import C18.BackoffFloat.

(* Jitter band, with an explicit tolerance: while the documented value plus tolerance is below max, the returned
   delay differs from base*p + (r - 1/2)*rnd*base by at most band_tol (five roundings, relative 2^-51) + 1 ns
   (truncation).  Since |(r - 1/2)*rnd*base| <= rnd/2*base this is the band base*p ± rnd/2*base of the
   documentation, widened by the tolerance.  (The 2-ulp band of DESIGN §6 is tighter; this is the looser explicit
   relative-error band.)  Bases up to 2^53 ns = 104 days, where int64 -> float64 is exact. *)
Theorem C18_band : forall count limit base max (rnd p r : PrimFloat.float),
  ~ (0 <= limit /\ limit < count) ->
  0 < base < 9007199254740992 -> 0 <= max < 9223372036854775808 ->
  in_unit rnd -> in_unit r -> finite p -> (1 <= FR p)%R ->
  (exact_delay base rnd p r + band_tol base p < IZR max)%R ->
  (Rabs (IZR (backoff count limit base max rnd p r) - exact_delay base rnd p r) <= band_tol base p + 1)%R.
Proof. exact backoff_band'. Qed.
Print Assumptions C18_band.

Example C18_band_example : (* count 3, 200 ms, 3 s, rnd 0.5, p = 8, r = 0.25 *)
  let base := 200000000 in let max := 3000000000 in
  in_unit f_half /\ in_unit f_quarter /\ finite f_8 /\ (1 <= FR f_8)%R /\
  (exact_delay base f_half f_8 f_quarter + band_tol base f_8 < IZR max)%R /\
  backoff 3 (-1) base max f_half f_8 f_quarter = 1575000000.
Proof. exact band_example. Qed.

(* Saturation: once the documented value minus the tolerance reaches max — or math.Pow returned +Inf — the delay is
   exactly max.  The count only enters through p, so this holds however large the count: where base*p exceeds 2^63,
   exceeds MaxFloat64 (the product overflows to +Inf) or p itself is +Inf. *)
Theorem C18_saturates : forall count limit base max (rnd p r : PrimFloat.float),
  ~ (0 <= limit /\ limit < count) ->
  0 < base < 9007199254740992 -> 0 <= max < 9223372036854775808 ->
  in_unit rnd -> in_unit r ->
  (pos_inf p \/
   (finite p /\ (1 <= FR p)%R /\ (IZR max <= exact_delay base rnd p r - band_tol base p)%R)) ->
  backoff count limit base max rnd p r = max.
Proof. exact backoff_saturates'. Qed.
Print Assumptions C18_saturates.

Example C18_saturates_example : (* count 36: p = 2^36 *)
  let base := 200000000 in let max := 3000000000 in
  finite f_2p36 /\ (1 <= FR f_2p36)%R /\ (IZR max <= exact_delay base f_half f_2p36 f_quarter - band_tol base f_2p36)%R /\
  backoff 36 (-1) base max f_half f_2p36 f_quarter = max /\
  backoff_orig 36 (-1) base max f_half f_2p36 f_quarter = -9223372036854775808.
Proof. exact saturates_example. Qed.

(* The clamp itself, for EVERY float the sum delay + jitter may be: NaN, +Inf and every finite value >= max give
   exactly max (no conversion of an unrepresentable value ever reaches the caller); a finite value gives its
   truncation clamped to [0, max]. *)
Theorem C18_clamp_total : forall (x : PrimFloat.float) max,
  0 <= max < 9223372036854775808 ->
  ((not_a_number x \/ pos_inf x \/ (finite x /\ (IZR max <= FR x)%R)) -> clamp_delay x max = max) /\
  (finite x -> clamp_delay x max = Z.max 0 (Z.min max (trunc_of x))). (* trunc_of x: integer part of FR x, toward zero *)
Proof. intros x max H. split; [apply clamp_saturates_float; exact H | apply clamp_finite_float; exact H]. Qed.
Print Assumptions C18_clamp_total.

(* ====================================================================== retry helpers (toolkit/retry.go)
   [pat] is the success/failure pattern of the retried operation, one outcome per invocation; every theorem
   holds for every pattern.  A run = (calls, conds, sleeps, res): number of invocations of the operation
   and of the interruption condition, the arguments of the successive time.Sleep calls, what came back
   (RErr c / RMax c: the error of invocation number c, bare / wrapped in "max retries reached"). *)
From MV Require Import C18.RetryModel C18.RetryProofs.

(* The operation is invoked at most the documented number of times: Retry/RetryAsync at most count times;
   RetryByRule retries only while the rule returns a positive interval; (Conditional)RetryByExponentialBackoff
   at most 1 + maxRetries times, and "max retries reached" is only reported once retry number maxRetries failed. *)
Theorem C18_retry_count : forall (pat : list outcome),
  (forall count interval, Z.of_nat (calls (retry count interval pat)) <= Z.max 0 count) /\
  (forall count interval cb, Z.of_nat (calls (retry_async count interval cb pat)) <= Z.max 0 count) /\
  (forall rule, (calls (by_rule rule pat) <= S (length rule))%nat /\
                (forall j, (j + 1 < calls (by_rule rule pat))%nat -> 0 < nth j rule 0) /\
                (forall c, res (by_rule rule pat) = RErr c -> nth c rule 0 <= 0)) /\
  (forall hascond cond maxRetries base max rnd orc ign,
      let r := cond_retry hascond cond maxRetries base max rnd orc ign pat in
      Z.of_nat (calls r) <= Z.max 0 maxRetries + 1 /\
      (forall j, (j + 1 < calls r)%nat -> Z.of_nat j < maxRetries) /\
      (forall c, res r = RMax c -> maxRetries <= Z.of_nat c)).
Proof. exact retry_count_all. Qed.
Print Assumptions C18_retry_count.

(* Every helper stops at the first success and reports it: every invocation but the last one failed, a
   successful last invocation yields nil (RNone for the helpers that deliver nothing), nil is only reported
   after a success (or when count <= 0 left nothing to try), and an error that comes back — bare or wrapped —
   is the error of the last invocation (see [stops_well] in RetryProofs.v). *)
Theorem C18_retry_stops_at_success : forall (pat : list outcome),
  (forall count interval, stops_well pat (retry count interval pat)) /\
  (forall count interval cb, stops_well pat (retry_async count interval cb pat)) /\
  (forall interval, stops_well pat (forever interval pat)) /\
  (forall rule, stops_well pat (by_rule rule pat)) /\
  (forall hascond cond maxRetries base max rnd orc ign,
      stops_well pat (cond_retry hascond cond maxRetries base max rnd orc ign pat)).
Proof. exact retry_stops_well_all. Qed.
Print Assumptions C18_retry_stops_at_success.

(* Ignore-list: an error matching the ignore-list (errors.Is along its chain) is never retried, ends the run and
   comes back unwrapped; RErr only ever reports such an error, "max retries reached" never wraps one. *)
Theorem C18_ignore_list : forall hascond cond maxRetries base max rnd orc ign (pat : list outcome),
  let r := cond_retry hascond cond maxRetries base max rnd orc ign pat in
  (forall j e, (j + 1 < calls r)%nat -> nth_error pat j = Some (Fail e) -> ignored ign e = false) /\
  (forall c, res r = RErr c -> calls r = S c /\ exists e, nth_error pat c = Some (Fail e) /\ ignored ign e = true) /\
  (forall c, res r = RMax c -> calls r = S c /\ exists e, nth_error pat c = Some (Fail e) /\ ignored ign e = false) /\
  (forall e, calls r <> 0%nat -> nth_error pat (pred (calls r)) = Some (Fail e) -> ignored ign e = true ->
             res r = RErr (pred (calls r))).
Proof. exact cond_retry_ignore. Qed.
Print Assumptions C18_ignore_list.

(* Interruption: without a condition nothing is ever interrupted; with one, cond() is consulted before every
   invocation, every invocation was preceded by cond() = true (so the operation is never invoked once cond()
   has returned false), "interrupted" comes back exactly when the last consulted cond() was false, and then
   cond() was consulted once more than the operation was invoked. *)
Theorem C18_interrupt : forall hascond cond maxRetries base max rnd orc ign (pat : list outcome),
  let r := cond_retry hascond cond maxRetries base max rnd orc ign pat in
  (hascond = false -> conds r = 0%nat /\ res r <> RInterrupted) /\
  (hascond = true ->
     (forall j, (j < calls r)%nat -> nth j cond true = true) /\
     (res r = RInterrupted -> conds r = S (calls r) /\ nth (calls r) cond true = false) /\
     (res r <> RInterrupted -> res r <> ROutOfFuel -> conds r = calls r)).
Proof. exact cond_retry_interrupt. Qed.
Print Assumptions C18_interrupt.

(* Sleeps are never negative or wrapped around: the back-off helper only sleeps delays in [0, max] (whatever
   floats math.Pow and rand.Float64 return), one per failed invocation that is retried; Retry, RetryAsync and
   RetryForever sleep exactly the given interval; RetryByRule only sleeps positive intervals. *)
Theorem C18_sleep_nonneg : forall (pat : list outcome),
  (forall hascond cond maxRetries base max rnd orc ign, 0 <= max ->
      let r := cond_retry hascond cond maxRetries base max rnd orc ign pat in
      Forall (fun s => 0 <= s <= max) (sleeps r) /\ (length (sleeps r) <= calls r <= S (length (sleeps r)))%nat) /\
  (forall count interval, Forall (fun s => s = interval) (sleeps (retry count interval pat))) /\
  (forall count interval cb, Forall (fun s => s = interval) (sleeps (retry_async count interval cb pat))) /\
  (forall interval, Forall (fun s => s = interval) (sleeps (forever interval pat))) /\
  (forall rule, Forall (fun s => 0 < s) (sleeps (by_rule rule pat))).
Proof. exact retry_sleeps_all. Qed.
Print Assumptions C18_sleep_nonneg.

(* "... and return the last error otherwise": when the last invocation failed (and the run was neither cut short
   by an exhausted pattern nor interrupted) the helper returns that invocation's error — Retry and RetryByRule bare,
   the back-off helper bare (ignore-list) or wrapped in "max retries reached" once maxRetries is reached. *)
Theorem C18_last_error : forall (pat : list outcome),
  (forall count interval, let r := retry count interval pat in
      (calls r = 0%nat -> res r = RNil \/ res r = ROutOfFuel) /\
      (res r <> ROutOfFuel -> calls r <> 0%nat -> fails_at pat (pred (calls r)) -> res r = RErr (pred (calls r)))) /\
  (forall rule, let r := by_rule rule pat in
      res r <> ROutOfFuel -> calls r <> 0%nat -> fails_at pat (pred (calls r)) -> res r = RErr (pred (calls r))) /\
  (forall hascond cond maxRetries base max rnd orc ign,
      let r := cond_retry hascond cond maxRetries base max rnd orc ign pat in
      res r <> ROutOfFuel -> res r <> RInterrupted -> calls r <> 0%nat -> fails_at pat (pred (calls r)) ->
      res r = RErr (pred (calls r)) \/ (res r = RMax (pred (calls r)) /\ maxRetries <= Z.of_nat (pred (calls r)))).
Proof. exact retry_last_error_all. Qed.
Print Assumptions C18_last_error.

(* non-vacuity of the retry theorems: concrete runs of each helper (failures, first success, rule returning 0,
   interruption, max retries, ignore-list, and a sleep clamped to max where the product is 1000 * 2^36 ns) *)
Example C18_retry_examples :
  let e := fun n : nat => Fail [n] in
  let orc := [(f_8, f_quarter); (f_8, f_quarter); (f_2p36, f_half); (f_8, f_quarter)] in
  retry 3 1000 [e 1; e 2; e 3; Ok]%nat = {| calls := 3; conds := 0; sleeps := [1000; 1000; 1000]; res := RErr 2 |} /\
  retry 3 1000 [e 1; Ok; e 3]%nat = {| calls := 2; conds := 0; sleeps := [1000]; res := RNil |} /\
  retry_async 2 5 false [e 1; e 2]%nat = {| calls := 2; conds := 0; sleeps := [5; 5]; res := RNone |} /\
  forever 7 [e 1; e 2; Ok]%nat = {| calls := 3; conds := 0; sleeps := [7; 7]; res := RNone |} /\
  by_rule [10; 20; 0; 5] [e 1; e 2; e 3; e 4]%nat = {| calls := 3; conds := 0; sleeps := [10; 20]; res := RErr 2 |} /\
  cond_retry true [true; true; false] 5 1000 1000000 f_half orc [] [e 1; e 2; e 3; e 4]%nat
    = {| calls := 2; conds := 3; sleeps := [7875; 7875]; res := RInterrupted |} /\
  cond_retry false [] 2 1000 1000000 f_half orc [7%nat] [e 1; e 2; e 3; e 4]%nat
    = {| calls := 3; conds := 0; sleeps := [7875; 7875]; res := RMax 2 |} /\
  cond_retry false [] 5 1000 1000000 f_half orc [7%nat] [e 1; Fail [2; 7]; e 3; e 4]%nat
    = {| calls := 2; conds := 0; sleeps := [7875]; res := RErr 1 |} /\
  cond_retry false [] 5 1000 1000000 f_half orc [7%nat] [e 1; e 2; e 3; Ok]%nat
    = {| calls := 4; conds := 0; sleeps := [7875; 7875; 1000000]; res := RNil |}.
Proof. vm_compute. repeat split; reflexivity. Qed.
