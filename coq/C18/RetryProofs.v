(* MV.C18.RetryProofs — proofs about the retry-helper models (RetryModel.v): call counts, stopping at the
   first success, ignore-lists, interruption, sleeps, which error comes back.  All by induction over the
   outcome pattern, for every pattern and every parameter.  No axioms. *)
From Coq Require Import ZArith Bool List Floats Lia.
From MV Require Import C18.BackoffModel C18.BackoffProofs C18.RetryModel.
Import ListNotations.
Open Scope Z_scope.

Arguments Z.add : simpl never.
Arguments Z.sub : simpl never.
Arguments Z.of_nat : simpl never.
Arguments Z.max : simpl never.
Arguments Z.leb : simpl never.
Arguments Z.geb : simpl never.

Ltac conj_split := repeat match goal with |- _ /\ _ => split end.

(* every invocation before number [n] failed *)
Definition failed_before (pat : list outcome) (n : nat) : Prop :=
  forall j, (j < n)%nat -> exists e, nth_error pat j = Some (Fail e).

Lemma failed_before_0 pat : failed_before pat 0.
Proof. intros j H. lia. Qed.

Lemma failed_before_cons e t n : failed_before t n -> failed_before (Fail e :: t) (S n).
Proof.
  intros H [|j] Hj; cbn.
  - eauto.
  - apply H. lia.
Qed.

(* of [n] invocations the last one failed *)
Definition last_failed (pat : list outcome) (n : nat) : Prop :=
  n <> 0%nat /\ exists e, nth_error pat (pred n) = Some (Fail e).

(* what a finished run looks like, relative to a pattern whose first element is invocation number [i] *)
Record shape (i : nat) (pat : list outcome) (r : run) : Prop := {
  sh_len : (calls r <= length pat)%nat;
  sh_failed : failed_before pat (pred (calls r));
  sh_nsleeps : (length (sleeps r) <= calls r)%nat;
  sh_nil : res r = RNil -> calls r = 0%nat \/ nth_error pat (pred (calls r)) = Some Ok;
  sh_none : res r = RNone -> calls r = 0%nat \/ nth_error pat (pred (calls r)) = Some Ok;
  sh_err : forall c, res r = RErr c -> (calls r = 0%nat) \/ (c = (i + pred (calls r))%nat /\ last_failed pat (calls r));
  sh_max : forall c, res r = RMax c -> (c = (i + pred (calls r))%nat /\ last_failed pat (calls r));
  sh_cont : res r = RInterrupted \/ res r = ROutOfFuel -> failed_before pat (calls r);
  sh_bad : res r <> RBad
}.

Lemma shape_after_fail i e t s r :
  shape (S i) t r -> (calls r = 0%nat -> forall c, res r <> RErr c \/ c = i) ->
  (calls r = 0%nat -> res r <> RNil /\ res r <> RNone) ->
  shape i (Fail e :: t) (after_fail s r).
Proof.
  intros [L F NS N NO E M Ct B] H0 H0n. constructor; cbn [calls sleeps res after_fail length pred].
  - lia.
  - destruct (calls r) as [|n] eqn:Hc.
    + apply failed_before_0.
    + apply failed_before_cons. exact F.
  - lia.
  - intros Hr. right. destruct (N Hr) as [Hz|Hn].
    + exfalso. destruct (H0n Hz) as [Hn1 Hn2]. congruence.
    + destruct (calls r) as [|n] eqn:Hc.
      * exfalso. destruct (H0n eq_refl) as [Hn1 Hn2]. congruence.
      * cbn. exact Hn.
  - intros Hr. right. destruct (NO Hr) as [Hz|Hn].
    + exfalso. destruct (H0n Hz) as [Hn1 Hn2]. congruence.
    + destruct (calls r) as [|n] eqn:Hc.
      * exfalso. destruct (H0n eq_refl) as [Hn1 Hn2]. congruence.
      * cbn. exact Hn.
  - intros c Hr. right. destruct (E c Hr) as [Hz|[Hc [Hl [e' He']]]].
    + destruct (H0 Hz c) as [Hne|Hci]; [contradiction|]. subst c. rewrite Hz.
      split; [cbn; lia|]. split; [discriminate|]. exists e. reflexivity.
    + destruct (calls r) as [|n] eqn:Hcalls; [contradiction|]. cbn in *.
      split; [lia|]. split; [discriminate|]. exists e'. exact He'.
  - intros c Hr. destruct (M c Hr) as [Hc [Hl [e' He']]].
    destruct (calls r) as [|n] eqn:Hcalls; [contradiction|]. cbn in *.
    split; [lia|]. split; [discriminate|]. exists e'. exact He'.
  - intros Hr. apply failed_before_cons. apply Ct. exact Hr.
  - exact B.
Qed.

Lemma shape_done_ok i t : forall rs, rs = RNil \/ rs = RNone -> shape i (Ok :: t) (done 1 rs).
Proof.
  intros rs Hrs. constructor; cbn; try lia; try (intros; right; reflexivity).
  - apply failed_before_0.
  - intros c H. destruct Hrs; subst; discriminate.
  - intros c H. destruct Hrs; subst; discriminate.
  - intros [H|H]; destruct Hrs; subst; discriminate.
  - destruct Hrs; subst; discriminate.
Qed.

Lemma shape_done_fail i e t : forall rs, rs = RErr i \/ rs = RMax i -> shape i (Fail e :: t) (done 1 rs).
Proof.
  intros rs Hrs. constructor; cbn; try lia.
  - apply failed_before_0.
  - intros H. destruct Hrs; subst; discriminate.
  - intros H. destruct Hrs; subst; discriminate.
  - intros c H. right. split.
    + destruct Hrs; subst; [injection H; lia | discriminate].
    + split; [discriminate|]. exists e. reflexivity.
  - intros c H. split.
    + destruct Hrs; subst; [discriminate | injection H; lia].
    + split; [discriminate|]. exists e. reflexivity.
  - intros [H|H]; destruct Hrs; subst; discriminate.
  - destruct Hrs; subst; discriminate.
Qed.

Lemma shape_done_0 i pat rs : rs <> RBad -> (forall c, rs <> RMax c) -> shape i pat (done 0 rs).
Proof.
  intros Hb Hm. constructor; cbn; try lia; auto.
  - apply failed_before_0.
  - intros c H. exfalso. exact (Hm c H).
  - intros _. apply failed_before_0.
Qed.

(* ------------------------------------------------------------------ Retry *)

Lemma retry_from_shape : forall pat i rem iv last,
  (last = RNil /\ i = 0%nat) \/ (exists j, last = RErr j /\ i = S j) ->
  let r := retry_from i rem iv pat last in
  shape i pat r
  /\ Z.of_nat (calls r) <= Z.max 0 rem
  /\ Forall (fun s => s = iv) (sleeps r)
  /\ (calls r = 0%nat -> res r = last \/ res r = ROutOfFuel)
  /\ (forall c, res r <> RMax c) /\ res r <> RInterrupted /\ res r <> RNone.
Proof.
  induction pat as [|o t IH]; intros i rem iv last Hlast; cbn [retry_from].
  - destruct (Z.leb_spec rem 0) as [Hr|Hr]; cbn.
    + conj_split; try lia; auto; try discriminate.
      * apply shape_done_0; destruct Hlast as [[-> _]|[j [-> _]]]; discriminate.
      * destruct Hlast as [[-> _]|[j [-> _]]]; discriminate.
      * destruct Hlast as [[-> _]|[j [-> _]]]; discriminate.
      * destruct Hlast as [[-> _]|[j [-> _]]]; discriminate.
    + conj_split; try lia; auto; try discriminate.
      apply shape_done_0; discriminate.
  - destruct (Z.leb_spec rem 0) as [Hr|Hr].
    + cbn. conj_split; try lia; auto; try discriminate.
      * apply shape_done_0; destruct Hlast as [[-> _]|[j [-> _]]]; discriminate.
      * destruct Hlast as [[-> _]|[j [-> _]]]; discriminate.
      * destruct Hlast as [[-> _]|[j [-> _]]]; discriminate.
      * destruct Hlast as [[-> _]|[j [-> _]]]; discriminate.
    + destruct o as [|e].
      * cbn. conj_split; try lia; auto; try discriminate.
        apply shape_done_ok. left; reflexivity.
      * specialize (IH (S i) (rem - 1) iv (RErr i)).
        destruct IH as [Sh [Cnt [Sl [Z0 [NM [NI NN]]]]]]; [right; exists i; split; reflexivity|].
        cbn [calls sleeps res after_fail]. conj_split; auto.
        -- apply shape_after_fail; [exact Sh| |].
           ++ intros Hz c. destruct (Z0 Hz) as [H|H]; rewrite H.
              ** destruct (Nat.eq_dec c i); [right; assumption|left; congruence].
              ** left; discriminate.
           ++ intros Hz. destruct (Z0 Hz) as [H|H]; rewrite H; split; discriminate.
        -- lia.
        -- intros H. discriminate H.
Qed.

(* ------------------------------------------------------------------ RetryForever *)

Lemma forever_shape : forall pat i iv,
  let r := forever iv pat in
  shape i pat r /\ Forall (fun s => s = iv) (sleeps r)
  /\ (calls r = 0%nat -> res r = ROutOfFuel)
  /\ (forall c, res r <> RErr c) /\ (forall c, res r <> RMax c) /\ res r <> RInterrupted /\ res r <> RNil.
Proof.
  induction pat as [|o t IH]; intros i iv; cbn [forever].
  - cbn. conj_split; auto; try discriminate. apply shape_done_0; discriminate.
  - destruct o as [|e].
    + cbn. conj_split; auto; try discriminate. apply shape_done_ok. right; reflexivity.
    + destruct (IH (S i) iv) as [Sh [Sl [Z0 [NE [NM [NI NN]]]]]].
      cbn [calls sleeps res after_fail]. conj_split; auto.
      * apply shape_after_fail; [exact Sh| |].
        -- intros _ c. left. apply NE.
        -- intros Hz. rewrite (Z0 Hz). split; discriminate.
      * intros H; discriminate H.
Qed.

(* ------------------------------------------------------------------ RetryByRule *)

Lemma nth_pos_lt (rule : list Z) i : 0 < nth i rule 0 -> (i < length rule)%nat.
Proof.
  intros H. destruct (Nat.lt_ge_cases i (length rule)) as [Hl|Hl]; [exact Hl|].
  rewrite nth_overflow in H by exact Hl. lia.
Qed.

Lemma by_rule_shape : forall pat i rule,
  (i <= length rule)%nat ->
  let r := by_rule_from i rule pat in
  shape i pat r
  /\ Forall (fun s => 0 < s) (sleeps r)
  /\ (i + calls r <= S (length rule))%nat
  /\ (forall j, (i <= j)%nat -> (j + 1 < i + calls r)%nat -> 0 < nth j rule 0)
  /\ (calls r = 0%nat -> res r = ROutOfFuel)
  /\ (forall c, res r = RErr c -> nth c rule 0 <= 0)
  /\ (forall c, res r <> RMax c) /\ res r <> RInterrupted /\ res r <> RNone.
Proof.
  induction pat as [|o t IH]; intros i rule Hi; cbn [by_rule_from].
  - cbn. conj_split; auto; try discriminate; try lia. apply shape_done_0; discriminate.
  - destruct o as [|e].
    + cbn. conj_split; auto; try discriminate; try lia.
      apply shape_done_ok. left; reflexivity.
    + destruct (Z.leb_spec (nth i rule 0) 0) as [Hn|Hn].
      * cbn. conj_split; auto; try discriminate; try lia.
        -- apply shape_done_fail. left; reflexivity.
        -- intros c H. injection H as <-. exact Hn.
      * pose proof (nth_pos_lt rule i Hn) as Hlt.
        destruct (IH (S i) rule) as [Sh [Sl [Cnt [Pos [Z0 [RE [NM [NI NN]]]]]]]]; [lia|].
        cbn [calls sleeps res after_fail]. conj_split; auto.
        -- apply shape_after_fail; [exact Sh| |].
           ++ intros Hz c. rewrite (Z0 Hz). left; discriminate.
           ++ intros Hz. rewrite (Z0 Hz). split; discriminate.
        -- lia.
        -- intros j Hj1 Hj2. destruct (Nat.eq_dec j i) as [->|Hne]; [exact Hn|]. apply Pos; lia.
        -- intros H; discriminate H.
Qed.

(* ------------------------------------------------------------------ (Conditional)RetryByExponentialBackoff *)

Lemma shape_with_cond i pat r : shape i pat r -> shape i pat (with_cond r).
Proof. intros [L F NS N NO E M Ct B]. constructor; cbn [with_cond calls conds sleeps res]; assumption. Qed.

Lemma nth_tl {A} (l : list A) d j : nth j (tl l) d = nth (S j) l d.
Proof. destruct l; cbn; [destruct j; reflexivity | reflexivity]. Qed.

Lemma hd_nth {A} (l : list A) d : hd d l = nth 0 l d.
Proof. destruct l; reflexivity. Qed.

(* the invariant of the loop of ConditionalRetryByExponentialBackoff; [good] is any property of the sleeps *)
Record cshape (hascond : bool) (maxRetries : Z) (ign : list nat) (good : Z -> Prop)
       (i : nat) (cond : list bool) (pat : list outcome) (r : run) : Prop := {
  c_shape : shape i pat r;
  c_sleeps : Forall good (sleeps r);
  c_nsleeps : (calls r <= S (length (sleeps r)))%nat;
  c_count : Z.of_nat (i + calls r) <= Z.max (Z.of_nat i) (Z.max 0 maxRetries + 1);
  c_nocond : hascond = false -> conds r = 0%nat /\ res r <> RInterrupted;
  c_called : hascond = true -> forall j, (j < calls r)%nat -> nth j cond true = true;
  c_intr : hascond = true -> res r = RInterrupted -> conds r = S (calls r) /\ nth (calls r) cond true = false;
  c_conds : hascond = true -> res r <> RInterrupted -> res r <> ROutOfFuel -> conds r = calls r;
  c_zero : calls r = 0%nat -> res r = ROutOfFuel \/ res r = RInterrupted;
  c_err : forall c, res r = RErr c -> exists e, nth_error pat (pred (calls r)) = Some (Fail e) /\ ignored ign e = true;
  c_max : forall c, res r = RMax c -> maxRetries <= Z.of_nat c /\
            exists e, nth_error pat (pred (calls r)) = Some (Fail e) /\ ignored ign e = false;
  c_cont : res r = RInterrupted \/ res r = ROutOfFuel -> forall j e, (j < calls r)%nat -> nth_error pat j = Some (Fail e) ->
                          ignored ign e = false /\ Z.of_nat (i + j) < maxRetries;
  c_retried : forall j e, (j + 1 < calls r)%nat -> nth_error pat j = Some (Fail e) ->
                          ignored ign e = false /\ Z.of_nat (i + j) < maxRetries;
  c_none : res r <> RNone
}.

Definition wrap (hascond : bool) (r : run) : run := if hascond then with_cond r else r.

Lemma cond_loop_unfold sleep_of hascond maxRetries base max rnd ign i cond orc pat :
  cond_loop sleep_of hascond maxRetries base max rnd ign i cond orc pat =
  if hascond && negb (hd true cond) then with_cond (done 0 RInterrupted)
  else wrap hascond
    match pat with
    | [] => out_of_fuel
    | Ok :: _ => done 1 RNil
    | Fail e :: t =>
        if ignored ign e then done 1 (RErr i)
        else if Z.of_nat i >=? maxRetries then done 1 (RMax i)
        else match orc with
             | [] => out_of_fuel
             | (p, r) :: orc' =>
                 after_fail (sleep_of base max rnd p r)
                   (cond_loop sleep_of hascond maxRetries base max rnd ign (S i) (tl cond) orc' t)
             end
    end.
Proof.
  unfold wrap. destruct hascond, pat as [|[|e] t]; cbn [cond_loop andb negb]; try reflexivity;
    destruct (hd true cond); reflexivity.
Qed.

Ltac crush_leaf :=
  cbn [wrap with_cond done out_of_fuel calls conds sleeps res length pred nth_error] in *;
  intros; try discriminate; try lia; auto.

Lemma cshape_leaf hascond maxRetries ign good i cond pat n rs :
  shape i pat (done n rs) -> (n <= 1)%nat ->
  (n = 1%nat -> hd true cond = true \/ hascond = false) ->
  (n = 0%nat -> rs = ROutOfFuel) ->
  (n = 1%nat -> Z.of_nat i <= Z.max 0 maxRetries) ->
  rs <> RInterrupted -> rs <> RNone ->
  (forall c, rs = RErr c -> exists e, nth_error pat 0 = Some (Fail e) /\ ignored ign e = true) ->
  (forall c, rs = RMax c -> maxRetries <= Z.of_nat c /\ exists e, nth_error pat 0 = Some (Fail e) /\ ignored ign e = false) ->
  (n = 1%nat -> rs <> ROutOfFuel) ->
  cshape hascond maxRetries ign good i cond pat (wrap hascond (done n rs)).
Proof.
  intros Sh Hn Hhd H0 Hcnt HnI HnN HE HM HnO.
  assert (Sh' : shape i pat (wrap hascond (done n rs))).
  { destruct hascond; cbn [wrap]; [apply shape_with_cond|]; exact Sh. }
  constructor; try exact Sh'; destruct hascond; crush_leaf; try (exfalso; congruence).
  - destruct j; [|lia]. rewrite <- hd_nth. destruct (Hhd ltac:(lia)); [assumption|discriminate].
  - destruct n as [|[|n]]; [exfalso; rewrite H0 in * by reflexivity; congruence | reflexivity | lia].
  - destruct n as [|[|n]]; [rewrite H0 in * by reflexivity; discriminate | cbn; eapply HE; eauto | lia].
  - destruct n as [|[|n]]; [rewrite H0 in * by reflexivity; discriminate | cbn; eapply HE; eauto | lia].
  - destruct n as [|[|n]]; [rewrite H0 in * by reflexivity; discriminate | cbn; eapply HM; eauto | lia].
  - destruct n as [|[|n]]; [rewrite H0 in * by reflexivity; discriminate | cbn; eapply HM; eauto | lia].
  - destruct n as [|[|n]]; [lia| |lia]. exfalso.
    match goal with H : _ \/ _ |- _ => destruct H as [H|H] end; [exact (HnI H) | exact (HnO eq_refl H)].
  - destruct n as [|[|n]]; [lia| |lia]. exfalso.
    match goal with H : _ \/ _ |- _ => destruct H as [H|H] end; [exact (HnI H) | exact (HnO eq_refl H)].
Qed.

Lemma cshape_interrupted maxRetries ign good i cond pat :
  hd true cond = false ->
  cshape true maxRetries ign good i cond pat (with_cond (done 0 RInterrupted)).
Proof.
  intros Hhd. constructor; crush_leaf.
  - apply shape_with_cond, shape_done_0; discriminate.
  - split; [reflexivity|]. rewrite <- hd_nth. exact Hhd.
  - exfalso; auto.
Qed.

Lemma cshape_step hascond maxRetries ign good i cond e t s r' :
  cshape hascond maxRetries ign good (S i) (tl cond) t r' ->
  good s -> ignored ign e = false -> Z.of_nat i < maxRetries ->
  (hascond = true -> hd true cond = true) ->
  cshape hascond maxRetries ign good i cond (Fail e :: t) (wrap hascond (after_fail s r')).
Proof.
  intros [Sh Sl NSl Cnt NC Ca In Co Z0 Er Mx Ct Re Nn] Hs Hig Hi Hhd.
  assert (Sh0 : shape i (Fail e :: t) (after_fail s r')).
  { apply shape_after_fail; [exact Sh| |].
    - intros Hz c. left. destruct (Z0 Hz) as [H|H]; rewrite H; discriminate.
    - intros Hz. destruct (Z0 Hz) as [H|H]; rewrite H; split; discriminate. }
  assert (Sh' : shape i (Fail e :: t) (wrap hascond (after_fail s r'))).
  { destruct hascond; cbn [wrap]; [apply shape_with_cond|]; exact Sh0. }
  assert (Hres : res (wrap hascond (after_fail s r')) = res r') by (destruct hascond; reflexivity).
  assert (Hcalls : calls (wrap hascond (after_fail s r')) = S (calls r')) by (destruct hascond; reflexivity).
  assert (Hsleeps : sleeps (wrap hascond (after_fail s r')) = s :: sleeps r') by (destruct hascond; reflexivity).
  constructor; try exact Sh'; rewrite ?Hres, ?Hcalls, ?Hsleeps.
  - constructor; assumption.
  - cbn [length]. lia.
  - lia.
  - intros Hc. subst hascond. cbn. apply NC. reflexivity.
  - intros Hc j Hj. destruct j as [|j].
    + rewrite <- hd_nth. apply Hhd, Hc.
    + rewrite <- nth_tl. apply Ca; [exact Hc|lia].
  - intros Hc Hr. subst hascond. cbn [wrap with_cond after_fail conds].
    destruct (In eq_refl Hr) as [H1 H2]. split; [lia|]. rewrite <- nth_tl. exact H2.
  - intros Hc Hr1 Hr2. subst hascond. cbn [wrap with_cond after_fail conds]. rewrite (Co eq_refl Hr1 Hr2). reflexivity.
  - discriminate.
  - intros c Hr. destruct (Er c Hr) as [e' [He1 He2]]. exists e'. split; [|exact He2].
    destruct (calls r') as [|k] eqn:Hk.
    + exfalso. destruct (Z0 eq_refl) as [H|H]; rewrite H in Hr; discriminate.
    + cbn in *. exact He1.
  - intros c Hr. destruct (Mx c Hr) as [Hm [e' [He1 He2]]]. split; [exact Hm|]. exists e'. split; [|exact He2].
    destruct (calls r') as [|k] eqn:Hk.
    + exfalso. destruct (Z0 eq_refl) as [H|H]; rewrite H in Hr; discriminate.
    + cbn in *. exact He1.
  - intros Hr j e' Hj Hn. destruct j as [|j].
    + cbn in Hn. injection Hn as <-. split; [exact Hig|lia].
    + cbn in Hn. destruct (Ct Hr j e') as [H1 H2]; [lia|exact Hn|]. split; [exact H1|lia].
  - intros j e' Hj Hn. destruct j as [|j].
    + cbn in Hn. injection Hn as <-. split; [exact Hig|lia].
    + cbn in Hn. destruct (Re j e') as [H1 H2]; [lia|exact Hn|]. split; [exact H1|lia].
  - exact Nn.
Qed.

Lemma cond_loop_cshape sleep_of hascond maxRetries base max rnd ign (good : Z -> Prop) :
  (forall p r, good (sleep_of base max rnd p r)) ->
  forall pat i cond orc,
  Z.of_nat i <= Z.max 0 maxRetries ->
  cshape hascond maxRetries ign good i cond pat
         (cond_loop sleep_of hascond maxRetries base max rnd ign i cond orc pat).
Proof.
  intros Hgood. induction pat as [|o t IH]; intros i cond orc Hi; rewrite cond_loop_unfold.
  - destruct hascond eqn:Hc; cbn [andb].
    + destruct (hd true cond) eqn:Hhd; cbn [negb].
      * apply cshape_leaf; crush_leaf. apply shape_done_0; discriminate.
      * apply cshape_interrupted. exact Hhd.
    + apply cshape_leaf; crush_leaf. apply shape_done_0; discriminate.
  - assert (Hwrap : hascond && negb (hd true cond) = false -> hd true cond = true \/ hascond = false).
    { destruct hascond, (hd true cond); cbn; auto. }
    destruct (hascond && negb (hd true cond)) eqn:Hint.
    + destruct hascond; [|discriminate]. apply cshape_interrupted. destruct (hd true cond); [discriminate|reflexivity].
    + specialize (Hwrap eq_refl). destruct o as [|e].
      * apply cshape_leaf; crush_leaf. apply shape_done_ok. left; reflexivity.
      * destruct (ignored ign e) eqn:Hig.
        -- apply cshape_leaf; crush_leaf.
           ++ apply shape_done_fail. left; reflexivity.
           ++ exists e. split; [reflexivity|exact Hig].
        -- destruct (Z.geb_spec (Z.of_nat i) maxRetries) as [Hge|Hlt].
           ++ apply cshape_leaf; crush_leaf.
              ** apply shape_done_fail. right; reflexivity.
              ** injection H as <-. split; [lia|]. exists e. split; [reflexivity|exact Hig].
           ++ destruct orc as [|[p r] orc'].
              ** apply cshape_leaf; crush_leaf. apply shape_done_0; discriminate.
              ** apply cshape_step; auto.
                 --- apply IH. lia.
                 --- intros Hc. destruct Hwrap as [H|H]; [exact H|congruence].
Qed.

(* ================================================================== statements used by Properties.v *)

Definition fails_at (pat : list outcome) (j : nat) : Prop := exists e, nth_error pat j = Some (Fail e).

(* a finished run over [pat] that stopped where it should and reports what it should *)
Record stops_well (pat : list outcome) (r : run) : Prop := {
  (* every invocation but the last one failed: nothing is invoked after a success *)
  sw_prefix_failed : forall j, (j + 1 < calls r)%nat -> fails_at pat j;
  (* a successful last invocation is reported as success (RNone: helpers that deliver nothing) *)
  sw_success : calls r <> 0%nat -> nth_error pat (pred (calls r)) = Some Ok -> res r = RNil \/ res r = RNone;
  (* success is only reported after a success (or when nothing was to be tried) *)
  sw_nil : res r = RNil -> calls r = 0%nat \/ nth_error pat (pred (calls r)) = Some Ok;
  (* an error that comes back, bare or wrapped, is the error of the LAST invocation *)
  sw_last_error : forall c, res r = RErr c \/ res r = RMax c -> calls r = S c /\ fails_at pat c;
  sw_nsleeps : (length (sleeps r) <= calls r)%nat
}.

Lemma shape_stops_well pat r :
  shape 0 pat r -> (calls r = 0%nat -> forall c, res r <> RErr c) -> stops_well pat r.
Proof.
  intros [L F NS N NO E M Ct B] H0. constructor.
  - intros j Hj. apply F. lia.
  - intros Hc Hok.
    destruct (res r) as [|c|c| | | |] eqn:Hr; auto.
    + destruct (E c eq_refl) as [Hz|[_ [_ [e He]]]]; [contradiction|]. congruence.
    + destruct (M c eq_refl) as [_ [_ [e He]]]. congruence.
    + destruct (Ct (or_introl eq_refl) (pred (calls r))) as [e He]; [lia|congruence].
    + destruct (Ct (or_intror eq_refl) (pred (calls r))) as [e He]; [lia|congruence].
    + contradiction.
  - exact N.
  - intros c [Hr|Hr].
    + destruct (E c Hr) as [Hz|[Hc [Hnz [e He]]]]; [exfalso; exact (H0 Hz c Hr)|].
      cbn in Hc. subst c. split; [lia|]. exists e. exact He.
    + destruct (M c Hr) as [Hc [Hnz [e He]]]. cbn in Hc. subst c. split; [lia|]. exists e. exact He.
  - exact NS.
Qed.

(* ---- Retry *)
Lemma retry_facts count iv pat :
  let r := retry count iv pat in
  stops_well pat r
  /\ Z.of_nat (calls r) <= Z.max 0 count
  /\ Forall (fun s => s = iv) (sleeps r)
  /\ (calls r = 0%nat -> res r = RNil \/ res r = ROutOfFuel)
  /\ (res r <> ROutOfFuel -> calls r <> 0%nat -> fails_at pat (pred (calls r)) -> res r = RErr (pred (calls r))).
Proof.
  unfold retry. destruct (retry_from_shape pat 0%nat count iv RNil) as [Sh [Cnt [Sl [Z0 [NM [NI NN]]]]]]; [left; auto|].
  cbn zeta. conj_split; auto.
  - apply shape_stops_well; [exact Sh|]. intros Hz c. destruct (Z0 Hz) as [H|H]; rewrite H; discriminate.
  - intros Hoof Hnz [e He].
    pose proof Sh as [L F NS N NO E M Ct B].
    destruct (res (retry_from 0 count iv pat RNil)) as [|c|c| | | |] eqn:Hr; try congruence.
    + destruct (N eq_refl) as [Hz|Hok]; [contradiction|congruence].
    + destruct (E c eq_refl) as [Hz|[Hc _]]; [contradiction|]. cbn in Hc. congruence.
Qed.

Lemma retry_async_facts count iv cb pat :
  let r := retry_async count iv cb pat in
  stops_well pat r
  /\ Z.of_nat (calls r) <= Z.max 0 count
  /\ Forall (fun s => s = iv) (sleeps r)
  /\ (cb = false -> res r = RNone \/ res r = ROutOfFuel)
  /\ (cb = true -> r = retry count iv pat).
Proof.
  destruct (retry_facts count iv pat) as [[P S N LE NS] [Cnt [Sl [Z0 Last]]]].
  unfold retry_async. destruct cb.
  - cbn zeta. conj_split; auto; [constructor; assumption | discriminate].
  - set (r0 := retry count iv pat) in *.
    assert (Hc : calls (match res r0 with ROutOfFuel => r0 | _ => {| calls := calls r0; conds := conds r0; sleeps := sleeps r0; res := RNone |} end) = calls r0)
      by (destruct (res r0); reflexivity).
    assert (Hs : sleeps (match res r0 with ROutOfFuel => r0 | _ => {| calls := calls r0; conds := conds r0; sleeps := sleeps r0; res := RNone |} end) = sleeps r0)
      by (destruct (res r0); reflexivity).
    assert (Hr : res (match res r0 with ROutOfFuel => r0 | _ => {| calls := calls r0; conds := conds r0; sleeps := sleeps r0; res := RNone |} end) = RNone
                 \/ res (match res r0 with ROutOfFuel => r0 | _ => {| calls := calls r0; conds := conds r0; sleeps := sleeps r0; res := RNone |} end) = ROutOfFuel)
      by (destruct (res r0) eqn:E; cbn; auto).
    cbn zeta. conj_split; auto; try discriminate; rewrite ?Hc, ?Hs; auto.
    constructor; rewrite ?Hc, ?Hs; auto.
    + intros Hnz Hok. destruct Hr as [Hr|Hr]; [auto|].
      exfalso. destruct (res r0) eqn:E; cbn in Hr; try discriminate.
      destruct (S Hnz Hok) as [H|H]; discriminate.
    + intros H. destruct Hr as [Hr|Hr]; rewrite Hr in H; discriminate.
    + intros c [H|H]; destruct Hr as [Hr|Hr]; rewrite Hr in H; discriminate.
Qed.

(* ---- RetryForever *)
Lemma forever_facts iv pat :
  let r := forever iv pat in
  stops_well pat r /\ Forall (fun s => s = iv) (sleeps r)
  /\ (res r = RNone \/ res r = ROutOfFuel)
  /\ (res r = RNone -> calls r <> 0%nat /\ nth_error pat (pred (calls r)) = Some Ok).
Proof.
  destruct (forever_shape pat 0%nat iv) as [Sh [Sl [Z0 [NE [NM [NI NN]]]]]].
  cbn zeta. conj_split; auto.
  - apply shape_stops_well; [exact Sh|]. intros _ c. apply NE.
  - pose proof Sh as [L F NS N NO E M Ct B].
    destruct (res (forever iv pat)) as [|c|c| | | |] eqn:Hr; auto; exfalso;
      [exact (NN eq_refl) | exact (NE c eq_refl) | exact (NM c eq_refl) | exact (NI eq_refl) | exact (B eq_refl)].
  - intros Hr. pose proof Sh as [L F NS N NO E M Ct B].
    destruct (NO Hr) as [Hz|Hok].
    + rewrite (Z0 Hz) in Hr. discriminate.
    + split; [|exact Hok]. intros Hz. rewrite (Z0 Hz) in Hr. discriminate.
Qed.

(* ---- RetryByRule *)
Lemma by_rule_facts rule pat :
  let r := by_rule rule pat in
  stops_well pat r
  /\ (calls r <= S (length rule))%nat
  /\ (forall j, (j + 1 < calls r)%nat -> 0 < nth j rule 0)
  /\ Forall (fun s => 0 < s) (sleeps r)
  /\ (forall c, res r = RErr c -> nth c rule 0 <= 0)
  /\ (res r <> ROutOfFuel -> calls r <> 0%nat -> fails_at pat (pred (calls r)) -> res r = RErr (pred (calls r))).
Proof.
  unfold by_rule. destruct (by_rule_shape pat 0%nat rule) as [Sh [Sl [Cnt [Pos [Z0 [RE [NM [NI NN]]]]]]]]; [lia|].
  cbn zeta. conj_split; auto.
  - apply shape_stops_well; [exact Sh|]. intros Hz c. rewrite (Z0 Hz). discriminate.
  - intros j Hj. apply Pos; lia.
  - intros Hoof Hnz [e He].
    pose proof Sh as [L F NS N NO E M Ct B].
    destruct (res (by_rule_from 0 rule pat)) as [|c|c| | | |] eqn:Hr; try congruence.
    + destruct (N eq_refl) as [Hz|Hok]; [contradiction|congruence].
    + destruct (E c eq_refl) as [Hz|[Hc _]]; [contradiction|]. cbn in Hc. congruence.
Qed.

(* ---- (Conditional)RetryByExponentialBackoff *)
Lemma cond_retry_cshape hascond cond maxRetries base max rnd orc ign pat (good : Z -> Prop) :
  (forall p r, good (delay_fixed base max rnd p r)) ->
  cshape hascond maxRetries ign good 0 cond pat (cond_retry hascond cond maxRetries base max rnd orc ign pat).
Proof.
  intros Hg. unfold cond_retry, cond_from. apply cond_loop_cshape; [exact Hg|]. lia.
Qed.

Lemma cond_retry_stops_well hascond cond maxRetries base max rnd orc ign pat :
  stops_well pat (cond_retry hascond cond maxRetries base max rnd orc ign pat).
Proof.
  destruct (cond_retry_cshape hascond cond maxRetries base max rnd orc ign pat (fun _ => True)) as [Sh _ _ _ _ _ _ _ Z0 _ _ _ _ _]; [auto|].
  apply shape_stops_well; [exact Sh|]. intros Hz c. destruct (Z0 Hz) as [H|H]; rewrite H; discriminate.
Qed.

Lemma cond_retry_count hascond cond maxRetries base max rnd orc ign pat :
  let r := cond_retry hascond cond maxRetries base max rnd orc ign pat in
  Z.of_nat (calls r) <= Z.max 0 maxRetries + 1
  /\ (forall j, (j + 1 < calls r)%nat -> Z.of_nat j < maxRetries)
  /\ (forall c, res r = RMax c -> maxRetries <= Z.of_nat c).
Proof.
  pose proof (cond_retry_stops_well hascond cond maxRetries base max rnd orc ign pat) as SW.
  destruct (cond_retry_cshape hascond cond maxRetries base max rnd orc ign pat (fun _ => True)) as [Sh _ _ Cnt _ _ _ _ _ _ Mx _ Re _]; [auto|].
  cbn zeta. conj_split.
  - cbn in Cnt. lia.
  - intros j Hj. destruct (sw_prefix_failed _ _ SW j Hj) as [e He]. destruct (Re j e Hj He) as [_ H]. cbn in H. exact H.
  - intros c Hr. apply Mx. exact Hr.
Qed.

Lemma cond_retry_ignore hascond cond maxRetries base max rnd orc ign pat :
  let r := cond_retry hascond cond maxRetries base max rnd orc ign pat in
  (forall j e, (j + 1 < calls r)%nat -> nth_error pat j = Some (Fail e) -> ignored ign e = false)
  /\ (forall c, res r = RErr c -> calls r = S c /\ exists e, nth_error pat c = Some (Fail e) /\ ignored ign e = true)
  /\ (forall c, res r = RMax c -> calls r = S c /\ exists e, nth_error pat c = Some (Fail e) /\ ignored ign e = false)
  /\ (forall e, calls r <> 0%nat -> nth_error pat (pred (calls r)) = Some (Fail e) -> ignored ign e = true ->
                res r = RErr (pred (calls r))).
Proof.
  pose proof (cond_retry_stops_well hascond cond maxRetries base max rnd orc ign pat) as SW.
  destruct (cond_retry_cshape hascond cond maxRetries base max rnd orc ign pat (fun _ => True)) as [Sh _ _ _ _ _ _ _ Z0 Er Mx Ct Re Nn]; [auto|].
  set (r := cond_retry hascond cond maxRetries base max rnd orc ign pat) in *.
  cbn zeta. conj_split.
  - intros j e Hj He. apply (Re j e Hj He).
  - intros c Hr. destruct (sw_last_error _ _ SW c (or_introl Hr)) as [Hc _]. split; [exact Hc|].
    destruct (Er c Hr) as [e [He1 He2]]. rewrite Hc in He1. cbn in He1. eauto.
  - intros c Hr. destruct (sw_last_error _ _ SW c (or_intror Hr)) as [Hc _]. split; [exact Hc|].
    destruct (Mx c Hr) as [_ [e [He1 He2]]]. rewrite Hc in He1. cbn in He1. eauto.
  - intros e Hnz He Hig. pose proof Sh as [L F NS N NO E M Ct' B].
    destruct (res r) as [|c|c| | | |] eqn:Hr.
    + destruct (N eq_refl) as [Hz|Hok]; [contradiction|congruence].
    + destruct (sw_last_error _ _ SW c (or_introl Hr)) as [Hc _]. rewrite Hc. reflexivity.
    + destruct (Mx c eq_refl) as [_ [e' [He1 He2]]]. congruence.
    + destruct (Ct (or_introl eq_refl) (pred (calls r)) e) as [H _]; [lia|exact He|congruence].
    + contradiction.
    + destruct (Ct (or_intror eq_refl) (pred (calls r)) e) as [H _]; [lia|exact He|congruence].
    + contradiction.
Qed.

Lemma cond_retry_interrupt hascond cond maxRetries base max rnd orc ign pat :
  let r := cond_retry hascond cond maxRetries base max rnd orc ign pat in
  (hascond = false -> conds r = 0%nat /\ res r <> RInterrupted)
  /\ (hascond = true ->
        (forall j, (j < calls r)%nat -> nth j cond true = true)
        /\ (res r = RInterrupted -> conds r = S (calls r) /\ nth (calls r) cond true = false)
        /\ (res r <> RInterrupted -> res r <> ROutOfFuel -> conds r = calls r)).
Proof.
  destruct (cond_retry_cshape hascond cond maxRetries base max rnd orc ign pat (fun _ => True)) as [_ _ _ _ NC Ca In Co _ _ _ _ _ _]; [auto|].
  cbn zeta. split; [exact NC|]. intros Hc. conj_split; auto.
Qed.

Lemma cond_retry_last_error hascond cond maxRetries base max rnd orc ign pat :
  let r := cond_retry hascond cond maxRetries base max rnd orc ign pat in
  res r <> ROutOfFuel -> res r <> RInterrupted -> calls r <> 0%nat -> fails_at pat (pred (calls r)) ->
  res r = RErr (pred (calls r)) \/ (res r = RMax (pred (calls r)) /\ maxRetries <= Z.of_nat (pred (calls r))).
Proof.
  pose proof (cond_retry_stops_well hascond cond maxRetries base max rnd orc ign pat) as SW.
  destruct (cond_retry_cshape hascond cond maxRetries base max rnd orc ign pat (fun _ => True)) as [Sh _ _ _ _ _ _ _ Z0 Er Mx Ct Re Nn]; [auto|].
  set (r := cond_retry hascond cond maxRetries base max rnd orc ign pat) in *.
  cbn zeta. intros Hoof Hint Hnz [e He]. pose proof Sh as [L F NS N NO E M Ct' B].
  destruct (res r) as [|c|c| | | |] eqn:Hr; try contradiction.
  - destruct (N eq_refl) as [Hz|Hok]; [contradiction|congruence].
  - left. destruct (sw_last_error _ _ SW c (or_introl Hr)) as [Hc _]. rewrite Hc. reflexivity.
  - right. destruct (sw_last_error _ _ SW c (or_intror Hr)) as [Hc _]. rewrite Hc. cbn. split; [reflexivity|].
    apply Mx. reflexivity.
Qed.

Lemma cond_retry_sleeps hascond cond maxRetries base max rnd orc ign pat :
  0 <= max ->
  let r := cond_retry hascond cond maxRetries base max rnd orc ign pat in
  Forall (fun s => 0 <= s <= max) (sleeps r)
  /\ (length (sleeps r) <= calls r <= S (length (sleeps r)))%nat.
Proof.
  intros Hmax.
  destruct (cond_retry_cshape hascond cond maxRetries base max rnd orc ign pat (fun s => 0 <= s <= max)) as [Sh Sl NSl _ _ _ _ _ _ _ _ _ _ _].
  { intros p r. apply delay_fixed_bounds. exact Hmax. }
  cbn zeta. split; [exact Sl|]. split; [apply Sh|exact NSl].
Qed.

(* ---- the conjunctions stated in Properties.v *)
Lemma retry_count_all : forall (pat : list outcome),
  (forall count interval, Z.of_nat (calls (retry count interval pat)) <= Z.max 0 count) /\
  (forall count interval cb, Z.of_nat (calls (retry_async count interval cb pat)) <= Z.max 0 count) /\
  (forall rule, (calls (by_rule rule pat) <= S (length rule))%nat /\
                (forall j, (j + 1 < calls (by_rule rule pat))%nat -> 0 < nth j rule 0) /\
                (forall c, res (by_rule rule pat) = RErr c -> nth c rule 0 <= 0)) /\
  (forall hascond cond maxRetries base max rnd orc ign,
      let r := cond_retry hascond cond maxRetries base max rnd orc ign pat in
      Z.of_nat (calls r) <= Z.max 0 maxRetries + 1 /\
      (forall j, (j + 1 < calls r)%nat -> Z.of_nat j < maxRetries) /\
      (forall c, res r = RMax c -> maxRetries <= Z.of_nat c)).
Proof.
  intros pat. conj_split.
  - intros. apply retry_facts.
  - intros. apply retry_async_facts.
  - intros rule. destruct (by_rule_facts rule pat) as [_ [H1 [H2 [_ [H3 _]]]]]. auto.
  - intros. apply cond_retry_count.
Qed.

Lemma retry_stops_well_all : forall (pat : list outcome),
  (forall count interval, stops_well pat (retry count interval pat)) /\
  (forall count interval cb, stops_well pat (retry_async count interval cb pat)) /\
  (forall interval, stops_well pat (forever interval pat)) /\
  (forall rule, stops_well pat (by_rule rule pat)) /\
  (forall hascond cond maxRetries base max rnd orc ign,
      stops_well pat (cond_retry hascond cond maxRetries base max rnd orc ign pat)).
Proof.
  intros pat. conj_split; intros.
  - apply retry_facts.
  - apply retry_async_facts.
  - apply forever_facts.
  - apply by_rule_facts.
  - apply cond_retry_stops_well.
Qed.

Lemma retry_sleeps_all : forall (pat : list outcome),
  (forall hascond cond maxRetries base max rnd orc ign, 0 <= max ->
      let r := cond_retry hascond cond maxRetries base max rnd orc ign pat in
      Forall (fun s => 0 <= s <= max) (sleeps r) /\ (length (sleeps r) <= calls r <= S (length (sleeps r)))%nat) /\
  (forall count interval, Forall (fun s => s = interval) (sleeps (retry count interval pat))) /\
  (forall count interval cb, Forall (fun s => s = interval) (sleeps (retry_async count interval cb pat))) /\
  (forall interval, Forall (fun s => s = interval) (sleeps (forever interval pat))) /\
  (forall rule, Forall (fun s => 0 < s) (sleeps (by_rule rule pat))).
Proof.
  intros pat. conj_split; intros.
  - apply cond_retry_sleeps. assumption.
  - apply retry_facts.
  - apply retry_async_facts.
  - apply forever_facts.
  - apply by_rule_facts.
Qed.

Lemma retry_last_error_all : forall (pat : list outcome),
  (forall count interval, let r := retry count interval pat in
      (calls r = 0%nat -> res r = RNil \/ res r = ROutOfFuel) /\
      (res r <> ROutOfFuel -> calls r <> 0%nat -> fails_at pat (pred (calls r)) -> res r = RErr (pred (calls r)))) /\
  (forall rule, let r := by_rule rule pat in
      res r <> ROutOfFuel -> calls r <> 0%nat -> fails_at pat (pred (calls r)) -> res r = RErr (pred (calls r))) /\
  (forall hascond cond maxRetries base max rnd orc ign,
      let r := cond_retry hascond cond maxRetries base max rnd orc ign pat in
      res r <> ROutOfFuel -> res r <> RInterrupted -> calls r <> 0%nat -> fails_at pat (pred (calls r)) ->
      res r = RErr (pred (calls r)) \/ (res r = RMax (pred (calls r)) /\ maxRetries <= Z.of_nat (pred (calls r)))).
Proof.
  intros pat. conj_split.
  - intros count interval. destruct (retry_facts count interval pat) as [_ [_ [_ [H1 H2]]]]. split; assumption.
  - intros rule. apply by_rule_facts.
  - intros. apply cond_retry_last_error; assumption.
Qed.
