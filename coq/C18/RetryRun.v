(* MV.C18.RetryRun — evaluation of recorded runs of the retry helpers against the model (tie T1).
   The helpers run in virtual time (testing/synctest), so what is observed of the sleeps is the exact gap
   after each invocation of the operation (to the next invocation, or to the return / the callback for the
   last one): Sleep(d) shows as max(d, 0), no sleep as 0. *)
From Coq Require Import ZArith Bool List Floats Uint63.
From MV Require Import Lib.ListX C18.BackoffModel C18.BackoffRun C18.RetryModel.
Open Scope Z_scope.

Inductive call :=
| CRetry (count interval : Z)
| CAsync (count interval : Z) (cb : bool)
| CForever (interval : Z)
| CByRule (rule : list Z)
| CCond (hascond : bool) (cond : list bool) (maxRetries base max : Z)
        (rnd : Z)               (* bits of the randomization factor *)
        (orc : list (Z * Z))    (* per retry number: bits of math.Pow(mult, retry), k with rand.Float64() = k/2^53 *)
        (ign : list nat).

Record case := {
  cid : nat; ccall : call; cpat : list outcome;
  icalls : nat; iconds : nat; igaps : list Z; ires : result }.

Definition model_run (c : case) : run :=
  match ccall c with
  | CRetry n iv => retry n iv (cpat c)
  | CAsync n iv cb => retry_async n iv cb (cpat c)
  | CForever iv => forever iv (cpat c)
  | CByRule rule => by_rule rule (cpat c)
  | CCond hc cond mr base max rnd orc ign =>
      cond_retry hc cond mr base max (float_of_bits rnd)
                 (map (fun pk => (float_of_bits (fst pk), rand_of_k (snd pk))) orc) ign (cpat c)
  end.

Fixpoint pad (l : list Z) (n : nat) : list Z :=
  match n with
  | O => []
  | S n' => match l with [] => 0 :: pad [] n' | x :: t => x :: pad t n' end
  end.

(* what the sleeps of a run look like from outside *)
Definition gaps_of (r : run) : list Z := pad (map (Z.max 0) (sleeps r)) (calls r).

Definition result_eqb (a b : result) : bool :=
  match a, b with
  | RNil, RNil | RInterrupted, RInterrupted | RNone, RNone => true
  | RErr x, RErr y | RMax x, RMax y => Nat.eqb x y
  | _, _ => false
  end.

(* RetryAsync without callback: the end of the goroutine is not observable, the last gap is not compared *)
Definition observable (c : case) (g : list Z) : list Z :=
  match ccall c with
  | CAsync _ _ false => removelast g
  | _ => g
  end.

Definition case_ok (c : case) : bool :=
  let r := model_run c in
  Nat.eqb (calls r) (icalls c) && Nat.eqb (conds r) (iconds c)
  && list_eqb Z.eqb (observable c (gaps_of r)) (observable c (igaps c))
  && result_eqb (res r) (ires c).

Definition mismatches (cs : list case) : list nat := fail_ids case_ok cid cs.
