(* MV.C18.BackoffModel — executable model of toolkit/chrono/exponential_backoff.go over IEEE binary64
   (Coq primitive floats), layer C.  No proofs here.

   Oracle parameters: [p] is the value returned by math.Pow(multiplier, float64(count)) and [r] the value
   returned by rand.Float64(); the harness passes the very same binary64 values (bit patterns).
   Go's float64 -> int64 conversion on amd64 (CVTTSD2SQ) is written out in [dur_of_sf]:
   truncation toward zero when the value lies in [-2^63, 2^63), otherwise the "integer indefinite"
   value -2^63 (0x8000000000000000); NaN and the infinities give -2^63 too.

   [backoff_orig] transcribes the code as it stands in /repo (kept to exhibit the defect);
   [backoff] transcribes the code repaired by fixes/C18-backoff-overflow.patch. *)
From Coq Require Import ZArith Bool List Floats Uint63.
Import ListNotations.
Open Scope Z_scope.

Definition two63 : Z := 9223372036854775808.
Definition min_int64 : Z := - two63.
Definition max_int64 : Z := two63 - 1.

(* ---- float64 -> int64, amd64 *)
Definition sf_trunc (sg : bool) (m : positive) (e : Z) : Z :=
  let mag := match e with
             | Z0 => Zpos m
             | Zpos q => Zpos m * 2 ^ Zpos q
             | Zneg q => Zpos m / 2 ^ Zpos q
             end in
  if sg then - mag else mag.

Definition dur_of_sf (s : spec_float) : Z :=
  match s with
  | S754_zero _ => 0
  | S754_infinity _ => min_int64
  | S754_nan => min_int64
  | S754_finite sg m e =>
      let v := sf_trunc sg m e in
      if (min_int64 <=? v) && (v <? two63) then v else min_int64
  end.

Definition dur_of_float (x : float) : Z := dur_of_sf (Prim2SF x).

(* ---- int64 -> float64 (round to nearest even; exact below 2^53) *)
Definition f_two63 : float := 9223372036854775808%float.

Definition float_of_int64 (z : Z) : float :=
  if z <? 0 then
    if z <=? min_int64 then PrimFloat.opp f_two63
    else PrimFloat.opp (PrimFloat.of_uint63 (Uint63.of_Z (- z)))
  else PrimFloat.of_uint63 (Uint63.of_Z z).

(* ---- binary64 bit pattern -> float (how the harness hands floats over) *)
Definition float_of_bits (b : Z) : float :=
  let sg := Z.odd (b / two63) in
  let ex := (b / 4503599627370496) mod 2048 in
  let mt := b mod 4503599627370496 in
  let mag :=
    if ex =? 2047 then (if mt =? 0 then infinity else nan)
    else if ex =? 0 then Z.ldexp (PrimFloat.of_uint63 (Uint63.of_Z mt)) (-1074)
    else Z.ldexp (PrimFloat.of_uint63 (Uint63.of_Z (4503599627370496 + mt))) (ex - 1075) in
  if sg then PrimFloat.opp mag else mag.

(* rand.Float64() of math/rand/v2 and math/rand: float64(k) / 2^53 for a 53-bit integer k *)
Definition rand_of_k (k : Z) : float :=
  PrimFloat.div (PrimFloat.of_uint63 (Uint63.of_Z k)) 9007199254740992%float.

(* ---- the formula: delay := float64(base) * p; jitter := (r - 0.5) * rnd * float64(base); delay + jitter
   (amd64, GOAMD64=v1: no fused multiply-add) *)
Definition raw_delay (base : Z) (rnd p r : float) : float :=
  let fb := float_of_int64 base in
  let delay := PrimFloat.mul fb p in
  let jitter := PrimFloat.mul (PrimFloat.mul (PrimFloat.sub r 0.5%float) rnd) fb in
  PrimFloat.add delay jitter.

Definition stop (count limit : Z) : bool := (count >? limit) && (limit >? -1).

(* ---- the code as it stands: convert first, compare afterwards *)
Definition delay_orig (base max : Z) (rnd p r : float) : Z :=
  let d := dur_of_float (raw_delay base rnd p r) in
  if d >? max then max else d.

Definition backoff_orig (count limit base max : Z) (rnd p r : float) : Z :=
  if stop count limit then -1 else delay_orig base max rnd p r.

(* ---- repaired: a base <= 0 gives 0; values the conversion cannot represent (>= 2^63, +Inf, NaN) give max;
   everything else is converted and clamped to [0, max] *)
Definition clamp_delay (x : float) (max : Z) : Z :=
  if PrimFloat.ltb x f_two63 then
    let d := dur_of_float x in
    let d := if d >? max then max else d in
    if d <? 0 then 0 else d
  else max.

Definition delay_fixed (base max : Z) (rnd p r : float) : Z :=
  if base <=? 0 then 0 else clamp_delay (raw_delay base rnd p r) max.

Definition backoff (count limit base max : Z) (rnd p r : float) : Z :=
  if stop count limit then -1 else delay_fixed base max rnd p r.
