(* MV.C18.BackoffFloat — proofs about the repaired back-off model that need the meaning of the binary64
   operations (part 2).  Primitive floats are linked to their IEEE-754 specification by the axioms of
   Coq.Floats.FloatAxioms (mul_spec, add_spec, sub_spec, ltb_spec, of_uint63_spec, Prim2SF_valid, ...),
   used through Flocq's IEEE754.PrimFloat (Prim2B, *_equiv) and BinarySingleNaN (B*_correct); real numbers
   are Coq's Reals (classical axioms of the standard library). *)
From Coq Require Import ZArith Reals Bool Floats Lia Lra Psatz.
From Flocq Require Import Core Relative BinarySingleNaN.
Require Import Flocq.IEEE754.PrimFloat.
From MV Require Import C18.BackoffModel C18.BackoffProofs.
Open Scope Z_scope.
Local Notation float := PrimFloat.float.

Definition FR (x : float) : R := B2R (Prim2B x).
Definition finite (x : float) : Prop := is_finite (Prim2B x) = true.

Lemma FR_SF2R x : FR x = SF2R radix2 (Prim2SF x).
Proof. unfold FR, Prim2B. apply B2R_SF2B. Qed.

Lemma finite_SF x : finite x <-> (exists s, Prim2SF x = S754_zero s) \/ (exists s m e, Prim2SF x = S754_finite s m e).
Proof.
  unfold finite. rewrite <- (B2SF_Prim2B x). destruct (Prim2B x) as [s|s| |s m e H]; cbn; split; intros H0; try discriminate; eauto;
    destruct H0 as [[s' H0]|[s' [m' [e' H0]]]]; discriminate.
Qed.

(* ---- truncation *)
Lemma sf_trunc_Ztrunc s m e :
  sf_trunc s m e = Ztrunc (SF2R radix2 (S754_finite s m e)).
Proof.
  unfold sf_trunc, SF2R, F2R; cbn [Fnum Fexp].
  destruct e as [|q|q].
  - cbn [bpow]. rewrite Rmult_1_r, Ztrunc_IZR. destruct s; reflexivity.
  - rewrite <- IZR_Zpower by lia. rewrite <- mult_IZR, Ztrunc_IZR. cbn [radix_val radix2]. destruct s; cbn [cond_Zopp]; lia.
  - change (Z.neg q) with (- Z.pos q). rewrite bpow_opp, <- IZR_Zpower by lia. cbn [radix_val radix2].
    assert (Hp : 0 < 2 ^ Z.pos q) by (apply Z.pow_pos_nonneg; lia).
    assert (Hq : (0 <= IZR (Z.pos m) / IZR (2 ^ Z.pos q))%R).
    { apply Rmult_le_pos; [apply IZR_le; lia|]. apply Rlt_le, Rinv_0_lt_compat, IZR_lt. exact Hp. }
    destruct s; cbn [cond_Zopp].
    + replace (IZR (- Z.pos m) * / IZR (2 ^ Z.pos q))%R with (- (IZR (Z.pos m) / IZR (2 ^ Z.pos q)))%R
        by (rewrite opp_IZR; unfold Rdiv; ring).
      rewrite Ztrunc_ceil by lra. unfold Zceil. rewrite Ropp_involutive, Zfloor_div by lia. reflexivity.
    + fold (IZR (Z.pos m) / IZR (2 ^ Z.pos q))%R. rewrite Ztrunc_floor by exact Hq. symmetry. apply Zfloor_div. lia.
Qed.

Lemma dur_of_float_finite x :
  finite x ->
  dur_of_float x = (if (min_int64 <=? Ztrunc (FR x)) && (Ztrunc (FR x) <? two63) then Ztrunc (FR x) else min_int64).
Proof.
  intros Hf. rewrite FR_SF2R. unfold dur_of_float. apply finite_SF in Hf.
  destruct Hf as [[s H]|[s [m [e H]]]]; rewrite H; cbn [dur_of_sf].
  - cbn [SF2R]. rewrite Ztrunc_IZR. reflexivity.
  - rewrite sf_trunc_Ztrunc. reflexivity.
Qed.

(* ---- the guard x < 2^63 *)
Lemma FR_two63 : FR f_two63 = IZR two63.
Proof. rewrite FR_SF2R. vm_compute Prim2SF. unfold SF2R, F2R, two63; cbn. lra. Qed.

Lemma finite_two63 : finite f_two63.
Proof. apply finite_SF. right. vm_compute Prim2SF. eauto. Qed.

Lemma ltb_two63_finite x : finite x -> PrimFloat.ltb x f_two63 = Rlt_bool (FR x) (IZR two63).
Proof.
  intros Hf. rewrite ltb_equiv, Bltb_correct by (exact Hf || exact finite_two63).
  fold (FR x) (FR f_two63). rewrite FR_two63. reflexivity.
Qed.

(* ---- what the repaired clamp computes, in terms of the real value of its argument *)
Lemma clamp_delay_finite x max :
  finite x -> 0 <= max < two63 ->
  clamp_delay x max = Z.max 0 (Z.min max (Ztrunc (FR x))).
Proof.
  intros Hf Hmax. unfold clamp_delay. rewrite ltb_two63_finite by exact Hf.
  destruct (Rlt_bool_spec (FR x) (IZR two63)) as [Hlt|Hge].
  - rewrite dur_of_float_finite by exact Hf.
    assert (Ht : Ztrunc (FR x) < two63).
    { destruct (Rlt_or_le (FR x) 0) as [Hn|Hp].
      - rewrite Ztrunc_ceil by lra. apply Z.le_lt_trans with 0; [|unfold two63; lia].
        apply le_IZR. apply Rle_trans with (- IZR (Zfloor (- FR x)))%R; [unfold Zceil; rewrite opp_IZR; lra|].
        pose proof (Zfloor_le 0 (- FR x) ltac:(lra)) as H0. rewrite (Zfloor_IZR 0) in H0. apply IZR_le in H0. lra.
      - rewrite Ztrunc_floor by exact Hp. apply lt_IZR. apply Rle_lt_trans with (FR x); [apply Zfloor_lb|exact Hlt]. }
    destruct (Z.leb_spec min_int64 (Ztrunc (FR x))) as [Hlo|Hlo]; cbn [andb].
    + destruct (Z.ltb_spec (Ztrunc (FR x)) two63) as [_|Hc]; [|lia].
      destruct (Z.gtb_spec (Ztrunc (FR x)) max).
      * destruct (Z.ltb_spec max 0); lia.
      * destruct (Z.ltb_spec (Ztrunc (FR x)) 0); lia.
    + unfold min_int64 in *. destruct (Z.gtb_spec (- two63) max); [unfold two63 in *; lia|].
      destruct (Z.ltb_spec (- two63) 0); unfold two63 in *; lia.
  - assert (Ht : two63 <= Ztrunc (FR x)).
    { rewrite <- (Ztrunc_IZR two63). apply Ztrunc_le. exact Hge. }
    lia.
Qed.

Lemma clamp_delay_nan x max : Prim2SF x = S754_nan -> clamp_delay x max = max.
Proof. intros H. unfold clamp_delay. rewrite ltb_spec, H. vm_compute SFltb. reflexivity. Qed.

Lemma clamp_delay_pinf x max : Prim2SF x = S754_infinity false -> clamp_delay x max = max.
Proof. intros H. unfold clamp_delay. rewrite ltb_spec, H. vm_compute SFltb. reflexivity. Qed.

Lemma ltb_ninf x : Prim2SF x = S754_infinity true -> PrimFloat.ltb x f_two63 = true.
Proof. intros H. rewrite ltb_spec, H. vm_compute. reflexivity. Qed.

Lemma dur_ninf x : Prim2SF x = S754_infinity true -> dur_of_float x = min_int64.
Proof. intros H. unfold dur_of_float. rewrite H. reflexivity. Qed.

Lemma clamp_delay_ninf x max : 0 <= max -> Prim2SF x = S754_infinity true -> clamp_delay x max = 0.
Proof.
  intros Hm H. unfold clamp_delay. rewrite (ltb_ninf x H), (dur_ninf x H).
  assert (Hmin : min_int64 < 0) by (unfold min_int64, two63; lia).
  destruct (Z.gtb_spec min_int64 max); [lia|]. destruct (Z.ltb_spec min_int64 0); lia.
Qed.

(* ====================================================================== rounding errors *)
Section ErrChain.
Open Scope R_scope.

Definition u : R := / 9007199254740992.
Definition eta : R := bpow radix2 (-1075).

Lemma u_pos : 0 < u. Proof. unfold u. lra. Qed.
Lemma eta_pos : 0 < eta. Proof. apply bpow_gt_0. Qed.
Lemma eta_small : eta <= u * u * u.
Proof.
  apply Rle_trans with (bpow radix2 (-159)); [apply bpow_le; lia|].
  unfold u. simpl. lra.
Qed.

Lemma Rabs_le_iff a c : Rabs a <= c <-> - c <= a <= c.
Proof. split; [apply Rabs_le_inv | apply Rabs_le]. Qed.

Lemma err_chain (B P J R t1 t2 t3 d1 x : R) :
  1 <= B -> 0 <= P -> 0 <= J <= 1 -> 0 <= R <= 1 ->
  Rabs (t1 - (R - /2)) <= u * Rabs (R - /2) + eta ->
  Rabs (t2 - t1 * J) <= u * Rabs (t1 * J) + eta ->
  Rabs (t3 - t2 * B) <= u * Rabs (t2 * B) + eta ->
  Rabs (d1 - B * P) <= u * Rabs (B * P) + eta ->
  Rabs (x - (d1 + t3)) <= u * Rabs (d1 + t3) + eta ->
  Rabs (x - (B * P + (R - /2) * J * B)) <= 4 * u * (B * P + B).
Proof.
  intros HB HP HJ HR H1 H2 H3 H4 H5.
  pose proof u_pos as Hu. pose proof eta_pos as He. pose proof eta_small as Hes.
  assert (Hu1 : u <= /1000) by (unfold u; lra).
  assert (He1 : eta <= u * / 1000000).
  { apply Rle_trans with (1 := Hes). assert (u * u <= / 1000000) by (unfold u; lra). nra. }
  assert (HuB : 0 <= u * B) by nra.
  assert (HuuB : u * (u * B) <= /1000 * (u * B)) by (apply Rmult_le_compat_r; lra).
  assert (HeB : eta <= /1000000 * (u * B)) by nra.
  set (a1 := R - /2) in *.
  assert (Ha1 : Rabs a1 <= /2) by (apply Rabs_le; unfold a1; lra).
  (* t1 *)
  assert (E1 : Rabs (t1 - a1) <= u * /2 + eta) by nra.
  assert (T1 : Rabs t1 <= /2 + (u * /2 + eta)).
  { replace t1 with ((t1 - a1) + a1) by ring. eapply Rle_trans; [apply Rabs_triang|]. lra. }
  (* t2 *)
  assert (A2 : Rabs (t1 * J) <= Rabs t1).
  { rewrite Rabs_mult. rewrite (Rabs_pos_eq J) by lra. pose proof (Rabs_pos t1). nra. }
  assert (E2 : Rabs (t2 - t1 * J) <= u * (/2 + (u * /2 + eta)) + eta) by nra.
  assert (D2 : Rabs (t2 - a1 * J) <= 2 * u).
  { replace (t2 - a1 * J) with ((t2 - t1 * J) + (t1 - a1) * J) by ring.
    eapply Rle_trans; [apply Rabs_triang|]. rewrite (Rabs_mult (t1 - a1)), (Rabs_pos_eq J) by lra.
    pose proof (Rabs_pos (t1 - a1)). nra. }
  assert (A1J : Rabs (a1 * J) <= /2).
  { rewrite Rabs_mult, (Rabs_pos_eq J) by lra. pose proof (Rabs_pos a1). nra. }
  assert (T2 : Rabs t2 <= /2 + 2 * u).
  { replace t2 with ((t2 - a1 * J) + a1 * J) by ring. eapply Rle_trans; [apply Rabs_triang|]. lra. }
  (* t3 *)
  assert (A3 : Rabs (t2 * B) <= (/2 + 2 * u) * B).
  { rewrite Rabs_mult, (Rabs_pos_eq B) by lra. nra. }
  assert (E3 : Rabs (t3 - t2 * B) <= u * ((/2 + 2 * u) * B) + eta) by nra.
  assert (D3 : Rabs (t3 - a1 * J * B) <= 3 * u * B).
  { replace (t3 - a1 * J * B) with ((t3 - t2 * B) + (t2 - a1 * J) * B) by ring.
    eapply Rle_trans; [apply Rabs_triang|]. rewrite (Rabs_mult (t2 - a1 * J)), (Rabs_pos_eq B) by lra.
    assert (Rabs (t2 - a1 * J) * B <= 2 * u * B) by (apply Rmult_le_compat_r; lra). nra. }
  assert (T3 : Rabs t3 <= (/2 + 3 * u) * B).
  { replace t3 with ((t3 - a1 * J * B) + a1 * J * B) by ring. eapply Rle_trans; [apply Rabs_triang|].
    rewrite (Rabs_mult (a1 * J)), (Rabs_pos_eq B) by lra.
    assert (Rabs (a1 * J) * B <= /2 * B) by (apply Rmult_le_compat_r; lra). nra. }
  (* d1 *)
  assert (BP : 0 <= B * P) by nra.
  rewrite (Rabs_pos_eq (B * P)) in H4 by exact BP.
  assert (TD : Rabs d1 <= B * P * (1 + u) + eta).
  { replace d1 with ((d1 - B * P) + B * P) by ring. eapply Rle_trans; [apply Rabs_triang|].
    rewrite (Rabs_pos_eq (B * P)) by exact BP. lra. }
  (* x *)
  assert (S5 : Rabs (d1 + t3) <= B * P * (1 + u) + eta + (/2 + 3 * u) * B).
  { eapply Rle_trans; [apply Rabs_triang|]. lra. }
  assert (E5 : Rabs (x - (d1 + t3)) <= u * (B * P * (1 + u) + eta + (/2 + 3 * u) * B) + eta) by nra.
  replace (x - (B * P + a1 * J * B)) with ((x - (d1 + t3)) + ((d1 - B * P) + (t3 - a1 * J * B))) by ring.
  eapply Rle_trans; [apply Rabs_triang|]. eapply Rle_trans; [apply Rplus_le_compat_l, Rabs_triang|].
  assert (HuBP : 0 <= u * (B * P)) by (apply Rmult_le_pos; lra).
  assert (HuuBP : u * (u * (B * P)) <= /1000 * (u * (B * P))) by (apply Rmult_le_compat_r; lra).
  assert (Hue : u * eta <= eta) by (rewrite <- (Rmult_1_l eta) at 2; apply Rmult_le_compat_r; lra).
  clear - E5 H4 D3 HuBP HuuBP Hue HuB HuuB HeB Hu He BP.
  lra.
Qed.

End ErrChain.

(* ====================================================================== the binary64 operations *)
Local Existing Instance Hprec.
Local Existing Instance Hmax.

Notation rnd64 := (round radix2 (SpecFloat.fexp prec emax) ZnearestE).

Lemma round_err z : (Rabs (rnd64 z - z) <= u * Rabs z + eta)%R.
Proof.
  change (SpecFloat.fexp prec emax) with (FLT_exp (-1074) 53).
  destruct (error_N_FLT radix2 (-1074) 53 ltac:(lia) (fun t => negb (Z.even t)) z) as [eps [et [He [Ht [_ Hr]]]]].
  rewrite Hr. replace (z * (1 + eps) + et - z)%R with (z * eps + et)%R by ring.
  eapply Rle_trans; [apply Rabs_triang|]. rewrite Rabs_mult.
  assert (He' : (Rabs eps <= u)%R).
  { eapply Rle_trans; [exact He|]. right. unfold u. simpl. lra. }
  assert (Ht' : (Rabs et <= eta)%R).
  { eapply Rle_trans; [exact Ht|]. right. unfold eta. change (-1075) with (-1074 + -1). rewrite bpow_plus. simpl (bpow radix2 (-1)). lra. }
  pose proof (Rabs_pos z). pose proof (Rabs_pos eps). nra.
Qed.

Lemma binary_overflow_not_finite s : is_finite_SF (binary_overflow prec emax mode_NE s) = false.
Proof. reflexivity. Qed.

Lemma FR_half : FR 0.5%float = (/2)%R.
Proof. rewrite FR_SF2R. vm_compute Prim2SF. unfold SF2R, F2R; simpl. lra. Qed.

Lemma FR_one : FR 1%float = 1%R.
Proof. rewrite FR_SF2R. vm_compute Prim2SF. unfold SF2R, F2R; simpl. lra. Qed.

Lemma finite_half : finite 0.5%float.
Proof. apply finite_SF. right. vm_compute Prim2SF. eauto. Qed.

Lemma no_overflow e z : (e < 1024)%Z -> (-1000 < e)%Z -> (Rabs z <= bpow radix2 e)%R -> (Rabs (rnd64 z) <= bpow radix2 e /\ Rabs (rnd64 z) < bpow radix2 emax)%R.
Proof.
  intros He He' Hz.
  assert (H : (Rabs (rnd64 z) <= bpow radix2 e)%R).
  { apply abs_round_le_generic; [apply fexp_correct; reflexivity|apply valid_rnd_N| |exact Hz].
    apply generic_format_bpow. unfold SpecFloat.fexp, SpecFloat.emin, prec, emax. lia. }
  split; [exact H|]. eapply Rle_lt_trans; [exact H|]. apply bpow_lt. unfold emax. lia.
Qed.

Lemma finite_not_nan b : is_finite b = true -> @is_nan prec emax b = false.
Proof. destruct b; cbn; congruence. Qed.

Lemma SF_pinf_B (b : binary_float prec emax) s : B2SF b = S754_infinity s -> b = B754_infinity s.
Proof. destruct b; cbn; intros H; try discriminate. injection H as <-. reflexivity. Qed.

Lemma mul_cases a b : finite a -> finite b ->
  let z := (FR a * FR b)%R in
  let sg := xorb (Bsign (Prim2B a)) (Bsign (Prim2B b)) in
  (finite (PrimFloat.mul a b) /\ FR (PrimFloat.mul a b) = rnd64 z /\ Bsign (Prim2B (PrimFloat.mul a b)) = sg
     /\ (Rabs (rnd64 z) < bpow radix2 emax)%R)
  \/ (Prim2B (PrimFloat.mul a b) = B754_infinity sg /\ (bpow radix2 emax <= Rabs (rnd64 z))%R).
Proof.
  unfold finite, FR. intros Ha Hb. cbn zeta. rewrite mul_equiv.
  pose proof (Bmult_correct prec emax Hprec Hmax mode_NE (Prim2B a) (Prim2B b)) as H.
  destruct (Rlt_bool_spec (Rabs (rnd64 (B2R (Prim2B a) * B2R (Prim2B b)))) (bpow radix2 emax)) as [Hlt|Hge].
  - rewrite Rlt_bool_true in H by exact Hlt. left. destruct H as [H1 [H2 H3]]. rewrite Ha, Hb in H2. cbn in H2.
    split; [exact H2|]. split; [exact H1|]. split; [|exact Hlt]. apply H3. apply finite_not_nan. exact H2.
  - rewrite Rlt_bool_false in H by exact Hge. right. split; [|exact Hge]. apply SF_pinf_B. rewrite H. reflexivity.
Qed.

Lemma add_cases a b : finite a -> finite b ->
  let z := (FR a + FR b)%R in
  (finite (PrimFloat.add a b) /\ FR (PrimFloat.add a b) = rnd64 z /\ (Rabs (rnd64 z) < bpow radix2 emax)%R)
  \/ (Prim2B (PrimFloat.add a b) = B754_infinity (Bsign (Prim2B a)) /\ (bpow radix2 emax <= Rabs (rnd64 z))%R).
Proof.
  unfold finite, FR. intros Ha Hb. cbn zeta. rewrite add_equiv.
  pose proof (Bplus_correct prec emax Hprec Hmax mode_NE (Prim2B a) (Prim2B b) Ha Hb) as H.
  destruct (Rlt_bool_spec (Rabs (rnd64 (B2R (Prim2B a) + B2R (Prim2B b)))) (bpow radix2 emax)) as [Hlt|Hge].
  - rewrite Rlt_bool_true in H by exact Hlt. left. destruct H as [H1 [H2 H3]]. auto.
  - rewrite Rlt_bool_false in H by exact Hge. right. split; [|exact Hge]. apply SF_pinf_B. destruct H as [H _]. rewrite H. reflexivity.
Qed.

Lemma sub_cases a b : finite a -> finite b ->
  let z := (FR a - FR b)%R in
  (finite (PrimFloat.sub a b) /\ FR (PrimFloat.sub a b) = rnd64 z /\ (Rabs (rnd64 z) < bpow radix2 emax)%R)
  \/ (Prim2B (PrimFloat.sub a b) = B754_infinity (Bsign (Prim2B a)) /\ (bpow radix2 emax <= Rabs (rnd64 z))%R).
Proof.
  unfold finite, FR. intros Ha Hb. cbn zeta. rewrite sub_equiv.
  pose proof (Bminus_correct prec emax Hprec Hmax mode_NE (Prim2B a) (Prim2B b) Ha Hb) as H.
  destruct (Rlt_bool_spec (Rabs (rnd64 (B2R (Prim2B a) - B2R (Prim2B b)))) (bpow radix2 emax)) as [Hlt|Hge].
  - rewrite Rlt_bool_true in H by exact Hlt. left. destruct H as [H1 [H2 H3]]. auto.
  - rewrite Rlt_bool_false in H by exact Hge. right. split; [|exact Hge]. apply SF_pinf_B. destruct H as [H _]. rewrite H. reflexivity.
Qed.

(* ---- int64 -> float64 is exact below 2^53 *)
Lemma fb_spec base : 0 < base < 9007199254740992 ->
  finite (float_of_int64 base) /\ FR (float_of_int64 base) = IZR base /\ Bsign (Prim2B (float_of_int64 base)) = false.
Proof.
  intros Hb. unfold float_of_int64. destruct (Z.ltb_spec base 0) as [H|_]; [lia|].
  unfold finite, FR. rewrite of_int63_equiv.
  assert (Hz : Uint63.to_Z (Uint63.of_Z base) = base).
  { rewrite Uint63.of_Z_spec. apply Z.mod_small. unfold Uint63.wB. cbn. lia. }
  rewrite Hz.
  pose proof (binary_normalize_correct prec emax Hprec Hmax mode_NE base 0 false) as H. cbn zeta in H.
  assert (HF : F2R (Float radix2 base 0) = IZR base) by (unfold F2R; cbn; lra).
  rewrite HF in H.
  assert (Hr : rnd64 (IZR base) = IZR base).
  { apply round_generic; [apply valid_rnd_N|]. rewrite <- HF.
    change (SpecFloat.fexp prec emax) with (FLT_exp (-1074) 53).
    apply generic_format_FLT. apply FLT_spec with (Float radix2 base 0); cbn; [reflexivity|lia|lia]. }
  cbn [round_mode] in H. rewrite Hr in H.
  rewrite Rlt_bool_true in H.
  - destruct H as [H1 [H2 H3]]. split; [exact H2|]. split; [exact H1|].
    rewrite H3. rewrite Rcompare_Gt; [reflexivity|]. apply IZR_lt. lia.
  - rewrite Rabs_pos_eq by (apply IZR_le; lia). apply Rlt_trans with (bpow radix2 53).
    + change (bpow radix2 53) with (IZR (2 ^ 53)). apply IZR_lt. lia.
    + apply bpow_lt. reflexivity.
Qed.

Definition in_unit (x : float) : Prop := finite x /\ (0 <= FR x <= 1)%R.

Lemma Bsign_pos (b : binary_float prec emax) : is_finite b = true -> (0 < B2R b)%R -> Bsign b = false.
Proof.
  intros Hf Hp. destruct b as [s|s| |s m e H]; try discriminate Hf.
  - cbn in Hp. lra.
  - destruct s; [|reflexivity]. exfalso.
    change (B2R (B754_finite true m e H)) with (F2R (Float radix2 (Z.neg m) e)) in Hp.
    assert (F2R (Float radix2 (Z.neg m) e) < 0)%R by (apply F2R_lt_0; cbn; lia). lra.
Qed.

Lemma Bplus_pinf_finite (b : binary_float prec emax) :
  is_finite b = true -> Bplus mode_NE (B754_infinity false) b = B754_infinity false.
Proof. destruct b; cbn; intros H; try discriminate; reflexivity. Qed.

Lemma bpow_emax_contra z e : (e < 1024)%Z -> (-1000 < e)%Z -> (Rabs z <= bpow radix2 e)%R -> (bpow radix2 emax <= Rabs (rnd64 z))%R -> False.
Proof. intros He He' Hz Hc. destruct (no_overflow e z He He' Hz) as [_ H]. lra. Qed.

(* the exact value of the documented formula base*p + (r - 1/2)*rnd*base, and the tolerance of the band *)
Definition exact_delay (base : Z) (rnd p r : float) : R :=
  (IZR base * FR p + (FR r - /2) * FR rnd * IZR base)%R.
Definition band_tol (base : Z) (p : float) : R := (4 * u * (IZR base * FR p + IZR base))%R.

Lemma raw_delay_cases base rnd p r :
  0 < base < 9007199254740992 -> in_unit rnd -> in_unit r -> finite p -> (1 <= FR p)%R ->
  let x := raw_delay base rnd p r in
  (finite x /\ (Rabs (FR x - exact_delay base rnd p r) <= band_tol base p)%R)
  \/ (Prim2B x = B754_infinity false /\ (bpow radix2 1000 < IZR base * FR p)%R).
Proof.
  intros Hb [Frnd [J0 J1]] [Fr [R0 R1]] Fp Pp. cbn zeta. unfold raw_delay, exact_delay, band_tol.
  destruct (fb_spec base Hb) as [Ffb [Vfb Sfb]].
  generalize dependent (float_of_int64 base). intros fb Ffb Vfb Sfb.
  assert (HB1 : (1 <= IZR base)%R) by (apply IZR_le; lia).
  assert (HB53 : (IZR base <= bpow radix2 53)%R) by (change (bpow radix2 53) with (IZR (2 ^ 53)); apply IZR_le; lia).
  (* t1 = r - 0.5 *)
  destruct (sub_cases r 0.5%float Fr finite_half) as [[F1 [V1 _]]|[_ Hc]]; rewrite FR_half in *;
    [|exfalso; apply (bpow_emax_contra (FR r - /2) 0); [lia|lia| |exact Hc]; cbn; apply Rabs_le; lra].
  generalize dependent (PrimFloat.sub r 0.5%float). intros t1 F1 V1.
  assert (A1 : (Rabs (FR t1) <= 1)%R).
  { rewrite V1. apply (no_overflow 0); [lia|lia|]. cbn. apply Rabs_le. lra. }
  (* t2 = t1 * rnd *)
  assert (Z2 : (Rabs (FR t1 * FR rnd) <= 1)%R).
  { rewrite Rabs_mult, (Rabs_pos_eq (FR rnd)) by lra. pose proof (Rabs_pos (FR t1)). nra. }
  destruct (mul_cases t1 rnd F1 Frnd) as [[F2 [V2 _]]|[_ Hc]];
    [|exfalso; apply (bpow_emax_contra (FR t1 * FR rnd) 0); [lia|lia|exact Z2|exact Hc]].
  generalize dependent (PrimFloat.mul t1 rnd). intros t2 F2 V2.
  assert (A2 : (Rabs (FR t2) <= 1)%R) by (rewrite V2; apply (no_overflow 0); [lia|lia|exact Z2]).
  (* t3 = t2 * fb *)
  assert (Z3 : (Rabs (FR t2 * IZR base) <= bpow radix2 53)%R).
  { rewrite Rabs_mult, (Rabs_pos_eq (IZR base)) by lra. pose proof (Rabs_pos (FR t2)). nra. }
  destruct (mul_cases t2 fb F2 Ffb) as [[F3 [V3 _]]|[_ Hc]]; rewrite Vfb in *;
    [|exfalso; apply (bpow_emax_contra (FR t2 * IZR base) 53); [lia|lia|exact Z3|exact Hc]].
  generalize dependent (PrimFloat.mul t2 fb). intros t3 F3 V3.
  assert (A3 : (Rabs (FR t3) <= bpow radix2 53)%R) by (rewrite V3; apply (no_overflow 53); [lia|lia|exact Z3]).
  assert (BP0 : (0 <= IZR base * FR p)%R) by nra.
  (* d1 = fb * p *)
  assert (Sp : Bsign (Prim2B p) = false) by (apply Bsign_pos; [exact Fp|fold (FR p); lra]).
  destruct (mul_cases fb p Ffb Fp) as [[F4 [V4 [S4 _]]]|[I4 O4]]; rewrite Sfb, Sp in *; cbn [xorb] in *; rewrite ?Vfb in *.
  - generalize dependent (PrimFloat.mul fb p). intros d1 F4 V4 S4.
    destruct (add_cases d1 t3 F4 F3) as [[F5 [V5 _]]|[I5 O5]].
    + left. split; [exact F5|]. rewrite V5.
      apply (err_chain (IZR base) (FR p) (FR rnd) (FR r) (FR t1) (FR t2) (FR t3) (FR d1)); try lra.
      * rewrite V1. apply round_err.
      * rewrite V2. apply round_err.
      * rewrite V3. apply round_err.
      * rewrite V4. apply round_err.
      * apply round_err.
    + right. split; [rewrite I5, S4; reflexivity|].
      destruct (Rle_or_lt (IZR base * FR p) (bpow radix2 1000)) as [Hle|Hgt]; [exfalso|exact Hgt].
      assert (D1 : (Rabs (FR d1) <= bpow radix2 1000)%R).
      { rewrite V4. apply (no_overflow 1000); [lia|lia|]. rewrite Rabs_pos_eq by exact BP0. exact Hle. }
      apply (bpow_emax_contra (FR d1 + FR t3) 1001); [lia|lia| |exact O5].
      eapply Rle_trans; [apply Rabs_triang|]. change 1001 with (1000 + 1). rewrite bpow_plus. simpl (bpow radix2 1).
      assert (bpow radix2 53 <= bpow radix2 1000)%R by (apply bpow_le; lia). lra.
  - right. split; [rewrite add_equiv, I4; apply Bplus_pinf_finite; exact F3|].
    destruct (Rle_or_lt (IZR base * FR p) (bpow radix2 1000)) as [Hle|Hgt]; [exfalso|exact Hgt].
    apply (bpow_emax_contra (IZR base * FR p) 1000); [lia|lia| |exact O4]. rewrite Rabs_pos_eq by exact BP0. exact Hle.
Qed.

Lemma jitter_finite base rnd r :
  0 < base < 9007199254740992 -> in_unit rnd -> in_unit r ->
  finite (PrimFloat.mul (PrimFloat.mul (PrimFloat.sub r 0.5%float) rnd) (float_of_int64 base)).
Proof.
  intros Hb [Frnd [J0 J1]] [Fr [R0 R1]].
  destruct (fb_spec base Hb) as [Ffb [Vfb Sfb]].
  generalize dependent (float_of_int64 base). intros fb Ffb Vfb Sfb.
  assert (HB1 : (1 <= IZR base)%R) by (apply IZR_le; lia).
  assert (HB53 : (IZR base <= bpow radix2 53)%R) by (change (bpow radix2 53) with (IZR (2 ^ 53)); apply IZR_le; lia).
  destruct (sub_cases r 0.5%float Fr finite_half) as [[F1 [V1 _]]|[_ Hc]]; rewrite FR_half in *;
    [|exfalso; apply (bpow_emax_contra (FR r - /2) 0); [lia|lia| |exact Hc]; cbn; apply Rabs_le; lra].
  generalize dependent (PrimFloat.sub r 0.5%float). intros t1 F1 V1.
  assert (A1 : (Rabs (FR t1) <= 1)%R).
  { rewrite V1. apply (no_overflow 0); [lia|lia|]. cbn. apply Rabs_le. lra. }
  assert (Z2 : (Rabs (FR t1 * FR rnd) <= 1)%R).
  { rewrite Rabs_mult, (Rabs_pos_eq (FR rnd)) by lra. pose proof (Rabs_pos (FR t1)). nra. }
  destruct (mul_cases t1 rnd F1 Frnd) as [[F2 [V2 _]]|[_ Hc]];
    [|exfalso; apply (bpow_emax_contra (FR t1 * FR rnd) 0); [lia|lia|exact Z2|exact Hc]].
  generalize dependent (PrimFloat.mul t1 rnd). intros t2 F2 V2.
  assert (A2 : (Rabs (FR t2) <= 1)%R) by (rewrite V2; apply (no_overflow 0); [lia|lia|exact Z2]).
  assert (Z3 : (Rabs (FR t2 * IZR base) <= bpow radix2 53)%R).
  { rewrite Rabs_mult, (Rabs_pos_eq (IZR base)) by lra. pose proof (Rabs_pos (FR t2)). nra. }
  destruct (mul_cases t2 fb F2 Ffb) as [[F3 _]|[_ Hc]]; rewrite ?Vfb in *;
    [exact F3|exfalso; apply (bpow_emax_contra (FR t2 * IZR base) 53); [lia|lia|exact Z3|exact Hc]].
Qed.

Lemma raw_delay_pinf base rnd p r :
  0 < base < 9007199254740992 -> in_unit rnd -> in_unit r -> Prim2SF p = S754_infinity false ->
  Prim2SF (raw_delay base rnd p r) = S754_infinity false.
Proof.
  intros Hb Hrnd Hr Hp. pose proof (jitter_finite base rnd r Hb Hrnd Hr) as F3.
  unfold raw_delay. destruct (fb_spec base Hb) as [Ffb [Vfb Sfb]].
  generalize dependent (float_of_int64 base). intros fb F3 Ffb Vfb Sfb.
  rewrite <- B2SF_Prim2B, add_equiv, mul_equiv.
  rewrite <- B2SF_Prim2B in Hp. apply SF_pinf_B in Hp. rewrite Hp.
  unfold finite, FR in *. destruct (Prim2B fb) as [s|s| |s m e H]; try discriminate Ffb.
  - cbn in Vfb. exfalso. assert (0 < IZR base)%R by (apply IZR_lt; lia). lra.
  - cbn in Sfb. subst s. cbn [Bmult xorb]. rewrite Bplus_pinf_finite by exact F3. reflexivity.
Qed.

(* ====================================================================== the two float theorems *)

(* While the documented value base*p + (r - 1/2)*rnd*base (plus the tolerance) is below max, the returned delay is
   within tolerance + 1 ns of it: tolerance 4*2^-53*(base*p + base) for the five roundings, 1 ns for the truncation. *)
Theorem backoff_band : forall count limit base max rnd p r,
  stop count limit = false ->
  0 < base < 9007199254740992 -> 0 <= max < two63 ->
  in_unit rnd -> in_unit r -> finite p -> (1 <= FR p)%R ->
  (exact_delay base rnd p r + band_tol base p < IZR max)%R ->
  (Rabs (IZR (backoff count limit base max rnd p r) - exact_delay base rnd p r) <= band_tol base p + 1)%R.
Proof.
  intros count limit base max rnd p r Hs Hb Hm Hrnd Hr Fp Pp Hlt.
  unfold backoff, delay_fixed. rewrite Hs. destruct (Z.leb_spec base 0) as [H|_]; [lia|].
  pose proof Hrnd as [_ [J0 J1]]. pose proof Hr as [_ [R0 R1]].
  assert (HB1 : (1 <= IZR base)%R) by (apply IZR_le; lia).
  assert (Hu : (0 < u <= /1000)%R) by (unfold u; lra).
  destruct (raw_delay_cases base rnd p r Hb Hrnd Hr Fp Pp) as [[Fx Ex]|[_ Hbig]].
  - generalize dependent (raw_delay base rnd p r). intros x Fx Ex.
    rewrite clamp_delay_finite by assumption.
    apply Rabs_le_inv in Ex. unfold exact_delay, band_tol in *.
    assert (BP : (IZR base <= IZR base * FR p)%R) by nra.
    assert (K1 : (- / 2 <= (FR r - /2) * FR rnd)%R) by nra.
    assert (K2 : (- / 2 * IZR base <= (FR r - /2) * FR rnd * IZR base)%R) by nra.
    assert (K3 : (u * (IZR base * FR p) <= /1000 * (IZR base * FR p))%R) by (apply Rmult_le_compat_r; lra).
    assert (K4 : (u * IZR base <= /1000 * IZR base)%R) by (apply Rmult_le_compat_r; lra).
    assert (X0 : (0 <= FR x)%R) by lra.
    assert (XM : (FR x < IZR max)%R) by lra.
    rewrite Ztrunc_floor by exact X0.
    pose proof (Zfloor_lb (FR x)) as Hlb. pose proof (Zfloor_ub (FR x)) as Hub.
    assert (Hfl : 0 <= Zfloor (FR x) < max).
    { split.
      - rewrite <- (Zfloor_IZR 0). apply Zfloor_le. exact X0.
      - apply lt_IZR. lra. }
    rewrite Z.min_r, Z.max_r by lia.
    apply Rabs_le. lra.
  - exfalso. unfold exact_delay, band_tol in *.
    assert (IZR max < bpow radix2 63)%R.
    { change (bpow radix2 63) with (IZR (2 ^ 63)). apply IZR_lt. unfold two63 in Hm. lia. }
    assert (2 * bpow radix2 63 <= bpow radix2 1000)%R.
    { change (2 * bpow radix2 63)%R with (bpow radix2 1 * bpow radix2 63)%R. rewrite <- bpow_plus. apply bpow_le. lia. }
    assert (BP : (IZR base <= IZR base * FR p)%R) by nra.
    assert (K1 : (- / 2 <= (FR r - /2) * FR rnd)%R) by nra.
    assert (K2 : (- / 2 * IZR base <= (FR r - /2) * FR rnd * IZR base)%R) by nra.
    assert (K3 : (0 <= u * (IZR base * FR p + IZR base))%R) by (apply Rmult_le_pos; lra).
    lra.
Qed.

(* Once the documented value (minus the tolerance) reaches max — or math.Pow overflowed to +Inf — the delay is
   exactly max, whatever the count: covers products beyond 2^63, beyond MaxFloat64 and +Inf. *)
Theorem backoff_saturates : forall count limit base max rnd p r,
  stop count limit = false ->
  0 < base < 9007199254740992 -> 0 <= max < two63 ->
  in_unit rnd -> in_unit r ->
  (Prim2SF p = S754_infinity false \/
   (finite p /\ (1 <= FR p)%R /\ (IZR max <= exact_delay base rnd p r - band_tol base p)%R)) ->
  backoff count limit base max rnd p r = max.
Proof.
  intros count limit base max rnd p r Hs Hb Hm Hrnd Hr Hp.
  unfold backoff, delay_fixed. rewrite Hs. destruct (Z.leb_spec base 0) as [H|_]; [lia|].
  destruct Hp as [Hinf|[Fp [Pp Hge]]].
  - apply clamp_delay_pinf. apply raw_delay_pinf; assumption.
  - destruct (raw_delay_cases base rnd p r Hb Hrnd Hr Fp Pp) as [[Fx Ex]|[Ix _]].
    + generalize dependent (raw_delay base rnd p r). intros x Fx Ex.
      rewrite clamp_delay_finite by assumption.
      apply Rabs_le_inv in Ex.
      assert (Ht : max <= Ztrunc (FR x)).
      { rewrite <- (Ztrunc_IZR max). apply Ztrunc_le. lra. }
      lia.
    + apply clamp_delay_pinf. rewrite <- B2SF_Prim2B, Ix. reflexivity.
Qed.

Definition pos_inf (x : float) : Prop := Prim2SF x = S754_infinity false.
Definition not_a_number (x : float) : Prop := Prim2SF x = S754_nan.

(* ---- variants stated with the stop condition spelled out, as used in Properties.v *)
Lemma stop_false count limit : ~ (0 <= limit /\ limit < count) -> stop count limit = false.
Proof. intros H. destruct (stop count limit) eqn:Hs; [|reflexivity]. apply stop_spec in Hs. contradiction. Qed.

Theorem backoff_band' : forall count limit base max rnd p r,
  ~ (0 <= limit /\ limit < count) ->
  0 < base < 9007199254740992 -> 0 <= max < 9223372036854775808 ->
  in_unit rnd -> in_unit r -> finite p -> (1 <= FR p)%R ->
  (exact_delay base rnd p r + band_tol base p < IZR max)%R ->
  (Rabs (IZR (backoff count limit base max rnd p r) - exact_delay base rnd p r) <= band_tol base p + 1)%R.
Proof. intros. apply backoff_band; auto using stop_false. Qed.

Theorem backoff_saturates' : forall count limit base max rnd p r,
  ~ (0 <= limit /\ limit < count) ->
  0 < base < 9007199254740992 -> 0 <= max < 9223372036854775808 ->
  in_unit rnd -> in_unit r ->
  (pos_inf p \/
   (finite p /\ (1 <= FR p)%R /\ (IZR max <= exact_delay base rnd p r - band_tol base p)%R)) ->
  backoff count limit base max rnd p r = max.
Proof. intros. apply backoff_saturates; auto using stop_false. Qed.

(* the clamp alone, for every float: NaN, +Inf and every finite value >= max give exactly max; -Inf gives 0 *)
Theorem clamp_saturates_float : forall x max,
  0 <= max < 9223372036854775808 ->
  (not_a_number x \/ pos_inf x \/ (finite x /\ (IZR max <= FR x)%R)) ->
  clamp_delay x max = max.
Proof.
  intros x max Hm [H|[H|[Hf Hx]]].
  - apply clamp_delay_nan, H.
  - apply clamp_delay_pinf, H.
  - rewrite clamp_delay_finite by assumption.
    assert (Ht : max <= Ztrunc (FR x)) by (rewrite <- (Ztrunc_IZR max); apply Ztrunc_le; exact Hx).
    lia.
Qed.

(* integer part (toward zero) of the real number a finite float denotes *)
Definition trunc_of (x : float) : Z := Ztrunc (FR x).

Theorem clamp_finite_float : forall x max,
  0 <= max < 9223372036854775808 -> finite x ->
  clamp_delay x max = Z.max 0 (Z.min max (trunc_of x)).
Proof. intros. apply clamp_delay_finite; assumption. Qed.

(* ---- non-vacuity: concrete floats satisfying the hypotheses *)
Ltac fr_lit := rewrite FR_SF2R; vm_compute Prim2SF; unfold SF2R, F2R; simpl; lra.
Ltac fin_lit := apply finite_SF; vm_compute Prim2SF; eauto.

Lemma in_unit_half : in_unit 0.5%float.
Proof. split; [exact finite_half|]. rewrite FR_half. lra. Qed.

Lemma in_unit_quarter : in_unit 0.25%float.
Proof. split; [fin_lit|]. assert (FR 0.25%float = /4)%R by fr_lit. lra. Qed.

(* named literals (Properties.v does not import the float notations) *)
Definition f_half : float := 0.5%float.
Definition f_quarter : float := 0.25%float.
Definition f_8 : float := 8%float.
Definition f_2p36 : float := 68719476736%float.

Lemma band_example :
  let base := 200000000 in let max := 3000000000 in
  in_unit f_half /\ in_unit f_quarter /\ finite f_8 /\ (1 <= FR f_8)%R /\
  (exact_delay base f_half f_8 f_quarter + band_tol base f_8 < IZR max)%R /\
  backoff 3 (-1) base max f_half f_8 f_quarter = 1575000000.
Proof.
  unfold f_half, f_quarter, f_8. cbn zeta. assert (H8 : FR 8%float = 8%R) by fr_lit.
  assert (Hq : FR 0.25%float = (/4)%R) by fr_lit.
  split; [exact in_unit_half|]. split; [exact in_unit_quarter|]. split; [fin_lit|]. split; [lra|].
  split; [|vm_compute; reflexivity].
  unfold exact_delay, band_tol, u. rewrite H8, Hq, FR_half. lra.
Qed.

Lemma saturates_example :
  let base := 200000000 in let max := 3000000000 in
  finite f_2p36 /\ (1 <= FR f_2p36)%R /\ (IZR max <= exact_delay base f_half f_2p36 f_quarter - band_tol base f_2p36)%R /\
  backoff 36 (-1) base max f_half f_2p36 f_quarter = max /\
  backoff_orig 36 (-1) base max f_half f_2p36 f_quarter = -9223372036854775808.
Proof.
  unfold f_half, f_quarter, f_2p36. cbn zeta. assert (Hp : FR 68719476736%float = 68719476736%R) by fr_lit.
  assert (Hq : FR 0.25%float = (/4)%R) by fr_lit.
  split; [fin_lit|]. split; [lra|]. split; [|split; vm_compute; reflexivity].
  unfold exact_delay, band_tol, u. rewrite Hp, Hq, FR_half. lra.
Qed.
