(* MV.C18.BackoffRun — evaluation of recorded runs of chrono.ExponentialBackoff against the model (tie T1).
   A case = inputs, the two oracle values observed on the Go side (bits of math.Pow's result, the 53-bit
   integer k behind rand.Float64() = k / 2^53) and the int64 the Go code returned. *)
From Coq Require Import ZArith Bool List Floats Uint63.
From MV Require Import Lib.ListX C18.BackoffModel.
Open Scope Z_scope.

(* literals: the harness writes integers as primitive-integer literals (parsed natively, 7x faster than
   decimal Z literals): [zi n] = n, [zn n] = -n, [zb hi lo] = hi * 2^32 + lo (64-bit patterns), [ni n] : nat *)
Definition zi (n : int) : Z := Uint63.to_Z n.
Definition zn (n : int) : Z := - Uint63.to_Z n.
Definition zb (hi lo : int) : Z := Uint63.to_Z hi * 4294967296 + Uint63.to_Z lo.
Definition ni (n : int) : nat := Z.to_nat (Uint63.to_Z n).
Arguments zi n%uint63.
Arguments zn n%uint63.
Arguments zb hi%uint63 lo%uint63.
Arguments ni n%uint63.

Record case := {
  cid : nat; ccount : Z; climit : Z; cbase : Z; cmax : Z;
  crnd : Z;   (* bits of the randomization factor *)
  cp : Z;     (* bits of math.Pow(multiplier, float64(count)) *)
  ck : Z;     (* rand.Float64() = k / 2^53 *)
  cbad : bool; (* the implementation panicked: never equal to a model output *)
  cimpl : Z }.

Definition model_out (c : case) : Z :=
  backoff (ccount c) (climit c) (cbase c) (cmax c) (float_of_bits (crnd c)) (float_of_bits (cp c)) (rand_of_k (ck c)).

Definition case_ok (c : case) : bool := negb (cbad c) && (model_out c =? cimpl c).
Definition mismatches (cs : list case) : list nat := fail_ids case_ok cid cs.

(* the same for the code as it stands (used by docs and examples, not by the check) *)
Definition model_out_orig (c : case) : Z :=
  backoff_orig (ccount c) (climit c) (cbase c) (cmax c) (float_of_bits (crnd c)) (float_of_bits (cp c)) (rand_of_k (ck c)).
Definition mismatches_orig (cs : list case) : list nat :=
  fail_ids (fun c => negb (cbad c) && (model_out_orig c =? cimpl c)) cid cs.
