(* MV.C18.RetryModel — executable model of toolkit/retry.go (layer C).  No proofs here.

   The retried operation is a list of outcomes (one per invocation); an error is the list of sentinel
   ids found along its Unwrap chain, so that errors.Is(err, sentinel i) <-> In i err.  Every helper is a
   structural recursion over the outcome list (fuel = its length): running out of outcomes gives
   [ROutOfFuel], which the theorems exclude and the harness never produces.
   A run records how often the operation (and the interruption condition) was invoked, the argument of
   every time.Sleep in order, and which value came back.

   [cond_from] models ConditionalRetryByExponentialBackoff repaired by fixes/C18-backoff-overflow.patch
   (sleep computed by BackoffModel.delay_fixed); [cond_from_orig] the code as it stands. *)
From Coq Require Import ZArith Bool List Floats.
From MV Require Import C18.BackoffModel.
Import ListNotations.
Open Scope Z_scope.

Definition err := list nat.
Inductive outcome := Ok | Fail (e : err).

Inductive result :=
| RNil                 (* nil *)
| RErr (call : nat)    (* exactly the error value returned by invocation number [call] (0-based) *)
| RMax (call : nat)    (* "max retries reached: %w" wrapping the error of invocation [call] *)
| RInterrupted         (* "interrupted" *)
| RNone                (* nothing is delivered: RetryForever, RetryAsync without callback *)
| ROutOfFuel
| RBad.                (* never produced by the model: panics, unrecognised error values *)

Record run := { calls : nat; conds : nat; sleeps : list Z; res : result }.

Definition done (c : nat) (r : result) : run := {| calls := c; conds := 0; sleeps := []; res := r |}.
Definition out_of_fuel : run := done 0 ROutOfFuel.

(* one failed invocation followed by Sleep(s), then the rest of the run *)
Definition after_fail (s : Z) (r : run) : run :=
  {| calls := S (calls r); conds := conds r; sleeps := s :: sleeps r; res := res r |}.

(* ---- Retry(count, interval, f):  for i := 0; i < count; i++ { if err = f(); err == nil { return nil }; Sleep(interval) }; return err *)
Fixpoint retry_from (i : nat) (remaining interval : Z) (pat : list outcome) (last : result) : run :=
  if remaining <=? 0 then done 0 last
  else match pat with
       | [] => out_of_fuel
       | Ok :: _ => done 1 RNil
       | Fail _ :: t => after_fail interval (retry_from (S i) (remaining - 1) interval t (RErr i))
       end.
Definition retry (count interval : Z) (pat : list outcome) : run := retry_from 0 count interval pat RNil.

(* ---- RetryAsync: the same loop in a goroutine; the result goes to the callback if there is one *)
Definition retry_async (count interval : Z) (cb : bool) (pat : list outcome) : run :=
  let r := retry count interval pat in
  if cb then r else
  match res r with
  | ROutOfFuel => r
  | _ => {| calls := calls r; conds := conds r; sleeps := sleeps r; res := RNone |}
  end.

(* ---- RetryForever(interval, f) *)
Fixpoint forever (interval : Z) (pat : list outcome) : run :=
  match pat with
  | [] => out_of_fuel
  | Ok :: _ => done 1 RNone
  | Fail _ :: t => after_fail interval (forever interval t)
  end.

(* ---- RetryByRule(f, rule): rule(count) = nth (count-1) rule 0, count = number of failures so far *)
Fixpoint by_rule_from (i : nat) (rule : list Z) (pat : list outcome) : run :=
  match pat with
  | [] => out_of_fuel
  | Ok :: _ => done 1 RNil
  | Fail _ :: t =>
      let next := nth i rule 0 in
      if next <=? 0 then done 1 (RErr i)
      else after_fail next (by_rule_from (S i) rule t)
  end.
Definition by_rule (rule : list Z) (pat : list outcome) : run := by_rule_from 0 rule pat.

(* ---- ConditionalRetryByExponentialBackoff / RetryByExponentialBackoff (cond = nil) *)
Definition ignored (ign : list nat) (e : err) : bool :=
  existsb (fun g => existsb (Nat.eqb g) e) ign.

Definition with_cond (r : run) : run :=
  {| calls := calls r; conds := S (conds r); sleeps := sleeps r; res := res r |}.

Section Cond.
  Variable sleep_of : Z -> Z -> float -> float -> float -> Z. (* base max rnd p r *)
  Variables (hascond : bool) (maxRetries base max : Z) (rnd : float) (ign : list nat).

  (* [i] = value of the variable retry = number of the invocation; [cond]: results of successive cond()
     calls (true when the list is exhausted); [orc]: per sleep the pair (math.Pow(mult, retry), rand.Float64()) *)
  Fixpoint cond_loop (i : nat) (cond : list bool) (orc : list (float * float)) (pat : list outcome) {struct pat} : run :=
    let body :=
      match pat with
      | [] => out_of_fuel
      | Ok :: _ => done 1 RNil
      | Fail e :: t =>
          if ignored ign e then done 1 (RErr i)
          else if Z.of_nat i >=? maxRetries then done 1 (RMax i)
          else match orc with
               | [] => out_of_fuel
               | (p, r) :: orc' =>
                   after_fail (sleep_of base max rnd p r) (cond_loop (S i) (tl cond) orc' t)
               end
      end in
    if hascond then
      if hd true cond then with_cond body
      else with_cond (done 0 RInterrupted)
    else body.
End Cond.

Definition cond_from := cond_loop delay_fixed.
Definition cond_from_orig := cond_loop delay_orig.

Definition cond_retry (hascond : bool) (cond : list bool) (maxRetries base max : Z) (rnd : float)
           (orc : list (float * float)) (ign : list nat) (pat : list outcome) : run :=
  cond_from hascond maxRetries base max rnd ign 0 cond orc pat.
