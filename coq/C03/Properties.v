(* MV.C03.Properties — property C03 ("every actor incarnation sees a well-formed lifecycle") on the kernel model. *)
From MV Require Import Kernel.Launch Kernel.Restart Kernel.Terminate Kernel.Fresh Kernel.Hierarchy Kernel.Held.
From MV Require Import Lib.ListX Kernel.Model Kernel.Run Kernel.Lifecycle Kernel.Status Kernel.Registry Kernel.Suspend Kernel.NoUser.
Open Scope Z_scope.

(* Clause "nothing at all is handled by that incarnation after its own OnTerminated": an actor object whose
   status is Terminated — the status set immediately before its own OnTerminated is handled — produces no
   Handled observation in any later step of its mailbox, in any state, for any role table. *)
Theorem C03_terminated_handles_nothing : forall roles s u a s' o,
  get s u = Some a -> a_st a = Terminated -> run_actor roles s u = Some (s', o) ->
  existsb is_handled o = false.
Proof. exact terminated_silent. Qed.
Print Assumptions C03_terminated_handles_nothing.

(* The status Terminated is final, for every role table and every run from every state: no later step — restart
   requests, late terminate requests, failures, anything — changes it (status monotonicity; with the repaired
   onRestart a terminated actor cannot be revived). *)
Theorem C03_terminated_is_final : forall roles s u a ls s' os,
  get s u = Some a -> a_st a = Terminated -> krun roles s ls = Some (s', os) ->
  exists a', get s' u = Some a' /\ a_st a' = Terminated.
Proof. exact terminated_is_final. Qed.
Print Assumptions C03_terminated_is_final.

(* Trace form of the clause: once an actor object is Terminated (the status set right before its own OnTerminated
   is handled), then after ANY further run, a step of its mailbox handles nothing. *)
Theorem C03_nothing_handled_after_terminated : forall roles s u a ls s1 os s2 o,
  get s u = Some a -> a_st a = Terminated -> krun roles s ls = Some (s1, os) ->
  kstep roles s1 (LRun (Z.of_nat u)) = Some (s2, o) -> existsb is_handled o = false.
Proof. exact nothing_handled_after_terminated. Qed.
Print Assumptions C03_nothing_handled_after_terminated.

(* First clause: "for each incarnation the first message handled is OnLaunch, preceded only by OnRestarted when the
   incarnation results from a restart". Until fix 'the fresh instance of a restart handles OnRestarted and OnLaunch
   before anything that was already queued' this was FALSE of the model and of the code (former theorem
   C03_first_is_launch_refuted, three open findings). Now proved (Kernel/Launch.v), for every role table and every run
   from the freshly started system: whenever a step shows an incarnation (address t, instance i) of a non-system actor
   handling anything other than OnLaunch or OnRestarted — a user message, OnTerminate, its own OnTerminated, a child's
   or watched actor's OnTerminated, OnRestarting — that incarnation has handled its OnLaunch in an EARLIER step.
   (That OnRestarted comes only as the very first message, directly followed by OnLaunch in the same step, is how
   start_instance is built; the step-level statement of that is checked per run, monitor C03:first-not-launch.) *)
Theorem C03_launch_first : forall roles ls s os l s' o t i tg sn sd,
  krun roles kinit ls = Some (s, os) -> kstep roles s l = Some (s', o) ->
  In (OH t i tg sn sd) o -> is_sys t = false -> tg <> TL -> tg <> TRD ->
  exists sn' sd', In (OH t i TL sn' sd') (concat os).
Proof. exact launch_first. Qed.
Print Assumptions C03_launch_first.

(* The former counter-example, now well-formed: incarnation 1 of actor 0 handles OnRestarted, OnLaunch, and only then
   the terminate request that had raced with the restart. *)
Definition handled_by (a : ref) (inst : nat) (os : list (list obs)) : list trig :=
  flat_map (fun o => match o with OH a' i t _ _ => if (a' =? a) && Nat.eqb i inst then [t] else [] | _ => [] end) (concat os).

Definition c03_roles : list role :=
  [ {| victim := Some DRestart; sup := []; rules := [ {| r_on := KP; r_n := 0; r_inst := 0; r_do := [APanic] |} ] |} ].
Definition c03_labels : list label := [LSpawn 0 0; LRun 2; LTell 0 0; LRun 2; LRun 0; LTerm 0 false; LRun 2; LRun 2].

Example C03_restart_racing_with_terminate :
  exists s os, krun c03_roles kinit c03_labels = Some (s, os) /\
    handled_by 0 0 os = [TL; TP 0; TRG; TT; TTS] /\ handled_by 0 1 os = [TRD; TL; TT; TTS].
Proof. eexists. eexists. split; [vm_compute; reflexivity|]. split; vm_compute; reflexivity. Qed.

(* non-vacuity of the first theorem: a reachable state with a terminated actor that still has a queued message *)
Example C03_example :
  exists s os a, krun c03_roles kinit c03_labels = Some (s, os) /\ get s 2 = Some a /\ a_st a = Terminated.
Proof. eexists. eexists. eexists. split; [vm_compute; reflexivity|]. split; vm_compute; reflexivity. Qed.

(* Second sentence: "a supervised restart is observed as OnRestarting, OnTerminate, OnTerminated on the old instance, then
   OnRestarted and OnLaunch on a fresh instance obtained from the provider, with no user message handled in between".
   The completion of a restart (the last child has gone) is ONE step of the actor's mailbox. For every role table and from
   every state, that step shows exactly four Handled observations, in this order: OnTerminate and OnTerminated by the old
   instance number, OnRestarted and OnLaunch by the instance number the provider hands out in that step — whatever the
   four handlers do (a failure in a handler of a restarting actor is logged and the sequence goes on; a failure in
   OnRestarted does not keep OnLaunch from being handled); the actor is alive afterwards. Nothing else is handled in that
   step, so nothing comes in between these four. (That the instance number is new is observed per run: the lockstep
   compares the instance ids, which the Go harness takes in the provider.) *)
Theorem C03_restart_completes_in_order : forall roles s u snd a s' o p,
  get s u = Some a -> a_children a = [] -> a_st a = Restarting -> is_sys (a_tok a) = false ->
  try_restarted roles s u snd = (s', o, p) ->
  exists a', get s' u = Some a' /\ a_tok a' = a_tok a /\ a_st a' = Alive /\
    handled o = [OH (a_tok a) (a_inst a) TT 0%nat rNone; OH (a_tok a) (a_inst a) TTS 0%nat rNone;
                 OH (a_tok a) (a_inst a') TRD 0%nat rNone; OH (a_tok a) (a_inst a') TL 0%nat rNone].
Proof. exact restart_shape. Qed.
Print Assumptions C03_restart_completes_in_order.

(* "... with no user message handled in between", the window between OnRestarting and the completing step (the actor waits
   for its children), PARTIAL: onRestart suspends the mailbox within the step that handles OnRestarting, so the actor is
   "waiting" at the end of that step (C04_own_step_ending_suspended_is_waiting); a waiting actor for whose address no
   resume request is pending stays waiting — its mailbox hands it no user message — through every step that shows no
   marker for its address (Kernel.NoUser). The markers are: the completing step itself (OnTerminate / OnTerminated of the
   old instance), a termination overtaking the restart, and a supervisor's Resume decision for that address. What this
   statement does not cover is a Resume decision that is pending or arrives during the window: with the repaired code the
   request is ignored by a restarting actor (the model's SResumeReq branch; scenario C04_stale_resume_does_not_resume_a_
   restarting_actor, replayed on the implementation by the lockstep corpus) — stated per run (monitor
   C03:user-message-during-restart), not as a theorem over all runs. *)
Theorem C03_no_user_message_while_restarting_partial : forall roles ls0 s0 os0 ls s' os u a,
  krun roles kinit ls0 = Some (s0, os0) ->
  get s0 u = Some a -> is_sys (a_tok a) = false -> a_st a = Restarting -> waiting (a_tok a) a -> nrp (a_tok a) s0 ->
  krun roles s0 ls = Some (s', os) -> (forall o, In o os -> marker (a_tok a) o = false) ->
  exists a', get s' u = Some a' /\ waiting (a_tok a) a'.
Proof.
  intros roles ls0 s0 os0 ls s' os u a Hr Hg Hs _. apply (no_user_run roles ls s0 s' os u a); [|exact Hg|exact Hs].
  eapply RI_reachable; [apply RI_init|exact Hr].
Qed.
Print Assumptions C03_no_user_message_while_restarting_partial.

(* The repaired mechanism itself (fix 925aa8b), for every role table and every state: a supervisor's Resume decision reaches
   the actor as a queued request, and an actor that is not alive — restarting, terminating or terminated — ignores it: state
   and observations are unchanged, in particular its mailbox stays suspended. *)
Theorem C03_resume_request_ignored_unless_alive : forall roles s u a e,
  get s u = Some a -> a_st a <> Alive -> e_msg e = SResumeReq -> process_sys roles s u e = (s, [], false).
Proof.
  intros roles s u a e Ha Hst Em. unfold process_sys. rewrite Ha, Em.
  destruct (a_st a); try reflexivity. congruence.
Qed.
Print Assumptions C03_resume_request_ignored_unless_alive.

(* the hypotheses of C03_restart_completes_in_order on a concrete state (actor 0 of the scenario above, launched, marked
   restarting with no child left), and what its completing step shows: instance 0 ends, instance 1 starts *)
Example C03_restart_completes_example :
  exists s os a, krun c03_roles kinit [LSpawn 0 0; LRun 2] = Some (s, os) /\
    let s0 := upd_actor s 2 (w_st Restarting) in
    get s0 2 = Some a /\ a_children a = [] /\ a_st a = Restarting /\ is_sys (a_tok a) = false /\
    handled (snd (fst (try_restarted c03_roles s0 2 rNone))) =
      [OH 0 0 TT 0 rNone; OH 0 0 TTS 0 rNone; OH 0 1 TRD 0 rNone; OH 0 1 TL 0 rNone].
Proof. eexists. eexists. eexists. split; [vm_compute; reflexivity|]. cbv zeta. repeat split; vm_compute; reflexivity. Qed.

(* "... with no user message handled in between", as an invariant over every run (Kernel/Held.v): for every role table that does
   not spawn from an actor's own OnTerminated handler nor under a system address (the hypotheses of the hierarchy invariant,
   which supplies "the running object is the one registered under its address"), every label sequence with non-negative
   top-level addresses and every state reachable from the freshly started system: an actor whose status is Restarting — from
   the step that handles OnRestarting to the step that completes the restart, or to the start of a termination that overtakes
   it — has its mailbox SUSPENDED and no user message in flight; hence a step of its mailbox shows no Handled observation
   with a user-message trigger, whatever arrives meanwhile (in particular a supervisor's Resume decision about an earlier
   failure: the history that refuted this statement before fix 925aa8b). PARTIAL only in the hypotheses on the role table
   (the excluded tables are those of the open finding about spawning inside one's own OnTerminated). *)
Theorem C03_restarting_actor_is_suspended_partial : forall roles,
  (forall ro ru t r, In ro roles -> In ru (rules ro) -> In (ASpawn t r) (r_do ru) -> 0 <= t /\ r_on ru <> KTS) ->
  forall ls s os u a, Forall lab_ok ls -> krun roles kinit ls = Some (s, os) -> get s u = Some a -> a_st a = Restarting ->
  a_susp a = true /\ match a_inflight a with Some (MU _) => False | _ => True end.
Proof. exact restarting_is_suspended. Qed.
Print Assumptions C03_restarting_actor_is_suspended_partial.

Theorem C03_restarting_actor_handles_no_user_message_partial : forall roles,
  (forall ro ru t r, In ro roles -> In ru (rules ro) -> In (ASpawn t r) (r_do ru) -> 0 <= t /\ r_on ru <> KTS) ->
  forall ls s os u a s' o, Forall lab_ok ls -> krun roles kinit ls = Some (s, os) -> get s u = Some a -> a_st a = Restarting ->
  kstep roles s (LRun (Z.of_nat u)) = Some (s', o) ->
  forall x i n sn sd, ~ In (OH x i (TP n) sn sd) o.
Proof. exact restarting_handles_no_user. Qed.
Print Assumptions C03_restarting_actor_handles_no_user_message_partial.

(* non-vacuity: the role table and the history of the repaired defect satisfy the hypotheses, and reach a state in which actor A
   (object 3) is restarting (it waits for its child) with a resume request queued for it and a user message waiting *)
Definition c03_stale_roles : list role :=
 [ {| victim := None; sup := [DRestartAll]; rules := [ {| r_on := KL; r_n := -1; r_inst := -1; r_do := [ASpawn 1 1; ASpawn 2 2] |} ] |};
   {| victim := Some DResume; sup := []; rules := [ {| r_on := KL; r_n := -1; r_inst := -1; r_do := [ASpawn 3 3] |};
        {| r_on := KP; r_n := 1; r_inst := -1; r_do := [AReport] |} ] |};
   {| victim := None; sup := []; rules := [ {| r_on := KP; r_n := 2; r_inst := -1; r_do := [APanic] |} ] |};
   {| victim := None; sup := []; rules := [] |} ].
Definition c03_stale_labels : list label :=
 [LSpawn 0 0; LRun 2; LRun 3; LRun 4; LRun 5; LTell 1 1; LTell 1 1; LTell 1 9; LTell 2 2;
  LRun 3; LRun 2; LRun 4; LRun 3; LRun 2; LRun 3; LRun 2; LRun 3].
Example C03_restarting_example :
  (forall ro ru t r, In ro c03_stale_roles -> In ru (rules ro) -> In (ASpawn t r) (r_do ru) -> 0 <= t /\ r_on ru <> KTS) /\
  Forall lab_ok c03_stale_labels /\
  exists s os a e, krun c03_stale_roles kinit c03_stale_labels = Some (s, os) /\ get s 3 = Some a /\ a_st a = Restarting /\
    a_inflight a = Some (MS e) /\ e_msg e = SResumeReq /\ a_userq a <> [].
Proof.
  split.
  { intros ro ru t r Hro Hru Hact. cbn in Hro. destruct Hro as [<-|[<-|[<-|[<-|[]]]]]; cbn in Hru.
    - destruct Hru as [<-|[]]. cbn in Hact. destruct Hact as [E|[E|[]]]; (inversion E; subst; split; [lia|discriminate]).
    - destruct Hru as [<-|[<-|[]]]; cbn in Hact.
      + destruct Hact as [E|[]]; (inversion E; subst; split; [lia|discriminate]).
      + destruct Hact as [E|[]]; discriminate E.
    - destruct Hru as [<-|[]]. cbn in Hact. destruct Hact as [E|[]]; discriminate E.
    - destruct Hru. }
  split; [repeat constructor; cbn; lia|].
  eexists. eexists. eexists. eexists. split; [vm_compute; reflexivity|]. split; [vm_compute; reflexivity|].
  split; [reflexivity|]. split; [reflexivity|]. split; [reflexivity|discriminate].
Qed.

(* Clause "OnTerminate is handled before the incarnation's own OnTerminated" (Kernel/Terminate.v; trace-indexed invariant: every
   object is a system actor, or is not Terminating, or its current incarnation has handled OnTerminate): for every role table, every
   run from the freshly started system and every following step, an incarnation of a non-system actor whose status becomes
   Terminated in that step — the step in which it handles its own OnTerminated and leaves the registry — has handled OnTerminate:
   in an earlier step of the run, or in this very step (a termination that finds no child left completes within the step that
   handles OnTerminate; there OnTerminate comes first by the construction of processMessage, which the lockstep compares
   observation by observation). The status reaches Terminating only by processing the terminate request, which handles OnTerminate at
   once under the unchanged instance number, and from Terminating it can only go on to Terminated. (The OnTerminate / OnTerminated
   pair that a restart delivers to the old instance is C03_restart_completes_in_order. An observation "OnTerminated naming my own
   address" can also be a notice about an EARLIER holder of that address handed to an actor that watches its own address; that is a
   notice, not the actor's termination, which is why the statement is about the status change.) *)
Theorem C03_terminate_before_terminated : forall roles ls s os l s' o u a a',
  krun roles kinit ls = Some (s, os) -> kstep roles s l = Some (s', o) ->
  get s u = Some a -> get s' u = Some a' -> is_sys (a_tok a) = false -> a_st a <> Terminated -> a_st a' = Terminated ->
  exists sn sd, In (OH (a_tok a') (a_inst a') TT sn sd) (concat os ++ o).
Proof. exact terminate_before_terminated. Qed.
Print Assumptions C03_terminate_before_terminated.

Example C03_terminate_before_terminated_example :
  exists s os s' o a a', krun c03_roles kinit (firstn 7 c03_labels) = Some (s, os) /\ kstep c03_roles s (LRun 2) = Some (s', o) /\
    get s 2 = Some a /\ get s' 2 = Some a' /\ is_sys (a_tok a) = false /\ a_st a = Alive /\ a_st a' = Terminated /\ a_inst a' = 1%nat.
Proof.
  eexists. eexists. eexists. eexists. eexists. eexists. split; [vm_compute; reflexivity|]. split; [vm_compute; reflexivity|].
  split; [vm_compute; reflexivity|]. split; [vm_compute; reflexivity|]. repeat split.
Qed.

(* "... on a fresh instance obtained from the provider" (Kernel/Fresh.v). Instance numbers are handed out by the provider of an
   address, one after the other. For every role table and every run from the freshly started system: a non-system object's
   instance number is below the number of instances the provider of its address has produced so far; an instance number that
   changes in a step grows (only a completed restart changes it: it installs the provider's count at that moment); and in any
   state with that invariant the completing step of a restart installs a number STRICTLY GREATER than the one it replaces. *)
Theorem C03_instance_below_provider_count : forall roles ls s os u a,
  krun roles kinit ls = Some (s, os) -> get s u = Some a -> is_sys (a_tok a) = false -> (a_inst a < pcount s (a_tok a))%nat.
Proof. exact instance_below_provider_count. Qed.
Print Assumptions C03_instance_below_provider_count.

Theorem C03_instance_numbers_only_grow : forall roles ls s os l s' o u a a',
  krun roles kinit ls = Some (s, os) -> kstep roles s l = Some (s', o) ->
  get s u = Some a -> get s' u = Some a' -> is_sys (a_tok a) = false -> a_inst a' <> a_inst a -> (a_inst a < a_inst a')%nat.
Proof. exact instance_numbers_only_grow. Qed.
Print Assumptions C03_instance_numbers_only_grow.

Theorem C03_restart_installs_a_fresh_instance : forall roles s u snd a s' o p,
  PI s -> get s u = Some a -> a_children a = [] -> a_st a = Restarting -> is_sys (a_tok a) = false ->
  try_restarted roles s u snd = (s', o, p) -> exists a', get s' u = Some a' /\ (a_inst a < a_inst a')%nat.
Proof. exact restart_fresh. Qed.
Print Assumptions C03_restart_installs_a_fresh_instance.

(* its hypotheses on the concrete state of C03_restart_completes_example: the invariant holds there (reachable state, then a
   status update), and the completing step replaces instance 0 by instance 1 *)
Example C03_fresh_instance_example :
  exists s os, krun c03_roles kinit [LSpawn 0 0; LRun 2] = Some (s, os) /\ PI (upd_actor s 2 (w_st Restarting)) /\
    exists a', get (fst (fst (try_restarted c03_roles (upd_actor s 2 (w_st Restarting)) 2 rNone))) 2 = Some a' /\ a_inst a' = 1%nat.
Proof.
  destruct (krun c03_roles kinit [LSpawn 0 0; LRun 2]) as [[s os]|] eqn:E; [|vm_compute in E; discriminate].
  exists s, os. split; [reflexivity|]. split.
  - eapply PI_sig; [apply sig_upd_actor; intros; split; reflexivity|]. eapply krun_PI; [apply PI_init|exact E].
  - vm_compute in E. inversion E; subst. eexists. split; vm_compute; reflexivity.
Qed.
