(* MV.C03.Properties — property C03 ("every actor incarnation sees a well-formed lifecycle") on the kernel model. *)
From MV Require Import Lib.ListX Kernel.Model Kernel.Run Kernel.Lifecycle Kernel.Status.
Open Scope Z_scope.

(* Clause "nothing at all is handled by that incarnation after its own OnTerminated": an actor object whose
   status is Terminated — the status set immediately before its own OnTerminated is handled — produces no
   Handled observation in any later step of its mailbox, in any state, for any role table. *)
Theorem C03_terminated_handles_nothing : forall roles s u a s' o,
  get s u = Some a -> a_st a = Terminated -> run_actor roles s u = Some (s', o) ->
  existsb is_handled o = false.
Proof. exact terminated_silent. Qed.
Print Assumptions C03_terminated_handles_nothing.

(* The status Terminated is final, for every role table and every run from every state: no later step — restart
   requests, late terminate requests, failures, anything — changes it (status monotonicity; with the repaired
   onRestart a terminated actor cannot be revived). *)
Theorem C03_terminated_is_final : forall roles s u a ls s' os,
  get s u = Some a -> a_st a = Terminated -> krun roles s ls = Some (s', os) ->
  exists a', get s' u = Some a' /\ a_st a' = Terminated.
Proof. exact terminated_is_final. Qed.
Print Assumptions C03_terminated_is_final.

(* Trace form of the clause: once an actor object is Terminated (the status set right before its own OnTerminated
   is handled), then after ANY further run, a step of its mailbox handles nothing. *)
Theorem C03_nothing_handled_after_terminated : forall roles s u a ls s1 os s2 o,
  get s u = Some a -> a_st a = Terminated -> krun roles s ls = Some (s1, os) ->
  kstep roles s1 (LRun (Z.of_nat u)) = Some (s2, o) -> existsb is_handled o = false.
Proof. exact nothing_handled_after_terminated. Qed.
Print Assumptions C03_nothing_handled_after_terminated.

(* FULL statement of the first clause: "for each incarnation the first message handled is OnLaunch, preceded
   only by OnRestarted when the incarnation results from a restart". It is FALSE of the faithful model (and of
   the code): tryRestarted enqueues OnRestarted/OnLaunch behind system messages that are already queued, so a
   terminate request that raced with the restart is handled first by the fresh instance. Witness: incarnation 1
   of actor 0 handles OnTerminate and its own OnTerminated and never OnLaunch. (Open finding C03-restart-behind-pending.) *)
Definition first_handled (a : ref) (inst : nat) (os : list (list obs)) : option trig :=
  match filter (fun o => match o with OH a' i _ _ _ => (a' =? a) && Nat.eqb i inst | _ => false end) (concat os) with
  | OH _ _ t _ _ :: _ => Some t
  | _ => None
  end.

Definition c03_roles : list role :=
  [ {| victim := Some DRestart; sup := []; rules := [ {| r_on := KP; r_n := 0; r_inst := 0; r_do := [APanic] |} ] |} ].
Definition c03_labels : list label := [LSpawn 0 0; LRun 2; LTell 0 0; LRun 2; LRun 0; LTerm 0 false; LRun 2; LRun 2; LRun 2].

Theorem C03_first_is_launch_refuted :
  exists roles ls s os, krun roles kinit ls = Some (s, os) /\ first_handled 0 1 os = Some TT.
Proof. exists c03_roles, c03_labels. eexists. eexists. split; vm_compute; reflexivity. Qed.
Print Assumptions C03_first_is_launch_refuted.

(* non-vacuity of the first theorem: a reachable state with a terminated actor that still has a queued message *)
Example C03_example :
  exists s os a, krun c03_roles kinit c03_labels = Some (s, os) /\ get s 2 = Some a /\ a_st a = Terminated.
Proof. eexists. eexists. eexists. split; [vm_compute; reflexivity|]. split; vm_compute; reflexivity. Qed.
