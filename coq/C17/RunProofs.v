(* MV.C17.RunProofs — facts about the dispatcher of CollModel: which helpers rewrite an argument. *)
From MV Require Import Lib.ListX C17.CollModel.

(* every helper except the in-place ones (those for which [inplace] is defined, and ClearMap) leaves all its
   arguments as they were: this is what the harness compares the re-read arguments against *)
Theorem inputs_untouched : forall f a, inplace f a = None -> f <> FClearMap -> final_args f a = a.
Proof.
  intros f a H Hc. unfold final_args. destruct f; try congruence; try (rewrite H; reflexivity).
Qed.

(* and the in-place helpers change nothing but their first argument *)
Theorem inplace_touches_first_only : forall f a, tl (final_args f a) = tl a.
Proof.
  intros f a. unfold final_args. destruct f; try reflexivity; destruct (inplace _ a) as [[r b]|]; reflexivity.
Qed.
