(* MV.C17.SliceProofs — laws of sort.go, drop.go, filter.go, merge.go, clone.go, convert.go (batches, reverse). *)
From Coq Require Import Sorting.Sorted Sorting.Permutation.
From MV Require Import Lib.ListX C17.CollModel.
Open Scope nat_scope.

(* ================================================================== sort *)
Section Sort.
  Variable A : Type.
  Variable key : A -> Z.
  Variable desc : bool.

  Definition key_le (a b : A) : Prop := if desc then (key b <= key a)%Z else (key a <= key b)%Z.
  Notation lt := (lt_key key desc).

  Lemma lt_true_le a b : lt a b = true -> key_le a b.
  Proof. unfold lt_key, key_le. destruct desc; intros H; apply Z.ltb_lt in H; lia. Qed.
  Lemma lt_false_le a b : lt a b = false -> key_le b a.
  Proof. unfold lt_key, key_le. destruct desc; intros H; apply Z.ltb_ge in H; lia. Qed.
  Lemma key_le_trans a b c : key_le a b -> key_le b c -> key_le a c.
  Proof. unfold key_le. destruct desc; lia. Qed.

  Lemma insert_perm x l : Permutation (x :: l) (insert_by lt x l).
  Proof.
    induction l as [|y t IH]; cbn [insert_by]; [reflexivity|].
    destruct (lt x y); [reflexivity|].
    rewrite perm_swap. constructor. exact IH.
  Qed.

  Lemma insert_sorted x l : StronglySorted key_le l -> StronglySorted key_le (insert_by lt x l).
  Proof.
    induction 1 as [|y t Hs IH Hall]; cbn [insert_by]; [repeat constructor|].
    destruct (lt x y) eqn:E.
    - constructor; [constructor; assumption|].
      constructor; [apply lt_true_le; exact E|].
      apply lt_true_le in E. eapply Forall_impl; [|exact Hall]. intros a Ha. eapply key_le_trans; eassumption.
    - constructor; [exact IH|].
      apply lt_false_le in E.
      assert (Hp : Permutation (x :: t) (insert_by lt x t)) by apply insert_perm.
      eapply Permutation_Forall; [exact Hp|]. constructor; assumption.
  Qed.

  Lemma isort_acc s : forall acc, StronglySorted key_le acc ->
    StronglySorted key_le (fold_left (fun acc x => insert_by lt x acc) s acc) /\
    Permutation (acc ++ s) (fold_left (fun acc x => insert_by lt x acc) s acc).
  Proof.
    induction s as [|x t IH]; intros acc Hs; cbn [fold_left].
    - rewrite app_nil_r. split; [exact Hs|reflexivity].
    - destruct (IH (insert_by lt x acc) (insert_sorted x acc Hs)) as [H1 H2]. split; [exact H1|].
      rewrite <- H2. rewrite <- (insert_perm x acc).
      rewrite <- Permutation_middle. reflexivity.
  Qed.

  (* Asc / Desc / AscByClone / DescByClone: the result is sorted by the key and is a rearrangement of the input *)
  Theorem sort_by_spec s : StronglySorted key_le (sort_by key desc s) /\ Permutation s (sort_by key desc s).
  Proof. unfold sort_by, isort. apply (isort_acc s []). constructor. Qed.

  (* the sort is stable: elements with the same key keep their relative order (so the result is unique) *)
  Lemma insert_filter k x l : StronglySorted key_le l ->
    filter (fun a => (key a =? k)%Z) (insert_by lt x l) =
    filter (fun a => (key a =? k)%Z) l ++ (if (key x =? k)%Z then [x] else []).
  Proof.
    induction 1 as [|y t Hs IH Hall]; cbn [insert_by filter].
    - destruct (key x =? k)%Z; reflexivity.
    - destruct (lt x y) eqn:E.
      + cbn [filter]. destruct (Z.eqb_spec (key x) k) as [Hk|Hk]; [|rewrite app_nil_r; reflexivity].
        assert (Hy : (key y =? k)%Z = false).
        { apply Z.eqb_neq. unfold lt_key in E. destruct desc; apply Z.ltb_lt in E; lia. }
        assert (Ht : filter (fun a => (key a =? k)%Z) t = []).
        { clear IH Hs. induction Hall as [|z t' Hz Hall' IH']; [reflexivity|]. cbn [filter].
          assert (Hzk : (key z =? k)%Z = false).
          { apply Z.eqb_neq. unfold lt_key in E. unfold key_le in Hz. destruct desc; apply Z.ltb_lt in E; lia. }
          rewrite Hzk. exact IH'. }
        rewrite Hy, Ht. reflexivity.
      + cbn [filter]. rewrite IH. destruct (key y =? k)%Z; reflexivity.
  Qed.

  Lemma isort_filter k s : forall acc, StronglySorted key_le acc ->
    filter (fun a => (key a =? k)%Z) (fold_left (fun acc x => insert_by lt x acc) s acc) =
    filter (fun a => (key a =? k)%Z) acc ++ filter (fun a => (key a =? k)%Z) s.
  Proof.
    induction s as [|x t IH]; intros acc Hs; cbn [fold_left filter].
    - rewrite app_nil_r. reflexivity.
    - rewrite IH by (apply insert_sorted; exact Hs). rewrite insert_filter by exact Hs.
      rewrite <- app_assoc. destruct (key x =? k)%Z; reflexivity.
  Qed.

  Theorem sort_by_stable s k :
    filter (fun a => (key a =? k)%Z) (sort_by key desc s) = filter (fun a => (key a =? k)%Z) s.
  Proof. unfold sort_by, isort. rewrite isort_filter by constructor. reflexivity. Qed.

  (* in place and copying agree, the slice is sorted within its own backing array *)
  Theorem sort_inplace_spec s :
    fst (sort_inplace key desc s) = sort_by key desc s /\ snd (sort_inplace key desc s) = fst (sort_inplace key desc s).
  Proof. split; reflexivity. Qed.
End Sort.

(* ================================================================== drop / filter *)
Lemma nth_error_skipn_cons' {A} (b : list A) i v : nth_error b i = Some v -> skipn i b = v :: skipn (S i) b.
Proof.
  revert i; induction b as [|h t IH]; intros [|i] H; cbn in *; try discriminate.
  - inversion H; reflexivity.
  - apply IH. exact H.
Qed.
Lemma nth_error_upd_other' {A} (b : list A) w j v : w <> j -> nth_error (upd w v b) j = nth_error b j.
Proof. revert w j; induction b as [|h t IH]; intros [|w] [|j] H; cbn; auto; try lia. Qed.
Lemma suffix_agree' {A} (b : list A) : forall s w,
  (forall j, w <= j -> nth_error b j = nth_error s j) -> length b = length s -> skipn w b = skipn w s.
Proof.
  induction b as [|x b IH]; intros [|y s] w H5 H2; cbn in H2; try discriminate.
  - destruct w; reflexivity.
  - destruct w as [|w].
    + cbn [skipn]. f_equal.
      * specialize (H5 0 (Nat.le_0_l _)). cbn in H5. congruence.
      * specialize (IH s 0). cbn [skipn] in IH. apply IH; [|lia]. intros j _. apply (H5 (S j)). lia.
    + cbn [skipn]. apply IH; [|lia]. intros j Hj. apply (H5 (S j)). lia.
Qed.

Section Compact.
  Variable A : Type.
  Variable keep : nat -> A -> bool.

  Lemma compact_loop_spec n : forall i w b b' w',
    w <= i -> i + n = length b ->
    compact_loop keep n i w b = (b', w') ->
    firstn w' b' = firstn w b ++ filter_idx keep i (skipn i b) /\ length b' = length b /\ w <= w' /\ w' <= length b /\
    (forall j, w' <= j -> nth_error b' j = nth_error b j).
  Proof.
    induction n as [|n IH]; intros i w b b' w' Hwi Hlen Hrun; cbn [compact_loop] in Hrun.
    - inversion Hrun; subst. rewrite skipn_all2 by lia. cbn. rewrite app_nil_r. repeat split; auto; lia.
    - destruct (nth_error b i) as [v|] eqn:Hv.
      2:{ apply nth_error_None in Hv. lia. }
      rewrite (nth_error_skipn_cons' _ _ _ Hv). cbn [filter_idx].
      destruct (keep i v) eqn:E.
      + apply IH in Hrun; [|lia|rewrite upd_length; lia].
        rewrite upd_length in Hrun. destruct Hrun as [H1 [H2 [H3 [H4 H5]]]].
        rewrite firstn_S_upd in H1 by lia. rewrite skipn_upd_gt in H1 by lia.
        rewrite <- app_assoc in H1. repeat split; auto; try lia.
        intros j Hj. rewrite H5 by exact Hj. apply nth_error_upd_other'. lia.
      + apply IH in Hrun; [|lia|lia]. exact Hrun.
  Qed.

  (* the in-place compaction returns the positional filter of the slice; the backing array keeps its length and
     is not written to behind the result *)
  Theorem compact_spec s :
    fst (compact keep s) = filter_idx keep 0 s /\
    length (snd (compact keep s)) = length s /\
    skipn (length (fst (compact keep s))) (snd (compact keep s)) = skipn (length (fst (compact keep s))) s.
  Proof.
    unfold compact. destruct (compact_loop keep (length s) 0 0 s) as [b w] eqn:Hrun.
    apply compact_loop_spec in Hrun; [|lia|lia]. cbn [fst snd].
    destruct Hrun as [H1 [H2 [H3 [H4 H5]]]]. cbn [skipn firstn app] in H1.
    split; [exact H1|split; [exact H2|]].
    rewrite firstn_length, Nat.min_l by lia. apply suffix_agree'; assumption.
  Qed.
End Compact.

(* the positional filter, stated with explicit indices: the elements paired with their positions, those that are kept, in order *)
Lemma filter_idx_combine {A} (keep : nat -> A -> bool) (l : list A) : forall i,
  filter_idx keep i l = map snd (filter (fun p => keep (fst p) (snd p)) (combine (seq i (length l)) l)).
Proof.
  induction l as [|v t IH]; intros i; cbn [filter_idx length seq combine filter map]; [reflexivity|].
  cbn [fst snd]. destruct (keep i v); cbn [map snd]; rewrite IH; reflexivity.
Qed.
Lemma filter_idx_filter {A} (p : A -> bool) (l : list A) : forall i, filter_idx (fun _ v => p v) i l = filter p l.
Proof. induction l as [|v t IH]; intros i; cbn; [reflexivity|]. destruct (p v); rewrite IH; reflexivity. Qed.
Lemma filter_idx_ext {A} (k1 k2 : nat -> A -> bool) (l : list A) : forall i,
  (forall j v, i <= j < i + length l -> k1 j v = k2 j v) -> filter_idx k1 i l = filter_idx k2 i l.
Proof.
  induction l as [|v t IH]; intros i H; cbn [filter_idx]; [reflexivity|].
  rewrite (H i v) by (cbn; lia). rewrite (IH (S i)); [reflexivity|]. intros j w Hj. apply H. cbn. lia.
Qed.

(* DropSliceByCondition / FilterOutByCondition: exactly the elements that do not satisfy the condition, in order;
   in place and copying agree *)
Theorem drop_by_condition_spec {A} (cond : A -> bool) (s : list A) :
  fst (drop_by_condition cond s) = filter (fun v => negb (cond v)) s /\
  filter_out_by_condition cond s = filter (fun v => negb (cond v)) s /\
  length (snd (drop_by_condition cond s)) = length s.
Proof.
  unfold drop_by_condition, filter_out_by_condition.
  destruct (compact_spec A (fun _ v => negb (cond v)) s) as [H1 [H2 _]].
  rewrite H1, filter_idx_filter. auto.
Qed.

(* DropSliceOverlappingElements: exactly the elements that are not related to an element of the other slice *)
Theorem drop_overlapping_spec {A} (cmp : A -> A -> bool) (s other : list A) :
  fst (drop_overlapping cmp s other) = filter (fun v => negb (existsb (cmp v) other)) s /\
  length (snd (drop_overlapping cmp s other)) = length s.
Proof.
  unfold drop_overlapping, in_slice.
  destruct (compact_spec A (fun _ v => negb (existsb (cmp v) other)) s) as [H1 [H2 _]].
  rewrite H1, filter_idx_filter. auto.
Qed.

Definition not_listed (idx : list Z) (p : nat * Z) : bool := negb (idx_in idx (fst p)).

Lemma idx_in_valid n idx i : i < n -> idx_in (valid_indices n idx) i = idx_in idx i.
Proof.
  intros Hi. unfold idx_in, valid_indices. induction idx as [|e t IH]; cbn [filter existsb]; [reflexivity|].
  destruct (Z.leb_spec 0 e); destruct (Z.ltb_spec e (Z.of_nat n)); cbn [andb existsb]; rewrite IH;
    try reflexivity; destruct (Z.eqb_spec (Z.of_nat i) e); cbn; auto; lia.
Qed.

(* DropSliceByIndices / FilterOutByIndices: exactly the elements whose position is not listed, in order (positions that
   do not exist are ignored); in place and copying agree *)
Theorem drop_by_indices_spec (s : list Z) (idx : list Z) :
  fst (drop_by_indices s idx) = map snd (filter (not_listed idx) (combine (seq 0 (length s)) s)) /\
  filter_out_by_indices s idx = fst (drop_by_indices s idx) /\
  length (snd (drop_by_indices s idx)) = length s.
Proof.
  assert (Hnone : forall l : list Z, filter_idx (fun i _ => negb (idx_in [] i)) 0 l = l).
  { intros l. rewrite (filter_idx_filter (fun _ => true)). induction l; cbn; congruence. }
  assert (Hcore : fst (drop_by_indices s idx) = filter_idx (fun i _ => negb (idx_in idx i)) 0 s /\
                  length (snd (drop_by_indices s idx)) = length s).
  { unfold drop_by_indices. destruct idx as [|e t].
    - cbn [fst snd]. rewrite Hnone. auto.
    - destruct (compact_spec Z (fun i _ => negb (idx_in (e :: t) i)) s) as [H1 [H2 _]]. auto. }
  destruct Hcore as [Hc1 Hc2]. split; [|split; [|exact Hc2]].
  - rewrite Hc1, filter_idx_combine. reflexivity.
  - rewrite Hc1. unfold filter_out_by_indices.
    destruct s as [|x s']; [reflexivity|]. destruct idx as [|e t]; [rewrite Hnone; reflexivity|].
    set (s := x :: s'). set (idx := e :: t).
    assert (Hext : filter_idx (fun i _ => negb (idx_in (valid_indices (length s) idx) i)) 0 s =
                   filter_idx (fun i _ => negb (idx_in idx i)) 0 s).
    { apply filter_idx_ext. intros j v Hj. rewrite idx_in_valid by lia. reflexivity. }
    destruct (valid_indices (length s) idx) as [|e' t'] eqn:Hv.
    + rewrite <- Hext. rewrite Hnone. reflexivity.
    + exact Hext.
Qed.

(* ================================================================== merge / clone *)
Theorem merge_slices_concat {A} (ss : list (list A)) : merge_slices ss = concat ss.
Proof. induction ss as [|s t IH]; cbn; congruence. Qed.
Theorem clone_slice_n_spec {A} (s : list A) (n : Z) :
  clone_slice_n false s n = repeat s (Z.to_nat n) /\ clone_slice_n true s n = [].
Proof.
  unfold clone_slice_n, clone_slice. split; [|reflexivity].
  destruct (Z.leb_spec n 0) as [H|H].
  - replace (Z.to_nat n) with 0 by lia. reflexivity.
  - induction (Z.to_nat n) as [|k IH]; cbn; congruence.
Qed.
Theorem clone_slices_id {A} (ss : list (list A)) : clone_slices ss = ss.
Proof. unfold clone_slices, clone_slice. apply map_id. Qed.

(* ================================================================== batches *)
Section Batches.
  Variable A : Type.

  Lemma skipn_add (s : list A) : forall i n, skipn (i + n) s = skipn n (skipn i s).
  Proof. induction s as [|x t IH]; intros [|i] n; cbn [Nat.add skipn]; auto. destruct n; reflexivity. Qed.

  Lemma batches_loop_spec n (s : list A) : 0 < n -> forall fuel i,
    i <= length s -> length s - i <= fuel ->
    concat (batches_loop fuel n i s) = skipn i s /\
    Forall (fun b => 0 < length b <= n) (batches_loop fuel n i s).
  Proof.
    intros Hn. induction fuel as [|f IH]; intros i Hi Hf; cbn [batches_loop].
    - rewrite skipn_all2 by lia. split; [reflexivity|constructor].
    - destruct (Nat.ltb_spec i (length s)) as [Hlt|Hge].
      2:{ rewrite skipn_all2 by lia. split; [reflexivity|constructor]. }
      cbn [concat]. destruct (Nat.ltb_spec (length s) (i + n)) as [Hend|Hend].
      + (* last batch *)
        destruct f as [|f']; cbn [batches_loop].
        * cbn [concat]. rewrite app_nil_r. rewrite firstn_all2 by (rewrite skipn_length; lia).
          split; [reflexivity|]. constructor; [rewrite skipn_length; lia|constructor].
        * destruct (Nat.ltb_spec (i + n) (length s)); [lia|].
          cbn [concat]. rewrite app_nil_r. rewrite firstn_all2 by (rewrite skipn_length; lia).
          split; [reflexivity|]. constructor; [rewrite skipn_length; lia|constructor].
      + destruct (IH (i + n)) as [H1 H2]; [lia|lia|].
        rewrite H1. replace (i + n - i) with n by lia. split.
        * rewrite skipn_add. apply firstn_skipn.
        * constructor; [|exact H2]. rewrite firstn_length, skipn_length. lia.
  Qed.

  (* ConvertSliceToBatches: the batches concatenate to the input, none is empty, none is longer than the batch size;
     no batches at all for an empty input or a non-positive size *)
  Theorem batches_spec (s : list A) (n : Z) :
    (s <> [] -> (0 < n)%Z ->
       concat (batches s n) = s /\ Forall (fun b => 0 < length b /\ (Z.of_nat (length b) <= n)%Z) (batches s n)) /\
    ((s = [] \/ (n <= 0)%Z) -> batches s n = []).
  Proof.
    unfold batches. split.
    - intros Hs Hn. destruct s as [|x t]; [congruence|].
      cbn [length Nat.eqb orb]. destruct (Z.leb_spec n 0); [lia|].
      destruct (batches_loop_spec (Z.to_nat (Z.min n (Z.of_nat (length (x :: t))))) (x :: t)) with (fuel := length (x :: t)) (i := 0) as [H1 H2]; try (cbn [length]; lia).
      split; [exact H1|]. eapply Forall_impl; [|exact H2]. cbn beta. intros b Hb. lia.
    - intros [H|H].
      + subst s. reflexivity.
      + destruct (length s =? 0); [reflexivity|]. cbn [orb]. destruct (Z.leb_spec n 0); [reflexivity|lia].
  Qed.
End Batches.

(* ================================================================== reverse *)
Section Reverse.
  Variable A : Type.

  Lemma nth_error_upd_same (b : list A) i v : i < length b -> nth_error (upd i v b) i = Some v.
  Proof. revert i; induction b as [|h t IH]; intros [|i] H; cbn in *; try lia; auto. apply IH; lia. Qed.

  Lemma nth_error_ext_eq (a b : list A) : (forall j, nth_error a j = nth_error b j) -> a = b.
  Proof.
    revert b; induction a as [|x a IH]; intros [|y b] H.
    - reflexivity.
    - specialize (H 0); discriminate.
    - specialize (H 0); discriminate.
    - f_equal; [specialize (H 0); cbn in H; congruence|]. apply IH. intros j. apply (H (S j)).
  Qed.

  Lemma nth_error_rev (s : list A) j : j < length s -> nth_error (rev s) j = nth_error s (length s - 1 - j).
  Proof.
    intros Hj. destruct s as [|d s']; [cbn in Hj; lia|]. set (s := d :: s') in *.
    rewrite (nth_error_nth' (rev s) d) by (rewrite rev_length; lia).
    rewrite rev_nth by lia. rewrite (nth_error_nth' s d) by lia. f_equal. f_equal. lia.
  Qed.

  Definition rev_inv (s : list A) (i : nat) (b : list A) : Prop :=
    length b = length s /\
    forall j, j < length s ->
      nth_error b j = if (j <? i) || (length s - i <=? j) then nth_error s (length s - 1 - j) else nth_error s j.

  Lemma rev_loop_inv (s : list A) k : forall i b,
    rev_inv s i b -> i + k <= length s / 2 -> rev_inv s (i + k) (rev_loop k i b).
  Proof.
    assert (Hdiv : 2 * (length s / 2) <= length s) by (apply Nat.mul_div_le; lia).
    induction k as [|k IH]; intros i b [Hlen Hinv] Hk; cbn [rev_loop].
    - rewrite Nat.add_0_r. split; assumption.
    - assert (Hi : i < length s) by lia.
      assert (Hi' : length b - i - 1 < length b) by lia.
      destruct (nth_error b i) as [x|] eqn:Hx; [|apply nth_error_None in Hx; lia].
      destruct (nth_error b (length b - i - 1)) as [y|] eqn:Hy; [|apply nth_error_None in Hy; lia].
      replace (i + S k) with (S i + k) by lia. apply IH; [|lia].
      split; [rewrite !upd_length; exact Hlen|].
      intros j Hj.
      assert (Hxs : nth_error s i = Some x).
      { rewrite <- Hx, (Hinv i Hi). destruct (Nat.ltb_spec i i); [lia|]. destruct (Nat.leb_spec (length s - i) i); [lia|]. reflexivity. }
      assert (Hys : nth_error s (length s - 1 - i) = Some y).
      { rewrite <- Hy, Hlen, (Hinv (length s - i - 1)) by lia.
        destruct (Nat.ltb_spec (length s - i - 1) i); [lia|]. destruct (Nat.leb_spec (length s - i) (length s - i - 1)); [lia|].
        cbn [orb]. f_equal. lia. }
      rewrite Hlen.
      destruct (Nat.eq_dec j i) as [->|Hji].
      + rewrite nth_error_upd_same by (rewrite upd_length; lia).
        destruct (Nat.ltb_spec i (S i)); [|lia]. cbn [orb]. rewrite Hys. reflexivity.
      + rewrite nth_error_upd_other' by lia.
        destruct (Nat.eq_dec j (length s - i - 1)) as [->|Hjn].
        * rewrite nth_error_upd_same by lia.
          destruct (Nat.leb_spec (length s - S i) (length s - i - 1)); [|lia]. rewrite orb_true_r.
          rewrite <- Hxs. f_equal. lia.
        * rewrite nth_error_upd_other' by lia. rewrite (Hinv j Hj).
          destruct (Nat.ltb_spec j i); destruct (Nat.ltb_spec j (S i)); try lia;
            destruct (Nat.leb_spec (length s - i) j); destruct (Nat.leb_spec (length s - S i) j); try lia; reflexivity.
  Qed.

  (* ReverseSlice reverses, and reversing twice gives the slice back *)
  Theorem reverse_inplace_rev (s : list A) : reverse_inplace s = rev s.
  Proof.
    unfold reverse_inplace.
    assert (Hdiv : 2 * (length s / 2) <= length s) by (apply Nat.mul_div_le; lia).
    assert (Hdiv2 : length s < 2 * (length s / 2) + 2).
    { pose proof (Nat.div_mod (length s) 2 ltac:(lia)). pose proof (Nat.mod_upper_bound (length s) 2 ltac:(lia)). lia. }
    destruct (rev_loop_inv s (length s / 2) 0 s) as [Hlen Hinv]; [|lia|].
    { split; [reflexivity|]. intros j Hj. destruct (Nat.leb_spec (length s - 0) j); [lia|]. reflexivity. }
    cbn [Nat.add] in Hinv. apply nth_error_ext_eq. intros j.
    destruct (Nat.lt_ge_cases j (length s)) as [Hj|Hj].
    - rewrite (Hinv j Hj), (nth_error_rev s j Hj).
      destruct ((j <? length s / 2) || (length s - length s / 2 <=? j)) eqn:E; [reflexivity|].
      apply orb_false_iff in E. destruct E as [E1 E2].
      apply Nat.ltb_ge in E1. apply Nat.leb_gt in E2. f_equal. lia.
    - assert (H1 : nth_error (rev_loop (length s / 2) 0 s) j = None) by (apply nth_error_None; lia).
      assert (H2 : nth_error (rev s) j = None) by (apply nth_error_None; rewrite rev_length; lia).
      congruence.
  Qed.

  Theorem reverse_involutive (s : list A) : reverse_inplace (reverse_inplace s) = s.
  Proof. rewrite !reverse_inplace_rev. apply rev_involutive. Qed.
End Reverse.
