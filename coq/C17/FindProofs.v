(* MV.C17.FindProofs — laws of contains.go (slices), find.go (slices), loop.go (slices). *)
From Coq Require Import RelationClasses Sorting.Permutation.
From MV Require Import Lib.ListX C17.CollModel.
Open Scope nat_scope.

(* ================================================================== Equal*, In*, AllIn*, AnyIn* *)
Section Contains.
  Variable A : Type.
  Variable cmp : A -> A -> bool.
  Variable R : A -> A -> Prop.
  Hypothesis R_equiv : Equivalence R.
  Hypothesis cmp_spec : forall a b, cmp a b = true <-> R a b.

  Lemma forall2_length (a b : list A) : Forall2 R a b -> length a = length b.
  Proof. induction 1; cbn; congruence. Qed.

  Lemma eq_loop_iff s1 : forall s2, length s1 = length s2 -> (eq_loop cmp s1 s2 = true <-> Forall2 R s1 s2).
  Proof.
    induction s1 as [|a t IH]; intros [|b u] Hlen; cbn in Hlen; try discriminate; cbn [eq_loop].
    - split; [constructor|reflexivity].
    - destruct (cmp a b) eqn:E.
      + rewrite IH by lia. split; intros H.
        * constructor; [apply cmp_spec; exact E|exact H].
        * inversion H; assumption.
      + split; [discriminate|]. intros H. inversion H; subst.
        apply cmp_spec in H3. congruence.
  Qed.

  (* EqualSlice is true exactly for slices of the same length whose elements are pairwise related *)
  Theorem equal_slice_iff s1 s2 : equal_slice cmp s1 s2 = true <-> Forall2 R s1 s2.
  Proof.
    unfold equal_slice. destruct (Nat.eqb_spec (length s1) (length s2)) as [H|H].
    - apply eq_loop_iff. exact H.
    - split; [discriminate|]. intros HF. apply forall2_length in HF. contradiction.
  Qed.

  Theorem equal_slice_refl s : equal_slice cmp s s = true.
  Proof. apply equal_slice_iff. induction s; constructor; [reflexivity|assumption]. Qed.

  Theorem equal_slice_sym s1 s2 : equal_slice cmp s1 s2 = equal_slice cmp s2 s1.
  Proof.
    assert (H : forall a b, Forall2 R a b -> Forall2 R b a).
    { induction 1; constructor; [symmetry|]; assumption. }
    destruct (equal_slice cmp s1 s2) eqn:E1; destruct (equal_slice cmp s2 s1) eqn:E2; try reflexivity.
    - apply equal_slice_iff in E1. apply H in E1. apply equal_slice_iff in E1. congruence.
    - apply equal_slice_iff in E2. apply H in E2. apply equal_slice_iff in E2. congruence.
  Qed.

  Theorem in_slice_iff s v : in_slice cmp s v = true <-> exists y, In y s /\ R v y.
  Proof.
    unfold in_slice. rewrite existsb_exists. split; intros [y [H1 H2]]; exists y; (split; [exact H1|apply cmp_spec; exact H2]).
  Qed.
  (* AllInSlice / AnyInSlice as written: an empty slice contains nothing, not even "all of nothing" *)
  Theorem all_in_slice_iff s vs : all_in_slice cmp s vs = true <-> s <> [] /\ forall v, In v vs -> in_slice cmp s v = true.
  Proof.
    unfold all_in_slice. destruct s as [|x t].
    - split; [discriminate|intros [H _]; congruence].
    - rewrite forallb_forall. split; [intros H; split; [discriminate|exact H]|intros [_ H]; exact H].
  Qed.
  Theorem any_in_slice_iff s vs : any_in_slice cmp s vs = true <-> exists v, In v vs /\ in_slice cmp s v = true.
  Proof.
    unfold any_in_slice. destruct s as [|x t].
    - split; [discriminate|]. intros [v [_ H]]. discriminate.
    - apply existsb_exists.
  Qed.
End Contains.

(* EqualComparableSlice distinguishes slices with different contents *)
Theorem equal_comparable_slice_iff (s1 s2 : list Z) : equal_slice Z.eqb s1 s2 = true <-> s1 = s2.
Proof.
  rewrite (equal_slice_iff Z Z.eqb eq) by (intros a b; apply Z.eqb_eq).
  split; [induction 1; congruence|intros ->; induction s2; constructor; auto].
Qed.

(* ================================================================== find *)
Section Find.
  Variable A : Type.

  Lemma find_from_spec (p : A -> bool) (l : list A) : forall i,
    match find_from p i l with
    | Some (j, v) => i <= j /\ nth_error l (j - i) = Some v /\ p v = true /\
                     forall k x, k < j - i -> nth_error l k = Some x -> p x = false
    | None => forall x, In x l -> p x = false
    end.
  Proof.
    induction l as [|v t IH]; intros i; cbn [find_from]; [intros x []|].
    destruct (p v) eqn:E.
    - rewrite Nat.sub_diag. repeat split; auto. intros k x Hk. lia.
    - specialize (IH (S i)). destruct (find_from p (S i) t) as [[j w]|].
      + destruct IH as [H1 [H2 [H3 H4]]]. split; [lia|]. replace (j - i) with (S (j - S i)) by lia.
        split; [exact H2|split; [exact H3|]].
        intros [|k] x Hk Hx; cbn in Hx; [congruence|]. apply (H4 k x); [lia|exact Hx].
      + intros x [Hx|Hx]; [congruence|apply IH; exact Hx].
  Qed.

  (* FindInSlice / FindIndexInSlice / FindOrDefaultInSlice: the first element that matches, with its index *)
  Theorem find_first_match (p : A -> bool) (s : list A) :
    match find_from p 0 s with
    | Some (j, v) => nth_error s j = Some v /\ p v = true /\ forall k x, k < j -> nth_error s k = Some x -> p x = false
    | None => forall x, In x s -> p x = false
    end.
  Proof.
    pose proof (find_from_spec p s 0) as H. destruct (find_from p 0 s) as [[j v]|]; [|exact H].
    rewrite Nat.sub_0_r in H. destruct H as [_ H]. exact H.
  Qed.

  Variable key : A -> Z.

  Lemma min_loop_spec (l : list A) : forall r,
    (min_loop key r l = r /\ (forall x, In x l -> (key r <= key x)%Z) \/
     exists p q, l = p ++ min_loop key r l :: q /\ (key (min_loop key r l) < key r)%Z /\
                 (forall y, In y p -> (key (min_loop key r l) < key y)%Z)) /\
    (forall x, In x l -> (key (min_loop key r l) <= key x)%Z) /\ (key (min_loop key r l) <= key r)%Z.
  Proof.
    induction l as [|x t IH]; intros r; cbn [min_loop].
    - split; [left; split; [reflexivity|intros x []]|split; [intros x []|lia]].
    - destruct (Z.ltb_spec (key x) (key r)) as [Hlt|Hge].
      + destruct (IH x) as [[[He Hall]|[p [q [Hl [Hk Hp]]]]] [H2 H3]].
        * rewrite He. split; [|split; [intros y [<-|Hy]; [lia|apply Hall; exact Hy]|lia]].
          right. exists [], t. split; [reflexivity|split; [exact Hlt|intros y []]].
        * split; [|split; [intros y [<-|Hy]; [lia|apply H2; exact Hy]|lia]].
          right. exists (x :: p), q. split; [cbn; f_equal; exact Hl|split; [lia|]].
          intros y [<-|Hy]; [exact Hk|apply Hp; exact Hy].
      + destruct (IH r) as [[[He Hall]|[p [q [Hl [Hk Hp]]]]] [H2 H3]].
        * rewrite He. split; [|split; [intros y [<-|Hy]; [lia|apply Hall; exact Hy]|lia]].
          left. split; [reflexivity|]. intros y [<-|Hy]; [lia|apply Hall; exact Hy].
        * split; [|split; [intros y [<-|Hy]; [lia|apply H2; exact Hy]|lia]].
          right. exists (x :: p), q. split; [cbn; f_equal; exact Hl|split; [exact Hk|]].
          intros y [<-|Hy]; [lia|apply Hp; exact Hy].
  Qed.

  (* FindMinimumInSlice: a member, minimal for the key, and the first of the minimal ones *)
  Theorem find_min_spec (d : A) (s : list A) : s <> [] ->
    exists p q, s = p ++ find_min key d s :: q /\
                (forall y, In y p -> (key (find_min key d s) < key y)%Z) /\
                (forall y, In y q -> (key (find_min key d s) <= key y)%Z).
  Proof.
    destruct s as [|x t]; [congruence|]. intros _. cbn [find_min].
    destruct (min_loop_spec t x) as [[[He Hall]|[p [q [Hl [Hk Hp]]]]] [H2 H3]].
    - rewrite He. exists [], t. split; [reflexivity|split; [intros y []|exact Hall]].
    - exists (x :: p), q. split; [cbn; f_equal; exact Hl|split].
      + intros y [<-|Hy]; [exact Hk|apply Hp; exact Hy].
      + intros y Hy. apply H2. rewrite Hl. apply in_or_app. right. right. exact Hy.
  Qed.

  Lemma max_loop_spec (l : list A) : forall r,
    (max_loop key r l = r /\ (forall x, In x l -> (key x <= key r)%Z) \/
     exists p q, l = p ++ max_loop key r l :: q /\ (key r < key (max_loop key r l))%Z /\
                 (forall y, In y p -> (key y < key (max_loop key r l))%Z)) /\
    (forall x, In x l -> (key x <= key (max_loop key r l))%Z) /\ (key r <= key (max_loop key r l))%Z.
  Proof.
    induction l as [|x t IH]; intros r; cbn [max_loop].
    - split; [left; split; [reflexivity|intros x []]|split; [intros x []|lia]].
    - destruct (Z.ltb_spec (key r) (key x)) as [Hlt|Hge].
      + destruct (IH x) as [[[He Hall]|[p [q [Hl [Hk Hp]]]]] [H2 H3]].
        * rewrite He. split; [|split; [intros y [<-|Hy]; [lia|apply Hall; exact Hy]|lia]].
          right. exists [], t. split; [reflexivity|split; [exact Hlt|intros y []]].
        * split; [|split; [intros y [<-|Hy]; [lia|apply H2; exact Hy]|lia]].
          right. exists (x :: p), q. split; [cbn; f_equal; exact Hl|split; [lia|]].
          intros y [<-|Hy]; [exact Hk|apply Hp; exact Hy].
      + destruct (IH r) as [[[He Hall]|[p [q [Hl [Hk Hp]]]]] [H2 H3]].
        * rewrite He. split; [|split; [intros y [<-|Hy]; [lia|apply Hall; exact Hy]|lia]].
          left. split; [reflexivity|]. intros y [<-|Hy]; [lia|apply Hall; exact Hy].
        * split; [|split; [intros y [<-|Hy]; [lia|apply H2; exact Hy]|lia]].
          right. exists (x :: p), q. split; [cbn; f_equal; exact Hl|split; [exact Hk|]].
          intros y [<-|Hy]; [lia|apply Hp; exact Hy].
  Qed.

  Theorem find_max_spec (d : A) (s : list A) : s <> [] ->
    exists p q, s = p ++ find_max key d s :: q /\
                (forall y, In y p -> (key y < key (find_max key d s))%Z) /\
                (forall y, In y q -> (key y <= key (find_max key d s))%Z).
  Proof.
    destruct s as [|x t]; [congruence|]. intros _. cbn [find_max].
    destruct (max_loop_spec t x) as [[[He Hall]|[p [q [Hl [Hk Hp]]]]] [H2 H3]].
    - rewrite He. exists [], t. split; [reflexivity|split; [intros y []|exact Hall]].
    - exists (x :: p), q. split; [cbn; f_equal; exact Hl|split].
      + intros y [<-|Hy]; [exact Hk|apply Hp; exact Hy].
      + intros y Hy. apply H2. rewrite Hl. apply in_or_app. right. right. exact Hy.
  Qed.
End Find.

(* FindLoopedNextInSlice / FindLoopedPrevInSlice on their domain (non-empty slice, i < len): the cyclic neighbour *)
Theorem looped_next_spec (s : list Z) (i : Z) : s <> [] -> (i < Z.of_nat (length s))%Z ->
  let n := Z.of_nat (length s) in
  let r := looped_next s i in
  (0 <= fst r < n)%Z /\ nth_error s (Z.to_nat (fst r)) = Some (snd r) /\
  fst r = (if (i <? 0)%Z then 0 else (i + 1) mod n)%Z.
Proof.
  intros Hs Hi n r. subst r. unfold looped_next.
  assert (Hn : (0 < n)%Z) by (subst n; destruct s; [congruence|cbn [length]; lia]).
  destruct (Z.ltb_spec i 0) as [Hneg|Hpos]; cbn [fst snd].
  - split; [lia|]. split; [|reflexivity]. destruct s; [congruence|reflexivity].
  - fold n. destruct (Z.eqb_spec (i + 1) n) as [He|Hne]; cbn [fst snd].
    + split; [lia|]. split; [destruct s; [congruence|reflexivity]|]. rewrite He. rewrite Z.mod_same by lia. reflexivity.
    + split; [lia|]. split.
      * apply nth_error_nth'. subst n. lia.
      * rewrite Z.mod_small by lia. reflexivity.
Qed.
Theorem looped_prev_spec (s : list Z) (i : Z) : s <> [] -> (i < Z.of_nat (length s))%Z ->
  let n := Z.of_nat (length s) in
  let r := looped_prev s i in
  (0 <= fst r < n)%Z /\ nth_error s (Z.to_nat (fst r)) = Some (snd r) /\
  fst r = (if (i <? 0)%Z then n - 1 else (i - 1) mod n)%Z.
Proof.
  intros Hs Hi n r. subst r. unfold looped_prev.
  assert (Hn : (0 < n)%Z) by (subst n; destruct s; [congruence|cbn [length]; lia]).
  destruct (Z.ltb_spec i 0) as [Hneg|Hpos]; cbn [fst snd]; fold n.
  - split; [lia|]. split; [|reflexivity].
    replace (Z.to_nat (n - 1)) with (length s - 1) by (subst n; lia). apply nth_error_nth'. subst n. lia.
  - destruct (Z.eqb_spec (i - 1) (-1)) as [He|Hne]; cbn [fst snd].
    + split; [lia|]. split.
      * apply nth_error_nth'. subst n. lia.
      * rewrite He. apply (Z.mod_unique (-1) n (-1) (n - 1)); [left; lia|lia].
    + split; [lia|]. split.
      * apply nth_error_nth'. subst n. lia.
      * rewrite Z.mod_small by lia. reflexivity.
Qed.

(* ================================================================== loops over slices *)
(* LoopSlice: the elements are visited in index order, as a prefix that ends at the first element on which the callback
   returns false *)
Definition indexed_from (i : nat) (s : list Z) : list (Z * Z) := combine (map Z.of_nat (seq i (length s))) s.

Theorem loop_from_spec (f : nat -> Z -> bool) (s : list Z) : forall i,
  exists n, loop_from f i s = firstn n (indexed_from i s) /\
            (forall j v, j + 1 < n -> nth_error s j = Some v -> f (i + j) v = true) /\
            (n = length s \/ exists v, 0 < n /\ nth_error s (n - 1) = Some v /\ f (i + (n - 1)) v = false).
Proof.
  induction s as [|v t IH]; intros i; cbn [loop_from].
  - exists 0. split; [reflexivity|split; [intros; lia|left; reflexivity]].
  - unfold indexed_from. cbn [length seq map combine]. destruct (f i v) eqn:E.
    + destruct (IH (S i)) as [n [H1 [H2 H3]]]. exists (S n). cbn [firstn]. split; [f_equal; exact H1|split].
      * intros [|j] w Hj Hw; cbn in Hw.
        { inversion Hw; subst. rewrite Nat.add_0_r. exact E. }
        { replace (i + S j) with (S i + j) by lia. apply (H2 j w); [lia|exact Hw]. }
      * destruct H3 as [H3|[w [Hn [Hw Hf]]]]; [left; cbn; lia|right].
        exists w. split; [lia|]. replace (S n - 1) with (S (n - 1)) by lia. cbn [nth_error].
        split; [exact Hw|]. replace (i + S (n - 1)) with (S i + (n - 1)) by lia. exact Hf.
    + exists 1. cbn [firstn]. split; [reflexivity|split; [intros; lia|right]].
      exists v. cbn. rewrite Nat.add_0_r. auto.
Qed.

(* ReverseLoopSlice visits positions len-1, len-2, ... likewise *)
Theorem rloop_from_spec (f : nat -> Z -> bool) (rl : list Z) :
  exists n, rloop_from f rl = firstn n (combine (map Z.of_nat (rev (seq 0 (length rl)))) rl) /\
            (forall j v, j + 1 < n -> nth_error rl j = Some v -> f (length rl - 1 - j) v = true) /\
            (n = length rl \/ exists v, 0 < n /\ nth_error rl (n - 1) = Some v /\ f (length rl - n) v = false).
Proof.
  induction rl as [|v t IH]; cbn [rloop_from].
  - exists 0. split; [reflexivity|split; [intros; lia|left; reflexivity]].
  - cbn [length]. rewrite seq_S, rev_app_distr. cbn [rev app map combine Nat.add]. destruct (f (length t) v) eqn:E.
    + destruct IH as [n [H1 [H2 H3]]]. exists (S n). cbn [firstn]. split; [f_equal; exact H1|split].
      * intros [|j] w Hj Hw; cbn in Hw.
        { inversion Hw; subst. replace (S (length t) - 1 - 0) with (length t) by lia. exact E. }
        { replace (S (length t) - 1 - S j) with (length t - 1 - j) by lia. apply (H2 j w); [lia|exact Hw]. }
      * destruct H3 as [H3|[w [Hn [Hw Hf]]]]; [left; lia|right].
        exists w. split; [lia|]. replace (S n - 1) with (S (n - 1)) by lia. cbn [nth_error].
        split; [exact Hw|]. replace (S (length t) - S n) with (length t - n) by lia. exact Hf.
    + exists 1. cbn [firstn]. split; [reflexivity|split; [intros; lia|right]].
      exists v. cbn. replace (length t - 0) with (length t) by lia. auto.
Qed.

(* ================================================================== combinations *)
Section Comb.
  Variable A : Type.
  Variables lo hi : Z.

  Inductive Subseq : list A -> list A -> Prop :=
  | SS_nil : Subseq [] []
  | SS_keep : forall x r t, Subseq r t -> Subseq (x :: r) (x :: t)
  | SS_skip : forall x r t, Subseq r t -> Subseq r (x :: t).

  Definition in_range (c : list A) : Prop := (lo <= Z.of_nat (length c) <= hi)%Z.

  Lemma comb_emit_iff cur c : In c (comb_emit lo hi cur) <-> c = cur /\ in_range cur.
  Proof.
    unfold comb_emit, in_range.
    destruct (Z.leb_spec lo (Z.of_nat (length cur))); destruct (Z.leb_spec (Z.of_nat (length cur)) hi); cbn [andb In].
    - split; [intros [H'|[]]; subst; split; [reflexivity|lia] | intros [-> _]; left; reflexivity].
    - split; [intros [] | intros [_ H']; lia].
    - split; [intros [] | intros [_ H']; lia].
    - split; [intros [] | intros [_ H']; lia].
  Qed.

  Lemma subseq_nil (l : list A) : Subseq [] l.
  Proof. induction l; constructor; assumption. Qed.

  (* every emitted combination extends cur by a non-empty sub-sequence of the remaining elements, and each such
     extension whose size is in range is emitted *)
  Lemma comb_loop_iff l : forall cur c,
    In c (comb_loop lo hi l cur) <-> exists e, e <> [] /\ Subseq e l /\ c = cur ++ e /\ in_range c.
  Proof.
    induction l as [|x t IH]; intros cur c; cbn [comb_loop].
    - split; [intros []|]. intros [e [Hne [Hs _]]]. inversion Hs; subst. congruence.
    - rewrite !in_app_iff, comb_emit_iff, !IH. split.
      + intros [[[-> Hr]|[e [Hne [Hs [-> Hr]]]]]|[e [Hne [Hs [-> Hr]]]]].
        * exists [x]. split; [discriminate|split; [constructor; apply subseq_nil|split; [reflexivity|exact Hr]]].
        * exists (x :: e). split; [discriminate|split; [constructor; exact Hs|]]. rewrite <- app_assoc in *. split; [reflexivity|exact Hr].
        * exists e. split; [exact Hne|split; [constructor; exact Hs|split; [reflexivity|exact Hr]]].
      + intros [e [Hne [Hs [-> Hr]]]]. inversion Hs; subst.
        * left. destruct r as [|y r'].
          { left. split; [reflexivity|exact Hr]. }
          { right. exists (y :: r'). split; [discriminate|split; [assumption|]]. rewrite <- app_assoc. split; [reflexivity|exact Hr]. }
        * right. exists e. split; [exact Hne|split; [assumption|split; [reflexivity|exact Hr]]].
  Qed.

  (* FindCombinationsInSliceByRange: exactly the sub-sequences of the slice whose size lies in [lo, hi] (for a
     non-empty slice and 0 < lo <= hi; otherwise nothing) *)
  Theorem combinations_iff (s : list A) (c : list A) :
    In c (combinations s lo hi) <->
    s <> [] /\ (0 < lo)%Z /\ (0 < hi)%Z /\ (lo <= hi)%Z /\ Subseq c s /\ in_range c.
  Proof.
    unfold combinations. destruct s as [|x t].
    - split; [intros []|intros [H _]; congruence].
    - destruct (Z.leb_spec lo 0); [split; [intros []|lia]|].
      destruct (Z.leb_spec hi 0); [split; [intros []|lia]|].
      destruct (Z.ltb_spec hi lo); [split; [intros []|lia]|]. cbn [orb].
      rewrite in_app_iff, comb_emit_iff, comb_loop_iff. split.
      + intros [[-> Hr]|[e [Hne [Hs [-> Hr]]]]].
        * unfold in_range in Hr. cbn in Hr. lia.
        * cbn [app] in *. repeat split; auto; try lia; try discriminate; apply Hr.
      + intros [_ [_ [_ [_ [Hs Hr]]]]]. right. exists c. cbn [app].
        split; [|split; [exact Hs|split; [reflexivity|exact Hr]]].
        intros ->. unfold in_range in Hr. cbn in Hr. lia.
  Qed.
End Comb.

(* the exact enumeration: the non-empty sub-sequences in the order of the backtracking (each set of positions once) *)
Fixpoint nsub {A} (l : list A) : list (list A) :=
  match l with
  | [] => []
  | x :: t => map (cons x) ([] :: nsub t) ++ nsub t
  end.
Definition in_range_b (lo hi : Z) (n : nat) : bool := (lo <=? Z.of_nat n)%Z && (Z.of_nat n <=? hi)%Z.

Lemma nsub_length {A} (l : list A) : S (length (nsub l)) = 2 ^ length l.
Proof.
  induction l as [|x t IH]; [reflexivity|].
  cbn [nsub length Nat.pow]. rewrite app_length, map_length. cbn [length]. lia.
Qed.

Lemma filter_map_comm {A B} (f : A -> B) (p : B -> bool) (l : list A) :
  filter p (map f l) = map f (filter (fun a => p (f a)) l).
Proof. induction l as [|a t IH]; cbn; [reflexivity|]. destruct (p (f a)); cbn; rewrite IH; reflexivity. Qed.

Lemma filter_ext_in' {A} (p q : A -> bool) (l : list A) : (forall a, p a = q a) -> filter p l = filter q l.
Proof. intros H. induction l as [|a t IH]; cbn; [reflexivity|]. rewrite H, IH. reflexivity. Qed.

Lemma comb_loop_enum {A} (lo hi : Z) (l : list A) : forall cur,
  comb_loop lo hi l cur = map (app cur) (filter (fun e => in_range_b lo hi (length cur + length e)) (nsub l)).
Proof.
  induction l as [|x t IH]; intros cur; cbn [comb_loop nsub]; [reflexivity|].
  rewrite filter_app, map_app, <- IH. f_equal.
  rewrite filter_map_comm, map_map. cbn [filter].
  replace (length cur + length [x]) with (length (cur ++ [x])) by (rewrite app_length; reflexivity).
  assert (Hemit : comb_emit lo hi (cur ++ [x]) =
                  if in_range_b lo hi (length (cur ++ [x])) then [cur ++ [x]] else []) by reflexivity.
  rewrite Hemit, IH.
  assert (Hm : map (app (cur ++ [x])) (filter (fun e => in_range_b lo hi (length (cur ++ [x]) + length e)) (nsub t)) =
               map (fun e => cur ++ x :: e) (filter (fun a => in_range_b lo hi (length cur + length (x :: a))) (nsub t))).
  { rewrite (filter_ext_in' (fun e => in_range_b lo hi (length (cur ++ [x]) + length e))
                            (fun a => in_range_b lo hi (length cur + length (x :: a)))).
    - apply map_ext. intros e. rewrite <- app_assoc. reflexivity.
    - intros a. rewrite app_length. cbn [length]. f_equal. lia. }
  rewrite Hm. destruct (in_range_b lo hi (length (cur ++ [x]))); reflexivity.
Qed.

(* FindCombinationsInSliceByRange returns, in backtracking order, every non-empty set of positions whose size is in range,
   each exactly once: the in-range members of the enumeration [nsub] of all 2^n - 1 non-empty sub-sequences *)
Theorem combinations_enum {A} (s : list A) (lo hi : Z) : s <> [] -> (0 < lo)%Z -> (lo <= hi)%Z ->
  combinations s lo hi = filter (fun e => in_range_b lo hi (length e)) (nsub s) /\ S (length (nsub s)) = 2 ^ length s.
Proof.
  intros Hs Hlo Hhi. split; [|apply nsub_length]. unfold combinations. destruct s as [|x t]; [congruence|].
  destruct (Z.leb_spec lo 0); [lia|]. destruct (Z.leb_spec hi 0); [lia|]. destruct (Z.ltb_spec hi lo); [lia|]. cbn [orb].
  rewrite comb_loop_enum. unfold comb_emit. cbn [length].
  destruct (Z.leb_spec lo (Z.of_nat 0)); [lia|]. cbn [andb app Nat.add].
  rewrite map_id. reflexivity.
Qed.
