(* MV.C17.TopoProofs — proofs about the DFS topological sort of MV.C17.TopoModel:
   a TOk result is a permutation of the indices in which every item precedes each of its dependencies,
   TErr is returned exactly when the dependency relation has a cycle, the recursion fuel always suffices,
   and re-running with the result as iteration order reproduces the result.  No axioms. *)
From MV Require Import Lib.ListX C17.TopoModel.
From Coq Require Import Permutation Relations.
Open Scope nat_scope.

(* ---------- definitions used in the statements ---------- *)

Definition dep_edge (items : list item) (x d : Z) : Prop :=
  exists ds, In (x, ds) items /\ In d ds /\ In d (ids items).      (* item x depends on the existing item d *)
Definition cyclic (items : list item) : Prop :=
  exists x, Relation_Operators.clos_trans Z (dep_edge items) x x. (* includes self-dependency *)
Definition precedes (x d : Z) (l : list Z) : Prop :=
  exists l1 l2 l3, l = l1 ++ x :: l2 ++ d :: l3.
Definition order_ok (items : list item) (order : list Z) : Prop :=
  forall x, In x order <-> In x (ids items).                     (* the node map holds exactly the indices *)

(* ---------- basic facts: memz, removez, dependents ---------- *)

Lemma memz_In x l : memz x l = true <-> In x l.
Proof.
  unfold memz. rewrite existsb_exists. split.
  - intros [y [Hy He]]. apply Z.eqb_eq in He. subst. exact Hy.
  - intros H. exists x. split; auto. apply Z.eqb_refl.
Qed.

Lemma memz_false x l : memz x l = false <-> ~ In x l.
Proof.
  rewrite <- memz_In. destruct (memz x l); split; intros H; congruence.
Qed.

Lemma removez_notin x l : ~ In x l -> removez x l = l.
Proof.
  induction l as [|y t IH]; intros H; cbn [removez]; auto.
  destruct (Z.eqb_spec x y) as [->|Hxy].
  - exfalso; apply H; left; reflexivity.
  - f_equal. apply IH. intros H'. apply H. right. exact H'.
Qed.

Lemma in_dependents items y x :
  In y (dependents items x) <-> exists ds, In (y, ds) items /\ In x ds.
Proof.
  unfold dependents. rewrite in_flat_map. split.
  - intros [[i ds] [Hit Hin]]. cbn [fst snd] in Hin.
    apply in_map_iff in Hin as [z [Hz Hf]]. apply filter_In in Hf as [Hf1 Hf2].
    apply Z.eqb_eq in Hf2. subst. exists ds. split; auto.
  - intros [ds [Hit Hx]]. exists (y, ds). split; auto. cbn [fst snd].
    apply in_map_iff. exists x. split; auto. apply filter_In. split; auto. apply Z.eqb_refl.
Qed.

Lemma dependents_ids items y x : In y (dependents items x) -> In y (ids items).
Proof.
  intros H. apply in_dependents in H as [ds [Hit _]].
  unfold ids. apply in_map_iff. exists (y, ds). split; auto.
Qed.

Lemma dependents_edge items y x :
  In x (ids items) -> In y (dependents items x) -> dep_edge items y x.
Proof.
  intros Hx H. apply in_dependents in H as [ds [Hit Hin]]. exists ds. auto.
Qed.

Lemma edge_dependents items y x : dep_edge items y x -> In y (dependents items x) /\ In x (ids items).
Proof.
  intros [ds [H1 [H2 H3]]]. split; auto. apply in_dependents. exists ds. auto.
Qed.

Lemma ids_length (items : list item) : length (ids items) = length items.
Proof. unfold ids. apply map_length. Qed.

Lemma visit_eq fuel items x s :
  visit fuel items x s =
  if memz x (done s) then s
  else if memz x (stack s) then {| done := done s; stack := stack s; cyc := true; oof := oof s |}
  else match fuel with
       | O => {| done := done s; stack := stack s; cyc := cyc s; oof := true |}
       | S f =>
           let s1 := {| done := done s; stack := x :: stack s; cyc := cyc s; oof := oof s |} in
           let s2 := fold_left (fun s d => visit f items d s) (dependents items x) s1 in
           {| done := done s2 ++ [x]; stack := removez x (stack s2); cyc := cyc s2; oof := oof s2 |}
       end.
Proof. destruct fuel; reflexivity. Qed.

Lemma NoDup_mid (x : Z) a b : NoDup (a ++ b) -> ~ In x (a ++ b) -> NoDup (a ++ x :: b).
Proof.
  intros H1 H2. apply Permutation_NoDup with (x :: a ++ b).
  - apply Permutation_middle.
  - constructor; auto.
Qed.

Lemma NoDup_app_r (a b : list Z) : NoDup (a ++ b) -> NoDup b.
Proof.
  induction a as [|y a IH]; cbn [app]; intros H; auto.
  inversion H; subst. auto.
Qed.

(* ---------- position of the first occurrence ---------- *)

Fixpoint idx (x : Z) (l : list Z) : nat :=
  match l with [] => 0 | y :: t => if (x =? y)%Z then 0 else S (idx x t) end.

Lemma idx_app_in x a b : In x a -> idx x (a ++ b) = idx x a.
Proof.
  induction a as [|y a IH]; intros H; [destruct H|].
  cbn [app idx]. destruct (Z.eqb_spec x y) as [Hxy|Hxy]; auto.
  destruct H as [H|H]; [congruence|]. f_equal. auto.
Qed.

Lemma idx_app_notin x a b : ~ In x a -> idx x (a ++ b) = length a + idx x b.
Proof.
  induction a as [|y a IH]; intros H; cbn [app idx length]; [reflexivity|].
  destruct (Z.eqb_spec x y) as [Hxy|Hxy].
  - exfalso; apply H; left; auto.
  - rewrite IH; [reflexivity|]. intros H'; apply H; right; auto.
Qed.

Lemma idx_lt_length x a : In x a -> idx x a < length a.
Proof.
  induction a as [|y a IH]; intros H; [destruct H|].
  cbn [idx length]. destruct (Z.eqb_spec x y) as [Hxy|Hxy]; [lia|].
  destruct H as [H|H]; [congruence|]. apply IH in H. lia.
Qed.

Lemma idx_lt_in y a b : idx y (a ++ b) < length a -> In y a.
Proof.
  induction a as [|z a IH]; cbn [app idx length]; intros H; [lia|].
  destruct (Z.eqb_spec y z) as [Hyz|Hyz]; [left; auto|].
  right. apply IH. lia.
Qed.

Lemma idx_precedes x d l : In x l -> In d l -> idx x l < idx d l -> precedes x d l.
Proof.
  induction l as [|a l IH]; intros Hx Hd Hlt; [destruct Hx|].
  cbn [idx] in Hlt.
  destruct (Z.eqb_spec d a) as [Hda|Hda]; [lia|].
  destruct Hd as [Hd|Hd]; [congruence|].
  destruct (Z.eqb_spec x a) as [Hxa|Hxa].
  - subst a. apply in_split in Hd as [l1 [l2 Hl]]. subst l. exists [], l1, l2. reflexivity.
  - destruct Hx as [Hx|Hx]; [congruence|].
    destruct (IH Hx Hd) as [l1 [l2 [l3 Hl]]]; [lia|].
    subst l. exists (a :: l1), l2, l3. reflexivity.
Qed.

(* ---------- invariant ---------- *)

Section Topo.
Variable items : list item.

(* the stack (top first) is a chain of dependencies: each element depends on the one below it *)
Fixpoint chain (stk : list Z) : Prop :=
  match stk with
  | a :: t => match t with b :: _ => dep_edge items a b /\ chain t | [] => True end
  | [] => True
  end.

(* x is visited as a dependent of the node on top of the stack (or as a root) *)
Definition linked (x : Z) (stk : list Z) : Prop :=
  match stk with [] => True | t :: _ => dep_edge items x t end.

Lemma chain_cons x stk : linked x stk -> chain stk -> chain (x :: stk).
Proof. destruct stk; cbn [chain linked]; auto. Qed.

Lemma chain_path : forall rest t y z,
  chain (t :: rest) -> In y (t :: rest) -> dep_edge items z t -> clos_trans Z (dep_edge items) z y.
Proof.
  induction rest as [|b rest IH]; intros t y z Hc Hin Hz.
  - destruct Hin as [Hy|[]]. subst. apply t_step; exact Hz.
  - destruct Hin as [Hy|Hin].
    + subst. apply t_step; exact Hz.
    + cbn [chain] in Hc. destruct Hc as [Hab Hc].
      apply t_trans with t; [apply t_step; exact Hz|].
      apply (IH b y t Hc Hin Hab).
Qed.

Lemma stack_cycle x stk : linked x stk -> chain stk -> In x stk -> cyclic items.
Proof.
  destruct stk as [|t rest]; intros Hl Hc Hin; [destruct Hin|].
  exists x. apply chain_path with (rest := rest) (t := t); auto.
Qed.

Record WF (s : st) : Prop := {
  wf_nodup : NoDup (done s ++ stack s);
  wf_done : incl (done s) (ids items);
  wf_stack : incl (stack s) (ids items);
  wf_chain : chain (stack s);
  wf_closed : cyc s = false -> forall d y, In d (done s) -> In y (dependents items d) ->
              In y (done s) /\ idx y (done s) < idx d (done s)
}.

Definition ext (s s' : st) : Prop :=
  WF s' /\ stack s' = stack s /\ (exists extra, done s' = done s ++ extra) /\ oof s' = oof s /\
  (cyc s = true -> cyc s' = true) /\ (cyc s = false -> cyc s' = true -> cyclic items).

Lemma ext_intro s s' :
  WF s' -> stack s' = stack s -> (exists extra, done s' = done s ++ extra) -> oof s' = oof s ->
  (cyc s = true -> cyc s' = true) -> (cyc s = false -> cyc s' = true -> cyclic items) -> ext s s'.
Proof. unfold ext. intros. repeat (split; [assumption|]). assumption. Qed.

Lemma ext_refl s : WF s -> ext s s.
Proof.
  intros H. apply ext_intro; auto.
  - exists []. rewrite app_nil_r. reflexivity.
  - intros H1 H2. congruence.
Qed.

Lemma ext_trans a b c : ext a b -> ext b c -> ext a c.
Proof.
  intros [_ [Hs1 [[e1 Hd1] [Ho1 [Hm1 Hc1]]]]] [Hw2 [Hs2 [[e2 Hd2] [Ho2 [Hm2 Hc2]]]]].
  apply ext_intro; auto; try congruence.
  - exists (e1 ++ e2). rewrite Hd2, Hd1, app_assoc. reflexivity.
  - intros Ha Hc. destruct (cyc b) eqn:Hb; auto.
Qed.

Definition step_ok (f : nat) (step : Z -> st -> st) : Prop :=
  forall x s, WF s -> In x (ids items) -> linked x (stack s) ->
    length (ids items) < length (stack s) + f ->
    ext s (step x s) /\ (cyc (step x s) = false -> In x (done (step x s))).

Lemma fold_spec f step : step_ok f step ->
  forall ds s, WF s -> (forall d, In d ds -> In d (ids items) /\ linked d (stack s)) ->
    length (ids items) < length (stack s) + f ->
    ext s (fold_left (fun s d => step d s) ds s) /\
    (cyc (fold_left (fun s d => step d s) ds s) = false ->
     forall d, In d ds -> In d (done (fold_left (fun s d => step d s) ds s))).
Proof.
  intros Hstep. induction ds as [|d ds IH]; intros s Hwf Hds Hb; cbn [fold_left].
  - split; [apply ext_refl; auto|]. intros _ d [].
  - destruct (Hds d (or_introl eq_refl)) as [Hdi Hdl].
    destruct (Hstep d s Hwf Hdi Hdl Hb) as [He Hd].
    set (s1 := step d s) in *.
    assert (Hst : stack s1 = stack s) by (destruct He as [_ [Hst _]]; exact Hst).
    assert (Hwf1 : WF s1) by (destruct He as [Hw _]; exact Hw).
    destruct (IH s1 Hwf1) as [He2 Hd2].
    { intros d' Hd'. rewrite Hst. apply Hds. right. exact Hd'. }
    { rewrite Hst. exact Hb. }
    set (s2 := fold_left (fun s d => step d s) ds s1) in *.
    split; [apply ext_trans with s1; auto|].
    intros Hc d' [Hd'|Hd'].
    + subst d'. destruct He2 as [_ [_ [[e Hdn] [_ [Hm _]]]]].
      rewrite Hdn. apply in_or_app. left. apply Hd.
      destruct (cyc s1) eqn:Hc1; auto. rewrite Hm in Hc; auto.
    + apply Hd2; auto.
Qed.

Lemma on_stack_ok x s :
  WF s -> linked x (stack s) -> In x (stack s) ->
  ext s {| done := done s; stack := stack s; cyc := true; oof := oof s |}.
Proof.
  intros Hwf Hl Hin. destruct Hwf as [Hnd Hdi Hsi Hch Hcl].
  apply ext_intro; cbn [done stack cyc oof]; auto.
  - constructor; cbn [done stack cyc oof]; auto. intros H. discriminate.
  - exists []. rewrite app_nil_r. reflexivity.
  - intros _ _. apply stack_cycle with x (stack s); auto.
Qed.

Lemma fuel_positive x s :
  WF s -> In x (ids items) -> ~ In x (stack s) -> length (stack s) < length (ids items).
Proof.
  intros Hwf Hx Hs. destruct Hwf as [Hnd Hdi Hsi Hch Hcl].
  assert (Hn : NoDup (x :: stack s)).
  { constructor; auto. apply NoDup_app_r in Hnd. exact Hnd. }
  assert (Hi : incl (x :: stack s) (ids items)).
  { intros z [Hz|Hz]; [subst; auto | auto]. }
  pose proof (NoDup_incl_length Hn Hi) as Hlen. cbn [length] in Hlen. lia.
Qed.

Lemma visit_spec : forall f, step_ok f (fun x s => visit f items x s).
Proof.
  induction f as [|f IH]; intros x s Hwf Hx Hl Hb; rewrite visit_eq.
  - destruct (memz x (done s)) eqn:Hd.
    { split; [apply ext_refl; auto | intros _; apply memz_In; auto]. }
    destruct (memz x (stack s)) eqn:Hs.
    { apply memz_In in Hs. split; [apply (on_stack_ok x); auto|]. cbn [cyc]. discriminate. }
    exfalso. apply memz_false in Hs. pose proof (fuel_positive x s Hwf Hx Hs). lia.
  - destruct (memz x (done s)) eqn:Hd.
    { split; [apply ext_refl; auto | intros _; apply memz_In; auto]. }
    destruct (memz x (stack s)) eqn:Hs.
    { apply memz_In in Hs. split; [apply (on_stack_ok x); auto|]. cbn [cyc]. discriminate. }
    apply memz_false in Hd. apply memz_false in Hs. cbv zeta.
    set (s1 := {| done := done s; stack := x :: stack s; cyc := cyc s; oof := oof s |}).
    assert (Hwf1 : WF s1).
    { destruct Hwf as [Hnd Hdi Hsi Hch Hcl]. constructor; unfold s1; cbn [done stack cyc oof]; auto.
      - apply NoDup_mid; auto. intros H. apply in_app_or in H as [H|H]; auto.
      - intros z [Hz|Hz]; [subst; auto | auto].
      - apply chain_cons; auto. }
    assert (Hfold : ext s1 (fold_left (fun s d => visit f items d s) (dependents items x) s1) /\
            (cyc (fold_left (fun s d => visit f items d s) (dependents items x) s1) = false ->
             forall d, In d (dependents items x) ->
               In d (done (fold_left (fun s d => visit f items d s) (dependents items x) s1)))).
    { apply (fold_spec f _ IH (dependents items x) s1 Hwf1).
      - intros d Hd'. split; [eapply dependents_ids; eauto|].
        unfold s1; cbn [stack linked]. apply dependents_edge; auto.
      - unfold s1; cbn [stack length]. lia. }
    set (s2 := fold_left (fun s d => visit f items d s) (dependents items x) s1) in *.
    destruct Hfold as [[Hwf2 [Hst2 [[extra Hdn2] [Hoof2 [Hmono2 Hcyc2]]]]] Hall].
    unfold s1 in Hst2, Hdn2, Hoof2, Hmono2, Hcyc2. cbn [done stack cyc oof] in Hst2, Hdn2, Hoof2, Hmono2, Hcyc2.
    rewrite Hst2. cbn [removez]. rewrite Z.eqb_refl. rewrite (removez_notin x (stack s) Hs).
    destruct Hwf2 as [Hnd2 Hdi2 Hsi2 Hch2 Hcl2]. rewrite Hst2 in Hnd2.
    assert (Hx2 : ~ In x (done s2)).
    { apply NoDup_remove_2 in Hnd2. intros H. apply Hnd2. apply in_or_app. left. exact H. }
    split.
    + apply ext_intro; cbn [done stack cyc oof]; auto.
      * constructor; cbn [done stack cyc oof].
        -- rewrite <- app_assoc. exact Hnd2.
        -- apply incl_app; auto. intros z [Hz|[]]. subst; auto.
        -- destruct Hwf; auto.
        -- destruct Hwf; auto.
        -- intros Hc d y Hd' Hy. apply in_app_or in Hd' as [Hd'|[Hd'|[]]].
           ++ destruct (Hcl2 Hc d y Hd' Hy) as [Hy1 Hlt]. split; [apply in_or_app; auto|].
              rewrite !idx_app_in by auto. exact Hlt.
           ++ subst d. pose proof (Hall Hc y Hy) as Hy1. split; [apply in_or_app; auto|].
              rewrite idx_app_in by auto. rewrite idx_app_notin by auto.
              cbn [idx]. rewrite Z.eqb_refl. pose proof (idx_lt_length _ _ Hy1). lia.
      * exists (extra ++ [x]). rewrite Hdn2, app_assoc. reflexivity.
    + intros _. cbn [done]. apply in_or_app. right. left. reflexivity.
Qed.

(* the whole run *)
Lemma wf_st0 : WF st0.
Proof.
  constructor; cbn [st0 done stack cyc oof app chain].
  - constructor.
  - intros z [].
  - intros z [].
  - exact I.
  - intros _ d y [].
Qed.

Lemma run_spec order :
  (forall x, In x order -> In x (ids items)) ->
  ext st0 (visit_all (S (length items)) items order st0) /\
  (cyc (visit_all (S (length items)) items order st0) = false ->
   forall d, In d order -> In d (done (visit_all (S (length items)) items order st0))).
Proof.
  intros Hord. unfold visit_all.
  apply (fold_spec (S (length items)) _ (visit_spec (S (length items))) order st0 wf_st0).
  - intros d Hd. split; [auto | exact I].
  - unfold st0. cbn [stack length]. rewrite ids_length. lia.
Qed.

Lemma run_facts order :
  NoDup (ids items) -> order_ok items order ->
  let s := visit_all (S (length items)) items order st0 in
  oof s = false /\ WF s /\ NoDup (done s) /\
  (cyc s = true -> cyclic items) /\
  (cyc s = false -> length (done s) = length items /\ forall x, In x (done s) <-> In x (ids items)).
Proof.
  intros Hnd Hok s. destruct (run_spec order) as [[Hwf [Hst [_ [Hoof [_ Hcyc]]]]] Hall].
  { intros x Hx. apply Hok. exact Hx. }
  fold s in Hwf, Hst, Hoof, Hcyc, Hall. cbn [st0 stack oof cyc] in Hst, Hoof, Hcyc.
  assert (Hnd' : NoDup (done s)).
  { pose proof (wf_nodup s Hwf) as H. rewrite Hst, app_nil_r in H. exact H. }
  split; [exact Hoof|]. split; [exact Hwf|]. split; [exact Hnd'|]. split; [auto|].
  intros Hc. split; [|intros x; split].
  - assert (Hi : incl (ids items) (done s)).
    { intros x Hx. apply Hall; auto. apply Hok. exact Hx. }
    pose proof (NoDup_incl_length Hnd Hi) as H1.
    pose proof (NoDup_incl_length Hnd' (wf_done s Hwf)) as H2.
    rewrite ids_length in H1, H2. lia.
  - apply (wf_done s Hwf).
  - intros Hx. apply Hall; auto. apply Hok. exact Hx.
Qed.

(* without a reported cycle the position in [done] strictly decreases along dependency edges *)
Lemma closed_edge s x d :
  WF s -> cyc s = false -> (forall z, In z (ids items) -> In z (done s)) ->
  dep_edge items x d -> In x (done s) /\ In d (done s) /\ idx x (done s) < idx d (done s).
Proof.
  intros Hwf Hc Hall He. apply edge_dependents in He as [Hy Hd].
  pose proof (Hall d Hd) as Hd'.
  destruct (wf_closed s Hwf Hc d x Hd' Hy) as [Hx Hlt]. auto.
Qed.

Lemma no_cycle s :
  WF s -> cyc s = false -> (forall z, In z (ids items) -> In z (done s)) -> ~ cyclic items.
Proof.
  intros Hwf Hc Hall [x Hx].
  assert (H : forall a b, clos_trans Z (dep_edge items) a b -> idx a (done s) < idx b (done s)).
  { intros a b Hab. induction Hab as [a b He | a b c _ IH1 _ IH2].
    - apply (closed_edge s a b Hwf Hc Hall He).
    - lia. }
  specialize (H x x Hx). lia.
Qed.

(* replay: visiting in the order of a valid result appends exactly the visited root *)
Lemma visit_noop f d s : memz d (done s) = true -> visit f items d s = s.
Proof. intros H. rewrite visit_eq, H. reflexivity. Qed.

Lemma fold_noop f ds s :
  (forall d, In d ds -> In d (done s)) -> fold_left (fun s d => visit f items d s) ds s = s.
Proof.
  induction ds as [|d ds IH]; intros H; cbn [fold_left]; [reflexivity|].
  rewrite visit_noop.
  - apply IH. intros d' Hd'. apply H. right. exact Hd'.
  - apply memz_In. apply H. left. reflexivity.
Qed.

Lemma replay f : forall l2 l1,
  NoDup (l1 ++ l2) ->
  (forall x y, In x (l1 ++ l2) -> In y (dependents items x) -> idx y (l1 ++ l2) < idx x (l1 ++ l2)) ->
  fold_left (fun s x => visit (S f) items x s) l2 {| done := l1; stack := []; cyc := false; oof := false |} =
  {| done := l1 ++ l2; stack := []; cyc := false; oof := false |}.
Proof.
  induction l2 as [|x t IH]; intros l1 Hnd Hdep; cbn [fold_left].
  - rewrite app_nil_r. reflexivity.
  - assert (Hx : ~ In x l1).
    { apply NoDup_remove_2 in Hnd. intros H; apply Hnd; apply in_or_app; left; exact H. }
    assert (Hv : visit (S f) items x {| done := l1; stack := []; cyc := false; oof := false |} =
                 {| done := l1 ++ [x]; stack := []; cyc := false; oof := false |}).
    { rewrite visit_eq. cbn [done stack cyc oof].
      replace (memz x l1) with false by (symmetry; apply memz_false; exact Hx).
      cbn [memz existsb]. rewrite fold_noop.
      - cbn [done stack cyc oof removez]. rewrite Z.eqb_refl. reflexivity.
      - cbn [done]. intros d Hd. apply idx_lt_in with (b := x :: t).
        assert (Hin : In x (l1 ++ x :: t)) by (apply in_or_app; right; left; reflexivity).
        specialize (Hdep x d Hin Hd).
        rewrite (idx_app_notin x l1 (x :: t) Hx) in Hdep. cbn [idx] in Hdep.
        rewrite Z.eqb_refl in Hdep. lia. }
    rewrite Hv. rewrite IH.
    + rewrite <- app_assoc. reflexivity.
    + rewrite <- app_assoc. exact Hnd.
    + rewrite <- app_assoc. exact Hdep.
Qed.

End Topo.

(* ---------- main theorems ---------- *)

(* everything known about a TOk result *)
Lemma topo_ok_facts items order l :
  NoDup (ids items) -> order_ok items order -> topo items order = TOk l ->
  NoDup l /\ length l = length items /\ (forall x, In x l <-> In x (ids items)) /\
  (forall x d, dep_edge items x d -> In x l /\ In d l /\ idx x l < idx d l).
Proof.
  intros Hnd Hok H. unfold topo in H.
  destruct (run_facts items order Hnd Hok) as [Hoof [Hwf [Hnd' [Hcyc Hlen]]]].
  set (s := visit_all (S (length items)) items order st0) in *.
  rewrite Hoof in H. destruct (cyc s) eqn:Hc; [discriminate|].
  destruct (Hlen eq_refl) as [Hlen' Hin]. rewrite Hlen', Nat.eqb_refl in H. cbn in H.
  inversion H; subst l.
  split; [exact Hnd'|]. split; [exact Hlen'|]. split; [exact Hin|].
  intros x d He. apply (closed_edge items s x d Hwf Hc); auto. intros z Hz. apply Hin. exact Hz.
Qed.

Theorem topo_respects : forall items order l,
  NoDup (ids items) -> order_ok items order -> topo items order = TOk l ->
  Permutation l (ids items) /\ forall x d, dep_edge items x d -> precedes x d l.
Proof.
  intros items order l Hnd Hok H.
  destruct (topo_ok_facts items order l Hnd Hok H) as [Hnd' [_ [Hin Hdep]]].
  split.
  - apply NoDup_Permutation; auto.
  - intros x d He. destruct (Hdep x d He) as [Hx [Hd Hlt]]. apply idx_precedes; auto.
Qed.

Theorem topo_reports_cycles : forall items order,
  NoDup (ids items) -> order_ok items order ->
  (topo items order = TErr <-> cyclic items).
Proof.
  intros items order Hnd Hok. unfold topo.
  destruct (run_facts items order Hnd Hok) as [Hoof [Hwf [Hnd' [Hcyc Hlen]]]].
  set (s := visit_all (S (length items)) items order st0) in *.
  rewrite Hoof. destruct (cyc s) eqn:Hc.
  - cbn [orb]. split; auto.
  - destruct (Hlen eq_refl) as [Hlen' Hin]. rewrite Hlen', Nat.eqb_refl. cbn [negb orb].
    split; [discriminate|]. intros Hcy. exfalso.
    apply (no_cycle items s Hwf Hc); auto. intros z Hz. apply Hin. exact Hz.
Qed.

Theorem topo_fuel_suffices : forall items order,
  NoDup (ids items) -> order_ok items order -> topo items order <> TOutOfFuel.
Proof.
  intros items order Hnd Hok. unfold topo.
  destruct (run_facts items order Hnd Hok) as [Hoof _].
  set (s := visit_all (S (length items)) items order st0) in *.
  rewrite Hoof. destruct (cyc s || negb (length (done s) =? length items)); discriminate.
Qed.

(* re-running with the result as the iteration order reproduces the result: justifies how the harness
   reconstructs the unobservable map order *)
Theorem topo_order_reconstruct : forall items order l,
  NoDup (ids items) -> order_ok items order -> topo items order = TOk l -> topo items l = TOk l.
Proof.
  intros items order l Hnd Hok H.
  destruct (topo_ok_facts items order l Hnd Hok H) as [Hnd' [Hlen [Hin Hdep]]].
  unfold topo, visit_all, st0.
  rewrite (replay items (length items) l []).
  - cbn [app done stack cyc oof orb]. rewrite Hlen, Nat.eqb_refl. reflexivity.
  - exact Hnd'.
  - cbn [app]. intros x y Hx Hy. apply Hdep. apply dependents_edge; auto. apply Hin. exact Hx.
Qed.

Print Assumptions topo_respects.
Print Assumptions topo_reports_cycles.
Print Assumptions topo_fuel_suffices.
Print Assumptions topo_order_reconstruct.
