(* MV.C17.ChooseProofs — the result checkers of ChooseModel.v are sound and complete for the mathematical
   statements (tie T4): distinct_members = "r is a sub-multiset of s", distinct_indices = "pairwise different
   valid indices", perm_check = "r is a rearrangement of s". *)
From MV Require Import Lib.ListX C17.ChooseModel.
From Coq Require Import Permutation.
Open Scope nat_scope.

(* ------------------------------------------------------------------ remove_one *)
Lemma remove_one_some : forall x s s', remove_one x s = Some s' -> Permutation s (x :: s').
Proof.
  intros x s; induction s as [|y t IH]; intros s' H; cbn [remove_one] in H.
  - discriminate.
  - destruct (Z.eqb_spec x y) as [E|E].
    + inversion H; subst. apply Permutation_refl.
    + destruct (remove_one x t) as [t'|] eqn:R; [|discriminate].
      inversion H; subst.
      eapply Permutation_trans; [apply perm_skip; apply IH; reflexivity | apply perm_swap].
Qed.

Lemma remove_one_none : forall x s, remove_one x s = None -> ~ In x s.
Proof.
  intros x s; induction s as [|y t IH]; intros H; cbn [remove_one] in H.
  - intros [].
  - destruct (Z.eqb_spec x y) as [E|E]; [discriminate|].
    destruct (remove_one x t) as [t'|] eqn:R; [discriminate|].
    intros [Hy|Hin]; [congruence | exact (IH eq_refl Hin)].
Qed.

Lemma remove_one_in : forall x s, In x s -> exists s', remove_one x s = Some s'.
Proof.
  intros x s Hin. destruct (remove_one x s) as [s'|] eqn:R.
  - eauto.
  - exfalso. exact (remove_one_none _ _ R Hin).
Qed.

(* ------------------------------------------------------------------ distinct_members *)
Theorem distinct_members_iff : forall s r,
  distinct_members s r = true <-> exists rest, Permutation s (r ++ rest).
Proof.
  intros s r; revert s; induction r as [|x t IH]; intros s; cbn [distinct_members app].
  - split; [intros _; exists s; apply Permutation_refl | reflexivity].
  - split.
    + intros H. destruct (remove_one x s) as [s'|] eqn:R; [|discriminate].
      apply IH in H. destruct H as [rest Hp]. exists rest.
      eapply Permutation_trans; [apply remove_one_some; exact R | apply perm_skip; exact Hp].
    + intros [rest Hp].
      assert (Hin : In x s).
      { eapply Permutation_in; [apply Permutation_sym; exact Hp | left; reflexivity]. }
      destruct (remove_one_in _ _ Hin) as [s' R]. rewrite R.
      apply IH. exists rest.
      apply Permutation_cons_inv with (a := x).
      eapply Permutation_trans; [apply Permutation_sym; apply remove_one_some; exact R | exact Hp].
Qed.

(* ------------------------------------------------------------------ distinct_indices *)
Lemma existsb_eqb_in : forall x l, existsb (Z.eqb x) l = true <-> In x l.
Proof.
  intros x l. rewrite existsb_exists. split.
  - intros [y [Hin He]]. apply Z.eqb_eq in He. subst. exact Hin.
  - intros Hin. exists x. split; [exact Hin | apply Z.eqb_refl].
Qed.

Lemma nodupb_iff : forall l, nodupb l = true <-> NoDup l.
Proof.
  induction l as [|x t IH]; cbn [nodupb].
  - split; [intros _; constructor | reflexivity].
  - rewrite andb_true_iff, negb_true_iff, IH. split.
    + intros [Hn Hd]. constructor; [|exact Hd].
      intros Hin. apply existsb_eqb_in in Hin. congruence.
    + intros Hd. inversion Hd as [|? ? Hn Hd']; subst. split; [|exact Hd'].
      destruct (existsb (Z.eqb x) t) eqn:E; [|reflexivity].
      exfalso. apply Hn. apply existsb_eqb_in. exact E.
Qed.

Theorem distinct_indices_iff : forall n r,
  distinct_indices n r = true <-> NoDup r /\ forall i, In i r -> (0 <= i < Z.of_nat n)%Z.
Proof.
  intros n r. unfold distinct_indices.
  rewrite andb_true_iff, nodupb_iff, forallb_forall.
  split; intros [Hd Hr]; (split; [exact Hd|]); intros i Hin; specialize (Hr i Hin).
  - apply andb_true_iff in Hr. destruct Hr as [H1 H2].
    apply Z.leb_le in H1. apply Z.ltb_lt in H2. lia.
  - apply andb_true_iff. split; [apply Z.leb_le | apply Z.ltb_lt]; lia.
Qed.

(* ------------------------------------------------------------------ perm_check *)
Theorem perm_check_iff : forall s r, perm_check s r = true <-> Permutation s r.
Proof.
  intros s r. unfold perm_check. rewrite andb_true_iff, Nat.eqb_eq, distinct_members_iff. split.
  - intros [Hl [rest Hp]].
    pose proof (Permutation_length Hp) as Hl2. rewrite app_length in Hl2.
    destruct rest as [|a rest]; [|cbn [length] in Hl2; lia].
    rewrite app_nil_r in Hp. exact Hp.
  - intros Hp. split; [apply Permutation_length; exact Hp|].
    exists []. rewrite app_nil_r. exact Hp.
Qed.

Print Assumptions distinct_members_iff.
Print Assumptions distinct_indices_iff.
Print Assumptions perm_check_iff.
