(* MV.C17.ChooseModel — verified result checkers (tie T4) for the helpers whose output depends on the
   map iteration order or on math/rand: random.go no-repeat choices, Shuffle.  The harness passes the
   implementation's result through these boolean functions; ChooseProofs.v proves them sound and complete
   for the mathematical statement.  No proofs here. *)
From MV Require Import Lib.ListX.
Open Scope nat_scope.

Fixpoint remove_one (x : Z) (l : list Z) : option (list Z) :=
  match l with
  | [] => None
  | y :: t => if (x =? y)%Z then Some t
              else match remove_one x t with Some t' => Some (y :: t') | None => None end
  end.
(* r consists of members of s taken from pairwise different positions *)
Fixpoint distinct_members (s r : list Z) : bool :=
  match r with
  | [] => true
  | x :: t => match remove_one x s with Some s' => distinct_members s' t | None => false end
  end.
Fixpoint nodupb (l : list Z) : bool :=
  match l with [] => true | x :: t => negb (existsb (Z.eqb x) t) && nodupb t end.
(* r is a list of pairwise different valid indices of a slice of length n *)
Definition distinct_indices (n : nat) (r : list Z) : bool :=
  nodupb r && forallb (fun i => (0 <=? i)%Z && (i <? Z.of_nat n)%Z) r.
(* r is a rearrangement of s *)
Definition perm_check (s r : list Z) : bool := (length s =? length r) && distinct_members s r.
