(* MV.C17.CollRun — evaluation of recorded implementation calls against the model (tie T1).
   A case = helper, arguments, and what the Go code produced: its results followed by the arguments
   re-read after the call. *)
From MV Require Import Lib.ListX C17.CollModel.

Definition pair_eqb (a b : Z * Z) : bool := (fst a =? fst b)%Z && (snd a =? snd b)%Z.
Definition val_eqb (a b : val) : bool :=
  match a, b with
  | VZ x, VZ y => (x =? y)%Z
  | VB x, VB y => Bool.eqb x y
  | VL x, VL y => list_eqb Z.eqb x y
  | VNil, VNil => true
  | VLL x, VLL y => list_eqb (list_eqb Z.eqb) x y
  | VM x, VM y => list_eqb pair_eqb x y
  | VMM x, VMM y => list_eqb (list_eqb pair_eqb) x y
  | _, _ => false
  end.

(* cid is a Z (binary): a nat numeral per case would make every case a term of size cid *)
Record case := { cid : Z; cfn : fn; cargs : list val; cimpl : list val }.
Definition case_ok (c : case) : bool := list_eqb val_eqb (run (cfn c) (cargs c)) (cimpl c).
Definition mismatches (cs : list case) : list nat := fail_ids case_ok (fun c => Z.to_nat (cid c)) cs.
