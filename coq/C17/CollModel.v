(* MV.C17.CollModel — executable models of the helpers of toolkit/collection
   (duplicate.go, sort.go, drop.go, filter.go, merge.go, clone.go, convert.go, contains.go, find.go, loop.go).
   Slices are [list A] (A := Z when run); an in-place helper returns the new slice AND the final contents of
   the backing array of its argument (so clobbering/aliasing is observable).  Maps are association lists
   [amap] sorted strictly by key.  Each function follows the Go function's algorithm (read/write cursors,
   early returns); the laws are proved in the *Proofs.v files.  No proofs here.

   Repaired behaviour is modelled (see fixes/C17-*.patch) for: DeduplicateSliceInPlaceWithCompare,
   EqualMap/EqualComparableMap, FindMaxFrom(Comparable)Map, LoopMapByOrderedValueAsc/Desc,
   AscByClone/DescByClone.  TopologicalSort is in TopoModel.v, the random choices in ChooseModel.v. *)
From MV Require Import Lib.ListX C17.TopoModel C17.ChooseModel.
Open Scope nat_scope.

(* ------------------------------------------------------------------ callback families (mirrored in Go) *)
(* comparison handlers: k = 0 is ==, k > 0 is "same remainder modulo k" (Go %, i.e. Z.rem) *)
Definition cmpk (k a b : Z) : bool :=
  if (k =? 0)%Z then (a =? b)%Z else (Z.rem a k =? Z.rem b k)%Z.
(* unary conditions: 0: v == x   1: v > x   2: v % 2 == x   3: always   other: never *)
Definition predk (c x v : Z) : bool :=
  if (c =? 0)%Z then (v =? x)%Z
  else if (c =? 1)%Z then (x <? v)%Z
  else if (c =? 2)%Z then (Z.rem v 2 =? x)%Z
  else if (c =? 3)%Z then true else false.
(* ordered-value getters: 0: v   1: -v   2: |v|   other: v / 2 (truncated) *)
Definition keyk (g v : Z) : Z :=
  if (g =? 0)%Z then v else if (g =? 1)%Z then (- v)%Z else if (g =? 2)%Z then Z.abs v else Z.quot v 2.
(* loop bodies: f(i, v) returns false (stop) at call number n or on the value x *)
Definition contk (n x : Z) (i : nat) (v : Z) : bool := negb ((Z.of_nat i =? n)%Z || (v =? x)%Z).

(* ------------------------------------------------------------------ duplicate.go *)
(* copying variants: [r] is the result slice being appended to; the map m of DeduplicateSlice holds
   exactly the members of r, so membership in m is membership in r *)
Fixpoint dedup_acc {A} (cmp : A -> A -> bool) (s r : list A) : list A :=
  match s with
  | [] => r
  | v :: t => if existsb (cmp v) r then dedup_acc cmp t r else dedup_acc cmp t (r ++ [v])
  end.
Definition dedup_copy {A} (cmp : A -> A -> bool) (s : list A) : list A :=
  if length s <? 2 then s else dedup_acc cmp s [].

(* DeduplicateSliceInPlace: read index i, write index w over the backing array b, [seen] = keys of m *)
Fixpoint dedup_ipm_loop {A} (eqb : A -> A -> bool) (n i w : nat) (b seen : list A) : list A * nat :=
  match n with
  | O => (b, w)
  | S n' =>
      match nth_error b i with
      | None => (b, w)
      | Some v =>
          if existsb (eqb v) seen then dedup_ipm_loop eqb n' (S i) w b seen
          else dedup_ipm_loop eqb n' (S i) (S w) (upd w v b) (seen ++ [v])
      end
  end.
Definition dedup_inplace_map {A} (eqb : A -> A -> bool) (s : list A) : list A * list A :=
  if length s <? 2 then (s, s)
  else let '(b, w) := dedup_ipm_loop eqb (length s) 0 0 s [] in (firstn w b, b).

(* DeduplicateSliceInPlaceWithCompare (repaired): element i is compared with the kept prefix b[0..w) *)
Fixpoint dedup_ipc_loop {A} (cmp : A -> A -> bool) (n i w : nat) (b : list A) : list A * nat :=
  match n with
  | O => (b, w)
  | S n' =>
      match nth_error b i with
      | None => (b, w)
      | Some v =>
          if existsb (cmp v) (firstn w b) then dedup_ipc_loop cmp n' (S i) w b
          else dedup_ipc_loop cmp n' (S i) (S w) (upd w v b)
      end
  end.
Definition dedup_inplace_cmp {A} (cmp : A -> A -> bool) (s : list A) : list A * list A :=
  if length s <? 2 then (s, s)
  else let '(b, w) := dedup_ipc_loop cmp (length s) 0 0 s in (firstn w b, b).

(* ------------------------------------------------------------------ sort.go *)
(* sort.Slice / sort.SliceStable are modelled by stable insertion sort (what sort.Slice runs up to 12
   elements); on the inputs of the correspondence runs equal keys mean equal elements or the sort is the
   stable one of the repaired *ByClone, so every correct sort yields this list. *)
Fixpoint insert_by {A} (lt : A -> A -> bool) (x : A) (l : list A) : list A :=
  match l with
  | [] => [x]
  | y :: t => if lt x y then x :: l else y :: insert_by lt x t
  end.
Definition isort {A} (lt : A -> A -> bool) (s : list A) : list A :=
  fold_left (fun acc x => insert_by lt x acc) s [].
Definition lt_key {A} (key : A -> Z) (desc : bool) (a b : A) : bool :=
  if desc then (key b <? key a)%Z else (key a <? key b)%Z.
Definition sort_by {A} (key : A -> Z) (desc : bool) (s : list A) : list A := isort (lt_key key desc) s.
(* Asc/Desc sort the argument in place: the slice and its backing array are the same list *)
Definition sort_inplace {A} (key : A -> Z) (desc : bool) (s : list A) : list A * list A :=
  (sort_by key desc s, sort_by key desc s).

(* ------------------------------------------------------------------ drop.go *)
(* validElements := slice[:0]; for i, v := range slice { if keep(i, v) { validElements = append(validElements, v) } }  (slice is the dereferenced argument) *)
Fixpoint compact_loop {A} (keep : nat -> A -> bool) (n i w : nat) (b : list A) : list A * nat :=
  match n with
  | O => (b, w)
  | S n' =>
      match nth_error b i with
      | None => (b, w)
      | Some v =>
          if keep i v then compact_loop keep n' (S i) (S w) (upd w v b)
          else compact_loop keep n' (S i) w b
      end
  end.
Definition compact {A} (keep : nat -> A -> bool) (s : list A) : list A * list A :=
  let '(b, w) := compact_loop keep (length s) 0 0 s in (firstn w b, b).

Definition idx_in (idx : list Z) (i : nat) : bool := existsb (Z.eqb (Z.of_nat i)) idx.
Definition in_slice {A} (cmp : A -> A -> bool) (s : list A) (v : A) : bool := existsb (cmp v) s.

Definition drop_by_indices {A} (s : list A) (idx : list Z) : list A * list A :=
  match idx with [] => (s, s) | _ => compact (fun i _ => negb (idx_in idx i)) s end.
Definition drop_by_condition {A} (cond : A -> bool) (s : list A) : list A * list A :=
  compact (fun _ v => negb (cond v)) s.
Definition drop_overlapping {A} (cmp : A -> A -> bool) (s other : list A) : list A * list A :=
  compact (fun _ v => negb (in_slice cmp other v)) s.
Definition clear_slice {A} (s : list A) : list A * list A := ([], s).

(* ------------------------------------------------------------------ filter.go *)
Fixpoint filter_idx {A} (keep : nat -> A -> bool) (i : nat) (l : list A) : list A :=
  match l with
  | [] => []
  | v :: t => if keep i v then v :: filter_idx keep (S i) t else filter_idx keep (S i) t
  end.
Definition valid_indices (n : nat) (idx : list Z) : list Z :=
  filter (fun e => (0 <=? e)%Z && (e <? Z.of_nat n)%Z) idx.
Definition filter_out_by_indices {A} (s : list A) (idx : list Z) : list A :=
  match s, idx with
  | [], _ => s
  | _, [] => s
  | _, _ => match valid_indices (length s) idx with
            | [] => s
            | ex => filter_idx (fun i _ => negb (idx_in ex i)) 0 s
            end
  end.
Definition filter_out_by_condition {A} (cond : A -> bool) (s : list A) : list A :=
  filter_idx (fun _ v => negb (cond v)) 0 s.

(* ------------------------------------------------------------------ merge.go / clone.go *)
Definition merge_slice {A} (values : list A) : list A := values.
Fixpoint merge_slices {A} (ss : list (list A)) : list A :=
  match ss with [] => [] | s :: t => s ++ merge_slices t end.
Definition clone_slice {A} (s : list A) : list A := s.
Fixpoint clone_n {A} (s : A) (n : nat) : list A := match n with O => [] | S k => s :: clone_n s k end.
Definition clone_slice_n {A} (isnil : bool) (s : list A) (n : Z) : list (list A) :=
  if isnil then [] else if (n <=? 0)%Z then [] else clone_n (clone_slice s) (Z.to_nat n).
Definition clone_slices {A} (ss : list (list A)) : list (list A) := map clone_slice ss.

(* ------------------------------------------------------------------ convert.go *)
(* for i := 0; i < len(s); i += batchSize { end := min(i+batchSize, len(s)); append(s[i:end]) } *)
Fixpoint batches_loop {A} (fuel n i : nat) (s : list A) : list (list A) :=
  match fuel with
  | O => []
  | S f =>
      if i <? length s then
        let e := if length s <? i + n then length s else i + n in
        firstn (e - i) (skipn i s) :: batches_loop f n (i + n) s
      else []
  end.
Definition batches {A} (s : list A) (n : Z) : list (list A) :=
  (* a batch size beyond the length behaves like the length (one batch): clamped so that the model stays computable for
     sizes such as MaxInt — the Go loop computes min(i+batchSize, len(s)) *)
  if (length s =? 0) || (n <=? 0)%Z then [] else batches_loop (length s) (Z.to_nat (Z.min n (Z.of_nat (length s)))) 0 s.

(* ReverseSlice: for i := 0; i < length/2; i++ { swap s[i], s[length-i-1] } *)
Fixpoint rev_loop {A} (k i : nat) (b : list A) : list A :=
  match k with
  | O => b
  | S k' =>
      match nth_error b i, nth_error b (length b - i - 1) with
      | Some x, Some y => rev_loop k' (S i) (upd i y (upd (length b - i - 1) x b))
      | _, _ => b
      end
  end.
Definition reverse_inplace {A} (s : list A) : list A := rev_loop (length s / 2) 0 s.

(* ------------------------------------------------------------------ contains.go (slices) *)
Fixpoint eq_loop {A} (cmp : A -> A -> bool) (s1 s2 : list A) : bool :=
  match s1, s2 with
  | [], _ => true
  | a :: t, b :: u => if cmp a b then eq_loop cmp t u else false
  | _ :: _, [] => false
  end.
Definition equal_slice {A} (cmp : A -> A -> bool) (s1 s2 : list A) : bool :=
  if length s1 =? length s2 then eq_loop cmp s1 s2 else false.
Definition all_in_slice {A} (cmp : A -> A -> bool) (s vs : list A) : bool :=
  match s with [] => false | _ => forallb (in_slice cmp s) vs end.
Definition any_in_slice {A} (cmp : A -> A -> bool) (s vs : list A) : bool :=
  match s with [] => false | _ => existsb (in_slice cmp s) vs end.
Definition in_slices {A} cmp (ss : list (list A)) (v : A) : bool := in_slice cmp (merge_slices ss) v.
Definition all_in_slices {A} cmp (ss : list (list A)) (vs : list A) : bool := all_in_slice cmp (merge_slices ss) vs.
Definition any_in_slices {A} cmp (ss : list (list A)) (vs : list A) : bool := any_in_slice cmp (merge_slices ss) vs.
Definition in_all_slices {A} cmp (ss : list (list A)) (v : A) : bool :=
  match ss with [] => false | _ => forallb (fun s => in_slice cmp s v) ss end.
Definition any_in_all_slices {A} cmp (ss : list (list A)) (vs : list A) : bool :=
  match ss with [] => false | _ => forallb (fun s => any_in_slice cmp s vs) ss end.

(* ------------------------------------------------------------------ find.go (slices) *)
Definition looped_next (s : list Z) (i : Z) : Z * Z :=
  if (i <? 0)%Z then (0%Z, nth 0 s 0%Z)
  else let nx := (i + 1)%Z in
       let nx := if (nx =? Z.of_nat (length s))%Z then 0%Z else nx in
       (nx, nth (Z.to_nat nx) s 0%Z).
Definition looped_prev (s : list Z) (i : Z) : Z * Z :=
  if (i <? 0)%Z then (Z.of_nat (length s) - 1, nth (length s - 1) s 0)%Z
  else let pv := (i - 1)%Z in
       let pv := if (pv =? -1)%Z then (Z.of_nat (length s) - 1)%Z else pv in
       (pv, nth (Z.to_nat pv) s 0%Z).

(* backtrack(start, size): emit the current combination when its size is in range, then extend it with every
   later element in turn.  [comb_loop l cur] is the for-loop of a call whose remaining elements are l. *)
Definition comb_emit {A} (lo hi : Z) (cur : list A) : list (list A) :=
  if (lo <=? Z.of_nat (length cur))%Z && (Z.of_nat (length cur) <=? hi)%Z then [cur] else [].
Fixpoint comb_loop {A} (lo hi : Z) (l cur : list A) : list (list A) :=
  match l with
  | [] => []
  | x :: t => (comb_emit lo hi (cur ++ [x]) ++ comb_loop lo hi t (cur ++ [x])) ++ comb_loop lo hi t cur
  end.
Definition combinations {A} (s : list A) (lo hi : Z) : list (list A) :=
  match s with
  | [] => []
  | _ => if (lo <=? 0)%Z || (hi <=? 0)%Z || (hi <? lo)%Z then [] else comb_emit lo hi [] ++ comb_loop lo hi s []
  end.

Fixpoint find_from {A} (p : A -> bool) (i : nat) (l : list A) : option (nat * A) :=
  match l with
  | [] => None
  | v :: t => if p v then Some (i, v) else find_from p (S i) t
  end.
Definition find_or_default {A} (p : A -> bool) (s : list A) (d : A) : A :=
  match find_from p 0 s with Some (_, v) => v | None => d end.
Definition find_in_slice (p : Z -> bool) (s : list Z) : Z * Z :=
  match find_from p 0 s with Some (i, v) => (Z.of_nat i, v) | None => ((-1)%Z, 0%Z) end.

(* result = slice[0]; for i := 1..: if key(result) > key(slice[i]) { result = slice[i] } *)
Fixpoint min_loop {A} (key : A -> Z) (r : A) (l : list A) : A :=
  match l with [] => r | x :: t => if (key x <? key r)%Z then min_loop key x t else min_loop key r t end.
Fixpoint max_loop {A} (key : A -> Z) (r : A) (l : list A) : A :=
  match l with [] => r | x :: t => if (key r <? key x)%Z then max_loop key x t else max_loop key r t end.
Definition find_min {A} (key : A -> Z) (d : A) (s : list A) : A :=
  match s with [] => d | x :: t => min_loop key x t end.
Definition find_max {A} (key : A -> Z) (d : A) (s : list A) : A :=
  match s with [] => d | x :: t => max_loop key x t end.

(* ------------------------------------------------------------------ loop.go (slices) *)
Fixpoint loop_from (f : nat -> Z -> bool) (i : nat) (l : list Z) : list (Z * Z) :=
  match l with
  | [] => []
  | v :: t => (Z.of_nat i, v) :: (if f i v then loop_from f (S i) t else [])
  end.
(* ReverseLoopSlice: i = len-1 .. 0 *)
Fixpoint rloop_from (f : nat -> Z -> bool) (rl : list Z) : list (Z * Z) :=
  match rl with
  | [] => []
  | v :: t => (Z.of_nat (length t), v) :: (if f (length t) v then rloop_from f t else [])
  end.
Definition reverse_loop_slice (f : nat -> Z -> bool) (s : list Z) : list (Z * Z) := rloop_from f (rev s).

(* ------------------------------------------------------------------ maps *)
Definition amap := list (Z * Z).
Fixpoint mget (k : Z) (m : amap) : option Z :=
  match m with [] => None | (k', v) :: t => if (k =? k')%Z then Some v else mget k t end.
Fixpoint mset (k v : Z) (m : amap) : amap :=
  match m with
  | [] => [(k, v)]
  | (k', v') :: t =>
      if (k <? k')%Z then (k, v) :: m else if (k =? k')%Z then (k, v) :: t else (k', v') :: mset k v t
  end.
Definition mhas (k : Z) (m : amap) : bool := match mget k m with Some _ => true | None => false end.
Definition mkeys (m : amap) : list Z := map fst m.
Definition mvals (m : amap) : list Z := map snd m.

(* merge.go: the iteration order inside one map is irrelevant (its keys are distinct) *)
Definition merge_maps (ms : list amap) : amap :=
  fold_left (fun acc m => fold_left (fun acc kv => mset (fst kv) (snd kv) acc) m acc) ms [].
Definition merge_maps_skip (ms : list amap) : amap :=
  fold_left (fun acc m => fold_left (fun acc kv => if mhas (fst kv) acc then acc else mset (fst kv) (snd kv) acc) m acc) ms [].
(* filter.go *)
Definition mfilter (keep : Z -> Z -> bool) (m : amap) : amap := filter (fun kv => keep (fst kv) (snd kv)) m.
Definition filter_out_by_key (m : amap) (k : Z) := mfilter (fun k' _ => negb (k' =? k)%Z) m.
Definition filter_out_by_value (cmp : Z -> Z -> bool) (m : amap) (v : Z) := mfilter (fun _ v' => negb (cmp v v')) m.
Definition filter_out_by_keys (m : amap) (ks : list Z) := mfilter (fun k _ => negb (in_slice Z.eqb ks k)) m.
Definition filter_out_by_values (cmp : Z -> Z -> bool) (m : amap) (vs : list Z) :=
  match vs with [] => m | _ => mfilter (fun _ v => negb (in_slice cmp vs v)) m end.
Definition filter_out_by_map (cond : Z -> Z -> bool) (m : amap) := mfilter (fun k v => negb (cond k v)) m.
(* convert.go *)
Definition index_map (s : list Z) : amap := combine (map Z.of_nat (seq 0 (length s))) s.
Definition set_of (s : list Z) : amap := fold_left (fun acc v => mset v 1%Z acc) s [].
Definition invert_map (m : amap) : amap := fold_left (fun acc kv => mset (snd kv) (fst kv) acc) m [].
(* contains.go (maps); EqualMap repaired: a key missing from map2 makes the maps different *)
Definition equal_map (cmp : Z -> Z -> bool) (m1 m2 : amap) : bool :=
  if length m1 =? length m2 then
    forallb (fun kv => match mget (fst kv) m2 with Some v2 => cmp (snd kv) v2 | None => false end) m1
  else false.
Definition value_in_map (cmp : Z -> Z -> bool) (m : amap) (v : Z) : bool := existsb (cmp v) (mvals m).
Definition all_key_in_map (m : amap) (ks : list Z) : bool :=
  if length m <? length ks then false else forallb (fun k => mhas k m) ks.
Definition all_value_in_map cmp (m : amap) (vs : list Z) : bool :=
  match m with [] => false | _ => forallb (value_in_map cmp m) vs end.
Definition any_key_in_map (m : amap) (ks : list Z) : bool :=
  match m with [] => false | _ => existsb (fun k => mhas k m) ks end.
Definition any_value_in_map cmp (m : amap) (vs : list Z) : bool :=
  match m with [] => false | _ => existsb (value_in_map cmp m) vs end.
Definition nonempty_and {A} (l : list A) (b : bool) : bool := match l with [] => false | _ => b end.
(* find.go (maps): iteration order does not matter for min/max of the values themselves *)
Definition find_min_map (key : Z -> Z) (m : amap) : Z := find_min key 0%Z (mvals m).
Definition find_max_map (key : Z -> Z) (m : amap) : Z := find_max key 0%Z (mvals m).
(* loop.go (maps): keys sorted, then f(i, k, m[k]) until it returns false *)
Fixpoint loop_pairs (f : nat -> Z -> bool) (on_key : bool) (i : nat) (l : list (Z * Z)) : list (Z * Z) :=
  match l with
  | [] => []
  | (k, v) :: t => (k, v) :: (if f i (if on_key then k else v) then loop_pairs f on_key (S i) t else [])
  end.
Definition keys_sorted_by (key : Z * Z -> Z) (desc : bool) (m : amap) : list (Z * Z) := sort_by key desc m.

(* ------------------------------------------------------------------ values, calls, dispatcher *)
Inductive val :=
| VZ (z : Z) | VB (b : bool) | VL (l : list Z) | VNil
| VLL (l : list (list Z)) | VM (m : list (Z * Z)) | VMM (l : list (list (Z * Z)))
| VBad.   (* never produced by the model: panics / unrepresentable implementation outputs *)

Inductive fn :=
(* duplicate.go *) | FDeduplicateSliceInPlace | FDeduplicateSlice | FDeduplicateSliceInPlaceWithCompare | FDeduplicateSliceWithCompare
(* sort.go *)      | FAsc | FDesc | FAscByClone | FDescByClone | FAscBy | FDescBy
(* drop.go *)      | FClearSlice | FClearMap | FDropSliceByIndices | FDropSliceByCondition | FDropSliceOverlappingElements
(* filter.go *)    | FFilterOutByIndices | FFilterOutByCondition | FFilterOutByKey | FFilterOutByValue | FFilterOutByKeys
                   | FFilterOutByValues | FFilterOutByMap
(* merge.go *)     | FMergeSlice | FMergeSlices | FMergeMaps | FMergeMapsWithSkip
(* clone.go *)     | FCloneSlice | FCloneMap | FCloneSliceN | FCloneMapN | FCloneSlices | FCloneMaps
(* convert.go *)   | FConvertSliceToBatches | FConvertMapKeysToBatches | FConvertMapValuesToBatches | FConvertSliceToAny
                   | FConvertSliceToIndexMap | FConvertSliceToIndexOnlyMap | FConvertSliceToMap | FConvertSliceToBoolMap
                   | FConvertMapKeysToSlice | FConvertMapValuesToBoolMap | FConvertMapValuesToSlice | FInvertMap
                   | FConvertMapValuesToBool | FReverseSlice
(* contains.go *)  | FEqualSlice | FEqualComparableSlice | FEqualMap | FEqualComparableMap | FInSlice | FInComparableSlice
                   | FAllInSlice | FAllInComparableSlice | FAnyInSlice | FAnyInComparableSlice | FInSlices | FInComparableSlices
                   | FAllInSlices | FAllInComparableSlices | FAnyInSlices | FAnyInComparableSlices | FInAllSlices
                   | FInAllComparableSlices | FAnyInAllSlices | FAnyInAllComparableSlices | FKeyInMap | FValueInMap
                   | FAllKeyInMap | FAllValueInMap | FAnyKeyInMap | FAnyValueInMap | FAllKeyInMaps | FAllValueInMaps
                   | FAnyKeyInMaps | FAnyValueInMaps | FKeyInAllMaps | FAnyKeyInAllMaps
(* find.go *)      | FFindLoopedNextInSlice | FFindLoopedPrevInSlice | FFindCombinationsInSliceByRange
                   | FFindFirstOrDefaultInSlice | FFindOrDefaultInSlice | FFindOrDefaultInComparableSlice | FFindInSlice
                   | FFindIndexInSlice | FFindInComparableSlice | FFindIndexInComparableSlice
                   | FFindMinimumInComparableSlice | FFindMinimumInSlice | FFindMaximumInComparableSlice | FFindMaximumInSlice
                   | FFindMin2MaxInComparableSlice | FFindMin2MaxInSlice | FFindMinFromComparableMap | FFindMinFromMap
                   | FFindMaxFromComparableMap | FFindMaxFromMap | FFindMin2MaxFromComparableMap | FFindMin2MaxFromMap | FIsFirst
(* loop.go *)      | FLoopSlice | FReverseLoopSlice | FLoopMapByOrderedKeyAsc | FLoopMapByOrderedKeyDesc
                   | FLoopMapByOrderedValueAsc | FLoopMapByOrderedValueDesc | FLoopMapByKeyGetterAsc | FLoopMapByValueGetterAsc
                   | FLoopMapByKeyGetterDesc | FLoopMapByValueGetterDesc
(* topological.go *) | FTopologicalSort
(* checked results (T4): random.go, Shuffle *)
                   | FChooseRandomSliceElementN | FChooseRandomIndexN | FChooseRandomMapKeyN | FChooseRandomMapValueN
                   | FChooseRandomMapKeyAndValueN | FShuffle | FShuffleByClone.

(* argument accessors: a nil slice / nil map behaves as the empty one *)
Definition arg (i : nat) (a : list val) : val := nth i a VBad.
Definition lz (v : val) : list Z := match v with VL l => l | _ => [] end.
Definition zz (v : val) : Z := match v with VZ z => z | _ => 0%Z end.
Definition ll (v : val) : list (list Z) := match v with VLL l => l | _ => [] end.
Definition mm (v : val) : amap := match v with VM m => m | _ => [] end.
Definition mms (v : val) : list amap := match v with VMM l => l | _ => [] end.
Definition isnil (v : val) : bool := match v with VNil => true | _ => false end.
Definition pairv (p : Z * Z) : list val := [VZ (fst p); VZ (snd p)].

(* in-place helpers: which argument is rewritten, and (new slice, final backing array) *)
Definition inplace (f : fn) (a : list val) : option (list Z * list Z) :=
  let s := lz (arg 0 a) in
  match f with
  | FDeduplicateSliceInPlace => Some (dedup_inplace_map Z.eqb s)
  | FDeduplicateSliceInPlaceWithCompare => Some (dedup_inplace_cmp (cmpk (zz (arg 1 a))) s)
  | FAsc => Some (sort_inplace (keyk (zz (arg 1 a))) false s)
  | FDesc => Some (sort_inplace (keyk (zz (arg 1 a))) true s)
  | FClearSlice => Some (clear_slice s)
  | FDropSliceByIndices => Some (drop_by_indices s (lz (arg 1 a)))
  | FDropSliceByCondition => Some (drop_by_condition (predk (zz (arg 1 a)) (zz (arg 2 a))) s)
  | FDropSliceOverlappingElements =>
      Some (if isnil (arg 1 a) then (s, s) else drop_overlapping (cmpk (zz (arg 2 a))) s (lz (arg 1 a)))
  | FReverseSlice => Some (reverse_inplace s, reverse_inplace s)
  | _ => None
  end.

Definition results (f : fn) (a : list val) : list val :=
  let a0 := arg 0 a in let a1 := arg 1 a in let a2 := arg 2 a in let a3 := arg 3 a in
  let s := lz a0 in
  match f with
  | FDeduplicateSlice => [VL (dedup_copy Z.eqb s)]
  | FDeduplicateSliceWithCompare => [VL (dedup_copy (cmpk (zz a1)) s)]
  | FAscByClone => [VL (sort_by (keyk (zz a1)) false s)]
  | FDescByClone => [VL (sort_by (keyk (zz a1)) true s)]
  | FAscBy => [VB (zz a0 <? zz a1)%Z]
  | FDescBy => [VB (zz a1 <? zz a0)%Z]
  | FClearMap => []
  | FFilterOutByIndices => [VL (filter_out_by_indices s (lz a1))]
  | FFilterOutByCondition => [VL (filter_out_by_condition (predk (zz a1) (zz a2)) s)]
  | FFilterOutByKey => [VM (filter_out_by_key (mm a0) (zz a1))]
  | FFilterOutByValue => [VM (filter_out_by_value (cmpk (zz a2)) (mm a0) (zz a1))]
  | FFilterOutByKeys => [VM (filter_out_by_keys (mm a0) (lz a1))]
  | FFilterOutByValues => [VM (filter_out_by_values (cmpk (zz a2)) (mm a0) (lz a1))]
  | FFilterOutByMap => [VM (filter_out_by_map (fun k v => predk (zz a1) (zz a2) (k + v)%Z) (mm a0))]
  | FMergeSlice => [VL (merge_slice s)]
  | FMergeSlices => [VL (merge_slices (ll a0))]
  | FMergeMaps => [VM (merge_maps (mms a0))]
  | FMergeMapsWithSkip => [VM (merge_maps_skip (mms a0))]
  | FCloneSlice => [VL (clone_slice s)]
  | FCloneMap => [VM (mm a0)]
  | FCloneSliceN => [VLL (clone_slice_n (isnil a0) s (zz a1))]
  | FCloneMapN => [VMM (clone_slice_n (isnil a0) (mm a0) (zz a1))]
  | FCloneSlices => [VLL (clone_slices (ll a0))]
  | FCloneMaps => [VMM (clone_slices (mms a0))]
  | FConvertSliceToBatches => [VLL (batches s (zz a1))]
  (* the order of the keys/values is the map's iteration order: the harness reports the concatenation
     sorted, and the batch lengths *)
  | FConvertMapKeysToBatches =>
      let b := batches (mkeys (mm a0)) (zz a1) in [VL (merge_slices b); VL (map (fun x => Z.of_nat (length x)) b)]
  | FConvertMapValuesToBatches =>
      let b := batches (mvals (mm a0)) (zz a1) in
      [VL (sort_by (fun v => v) false (merge_slices b)); VL (map (fun x => Z.of_nat (length x)) b)]
  | FConvertSliceToAny => [VL s]
  | FConvertSliceToIndexMap => [VM (index_map s)]
  | FConvertSliceToIndexOnlyMap => [VL (map Z.of_nat (seq 0 (length s)))]
  | FConvertSliceToMap => [VL (mkeys (set_of s))]
  | FConvertSliceToBoolMap => [VM (set_of s)]
  | FConvertMapKeysToSlice => [VL (mkeys (mm a0))]
  | FConvertMapValuesToBoolMap => [VL (mkeys (mm a0))]
  | FConvertMapValuesToSlice => [VL (sort_by (fun v => v) false (mvals (mm a0)))]
  | FInvertMap => [VM (invert_map (mm a0))]
  | FConvertMapValuesToBool => [VL (mkeys (mm a0))]
  | FEqualSlice => [VB (equal_slice (cmpk (zz a2)) s (lz a1))]
  | FEqualComparableSlice => [VB (equal_slice Z.eqb s (lz a1))]
  | FEqualMap => [VB (equal_map (cmpk (zz a2)) (mm a0) (mm a1))]
  | FEqualComparableMap => [VB (equal_map Z.eqb (mm a0) (mm a1))]
  | FInSlice => [VB (in_slice (cmpk (zz a2)) s (zz a1))]
  | FInComparableSlice => [VB (in_slice Z.eqb s (zz a1))]
  | FAllInSlice => [VB (all_in_slice (cmpk (zz a2)) s (lz a1))]
  | FAllInComparableSlice => [VB (all_in_slice Z.eqb s (lz a1))]
  | FAnyInSlice => [VB (any_in_slice (cmpk (zz a2)) s (lz a1))]
  | FAnyInComparableSlice => [VB (any_in_slice Z.eqb s (lz a1))]
  | FInSlices => [VB (in_slices (cmpk (zz a2)) (ll a0) (zz a1))]
  | FInComparableSlices => [VB (in_slices Z.eqb (ll a0) (zz a1))]
  | FAllInSlices => [VB (all_in_slices (cmpk (zz a2)) (ll a0) (lz a1))]
  | FAllInComparableSlices => [VB (all_in_slices Z.eqb (ll a0) (lz a1))]
  | FAnyInSlices => [VB (any_in_slices (cmpk (zz a2)) (ll a0) (lz a1))]
  | FAnyInComparableSlices => [VB (any_in_slices Z.eqb (ll a0) (lz a1))]
  | FInAllSlices => [VB (in_all_slices (cmpk (zz a2)) (ll a0) (zz a1))]
  | FInAllComparableSlices => [VB (in_all_slices Z.eqb (ll a0) (zz a1))]
  | FAnyInAllSlices => [VB (any_in_all_slices (cmpk (zz a2)) (ll a0) (lz a1))]
  | FAnyInAllComparableSlices => [VB (any_in_all_slices Z.eqb (ll a0) (lz a1))]
  | FKeyInMap => [VB (mhas (zz a1) (mm a0))]
  | FValueInMap => [VB (value_in_map (cmpk (zz a2)) (mm a0) (zz a1))]
  | FAllKeyInMap => [VB (all_key_in_map (mm a0) (lz a1))]
  | FAllValueInMap => [VB (all_value_in_map (cmpk (zz a2)) (mm a0) (lz a1))]
  | FAnyKeyInMap => [VB (any_key_in_map (mm a0) (lz a1))]
  | FAnyValueInMap => [VB (any_value_in_map (cmpk (zz a2)) (mm a0) (lz a1))]
  | FAllKeyInMaps => [VB (nonempty_and (mms a0) (forallb (fun m => all_key_in_map m (lz a1)) (mms a0)))]
  | FAllValueInMaps => [VB (nonempty_and (mms a0) (forallb (fun m => all_value_in_map (cmpk (zz a2)) m (lz a1)) (mms a0)))]
  | FAnyKeyInMaps => [VB (nonempty_and (mms a0) (existsb (fun m => any_key_in_map m (lz a1)) (mms a0)))]
  (* as written (and as pinned by the package's tests): EVERY map must contain some value *)
  | FAnyValueInMaps => [VB (nonempty_and (mms a0) (forallb (fun m => any_value_in_map (cmpk (zz a2)) m (lz a1)) (mms a0)))]
  | FKeyInAllMaps => [VB (nonempty_and (mms a0) (forallb (fun m => mhas (zz a1) m) (mms a0)))]
  | FAnyKeyInAllMaps => [VB (nonempty_and (mms a0) (forallb (fun m => any_key_in_map m (lz a1)) (mms a0)))]
  | FFindLoopedNextInSlice => pairv (looped_next s (zz a1))
  | FFindLoopedPrevInSlice => pairv (looped_prev s (zz a1))
  | FFindCombinationsInSliceByRange => [VLL (combinations s (zz a1) (zz a2))]
  | FFindFirstOrDefaultInSlice => [VZ (match s with [] => zz a1 | x :: _ => x end)]
  | FFindOrDefaultInSlice => [VZ (find_or_default (predk (zz a2) (zz a3)) s (zz a1))]
  | FFindOrDefaultInComparableSlice => [VZ (find_or_default (Z.eqb (zz a1)) s (zz a2))]
  | FFindInSlice => pairv (find_in_slice (predk (zz a1) (zz a2)) s)
  | FFindIndexInSlice => [VZ (fst (find_in_slice (predk (zz a1) (zz a2)) s))]
  | FFindInComparableSlice => pairv (find_in_slice (Z.eqb (zz a1)) s)
  | FFindIndexInComparableSlice => [VZ (fst (find_in_slice (Z.eqb (zz a1)) s))]
  | FFindMinimumInComparableSlice => [VZ (find_min (fun v => v) 0%Z s)]
  | FFindMinimumInSlice => [VZ (find_min (keyk (zz a1)) 0%Z s)]
  | FFindMaximumInComparableSlice => [VZ (find_max (fun v => v) 0%Z s)]
  | FFindMaximumInSlice => [VZ (find_max (keyk (zz a1)) 0%Z s)]
  | FFindMin2MaxInComparableSlice => [VZ (find_min (fun v => v) 0%Z s); VZ (find_max (fun v => v) 0%Z s)]
  | FFindMin2MaxInSlice => [VZ (find_min (keyk (zz a1)) 0%Z s); VZ (find_max (keyk (zz a1)) 0%Z s)]
  | FFindMinFromComparableMap => [VZ (find_min_map (fun v => v) (mm a0))]
  | FFindMinFromMap => [VZ (find_min_map (keyk (zz a1)) (mm a0))]
  | FFindMaxFromComparableMap => [VZ (find_max_map (fun v => v) (mm a0))]
  | FFindMaxFromMap => [VZ (find_max_map (keyk (zz a1)) (mm a0))]
  | FFindMin2MaxFromComparableMap | FFindMin2MaxFromMap =>
      [VZ (find_min_map (fun v => v) (mm a0)); VZ (find_max_map (fun v => v) (mm a0))]
  | FIsFirst => [VB (match s with [] => false | x :: _ => (x =? zz a1)%Z end)]
  | FLoopSlice => [VM (loop_from (contk (zz a1) (zz a2)) 0 s)]
  | FReverseLoopSlice => [VM (reverse_loop_slice (contk (zz a1) (zz a2)) s)]
  | FLoopMapByOrderedKeyAsc => [VM (loop_pairs (contk (zz a1) (zz a2)) false 0 (keys_sorted_by fst false (mm a0)))]
  | FLoopMapByOrderedKeyDesc => [VM (loop_pairs (contk (zz a1) (zz a2)) false 0 (keys_sorted_by fst true (mm a0)))]
  | FLoopMapByOrderedValueAsc => [VM (loop_pairs (contk (zz a1) (zz a2)) false 0 (keys_sorted_by snd false (mm a0)))]
  | FLoopMapByOrderedValueDesc => [VM (loop_pairs (contk (zz a1) (zz a2)) false 0 (keys_sorted_by snd true (mm a0)))]
  | FLoopMapByKeyGetterAsc =>
      [VM (loop_pairs (contk (zz a1) (zz a2)) false 0 (keys_sorted_by (fun kv => keyk (zz a3) (fst kv)) false (mm a0)))]
  | FLoopMapByKeyGetterDesc =>
      [VM (loop_pairs (contk (zz a1) (zz a2)) false 0 (keys_sorted_by (fun kv => keyk (zz a3) (fst kv)) true (mm a0)))]
  | FLoopMapByValueGetterAsc =>
      [VM (loop_pairs (contk (zz a1) (zz a2)) false 0 (keys_sorted_by (fun kv => keyk (zz a3) (snd kv)) false (mm a0)))]
  | FLoopMapByValueGetterDesc =>
      [VM (loop_pairs (contk (zz a1) (zz a2)) false 0 (keys_sorted_by (fun kv => keyk (zz a3) (snd kv)) true (mm a0)))]
  (* items = (index :: dependencies) each; a1 = iteration order of the node map (see TopoModel) *)
  | FTopologicalSort =>
      match topo (map (fun l => match l with [] => (0%Z, []) | x :: d => (x, d) end) (ll a0)) (lz a1) with
      | TOk l => [VB true; VL l]
      | TErr => [VB false; VL []]
      | TOutOfFuel => [VBad]
      end
  (* checkers: the last argument is the implementation's result; the expected verdict is [true] *)
  | FChooseRandomSliceElementN => [VB (distinct_members s (lz a2) && (Z.of_nat (length (lz a2)) =? zz a1)%Z)]
  | FChooseRandomIndexN => [VB (distinct_indices (length s) (lz a2) && (Z.of_nat (length (lz a2)) =? zz a1)%Z)]
  | FChooseRandomMapKeyN => [VB (distinct_members (mkeys (mm a0)) (lz a2) && (Z.of_nat (length (lz a2)) =? zz a1)%Z)]
  | FChooseRandomMapValueN => [VB (distinct_members (mvals (mm a0)) (lz a2) && (Z.of_nat (length (lz a2)) =? zz a1)%Z)]
  | FChooseRandomMapKeyAndValueN =>
      [VB (nodupb (mkeys (mm a2)) && forallb (fun kv => match mget (fst kv) (mm a0) with Some v => (v =? snd kv)%Z | None => false end) (mm a2)
           && (Z.of_nat (length (mm a2)) =? zz a1)%Z)]
  | FShuffle | FShuffleByClone => [VB (perm_check s (lz a1))]
  | _ => match inplace f a with Some (r, _) => [VL r] | None => [VBad] end
  end.

(* the arguments as they are after the call: only the in-place helpers rewrite (their first) argument *)
Definition final_args (f : fn) (a : list val) : list val :=
  match f with
  | FClearMap => (if isnil (arg 0 a) then VNil else VM []) :: tl a
  | _ => match inplace f a with
         | Some (_, b) => (if isnil (arg 0 a) then VNil else VL b) :: tl a
         | None => a
         end
  end.

Definition run (f : fn) (a : list val) : list val := results f a ++ final_args f a.
