(* MV.C17.DedupProofs — laws of the four de-duplication helpers (duplicate.go). *)
From Coq Require Import SetoidList Morphisms RelationClasses.
From MV Require Import Lib.ListX C17.CollModel.
Open Scope nat_scope.

Section Dedup.
  Variable A : Type.
  Variable cmp : A -> A -> bool.
  Variable R : A -> A -> Prop.
  Hypothesis R_equiv : Equivalence R.
  Hypothesis cmp_spec : forall a b, cmp a b = true <-> R a b.

  (* "the first occurrence of every distinct element, in order, and nothing else":
     [FirstOcc p s r] — r is what remains of s when every element that is related to an element of p
     or to an earlier element of s is struck out. *)
  Inductive FirstOcc : list A -> list A -> list A -> Prop :=
  | FO_nil : forall p, FirstOcc p [] []
  | FO_keep : forall p x t r, (forall y, In y p -> ~ R y x) -> FirstOcc (p ++ [x]) t r -> FirstOcc p (x :: t) (x :: r)
  | FO_skip : forall p x t r, (exists y, In y p /\ R y x) -> FirstOcc (p ++ [x]) t r -> FirstOcc p (x :: t) r.

  Lemma existsb_cmp_InA x l : existsb (cmp x) l = true <-> InA R x l.
  Proof.
    rewrite existsb_exists, InA_alt. split; intros [y [H1 H2]]; exists y.
    - split; [apply cmp_spec; exact H2 | exact H1].
    - split; [exact H2 | apply cmp_spec; exact H1].
  Qed.

  Lemma InA_app_single z p x : InA R z (p ++ [x]) <-> InA R z p \/ R z x.
  Proof.
    rewrite InA_app_iff. split.
    - intros [H|H]; [left; exact H|]. inversion H as [? ? H1|? ? H1]; subst; [right; exact H1|inversion H1].
    - intros [H|H]; [left; exact H|right; constructor; exact H].
  Qed.

  Lemma dedup_acc_spec s : forall p r,
    (forall x, InA R x r <-> InA R x p) ->
    exists r', dedup_acc cmp s r = r ++ r' /\ FirstOcc p s r'.
  Proof.
    induction s as [|x t IH]; intros p r Hrep; cbn [dedup_acc].
    - exists []. split; [rewrite app_nil_r; reflexivity | constructor].
    - destruct (existsb (cmp x) r) eqn:E.
      + apply existsb_cmp_InA in E. apply Hrep in E.
        destruct (IH (p ++ [x]) r) as [r' [H1 H2]].
        { intros z. rewrite InA_app_single, Hrep. split; intros H; auto.
          destruct H as [H|H]; auto. rewrite H. exact E. }
        exists r'. split; [exact H1|]. apply FO_skip; [|exact H2].
        apply InA_alt in E. destruct E as [y [Hy Hin]]. exists y. split; [exact Hin|symmetry; exact Hy].
      + assert (Hn : ~ InA R x p).
        { intros H. apply Hrep in H. apply existsb_cmp_InA in H. congruence. }
        destruct (IH (p ++ [x]) (r ++ [x])) as [r' [H1 H2]].
        { intros z. rewrite !InA_app_single, Hrep. reflexivity. }
        exists (x :: r'). split; [rewrite H1, <- app_assoc; reflexivity|].
        apply FO_keep; [|exact H2].
        intros y Hy Hr. apply Hn. apply InA_alt. exists y. split; [symmetry; exact Hr|exact Hy].
  Qed.

  Lemma dedup_acc_first_occ s : FirstOcc [] s (dedup_acc cmp s []).
  Proof.
    destruct (dedup_acc_spec s [] []) as [r' [H1 H2]]; [reflexivity|].
    rewrite H1. exact H2.
  Qed.

  (* DeduplicateSlice / DeduplicateSliceWithCompare keep exactly the first occurrences, in order *)
  Theorem dedup_copy_first_occ s : FirstOcc [] s (dedup_copy cmp s).
  Proof.
    unfold dedup_copy. destruct (Nat.ltb_spec (length s) 2) as [H|H]; [|apply dedup_acc_first_occ].
    destruct s as [|x [|y t]]; cbn [length] in H; try lia.
    - constructor.
    - apply FO_keep; [intros y []|constructor].
  Qed.

  (* consequences of FirstOcc: no two kept elements are related, every kept element is an element of the
     input, every element of the input is related to a kept one, the order of the input is kept *)
  Inductive Subseq : list A -> list A -> Prop :=
  | SS_nil : Subseq [] []
  | SS_keep : forall x r t, Subseq r t -> Subseq (x :: r) (x :: t)
  | SS_skip : forall x r t, Subseq r t -> Subseq r (x :: t).

  Lemma first_occ_facts p s r : FirstOcc p s r ->
    (forall x, In x r -> In x s /\ ~ InA R x p) /\
    NoDupA R r /\
    (forall x, In x s -> InA R x p \/ InA R x r) /\
    Subseq r s.
  Proof.
    induction 1 as [p | p x t r Hnew Hfo IH | p x t r Hold Hfo IH].
    - split; [intros x []|split; [constructor|split; [intros x []|constructor]]].
    - destruct IH as [I1 [I2 [I3 I4]]]. split; [|split; [|split]].
      + intros x0 H. split.
        { destruct H as [H|H]; [subst; left; reflexivity|]. right. apply (I1 _ H). }
        destruct H as [H|H].
        * subst x0. intros Hin. apply InA_alt in Hin. destruct Hin as [y [Hr Hy]].
          apply (Hnew y Hy). symmetry. exact Hr.
        * intros Hin. destruct (I1 _ H) as [_ Hn]. apply Hn. apply InA_app_single. left. exact Hin.
      + constructor; [|exact I2].
        intros Hin. apply InA_alt in Hin. destruct Hin as [y [Hr Hy]].
        destruct (I1 _ Hy) as [_ Hn]. apply Hn. apply InA_app_single. right. symmetry. exact Hr.
      + intros z [Hz|Hz].
        * subst z. right. constructor. reflexivity.
        * destruct (I3 _ Hz) as [H|H]; [|right; constructor 2; exact H].
          apply InA_app_single in H. destruct H as [H|H]; [left; exact H|right; constructor; exact H].
      + constructor. exact I4.
    - destruct IH as [I1 [I2 [I3 I4]]]. destruct Hold as [y [Hy Hr]]. split; [|split; [|split]].
      + intros x0 H. split.
        { right. apply (I1 _ H). }
        intros Hin. destruct (I1 _ H) as [_ Hn]. apply Hn. apply InA_app_single. left. exact Hin.
      + exact I2.
      + intros z [Hz|Hz].
        * subst z. left. apply InA_alt. exists y. split; [symmetry; exact Hr|exact Hy].
        * destruct (I3 _ Hz) as [H|H]; [|right; exact H].
          apply InA_app_single in H. destruct H as [H|H]; [left; exact H|].
          left. apply InA_alt. exists y. split; [|exact Hy]. rewrite H. symmetry. exact Hr.
      + constructor. exact I4.
  Qed.

  Theorem dedup_copy_laws s :
    NoDupA R (dedup_copy cmp s) /\
    (forall x, In x (dedup_copy cmp s) -> In x s) /\
    (forall x, In x s -> InA R x (dedup_copy cmp s)) /\
    Subseq (dedup_copy cmp s) s.
  Proof.
    destruct (first_occ_facts _ _ _ (dedup_copy_first_occ s)) as [I1 [I2 [I3 I4]]].
    split; [exact I2|split; [|split; [|exact I4]]].
    - intros x H. apply (I1 _ H).
    - intros x Hx. destruct (I3 _ Hx) as [H|H]; [inversion H|exact H].
  Qed.

  (* FirstOcc determines its result: the law has exactly one solution *)
  Lemma first_occ_unique p s r1 : FirstOcc p s r1 -> forall r2, FirstOcc p s r2 -> r1 = r2.
  Proof.
    induction 1 as [p | p x t r Hnew Hfo IH | p x t r Hold Hfo IH]; intros r2 H2; inversion H2; subst.
    - reflexivity.
    - f_equal. apply IH. assumption.
    - exfalso. destruct H3 as [y [Hy Hr]]. apply (Hnew y Hy Hr).
    - exfalso. destruct Hold as [y [Hy Hr]]. apply (H3 y Hy Hr).
    - apply IH. assumption.
  Qed.

  (* ---------- in-place variants: read cursor i, write cursor w over the backing array ---------- *)
  Lemma nth_error_skipn_cons (b : list A) i v : nth_error b i = Some v -> skipn i b = v :: skipn (S i) b.
  Proof.
    revert i; induction b as [|h t IH]; intros [|i] H; cbn in *; try discriminate.
    - inversion H; reflexivity.
    - apply IH. exact H.
  Qed.

  Lemma nth_error_upd_other (b : list A) w j v : w <> j -> nth_error (upd w v b) j = nth_error b j.
  Proof.
    revert w j; induction b as [|h t IH]; intros [|w] [|j] H; cbn; auto; try lia.
  Qed.

  (* two lists of equal length that agree from w on have equal suffixes *)
  Lemma suffix_agree (b : list A) : forall s w,
    (forall j, w <= j -> nth_error b j = nth_error s j) -> length b = length s -> skipn w b = skipn w s.
  Proof.
    induction b as [|x b IH]; intros [|y s] w H5 H2; cbn in H2; try discriminate.
    - destruct w; reflexivity.
    - destruct w as [|w].
      + cbn [skipn]. f_equal.
        * specialize (H5 0 (Nat.le_0_l _)). cbn in H5. congruence.
        * specialize (IH s 0). cbn [skipn] in IH. apply IH; [|lia].
          intros j _. apply (H5 (S j)). lia.
      + cbn [skipn]. apply IH; [|lia]. intros j Hj. apply (H5 (S j)). lia.
  Qed.

  Lemma ipc_loop_spec n : forall i w b b' w',
    w <= i -> i + n = length b ->
    dedup_ipc_loop cmp n i w b = (b', w') ->
    firstn w' b' = dedup_acc cmp (skipn i b) (firstn w b) /\ length b' = length b /\ w <= w' /\ w' <= length b /\
    (forall j, w' <= j -> nth_error b' j = nth_error b j).
  Proof.
    induction n as [|n IH]; intros i w b b' w' Hwi Hlen Hrun; cbn [dedup_ipc_loop] in Hrun.
    - inversion Hrun; subst. rewrite skipn_all2 by lia. cbn. repeat split; auto; lia.
    - destruct (nth_error b i) as [v|] eqn:Hv.
      2:{ apply nth_error_None in Hv. lia. }
      rewrite (nth_error_skipn_cons _ _ _ Hv). cbn [dedup_acc].
      destruct (existsb (cmp v) (firstn w b)) eqn:E.
      + apply IH in Hrun; [|lia|lia]. exact Hrun.
      + apply IH in Hrun; [|lia|rewrite upd_length; lia].
        rewrite upd_length in Hrun. destruct Hrun as [H1 [H2 [H3 [H4 H5]]]].
        rewrite firstn_S_upd in H1 by lia. rewrite skipn_upd_gt in H1 by lia.
        repeat split; auto; try lia.
        intros j Hj. rewrite H5 by exact Hj. apply nth_error_upd_other. lia.
  Qed.

  (* DeduplicateSliceInPlaceWithCompare (repaired) returns what the copying variant returns; the backing array
     keeps its length, and the part of it behind the result is not written to *)
  Theorem dedup_inplace_cmp_agrees s :
    fst (dedup_inplace_cmp cmp s) = dedup_copy cmp s /\
    length (snd (dedup_inplace_cmp cmp s)) = length s /\
    skipn (length (dedup_copy cmp s)) (snd (dedup_inplace_cmp cmp s)) = skipn (length (dedup_copy cmp s)) s.
  Proof.
    unfold dedup_inplace_cmp, dedup_copy. destruct (length s <? 2) eqn:E; [cbn; auto|].
    destruct (dedup_ipc_loop cmp (length s) 0 0 s) as [b w] eqn:Hrun.
    apply ipc_loop_spec in Hrun; [|lia|lia]. cbn [fst snd].
    destruct Hrun as [H1 [H2 [H3 [H4 H5]]]]. cbn [skipn firstn] in H1.
    repeat split; auto.
    rewrite <- H1. rewrite firstn_length, Nat.min_l by lia.
    apply suffix_agree; [exact H5|exact H2].
  Qed.

End Dedup.

(* DeduplicateSliceInPlace keeps the set of seen values in a Go map; with [seen] equal to the kept prefix the two
   in-place loops coincide *)
Lemma ipm_loop_eq {A} (eqb : A -> A -> bool) n : forall i w b,
  w <= i -> i + n = length b ->
  dedup_ipm_loop eqb n i w b (firstn w b) = dedup_ipc_loop eqb n i w b.
Proof.
  induction n as [|n IH]; intros i w b Hwi Hlen; cbn [dedup_ipm_loop dedup_ipc_loop]; [reflexivity|].
  destruct (nth_error b i) as [v|] eqn:Hv; [|reflexivity].
  destruct (existsb (eqb v) (firstn w b)) eqn:E.
  - apply IH; lia.
  - assert (Hlt : i < length b) by (apply nth_error_Some; congruence).
    rewrite <- (firstn_S_upd w v b) by lia. apply IH; [lia|rewrite upd_length; lia].
Qed.

Theorem dedup_inplace_map_eq {A} (eqb : A -> A -> bool) (s : list A) :
  dedup_inplace_map eqb s = dedup_inplace_cmp eqb s.
Proof.
  unfold dedup_inplace_map, dedup_inplace_cmp. destruct (length s <? 2); [reflexivity|].
  rewrite <- (ipm_loop_eq eqb (length s) 0 0 s) by lia. reflexivity.
Qed.

(* the comparable variants (==): no duplicates, the same elements, in-place agrees with copying *)
Lemma NoDupA_eq_NoDup {A} (l : list A) : NoDupA eq l -> NoDup l.
Proof.
  induction 1 as [|x l Hn Hd IH]; constructor; [|exact IH].
  intros Hin. apply Hn. apply InA_alt. exists x. split; [reflexivity|exact Hin].
Qed.

Theorem dedup_comparable_laws (s : list Z) :
  NoDup (dedup_copy Z.eqb s) /\ (forall x, In x (dedup_copy Z.eqb s) <-> In x s) /\
  fst (dedup_inplace_map Z.eqb s) = dedup_copy Z.eqb s.
Proof.
  destruct (dedup_copy_laws Z Z.eqb eq _ Z.eqb_eq s) as [H1 [H2 [H3 _]]].
  split; [apply NoDupA_eq_NoDup; exact H1|split].
  - intros x. split; [apply H2|]. intros Hx. apply H3 in Hx. apply InA_alt in Hx. destruct Hx as [y [-> Hy]]. exact Hy.
  - rewrite dedup_inplace_map_eq. apply (dedup_inplace_cmp_agrees Z Z.eqb s).
Qed.
