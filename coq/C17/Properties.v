(* MV.C17.Properties — the statements of property C17 ("collection helpers obey their defining laws and leave
   inputs alone") and nothing else.  Every theorem is closed by [exact <lemma>] and followed by Print Assumptions.
   The functions named here are the executable models of CollModel.v / TopoModel.v / ChooseModel.v, each of which
   follows the algorithm of the Go helper of the same name and is compared with it on every run (harness c17coll).
   Comparison callbacks are arbitrary: [cmp] with an equivalence [R] it decides. *)
From Coq Require Import SetoidList RelationClasses Sorting.Sorted Sorting.Permutation Relation_Operators.
From MV Require Import Lib.ListX C17.TopoModel C17.ChooseModel C17.CollModel.
From MV Require Import C17.DedupProofs C17.SliceProofs C17.FindProofs C17.MapProofs C17.ChooseProofs C17.TopoProofs C17.RunProofs.
Open Scope nat_scope.

(* ================================================================== de-duplication (duplicate.go) *)

(* DeduplicateSlice / DeduplicateSliceWithCompare keep the first occurrence of every distinct element, in order, and
   nothing else: FirstOcc R p s r strikes out of s every element related to a member of p or to an earlier element. *)
Theorem C17_dedup_first_occurrences :
  forall (A : Type) (cmp : A -> A -> bool) (R : A -> A -> Prop),
    Equivalence R -> (forall a b, cmp a b = true <-> R a b) ->
    forall s, FirstOcc A R [] s (dedup_copy cmp s).
Proof. exact dedup_copy_first_occ. Qed.
Print Assumptions C17_dedup_first_occurrences.

(* that law has exactly one solution *)
Theorem C17_dedup_first_occurrences_unique :
  forall (A : Type) (R : A -> A -> Prop) (p s r1 : list A),
    FirstOcc A R p s r1 -> forall r2, FirstOcc A R p s r2 -> r1 = r2.
Proof. exact first_occ_unique. Qed.
Print Assumptions C17_dedup_first_occurrences_unique.

(* consequences: no two results are related, nothing is invented, nothing is lost, the order is the input's *)
Theorem C17_dedup_nodup_same_elements :
  forall (A : Type) (cmp : A -> A -> bool) (R : A -> A -> Prop),
    Equivalence R -> (forall a b, cmp a b = true <-> R a b) ->
    forall s,
      NoDupA R (dedup_copy cmp s) /\
      (forall x, In x (dedup_copy cmp s) -> In x s) /\
      (forall x, In x s -> InA R x (dedup_copy cmp s)) /\
      DedupProofs.Subseq A (dedup_copy cmp s) s.
Proof. exact dedup_copy_laws. Qed.
Print Assumptions C17_dedup_nodup_same_elements.

(* DeduplicateSliceInPlaceWithCompare (as repaired by fixes/C17-dedup-inplace.patch) agrees with the copying variant,
   for every callback; the backing array keeps its length and is not written to behind the result *)
Theorem C17_dedup_inplace_agrees :
  forall (A : Type) (cmp : A -> A -> bool) (s : list A),
    fst (dedup_inplace_cmp cmp s) = dedup_copy cmp s /\
    length (snd (dedup_inplace_cmp cmp s)) = length s /\
    skipn (length (dedup_copy cmp s)) (snd (dedup_inplace_cmp cmp s)) = skipn (length (dedup_copy cmp s)) s.
Proof. exact dedup_inplace_cmp_agrees. Qed.
Print Assumptions C17_dedup_inplace_agrees.

(* DeduplicateSliceInPlace (set of seen values in a map) computes the same as the compare variant with == *)
Theorem C17_dedup_inplace_map_agrees :
  forall (A : Type) (eqb : A -> A -> bool) (s : list A), dedup_inplace_map eqb s = dedup_inplace_cmp eqb s.
Proof. exact @dedup_inplace_map_eq. Qed.
Print Assumptions C17_dedup_inplace_map_agrees.

(* the comparable variants on int64: NoDup, the same elements, in place = copying *)
Theorem C17_dedup_comparable :
  forall s : list Z,
    NoDup (dedup_copy Z.eqb s) /\ (forall x, In x (dedup_copy Z.eqb s) <-> In x s) /\
    fst (dedup_inplace_map Z.eqb s) = dedup_copy Z.eqb s.
Proof. exact dedup_comparable_laws. Qed.
Print Assumptions C17_dedup_comparable.

Example C17_dedup_example :
  dedup_inplace_cmp Z.eqb [1; 1; 2; 3; 2]%Z = ([1; 2; 3], [1; 2; 3; 3; 2])%Z /\
  dedup_copy (cmpk 2) [1; 2; 3; 4]%Z = [1; 2]%Z.
Proof. vm_compute. split; reflexivity. Qed.

(* ================================================================== sort (sort.go) *)

(* Asc / Desc / AscByClone / DescByClone: sorted by the key in the requested direction, and a rearrangement of the input *)
Theorem C17_sort_sorted_permutation :
  forall (A : Type) (key : A -> Z) (desc : bool) (s : list A),
    StronglySorted (fun a b => if desc then (key b <= key a)%Z else (key a <= key b)%Z) (sort_by key desc s) /\
    Permutation s (sort_by key desc s).
Proof. exact SliceProofs.sort_by_spec. Qed.
Print Assumptions C17_sort_sorted_permutation.

(* and the sort is stable (elements with equal keys keep their order), so the result is determined uniquely *)
Theorem C17_sort_stable :
  forall (A : Type) (key : A -> Z) (desc : bool) (s : list A) (k : Z),
    filter (fun a => (key a =? k)%Z) (sort_by key desc s) = filter (fun a => (key a =? k)%Z) s.
Proof. exact sort_by_stable. Qed.
Print Assumptions C17_sort_stable.

Theorem C17_sort_inplace_agrees :
  forall (A : Type) (key : A -> Z) (desc : bool) (s : list A),
    fst (sort_inplace key desc s) = sort_by key desc s /\ snd (sort_inplace key desc s) = fst (sort_inplace key desc s).
Proof. exact sort_inplace_spec. Qed.
Print Assumptions C17_sort_inplace_agrees.

Example C17_sort_example : sort_by (keyk 2) true [1; -3; 2; 3]%Z = [-3; 3; 2; 1]%Z.
Proof. vm_compute. reflexivity. Qed.

(* ================================================================== drop / filter (drop.go, filter.go) *)

(* the in-place compaction loop shared by the Drop* helpers: the positional filter of the slice; the backing array keeps
   its length and is untouched behind the result *)
Theorem C17_drop_compaction :
  forall (A : Type) (keep : nat -> A -> bool) (s : list A),
    fst (compact keep s) = filter_idx keep 0 s /\
    length (snd (compact keep s)) = length s /\
    skipn (length (fst (compact keep s))) (snd (compact keep s)) = skipn (length (fst (compact keep s))) s.
Proof. exact compact_spec. Qed.
Print Assumptions C17_drop_compaction.

(* DropSliceByCondition and FilterOutByCondition: exactly the elements that do not satisfy the condition, in order *)
Theorem C17_drop_filter_by_condition :
  forall (A : Type) (cond : A -> bool) (s : list A),
    fst (drop_by_condition cond s) = filter (fun v => negb (cond v)) s /\
    filter_out_by_condition cond s = filter (fun v => negb (cond v)) s /\
    length (snd (drop_by_condition cond s)) = length s.
Proof. exact @drop_by_condition_spec. Qed.
Print Assumptions C17_drop_filter_by_condition.

(* DropSliceOverlappingElements: exactly the elements not related to any element of the other slice *)
Theorem C17_drop_overlapping :
  forall (A : Type) (cmp : A -> A -> bool) (s other : list A),
    fst (drop_overlapping cmp s other) = filter (fun v => negb (existsb (cmp v) other)) s /\
    length (snd (drop_overlapping cmp s other)) = length s.
Proof. exact @drop_overlapping_spec. Qed.
Print Assumptions C17_drop_overlapping.

(* DropSliceByIndices and FilterOutByIndices: exactly the elements whose position is not listed, in order; they agree *)
Theorem C17_drop_filter_by_indices :
  forall (s idx : list Z),
    fst (drop_by_indices s idx) = map snd (filter (not_listed idx) (combine (seq 0 (length s)) s)) /\
    filter_out_by_indices s idx = fst (drop_by_indices s idx) /\
    length (snd (drop_by_indices s idx)) = length s.
Proof. exact drop_by_indices_spec. Qed.
Print Assumptions C17_drop_filter_by_indices.

Example C17_drop_example :
  drop_by_indices [10; 20; 30; 40]%Z [2; 0; 9]%Z = ([20; 40], [20; 40; 30; 40])%Z /\
  filter_out_by_condition (predk 1 15) [10; 20; 30; 5]%Z = [10; 5]%Z.
Proof. vm_compute. split; reflexivity. Qed.

(* ================================================================== merge / clone (merge.go, clone.go) *)
Theorem C17_merge_slices_concat : forall (A : Type) (ss : list (list A)), merge_slices ss = concat ss.
Proof. exact @merge_slices_concat. Qed.
Print Assumptions C17_merge_slices_concat.

Theorem C17_clone_slices :
  forall (A : Type) (s : list A) (n : Z) (ss : list (list A)),
    clone_slice s = s /\ clone_slice_n false s n = repeat s (Z.to_nat n) /\ clone_slice_n true s n = [] /\
    clone_slices ss = ss.
Proof.
  exact (fun A s n ss => conj eq_refl (conj (proj1 (clone_slice_n_spec s n)) (conj (proj2 (clone_slice_n_spec s n)) (clone_slices_id ss)))).
Qed.
Print Assumptions C17_clone_slices.

(* MergeMaps: for every key the last map that has it wins; MergeMapsWithSkip: the first one *)
Theorem C17_merge_maps_last_wins :
  forall ms k, Forall wf ms ->
    wf (merge_maps ms) /\
    mget k (merge_maps ms) = fold_left (fun acc m => match mget k m with Some v => Some v | None => acc end) ms None.
Proof. exact merge_maps_spec. Qed.
Print Assumptions C17_merge_maps_last_wins.

Theorem C17_merge_maps_skip_first_wins :
  forall ms k, Forall wf ms ->
    wf (merge_maps_skip ms) /\
    mget k (merge_maps_skip ms) = fold_left (fun acc m => match acc with Some v => Some v | None => mget k m end) ms None.
Proof. exact merge_maps_skip_spec. Qed.
Print Assumptions C17_merge_maps_skip_first_wins.

(* FilterOutByKey(s) / Value(s) / Map: exactly the entries that are not filtered out; still a map *)
Theorem C17_filter_map :
  forall keep m k, wf m ->
    wf (mfilter keep m) /\
    mget k (mfilter keep m) = match mget k m with Some v => if keep k v then Some v else None | None => None end.
Proof. exact mfilter_spec. Qed.
Print Assumptions C17_filter_map.

Example C17_merge_example :
  merge_maps [[(1, 10); (2, 20)]; [(2, 21); (3, 30)]]%Z = [(1, 10); (2, 21); (3, 30)]%Z /\
  merge_maps_skip [[(1, 10); (2, 20)]; [(2, 21); (3, 30)]]%Z = [(1, 10); (2, 20); (3, 30)]%Z.
Proof. vm_compute. split; reflexivity. Qed.

(* ================================================================== batches, reverse (convert.go) *)

(* ConvertSliceToBatches: the batches concatenate to the input, none is empty, none exceeds the size; and there are no
   batches for an empty slice or a non-positive size *)
Theorem C17_batches :
  forall (A : Type) (s : list A) (n : Z),
    (s <> [] -> (0 < n)%Z ->
       concat (batches s n) = s /\ Forall (fun b => 0 < length b /\ (Z.of_nat (length b) <= n)%Z) (batches s n)) /\
    ((s = [] \/ (n <= 0)%Z) -> batches s n = []).
Proof. exact batches_spec. Qed.
Print Assumptions C17_batches.

Theorem C17_reverse_is_rev : forall (A : Type) (s : list A), reverse_inplace s = rev s.
Proof. exact reverse_inplace_rev. Qed.
Print Assumptions C17_reverse_is_rev.

Theorem C17_reverse_involutive : forall (A : Type) (s : list A), reverse_inplace (reverse_inplace s) = s.
Proof. exact reverse_involutive. Qed.
Print Assumptions C17_reverse_involutive.

Example C17_batches_example : batches [1; 2; 3; 4; 5]%Z 2 = [[1; 2]; [3; 4]; [5]]%Z /\ reverse_inplace [1; 2; 3; 4; 5]%Z = [5; 4; 3; 2; 1]%Z.
Proof. vm_compute. split; reflexivity. Qed.

(* ================================================================== equality and membership (contains.go) *)

(* EqualSlice: true exactly for equally long slices with pairwise related elements; reflexive; symmetric *)
Theorem C17_equal_slice_iff :
  forall (A : Type) (cmp : A -> A -> bool) (R : A -> A -> Prop),
    (forall a b, cmp a b = true <-> R a b) ->
    forall s1 s2, equal_slice cmp s1 s2 = true <-> Forall2 R s1 s2.
Proof. exact equal_slice_iff. Qed.
Print Assumptions C17_equal_slice_iff.

Theorem C17_equal_slice_reflexive :
  forall (A : Type) (cmp : A -> A -> bool) (R : A -> A -> Prop),
    Equivalence R -> (forall a b, cmp a b = true <-> R a b) -> forall s, equal_slice cmp s s = true.
Proof. exact equal_slice_refl. Qed.
Print Assumptions C17_equal_slice_reflexive.

Theorem C17_equal_slice_symmetric :
  forall (A : Type) (cmp : A -> A -> bool) (R : A -> A -> Prop),
    Equivalence R -> (forall a b, cmp a b = true <-> R a b) ->
    forall s1 s2, equal_slice cmp s1 s2 = equal_slice cmp s2 s1.
Proof. exact equal_slice_sym. Qed.
Print Assumptions C17_equal_slice_symmetric.

(* EqualComparableSlice distinguishes slices with different contents *)
Theorem C17_equal_comparable_slice_iff : forall s1 s2 : list Z, equal_slice Z.eqb s1 s2 = true <-> s1 = s2.
Proof. exact equal_comparable_slice_iff. Qed.
Print Assumptions C17_equal_comparable_slice_iff.

(* EqualMap (as repaired by fixes/C17-equal-map-missing-key.patch): true exactly for maps with the same keys and related
   values; reflexive; symmetric; EqualComparableMap is true exactly for identical maps *)
Theorem C17_equal_map_iff :
  forall (cmp : Z -> Z -> bool) (R : Z -> Z -> Prop),
    Equivalence R -> (forall a b, cmp a b = true <-> R a b) ->
    forall m1 m2, wf m1 -> wf m2 ->
      (equal_map cmp m1 m2 = true <->
       forall k, match mget k m1, mget k m2 with Some a, Some b => R a b | None, None => True | _, _ => False end).
Proof. exact equal_map_iff. Qed.
Print Assumptions C17_equal_map_iff.

Theorem C17_equal_map_reflexive :
  forall (cmp : Z -> Z -> bool) (R : Z -> Z -> Prop),
    Equivalence R -> (forall a b, cmp a b = true <-> R a b) -> forall m, wf m -> equal_map cmp m m = true.
Proof. exact equal_map_refl. Qed.
Print Assumptions C17_equal_map_reflexive.

Theorem C17_equal_map_symmetric :
  forall (cmp : Z -> Z -> bool) (R : Z -> Z -> Prop),
    Equivalence R -> (forall a b, cmp a b = true <-> R a b) ->
    forall m1 m2, wf m1 -> wf m2 -> equal_map cmp m1 m2 = equal_map cmp m2 m1.
Proof. exact equal_map_sym. Qed.
Print Assumptions C17_equal_map_symmetric.

Theorem C17_equal_comparable_map_iff : forall m1 m2, wf m1 -> wf m2 -> (equal_map Z.eqb m1 m2 = true <-> m1 = m2).
Proof. exact equal_comparable_map_iff. Qed.
Print Assumptions C17_equal_comparable_map_iff.

Example C17_equal_map_example : equal_map Z.eqb [(1, 0)]%Z [(2, 0)]%Z = false /\ equal_map (cmpk 2) [(1, 0); (3, 1)]%Z [(1, 2); (3, 5)]%Z = true.
Proof. vm_compute. split; reflexivity. Qed.

(* InSlice, AllInSlice, AnyInSlice (as written and as pinned by the package's tests: an empty slice contains nothing,
   not even "all of nothing") *)
Theorem C17_in_slice_iff :
  forall (A : Type) (cmp : A -> A -> bool) (R : A -> A -> Prop),
    (forall a b, cmp a b = true <-> R a b) ->
    forall s v, in_slice cmp s v = true <-> exists y, In y s /\ R v y.
Proof. exact in_slice_iff. Qed.
Print Assumptions C17_in_slice_iff.

Theorem C17_all_in_slice_iff :
  forall (A : Type) (cmp : A -> A -> bool) (s vs : list A),
    all_in_slice cmp s vs = true <-> s <> [] /\ forall v, In v vs -> in_slice cmp s v = true.
Proof. exact all_in_slice_iff. Qed.
Print Assumptions C17_all_in_slice_iff.

Theorem C17_any_in_slice_iff :
  forall (A : Type) (cmp : A -> A -> bool) (s vs : list A),
    any_in_slice cmp s vs = true <-> exists v, In v vs /\ in_slice cmp s v = true.
Proof. exact any_in_slice_iff. Qed.
Print Assumptions C17_any_in_slice_iff.

(* ================================================================== find (find.go) *)

(* FindInSlice / FindIndexInSlice / FindOrDefaultInSlice / Find*InComparableSlice: the first match and its index *)
Theorem C17_find_first_match :
  forall (A : Type) (p : A -> bool) (s : list A),
    match find_from p 0 s with
    | Some (j, v) => nth_error s j = Some v /\ p v = true /\ forall k x, k < j -> nth_error s k = Some x -> p x = false
    | None => forall x, In x s -> p x = false
    end.
Proof. exact find_first_match. Qed.
Print Assumptions C17_find_first_match.

(* FindMinimum* / FindMaximum* / FindMin2Max*: a member, extremal for the key, the first of the extremal ones *)
Theorem C17_find_min :
  forall (A : Type) (key : A -> Z) (d : A) (s : list A), s <> [] ->
    exists p q, s = p ++ find_min key d s :: q /\
                (forall y, In y p -> (key (find_min key d s) < key y)%Z) /\
                (forall y, In y q -> (key (find_min key d s) <= key y)%Z).
Proof. exact find_min_spec. Qed.
Print Assumptions C17_find_min.

Theorem C17_find_max :
  forall (A : Type) (key : A -> Z) (d : A) (s : list A), s <> [] ->
    exists p q, s = p ++ find_max key d s :: q /\
                (forall y, In y p -> (key y < key (find_max key d s))%Z) /\
                (forall y, In y q -> (key y <= key (find_max key d s))%Z).
Proof. exact find_max_spec. Qed.
Print Assumptions C17_find_max.

(* FindMinFrom*Map / FindMaxFrom*Map (max as repaired by fixes/C17-find-max-map.patch): a value of the map, extremal;
   the zero value for an empty map *)
Theorem C17_find_min_map :
  forall key m, m <> [] ->
    In (find_min_map key m) (mvals m) /\ forall v, In v (mvals m) -> (key (find_min_map key m) <= key v)%Z.
Proof. exact find_min_map_spec. Qed.
Print Assumptions C17_find_min_map.

Theorem C17_find_max_map :
  forall key m, m <> [] ->
    In (find_max_map key m) (mvals m) /\ forall v, In v (mvals m) -> (key v <= key (find_max_map key m))%Z.
Proof. exact find_max_map_spec. Qed.
Print Assumptions C17_find_max_map.

Example C17_find_max_map_example : find_max_map (fun v => v) [(1, -5); (2, -3)]%Z = (-3)%Z /\ find_min (keyk 2) 0%Z [3; -1; 1]%Z = (-1)%Z.
Proof. vm_compute. split; reflexivity. Qed.

(* FindLoopedNextInSlice / FindLoopedPrevInSlice on their domain (non-empty slice, i < len): the cyclic neighbour *)
Theorem C17_looped_next :
  forall (s : list Z) (i : Z), s <> [] -> (i < Z.of_nat (length s))%Z ->
    let n := Z.of_nat (length s) in
    let r := looped_next s i in
    (0 <= fst r < n)%Z /\ nth_error s (Z.to_nat (fst r)) = Some (snd r) /\
    fst r = (if (i <? 0)%Z then 0 else (i + 1) mod n)%Z.
Proof. exact looped_next_spec. Qed.
Print Assumptions C17_looped_next.

Theorem C17_looped_prev :
  forall (s : list Z) (i : Z), s <> [] -> (i < Z.of_nat (length s))%Z ->
    let n := Z.of_nat (length s) in
    let r := looped_prev s i in
    (0 <= fst r < n)%Z /\ nth_error s (Z.to_nat (fst r)) = Some (snd r) /\
    fst r = (if (i <? 0)%Z then n - 1 else (i - 1) mod n)%Z.
Proof. exact looped_prev_spec. Qed.
Print Assumptions C17_looped_prev.

(* FindCombinationsInSliceByRange: exactly the sub-sequences whose size lies in [lo, hi] *)
Theorem C17_combinations_iff :
  forall (A : Type) (lo hi : Z) (s c : list A),
    In c (combinations s lo hi) <->
    s <> [] /\ (0 < lo)%Z /\ (0 < hi)%Z /\ (lo <= hi)%Z /\ FindProofs.Subseq A c s /\ (lo <= Z.of_nat (length c) <= hi)%Z.
Proof. exact combinations_iff. Qed.
Print Assumptions C17_combinations_iff.

(* ... each set of positions exactly once, in backtracking order: the in-range members of the enumeration [nsub] of all
   2^n - 1 non-empty sub-sequences *)
Theorem C17_combinations_enumeration :
  forall (A : Type) (s : list A) (lo hi : Z), s <> [] -> (0 < lo)%Z -> (lo <= hi)%Z ->
    combinations s lo hi = filter (fun e => in_range_b lo hi (length e)) (nsub s) /\ S (length (nsub s)) = 2 ^ length s.
Proof. exact @combinations_enum. Qed.
Print Assumptions C17_combinations_enumeration.

Example C17_combinations_example : combinations [1; 2; 3]%Z 2 2 = [[1; 2]; [1; 3]; [2; 3]]%Z.
Proof. vm_compute. reflexivity. Qed.

(* ================================================================== loops (loop.go) *)

(* LoopSlice: index order, a prefix that ends with the first element on which the callback returns false *)
Theorem C17_loop_slice :
  forall (f : nat -> Z -> bool) (s : list Z) (i : nat),
    exists n, loop_from f i s = firstn n (indexed_from i s) /\
              (forall j v, j + 1 < n -> nth_error s j = Some v -> f (i + j) v = true) /\
              (n = length s \/ exists v, 0 < n /\ nth_error s (n - 1) = Some v /\ f (i + (n - 1)) v = false).
Proof. exact loop_from_spec. Qed.
Print Assumptions C17_loop_slice.

(* ReverseLoopSlice (the model runs over the reversed slice rl): positions len-1, len-2, ..., likewise *)
Theorem C17_reverse_loop_slice :
  forall (f : nat -> Z -> bool) (rl : list Z),
    exists n, rloop_from f rl = firstn n (combine (map Z.of_nat (rev (seq 0 (length rl)))) rl) /\
              (forall j v, j + 1 < n -> nth_error rl j = Some v -> f (length rl - 1 - j) v = true) /\
              (n = length rl \/ exists v, 0 < n /\ nth_error rl (n - 1) = Some v /\ f (length rl - n) v = false).
Proof. exact rloop_from_spec. Qed.
Print Assumptions C17_reverse_loop_slice.

(* LoopMapByOrdered{Key,Value}{Asc,Desc}, LoopMapBy{Key,Value}Getter{Asc,Desc} (ByOrderedValue as repaired by
   fixes/C17-loop-by-value.patch): the sequence offered to the callback is a rearrangement of the map's own entries,
   sorted by the sort key in the requested direction ... *)
Theorem C17_ordered_loop_order :
  forall key desc m,
    Permutation m (keys_sorted_by key desc m) /\
    StronglySorted (fun a b => if desc then (key b <= key a)%Z else (key a <= key b)%Z) (keys_sorted_by key desc m).
Proof. exact keys_sorted_by_spec. Qed.
Print Assumptions C17_ordered_loop_order.

(* ... and it is visited as a prefix that ends with the first entry on which the callback returns false *)
Theorem C17_ordered_loop_stops :
  forall f (on_key : bool) l,
    let sel := fun (kv : Z * Z) => if on_key then fst kv else snd kv in
    exists n, loop_pairs f on_key 0 l = firstn n l /\
              (forall j kv, j + 1 < n -> nth_error l j = Some kv -> f j (sel kv) = true) /\
              (n = length l \/ exists kv, nth_error l (n - 1) = Some kv /\ f (n - 1) (sel kv) = false /\ 0 < n).
Proof. exact loop_pairs_spec. Qed.
Print Assumptions C17_ordered_loop_stops.

Example C17_loop_example :
  loop_pairs (contk (-1) 15) false 0 (keys_sorted_by snd true [(1, 10); (2, 20); (3, 15)]%Z) = [(2, 20); (3, 15)]%Z.
Proof. vm_compute. reflexivity. Qed.

(* ================================================================== converters (convert.go) *)
Theorem C17_index_map : forall s i, wf (index_map s) /\ mget (Z.of_nat i) (index_map s) = nth_error s i.
Proof. exact index_map_spec. Qed.
Print Assumptions C17_index_map.

Theorem C17_set_of_slice : forall s k, wf (set_of s) /\ (mhas k (set_of s) = true <-> In k s).
Proof. exact set_of_spec. Qed.
Print Assumptions C17_set_of_slice.

Theorem C17_invert_map :
  forall m, wf m -> NoDup (mvals m) ->
    wf (invert_map m) /\ forall k v, mget v (invert_map m) = Some k <-> mget k m = Some v.
Proof. exact invert_map_spec. Qed.
Print Assumptions C17_invert_map.

(* ================================================================== topological sort (topological.go) *)

(* (as repaired by fixes/C17-topological-cycle.patch)  For every iteration order of the node map: a successful result is
   a rearrangement of the items in which every item precedes each of its (existing) dependencies *)
Theorem C17_topo_respects :
  forall items order l,
    NoDup (ids items) -> order_ok items order -> topo items order = TOk l ->
    Permutation l (ids items) /\ forall x d, dep_edge items x d -> precedes x d l.
Proof. exact topo_respects. Qed.
Print Assumptions C17_topo_respects.

(* the error is returned exactly when the dependencies contain a cycle (a self-dependency included) *)
Theorem C17_topo_reports_cycles :
  forall items order,
    NoDup (ids items) -> order_ok items order ->
    (topo items order = TErr <-> exists x, clos_trans Z (dep_edge items) x x).
Proof. exact topo_reports_cycles. Qed.
Print Assumptions C17_topo_reports_cycles.

(* the recursion fuel of the model never runs out *)
Theorem C17_topo_fuel_suffices :
  forall items order, NoDup (ids items) -> order_ok items order -> topo items order <> TOutOfFuel.
Proof. exact topo_fuel_suffices. Qed.
Print Assumptions C17_topo_fuel_suffices.

(* the unobservable iteration order of the Go map can be replaced by the result itself (how the harness runs the model) *)
Theorem C17_topo_order_reconstruct :
  forall items order l,
    NoDup (ids items) -> order_ok items order -> topo items order = TOk l -> topo items l = TOk l.
Proof. exact topo_order_reconstruct. Qed.
Print Assumptions C17_topo_order_reconstruct.

Example C17_topo_example :
  topo [(2, [4]); (1, [2; 3]); (3, [4]); (4, [5]); (5, [])]%Z [5; 4; 3; 2; 1]%Z = TOk [1; 2; 3; 4; 5]%Z /\
  topo [(1, [2]); (2, [1])]%Z [1; 2]%Z = TErr /\ topo [(1, [1])]%Z [1]%Z = TErr.
Proof. vm_compute. repeat split; reflexivity. Qed.

(* ================================================================== random choices, shuffle (T4: verified checkers) *)

(* the checker applied to every result of ChooseRandomSliceElementN / ChooseRandomMapKeyN / ChooseRandomMapValueN accepts
   exactly the lists that take members of s from pairwise different positions *)
Theorem C17_distinct_members_checker :
  forall s r, distinct_members s r = true <-> exists rest, Permutation s (r ++ rest).
Proof. exact distinct_members_iff. Qed.
Print Assumptions C17_distinct_members_checker.

(* ChooseRandomIndexN (as repaired by fixes/C17-choose-no-repeat.patch): pairwise different valid indices *)
Theorem C17_distinct_indices_checker :
  forall n r, distinct_indices n r = true <-> NoDup r /\ forall i, In i r -> (0 <= i < Z.of_nat n)%Z.
Proof. exact distinct_indices_iff. Qed.
Print Assumptions C17_distinct_indices_checker.

(* Shuffle / ShuffleByClone: a rearrangement *)
Theorem C17_permutation_checker : forall s r, perm_check s r = true <-> Permutation s r.
Proof. exact perm_check_iff. Qed.
Print Assumptions C17_permutation_checker.

(* ================================================================== inputs are left alone *)

(* In the model every helper other than the in-place ones returns its arguments unchanged as their final state; the
   harness compares the re-read arguments of every call of the real function with exactly this. *)
Theorem C17_inputs_untouched : forall f a, inplace f a = None -> f <> FClearMap -> final_args f a = a.
Proof. exact inputs_untouched. Qed.
Print Assumptions C17_inputs_untouched.

Theorem C17_inplace_touches_first_only : forall f a, tl (final_args f a) = tl a.
Proof. exact inplace_touches_first_only. Qed.
Print Assumptions C17_inplace_touches_first_only.

Example C17_inputs_example :
  final_args FDeduplicateSlice [VL [1; 1; 2]%Z] = [VL [1; 1; 2]%Z] /\
  final_args FDeduplicateSliceInPlace [VL [1; 1; 2]%Z] = [VL [1; 2; 2]%Z].
Proof. vm_compute. split; reflexivity. Qed.
