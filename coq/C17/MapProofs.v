(* MV.C17.MapProofs — laws of the map helpers of CollModel.v (merge.go, filter.go, contains.go, find.go, loop.go,
   convert.go on maps).  Maps are association lists sorted strictly by key ([wf]); all theorems are for
   arbitrary maps. *)
From MV Require Import Lib.ListX C17.CollModel C17.ChooseModel.
From Coq Require Import Permutation Sorted RelationClasses.
Open Scope nat_scope.

Definition wf (m : amap) : Prop := StronglySorted Z.lt (mkeys m).   (* sorted strictly by key: keys distinct *)

(* ------------------------------------------------------------------ basics: wf, mget, mset *)
Lemma mkeys_cons : forall k v t, mkeys ((k, v) :: t) = k :: mkeys t.
Proof. reflexivity. Qed.

Lemma wf_nil : wf [].
Proof. constructor. Qed.

Lemma wf_cons_iff : forall k v t, wf ((k, v) :: t) <-> wf t /\ Forall (Z.lt k) (mkeys t).
Proof.
  intros k v t. unfold wf. rewrite mkeys_cons. split.
  - intros H. inversion H; subst. split; assumption.
  - intros [H1 H2]. constructor; assumption.
Qed.

Lemma ssorted_lt_nodup : forall l, StronglySorted Z.lt l -> NoDup l.
Proof.
  induction l as [|x t IH]; intros H.
  - constructor.
  - inversion H as [|? ? Hs Hf]; subst. constructor; [|apply IH; exact Hs].
    intros Hin. rewrite Forall_forall in Hf. specialize (Hf _ Hin). lia.
Qed.

Lemma wf_nodup : forall m, wf m -> NoDup (mkeys m).
Proof. intros m H. apply ssorted_lt_nodup. exact H. Qed.

Lemma in_mkeys : forall k v m, In (k, v) m -> In k (mkeys m).
Proof. intros k v m H. unfold mkeys. change k with (fst (k, v)). apply in_map. exact H. Qed.

Lemma mget_none_iff : forall k m, mget k m = None <-> ~ In k (mkeys m).
Proof.
  intros k m; induction m as [|[k' v'] t IH]; cbn [mget].
  - split; [intros _ [] | reflexivity].
  - rewrite mkeys_cons. destruct (Z.eqb_spec k k') as [E|E].
    + subst. split; [discriminate | intros H; exfalso; apply H; left; reflexivity].
    + rewrite IH. cbn [In]. split.
      * intros H [E'|Hin]; [congruence | exact (H Hin)].
      * intros H Hin. apply H. right. exact Hin.
Qed.

Lemma mget_some_in : forall k v m, mget k m = Some v -> In (k, v) m.
Proof.
  intros k v m; induction m as [|[k' v'] t IH]; cbn [mget]; intros H.
  - discriminate.
  - destruct (Z.eqb_spec k k') as [E|E].
    + inversion H; subst. left; reflexivity.
    + right. apply IH. exact H.
Qed.

Lemma mget_some_key : forall k v m, mget k m = Some v -> In k (mkeys m).
Proof. intros k v m H. eapply in_mkeys. apply mget_some_in. exact H. Qed.

Lemma in_mkeys_mget : forall k m, In k (mkeys m) -> exists v, mget k m = Some v.
Proof.
  intros k m Hin. destruct (mget k m) as [v|] eqn:G; [eauto|].
  apply mget_none_iff in G. contradiction.
Qed.

Lemma mget_lt_none : forall k t, Forall (Z.lt k) (mkeys t) -> mget k t = None.
Proof.
  intros k t Hf. apply mget_none_iff. intros Hin.
  rewrite Forall_forall in Hf. specialize (Hf _ Hin). lia.
Qed.

Lemma in_mget : forall k v m, wf m -> In (k, v) m -> mget k m = Some v.
Proof.
  intros k v m; induction m as [|[k' v'] t IH]; intros Hwf Hin.
  - destruct Hin.
  - apply wf_cons_iff in Hwf. destruct Hwf as [Hwt Hf]. cbn [mget].
    destruct Hin as [E|Hin].
    + inversion E; subst. rewrite Z.eqb_refl. reflexivity.
    + destruct (Z.eqb_spec k k') as [E|E].
      * subst. apply in_mkeys in Hin. rewrite Forall_forall in Hf. specialize (Hf _ Hin). lia.
      * apply IH; assumption.
Qed.

Lemma in_iff_mget : forall k v m, wf m -> (In (k, v) m <-> mget k m = Some v).
Proof. intros k v m Hwf. split; [apply in_mget; exact Hwf | apply mget_some_in]. Qed.

Lemma mget_mset_same : forall k v m, mget k (mset k v m) = Some v.
Proof.
  intros k v m; induction m as [|[k' v'] t IH]; cbn [mset mget].
  - rewrite Z.eqb_refl. reflexivity.
  - destruct (Z.ltb_spec k k') as [L|L]; cbn [mget].
    + rewrite Z.eqb_refl. reflexivity.
    + destruct (Z.eqb_spec k k') as [E|E]; cbn [mget].
      * rewrite Z.eqb_refl. reflexivity.
      * destruct (Z.eqb_spec k k') as [E'|E']; [contradiction | exact IH].
Qed.

Lemma mget_mset_other : forall k k2 v m, k <> k2 -> mget k2 (mset k v m) = mget k2 m.
Proof.
  intros k k2 v m Hne; induction m as [|[k' v'] t IH]; cbn [mset mget].
  - destruct (Z.eqb_spec k2 k) as [E|E]; [congruence | reflexivity].
  - destruct (Z.ltb_spec k k') as [L|L]; cbn [mget].
    + destruct (Z.eqb_spec k2 k) as [E|E]; [congruence | reflexivity].
    + destruct (Z.eqb_spec k k') as [E|E]; cbn [mget].
      * subst k'. destruct (Z.eqb_spec k2 k) as [E'|E']; [congruence | reflexivity].
      * destruct (Z.eqb_spec k2 k') as [E'|E']; [reflexivity | exact IH].
Qed.

Lemma mget_mset : forall k k2 v m, mget k2 (mset k v m) = if (k2 =? k)%Z then Some v else mget k2 m.
Proof.
  intros k k2 v m. destruct (Z.eqb_spec k2 k) as [E|E].
  - subst. apply mget_mset_same.
  - apply mget_mset_other. congruence.
Qed.

Lemma Forall_mkeys_mset : forall (P : Z -> Prop) k v m,
  P k -> Forall P (mkeys m) -> Forall P (mkeys (mset k v m)).
Proof.
  intros P k v m Hk; induction m as [|[k' v'] t IH]; intros Hf; cbn [mset].
  - rewrite mkeys_cons. constructor; [exact Hk | constructor].
  - rewrite mkeys_cons in Hf. inversion Hf as [|? ? Hk' Ht]; subst.
    destruct (Z.ltb_spec k k') as [L|L].
    + rewrite !mkeys_cons. constructor; [exact Hk|]. constructor; assumption.
    + destruct (Z.eqb_spec k k') as [E|E]; rewrite mkeys_cons.
      * constructor; assumption.
      * constructor; [exact Hk' | apply IH; exact Ht].
Qed.

Lemma wf_mset : forall k v m, wf m -> wf (mset k v m).
Proof.
  intros k v m; induction m as [|[k' v'] t IH]; intros Hwf; cbn [mset].
  - apply wf_cons_iff. split; [apply wf_nil | constructor].
  - pose proof Hwf as Hwf0. apply wf_cons_iff in Hwf. destruct Hwf as [Hwt Hf].
    destruct (Z.ltb_spec k k') as [L|L].
    + apply wf_cons_iff. split; [exact Hwf0|].
      rewrite mkeys_cons. constructor; [exact L|].
      eapply Forall_impl; [|exact Hf]. intros a Ha. cbv beta in Ha. lia.
    + destruct (Z.eqb_spec k k') as [E|E].
      * subst k'. apply wf_cons_iff. split; assumption.
      * apply wf_cons_iff. split; [apply IH; exact Hwt|].
        apply Forall_mkeys_mset; [lia | exact Hf].
Qed.

(* extensionality: a well-formed map is determined by its lookup function *)
Theorem wf_ext : forall m1 m2, wf m1 -> wf m2 -> (forall k, mget k m1 = mget k m2) -> m1 = m2.
Proof.
  induction m1 as [|[k1 v1] t1 IH]; intros [|[k2 v2] t2] W1 W2 H.
  - reflexivity.
  - specialize (H k2). cbn [mget] in H. rewrite Z.eqb_refl in H. discriminate.
  - specialize (H k1). cbn [mget] in H. rewrite Z.eqb_refl in H. discriminate.
  - apply wf_cons_iff in W1. destruct W1 as [W1 F1].
    apply wf_cons_iff in W2. destruct W2 as [W2 F2].
    assert (Ek : k1 = k2).
    { destruct (Z.lt_trichotomy k1 k2) as [L|[E|L]]; [exfalso | exact E | exfalso].
      - specialize (H k1). cbn [mget] in H. rewrite Z.eqb_refl in H.
        destruct (Z.eqb_spec k1 k2) as [E|E]; [lia|].
        rewrite mget_lt_none in H; [discriminate|].
        eapply Forall_impl; [|exact F2]. intros a Ha. cbv beta in Ha. lia.
      - specialize (H k2). cbn [mget] in H. rewrite Z.eqb_refl in H.
        destruct (Z.eqb_spec k2 k1) as [E|E]; [lia|].
        rewrite mget_lt_none in H; [discriminate|].
        eapply Forall_impl; [|exact F1]. intros a Ha. cbv beta in Ha. lia. }
    subst k2.
    assert (Ev : v1 = v2).
    { specialize (H k1). cbn [mget] in H. rewrite Z.eqb_refl in H. congruence. }
    subst v2. f_equal. apply IH; [exact W1 | exact W2|].
    intros k. destruct (Z.eq_dec k k1) as [E|E].
    + subst k. rewrite !mget_lt_none by assumption. reflexivity.
    + specialize (H k). cbn [mget] in H.
      destruct (Z.eqb_spec k k1) as [E'|E']; [contradiction | exact H].
Qed.

(* ------------------------------------------------------------------ MergeMaps / MergeMapsWithSkip *)
Lemma set_all_wf : forall m acc, wf acc ->
  wf (fold_left (fun acc kv => mset (fst kv) (snd kv) acc) m acc).
Proof.
  induction m as [|[k' v'] t IH]; intros acc Hacc; cbn [fold_left fst snd].
  - exact Hacc.
  - apply IH. apply wf_mset. exact Hacc.
Qed.

Lemma set_all_mget : forall k m acc, wf m ->
  mget k (fold_left (fun acc kv => mset (fst kv) (snd kv) acc) m acc) =
  match mget k m with Some v => Some v | None => mget k acc end.
Proof.
  intros k; induction m as [|[k' v'] t IH]; intros acc Hwf; cbn [fold_left fst snd mget].
  - reflexivity.
  - apply wf_cons_iff in Hwf. destruct Hwf as [Hwt Hf].
    rewrite IH by exact Hwt. rewrite mget_mset.
    destruct (Z.eqb_spec k k') as [E|E].
    + subst k'. rewrite mget_lt_none by exact Hf. reflexivity.
    + reflexivity.
Qed.

Lemma merge_maps_gen : forall ms acc k, wf acc -> Forall wf ms ->
  wf (fold_left (fun acc m => fold_left (fun acc kv => mset (fst kv) (snd kv) acc) m acc) ms acc) /\
  mget k (fold_left (fun acc m => fold_left (fun acc kv => mset (fst kv) (snd kv) acc) m acc) ms acc) =
  fold_left (fun acc m => match mget k m with Some v => Some v | None => acc end) ms (mget k acc).
Proof.
  induction ms as [|m t IH]; intros acc k Hacc Hms; cbn [fold_left].
  - split; [exact Hacc | reflexivity].
  - inversion Hms as [|? ? Hm Ht]; subst.
    destruct (IH (fold_left (fun acc kv => mset (fst kv) (snd kv) acc) m acc) k
                 (set_all_wf m acc Hacc) Ht) as [Hw Hg].
    split; [exact Hw|]. rewrite Hg. rewrite set_all_mget by exact Hm. reflexivity.
Qed.

(* MergeMaps: the last map that has the key wins *)
Theorem merge_maps_spec : forall ms k, Forall wf ms ->
  wf (merge_maps ms) /\
  mget k (merge_maps ms) = fold_left (fun acc m => match mget k m with Some v => Some v | None => acc end) ms None.
Proof.
  intros ms k Hms. unfold merge_maps. exact (merge_maps_gen ms [] k wf_nil Hms).
Qed.

Lemma skip_all_wf : forall m acc, wf acc ->
  wf (fold_left (fun acc kv => if mhas (fst kv) acc then acc else mset (fst kv) (snd kv) acc) m acc).
Proof.
  induction m as [|[k' v'] t IH]; intros acc Hacc; cbn [fold_left fst snd].
  - exact Hacc.
  - apply IH. destruct (mhas k' acc); [exact Hacc | apply wf_mset; exact Hacc].
Qed.

Lemma skip_all_mget : forall k m acc,
  mget k (fold_left (fun acc kv => if mhas (fst kv) acc then acc else mset (fst kv) (snd kv) acc) m acc) =
  match mget k acc with Some v => Some v | None => mget k m end.
Proof.
  intros k; induction m as [|[k' v'] t IH]; intros acc; cbn [fold_left fst snd mget].
  - destruct (mget k acc); reflexivity.
  - rewrite IH. unfold mhas. destruct (mget k' acc) as [w|] eqn:G.
    + destruct (Z.eqb_spec k k') as [E|E].
      * subst k'. rewrite G. reflexivity.
      * reflexivity.
    + rewrite mget_mset. destruct (Z.eqb_spec k k') as [E|E].
      * subst k'. rewrite G. reflexivity.
      * reflexivity.
Qed.

Lemma merge_maps_skip_gen : forall ms acc k, wf acc ->
  wf (fold_left (fun acc m => fold_left (fun acc kv => if mhas (fst kv) acc then acc else mset (fst kv) (snd kv) acc) m acc) ms acc) /\
  mget k (fold_left (fun acc m => fold_left (fun acc kv => if mhas (fst kv) acc then acc else mset (fst kv) (snd kv) acc) m acc) ms acc) =
  fold_left (fun acc m => match acc with Some v => Some v | None => mget k m end) ms (mget k acc).
Proof.
  induction ms as [|m t IH]; intros acc k Hacc; cbn [fold_left].
  - split; [exact Hacc | reflexivity].
  - destruct (IH (fold_left (fun acc kv => if mhas (fst kv) acc then acc else mset (fst kv) (snd kv) acc) m acc) k
                 (skip_all_wf m acc Hacc)) as [Hw Hg].
    split; [exact Hw|]. rewrite Hg. rewrite skip_all_mget. reflexivity.
Qed.

(* MergeMapsWithSkip: the first map that has the key wins *)
Theorem merge_maps_skip_spec : forall ms k, Forall wf ms ->
  wf (merge_maps_skip ms) /\
  mget k (merge_maps_skip ms) = fold_left (fun acc m => match acc with Some v => Some v | None => mget k m end) ms None.
Proof.
  intros ms k _. unfold merge_maps_skip. exact (merge_maps_skip_gen ms [] k wf_nil).
Qed.

(* ------------------------------------------------------------------ filters *)
Lemma Forall_mkeys_filter : forall (P : Z -> Prop) (f : Z * Z -> bool) m,
  Forall P (mkeys m) -> Forall P (mkeys (filter f m)).
Proof.
  intros P f m; induction m as [|[k' v'] t IH]; intros Hf; cbn [filter].
  - exact Hf.
  - rewrite mkeys_cons in Hf. inversion Hf as [|? ? Hk Ht]; subst.
    destruct (f (k', v')); [rewrite mkeys_cons; constructor; auto | auto].
Qed.

Theorem mfilter_spec : forall keep m k, wf m ->
  wf (mfilter keep m) /\
  mget k (mfilter keep m) = match mget k m with Some v => if keep k v then Some v else None | None => None end.
Proof.
  intros keep m k; unfold mfilter; induction m as [|[k' v'] t IH]; intros Hwf; cbn [filter fst snd mget].
  - split; [exact Hwf | reflexivity].
  - apply wf_cons_iff in Hwf. destruct Hwf as [Hwt Hf].
    destruct (IH Hwt) as [IHw IHg].
    destruct (keep k' v') eqn:Kp.
    + split.
      * apply wf_cons_iff. split; [exact IHw | apply Forall_mkeys_filter; exact Hf].
      * cbn [mget]. destruct (Z.eqb_spec k k') as [E|E].
        -- subst k'. rewrite Kp. reflexivity.
        -- exact IHg.
    + split; [exact IHw|]. destruct (Z.eqb_spec k k') as [E|E].
      * subst k'. rewrite Kp, IHg. rewrite mget_lt_none by exact Hf. reflexivity.
      * exact IHg.
Qed.

(* the named filters are instances *)
Corollary filter_out_by_key_spec : forall m k0 k, wf m ->
  wf (filter_out_by_key m k0) /\
  mget k (filter_out_by_key m k0) = if (k =? k0)%Z then None else mget k m.
Proof.
  intros m k0 k Hwf. unfold filter_out_by_key.
  destruct (mfilter_spec (fun k' _ => negb (k' =? k0)%Z) m k Hwf) as [Hw Hg].
  split; [exact Hw|]. rewrite Hg.
  destruct (mget k m); destruct (k =? k0)%Z; reflexivity.
Qed.

Corollary filter_out_by_map_spec : forall cond m k, wf m ->
  wf (filter_out_by_map cond m) /\
  mget k (filter_out_by_map cond m) =
  match mget k m with Some v => if cond k v then None else Some v | None => None end.
Proof.
  intros cond m k Hwf. unfold filter_out_by_map.
  destruct (mfilter_spec (fun k v => negb (cond k v)) m k Hwf) as [Hw Hg].
  split; [exact Hw|]. rewrite Hg.
  destruct (mget k m) as [v|]; [destruct (cond k v)|]; reflexivity.
Qed.

(* ------------------------------------------------------------------ EqualMap (repaired) *)
Section EqualMap.
  Variable cmp : Z -> Z -> bool.
  Variable R : Z -> Z -> Prop.
  Hypothesis R_equiv : Equivalence R.
  Hypothesis cmp_spec : forall a b, cmp a b = true <-> R a b.

  Definition same_upto (m1 m2 : amap) : Prop :=
    forall k, match mget k m1, mget k m2 with
              | Some a, Some b => R a b | None, None => True | _, _ => False end.

  Lemma same_upto_incl : forall m1 m2, same_upto m1 m2 -> incl (mkeys m1) (mkeys m2).
  Proof.
    intros m1 m2 H k Hk. destruct (in_mkeys_mget _ _ Hk) as [a Ga].
    specialize (H k). rewrite Ga in H.
    destruct (mget k m2) as [b|] eqn:Gb; [|contradiction].
    eapply mget_some_key. exact Gb.
  Qed.

  Lemma same_upto_sym : forall m1 m2, same_upto m1 m2 -> same_upto m2 m1.
  Proof.
    intros m1 m2 H k. specialize (H k).
    destruct (mget k m1), (mget k m2); try exact H. symmetry. exact H.
  Qed.

  Theorem equal_map_iff : forall m1 m2, wf m1 -> wf m2 ->
    (equal_map cmp m1 m2 = true <->
     forall k, match mget k m1, mget k m2 with Some a, Some b => R a b | None, None => True | _, _ => False end).
  Proof.
    intros m1 m2 W1 W2. unfold equal_map. split.
    - intros H. destruct (Nat.eqb_spec (length m1) (length m2)) as [Hl|Hl]; [|discriminate].
      rewrite forallb_forall in H.
      assert (Hinc : incl (mkeys m1) (mkeys m2)).
      { intros k Hk. destruct (in_mkeys_mget _ _ Hk) as [a Ga].
        apply mget_some_in in Ga. specialize (H _ Ga). cbn [fst snd] in H.
        destruct (mget k m2) as [b|] eqn:Gb; [|discriminate].
        eapply mget_some_key. exact Gb. }
      assert (Hinc2 : incl (mkeys m2) (mkeys m1)).
      { apply NoDup_length_incl; [apply wf_nodup; exact W1 | | exact Hinc].
        unfold mkeys. rewrite !map_length. lia. }
      intros k. destruct (mget k m1) as [a|] eqn:G1.
      + apply mget_some_in in G1. specialize (H _ G1). cbn [fst snd] in H.
        destruct (mget k m2) as [b|]; [apply cmp_spec; exact H | discriminate].
      + destruct (mget k m2) as [b|] eqn:G2; [|exact I].
        apply mget_none_iff in G1. apply G1. apply Hinc2. eapply mget_some_key. exact G2.
    - intros H. fold (same_upto m1 m2) in H.
      assert (Hl : length m1 = length m2).
      { pose proof (NoDup_incl_length (wf_nodup _ W1) (same_upto_incl _ _ H)) as L1.
        pose proof (NoDup_incl_length (wf_nodup _ W2) (same_upto_incl _ _ (same_upto_sym _ _ H))) as L2.
        unfold mkeys in L1, L2. rewrite !map_length in L1, L2. lia. }
      rewrite Hl, Nat.eqb_refl. apply forallb_forall. intros [k a] Hin. cbn [fst snd].
      apply in_mget in Hin; [|exact W1]. specialize (H k). rewrite Hin in H.
      destruct (mget k m2) as [b|]; [apply cmp_spec; exact H | contradiction].
  Qed.

  Theorem equal_map_refl : forall m, wf m -> equal_map cmp m m = true.
  Proof.
    intros m W. apply equal_map_iff; [exact W | exact W|].
    intros k. destruct (mget k m); [reflexivity | exact I].
  Qed.

  Theorem equal_map_sym : forall m1 m2, wf m1 -> wf m2 -> equal_map cmp m1 m2 = equal_map cmp m2 m1.
  Proof.
    intros m1 m2 W1 W2.
    destruct (equal_map cmp m1 m2) eqn:E1; destruct (equal_map cmp m2 m1) eqn:E2; try reflexivity.
    - pose proof (proj1 (equal_map_iff m1 m2 W1 W2) E1) as H.
      pose proof (proj2 (equal_map_iff m2 m1 W2 W1) (same_upto_sym _ _ H)) as H'. congruence.
    - pose proof (proj1 (equal_map_iff m2 m1 W2 W1) E2) as H.
      pose proof (proj2 (equal_map_iff m1 m2 W1 W2) (same_upto_sym _ _ H)) as H'. congruence.
  Qed.
End EqualMap.

Theorem equal_comparable_map_iff : forall m1 m2, wf m1 -> wf m2 -> (equal_map Z.eqb m1 m2 = true <-> m1 = m2).
Proof.
  intros m1 m2 W1 W2.
  rewrite (equal_map_iff Z.eqb (@eq Z) eq_equivalence Z.eqb_eq m1 m2 W1 W2). split.
  - intros H. apply wf_ext; [exact W1 | exact W2|]. intros k. specialize (H k).
    destruct (mget k m1), (mget k m2); try contradiction; congruence.
  - intros E k. subst m2. destruct (mget k m1); [reflexivity | exact I].
Qed.

(* ------------------------------------------------------------------ FindMinFromMap / FindMaxFromMap *)
Lemma min_loop_spec : forall (key : Z -> Z) l r,
  In (min_loop key r l) (r :: l) /\
  forall v, In v (r :: l) -> (key (min_loop key r l) <= key v)%Z.
Proof.
  intros key; induction l as [|x t IH]; intros r; cbn [min_loop].
  - split; [left; reflexivity|]. intros v [E|[]]. subst. lia.
  - destruct (Z.ltb_spec (key x) (key r)) as [L|L].
    + destruct (IH x) as [Hin Hle]. split.
      * destruct Hin as [E|Hin]; [right; left; exact E | right; right; exact Hin].
      * intros v [E|[E|Hv]].
        -- subst v. specialize (Hle x (or_introl eq_refl)). lia.
        -- subst v. apply Hle. left; reflexivity.
        -- apply Hle. right; exact Hv.
    + destruct (IH r) as [Hin Hle]. split.
      * destruct Hin as [E|Hin]; [left; exact E | right; right; exact Hin].
      * intros v [E|[E|Hv]].
        -- subst v. apply Hle. left; reflexivity.
        -- subst v. specialize (Hle r (or_introl eq_refl)). lia.
        -- apply Hle. right; exact Hv.
Qed.

Lemma max_loop_spec : forall (key : Z -> Z) l r,
  In (max_loop key r l) (r :: l) /\
  forall v, In v (r :: l) -> (key v <= key (max_loop key r l))%Z.
Proof.
  intros key; induction l as [|x t IH]; intros r; cbn [max_loop].
  - split; [left; reflexivity|]. intros v [E|[]]. subst. lia.
  - destruct (Z.ltb_spec (key r) (key x)) as [L|L].
    + destruct (IH x) as [Hin Hle]. split.
      * destruct Hin as [E|Hin]; [right; left; exact E | right; right; exact Hin].
      * intros v [E|[E|Hv]].
        -- subst v. specialize (Hle x (or_introl eq_refl)). lia.
        -- subst v. apply Hle. left; reflexivity.
        -- apply Hle. right; exact Hv.
    + destruct (IH r) as [Hin Hle]. split.
      * destruct Hin as [E|Hin]; [left; exact E | right; right; exact Hin].
      * intros v [E|[E|Hv]].
        -- subst v. apply Hle. left; reflexivity.
        -- subst v. specialize (Hle r (or_introl eq_refl)). lia.
        -- apply Hle. right; exact Hv.
Qed.

Theorem find_min_map_spec : forall key m, m <> [] ->
  In (find_min_map key m) (mvals m) /\ forall v, In v (mvals m) -> (key (find_min_map key m) <= key v)%Z.
Proof.
  intros key m Hne. unfold find_min_map, find_min.
  destruct m as [|[k v] t]; [congruence|].
  unfold mvals. cbn [map snd]. apply min_loop_spec.
Qed.

Theorem find_max_map_spec : forall key m, m <> [] ->
  In (find_max_map key m) (mvals m) /\ forall v, In v (mvals m) -> (key v <= key (find_max_map key m))%Z.
Proof.
  intros key m Hne. unfold find_max_map, find_max.
  destruct m as [|[k v] t]; [congruence|].
  unfold mvals. cbn [map snd]. apply max_loop_spec.
Qed.

Theorem find_min_max_map_empty : forall key, find_min_map key [] = 0%Z /\ find_max_map key [] = 0%Z.
Proof. intros key. split; reflexivity. Qed.

(* ------------------------------------------------------------------ ordered map loops *)
Definition sorted_by (key : Z * Z -> Z) (desc : bool) (l : list (Z * Z)) : Prop :=
  StronglySorted (fun a b => if desc then (key b <= key a)%Z else (key a <= key b)%Z) l.

Section InsertionSort.
  Context {A : Type}.
  Variable key : A -> Z.
  Variable desc : bool.
  Let rel (a b : A) : Prop := if desc then (key b <= key a)%Z else (key a <= key b)%Z.

  Lemma rel_trans : forall a b c, rel a b -> rel b c -> rel a c.
  Proof. unfold rel. intros a b c; destruct desc; lia. Qed.

  Lemma lt_key_true : forall a b, lt_key key desc a b = true -> rel a b.
  Proof.
    unfold rel, lt_key. intros a b H. destruct desc; apply Z.ltb_lt in H; lia.
  Qed.

  Lemma lt_key_false : forall a b, lt_key key desc a b = false -> rel b a.
  Proof.
    unfold rel, lt_key. intros a b H. destruct desc; apply Z.ltb_ge in H; lia.
  Qed.

  Lemma insert_by_perm : forall (lt : A -> A -> bool) x l, Permutation (x :: l) (insert_by lt x l).
  Proof.
    intros lt x l; induction l as [|y t IH]; cbn [insert_by].
    - apply Permutation_refl.
    - destruct (lt x y).
      + apply Permutation_refl.
      + eapply Permutation_trans; [apply perm_swap | apply perm_skip; exact IH].
  Qed.

  Lemma insert_by_sorted : forall x l,
    StronglySorted rel l -> StronglySorted rel (insert_by (lt_key key desc) x l).
  Proof.
    intros x l; induction l as [|y t IH]; intros Hs; cbn [insert_by].
    - constructor; [constructor | constructor].
    - inversion Hs as [|? ? Hst Hf]; subst.
      destruct (lt_key key desc x y) eqn:L.
      + apply lt_key_true in L. constructor; [exact Hs|].
        constructor; [exact L|].
        eapply Forall_impl; [|exact Hf]. intros a Ha. eapply rel_trans; [exact L | exact Ha].
      + apply lt_key_false in L. constructor; [apply IH; exact Hst|].
        eapply Permutation_Forall; [apply insert_by_perm|].
        constructor; [exact L | exact Hf].
  Qed.

  Lemma isort_gen : forall s acc,
    StronglySorted rel acc ->
    Permutation (s ++ acc) (fold_left (fun acc x => insert_by (lt_key key desc) x acc) s acc) /\
    StronglySorted rel (fold_left (fun acc x => insert_by (lt_key key desc) x acc) s acc).
  Proof.
    induction s as [|x t IH]; intros acc Hs; cbn [fold_left app].
    - split; [apply Permutation_refl | exact Hs].
    - destruct (IH (insert_by (lt_key key desc) x acc) (insert_by_sorted x acc Hs)) as [Hp Hs'].
      split; [|exact Hs'].
      eapply Permutation_trans; [|exact Hp].
      eapply Permutation_trans; [apply Permutation_middle|].
      apply Permutation_app_head. apply insert_by_perm.
  Qed.

  Lemma sort_by_spec : forall s,
    Permutation s (sort_by key desc s) /\ StronglySorted rel (sort_by key desc s).
  Proof.
    intros s. unfold sort_by, isort.
    destruct (isort_gen s [] (SSorted_nil rel)) as [Hp Hs].
    rewrite app_nil_r in Hp. split; assumption.
  Qed.
End InsertionSort.

Theorem keys_sorted_by_spec : forall key desc m,
  Permutation m (keys_sorted_by key desc m) /\ sorted_by key desc (keys_sorted_by key desc m).
Proof.
  intros key desc m. unfold keys_sorted_by, sorted_by. apply (sort_by_spec key desc m).
Qed.

Lemma loop_pairs_gen : forall f (on_key : bool) l i,
  let sel := fun (kv : Z * Z) => if on_key then fst kv else snd kv in
  exists n, loop_pairs f on_key i l = firstn n l /\
            (forall j kv, j + 1 < n -> nth_error l j = Some kv -> f (i + j) (sel kv) = true) /\
            (n = length l \/
             exists kv, nth_error l (n - 1) = Some kv /\ f (i + (n - 1)) (sel kv) = false /\ 0 < n).
Proof.
  intros f on_key l; induction l as [|[k v] t IH]; intros i sel; cbn [loop_pairs].
  - exists 0. split; [reflexivity|]. split; [intros j kv Hj; lia | left; reflexivity].
  - destruct (f i (if on_key then k else v)) eqn:Fi.
    + destruct (IH (S i)) as [n [Hfn [Hall Hend]]]. fold sel in Hall, Hend.
      exists (S n). split; [cbn [firstn]; rewrite Hfn; reflexivity|]. split.
      * intros j kv Hj Hnth. destruct j as [|j].
        -- cbn [nth_error] in Hnth. inversion Hnth; subst kv.
           rewrite Nat.add_0_r. unfold sel. cbn [fst snd]. exact Fi.
        -- cbn [nth_error] in Hnth. replace (i + S j) with (S i + j) by lia.
           apply Hall; [lia | exact Hnth].
      * destruct Hend as [Hl|[kv [Hnth [Hf Hpos]]]].
        -- left. cbn [length]. lia.
        -- right. exists kv. replace (S n - 1) with (S (n - 1)) by lia. cbn [nth_error].
           split; [exact Hnth|]. split; [|lia].
           replace (i + S (n - 1)) with (S i + (n - 1)) by lia. exact Hf.
    + exists 1. split; [reflexivity|]. split; [intros j kv Hj; lia|].
      right. exists (k, v). cbn [Nat.sub nth_error]. split; [reflexivity|]. split; [|lia].
      rewrite Nat.add_0_r. unfold sel. cbn [fst snd]. exact Fi.
Qed.

Theorem loop_pairs_spec : forall f (on_key : bool) l,
  let sel := fun (kv : Z * Z) => if on_key then fst kv else snd kv in
  exists n, loop_pairs f on_key 0 l = firstn n l /\
            (forall j kv, j + 1 < n -> nth_error l j = Some kv -> f j (sel kv) = true) /\
            (n = length l \/ exists kv, nth_error l (n - 1) = Some kv /\ f (n - 1) (sel kv) = false /\ 0 < n).
Proof.
  intros f on_key l sel. exact (loop_pairs_gen f on_key l 0).
Qed.

(* ------------------------------------------------------------------ converters *)
Lemma index_map_gen : forall s a,
  wf (combine (map Z.of_nat (seq a (length s))) s) /\
  Forall (fun k => (Z.of_nat a <= k)%Z) (mkeys (combine (map Z.of_nat (seq a (length s))) s)) /\
  forall i, mget (Z.of_nat (a + i)) (combine (map Z.of_nat (seq a (length s))) s) = nth_error s i.
Proof.
  induction s as [|x t IH]; intros a; cbn [length seq map combine].
  - split; [apply wf_nil|]. split; [constructor|]. intros [|i]; reflexivity.
  - destruct (IH (S a)) as [Hw [Hf Hg]]. split; [|split].
    + apply wf_cons_iff. split; [exact Hw|].
      eapply Forall_impl; [|exact Hf]. intros k Hk. cbv beta in Hk. lia.
    + rewrite mkeys_cons. constructor; [lia|].
      eapply Forall_impl; [|exact Hf]. intros k Hk. cbv beta in Hk. lia.
    + intros i. cbn [mget]. destruct i as [|i].
      * rewrite Nat.add_0_r, Z.eqb_refl. reflexivity.
      * destruct (Z.eqb_spec (Z.of_nat (a + S i)) (Z.of_nat a)) as [E|E]; [lia|].
        replace (a + S i) with (S a + i) by lia. cbn [nth_error]. apply Hg.
Qed.

Theorem index_map_spec : forall s i, wf (index_map s) /\ mget (Z.of_nat i) (index_map s) = nth_error s i.
Proof.
  intros s i. unfold index_map. destruct (index_map_gen s 0) as [Hw [_ Hg]].
  split; [exact Hw | exact (Hg i)].
Qed.

Lemma set_of_gen : forall s acc k, wf acc ->
  wf (fold_left (fun acc v => mset v 1%Z acc) s acc) /\
  (mhas k (fold_left (fun acc v => mset v 1%Z acc) s acc) = true <-> In k s \/ mhas k acc = true).
Proof.
  induction s as [|x t IH]; intros acc k Hacc; cbn [fold_left].
  - split; [exact Hacc|]. cbn [In]. tauto.
  - destruct (IH (mset x 1%Z acc) k (wf_mset x 1%Z acc Hacc)) as [Hw Hh].
    split; [exact Hw|]. rewrite Hh. unfold mhas. rewrite mget_mset. cbn [In].
    destruct (Z.eqb_spec k x) as [E|E].
    + subst. tauto.
    + split; [intros [H|H]; tauto|]. intros [[H|H]|H]; [congruence | tauto | tauto].
Qed.

Theorem set_of_spec : forall s k, wf (set_of s) /\ (mhas k (set_of s) = true <-> In k s).
Proof.
  intros s k. unfold set_of. destruct (set_of_gen s [] k wf_nil) as [Hw Hh].
  split; [exact Hw|]. rewrite Hh. unfold mhas. cbn [mget]. split; [intros [H|H]; [exact H | discriminate] | tauto].
Qed.

Lemma in_mvals : forall k v (m : amap), In (k, v) m -> In v (mvals m).
Proof. intros k v m H. unfold mvals. change v with (snd (k, v)). apply in_map. exact H. Qed.

Lemma invert_gen : forall m acc, wf acc -> NoDup (mvals m) ->
  wf (fold_left (fun acc kv => mset (snd kv) (fst kv) acc) m acc) /\
  forall k v, mget v (fold_left (fun acc kv => mset (snd kv) (fst kv) acc) m acc) = Some k <->
              In (k, v) m \/ (~ In v (mvals m) /\ mget v acc = Some k).
Proof.
  induction m as [|[k' v'] t IH]; intros acc Hacc Hnd; cbn [fold_left fst snd].
  - split; [exact Hacc|]. intros k v. cbn [In mvals map]. tauto.
  - unfold mvals in Hnd. cbn [map snd] in Hnd. fold (mvals t) in Hnd.
    inversion Hnd as [|? ? Hni Hnd']; subst.
    destruct (IH (mset v' k' acc) (wf_mset v' k' acc Hacc) Hnd') as [Hw Hg].
    split; [exact Hw|]. intros k v. rewrite Hg. rewrite mget_mset.
    unfold mvals at 2. cbn [map snd In]. fold (mvals t).
    destruct (Z.eqb_spec v v') as [E|E].
    + subst v'. split.
      * intros [Hin|[_ Hk]]; [exfalso; apply Hni; eapply in_mvals; exact Hin|].
        inversion Hk; subst. left; left; reflexivity.
      * intros [[Hk|Hin]|[Hn _]].
        -- inversion Hk; subst. right. split; [exact Hni | reflexivity].
        -- exfalso; apply Hni; eapply in_mvals; exact Hin.
        -- exfalso. apply Hn. left; reflexivity.
    + split.
      * intros [Hin|[Hn Hk]]; [left; right; exact Hin|].
        right. split; [|exact Hk]. intros [E'|Hin]; [congruence | exact (Hn Hin)].
      * intros [[Hk|Hin]|[Hn Hk]].
        -- inversion Hk; congruence.
        -- left; exact Hin.
        -- right. split; [|exact Hk]. intros Hin. apply Hn. right; exact Hin.
Qed.

Theorem invert_map_spec : forall m, wf m -> NoDup (mvals m) ->
  wf (invert_map m) /\ forall k v, mget v (invert_map m) = Some k <-> mget k m = Some v.
Proof.
  intros m Hwf Hnd. unfold invert_map. destruct (invert_gen m [] wf_nil Hnd) as [Hw Hg].
  split; [exact Hw|]. intros k v. rewrite Hg. rewrite <- (in_iff_mget k v m Hwf).
  cbn [mget]. split; [intros [H|[_ H]]; [exact H | discriminate] | intros H; left; exact H].
Qed.

Print Assumptions wf_ext.
Print Assumptions merge_maps_spec.
Print Assumptions merge_maps_skip_spec.
Print Assumptions mfilter_spec.
Print Assumptions equal_map_iff.
Print Assumptions equal_map_refl.
Print Assumptions equal_map_sym.
Print Assumptions equal_comparable_map_iff.
Print Assumptions find_min_map_spec.
Print Assumptions find_max_map_spec.
Print Assumptions find_min_max_map_empty.
Print Assumptions keys_sorted_by_spec.
Print Assumptions loop_pairs_spec.
Print Assumptions index_map_spec.
Print Assumptions set_of_spec.
Print Assumptions invert_map_spec.
