(* MV.C17.TopoModel — executable model of toolkit/collection/topological.go (TopologicalSort), with the
   repair of fixes/C17-topological-cycle.patch: a node reached again while it is still being expanded
   sets the "circular" flag, and the flag makes the function return ErrCircularDependencyDetected.
   An item is (index, indices it depends on).  Only indices are tracked (node.value is the item itself).
   The Go code ranges over a map of nodes: that order is the parameter [order].  No proofs here. *)
From MV Require Import Lib.ListX.
Open Scope nat_scope.

Definition item := (Z * list Z)%type.
Definition ids (items : list item) : list Z := map fst items.
Definition memz (x : Z) (l : list Z) : bool := existsb (Z.eqb x) l.
Fixpoint removez (x : Z) (l : list Z) : list Z :=
  match l with [] => [] | y :: t => if (x =? y)%Z then removez x t else y :: removez x t end.

(* second loop of the Go code: for every item (slice order) and every depend in its list (in order) that
   names an existing node, that node's dependsOn gets the item appended.  So dependsOn of node x is: *)
Definition dependents (items : list item) (x : Z) : list Z :=
  flat_map (fun it => map (fun _ => fst it) (filter (Z.eqb x) (snd it))) items.

Record st := { done : list Z;      (* sorted, in append order; also the keys of visited *)
               stack : list Z;     (* keys of visiting that are true *)
               cyc : bool;         (* circular *)
               oof : bool }.       (* model artefact: recursion fuel exhausted (never, see TopoProofs) *)
Definition st0 : st := {| done := []; stack := []; cyc := false; oof := false |}.

Fixpoint visit (fuel : nat) (items : list item) (x : Z) (s : st) : st :=
  if memz x (done s) then s
  else if memz x (stack s) then {| done := done s; stack := stack s; cyc := true; oof := oof s |}
  else match fuel with
       | O => {| done := done s; stack := stack s; cyc := cyc s; oof := true |}
       | S f =>
           let s1 := {| done := done s; stack := x :: stack s; cyc := cyc s; oof := oof s |} in
           let s2 := fold_left (fun s d => visit f items d s) (dependents items x) s1 in
           {| done := done s2 ++ [x]; stack := removez x (stack s2); cyc := cyc s2; oof := oof s2 |}
       end.

Definition visit_all (fuel : nat) (items : list item) (order : list Z) (s : st) : st :=
  fold_left (fun s x => visit fuel items x s) order s.

Inductive tres := TOk (l : list Z) | TErr | TOutOfFuel.

(* [order]: the iteration order of the node map (a permutation of the distinct indices) *)
Definition topo (items : list item) (order : list Z) : tres :=
  let s := visit_all (S (length items)) items order st0 in
  if oof s then TOutOfFuel
  else if cyc s || negb (length (done s) =? length items) then TErr
  else TOk (done s).
