(* MV.C10.SubModel — executable model of vivid publish/subscribe (property C10).  No proofs here.

   Go sources transcribed (engine/vivid): subscription_actor.go (onSubscribeRequest, onUnsubscribeRequest,
   onLocalPublishRequest; the table  topic -> subscription id -> subscriber  and the id counter guid),
   actor_context.go (Subscribe, UnSubscribe, Publish, the map ctx.subscriptions and its release in
   tryRestarted / tryTerminated), actor_system.go (ActorSystem.Publish: the guard is the publisher),
   abyss.go (a dead letter is published on AbyssTopic through the guard).

   LAYER 1 — the machine.  Every request goes through the mailbox of the ONE subscription actor.  What is
   assumed from that mailbox (property C02, proved elsewhere): it is a FIFO, every request enqueued is
   processed exactly once, one at a time.  So the state has an explicit request queue:
     * a CALL event (ECallSub / ECallUnsub / ECallPub / release inside ERestart, ETerminate) appends a
       request at the tail, in the real-time order in which the calls are made (deliveryUserMessage pushes
       synchronously, before the API call returns);
     * EProc = the subscription actor pops the head request and handles it.
   Subscribe is a blocking ask: between ECallSub and the EProc that answers it the caller sits inside its
   handler ([blocked]); it can do nothing else, but messages keep being appended to its mailbox.
   The user-message mailbox of each subscriber is also a FIFO handled exactly once (C02): the model records the
   APPEND order of deliveries ([log]); this is the order in which the subscriber handles them.
   The fan-out loop `for _, subscription := range s.subscribes[topic]` iterates a Go map (random order);
   deliveries to different subscribers go to different mailboxes and two deliveries of one publication to the same
   subscriber are indistinguishable, so the loop is written as map/filter over the table in insertion order.

   REPAIRED behaviour modelled (see docs/C10-NOTES.md):
     * fixes/C10-release-after-last-handler.patch — the release of ctx.subscriptions happens after the last
       lifecycle handler of the instance (OnTerminate/OnTerminated), so a Subscribe made inside those handlers
       is released too.  In the machine a subscribe "inside the last handler" is just an ECallSub before
       ETerminate / ERestart.  The behaviour of the tree as shipped is [term_asis] (refuted in SubProofs).
     * fixes/C10-abyss-unwrap.patch — abyss.DeliveryUserMessage looks at the CONTENT of the envelope: a dead
       letter that is itself a dead-letter event is dropped (not published again), and the event carries the
       message, not the envelope.

   LAYER 2 — sequential operations [op] (what the correspondence harness drives): each operation is a list
   of machine events followed by EProc until the queue is empty ([drain]). *)
From MV Require Import Lib.ListX.
Open Scope nat_scope.

Definition topic := nat.
Definition abyssT : topic := 2.            (* vivid.AbyssTopic; 0 and 1 are ordinary topics, >= 3 nobody subscribes *)

Inductive ref := RNone | RGuard | RAct (a : nat) | ROther.

Inductive msg :=
| MUser (t : topic) (v : Z)                 (* payload published by the scenario: carries the topic it was published on *)
| MDirect (v : Z)                           (* payload sent directly (Tell/Ask), not through a topic *)
| MDead (snd rcv : ref) (inner : msg)       (* *vivid.OnAbyssMessageEvent{Sender, Receiver, Message} *)
| MBad.                                     (* never produced by the model (e.g. the envelope instead of the message) *)

Record sub := { s_id : nat; s_topic : topic; s_who : nat }.       (* messages.Subscription{Id, Topic, Subscriber} *)

(* d_seq: ghost — the serial number of the Publish call that caused the delivery (None: direct message) *)
Record delivery := { d_to : nat; d_msg : msg; d_from : ref; d_seq : option nat }.

Inductive req :=
| RSub (a : nat) (t : topic)                                       (* SubscribeRequest{Topic, Subscriber} (an ask) *)
| RUnsub (sb : sub)                                                (* UnsubscribeRequest{Subscription} (a tell) *)
| RPub (n : nat) (p : ref) (t : topic) (m : msg)                   (* LocalPublishRequest{Topic, Message}, sender p *)
       (expect : list sub) (gone : list nat).                      (* ghost stamps taken at the Publish CALL, see SubProofs *)

Record state := {
  table : list sub;             (* subscribes: every subscription present, insertion order *)
  guid : nat;                   (* the id counter *)
  queue : list req;             (* mailbox of the subscription actor, head = next to be processed *)
  alive : nat -> bool;          (* actor registered and not terminated *)
  blocked : nat -> bool;        (* inside Subscribe, waiting for the answer *)
  local : nat -> list sub;      (* ctx.subscriptions of the actor *)
  log : list delivery;          (* every user message appended to a subscriber's mailbox, in append order *)
  nextseq : nat;                (* ghost: serial number of the next Publish call *)
  issued : list sub;            (* ghost: every subscription ever returned by Subscribe, in order *)
  cancelled : list nat          (* ghost: ids for which an Unsubscribe request has been SENT (explicitly or by release) *)
}.

Definition init : state :=
  {| table := []; guid := 0; queue := []; alive := fun _ => false; blocked := fun _ => false; local := fun _ => [];
     log := []; nextseq := 0; issued := []; cancelled := [] |}.

Definition fupd {A} (f : nat -> A) (a : nat) (v : A) : nat -> A := fun x => if x =? a then v else f x.

Definition ref_eqb (x y : ref) : bool :=
  match x, y with
  | RNone, RNone | RGuard, RGuard | ROther, ROther => true
  | RAct a, RAct b => a =? b
  | _, _ => false
  end.

Fixpoint msg_eqb (x y : msg) : bool :=
  match x, y with
  | MUser t v, MUser t' v' => (t =? t') && Z.eqb v v'
  | MDirect v, MDirect v' => Z.eqb v v'
  | MDead s r i, MDead s' r' i' => ref_eqb s s' && ref_eqb r r' && msg_eqb i i'
  | _, _ => false                     (* MBad equals nothing, not even itself *)
  end.

Definition sub_eqb (x y : sub) : bool :=
  (s_id x =? s_id y) && (s_topic x =? s_topic y) && (s_who x =? s_who y).

Definition memb (k : nat) (l : list nat) : bool := existsb (Nat.eqb k) l.

(* subscriptions returned and not yet (asked to be) cancelled *)
Definition live (s : state) : list sub := filter (fun sb => negb (memb (s_id sb) (cancelled s))) (issued s).

Definition is_dead_event (m : msg) : bool := match m with MDead _ _ _ => true | _ => false end.

Definition can_act (s : state) (a : nat) : bool := alive s a && negb (blocked s a).

Definition can_send (s : state) (x : ref) : bool :=
  match x with RGuard => true | RAct a => can_act s a | _ => false end.

(* ---- field setters *)
Definition w_queue q (s : state) := {| table := table s; guid := guid s; queue := q; alive := alive s; blocked := blocked s;
  local := local s; log := log s; nextseq := nextseq s; issued := issued s; cancelled := cancelled s |}.
Definition w_log l (s : state) := {| table := table s; guid := guid s; queue := queue s; alive := alive s; blocked := blocked s;
  local := local s; log := l; nextseq := nextseq s; issued := issued s; cancelled := cancelled s |}.
Definition w_alive f (s : state) := {| table := table s; guid := guid s; queue := queue s; alive := f; blocked := blocked s;
  local := local s; log := log s; nextseq := nextseq s; issued := issued s; cancelled := cancelled s |}.
Definition w_blocked f (s : state) := {| table := table s; guid := guid s; queue := queue s; alive := alive s; blocked := f;
  local := local s; log := log s; nextseq := nextseq s; issued := issued s; cancelled := cancelled s |}.
Definition w_table t (s : state) := {| table := t; guid := guid s; queue := queue s; alive := alive s; blocked := blocked s;
  local := local s; log := log s; nextseq := nextseq s; issued := issued s; cancelled := cancelled s |}.

(* the dead-letter publications of one fan-out: one Publish call of the guard per dead subscriber *)
Definition dead_pubs (s : state) (p : ref) (m : msg) (ds : list sub) : list req :=
  map (fun '(n, sb) => RPub n RGuard abyssT (MDead p (RAct (s_who sb)) m) (live s) (cancelled s))
      (combine (seq (nextseq s) (length ds)) ds).

(* abyss.DeliveryUserMessage for ONE message (direct sends): dead-letter events are not published again *)
Definition abyss1 (s : state) (snd : ref) (rcv : nat) (m : msg) : state :=
  if is_dead_event m then s
  else {| table := table s; guid := guid s;
          queue := queue s ++ [RPub (nextseq s) RGuard abyssT (MDead snd (RAct rcv) m) (live s) (cancelled s)];
          alive := alive s; blocked := blocked s; local := local s; log := log s; nextseq := S (nextseq s);
          issued := issued s; cancelled := cancelled s |}.

(* ---- the subscription actor handles one request (the queue has already been popped) *)
Definition on_topic (t : topic) (sb : sub) : bool := s_topic sb =? t.

Definition proc (s : state) (r : req) : state :=
  match r with
  | RSub a t =>                                     (* onSubscribeRequest: guid++, insert, reply (the caller resumes) *)
      let sb := {| s_id := S (guid s); s_topic := t; s_who := a |} in
      {| table := table s ++ [sb]; guid := S (guid s); queue := queue s; alive := alive s;
         blocked := fupd (blocked s) a false; local := fupd (local s) a (local s a ++ [sb]);
         log := log s; nextseq := nextseq s; issued := issued s ++ [sb]; cancelled := cancelled s |}
  | RUnsub sb =>                                    (* onUnsubscribeRequest: delete(subscribes[topic], id) *)
      w_table (filter (fun x => negb ((s_id x =? s_id sb) && (s_topic x =? s_topic sb))) (table s)) s
  | RPub n p t m _ _ =>                             (* onLocalPublishRequest: one user message per subscription of the topic *)
      let subs := filter (on_topic t) (table s) in
      let here := filter (fun sb => alive s (s_who sb)) subs in
      let gone := filter (fun sb => negb (alive s (s_who sb))) subs in
      let dl := if is_dead_event m then [] else dead_pubs s p m gone in
      {| table := table s; guid := guid s; queue := queue s ++ dl; alive := alive s; blocked := blocked s;
         local := local s;
         log := log s ++ map (fun sb => {| d_to := s_who sb; d_msg := m; d_from := p; d_seq := Some n |}) here;
         nextseq := nextseq s + length dl; issued := issued s; cancelled := cancelled s |}
  end.

(* release of ctx.subscriptions: one UnSubscribe per entry (tryRestarted / tryTerminated) *)
Definition release (s : state) (a : nat) : state :=
  {| table := table s; guid := guid s; queue := queue s ++ map RUnsub (local s a); alive := alive s; blocked := blocked s;
     local := fupd (local s) a []; log := log s; nextseq := nextseq s; issued := issued s;
     cancelled := map s_id (local s a) ++ cancelled s |}.

Inductive event :=
| ECallSub (a : nat) (t : topic)                      (* ctx.Subscribe(t) called by a: request sent, a waits *)
| ECallUnsub (a : nat) (sb : sub)                     (* ctx.UnSubscribe(sb) by a (sb was returned to somebody before) *)
| ECallPub (p : ref) (t : topic) (m : msg)            (* ctx.Publish / ActorSystem.Publish (p = RGuard) *)
| ETell (x : ref) (ask : bool) (a : nat) (m : msg)    (* x sends m directly to actor a; sender shown = x (ask) or none (tell) *)
| ERestart (a : nat)                                  (* the release step of a restart (new instance follows) *)
| ETerminate (a : nat)                                (* the release step of a termination; a is gone afterwards *)
| ESpawn (a : nat)                                    (* an actor is created under the (free) address a *)
| EProc.                                              (* the subscription actor handles the next request *)

Definition estep (s : state) (e : event) : option state :=
  match e with
  | ECallSub a t =>
      if can_act s a then Some (w_blocked (fupd (blocked s) a true) (w_queue (queue s ++ [RSub a t]) s)) else None
  | ECallUnsub a sb =>
      if can_act s a && existsb (sub_eqb sb) (issued s) then
        Some {| table := table s; guid := guid s; queue := queue s ++ [RUnsub sb]; alive := alive s; blocked := blocked s;
                local := fupd (local s) a (filter (fun x => negb (s_id x =? s_id sb)) (local s a));
                log := log s; nextseq := nextseq s; issued := issued s; cancelled := s_id sb :: cancelled s |}
      else None
  | ECallPub p t m =>
      if can_send s p then
        Some {| table := table s; guid := guid s; queue := queue s ++ [RPub (nextseq s) p t m (live s) (cancelled s)];
                alive := alive s; blocked := blocked s; local := local s; log := log s; nextseq := S (nextseq s);
                issued := issued s; cancelled := cancelled s |}
      else None
  | ETell x ask a m =>
      if can_send s x then
        let snd := if ask then x else RNone in
        if alive s a then Some (w_log (log s ++ [{| d_to := a; d_msg := m; d_from := snd; d_seq := None |}]) s)
        else Some (abyss1 s snd a m)
      else None
  | ERestart a => if can_act s a then Some (release s a) else None
  | ETerminate a => if can_act s a then Some (w_alive (fupd (alive s) a false) (release s a)) else None
  | ESpawn a => if alive s a then None else Some (w_alive (fupd (alive s) a true) s)
  | EProc => match queue s with [] => None | r :: q => Some (proc (w_queue q s) r) end
  end.

Fixpoint run (s : state) (h : list event) : option state :=
  match h with
  | [] => Some s
  | e :: h' => match estep s e with Some s' => run s' h' | None => None end
  end.

(* the tree AS SHIPPED: tryTerminated releases BEFORE the OnTerminated handler runs; a handler that subscribes
   there leaves a subscription behind (used only for the refutation theorem) *)
Definition term_asis (s : state) (a : nat) (w : topic) : option state :=
  match estep s (ERestart a) with                       (* release, still alive: the handler runs next *)
  | Some s1 =>
      match run s1 (ECallSub a w :: repeat EProc (S (length (queue s1)))) with
      | Some s2 => Some (w_alive (fupd (alive s2) a false) s2)
      | None => None
      end
  | None => None
  end.

(* the tree AS SHIPPED, open finding C10-subscribe-timeout-leak: Subscribe is an ask with a 1 s timeout.  When the
   subscription actor is busy for longer, the call panics in the caller (the actor fails and is restarted: release), but
   the request stays queued; it is registered later and answered to nobody: the subscription is in the table, in nobody's
   ctx.subscriptions, and nothing will ever cancel it (used only for the refutation theorem) *)
Definition sub_timeout_asis (s : state) (a : nat) (t : topic) : state :=
  let s1 := release s a in
  let sb := {| s_id := S (guid s1); s_topic := t; s_who := a |} in
  {| table := table s1 ++ [sb]; guid := S (guid s1); queue := queue s1; alive := alive s1; blocked := blocked s1;
     local := local s1; log := log s1; nextseq := nextseq s1; issued := issued s1; cancelled := cancelled s1 |}.

(* ================= LAYER 2: sequential operations ================= *)

Inductive pubr := PSys | PAct (a : nat).
Definition ref_of (p : pubr) : ref := match p with PSys => RGuard | PAct a => RAct a end.

Inductive op :=
| OSpawn (a : nat) (ls : list topic)                     (* create actor a; its OnLaunch handler subscribes to ls *)
| OSub (a : nat) (t : topic)
| OUnsub (a : nat) (k : nat)                             (* a cancels the subscription with id k (its own or not) *)
| OPubN (p : pubr) (t : topic) (v : Z) (n : nat)              (* n publications v, v+1, ... made in ONE handler (n >= 1) *)
| OTell (x : pubr) (ask : bool) (a : nat) (v : Z)
| ORestart (a : nat) (w : option topic) (ls : list topic)  (* a fails; the old instance subscribes to w in its last handler, the new one to ls at launch *)
| OFail (a : nat) (ls : list topic)                      (* Subscribe("") / UnSubscribe(nil): the call panics => same as ORestart a None ls *)
| OTerm (a : nat) (g : bool) (w : option topic).         (* a terminates (gracefully or not); its last handler subscribes to w *)

Inductive out :=
| OOut (ids : list nat) (dl : list (nat * msg * ref))    (* ids returned by the Subscribe calls of the step; user messages handled during the step *)
| OSkip                                                  (* operation not applicable (actor absent / present, unknown id): nothing was done *)
| OBad.                                                  (* never produced by the model *)

Fixpoint drain (fuel : nat) (s : state) : option state :=
  match queue s with
  | [] => Some s
  | _ :: _ => match fuel with
              | 0 => None
              | S f => match estep s EProc with Some s' => drain f s' | None => None end
              end
  end.

Definition fuel0 := 400.

(* perform the events one after the other, emptying the queue after each (a blocking call returns, a tell is
   processed before the harness issues the next command) *)
Fixpoint exec (s : state) (es : list event) : option state :=
  match es with
  | [] => Some s
  | e :: es' =>
      match estep s e with
      | Some s1 => match drain fuel0 s1 with Some s2 => exec s2 es' | None => None end
      | None => None
      end
  end.

Definition nactors := 4.

Definition observe (s s' : state) : out :=
  let new := skipn (length (log s)) (log s') in
  OOut (seq (S (guid s)) (guid s' - guid s))
       (flat_map (fun a => map (fun d => (d_to d, d_msg d, d_from d)) (filter (fun d => d_to d =? a) new)) (seq 0 nactors)).

Definition subs_of (a : nat) (ts : list topic) : list event := map (ECallSub a) ts.
Definition will_of (a : nat) (w : option topic) : list event := match w with Some t => [ECallSub a t] | None => [] end.

Definition op_events (s : state) (o : op) : option (list event) :=
  match o with
  | OSpawn a ls => if alive s a then None else Some (ESpawn a :: subs_of a ls)
  | OSub a t => if alive s a then Some [ECallSub a t] else None
  | OUnsub a k =>
      if alive s a then
        match find (fun sb => s_id sb =? k) (issued s) with
        | Some sb => Some [ECallUnsub a sb]
        | None => None
        end
      else None
  | OPubN p t v n =>
      if can_send s (ref_of p) then Some (map (fun i => ECallPub (ref_of p) t (MUser t (v + Z.of_nat i))) (seq 0 n)) else None
  | OTell x ask a v => if can_send s (ref_of x) then Some [ETell (ref_of x) ask a (MDirect v)] else None
  | ORestart a w ls => if alive s a then Some (will_of a w ++ ERestart a :: subs_of a ls) else None
  | OFail a ls => if alive s a then Some (ERestart a :: subs_of a ls) else None
  | OTerm a g w => if alive s a then Some (will_of a w ++ [ETerminate a]) else None
  end.

Definition seq_step (s : state) (o : op) : state * out :=
  match op_events s o with
  | None => (s, OSkip)
  | Some es => match exec s es with
               | Some s' => (s', observe s s')
               | None => (s, OBad)            (* out of fuel / disabled event: excluded by the harness generator, counted *)
               end
  end.

Fixpoint seq_run (s : state) (ops : list op) : state * list out :=
  match ops with
  | [] => (s, [])
  | o :: t => let '(s1, x) := seq_step s o in let '(s2, xs) := seq_run s1 t in (s2, x :: xs)
  end.
