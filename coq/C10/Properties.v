(* MV.C10.Properties — the statements of property C10 ("a publication reaches every current subscriber of the
   topic exactly once") and nothing else.  Every theorem is closed by [exact <lemma>] and followed by
   Print Assumptions.

   The object: the machine of MV.C10.SubModel.  A history [h : list event] is ANY interleaving of API calls by
   any actors (ECallSub / ECallUnsub / ECallPub / ETell / ERestart / ETerminate / ESpawn) with processing steps
   EProc of the single subscription actor; [run init h = Some s] says that h is executable from the initial
   system and ends in s.  Assumed from the mailboxes (property C02): FIFO, each message handled exactly once.
   Ghost data used in the statements:
     issued s     every subscription a Subscribe call has RETURNED so far (order of return)
     cancelled s  the ids for which a cancel has been SENT: UnSubscribe was called, or the release of a restart /
                  termination was performed
     RPub n p t m ex gn   a publish request: n = serial number of the Publish call, p = publisher, and the stamps
                  taken AT THE CALL: ex = live s (returned and no cancel sent), gn = cancelled s      (C10_stamps)
     d_seq        the serial number of the Publish call a delivery belongs to. *)
From MV Require Import Lib.ListX C10.SubModel C10.SubProofs.
From Coq Require Import Sorting.Sorted.
Open Scope nat_scope.

(* Exactly once, nobody else, publisher as sender.  Whenever a publish request is at the head of the subscription
   actor's queue, handling it (i) is possible, (ii) leaves table and id counter alone, (iii) appends to the
   subscribers' mailboxes EXACTLY the list [fanout]: one user message (m, sender p) per subscription of topic t
   present in the table whose subscriber exists — nothing for any other actor, nothing twice; (iv) the subscriptions
   in the table have pairwise distinct ids, so "per subscription" is well defined: an actor that subscribed twice
   to the topic holds two subscriptions and gets two messages; (v) counted per live actor a: the number of messages
   appended to a's mailbox is the number of a's subscriptions on t. *)
Theorem C10_exactly_once : forall h s n p t m ex gn q,
  run init h = Some s -> queue s = RPub n p t m ex gn :: q ->
  exists s', estep s EProc = Some s' /\ table s' = table s /\ guid s' = guid s /\
    log s' = log s ++ fanout s n p t m /\
    NoDup (map s_id (table s)) /\
    (forall a, alive s a = true ->
       length (filter (fun d => d_to d =? a) (log s')) =
       length (filter (fun d => d_to d =? a) (log s)) +
       length (filter (fun sb => (s_topic sb =? t) && (s_who sb =? a)) (table s))).
Proof. exact exactly_once. Qed.
Print Assumptions C10_exactly_once.

(* what [fanout] is: sender = the publisher, message = the published one, for every element *)
Theorem C10_sender : forall s n p t m d,
  In d (fanout s n p t m) ->
  d_from d = p /\ d_msg d = m /\ d_seq d = Some n /\
  exists sb, In sb (table s) /\ s_topic sb = t /\ s_who sb = d_to d /\ alive s (d_to d) = true.
Proof.
  intros s n p t m d H. unfold fanout in H. apply in_map_iff in H. destruct H as [sb [E H]]. subst d. simpl.
  apply filter_In in H. destruct H as [H A]. apply filter_In in H. destruct H as [H T].
  unfold on_topic in T. apply Nat.eqb_eq in T. repeat split; auto. exists sb. auto.
Qed.
Print Assumptions C10_sender.

(* The stamps of a publish request are taken when Publish is CALLED: the request enters the queue at the tail with
   ex = the subscriptions returned so far for which no cancel has been sent, gn = the ids for which one has. *)
Theorem C10_stamps : forall s p t m s',
  estep s (ECallPub p t m) = Some s' ->
  queue s' = queue s ++ [RPub (nextseq s) p t m (live s) (cancelled s)] /\ nextseq s' = S (nextseq s) /\
  table s' = table s /\ log s' = log s.
Proof. exact callpub_stamp. Qed.
Print Assumptions C10_stamps.

Theorem C10_live_meaning : forall s sb, In sb (live s) <-> In sb (issued s) /\ ~ In (s_id sb) (cancelled s).
Proof. exact live_In. Qed.
Print Assumptions C10_live_meaning.

(* a subscription is RETURNED (enters [issued] and the caller's ctx.subscriptions) exactly when the subscription
   actor handles the request; it is then in the table *)
Theorem C10_subscribe_answer : forall s a t q s',
  queue s = RSub a t :: q -> estep s EProc = Some s' ->
  let sb := {| s_id := S (guid s); s_topic := t; s_who := a |} in
  issued s' = issued s ++ [sb] /\ local s' a = local s a ++ [sb] /\ table s' = table s ++ [sb] /\
  blocked s' a = false /\ cancelled s' = cancelled s.
Proof. exact subscribe_answer. Qed.
Print Assumptions C10_subscribe_answer.

(* a cancel is SENT exactly by UnSubscribe and by the release of a restart / termination (which sends one for every
   entry of ctx.subscriptions and empties it) *)
Theorem C10_cancel_calls : forall s e s',
  estep s e = Some s' ->
  match e with
  | ECallUnsub a sb => cancelled s' = s_id sb :: cancelled s
  | ERestart a | ETerminate a => cancelled s' = map s_id (local s a) ++ cancelled s /\ local s' a = []
  | _ => cancelled s' = cancelled s
  end.
Proof. exact cancel_calls. Qed.
Print Assumptions C10_cancel_calls.

(* Established before the publish => present when the publication is handled (FIFO of the subscription actor's
   queue): every subscription that had been returned by Subscribe, and for which no cancel had been sent, when
   Publish was called is in the table when the request is handled — whatever happened in between, in every history.
   With C10_exactly_once: it gets the message exactly once. *)
Theorem C10_established_before : forall h s n p t m ex gn q sb,
  run init h = Some s -> queue s = RPub n p t m ex gn :: q -> In sb ex -> In sb (table s).
Proof. exact established_present. Qed.
Print Assumptions C10_established_before.

(* Cancelled before the publish => absent when the publication is handled: an id for which UnSubscribe had been
   called, or the restart / termination release had been performed, when Publish was called is not in the table when
   the request is handled.  With C10_exactly_once: nothing is delivered for it. *)
Theorem C10_cancelled_after : forall h s n p t m ex gn q k,
  run init h = Some s -> queue s = RPub n p t m ex gn :: q -> In k gn ->
  forall sb, In sb (table s) -> s_id sb <> k.
Proof. exact cancelled_absent. Qed.
Print Assumptions C10_cancelled_after.

(* Publication order.  In every reachable state the serial numbers of the Publish calls, read along the append
   order of the deliveries, never decrease — for the whole system, hence for the messages of one publisher p in
   the mailbox of one subscriber a; and every serial number in use is smaller than the one the next call gets
   (C10_stamps: the call takes nextseq and increments it), so serial order = call order. *)
Theorem C10_publisher_order : forall h s a p,
  run init h = Some s ->
  StronglySorted le (lseqs (log s)) /\
  StronglySorted le (lseqs (filter (fun d => (d_to d =? a) && ref_eqb (d_from d) p) (log s))) /\
  (forall x, In x (lseqs (log s) ++ qseqs (queue s)) -> x < nextseq s).
Proof. exact publisher_order. Qed.
Print Assumptions C10_publisher_order.

(* Publishing to a topic nobody listens to is harmless: handling the request is possible and changes nothing but
   the queue (the request is consumed): same table, id counter, mailboxes, actors. *)
Theorem C10_no_listener_harmless : forall s n p t m ex gn q,
  queue s = RPub n p t m ex gn :: q -> (forall sb, In sb (table s) -> s_topic sb <> t) ->
  estep s EProc = Some (w_queue q s).
Proof. exact no_listener_harmless. Qed.
Print Assumptions C10_no_listener_harmless.

(* Subscription ids never collide: the ids handed out are 1, 2, 3, ... in order of return, the table holds
   pairwise distinct ids, all of them handed out before. *)
Theorem C10_ids_unique : forall h s,
  run init h = Some s ->
  NoDup (map s_id (table s)) /\ map s_id (issued s) = seq 1 (guid s) /\ incl (table s) (issued s).
Proof. exact ids_unique. Qed.
Print Assumptions C10_ids_unique.

(* Release is complete (repaired order: release after the last handler).  Once the subscription actor has caught
   up (empty queue), an actor whose ctx.subscriptions is empty — in particular one that has just been restarted
   (C10_cancel_calls) or has terminated (second part) — owns no subscription in the table: no later publication is
   delivered for it, also not to a new actor created under the same address. *)
Theorem C10_released_actor_has_no_subscription : forall h s a,
  run init h = Some s ->
  (alive s a = false -> local s a = []) /\
  (queue s = [] -> local s a = [] -> forall sb, In sb (table s) -> s_who sb <> a).
Proof.
  intros h s a R. split; [apply (dead_has_no_local h); auto|apply (released_no_subscription h); auto].
Qed.
Print Assumptions C10_released_actor_has_no_subscription.

(* The blocking Subscribe: an actor is waiting inside Subscribe iff exactly its request is still queued; it exists;
   so the answer finds it (the step of the subscriber is split around the reply, nothing is lost). *)
Theorem C10_subscribe_pending : forall h s a,
  run init h = Some s ->
  (blocked s a = true -> alive s a = true /\ exists t, In (RSub a t) (queue s)) /\
  (forall t, In (RSub a t) (queue s) -> blocked s a = true).
Proof. exact blocked_pending. Qed.
Print Assumptions C10_subscribe_pending.

(* The sequential operations the correspondence harness drives are histories of the machine, and they leave the
   subscription actor's queue empty: every theorem above applies to every state the harness visits. *)
Theorem C10_sequential_runs_are_histories : forall ops s outs,
  seq_run init ops = (s, outs) -> (exists h, run init h = Some s) /\ queue s = [].
Proof.
  intros ops s outs H. destruct (seq_run_reach ops init s outs H) as [R Q]. split; auto.
Qed.
Print Assumptions C10_sequential_runs_are_histories.

(* The tree AS SHIPPED releases the subscriptions BEFORE the last lifecycle handler of the instance runs
   (tryTerminated / tryRestarted): a handler that subscribes there leaves a subscription of a dead actor in the
   table for ever — C10_released_actor_has_no_subscription is false of it.  Repaired by
   fixes/C10-release-after-last-handler.patch (the model above has the repaired order). *)
Theorem C10_release_before_last_handler_refuted :
  exists h s a w s', run init h = Some s /\ term_asis s a w = Some s' /\
    queue s' = [] /\ alive s' a = false /\ exists sb, In sb (table s') /\ s_who sb = a.
Proof. exact release_asis_refuted. Qed.
Print Assumptions C10_release_before_last_handler_refuted.

(* OPEN FINDING C10-subscribe-timeout-leak (not repaired; outside the machine above, which has no timeouts): Subscribe
   is an ask with a 1 s timeout.  If the subscription actor is busy for longer, Subscribe panics in the caller — the
   actor fails and is restarted, its subscriptions are released — while the request stays queued and is registered
   afterwards, answered to nobody: a subscription that is in the table but in nobody's ctx.subscriptions.  The restarted
   actor receives publications it never (successfully) subscribed to, cannot cancel them, and the subscription survives
   its termination and is inherited by the next actor under the address:
   C10_released_actor_has_no_subscription is false of the tree as shipped. *)
Theorem C10_subscribe_timeout_leak_refuted :
  exists h s a t, run init h = Some s /\
    let s' := sub_timeout_asis s a t in
    queue s' = [] /\ local s' a = [] /\ (exists sb, In sb (table s') /\ s_who sb = a) /\
    exists s'', run s' [ETerminate a; ESpawn a] = Some s'' /\ queue s'' = [] /\ local s'' a = [] /\
                exists sb, In sb (table s'') /\ s_who sb = a.
Proof. exact subscribe_timeout_refuted. Qed.
Print Assumptions C10_subscribe_timeout_leak_refuted.

(* ====================================================================================== two linked systems
   PARTIAL: the remote clause of C10 ("two systems linked through sharing") is covered only for the SEQUENTIAL
   two-node model MV.C10.RemoteModel: link up and FIFO, both subscription actors know each other, every operation
   run to quiescence on both nodes before the next (no interleavings, no link failure / reopen, no dead letters).
   Missing for the full statement: the interleaving machine with one request queue per node and the in-flight
   broadcasts of the link (C11's link machine), and link failures.
   For every history of spawn / subscribe / unsubscribe (own, foreign, other node's) / publish / restart / terminate
   on two nodes: (1) (node, id) identifies a subscription: ids are unique PER NODE; (2) every subscription in either
   table belongs to a live actor of that node and is in that actor's ctx.subscriptions; (3) a terminated actor owns
   none; (4) a publication from either node is delivered exactly once per subscription of the topic on EITHER node,
   with the original publisher as sender. *)
From MV Require Import C10.RemoteModel C10.RemoteProofs.

Theorem C10_remote_exactly_once_partial : forall ops s outs,
  q_run qinit ops = (s, outs) ->
  NoDup (map (fun x => (q_node x, q_id x)) (qtab s)) /\
  (forall x, In x (qtab s) -> q_node x = node_of (q_who x) /\ qalive s (q_who x) = true /\ In x (qlocal s (q_who x))) /\
  (forall a, qalive s a = false -> forall x, In x (qtab s) -> q_who x <> a) /\
  (forall p t v, q_deliver s p t v = map (fun x => (q_who x, t, v, p)) (filter (fun x => q_topic x =? t) (qtab s))).
Proof. exact remote_partial. Qed.
Print Assumptions C10_remote_exactly_once_partial.

(* the release of a restart / termination removes every subscription of the actor from the table of its node *)
Theorem C10_remote_release_partial : forall ops s outs a,
  q_run qinit ops = (s, outs) -> forall x, In x (qtab (q_release s a)) -> q_who x <> a.
Proof. exact remote_release. Qed.
Print Assumptions C10_remote_release_partial.

(* a publication that is not a network message (the codec of the sharing layer cannot encode it) on a node that is linked
   to another one: it cannot travel, but it still reaches every subscription of the topic on the PUBLISHER's node exactly
   once, with the publisher as sender — and nobody on the other node; the tables are untouched *)
Theorem C10_remote_local_only_publication_partial : forall ops s outs p t v,
  q_run qinit ops = (s, outs) -> q_can_send s p = true ->
  q_step s (QPubL p t v) =
    (s, QOut [] (q_group (map (fun x => (q_who x, t, v, qref_of p))
                              (filter (fun x => (q_topic x =? t) && (q_node x =? qpub_node p)) (qtab s))))) /\
  (forall d, In d (q_deliver_local s p t v) -> let '(to, _, _, _) := d in node_of to = qpub_node p).
Proof. exact remote_local_only. Qed.
Print Assumptions C10_remote_local_only_publication_partial.

Example C10_example_remote_local_only :
  snd (q_run qinit [QSpawn 0 [0]; QSpawn 1 [0]; QSpawn 2 [0]; QPubL (QAct 0) 0 1%Z; QPubN (QAct 0) 0 2%Z 1; QPubL (QSys 1) 0 3%Z])
  = [QOut [1] []; QOut [2] []; QOut [1] [];
     QOut [] [(0, 0, 1%Z, QRef 0); (1, 0, 1%Z, QRef 0)];
     QOut [] [(0, 0, 2%Z, QRef 0); (1, 0, 2%Z, QRef 0); (2, 0, 2%Z, QRef 0)];
     QOut [] [(2, 0, 3%Z, QGuard 1)]].
Proof. vm_compute. reflexivity. Qed.

(* non-vacuity: subscriptions on both nodes with the SAME id 1, a burst from node 0, an UnSubscribe on node 1 with
   node 0's subscription (cancels nothing), restart on node 1, publication by the system of node 1 *)
Example C10_example_remote :
  snd (q_run qinit [QSpawn 0 [0]; QSpawn 2 [0]; QSpawn 3 []; QPubN (QAct 0) 0 1%Z 2; QUnsub 3 1; QPubN (QAct 3) 0 3%Z 1;
                    QRestart 2 None [1]; QPubN (QSys 1) 0 4%Z 1; QPubN (QSys 0) 1 5%Z 1])
  = [QOut [1] []; QOut [1] []; QOut [] [];
     QOut [] [(0, 0, 1%Z, QRef 0); (0, 0, 2%Z, QRef 0); (2, 0, 1%Z, QRef 0); (2, 0, 2%Z, QRef 0)];
     QOut [] []; QOut [] [(0, 0, 3%Z, QRef 3); (2, 0, 3%Z, QRef 3)];
     QOut [2] []; QOut [] [(0, 0, 4%Z, QGuard 1)]; QOut [] [(2, 1, 5%Z, QGuard 0)]].
Proof. vm_compute. reflexivity. Qed.

(* ------------------------------------------------------------------ non-vacuity *)

(* a concurrent history: a1 calls Subscribe, a0 publishes while that request is still queued, a0 cancels its
   second subscription, the system publishes; then the subscription actor answers a1 *)
Definition ex_hist : list event :=
  [ESpawn 0; ESpawn 1; ECallSub 0 0; EProc; ECallSub 0 0; EProc; ECallSub 1 0;
   ECallPub (RAct 0) 0 (MUser 0 7%Z);                       (* stamped: live = [1; 2] (3 is not returned yet), gone = [] *)
   ECallUnsub 0 {| s_id := 2; s_topic := 0; s_who := 0 |};
   ECallPub RGuard 0 (MUser 0 8%Z);                         (* stamped: live = [1], gone = [2] *)
   EProc].                                                  (* subscription 3 is answered; publication 7 is at the head *)

Example C10_example_hypotheses :
  exists s q, run init ex_hist = Some s /\
    queue s = RPub 0 (RAct 0) 0 (MUser 0 7%Z) [{| s_id := 1; s_topic := 0; s_who := 0 |}; {| s_id := 2; s_topic := 0; s_who := 0 |}] [] :: q /\
    map s_id (table s) = [1; 2; 3] /\ log s = [] /\
    exists s2 q2, run init (ex_hist ++ [EProc; EProc]) = Some s2 /\
    queue s2 = RPub 1 RGuard 0 (MUser 0 8%Z) [{| s_id := 1; s_topic := 0; s_who := 0 |}] [2] :: q2 /\
    map s_id (table s2) = [1; 3].
Proof. eexists. eexists. vm_compute. repeat split. eexists. eexists. repeat split. Qed.

Example C10_example_exactly_once :
  exists s, run init (ex_hist ++ [EProc; EProc; EProc]) = Some s /\ queue s = [] /\
    map (fun d => (d_to d, d_msg d, d_from d, d_seq d)) (log s) =
      [(0, MUser 0 7%Z, RAct 0, Some 0); (0, MUser 0 7%Z, RAct 0, Some 0); (1, MUser 0 7%Z, RAct 0, Some 0);
       (0, MUser 0 8%Z, RGuard, Some 1); (1, MUser 0 8%Z, RGuard, Some 1)].
Proof. eexists. vm_compute. repeat split. Qed.

(* publishing to a topic without subscription; a dead letter published on AbyssTopic; release on termination *)
Example C10_example_sequential :
  snd (seq_run init [OSpawn 0 [0]; OSpawn 1 [0; 2]; OSpawn 2 []; OUnsub 2 1; OPubN (PAct 2) 0 1%Z 2; OPubN PSys 5 9%Z 1;
                     OTerm 0 false (Some 0); OTell (PAct 2) true 0 4%Z; OSpawn 0 []; OPubN (PAct 2) 0 5%Z 1;
                     ORestart 1 None [1]; OPubN (PAct 2) 0 6%Z 1; OPubN (PAct 2) 1 7%Z 1])
  = [OOut [1] []; OOut [2; 3] []; OOut [] []; OOut [] [];
     OOut [] [(1, MUser 0 1%Z, RAct 2); (1, MUser 0 2%Z, RAct 2)]; OOut [] [];
     OOut [4] []; OOut [] [(1, MDead (RAct 2) (RAct 0) (MDirect 4%Z), RGuard)]; OOut [] [];
     OOut [] [(1, MUser 0 5%Z, RAct 2)]; OOut [5] []; OOut [] []; OOut [] [(1, MUser 1 7%Z, RAct 2)]].
Proof. vm_compute. reflexivity. Qed.

Example C10_example_no_listener :
  exists s, run init [ESpawn 0; ECallSub 0 0; EProc; ECallPub (RAct 0) 1 (MUser 1 3%Z)] = Some s /\
    (forall sb, In sb (table s) -> s_topic sb <> 1) /\ exists n p m ex gn, queue s = [RPub n p 1 m ex gn].
Proof.
  eexists. split; [vm_compute; reflexivity|]. split.
  - intros sb [H|[]]. subst. simpl. discriminate.
  - repeat eexists.
Qed.
