(* MV.C10.SubProofs — invariants of the publish/subscribe machine and the lemmas behind MV.C10.Properties. *)
From MV Require Import Lib.ListX C10.SubModel.
From Coq Require Import Sorting.Sorted.
Open Scope nat_scope.

(* ------------------------------------------------------------------ generic list facts *)

Lemma app_eq_split {A} (l l' q1 q2 : list A) (x : A) :
  l ++ l' = q1 ++ x :: q2 ->
  (exists q2', l = q1 ++ x :: q2' /\ q2 = q2' ++ l') \/ (exists q1', q1 = l ++ q1' /\ l' = q1' ++ x :: q2).
Proof.
  revert q1. induction l as [|a l IH]; intros q1 H; simpl in *.
  - right. exists q1. auto.
  - destruct q1 as [|b q1]; simpl in *.
    + inversion H; subst. left. exists l. auto.
    + inversion H; subst. destruct (IH _ H2) as [[q2' [E1 E2]]|[q1' [E1 E2]]].
      * left. exists q2'. subst. auto.
      * right. exists q1'. subst. auto.
Qed.

Lemma sorted_app (l1 l2 : list nat) :
  StronglySorted le (l1 ++ l2) <->
  StronglySorted le l1 /\ StronglySorted le l2 /\ (forall x y, In x l1 -> In y l2 -> x <= y).
Proof.
  induction l1 as [|a l1 IH]; simpl.
  - split.
    + intros H. repeat split; auto. constructor. intros x y [].
    + intros [_ [H _]]. exact H.
  - split.
    + intros H. inversion H as [|? ? Hs Hf]; subst. apply IH in Hs. destruct Hs as [S1 [S2 C]].
      rewrite Forall_forall in Hf. repeat split; auto.
      * constructor; auto. rewrite Forall_forall. intros x Hx. apply Hf. apply in_or_app. auto.
      * intros x y [Hx|Hx] Hy. { subst. apply Hf. apply in_or_app. auto. } apply C; auto.
    + intros [S1 [S2 C]]. inversion S1 as [|? ? Hs Hf]; subst. constructor.
      * apply IH. repeat split; auto.
      * rewrite Forall_forall in *. intros x Hx. apply in_app_or in Hx. destruct Hx as [Hx|Hx]; auto.
Qed.

Lemma sorted_all_eq (n : nat) (l : list nat) : (forall x, In x l -> x = n) -> StronglySorted le l.
Proof.
  induction l as [|a l IH]; intros H; constructor.
  - apply IH. intros x Hx. apply H. right. exact Hx.
  - rewrite Forall_forall. intros x Hx. rewrite (H a), (H x); simpl; auto.
Qed.

Lemma sorted_seq (a k : nat) : StronglySorted le (seq a k).
Proof.
  revert a. induction k as [|k IH]; intros a; simpl; constructor; auto.
  rewrite Forall_forall. intros x Hx. apply in_seq in Hx. lia.
Qed.

Lemma NoDup_map_filter {A B} (f : A -> B) (p : A -> bool) (l : list A) :
  NoDup (map f l) -> NoDup (map f (filter p l)).
Proof.
  induction l as [|a l IH]; simpl; intros H; auto. inversion H; subst.
  destruct (p a); simpl; auto. constructor; auto.
  intros Hin. apply H2. apply in_map_iff in Hin. destruct Hin as [x [E Hx]]. apply filter_In in Hx.
  apply in_map_iff. exists x. tauto.
Qed.

Lemma NoDup_map_inj {A B} (f : A -> B) (l : list A) x y :
  NoDup (map f l) -> In x l -> In y l -> f x = f y -> x = y.
Proof.
  induction l as [|a l IH]; simpl; intros H Hx Hy E; [tauto|]. inversion H; subst.
  destruct Hx as [Hx|Hx], Hy as [Hy|Hy]; subst; auto.
  - exfalso. apply H2. rewrite E. apply in_map. exact Hy.
  - exfalso. apply H2. rewrite <- E. apply in_map. exact Hx.
Qed.

(* ------------------------------------------------------------------ ghost projections *)

Definition qseqs (q : list req) : list nat :=
  flat_map (fun r => match r with RPub n _ _ _ _ _ => [n] | _ => [] end) q.
Definition lseqs (l : list delivery) : list nat :=
  flat_map (fun d => match d_seq d with Some n => [n] | None => [] end) l.
Definition nsub (a : nat) (q : list req) : nat :=
  length (filter (fun r => match r with RSub b _ => b =? a | _ => false end) q).

Lemma qseqs_app q1 q2 : qseqs (q1 ++ q2) = qseqs q1 ++ qseqs q2.
Proof. unfold qseqs. apply flat_map_app. Qed.
Lemma lseqs_app q1 q2 : lseqs (q1 ++ q2) = lseqs q1 ++ lseqs q2.
Proof. unfold lseqs. apply flat_map_app. Qed.
Lemma nsub_app a q1 q2 : nsub a (q1 ++ q2) = nsub a q1 + nsub a q2.
Proof. unfold nsub. rewrite filter_app, app_length. reflexivity. Qed.

Lemma qseqs_unsubs l : qseqs (map RUnsub l) = [].
Proof. induction l; simpl; auto. Qed.
Lemma nsub_unsubs a l : nsub a (map RUnsub l) = 0.
Proof. induction l; simpl; auto. Qed.

Lemma in_dead_pubs s p m ds r :
  In r (dead_pubs s p m ds) ->
  exists n sb, r = RPub n RGuard abyssT (MDead p (RAct (s_who sb)) m) (live s) (cancelled s) /\ nextseq s <= n.
Proof.
  unfold dead_pubs. intros H. apply in_map_iff in H. destruct H as [[n sb] [E H]]. subst.
  apply in_combine_l in H. apply in_seq in H. exists n, sb. split; auto. lia.
Qed.

Lemma qseqs_dead_pubs s p m ds : qseqs (dead_pubs s p m ds) = seq (nextseq s) (length ds).
Proof.
  unfold dead_pubs. generalize (nextseq s). induction ds as [|d ds IH]; intros n; simpl; auto.
  f_equal. apply IH.
Qed.

Lemma nsub_dead_pubs a s p m ds : nsub a (dead_pubs s p m ds) = 0.
Proof.
  unfold dead_pubs. generalize (nextseq s). induction ds as [|d ds IH]; intros n; simpl; auto. apply IH.
Qed.

Lemma length_dead_pubs s p m ds : length (dead_pubs s p m ds) = length ds.
Proof. unfold dead_pubs. rewrite map_length, combine_length, seq_length. lia. Qed.

Lemma live_In s sb : In sb (live s) <-> In sb (issued s) /\ ~ In (s_id sb) (cancelled s).
Proof.
  unfold live. rewrite filter_In. unfold memb. split; intros [H1 H2]; split; auto.
  - intros Hin. destruct (existsb (Nat.eqb (s_id sb)) (cancelled s)) eqn:E; [discriminate|].
    assert (existsb (Nat.eqb (s_id sb)) (cancelled s) = true); [|congruence].
    apply existsb_exists. exists (s_id sb). split; auto. apply Nat.eqb_refl.
  - destruct (existsb (Nat.eqb (s_id sb)) (cancelled s)) eqn:E; auto.
    apply existsb_exists in E. destruct E as [x [Hx E]]. apply Nat.eqb_eq in E. subst. tauto.
Qed.

Lemma sub_eqb_eq x y : sub_eqb x y = true <-> x = y.
Proof.
  unfold sub_eqb. destruct x, y; simpl. rewrite !andb_true_iff, !Nat.eqb_eq. split.
  - intros [[? ?] ?]; subst; auto.
  - intros H; inversion H; auto.
Qed.

Lemma fupd_same {A} (f : nat -> A) a v : fupd f a v a = v.
Proof. unfold fupd. rewrite Nat.eqb_refl. reflexivity. Qed.
Lemma fupd_other {A} (f : nat -> A) a b v : b <> a -> fupd f a v b = f b.
Proof. unfold fupd. intros H. destruct (b =? a) eqn:E; auto. apply Nat.eqb_eq in E. tauto. Qed.

(* ------------------------------------------------------------------ invariant A: ids, cancellation discipline, local maps *)

Record invA (s : state) : Prop := {
  a_ids : map s_id (issued s) = seq 1 (guid s);
  a_tab_issued : incl (table s) (issued s);
  a_tab_nodup : NoDup (map s_id (table s));
  a_unsub_q : forall sb, In (RUnsub sb) (queue s) -> In sb (issued s) /\ In (s_id sb) (cancelled s);
  a_live_tab : forall sb, In sb (issued s) -> ~ In (s_id sb) (cancelled s) -> In sb (table s);
  a_canc : forall sb, In sb (issued s) -> In (s_id sb) (cancelled s) -> ~ In sb (table s) \/ In (RUnsub sb) (queue s);
  a_canc_le : forall k, In k (cancelled s) -> k <= guid s;
  a_local : forall a sb, In sb (local s a) -> In sb (issued s) /\ s_who sb = a;
  a_tab_local : forall sb, In sb (table s) -> In sb (local s (s_who sb)) \/ In (s_id sb) (cancelled s);
  a_dead_local : forall a, alive s a = false -> local s a = [];
  a_nsub : forall a, nsub a (queue s) = if blocked s a then 1 else 0;
  a_blocked_alive : forall a, blocked s a = true -> alive s a = true }.

Lemma invA_init : invA init.
Proof.
  constructor; simpl; intros; try tauto; try discriminate; auto.
  - intros x H; exact H.
  - constructor.
Qed.

Lemma issued_le s sb : invA s -> In sb (issued s) -> 1 <= s_id sb <= guid s.
Proof.
  intros I H. apply (in_map s_id) in H. rewrite (a_ids _ I) in H. apply in_seq in H. lia.
Qed.

Lemma issued_inj s x y : invA s -> In x (issued s) -> In y (issued s) -> s_id x = s_id y -> x = y.
Proof.
  intros I Hx Hy E. eapply NoDup_map_inj; eauto. rewrite (a_ids _ I). apply seq_NoDup.
Qed.

(* frame: only RPub requests are appended to the queue, the log and the publish counter may change *)
Lemma invA_frame s s' l :
  invA s -> table s' = table s -> guid s' = guid s -> alive s' = alive s -> blocked s' = blocked s ->
  local s' = local s -> issued s' = issued s -> cancelled s' = cancelled s ->
  queue s' = queue s ++ l -> (forall r, In r l -> exists n p t m ex gn, r = RPub n p t m ex gn) ->
  invA s'.
Proof.
  intros I Et Eg Ea Eb El Ei Ec Eq Hl.
  assert (Hn : forall a, nsub a l = 0).
  { clear - Hl. intros a. unfold nsub. induction l as [|r l IH]; simpl; auto.
    destruct (Hl r (or_introl eq_refl)) as [n [p [t [m [ex [gn E]]]]]]. subst r. apply IH.
    intros r Hr. apply Hl. right. exact Hr. }
  destruct I. constructor; rewrite ?Et, ?Eg, ?Ea, ?Eb, ?El, ?Ei, ?Ec, ?Eq; auto.
  - intros sb H. apply in_app_or in H. destruct H as [H|H]; auto.
    destruct (Hl _ H) as [n [p [t [m [ex [gn E]]]]]]. discriminate.
  - intros sb H1 H2. destruct (a_canc0 sb H1 H2); auto. right. apply in_or_app. auto.
  - intros a. rewrite nsub_app, Hn, Nat.add_0_r. apply a_nsub0.
Qed.

Lemma invA_callsub s a t :
  invA s -> can_act s a = true ->
  invA (w_blocked (fupd (blocked s) a true) (w_queue (queue s ++ [RSub a t]) s)).
Proof.
  intros I C. unfold can_act in C. apply andb_true_iff in C. destruct C as [Ca Cb]. apply negb_true_iff in Cb.
  destruct I. constructor; simpl.
  - exact a_ids0.
  - exact a_tab_issued0.
  - exact a_tab_nodup0.
  - intros sb H. apply in_app_or in H. destruct H as [H|[H|[]]]; auto. discriminate.
  - exact a_live_tab0.
  - intros sb H1 H2. destruct (a_canc0 sb H1 H2); auto. right. apply in_or_app. auto.
  - exact a_canc_le0.
  - exact a_local0.
  - exact a_tab_local0.
  - exact a_dead_local0.
  - intros b. rewrite nsub_app. simpl. unfold fupd. specialize (a_nsub0 b). unfold nsub at 2. simpl.
    destruct (Nat.eqb_spec a b) as [E|E].
    + subst b. rewrite Nat.eqb_refl. rewrite Cb in a_nsub0. simpl. lia.
    + destruct (Nat.eqb_spec b a) as [E'|E']; [congruence|]. simpl. lia.
  - intros b. unfold fupd. destruct (Nat.eqb_spec b a); subst; auto.
Qed.

Lemma invA_callunsub s a sb :
  invA s -> In sb (issued s) ->
  invA {| table := table s; guid := guid s; queue := queue s ++ [RUnsub sb]; alive := alive s; blocked := blocked s;
          local := fupd (local s) a (filter (fun x => negb (s_id x =? s_id sb)) (local s a));
          log := log s; nextseq := nextseq s; issued := issued s; cancelled := s_id sb :: cancelled s |}.
Proof.
  intros I Hsb. pose proof (issued_le _ _ I Hsb) as Hle. pose proof (fun x y => issued_inj s x y I) as Inj.
  destruct I. constructor; simpl.
  - exact a_ids0.
  - exact a_tab_issued0.
  - exact a_tab_nodup0.
  - intros x H. apply in_app_or in H. destruct H as [H|[H|[]]].
    + destruct (a_unsub_q0 x H). auto.
    + inversion H; subst. auto.
  - intros x H1 H2. apply a_live_tab0; auto.
  - intros x H1 [H2|H2].
    + right. apply in_or_app. right. left. f_equal. apply Inj; auto.
    + destruct (a_canc0 x H1 H2); auto. right. apply in_or_app. auto.
  - intros k [H|H]; [lia|auto].
  - intros b x. unfold fupd. destruct (Nat.eqb_spec b a) as [E|E]; auto. subst b.
    intros H. apply filter_In in H. apply a_local0. tauto.
  - intros x H. unfold fupd. destruct (Nat.eqb_spec (s_who x) a) as [E|E].
    + destruct (Nat.eqb_spec (s_id x) (s_id sb)) as [E2|E2]; auto.
      destruct (a_tab_local0 x H) as [H2|H2]; auto. left. apply filter_In. split; [congruence|].
      apply negb_true_iff. apply Nat.eqb_neq. exact E2.
    + destruct (a_tab_local0 x H); auto.
  - intros b Hb. unfold fupd. destruct (Nat.eqb_spec b a) as [E|E]; auto. subst. rewrite (a_dead_local0 a Hb). reflexivity.
  - intros b. rewrite nsub_app. simpl. rewrite Nat.add_0_r. auto.
  - exact a_blocked_alive0.
Qed.

Lemma invA_release s a :
  invA s -> invA (release s a).
Proof.
  intros I. destruct I. constructor; simpl.
  - exact a_ids0.
  - exact a_tab_issued0.
  - exact a_tab_nodup0.
  - intros x H. apply in_app_or in H. destruct H as [H|H].
    + destruct (a_unsub_q0 x H). split; auto. apply in_or_app. auto.
    + apply in_map_iff in H. destruct H as [y [E H]]. inversion E; subst y. split.
      * apply (a_local0 a x H).
      * apply in_or_app. left. apply in_map. exact H.
  - intros x H1 H2. apply a_live_tab0; auto. intros H3. apply H2. apply in_or_app. auto.
  - intros x H1 H2. apply in_app_or in H2. destruct H2 as [H2|H2].
    + right. apply in_or_app. right. apply in_map_iff in H2. destruct H2 as [y [E H2]].
      assert (y = x); [|subst; apply in_map; auto].
      eapply NoDup_map_inj with (f := s_id) (l := issued s); eauto.
      * rewrite a_ids0. apply seq_NoDup.
      * apply (a_local0 a y H2).
    + destruct (a_canc0 x H1 H2); auto. right. apply in_or_app. auto.
  - intros k H. apply in_app_or in H. destruct H as [H|H]; auto.
    apply in_map_iff in H. destruct H as [y [E H]]. subst k.
    destruct (a_local0 a y H) as [Hy _]. apply (in_map s_id) in Hy. rewrite a_ids0 in Hy. apply in_seq in Hy. lia.
  - intros b x. unfold fupd. destruct (Nat.eqb_spec b a); [intros []|auto].
  - intros x H. unfold fupd. destruct (Nat.eqb_spec (s_who x) a) as [E|E].
    + right. apply in_or_app. destruct (a_tab_local0 x H) as [H2|H2]; auto. left. apply in_map. congruence.
    + destruct (a_tab_local0 x H); auto. right. apply in_or_app. auto.
  - intros b Hb. unfold fupd. destruct (Nat.eqb_spec b a); auto.
  - intros b. rewrite nsub_app, nsub_unsubs, Nat.add_0_r. auto.
  - exact a_blocked_alive0.
Qed.

Lemma invA_terminate s a :
  invA s -> blocked s a = false -> invA (w_alive (fupd (alive s) a false) (release s a)).
Proof.
  intros I Cb. pose proof (invA_release _ a I) as R. destruct R. constructor; auto.
  - simpl. intros b. unfold fupd at 1. destruct (Nat.eqb_spec b a) as [E|E].
    + intros _. subst. unfold fupd. rewrite Nat.eqb_refl. reflexivity.
    + apply a_dead_local0.
  - simpl. intros b Hb. unfold fupd. destruct (Nat.eqb_spec b a) as [E|E]; [subst; simpl in *; congruence|].
    apply a_blocked_alive0. exact Hb.
Qed.

Lemma invA_spawn s a : invA s -> alive s a = false -> invA (w_alive (fupd (alive s) a true) s).
Proof.
  intros I Ha. destruct I. constructor; auto; simpl.
  - intros b. unfold fupd. destruct (Nat.eqb_spec b a); [discriminate|auto].
  - intros b Hb. unfold fupd. destruct (Nat.eqb_spec b a); auto.
Qed.

Lemma NoDup_snoc {A} (l : list A) (x : A) : NoDup l -> ~ In x l -> NoDup (l ++ [x]).
Proof.
  induction l as [|a l IH]; simpl; intros H N.
  - constructor; [auto|constructor].
  - inversion H; subst. constructor.
    + intros Hin. apply in_app_or in Hin. destruct Hin as [Hin|[Hin|[]]]; auto.
    + apply IH; auto.
Qed.

Lemma invA_proc_sub s a t q :
  invA s -> queue s = RSub a t :: q -> invA (proc (w_queue q s) (RSub a t)).
Proof.
  intros I Q. pose proof (a_nsub _ I a) as Na. rewrite Q in Na. unfold nsub in Na. simpl in Na. rewrite Nat.eqb_refl in Na. simpl in Na.
  assert (Hb : blocked s a = true) by (destruct (blocked s a); auto; discriminate).
  assert (Nq : nsub a q = 0) by (rewrite Hb in Na; unfold nsub; lia).
  pose proof (a_blocked_alive _ I a Hb) as Hal.
  pose proof (fun sb H => issued_le s sb I H) as Ile.
  destruct I. rewrite Q in *. constructor; simpl.
  - rewrite map_app, a_ids0. simpl. change (1 :: seq 2 (guid s)) with (seq 1 (S (guid s))). rewrite seq_S. reflexivity.
  - intros x H. apply in_app_or in H. apply in_or_app. destruct H as [H|H]; auto.
  - rewrite map_app. simpl. apply NoDup_snoc.
    + exact a_tab_nodup0.
    + intros H. apply in_map_iff in H. destruct H as [x [E H]]. apply a_tab_issued0 in H. apply Ile in H. lia.
  - intros x H. destruct (a_unsub_q0 x (or_intror H)). split; auto. apply in_or_app. auto.
  - intros x H1 H2. apply in_or_app. apply in_app_or in H1. destruct H1 as [H1|H1]; auto.
  - intros x H1 H2. apply in_app_or in H1. destruct H1 as [H1|[H1|[]]].
    + destruct (a_canc0 x H1 H2) as [H3|[H3|H3]]; [|discriminate|auto].
      left. intros H4. apply in_app_or in H4. destruct H4 as [H4|[H4|[]]]; auto.
      subst x. apply Ile in H1. simpl in H1. lia.
    + subst x. simpl in H2. apply a_canc_le0 in H2. lia.
  - intros k H. apply a_canc_le0 in H. lia.
  - intros b x. unfold fupd. destruct (Nat.eqb_spec b a) as [E|E].
    + subst b. intros H. apply in_app_or in H. destruct H as [H|[H|[]]].
      * destruct (a_local0 a x H). split; auto. apply in_or_app. auto.
      * subst x. simpl. split; auto. apply in_or_app. right. left. reflexivity.
    + intros H. destruct (a_local0 b x H). split; auto. apply in_or_app. auto.
  - intros x H. unfold fupd. apply in_app_or in H. destruct H as [H|[H|[]]].
    + destruct (a_tab_local0 x H) as [H2|H2]; auto. left. destruct (Nat.eqb_spec (s_who x) a) as [E|E]; auto.
      apply in_or_app. left. congruence.
    + subst x. simpl. rewrite Nat.eqb_refl. left. apply in_or_app. right. left. reflexivity.
  - intros b Hb'. unfold fupd. destruct (Nat.eqb_spec b a) as [E|E]; [subst; congruence|auto].
  - intros b. specialize (a_nsub0 b). unfold nsub in *. simpl in a_nsub0. unfold fupd.
    destruct (Nat.eqb_spec a b) as [E|E].
    + subst b. rewrite Nat.eqb_refl. exact Nq.
    + destruct (Nat.eqb_spec b a) as [E'|E']; [congruence|]. exact a_nsub0.
  - intros b. unfold fupd. destruct (Nat.eqb_spec b a); [discriminate|auto].
Qed.

Lemma invA_proc_unsub s sb0 q :
  invA s -> queue s = RUnsub sb0 :: q -> invA (proc (w_queue q s) (RUnsub sb0)).
Proof.
  intros I Q. destruct (a_unsub_q _ I sb0) as [Hi Hc]; [rewrite Q; left; reflexivity|].
  destruct I. rewrite Q in *. constructor; simpl.
  - exact a_ids0.
  - intros x H. apply filter_In in H. apply a_tab_issued0. tauto.
  - apply NoDup_map_filter. exact a_tab_nodup0.
  - intros x H. apply a_unsub_q0. right. exact H.
  - intros x H1 H2. apply filter_In. split; [apply a_live_tab0; auto|].
    apply negb_true_iff. apply andb_false_iff. left. apply Nat.eqb_neq. intros E. apply H2. rewrite E. exact Hc.
  - intros x H1 H2. destruct (a_canc0 x H1 H2) as [H3|[H3|H3]].
    + left. intros H4. apply filter_In in H4. tauto.
    + inversion H3; subst x. left. intros H4. apply filter_In in H4. destruct H4 as [_ H4].
      rewrite !Nat.eqb_refl in H4. discriminate.
    + right. exact H3.
  - exact a_canc_le0.
  - exact a_local0.
  - intros x H. apply filter_In in H. apply a_tab_local0. tauto.
  - exact a_dead_local0.
  - intros b. specialize (a_nsub0 b). unfold nsub in *. simpl in a_nsub0. exact a_nsub0.
  - exact a_blocked_alive0.
Qed.

Lemma invA_pop_pub s n p t m ex gn q :
  invA s -> queue s = RPub n p t m ex gn :: q -> invA (w_queue q s).
Proof.
  intros I Q. destruct I. rewrite Q in *. constructor; simpl; auto.
  - intros x H. apply a_unsub_q0. right. exact H.
  - intros x H1 H2. destruct (a_canc0 x H1 H2) as [H3|[H3|H3]]; auto. discriminate.
Qed.

Lemma invA_proc_pub s n p t m ex gn q :
  invA s -> queue s = RPub n p t m ex gn :: q -> invA (proc (w_queue q s) (RPub n p t m ex gn)).
Proof.
  intros I Q. eapply invA_frame with (s := w_queue q s); [eapply invA_pop_pub; eauto| | | | | | | | |]; simpl; try reflexivity.
  intros r H. destruct (is_dead_event m); [destruct H|].
  apply in_dead_pubs in H. destruct H as [k [sb [E _]]]. subst r. repeat eexists.
Qed.

Lemma invA_step s e s' : invA s -> estep s e = Some s' -> invA s'.
Proof.
  intros I H. destruct e; simpl in H.
  - destruct (can_act s a) eqn:C; inversion H; subst. apply invA_callsub; auto.
  - destruct (can_act s a && existsb (sub_eqb sb) (issued s)) eqn:C; inversion H; subst.
    apply andb_true_iff in C. destruct C as [_ C]. apply existsb_exists in C. destruct C as [x [Hx E]].
    apply sub_eqb_eq in E. subst x. apply invA_callunsub; auto.
  - destruct (can_send s p); inversion H; subst.
    eapply invA_frame with (l := [_]); eauto; simpl; try reflexivity.
    intros r [E|[]]. subst r. repeat eexists.
  - destruct (can_send s x); [|discriminate]. destruct (alive s a); inversion H; subst.
    + eapply invA_frame with (l := []); eauto; simpl; try reflexivity; [rewrite app_nil_r; reflexivity|intros r []].
    + unfold abyss1. destruct (is_dead_event m); auto.
      eapply invA_frame with (l := [_]); eauto; simpl; try reflexivity.
      intros r [E|[]]. subst r. repeat eexists.
  - destruct (can_act s a) eqn:C; inversion H; subst. apply invA_release; auto.
  - destruct (can_act s a) eqn:C; inversion H; subst. apply invA_terminate; auto.
    unfold can_act in C. apply andb_true_iff in C. destruct C as [_ C]. apply negb_true_iff in C. exact C.
  - destruct (alive s a) eqn:C; inversion H; subst. apply invA_spawn; auto.
  - destruct (queue s) as [|r q] eqn:Q; inversion H; subst. destruct r.
    + apply invA_proc_sub; auto.
    + apply invA_proc_unsub; auto.
    + apply invA_proc_pub; auto.
Qed.

Lemma invA_run h : forall s s', invA s -> run s h = Some s' -> invA s'.
Proof.
  induction h as [|e h IH]; simpl; intros s s' I H.
  - inversion H; subst; auto.
  - destruct (estep s e) eqn:E; [|discriminate]. eapply IH; [eapply invA_step; eauto|exact H].
Qed.

(* ------------------------------------------------------------------ invariant B: the ghost stamps of queued publications *)

(* For every publish request waiting in the queue, with the requests q1 ahead of it:
   - every subscription that was live (returned, no cancel sent) when Publish was CALLED is in the table and no
     Unsubscribe for it is ahead of the request;
   - every id for which a cancel had been SENT when Publish was called is absent from the table, or its Unsubscribe
     is ahead of the request. *)
Definition stampP (tab : list sub) (g : nat) (qu : list req) : Prop :=
  forall q1 n p t m ex gn q2, qu = q1 ++ RPub n p t m ex gn :: q2 ->
    (forall sb, In sb ex -> In sb tab /\ ~ In (RUnsub sb) q1) /\
    (forall k, In k gn -> k <= g /\
       ((forall sb, In sb tab -> s_id sb <> k) \/ exists sb, s_id sb = k /\ In (RUnsub sb) q1)).
Definition stampOK (s : state) : Prop := stampP (table s) (guid s) (queue s).

Definition no_pub (l : list req) : Prop := forall r, In r l -> match r with RPub _ _ _ _ _ _ => False | _ => True end.

Lemma stamp_append tab g qu l : stampP tab g qu -> no_pub l -> stampP tab g (qu ++ l).
Proof.
  intros S N q1 n p t m ex gn q2 E. apply app_eq_split in E. destruct E as [[q2' [E1 E2]]|[q1' [E1 E2]]].
  - eapply S; eauto.
  - exfalso. specialize (N (RPub n p t m ex gn)). simpl in N. apply N. rewrite E2. apply in_or_app. right. left. reflexivity.
Qed.

Lemma id_dec_list (l : list sub) k : (forall sb, In sb l -> s_id sb <> k) \/ (exists sb, In sb l /\ s_id sb = k).
Proof.
  induction l as [|a l IH]; simpl.
  - left. intros sb [].
  - destruct (Nat.eq_dec (s_id a) k) as [E|E].
    + right. exists a. auto.
    + destruct IH as [IH|[sb [H1 H2]]].
      * left. intros sb [H|H]; subst; auto.
      * right. exists sb. auto.
Qed.

Lemma stamp_append_pub s l :
  invA s -> stampOK s ->
  (forall r, In r l -> exists n p t m, r = RPub n p t m (live s) (cancelled s)) ->
  stampP (table s) (guid s) (queue s ++ l).
Proof.
  intros I S L q1 n p t m ex gn q2 E. apply app_eq_split in E. destruct E as [[q2' [E1 E2]]|[q1' [E1 E2]]].
  - eapply S; eauto.
  - assert (Hr : In (RPub n p t m ex gn) l) by (rewrite E2; apply in_or_app; right; left; reflexivity).
    destruct (L _ Hr) as [n' [p' [t' [m' Er]]]]. inversion Er; subst ex gn. clear Er.
    assert (Hq1' : forall sb, ~ In (RUnsub sb) q1').
    { intros sb H. destruct (L (RUnsub sb)) as [? [? [? [? Er]]]]; [rewrite E2; apply in_or_app; auto|discriminate]. }
    subst q1. split.
    + intros sb Hlv. apply live_In in Hlv. destruct Hlv as [Hl1 Hl2]. split.
      * apply (a_live_tab _ I); auto.
      * intros Hu. apply in_app_or in Hu. destruct Hu as [Hu|Hu]; [|eapply Hq1'; eauto].
        apply (a_unsub_q _ I) in Hu. tauto.
    + intros k H. split; [apply (a_canc_le _ I); auto|].
      destruct (id_dec_list (table s) k) as [D|[sb [D1 D2]]]; auto.
      right. exists sb. split; auto. apply in_or_app. left.
      destruct (a_canc _ I sb) as [C|C]; auto; [apply (a_tab_issued _ I); auto|congruence|tauto].
Qed.

Lemma stampOK_step s e s' : invA s -> stampOK s -> estep s e = Some s' -> stampOK s'.
Proof.
  intros I S H. unfold stampOK in *. destruct e; simpl in H.
  - destruct (can_act s a); inversion H; subst; simpl. apply stamp_append; auto.
    intros r [E|[]]; subst; exact Logic.I.
  - destruct (can_act s a && existsb (sub_eqb sb) (issued s)); inversion H; subst; simpl. apply stamp_append; auto.
    intros r [E|[]]; subst; exact Logic.I.
  - destruct (can_send s p); inversion H; subst; simpl. apply stamp_append_pub; auto.
    intros r [E|[]]; subst. repeat eexists.
  - destruct (can_send s x); [|discriminate]. destruct (alive s a); inversion H; subst; simpl; auto.
    unfold abyss1. destruct (is_dead_event m); simpl; auto. apply stamp_append_pub; auto.
    intros r [E|[]]; subst. repeat eexists.
  - destruct (can_act s a); inversion H; subst; simpl. apply stamp_append; auto.
    intros r Hr. apply in_map_iff in Hr. destruct Hr as [x [E _]]. subst. exact Logic.I.
  - destruct (can_act s a); inversion H; subst; simpl. apply stamp_append; auto.
    intros r Hr. apply in_map_iff in Hr. destruct Hr as [x [E _]]. subst. exact Logic.I.
  - destruct (alive s a); inversion H; subst; simpl. exact S.
  - destruct (queue s) as [|r q] eqn:Q; inversion H; subst. clear H. destruct r as [a t|sb0|n p t m ex gn].
    + (* a subscribe request is processed: the table grows by a fresh id *)
      simpl. intros q1 n p t' m ex gn q2 E.
      destruct (S (RSub a t :: q1) n p t' m ex gn q2) as [S1 S2]; [rewrite E; reflexivity|]. split.
      * intros sb Hs. destruct (S1 sb Hs) as [A B]. split; [apply in_or_app; auto|]. intros C. apply B. right. exact C.
      * intros k Hk. destruct (S2 k Hk) as [A B]. split; [lia|]. destruct B as [B|[sb [B1 [B2|B2]]]].
        -- left. intros sb Hs. apply in_app_or in Hs. destruct Hs as [Hs|[Hs|[]]]; auto. subst sb. simpl. lia.
        -- discriminate.
        -- right. exists sb. auto.
    + (* an unsubscribe request is processed *)
      simpl. destruct (a_unsub_q _ I sb0) as [Hi0 Hc0]; [rewrite Q; left; reflexivity|].
      intros q1 n p t' m ex gn q2 E.
      destruct (S (RUnsub sb0 :: q1) n p t' m ex gn q2) as [S1 S2]; [rewrite E; reflexivity|]. split.
      * intros sb Hs. destruct (S1 sb Hs) as [A B]. split; [|intros C; apply B; right; exact C].
        apply filter_In. split; auto. apply negb_true_iff. apply andb_false_iff. left. apply Nat.eqb_neq. intros Eid.
        apply B. left. f_equal. symmetry. apply (issued_inj s); auto. apply (a_tab_issued _ I). exact A.
      * intros k Hk. destruct (S2 k Hk) as [A B]. split; auto. destruct B as [B|[sb [B1 [B2|B2]]]].
        -- left. intros sb Hs. apply filter_In in Hs. apply B. tauto.
        -- inversion B2; subst sb0. left. intros x Hx Ex. apply filter_In in Hx. destruct Hx as [Hx Hf].
           assert (x = sb); [apply (issued_inj s); auto; [apply (a_tab_issued _ I); auto|congruence]|].
           subst x. rewrite !Nat.eqb_refl in Hf. discriminate.
        -- right. exists sb. auto.
    + (* a publication is processed: dead-letter publications are appended *)
      simpl.
      assert (S0 : stampOK (w_queue q s)).
      { intros q1 n' p' t' m' ex' gn' q2 E. simpl in E.
        destruct (S (RPub n p t m ex gn :: q1) n' p' t' m' ex' gn' q2) as [S1 S2]; [rewrite E; reflexivity|]. split.
        - intros sb Hs. destruct (S1 sb Hs) as [A B]. split; auto. intros C. apply B. right. exact C.
        - intros k Hk. destruct (S2 k Hk) as [A B]. split; auto. destruct B as [B|[sb [B1 [B2|B2]]]]; auto; [discriminate|].
          right. exists sb. auto. }
      apply (stamp_append_pub (w_queue q s)); auto; [eapply invA_pop_pub; eauto|].
      intros r Hr. destruct (is_dead_event m); [destruct Hr|].
      apply in_dead_pubs in Hr. destruct Hr as [k [sb [E _]]]. subst r. repeat eexists.
Qed.

Lemma stampOK_init : stampOK init.
Proof. intros q1 n p t m ex gn q2 E. simpl in E. destruct q1; discriminate. Qed.

(* ------------------------------------------------------------------ invariant C: publication order *)

(* serial numbers of the deliveries already appended, followed by those of the publications still queued:
   non-decreasing, and all smaller than the number the next Publish call will get *)
Definition orderOK (s : state) : Prop :=
  StronglySorted le (lseqs (log s) ++ qseqs (queue s)) /\
  (forall x, In x (lseqs (log s) ++ qseqs (queue s)) -> x < nextseq s).

Lemma order_push L ns : StronglySorted le L -> (forall x, In x L -> x < ns) ->
  StronglySorted le (L ++ [ns]) /\ (forall x, In x (L ++ [ns]) -> x < S ns).
Proof.
  intros S B. split.
  - apply sorted_app. repeat split; auto.
    + constructor; constructor.
    + intros x y Hx [Hy|[]]. subst. apply B in Hx. lia.
  - intros x Hx. apply in_app_or in Hx. destruct Hx as [Hx|[Hx|[]]]; [apply B in Hx|]; lia.
Qed.

Lemma order_pop L n Q N D ns :
  StronglySorted le (L ++ n :: Q) -> (forall x, In x (L ++ n :: Q) -> x < ns) ->
  (forall x, In x N -> x = n) -> D = seq ns (length D) ->
  StronglySorted le ((L ++ N) ++ Q ++ D) /\ (forall x, In x ((L ++ N) ++ Q ++ D) -> x < ns + length D).
Proof.
  intros S B HN HD. apply sorted_app in S. destruct S as [SL [SQ C]].
  inversion SQ as [|? ? SQ' FQ]; subst. rewrite Forall_forall in FQ.
  assert (BD : forall y, In y D -> ns <= y < ns + length D) by (intros y Hy; rewrite HD in Hy; apply in_seq in Hy; lia).
  assert (Bn : n < ns) by (apply B; apply in_or_app; right; left; reflexivity).
  assert (BQ : forall y, In y Q -> y < ns) by (intros y Hy; apply B; apply in_or_app; right; right; exact Hy).
  assert (BL : forall y, In y L -> y <= n) by (intros y Hy; apply C; simpl; auto).
  split.
  - apply sorted_app. repeat split.
    + apply sorted_app. repeat split; auto.
      * eapply sorted_all_eq; eauto.
      * intros x y Hx Hy. apply HN in Hy. subst. auto.
    + apply sorted_app. repeat split; auto.
      * rewrite HD. apply sorted_seq.
      * intros x y Hx Hy. apply BQ in Hx. apply BD in Hy. lia.
    + intros x y Hx Hy. assert (x <= n).
      { apply in_app_or in Hx. destruct Hx as [Hx|Hx]; [auto|apply HN in Hx; lia]. }
      apply in_app_or in Hy. destruct Hy as [Hy|Hy]; [apply FQ in Hy|apply BD in Hy]; lia.
  - intros x Hx. apply in_app_or in Hx. destruct Hx as [Hx|Hx].
    + apply in_app_or in Hx. destruct Hx as [Hx|Hx]; [apply BL in Hx|apply HN in Hx]; lia.
    + apply in_app_or in Hx. destruct Hx as [Hx|Hx]; [apply BQ in Hx|apply BD in Hx]; lia.
Qed.

Lemma lseqs_fanout (m : msg) (p : ref) (n : nat) (l : list sub) x :
  In x (lseqs (map (fun sb => {| d_to := s_who sb; d_msg := m; d_from := p; d_seq := Some n |}) l)) -> x = n.
Proof. induction l as [|a l IH]; simpl; [tauto|]. intros [H|H]; auto. Qed.

Lemma orderOK_init : orderOK init.
Proof. split; simpl; [constructor|tauto]. Qed.

Lemma orderOK_step s e s' : orderOK s -> estep s e = Some s' -> orderOK s'.
Proof.
  intros [S B] H. unfold orderOK. destruct e; simpl in H.
  - destruct (can_act s a); inversion H; subst; simpl. rewrite qseqs_app. simpl. rewrite app_nil_r. auto.
  - destruct (can_act s a && existsb (sub_eqb sb) (issued s)); inversion H; subst; simpl.
    rewrite qseqs_app. simpl. rewrite app_nil_r. auto.
  - destruct (can_send s p); inversion H; subst; simpl. rewrite qseqs_app. simpl. rewrite app_assoc. apply order_push; auto.
  - destruct (can_send s x); [|discriminate]. destruct (alive s a); inversion H; subst; simpl.
    + rewrite lseqs_app. simpl. rewrite app_nil_r. auto.
    + unfold abyss1. destruct (is_dead_event m); simpl; auto.
      rewrite qseqs_app. simpl. rewrite app_assoc. apply order_push; auto.
  - destruct (can_act s a); inversion H; subst; simpl. rewrite qseqs_app, qseqs_unsubs, app_nil_r. auto.
  - destruct (can_act s a); inversion H; subst; simpl. rewrite qseqs_app, qseqs_unsubs, app_nil_r. auto.
  - destruct (alive s a); inversion H; subst; simpl. auto.
  - destruct (queue s) as [|r q] eqn:Q; inversion H; subst. clear H.
    destruct r as [a t|sb0|n p t m ex gn]; simpl in *; auto.
    rewrite lseqs_app, qseqs_app.
    set (dl := if is_dead_event m then [] else dead_pubs (w_queue q s) p m (filter (fun sb => negb (alive s (s_who sb))) (filter (on_topic t) (table s)))).
    assert (HD : qseqs dl = seq (nextseq s) (length (qseqs dl))).
    { unfold dl. destruct (is_dead_event m); [reflexivity|]. rewrite qseqs_dead_pubs, seq_length. reflexivity. }
    assert (HL : length dl = length (qseqs dl)).
    { unfold dl. destruct (is_dead_event m); [reflexivity|]. rewrite qseqs_dead_pubs, seq_length, length_dead_pubs. reflexivity. }
    fold dl. rewrite HL. apply (order_pop _ n); auto. intros x. apply lseqs_fanout.
Qed.

(* ------------------------------------------------------------------ all invariants together *)

Definition inv (s : state) : Prop := invA s /\ stampOK s /\ orderOK s.

Lemma inv_init : inv init.
Proof. split; [apply invA_init|split; [apply stampOK_init|apply orderOK_init]]. Qed.

Lemma inv_step s e s' : inv s -> estep s e = Some s' -> inv s'.
Proof.
  intros [A [B C]] H. split; [|split].
  - eapply invA_step; eauto.
  - eapply stampOK_step; eauto.
  - eapply orderOK_step; eauto.
Qed.

Lemma inv_run h : forall s s', inv s -> run s h = Some s' -> inv s'.
Proof.
  induction h as [|e h IH]; simpl; intros s s' I H.
  - inversion H; subst; auto.
  - destruct (estep s e) eqn:E; [|discriminate]. eapply IH; [eapply inv_step; eauto|exact H].
Qed.

Lemma inv_reach h s : run init h = Some s -> inv s.
Proof. apply inv_run. apply inv_init. Qed.

(* ------------------------------------------------------------------ the lemmas behind the theorems *)

Definition fanout (s : state) (n : nat) (p : ref) (t : topic) (m : msg) : list delivery :=
  map (fun sb => {| d_to := s_who sb; d_msg := m; d_from := p; d_seq := Some n |})
      (filter (fun sb => alive s (s_who sb)) (filter (on_topic t) (table s))).

Lemma fanout_count (al : nat -> bool) (m : msg) (p : ref) (n : nat) (t : topic) (a : nat) (l : list sub) :
  al a = true ->
  length (filter (fun d => d_to d =? a)
            (map (fun sb => {| d_to := s_who sb; d_msg := m; d_from := p; d_seq := Some n |})
                 (filter (fun sb => al (s_who sb)) (filter (on_topic t) l)))) =
  length (filter (fun sb => (s_topic sb =? t) && (s_who sb =? a)) l).
Proof.
  intros Ha. induction l as [|x l IH]; simpl; auto. unfold on_topic at 1.
  destruct (s_topic x =? t); simpl; auto.
  destruct (Nat.eqb_spec (s_who x) a) as [E|E].
  - rewrite E, Ha. simpl. rewrite E, Nat.eqb_refl. simpl. f_equal. exact IH.
  - destruct (al (s_who x)); simpl; auto. destruct (Nat.eqb_spec (s_who x) a); [tauto|]. exact IH.
Qed.

Lemma exactly_once h s n p t m ex gn q :
  run init h = Some s -> queue s = RPub n p t m ex gn :: q ->
  exists s', estep s EProc = Some s' /\ table s' = table s /\ guid s' = guid s /\
    log s' = log s ++ fanout s n p t m /\
    NoDup (map s_id (table s)) /\
    (forall a, alive s a = true ->
       length (filter (fun d => d_to d =? a) (log s')) =
       length (filter (fun d => d_to d =? a) (log s)) + length (filter (fun sb => (s_topic sb =? t) && (s_who sb =? a)) (table s))).
Proof.
  intros R Q. apply inv_reach in R. destruct R as [A _]. simpl. rewrite Q. eexists. split; [reflexivity|]. simpl.
  repeat split; auto.
  - apply (a_tab_nodup _ A).
  - intros a Ha. rewrite filter_app, app_length. f_equal. apply fanout_count. exact Ha.
Qed.

Lemma established_present h s n p t m ex gn q sb :
  run init h = Some s -> queue s = RPub n p t m ex gn :: q -> In sb ex -> In sb (table s).
Proof.
  intros R Q H. apply inv_reach in R. destruct R as [_ [S _]]. destruct (S [] n p t m ex gn q Q) as [S1 _]. apply S1. exact H.
Qed.

Lemma cancelled_absent h s n p t m ex gn q k :
  run init h = Some s -> queue s = RPub n p t m ex gn :: q -> In k gn -> forall sb, In sb (table s) -> s_id sb <> k.
Proof.
  intros R Q H. apply inv_reach in R. destruct R as [_ [S _]]. destruct (S [] n p t m ex gn q Q) as [_ S2].
  destruct (S2 k H) as [_ [B|[sb [_ []]]]]. exact B.
Qed.

Lemma callpub_stamp s p t m s' :
  estep s (ECallPub p t m) = Some s' ->
  queue s' = queue s ++ [RPub (nextseq s) p t m (live s) (cancelled s)] /\ nextseq s' = S (nextseq s) /\
  table s' = table s /\ log s' = log s.
Proof. simpl. destruct (can_send s p); intros H; inversion H; subst; simpl; auto. Qed.

Lemma subscribe_answer s a t q s' :
  queue s = RSub a t :: q -> estep s EProc = Some s' ->
  let sb := {| s_id := S (guid s); s_topic := t; s_who := a |} in
  issued s' = issued s ++ [sb] /\ local s' a = local s a ++ [sb] /\ table s' = table s ++ [sb] /\
  blocked s' a = false /\ cancelled s' = cancelled s.
Proof.
  intros Q H. simpl in H. rewrite Q in H. inversion H; subst. simpl. rewrite fupd_same. unfold fupd. rewrite Nat.eqb_refl. auto.
Qed.

Lemma cancel_calls s e s' :
  estep s e = Some s' ->
  match e with
  | ECallUnsub a sb => cancelled s' = s_id sb :: cancelled s
  | ERestart a | ETerminate a => cancelled s' = map s_id (local s a) ++ cancelled s /\ local s' a = []
  | _ => cancelled s' = cancelled s
  end.
Proof.
  intros H. destruct e; simpl in H.
  - destruct (can_act s a); inversion H; subst; reflexivity.
  - destruct (can_act s a && existsb (sub_eqb sb) (issued s)); inversion H; subst; reflexivity.
  - destruct (can_send s p); inversion H; subst; reflexivity.
  - destruct (can_send s x); [|discriminate]. destruct (alive s a); inversion H; subst; simpl; auto.
    unfold abyss1. destruct (is_dead_event m); reflexivity.
  - destruct (can_act s a); inversion H; subst; simpl. rewrite fupd_same. auto.
  - destruct (can_act s a); inversion H; subst; simpl. rewrite fupd_same. auto.
  - destruct (alive s a); inversion H; subst; reflexivity.
  - destruct (queue s) as [|r q]; inversion H; subst. destruct r; reflexivity.
Qed.

Lemma lseqs_filter_sorted (f : delivery -> bool) (l : list delivery) :
  StronglySorted le (lseqs l) -> StronglySorted le (lseqs (filter f l)).
Proof.
  induction l as [|d l IH]; simpl; auto. intros H.
  change (lseqs (d :: l)) with ((match d_seq d with Some n => [n] | None => [] end) ++ lseqs l) in *.
  apply sorted_app in H. destruct H as [H1 [H2 H3]].
  assert (Hin : forall y, In y (lseqs (filter f l)) -> In y (lseqs l)).
  { clear. induction l as [|x l IH]; simpl; auto. intros y. destruct (f x); simpl.
    - intros Hy. apply in_app_or in Hy. apply in_or_app. destruct Hy; auto.
    - intros Hy. apply in_or_app. auto. }
  destruct (f d); auto.
  change (lseqs (d :: filter f l)) with ((match d_seq d with Some n => [n] | None => [] end) ++ lseqs (filter f l)).
  apply sorted_app. repeat split; auto.
Qed.

Lemma publisher_order h s a p :
  run init h = Some s ->
  StronglySorted le (lseqs (log s)) /\
  StronglySorted le (lseqs (filter (fun d => (d_to d =? a) && ref_eqb (d_from d) p) (log s))) /\
  (forall x, In x (lseqs (log s) ++ qseqs (queue s)) -> x < nextseq s).
Proof.
  intros R. apply inv_reach in R. destruct R as [_ [_ [S B]]]. apply sorted_app in S. destruct S as [S _].
  repeat split; auto. apply lseqs_filter_sorted. exact S.
Qed.

Lemma filter_none {A} (f : A -> bool) (l : list A) : (forall x, In x l -> f x = false) -> filter f l = [].
Proof.
  induction l as [|a l IH]; simpl; intros H; auto. rewrite (H a) by auto. apply IH. intros x Hx. apply H. auto.
Qed.

Lemma no_listener_harmless s n p t m ex gn q :
  queue s = RPub n p t m ex gn :: q -> (forall sb, In sb (table s) -> s_topic sb <> t) ->
  estep s EProc = Some (w_queue q s).
Proof.
  intros Q N. simpl. rewrite Q. f_equal. unfold proc. change (table (w_queue q s)) with (table s).
  rewrite (filter_none (on_topic t) (table s)).
  - simpl. unfold dead_pubs. simpl. destruct (is_dead_event m); unfold w_queue; simpl; rewrite !app_nil_r, Nat.add_0_r; reflexivity.
  - intros x Hx. unfold on_topic. apply Nat.eqb_neq. apply N. exact Hx.
Qed.

Lemma ids_unique h s :
  run init h = Some s ->
  NoDup (map s_id (table s)) /\ map s_id (issued s) = seq 1 (guid s) /\ incl (table s) (issued s).
Proof. intros R. apply inv_reach in R. destruct R as [A _]. destruct A. auto. Qed.

Lemma released_no_subscription h s a :
  run init h = Some s -> queue s = [] -> local s a = [] -> forall sb, In sb (table s) -> s_who sb <> a.
Proof.
  intros R Q L sb H E. apply inv_reach in R. destruct R as [A _].
  destruct (a_tab_local _ A sb H) as [C|C].
  - rewrite E, L in C. destruct C.
  - destruct (a_canc _ A sb) as [D|D]; auto.
    + apply (a_tab_issued _ A). exact H.
    + rewrite Q in D. destruct D.
Qed.

Lemma dead_has_no_local h s a : run init h = Some s -> alive s a = false -> local s a = [].
Proof. intros R. apply inv_reach in R. destruct R as [A _]. apply (a_dead_local _ A). Qed.

Lemma blocked_pending h s a :
  run init h = Some s ->
  (blocked s a = true -> alive s a = true /\ exists t, In (RSub a t) (queue s)) /\
  (forall t, In (RSub a t) (queue s) -> blocked s a = true).
Proof.
  intros R. apply inv_reach in R. destruct R as [A _]. pose proof (a_nsub _ A a) as N. split.
  - intros B. split; [apply (a_blocked_alive _ A); auto|]. rewrite B in N. unfold nsub in N.
    destruct (filter _ (queue s)) as [|r l] eqn:F; [discriminate|].
    assert (Hr : In r (r :: l)) by (left; reflexivity). rewrite <- F in Hr. apply filter_In in Hr. destruct Hr as [Hr1 Hr2].
    destruct r; try discriminate. apply Nat.eqb_eq in Hr2. subst. eauto.
  - intros t H. destruct (blocked s a); auto. unfold nsub in N.
    assert (Hr : In (RSub a t) (filter (fun r => match r with RSub b _ => b =? a | _ => false end) (queue s))).
    { apply filter_In. split; auto. apply Nat.eqb_refl. }
    destruct (filter _ (queue s)); [destruct Hr|discriminate].
Qed.

(* ---- sequential operations are machine histories *)

Lemma run_app h1 : forall h2 s, run s (h1 ++ h2) = match run s h1 with Some s1 => run s1 h2 | None => None end.
Proof. induction h1 as [|e h1 IH]; simpl; intros h2 s; auto. destruct (estep s e); auto. Qed.

Lemma drain_run f : forall s s', drain f s = Some s' -> (exists h, run s h = Some s') /\ queue s' = [].
Proof.
  induction f as [|f IH]; simpl; intros s s' H.
  - destruct (queue s) eqn:Q; inversion H; subst. split; [exists []; reflexivity|exact Q].
  - destruct (queue s) eqn:Q.
    + inversion H; subst. split; [exists []; reflexivity|exact Q].
    + destruct (IH _ _ H) as [[h Hh] Hq]. split; auto.
      exists (EProc :: h). simpl. rewrite Q. exact Hh.
Qed.

Local Opaque fuel0.

Lemma exec_run es : forall s s', exec s es = Some s' -> exists h, run s h = Some s'.
Proof.
  induction es as [|e es IH]; simpl; intros s s' H.
  - inversion H; subst. exists []. reflexivity.
  - destruct (estep s e) as [s1|] eqn:E; [|discriminate]. destruct (drain fuel0 s1) as [s2|] eqn:D; [|discriminate].
    destruct (drain_run _ _ _ D) as [[h1 H1] _]. destruct (IH _ _ H) as [h2 H2].
    exists (e :: h1 ++ h2). simpl. rewrite E. rewrite run_app, H1. exact H2.
Qed.

Lemma exec_quiet es : forall s s', queue s = [] -> exec s es = Some s' -> queue s' = [].
Proof.
  induction es as [|e es IH]; simpl; intros s s' Q H.
  - inversion H; subst. exact Q.
  - destruct (estep s e) as [s1|]; [|discriminate]. destruct (drain fuel0 s1) as [s2|] eqn:D; [|discriminate].
    apply (IH s2); auto. apply (drain_run _ _ _ D).
Qed.

Lemma seq_run_reach ops : forall s s' outs, seq_run s ops = (s', outs) ->
  (exists h, run s h = Some s') /\ (queue s = [] -> queue s' = []).
Proof.
  induction ops as [|o ops IH]; simpl; intros s s' outs H.
  - inversion H; subst. split; auto. exists []. reflexivity.
  - destruct (seq_step s o) as [s1 x] eqn:E. destruct (seq_run s1 ops) as [s2 xs] eqn:E2. inversion H; subst.
    destruct (IH _ _ _ E2) as [[h2 H2] Q2]. unfold seq_step in E.
    destruct (op_events s o) as [es|]; [|inversion E; subst; split; eauto].
    destruct (exec s es) as [s1'|] eqn:X; inversion E; subst; [|split; eauto].
    destruct (exec_run _ _ _ X) as [h1 H1]. split.
    + exists (h1 ++ h2). rewrite run_app, H1. exact H2.
    + intros Q. apply Q2. eapply exec_quiet; eauto.
Qed.

(* ---- the tree as shipped: release before the last handler *)
Lemma release_asis_refuted :
  exists h s a w s', run init h = Some s /\ term_asis s a w = Some s' /\
    queue s' = [] /\ alive s' a = false /\ exists sb, In sb (table s') /\ s_who sb = a.
Proof.
  exists [ESpawn 0], (w_alive (fupd (alive init) 0 true) init), 0, 0.
  eexists. split; [reflexivity|]. split; [vm_compute; reflexivity|]. simpl.
  split; [reflexivity|]. split; [reflexivity|]. eexists. split; [left; reflexivity|reflexivity].
Qed.

(* ---- the tree as shipped: a Subscribe that times out in the caller is registered later (open finding) *)
Lemma subscribe_timeout_refuted :
  exists h s a t, run init h = Some s /\
    let s' := sub_timeout_asis s a t in
    queue s' = [] /\ local s' a = [] /\ (exists sb, In sb (table s') /\ s_who sb = a) /\
    exists s'', run s' [ETerminate a; ESpawn a] = Some s'' /\ queue s'' = [] /\ local s'' a = [] /\
                exists sb, In sb (table s'') /\ s_who sb = a.
Proof.
  exists [ESpawn 0], (w_alive (fupd (alive init) 0 true) init), 0, 1.
  split; [reflexivity|]. simpl. split; [reflexivity|]. split; [reflexivity|]. split.
  - eexists. split; [left; reflexivity|reflexivity].
  - eexists. split; [vm_compute; reflexivity|]. simpl. split; [reflexivity|]. split; [reflexivity|].
    eexists. split; [left; reflexivity|reflexivity].
Qed.
