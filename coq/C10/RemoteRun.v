(* MV.C10.RemoteRun — recorded runs of two linked REAL actor systems against MV.C10.RemoteModel (tie T1). *)
From MV Require Import Lib.ListX C10.SubModel C10.RemoteModel.

Definition qdl_eqb (x y : nat * topic * Z * qref) : bool :=
  let '(a, t, v, r) := x in let '(a', t', v', r') := y in (a =? a') && (t =? t') && Z.eqb v v' && qref_eqb r r'.

Definition qout_eqb (x y : qout) : bool :=
  match x, y with
  | QOut i d, QOut i' d' => list_eqb Nat.eqb i i' && list_eqb qdl_eqb d d'
  | QSkip, QSkip => true
  | _, _ => false
  end.

Record qcase := { qid : nat; qops : list qop; qimpl : list qout }.

Definition qmodel_outs (c : qcase) : list qout := snd (q_run qinit (qops c)).
Definition qcase_ok (c : qcase) : bool := list_eqb qout_eqb (qmodel_outs c) (qimpl c).
Definition qmismatches (cs : list qcase) : list nat := fail_ids qcase_ok qid cs.
