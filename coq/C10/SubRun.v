(* MV.C10.SubRun — evaluation of recorded runs of the REAL actor system against the model (tie T1).
   A case = the list of sequential operations and, per operation, what the implementation produced:
   the ids returned by the Subscribe calls of the step and the user messages the scripted actors handled
   during the step, (recipient, message, sender), grouped by recipient in handling order. *)
From MV Require Import Lib.ListX C10.SubModel.

Definition dl_eqb (x y : nat * msg * ref) : bool :=
  let '(a, m, r) := x in let '(a', m', r') := y in (a =? a') && msg_eqb m m' && ref_eqb r r'.

Definition out_eqb (x y : out) : bool :=
  match x, y with
  | OOut i d, OOut i' d' => list_eqb Nat.eqb i i' && list_eqb dl_eqb d d'
  | OSkip, OSkip => true
  | _, _ => false
  end.

Record case := { cid : nat; cops : list op; cimpl : list out }.

Definition model_outs (c : case) : list out := snd (seq_run init (cops c)).
Definition case_ok (c : case) : bool := list_eqb out_eqb (model_outs c) (cimpl c).
Definition mismatches (cs : list case) : list nat := fail_ids case_ok cid cs.
