(* MV.C10.RemoteModel — executable SEQUENTIAL model of publish/subscribe over TWO linked actor systems
   (sharing): subscription_actor.go onLocalPublishRequest (local fan-out + one PublishRequestBroadcast per known
   remote subscription actor), onPublishRequestBroadcast (fan-out on the receiving node with the original
   publisher as sender), and Subscribe / UnSubscribe / release, which only ever talk to the subscription actor of
   the caller's OWN node.  Each node has its own table and its own id counter: ids are unique per node only.

   Scope (why the theorem about it is called _partial): the link is up and FIFO, both subscription actors know
   each other, every operation runs to quiescence on both nodes before the next one starts (no interleavings, no
   link failures, no dead letters: sequentially no subscription of a dead actor exists).  Actors 0,1 live on
   node 0, actors 2,3 on node 1.

   REPAIRED behaviour modelled: fixes/C10-unsubscribe-foreign-node-id.patch — an UnSubscribe with a subscription
   that belongs to the OTHER node (it is a protobuf message, it can travel) cancels nothing; as shipped it cancels the
   caller's node's subscription that carries the same (topic, id) and forgets the caller's own entry with that id. *)
From MV Require Import Lib.ListX C10.SubModel.
Open Scope nat_scope.

Definition node_of (a : nat) : nat := a / 2.

Inductive qref := QNone | QGuard (n : nat) | QRef (a : nat) | QOther.
Record qsub := { q_node : nat; q_id : nat; q_topic : topic; q_who : nat }.

Record qstate := {
  qtab : list qsub;              (* both tables: the entries with q_node = n are node n's table *)
  qguid : nat -> nat;            (* id counter of each node *)
  qalive : nat -> bool;
  qlocal : nat -> list qsub;     (* ctx.subscriptions *)
  qissued : list qsub            (* every subscription returned, in order of return over both nodes *)
}.

Definition qinit : qstate :=
  {| qtab := []; qguid := fun _ => 0; qalive := fun _ => false; qlocal := fun _ => []; qissued := [] |}.

Definition qsub_eqb (x y : qsub) : bool :=
  (q_node x =? q_node y) && (q_id x =? q_id y) && (q_topic x =? q_topic y) && (q_who x =? q_who y).

Definition qref_eqb (x y : qref) : bool :=
  match x, y with
  | QNone, QNone | QOther, QOther => true
  | QGuard a, QGuard b | QRef a, QRef b => a =? b
  | _, _ => false
  end.

Inductive qpub := QSys (n : nat) | QAct (a : nat).
Definition qref_of (p : qpub) : qref := match p with QSys n => QGuard n | QAct a => QRef a end.

Inductive qop :=
| QSpawn (a : nat) (ls : list topic)
| QSub (a : nat) (t : topic)
| QUnsub (a : nat) (k : nat)                         (* the k-th subscription ever returned (either node), 1-based *)
| QPubN (p : qpub) (t : topic) (v : Z) (n : nat)
| QRestart (a : nat) (w : option topic) (ls : list topic)
| QTerm (a : nat) (g : bool) (w : option topic)
| QPubL (p : qpub) (t : topic) (v : Z).              (* a publication that is NOT a network message (the codec cannot encode it) *)

Inductive qout :=
| QOut (ids : list nat) (dl : list (nat * topic * Z * qref))   (* recipient, topic carried by the payload, value, sender *)
| QSkip
| QBad.

(* Subscribe by a: handled by the subscription actor of a's node *)
Definition q_sub (s : qstate) (a : nat) (t : topic) : qstate * nat :=
  let n := node_of a in
  let id := S (qguid s n) in
  let sb := {| q_node := n; q_id := id; q_topic := t; q_who := a |} in
  ({| qtab := qtab s ++ [sb]; qguid := fupd (qguid s) n id; qalive := qalive s;
      qlocal := fupd (qlocal s) a (qlocal s a ++ [sb]); qissued := qissued s ++ [sb] |}, id).

Fixpoint q_subs (s : qstate) (a : nat) (ts : list topic) : qstate * list nat :=
  match ts with
  | [] => (s, [])
  | t :: ts' => let '(s1, id) := q_sub s a t in let '(s2, ids) := q_subs s1 a ts' in (s2, id :: ids)
  end.

(* UnSubscribe(h) by a: the request goes to the subscription actor of a's node; it removes h only if h is a
   subscription of that node (repaired: the stored subscriber must be h's subscriber) *)
Definition q_unsub (s : qstate) (a : nat) (h : qsub) : qstate :=
  if q_node h =? node_of a then
    {| qtab := filter (fun x => negb (qsub_eqb x h)) (qtab s); qguid := qguid s; qalive := qalive s;
       qlocal := fupd (qlocal s) a (filter (fun x => negb (qsub_eqb x h)) (qlocal s a)); qissued := qissued s |}
  else s.

(* release of ctx.subscriptions: UnSubscribe for every entry *)
Definition q_release (s : qstate) (a : nat) : qstate :=
  {| qtab := filter (fun x => negb (existsb (qsub_eqb x) (qlocal s a))) (qtab s); qguid := qguid s; qalive := qalive s;
     qlocal := fupd (qlocal s) a []; qissued := qissued s |}.

(* one publication: the publisher's node fans out locally and broadcasts; the other node fans out with the
   ORIGINAL publisher as sender: one user message per subscription of the topic on either node *)
Definition q_deliver (s : qstate) (p : qref) (t : topic) (v : Z) : list (nat * topic * Z * qref) :=
  map (fun x => (q_who x, t, v, p)) (filter (fun x => (q_topic x =? t) && qalive s (q_who x)) (qtab s)).

(* a publication the codec cannot encode is not broadcast: onLocalPublishRequest still fans it out on the publisher's node *)
Definition qpub_node (p : qpub) : nat := match p with QSys n => n | QAct a => node_of a end.
Definition q_deliver_local (s : qstate) (p : qpub) (t : topic) (v : Z) : list (nat * topic * Z * qref) :=
  map (fun x => (q_who x, t, v, qref_of p))
      (filter (fun x => (q_topic x =? t) && (q_node x =? qpub_node p) && qalive s (q_who x)) (qtab s)).

Definition q_group (l : list (nat * topic * Z * qref)) : list (nat * topic * Z * qref) :=
  flat_map (fun a => filter (fun d => let '(to, _, _, _) := d in to =? a) l) (seq 0 nactors).

Definition q_can_send (s : qstate) (p : qpub) : bool :=
  match p with QSys n => n <? 2 | QAct a => qalive s a end.

Definition q_will (s : qstate) (a : nat) (w : option topic) : qstate * list nat :=
  match w with Some t => q_subs s a [t] | None => (s, []) end.

Definition q_step (s : qstate) (o : qop) : qstate * qout :=
  match o with
  | QSpawn a ls =>
      if qalive s a then (s, QSkip)
      else let s1 := {| qtab := qtab s; qguid := qguid s; qalive := fupd (qalive s) a true; qlocal := qlocal s; qissued := qissued s |} in
           let '(s2, ids) := q_subs s1 a ls in (s2, QOut ids [])
  | QSub a t => if qalive s a then let '(s1, id) := q_sub s a t in (s1, QOut [id] []) else (s, QSkip)
  | QUnsub a k =>
      if qalive s a then
        match k with
        | 0 => (s, QSkip)
        | S k' => match nth_error (qissued s) k' with
                  | Some h => (q_unsub s a h, QOut [] [])
                  | None => (s, QSkip)
                  end
        end
      else (s, QSkip)
  | QPubN p t v n =>
      if q_can_send s p then
        (s, QOut [] (q_group (flat_map (fun i => q_deliver s (qref_of p) t (v + Z.of_nat i)%Z) (seq 0 n))))
      else (s, QSkip)
  | QRestart a w ls =>
      if qalive s a then
        let '(s1, i1) := q_will s a w in
        let s2 := q_release s1 a in
        let '(s3, i3) := q_subs s2 a ls in (s3, QOut (i1 ++ i3) [])
      else (s, QSkip)
  | QTerm a g w =>
      if qalive s a then
        let '(s1, i1) := q_will s a w in
        let s2 := q_release s1 a in
        ({| qtab := qtab s2; qguid := qguid s2; qalive := fupd (qalive s2) a false; qlocal := qlocal s2; qissued := qissued s2 |}, QOut i1 [])
      else (s, QSkip)
  | QPubL p t v =>
      if q_can_send s p then (s, QOut [] (q_group (q_deliver_local s p t v))) else (s, QSkip)
  end.

Fixpoint q_run (s : qstate) (ops : list qop) : qstate * list qout :=
  match ops with
  | [] => (s, [])
  | o :: t => let '(s1, x) := q_step s o in let '(s2, xs) := q_run s1 t in (s2, x :: xs)
  end.
