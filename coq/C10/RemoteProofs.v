(* MV.C10.RemoteProofs — invariants of the sequential two-node model. *)
From MV Require Import Lib.ListX C10.SubModel C10.SubProofs C10.RemoteModel.
Open Scope nat_scope.

Definition qkey (x : qsub) : nat * nat := (q_node x, q_id x).

Record J (s : qstate) : Prop := {
  j_tab : forall x, In x (qtab s) ->
            q_node x = node_of (q_who x) /\ qalive s (q_who x) = true /\ In x (qlocal s (q_who x)) /\
            q_id x <= qguid s (q_node x);
  j_nodup : NoDup (map qkey (qtab s));
  j_local : forall a x, In x (qlocal s a) -> q_who x = a /\ q_node x = node_of a;
  j_dead : forall a, qalive s a = false -> qlocal s a = [] }.

Lemma qsub_eqb_eq x y : qsub_eqb x y = true <-> x = y.
Proof.
  unfold qsub_eqb. destruct x, y; simpl. rewrite !andb_true_iff, !Nat.eqb_eq. split.
  - intros [[[? ?] ?] ?]; subst; auto.
  - intros H; inversion H; auto.
Qed.

Lemma qsub_neqb x y : negb (qsub_eqb x y) = true <-> x <> y.
Proof.
  rewrite negb_true_iff. split.
  - intros H E. apply qsub_eqb_eq in E. congruence.
  - intros H. destruct (qsub_eqb x y) eqn:E; auto. apply qsub_eqb_eq in E. tauto.
Qed.

Lemma J_init : J qinit.
Proof. constructor; simpl; intros; try tauto; auto. constructor. Qed.

Lemma J_sub s a t : J s -> qalive s a = true -> J (fst (q_sub s a t)).
Proof.
  intros [T N L D] Ha. unfold q_sub. simpl. constructor; simpl.
  - intros x H. apply in_app_or in H. destruct H as [H|[H|[]]].
    + destruct (T x H) as [T1 [T2 [T3 T4]]]. repeat split; auto.
      * unfold fupd. destruct (Nat.eqb_spec (q_who x) a) as [E|E]; auto. apply in_or_app. left. congruence.
      * unfold fupd. destruct (Nat.eqb_spec (q_node x) (node_of a)) as [E|E]; auto. rewrite E in T4. lia.
    + subst x. simpl. repeat split; auto.
      * rewrite fupd_same. apply in_or_app. right. left. reflexivity.
      * rewrite fupd_same. lia.
  - rewrite map_app. simpl. apply NoDup_snoc; auto. intros H. apply in_map_iff in H. destruct H as [x [E H]].
    unfold qkey in E. simpl in E. injection E as E1 E2. destruct (T x H) as [_ [_ [_ T4]]]. rewrite E1 in T4. lia.
  - intros b x. unfold fupd. destruct (Nat.eqb_spec b a) as [E|E]; auto. subst b. intros H.
    apply in_app_or in H. destruct H as [H|[H|[]]]; auto. subst x. simpl. auto.
  - intros b Hb. unfold fupd. destruct (Nat.eqb_spec b a) as [E|E]; auto. subst. congruence.
Qed.

Lemma q_sub_alive s a t : qalive (fst (q_sub s a t)) = qalive s.
Proof. reflexivity. Qed.

Arguments q_sub : simpl never.

Lemma q_subs_cons s a t ts :
  q_subs s a (t :: ts) = (fst (q_subs (fst (q_sub s a t)) a ts), snd (q_sub s a t) :: snd (q_subs (fst (q_sub s a t)) a ts)).
Proof.
  change (q_subs s a (t :: ts)) with (let '(s1, id) := q_sub s a t in let '(s2, ids) := q_subs s1 a ts in (s2, id :: ids)).
  destruct (q_sub s a t) as [s1 id]. cbn [fst snd]. destruct (q_subs s1 a ts). reflexivity.
Qed.

Lemma J_subs ts : forall s a, J s -> qalive s a = true -> J (fst (q_subs s a ts)) /\ qalive (fst (q_subs s a ts)) = qalive s.
Proof.
  induction ts as [|t ts IH]; intros s a I Ha; [simpl; auto|].
  rewrite q_subs_cons. cbn [fst].
  destruct (IH (fst (q_sub s a t)) a) as [I2 A2]; [apply J_sub; auto|rewrite q_sub_alive; auto|].
  split; [exact I2|]. rewrite A2. apply q_sub_alive.
Qed.

Lemma J_unsub s a h : J s -> J (q_unsub s a h).
Proof.
  intros [T N L D]. unfold q_unsub. destruct (q_node h =? node_of a); [|constructor; auto]. constructor; simpl.
  - intros x H. apply filter_In in H. destruct H as [H F]. apply qsub_neqb in F.
    destruct (T x H) as [T1 [T2 [T3 T4]]]. repeat split; auto.
    unfold fupd. destruct (Nat.eqb_spec (q_who x) a) as [E|E]; auto. apply filter_In. split; [congruence|]. apply qsub_neqb. exact F.
  - apply NoDup_map_filter. exact N.
  - intros b x. unfold fupd. destruct (Nat.eqb_spec b a) as [E|E]; auto. subst. intros H. apply filter_In in H. apply L. tauto.
  - intros b Hb. unfold fupd. destruct (Nat.eqb_spec b a) as [E|E]; auto. subst. rewrite (D a Hb). reflexivity.
Qed.

Lemma release_clears s a : J s -> forall x, In x (qtab (q_release s a)) -> q_who x <> a.
Proof.
  intros [T N L D] x H E. simpl in H. apply filter_In in H. destruct H as [H F].
  destruct (T x H) as [_ [_ [T3 _]]]. rewrite E in T3.
  apply negb_true_iff in F. assert (existsb (qsub_eqb x) (qlocal s a) = true); [|congruence].
  apply existsb_exists. exists x. split; auto. apply qsub_eqb_eq. reflexivity.
Qed.

Lemma J_release s a : J s -> J (q_release s a).
Proof.
  intros I. pose proof (release_clears s a I) as C. destruct I as [T N L D]. constructor; simpl.
  - intros x H. pose proof (C x H) as Hx. simpl in H. apply filter_In in H. destruct H as [H _].
    destruct (T x H) as [T1 [T2 [T3 T4]]]. repeat split; auto. rewrite fupd_other; auto.
  - apply NoDup_map_filter. exact N.
  - intros b x. unfold fupd. destruct (Nat.eqb_spec b a); [intros []|auto].
  - intros b Hb. unfold fupd. destruct (Nat.eqb_spec b a); auto.
Qed.

Lemma J_will s a w : J s -> qalive s a = true -> J (fst (q_will s a w)) /\ qalive (fst (q_will s a w)) = qalive s.
Proof. intros I Ha. destruct w; simpl; auto. apply (J_subs [t]); auto. Qed.

Lemma J_step s o : J s -> J (fst (q_step s o)).
Proof.
  intros I. destruct o; simpl.
  - destruct (qalive s a) eqn:Ha; auto.
    set (s1 := {| qtab := qtab s; qguid := qguid s; qalive := fupd (qalive s) a true; qlocal := qlocal s; qissued := qissued s |}).
    assert (I1 : J s1).
    { destruct I as [T N L D]. constructor; simpl; auto.
      - intros x H. destruct (T x H) as [T1 [T2 [T3 T4]]]. repeat split; auto. unfold fupd. destruct (q_who x =? a); auto.
      - intros b Hb. apply D. unfold fupd in Hb. destruct (b =? a); [discriminate|auto]. }
    destruct (J_subs ls s1 a I1) as [I2 _]; [simpl; apply fupd_same|].
    destruct (q_subs s1 a ls); simpl in *. exact I2.
  - destruct (qalive s a) eqn:Ha; auto. exact (J_sub s a t I Ha).
  - destruct (qalive s a); auto. destruct k; auto. destruct (nth_error (qissued s) k); auto. simpl. apply J_unsub. exact I.
  - destruct (q_can_send s p); auto.
  - destruct (qalive s a) eqn:Ha; auto.
    destruct (J_will s a w I Ha) as [I1 A1]. destruct (q_will s a w) as [s1 i1]. simpl in *.
    pose proof (J_release s1 a I1) as I2.
    destruct (J_subs ls (q_release s1 a) a I2) as [I3 _]; [simpl; congruence|].
    destruct (q_subs (q_release s1 a) a ls); simpl in *. exact I3.
  - destruct (qalive s a) eqn:Ha; auto.
    destruct (J_will s a w I Ha) as [I1 A1]. destruct (q_will s a w) as [s1 i1]. simpl in *.
    pose proof (release_clears s1 a I1) as C. pose proof (J_release s1 a I1) as I2. destruct I2 as [T N L D].
    constructor; simpl; auto.
    + intros x H. destruct (T x H) as [T1 [T2 [T3 T4]]]. repeat split; auto. rewrite fupd_other; auto.
    + intros b Hb. unfold fupd in Hb. destruct (Nat.eqb_spec b a) as [E|E].
      * subst. simpl. apply fupd_same.
      * apply D. exact Hb.
  - destruct (q_can_send s p); auto.
Qed.

Lemma J_run ops : forall s, J s -> J (fst (q_run s ops)).
Proof.
  induction ops as [|o ops IH]; simpl; intros s I; auto.
  pose proof (J_step s o I) as I1. destruct (q_step s o) as [s1 x]. simpl in I1.
  specialize (IH s1 I1). destruct (q_run s1 ops) as [s2 xs]. simpl in *. exact IH.
Qed.

Lemma remote_partial ops s outs :
  q_run qinit ops = (s, outs) ->
  NoDup (map (fun x => (q_node x, q_id x)) (qtab s)) /\
  (forall x, In x (qtab s) -> q_node x = node_of (q_who x) /\ qalive s (q_who x) = true /\ In x (qlocal s (q_who x))) /\
  (forall a, qalive s a = false -> forall x, In x (qtab s) -> q_who x <> a) /\
  (forall p t v, q_deliver s p t v = map (fun x => (q_who x, t, v, p)) (filter (fun x => q_topic x =? t) (qtab s))).
Proof.
  intros H. pose proof (J_run ops qinit J_init) as I. rewrite H in I. simpl in I. destruct I as [T N L D].
  split; [exact N|]. split; [|split].
  - intros x Hx. destruct (T x Hx) as [T1 [T2 [T3 _]]]. auto.
  - intros a Ha x Hx E. destruct (T x Hx) as [_ [T2 _]]. congruence.
  - intros p t v. unfold q_deliver. f_equal. apply filter_ext_in. intros x Hx.
    destruct (T x Hx) as [_ [T2 _]]. rewrite T2. apply andb_true_r.
Qed.

(* a publication that cannot travel: exactly the subscriptions of the topic on the publisher's node, once each, with the
   publisher as sender; nobody on the other node; nothing changes *)
Lemma remote_local_only ops s outs p t v :
  q_run qinit ops = (s, outs) -> q_can_send s p = true ->
  q_step s (QPubL p t v) =
    (s, QOut [] (q_group (map (fun x => (q_who x, t, v, qref_of p))
                              (filter (fun x => (q_topic x =? t) && (q_node x =? qpub_node p)) (qtab s))))) /\
  (forall d, In d (q_deliver_local s p t v) -> let '(to, _, _, _) := d in node_of to = qpub_node p).
Proof.
  intros H Hc. pose proof (J_run ops qinit J_init) as I. rewrite H in I. simpl in I. destruct I as [T N L D].
  assert (E : q_deliver_local s p t v = map (fun x => (q_who x, t, v, qref_of p))
                (filter (fun x => (q_topic x =? t) && (q_node x =? qpub_node p)) (qtab s))).
  { unfold q_deliver_local. f_equal. apply filter_ext_in. intros x Hx. destruct (T x Hx) as [_ [T2 _]]. rewrite T2. apply andb_true_r. }
  split.
  - simpl. rewrite Hc, E. reflexivity.
  - intros d Hd. rewrite E in Hd. apply in_map_iff in Hd. destruct Hd as (x & <- & Hx). apply filter_In in Hx. destruct Hx as [Hx Hf].
    apply andb_true_iff in Hf. destruct Hf as [_ Hn]. apply Nat.eqb_eq in Hn. destruct (T x Hx) as [T1 _]. congruence.
Qed.

Lemma remote_release ops s outs a :
  q_run qinit ops = (s, outs) -> forall x, In x (qtab (q_release s a)) -> q_who x <> a.
Proof.
  intros H. apply release_clears. pose proof (J_run ops qinit J_init) as I. rewrite H in I. exact I.
Qed.
