(* MV.C09.OrderModel — when does the LAST persist of a generation happen, relative to the moment the end of that
   generation becomes observable?  (engine/vivid/actor_context.go: tryTerminated, tryRestarted.)

   PersistModel.v is sequential and its storage is instantaneous: [StopRecreate] is "persist; new context; Load" in
   one step.  The real system is not: tryTerminated runs on the goroutine of the dying actor, Storage.Save takes time
   (a disk, a database), and whoever OBSERVES the end of the generation — the registry (the address is free again:
   rc.Unregister), a watcher or the parent (Terminated notice -> OnTerminated), the caller of ActorSystem.Shutdown
   (close(system.closed)) — runs on another goroutine and may create the actor again under the same persistence name
   at once.  The new generation's Load then reads whatever record is COMMITTED at that moment.

   This file models exactly that:
     * the routine that ends a generation is a PROGRAM: the list of its statements in source order (type [stmt]),
       extracted from the tree under test by harness/translate/c09order (tie T3) — the model is parameterised by it;
     * a persist is TWO steps: begin (Save called, holding the generation's state) and commit (the record becomes what
       Load returns); a deferred persist (defer ...) is registered when its statement is executed and runs when the
       routine returns; a `go` persist runs on a helper goroutine;
     * [SGuard] is `if <cond> { return }`: the routine may return there (tryTerminated/tryRestarted are called again
       later: [CReinvoke]);
     * an announce statement makes the end observable.  IMMEDIATE announces (unregistration, notices, closed signal:
       the observer is another goroutine; the launch of the new instance processed INLINE by the restart routine:
       the Load happens at that very statement) allow the observer to act as soon as the statement has executed.
       [ALaunch] — OnLaunch POSTED to the actor's own mailbox — is observable only once the routine has returned
       (mailbox/lock_free.go: one message at a time);
     * the observer ([CRecreate evs r]) launches the next generation: Load (the committed record), then the new
       generation applies the events [evs], and will later end by a restart (r = true) or a termination (r = false);
     * the scheduler ([choice]) interleaves the steps of the current generation, of all earlier generations (whose
       routine may still be running), of helper goroutines, and the observer, in any order.

   Ghost history: [log] gets one entry (record loaded, state the previous generation had when it ended) per launch;
   [hist] is every event applied by any generation, in order. *)
From MV Require Import Lib.ListX.

(* ------------------------------------------------------------------ programs *)

Inductive announce :=
| AUnregister   (* ctx.system.rc.Unregister(...): the address can be registered again *)
| AWatchers     (* the Terminated notices to ctx.watchers *)
| AParent       (* the Terminated notice to ctx.parentRef *)
| AClosed       (* close(ctx.system.closed): ActorSystem.Shutdown returns *)
| ALaunch       (* restart: OnLaunch posted to the actor's own mailbox (processed after the routine has returned) *)
| ALaunchInline. (* restart: OnLaunch processed inside the routine (ctx.processMessage(.., onLaunch, true)): Load happens here *)

Definition immediate (a : announce) : bool := match a with ALaunch => false | _ => true end.

Inductive stmt :=
| SPersist              (* ctx.internalPersistence() / ctx.Persistence() / State.Persist(): synchronous call *)
| SDeferPersist         (* defer <persist>: registered here, runs when the routine returns *)
| SGoPersist            (* go <persist>: runs on another goroutine *)
| SGuard                (* if <cond> { return } *)
| SStatus               (* ctx.status.CompareAndSwap / Store *)
| SHandler              (* ctx.processMessage(...): a handler of the (old) instance runs *)
| SNewInstance          (* ctx.actor = ctx.provider.Provide() *)
| SAnnounce (a : announce)
| SOther.

Definition is_persist (s : stmt) : bool :=
  match s with SPersist | SDeferPersist | SGoPersist => true | _ => false end.

(* ------------------------------------------------------------------ threads and world *)

Record thread := {
  t_restart : bool;       (* this generation ends by a restart (its routine is pr) / by a termination (pt) *)
  t_val : list Z;         (* the state of this generation when it ends = what its persist hands to Save *)
  t_body : list stmt;     (* statements of the routine still to run *)
  t_ndef : nat;           (* deferred persists registered and not yet run *)
  t_saving : bool;        (* a Save of this goroutine has begun and is not committed *)
  t_saved : bool;         (* a Save of this goroutine has committed (ghost) *)
  t_now : bool;           (* an immediate announce statement has executed *)
  t_ret : bool }.         (* OnLaunch has been posted to the own mailbox *)

Definition set_t (t : thread) (body : list stmt) (ndef : nat) (saving saved now ret : bool) : thread :=
  {| t_restart := t_restart t; t_val := t_val t; t_body := body; t_ndef := ndef; t_saving := saving;
     t_saved := saved; t_now := now; t_ret := ret |}.

Definition ofresh (restart : bool) (prog : list stmt) (v : list Z) : thread :=
  {| t_restart := restart; t_val := v; t_body := prog; t_ndef := 0; t_saving := false; t_saved := false;
     t_now := false; t_ret := false |}.

(* a helper goroutine started by `go <persist>`: value, phase 0 = not begun, 1 = begun, 2 = committed *)
Definition helper := (list Z * nat)%type.

Definition orecord := option (list Z).

(* State.Persist: nothing is saved while the journal is empty (snapshot == nil && len(events) == 0) *)
Definition commit (v : list Z) (st : orecord) : orecord :=
  match v with [] => st | _ => Some v end.

(* recovery: the state rebuilt from the loaded record (no record: empty state) *)
Definition rebuilt (r : orecord) : list Z := match r with Some l => l | None => [] end.

Record world := {
  store : orecord;                       (* the COMMITTED record under the persistence name: what Load returns *)
  cur : thread;                         (* the newest generation *)
  olds : list thread;                   (* earlier generations: their routines may still be running *)
  helpers : list helper;
  log : list (orecord * list Z);         (* per launch: (record loaded, state of the previous generation at its end) *)
  hist : list Z }.                      (* every event applied so far, in order *)

(* one step of the goroutine running the routine; [exit]: the choice taken at a guard *)
Definition tstep (t : thread) (exit : bool) (st : orecord) : thread * orecord * list helper :=
  if t_saving t then (set_t t (t_body t) (t_ndef t) false true (t_now t) (t_ret t), commit (t_val t) st, [])
  else match t_body t with
       | SPersist :: r => (set_t t r (t_ndef t) true (t_saved t) (t_now t) (t_ret t), st, [])
       | SDeferPersist :: r => (set_t t r (S (t_ndef t)) false (t_saved t) (t_now t) (t_ret t), st, [])
       | SGoPersist :: r => (set_t t r (t_ndef t) false (t_saved t) (t_now t) (t_ret t), st, [(t_val t, 0)])
       | SGuard :: r => (set_t t (if exit then [] else r) (t_ndef t) false (t_saved t) (t_now t) (t_ret t), st, [])
       | SAnnounce a :: r =>
           (set_t t r (t_ndef t) false (t_saved t) (t_now t || immediate a) (t_ret t || negb (immediate a)), st, [])
       | _ :: r => (set_t t r (t_ndef t) false (t_saved t) (t_now t) (t_ret t), st, [])
       | [] => match t_ndef t with
               | S n => (set_t t [] n true (t_saved t) (t_now t) (t_ret t), st, [])   (* the routine returns: a deferred persist begins *)
               | O => (t, st, [])
               end
       end.

Definition finished (t : thread) : bool :=
  match t_body t with [] => (t_ndef t =? 0) && negb (t_saving t) | _ => false end.

(* the end of the generation can be acted upon *)
Definition observable (t : thread) : bool := t_now t || (t_ret t && finished t).

Inductive choice :=
| CCur (exit : bool)                      (* the current generation's goroutine takes a step *)
| COld (i : nat) (exit : bool)            (* an earlier generation's goroutine takes a step *)
| CHelper (i : nat)                       (* a helper goroutine takes a step *)
| CReinvoke                               (* the routine returned without announcing (guard): it is called again *)
| CRecreate (evs : list Z) (r : bool).    (* the observer launches the next generation (Load, then it applies evs; it will end by restart iff r) *)

Definition prog_for (pt pr : list stmt) (restart : bool) : list stmt := if restart then pr else pt.

Definition set_cur (w : world) (t : thread) (st : orecord) (hs : list helper) : world :=
  {| store := st; cur := t; olds := olds w; helpers := helpers w ++ hs; log := log w; hist := hist w |}.

Definition ostep (pt pr : list stmt) (w : world) (c : choice) : world :=
  match c with
  | CCur exit => let '(t, st, hs) := tstep (cur w) exit (store w) in set_cur w t st hs
  | COld i exit =>
      match nth_error (olds w) i with
      | Some t0 => let '(t, st, hs) := tstep t0 exit (store w) in
                   {| store := st; cur := cur w; olds := upd i t (olds w); helpers := helpers w ++ hs; log := log w; hist := hist w |}
      | None => w
      end
  | CHelper i =>
      match nth_error (helpers w) i with
      | Some (v, 0) => {| store := store w; cur := cur w; olds := olds w; helpers := upd i (v, 1) (helpers w); log := log w; hist := hist w |}
      | Some (v, 1) => {| store := commit v (store w); cur := cur w; olds := olds w; helpers := upd i (v, 2) (helpers w); log := log w; hist := hist w |}
      | _ => w
      end
  | CReinvoke =>
      if finished (cur w) && negb (t_now (cur w)) && negb (t_ret (cur w))
      then set_cur w (set_t (cur w) (prog_for pt pr (t_restart (cur w))) 0 false (t_saved (cur w)) false false) (store w) []
      else w
  | CRecreate evs r =>
      if observable (cur w)
      then {| store := store w;
              cur := ofresh r (prog_for pt pr r) (rebuilt (store w) ++ evs);
              olds := olds w ++ [cur w]; helpers := helpers w;
              log := log w ++ [(store w, t_val (cur w))];
              hist := hist w ++ evs |}
      else w
  end.

Definition orun (pt pr : list stmt) (w : world) (cs : list choice) : world := fold_left (ostep pt pr) cs w.

(* the first generation: nothing stored, it has applied [evs0] and now ends (by restart iff r0) *)
Definition oinit (pt pr : list stmt) (evs0 : list Z) (r0 : bool) : world :=
  {| store := None; cur := ofresh r0 (prog_for pt pr r0) evs0; olds := []; helpers := []; log := []; hist := evs0 |}.

(* every launch rebuilt exactly the state the previous generation had when it ended *)
Definition launches_exact (w : world) : Prop := Forall (fun e => rebuilt (fst e) = snd e) (log w).
Definition launches_exactb (w : world) : bool :=
  forallb (fun e => list_eqb Z.eqb (rebuilt (fst e)) (snd e)) (log w).

(* ------------------------------------------------------------------ the ordering condition (decidable, on the program) *)

(* the routine returns here (end of the body, or a guard that exits); deferred persists run now; if OnLaunch was posted
   to the own mailbox a synchronous persist must have committed by the end of the deferred ones *)
Definition end_ok (saved ret : bool) (ndef : nat) : bool := negb ret || saved || (0 <? ndef).

(* [prog_safe saved now ret ndef body]: from a point of the routine where a persist has (not) committed, an immediate
   announce has (not) executed, OnLaunch has (not) been posted and ndef deferred persists are registered, on EVERY path
   through the guards:
     when an immediate announce executes a persist has committed and none is deferred, and no persist of any kind
       comes at or after it;
     if OnLaunch was posted to the own mailbox, a synchronous persist (plain or deferred) commits before the routine
       has returned;
     `go <persist>` is never accepted. *)
Fixpoint prog_safe (saved now ret : bool) (ndef : nat) (body : list stmt) : bool :=
  match body with
  | [] => end_ok saved ret ndef
  | s :: r =>
      match s with
      | SPersist => negb now && prog_safe true now ret ndef r
      | SDeferPersist => negb now && prog_safe saved now ret (S ndef) r
      | SGoPersist => false
      | SGuard => end_ok saved ret ndef && prog_safe saved now ret ndef r
      | SAnnounce a =>
          if immediate a then saved && (ndef =? 0) && prog_safe saved true ret ndef r
          else prog_safe saved now true ndef r
      | _ => prog_safe saved now ret ndef r
      end
  end.

Definition order_safe (p : list stmt) : bool := prog_safe false false false 0 p.

(* ------------------------------------------------------------------ facts extracted from the source (tie T3) *)

(* one classified statement of the routine: [f_cond] = it sits inside an if / for / switch body (it may not execute) *)
Record fact := { f_stmt : stmt; f_cond : bool; f_line : nat }.

Definition prog_of (fs : list fact) : list stmt := map f_stmt fs.

(* a persist inside a conditional has no counterpart in the model: rejected *)
Definition persists_unconditional (fs : list fact) : bool :=
  forallb (fun f => negb (is_persist (f_stmt f) && f_cond f)) fs.

Definition announce_eqb (a b : announce) : bool :=
  match a, b with
  | AUnregister, AUnregister | AWatchers, AWatchers | AParent, AParent | AClosed, AClosed | ALaunch, ALaunch
  | ALaunchInline, ALaunchInline => true
  | _, _ => false
  end.

Definition has_announce (a : announce) (fs : list fact) : bool :=
  existsb (fun f => match f_stmt f with SAnnounce b => announce_eqb a b | _ => false end) fs.

(* ------------------------------------------------------------------ the last handlers of the old instance record too

   OnTerminate / the instance's own OnTerminated are ordinary handlers: an actor may record an event in them (a "closed"
   marker, a final counter). They run INSIDE the routine ([SHandler], before [SNewInstance] in the restart routine), so a
   synchronous persist that comes before one of them writes a journal that misses what that handler records — the event is
   lost at a termination (the context dies) and dropped at a restart (Load replaces the journal). The routine is therefore
   also required to run no handler of the old instance after its LAST synchronous persist. *)
Definition is_sync (s : stmt) : bool := match s with SPersist => true | _ => false end.
Definition is_handler (s : stmt) : bool := match s with SHandler => true | _ => false end.

(* the statements the OLD instance is still installed for *)
Fixpoint old_part (p : list stmt) : list stmt :=
  match p with
  | [] => []
  | SNewInstance :: _ => []
  | s :: r => s :: old_part r
  end.

(* what follows the last synchronous persist (the whole list if there is none) *)
Fixpoint after_last_persist (l : list stmt) : list stmt :=
  match l with
  | [] => []
  | s :: r => if existsb is_sync r then after_last_persist r else if is_sync s then r else l
  end.

Definition handlers_recorded (p : list stmt) : bool :=
  negb (existsb is_handler (after_last_persist (old_part p))).

(* sequential reading of the routine for that question: [rec k] = the events the k-th handler of the old instance records;
   result = (state of the old instance when the new one is installed / the routine ends, journal handed to the last Save) *)
Fixpoint hexec (rec : nat -> list Z) (p : list stmt) (k : nat) (v saved : list Z) : list Z * list Z :=
  match p with
  | [] => (v, saved)
  | SNewInstance :: _ => (v, saved)
  | SHandler :: r => hexec rec r (S k) (v ++ rec k) saved
  | SPersist :: r => hexec rec r k v v
  | _ :: r => hexec rec r k v saved
  end.

(* the seeded shape: the restart routine persists first and lets the old instance handle its last two messages afterwards *)
Definition restart_persist_before_last_handlers : list stmt :=
  [SGuard; SPersist; SNewInstance; SHandler; SHandler; SOther; SOther; SStatus; SOther; SOther; SOther; SAnnounce ALaunch; SOther].
Definition restart_persist_before_last_handlers' : list stmt :=
  [SGuard; SPersist; SHandler; SHandler; SOther; SNewInstance; SOther; SStatus; SOther; SOther; SOther; SAnnounce ALaunch; SOther].

(* tryTerminated of the tree under test: every way the end becomes observable is found (otherwise the translator is
   blind to a reworded source), persists are unconditional, and the order is safe *)
Definition term_order_ok (fs : list fact) : bool :=
  handlers_recorded (prog_of fs) && persists_unconditional fs && order_safe (prog_of fs) &&
  has_announce AUnregister fs && has_announce AWatchers fs && has_announce AParent fs && has_announce AClosed fs.

(* tryRestarted: the launch of the new instance is found (posted or inline) *)
Definition restart_order_ok (fs : list fact) : bool :=
  handlers_recorded (prog_of fs) && persists_unconditional fs && order_safe (prog_of fs) && (has_announce ALaunch fs || has_announce ALaunchInline fs).

(* the statements to name when the obligation is broken (lines): every persist that is conditional, `go`, at/after an
   immediate announce, or deferred in a routine that has an immediate announce after it; every immediate announce that
   executes before an unconditional synchronous persist has returned; the posting of OnLaunch in a routine without any
   unconditional synchronous persist *)
Definition later_immediate (fs : list fact) : bool :=
  existsb (fun f => match f_stmt f with SAnnounce a => immediate a | _ => false end) fs.
Definition any_sync_persist (fs : list fact) : bool :=
  existsb (fun f => match f_stmt f with SPersist | SDeferPersist => negb (f_cond f) | _ => false end) fs.

Fixpoint offenders_from (anysync saved now : bool) (fs : list fact) : list nat :=
  match fs with
  | [] => []
  | f :: r =>
      match f_stmt f with
      | SPersist =>
          (if f_cond f || now then [f_line f] else []) ++ offenders_from anysync (saved || negb (f_cond f)) now r
      | SDeferPersist =>
          (if f_cond f || now || later_immediate r then [f_line f] else []) ++ offenders_from anysync saved now r
      | SGoPersist => f_line f :: offenders_from anysync saved now r
      | SAnnounce a =>
          if immediate a then (if saved then [] else [f_line f]) ++ offenders_from anysync saved true r
          else (if anysync then [] else [f_line f]) ++ offenders_from anysync saved now r
      | _ => offenders_from anysync saved now r
      end
  end.

Definition order_offenders (fs : list fact) : list nat := offenders_from (any_sync_persist fs) false false fs.

(* ------------------------------------------------------------------ the order of the source as read on 2026-10 (documentation
   and Examples; the obligation is discharged on the EXTRACTED facts on every run, see checks/c09.py t3) *)

Definition src_terminate : list stmt :=
  [SGuard;                       (* if len(ctx.children) > 0 { return } *)
   SStatus; SGuard;              (* if !ctx.status.CompareAndSwap(terminating, terminated) { return } *)
   SOther; SHandler;             (* OnTerminated handled by the dying instance *)
   SPersist;                     (* ctx.internalPersistence(): after the last handler (fix: it used to come first) *)
   SOther;                       (* subscriptions released *)
   SAnnounce AUnregister;        (* ctx.system.rc.Unregister(ctx.sender, ctx.ref) *)
   SOther; SOther; SOther;       (* scheduler closed, log line, notifyMessage *)
   SAnnounce AWatchers;
   SAnnounce AParent;
   SAnnounce AClosed].

Definition src_restart : list stmt :=
  [SGuard;                       (* if len(ctx.children) > 0 || status != restarting { return } *)
   SHandler; SHandler;           (* OnTerminate, OnTerminated handled by the old instance *)
   SOther;                       (* subscriptions released *)
   SPersist;                     (* ctx.internalPersistence() *)
   SNewInstance; SOther; SStatus; SOther;
   SOther; SOther;               (* onResumeMailbox, onRestarted delivered *)
   SAnnounce ALaunch;            (* onLaunch posted to the own mailbox *)
   SOther].

(* the variant that handles OnRestarted / OnLaunch inside the routine *)
Definition src_restart_inline : list stmt :=
  [SGuard; SHandler; SHandler; SOther; SPersist; SNewInstance; SOther; SStatus; SOther; SOther;
   SHandler;                     (* ctx.processMessage(ctx.ref, ctx.ref, onRestarted, true) *)
   SAnnounce ALaunchInline;      (* ctx.processMessage(ctx.parentRef, ctx.ref, onLaunch, true): recovery runs here *)
   SOther].

(* the seeded shape: the persist is deferred past the status change, i.e. it runs after every announce *)
Definition announce_then_persist : list stmt :=
  [SGuard; SStatus; SGuard; SDeferPersist; SOther; SHandler; SOther; SAnnounce AUnregister; SOther; SOther; SOther;
   SAnnounce AWatchers; SAnnounce AParent; SAnnounce AClosed].

(* a restart routine that persists on another goroutine *)
Definition restart_async_persist : list stmt :=
  [SGuard; SHandler; SHandler; SOther; SGoPersist; SNewInstance; SOther; SStatus; SOther; SOther; SOther;
   SAnnounce ALaunch; SOther].

(* a restart routine that launches inline and persists afterwards (deferred) *)
Definition restart_inline_launch_then_persist : list stmt :=
  [SGuard; SDeferPersist; SHandler; SHandler; SOther; SNewInstance; SOther; SStatus; SOther; SOther;
   SHandler; SAnnounce ALaunchInline; SOther].
