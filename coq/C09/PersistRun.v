(* MV.C09.PersistRun — evaluation of recorded implementation runs against the model (tie T1).
   A case = threshold of the first context, operation list, outputs observed on the real ActorSystem. *)
From MV Require Import Lib.ListX C09.PersistModel.

Definition msg_eqb (a b : msg) : bool :=
  match a, b with
  | MAdd x, MAdd y => Z.eqb x y
  | MSnapReq, MSnapReq | MLaunch, MLaunch | MQuery, MQuery | MPersist, MPersist | MCrash, MCrash | MOther, MOther => true
  | MSnap x, MSnap y => list_eqb Z.eqb x y
  | _, _ => false
  end.

Definition who_eqb (a b : who) : bool :=
  match a, b with
  | WAsker, WAsker | WSelf, WSelf | WParent, WParent | WNone, WNone | WOther, WOther => true
  | _, _ => false
  end.

Definition rmsg_eqb (a b : rmsg) : bool :=
  match a, b with
  | RSnap x, RSnap y => list_eqb Z.eqb x y
  | REv x, REv y => Z.eqb x y
  | _, _ => false
  end.

Definition saved_eqb (a b : saved_rec) : bool :=
  opt_eqb (fun x y => opt_eqb (list_eqb Z.eqb) (fst x) (fst y) && list_eqb Z.eqb (snd x) (snd y)) a b.

Fixpoint out_eqb (a b : out) : bool :=
  match a, b with
  | OSaveFailed x, OSaveFailed y => out_eqb x y
  | OEvent n1 m1 w1 s1, OEvent n2 m2 w2 s2 => Z.eqb n1 n2 && msg_eqb m1 m2 && who_eqb w1 w2 && Bool.eqb s1 s2
  | OLaunch sv1 t1 c1 s1, OLaunch sv2 t2 c2 s2 =>
      saved_eqb sv1 sv2 && list_eqb rmsg_eqb t1 t2 && list_eqb Z.eqb c1 c2 && list_eqb Z.eqb s1 s2
  | OSaved x, OSaved y => saved_eqb x y
  | OState x, OState y => list_eqb Z.eqb x y
  | _, _ => false
  end.

(* crf: the actor of this run records before applying (see v_record_first) *)
Record case := { cid : nat; crf : bool; cth : Z; cops : list op; cimpl : list out }.

Definition model_outs (c : case) : list out :=
  snd (run (if crf c then repaired_record_first else repaired) go_grow (cth c) (cops c)).
Definition case_ok (c : case) : bool := list_eqb out_eqb (model_outs c) (cimpl c).
Definition mismatches (cs : list case) : list nat := fail_ids case_ok cid cs.
