(* MV.C09.PersistProofs — the heap/slice model of PersistModel refines the abstract journal
   (last snapshot, events since), for every growth policy, threshold and history. *)
From MV Require Import Lib.ListX C09.PersistModel.
From Coq Require Import ZifyBool ZifyNat.

Arguments Z.of_nat : simpl never.
Arguments Z.leb : simpl never.
Arguments Nat.ltb : simpl never.
Arguments Nat.max : simpl never.

(* ------------------------------------------------------------------ lists *)

Lemma map_nth_seq_app : forall (l r : list Z) (d : Z),
  map (fun i => nth i (l ++ r) d) (seq 0 (length l)) = l.
Proof.
  intros l. induction l as [|x l IH] using rev_ind; intros r d.
  - reflexivity.
  - rewrite app_length. cbn [length]. rewrite Nat.add_1_r, seq_S, map_app. cbn [map Nat.add].
    rewrite <- app_assoc. cbn [app]. rewrite IH. f_equal.
    rewrite app_nth2 by lia. rewrite Nat.sub_diag. reflexivity.
Qed.

Lemma map_seq_ext : forall (f f' : nat -> Z) n k,
  (forall i, k <= i < k + n -> f i = f' i) -> map f (seq k n) = map f' (seq k n).
Proof.
  intros f f' n. induction n as [|n IH]; intros k H; cbn; auto.
  f_equal. { apply H. lia. } apply IH. intros i Hi. apply H. lia.
Qed.

(* ------------------------------------------------------------------ heap *)

Lemma contents_length h s : length (contents h s) = s_len s.
Proof. unfold contents. rewrite map_length, seq_length. reflexivity. Qed.

Lemma contents_len0 h a : contents h {| s_arr := a; s_len := 0 |} = [].
Proof. reflexivity. Qed.

Lemma contents_new (h : heap) (l : list Z) cap :
  contents (h ++ [pad l cap]) {| s_arr := length h; s_len := length l |} = l.
Proof.
  unfold contents, read, arr. cbn [s_arr s_len].
  rewrite app_nth2 by lia. rewrite Nat.sub_diag. cbn [nth]. unfold pad.
  apply map_nth_seq_app.
Qed.

Lemma contents_old (h : heap) (x : list Z) s :
  s_arr s < length h -> contents (h ++ [x]) s = contents h s.
Proof.
  intros H. unfold contents, read, arr. rewrite app_nth1 by exact H. reflexivity.
Qed.

Lemma nth_upd_heap (h : heap) a x : a < length h -> nth a (upd a x h) [] = x.
Proof. intros H. apply nth_upd_same. exact H. Qed.

Lemma sl_append_spec g h s e :
  s_arr s < length h ->
  contents (fst (sl_append g h s e)) (snd (sl_append g h s e)) = contents h s ++ [e]
  /\ s_arr (snd (sl_append g h s e)) < length (fst (sl_append g h s e))
  /\ s_len (snd (sl_append g h s e)) = S (s_len s).
Proof.
  intros Hwf. unfold sl_append.
  destruct (Nat.ltb_spec (s_len s) (capacity h s)) as [Hlt|Hge]; cbn [fst snd].
  - unfold capacity in Hlt. split; [|split].
    + unfold contents, read, arr. cbn [s_arr s_len].
      rewrite nth_upd_heap by exact Hwf.
      rewrite seq_S, map_app. cbn [map Nat.add]. f_equal.
      * apply map_seq_ext. intros i Hi. apply nth_upd_other. lia.
      * f_equal. apply nth_upd_same. exact Hlt.
    + cbn [s_arr]. rewrite upd_length. exact Hwf.
    + reflexivity.
  - split; [|split].
    + apply contents_new.
    + cbn [s_arr]. rewrite app_length. cbn. lia.
    + cbn [s_len]. rewrite app_length, contents_length. cbn. lia.
Qed.

Lemma sl_copy_spec g h s :
  0 < length h ->
  contents (fst (sl_copy g h s)) (snd (sl_copy g h s)) = contents h s
  /\ s_arr (snd (sl_copy g h s)) < length (fst (sl_copy g h s))
  /\ (forall s0, s_arr s0 < length h -> contents (fst (sl_copy g h s)) s0 = contents h s0)
  /\ s_len (snd (sl_copy g h s)) = s_len s.
Proof.
  intros Hne. unfold sl_copy.
  pose proof (contents_length h s) as Hlen.
  destruct (contents h s) as [|x l] eqn:E; cbn [fst snd].
  - repeat split; auto.
  - split; [|split; [|split]].
    + apply contents_new.
    + cbn [s_arr]. rewrite app_length. cbn. lia.
    + intros s0 H0. apply contents_old. exact H0.
    + cbn [s_len]. exact Hlen.
Qed.

(* ------------------------------------------------------------------ the refinement invariant *)

Record Inv (c : ctx) (a : ajr) : Prop := {
  inv_rec : recovering c = false;
  inv_th : threshold c = a_th a;
  inv_snap : j_snap (jr c) = a_snap a;
  inv_tail : contents (hp c) (j_events (jr c)) = a_tail a;
  inv_actor : actor c = a_state a;
  inv_wf : s_arr (j_events (jr c)) < length (hp c);
  inv_sto : storage c = None \/ a_saved a <> None
}.

Lemma a_saved_some a : (a_snap a <> None \/ a_tail a <> []) -> a_saved a = Some (a_snap a, a_tail a).
Proof.
  unfold a_saved. destruct (a_snap a); destruct (a_tail a); intros [H|H]; try reflexivity; congruence.
Qed.

Lemma a_saved_none a : a_snap a = None -> a_tail a = [] -> a_saved a = None.
Proof. unfold a_saved. intros -> ->. reflexivity. Qed.

(* ------------------------------------------------------------------ StateChanged *)

Lemma state_changed_spec g c e :
  recovering c = false ->
  s_arr (j_events (jr c)) < length (hp c) ->
  let t := contents (hp c) (j_events (jr c)) in
  let c' := fst (state_changed repaired g c e) in
  let num := snd (state_changed repaired g c e) in
  num = Z.of_nat (S (length t))
  /\ cur_msg c' = cur_msg c /\ cur_sender c' = cur_sender c
  /\ recovering c' = false /\ threshold c' = threshold c /\ storage c' = storage c
  /\ actor c' = actor c
  /\ s_arr (j_events (jr c')) < length (hp c')
  /\ (if (threshold c <=? num)%Z
      then j_snap (jr c') = Some (actor c) /\ contents (hp c') (j_events (jr c')) = [] /\ snapreq_seen c' = true
      else j_snap (jr c') = j_snap (jr c) /\ contents (hp c') (j_events (jr c')) = t ++ [e]
           /\ snapreq_seen c' = snapreq_seen c).
Proof.
  intros Hrec Hwf. cbv zeta.
  unfold state_changed. rewrite Hrec.
  unfold j_append.
  pose proof (sl_append_spec g (hp c) (j_events (jr c)) e Hwf) as (Hc & Hw & Hl).
  destruct (sl_append g (hp c) (j_events (jr c)) e) as [h' s'] eqn:E. cbn [fst snd] in Hc, Hw, Hl.
  unfold event_count. cbn [set_hp_jr jr j_events hp threshold].
  rewrite Hl, contents_length.
  destruct (threshold c <=? Z.of_nat (S (s_len (j_events (jr c)))))%Z eqn:Eth;
    cbn [fst snd repaired v_restore].
  - unfold process_snapreq, on_snapreq, save_snapshot.
    cbn. rewrite Hrec. cbn. rewrite ?Eth. repeat split; auto.
  - cbn. rewrite ?Eth. repeat split; auto.
Qed.

(* ------------------------------------------------------------------ replay while recovering *)

Lemma process_add_recovering g c w e :
  recovering c = true ->
  process_add repaired g c w e
  = (set_actor (set_regs c (MAdd e) w) (actor c ++ [e]) false, (event_count c, MAdd e, w, false)).
Proof.
  intros H. unfold process_add, on_add, state_changed.
  cbn [repaired v_record_first set_regs set_actor recovering actor]. rewrite H. reflexivity.
Qed.

Lemma replay_recovering g s : forall n i c,
  recovering c = true ->
  let c' := fst (fst (replay repaired g c s i n)) in
  let es := snd (fst (replay repaired g c s i n)) in
  let ns := snd (replay repaired g c s i n) in
  hp c' = hp c /\ jr c' = jr c /\ recovering c' = true /\ threshold c' = threshold c
  /\ storage c' = storage c /\ actor c' = actor c ++ es
  /\ es = map (read (hp c) s) (seq i n) /\ ns = repeat (event_count c) n.
Proof.
  induction n as [|n IH]; intros i c Hrec; cbv zeta.
  - cbn. rewrite app_nil_r. repeat split; auto.
  - cbn [replay]. rewrite process_add_recovering by exact Hrec.
    set (c1 := set_actor (set_regs c (MAdd (read (hp c) s i)) WSelf) (actor c ++ [read (hp c) s i]) false).
    assert (Hrec1 : recovering c1 = true) by exact Hrec.
    specialize (IH (S i) c1 Hrec1). cbv zeta in IH.
    destruct (replay repaired g c1 s (S i) n) as [[c2 es] ns] eqn:E.
    cbn [fst snd] in *.
    destruct IH as (H1 & H2 & H3 & H4 & H5 & H6 & H7 & H8).
    change (hp c1) with (hp c) in *. change (jr c1) with (jr c) in *.
    change (threshold c1) with (threshold c) in *. change (storage c1) with (storage c) in *.
    change (actor c1) with (actor c ++ [read (hp c) s i]) in *.
    change (event_count c1) with (event_count c) in *.
    repeat split; auto.
    + rewrite H6, <- app_assoc. reflexivity.
    + cbn [seq map]. f_equal. exact H7.
    + cbn [repeat]. f_equal. exact H8.
Qed.

(* ------------------------------------------------------------------ launch = OnLaunch + recovery *)

Lemma launch_spec g c a :
  recovering c = false -> actor c = [] -> threshold c = a_th a ->
  s_arr (j_events (jr c)) < length (hp c) ->
  ( (storage c = None /\ j_snap (jr c) = None /\ contents (hp c) (j_events (jr c)) = []
     /\ a_snap a = None /\ a_tail a = [])
    \/ (exists evs, storage c = Some (a_snap a, evs) /\ s_arr evs < length (hp c)
                    /\ contents (hp c) evs = a_tail a /\ a_saved a <> None) ) ->
  Inv (fst (fst (launch repaired g c))) a
  /\ snd (fst (launch repaired g c)) = a_trace a
  /\ snd (launch repaired g c) = a_counts a.
Proof.
  intros Hrec Hact Hth Hwf [(Hsto & Hsn & Hct & Has & Hat)|(evs & Hsto & Hwe & Hce & Hsv)].
  - unfold launch, recover, state_load. cbn [set_regs storage]. rewrite Hsto. cbn [fst snd].
    split; [|split].
    + constructor; cbn; auto.
      * rewrite Hsn, Has. reflexivity.
      * rewrite Hct, Hat. reflexivity.
      * rewrite Hact. unfold a_state. rewrite Has, Hat. reflexivity.
    + unfold a_trace. rewrite Has, Hat. reflexivity.
    + unfold a_counts. rewrite Hat. reflexivity.
  - unfold launch, recover, state_load. cbn [set_regs storage]. rewrite Hsto.
    cbn [repaired v_seed hp].
    assert (Hne : 0 < length (hp c)) by lia.
    pose proof (sl_copy_spec g (hp c) evs Hne) as (Hcc & Hcw & Hco & Hcl).
    destruct (sl_copy g (hp c) evs) as [h' s'] eqn:E. cbn [fst snd] in Hcc, Hcw, Hco, Hcl.
    change (hp (set_regs c MLaunch WParent)) with (hp c). rewrite E.
    set (c1 := set_recovering (set_hp_jr (set_regs c MLaunch WParent) h' {| j_snap := a_snap a; j_events := s' |}) true).
    set (c3 := match a_snap a with Some s => process_snap c1 s | None => c1 end).
    assert (Hrec3 : recovering c3 = true) by (unfold c3; destruct (a_snap a); reflexivity).
    assert (Hhp3 : hp c3 = h') by (unfold c3; destruct (a_snap a); reflexivity).
    assert (Hjr3 : jr c3 = {| j_snap := a_snap a; j_events := s' |}) by (unfold c3; destruct (a_snap a); reflexivity).
    assert (Hth3 : threshold c3 = threshold c) by (unfold c3; destruct (a_snap a); reflexivity).
    assert (Hst3 : storage c3 = Some (a_snap a, evs)) by (unfold c3; destruct (a_snap a); cbn; exact Hsto).
    assert (Hac3 : actor c3 = snap_list (a_snap a)).
    { unfold c3; destruct (a_snap a); cbn; auto. }
    pose proof (replay_recovering g evs (s_len evs) 0 c3 Hrec3) as Hrp. cbv zeta in Hrp.
    destruct (replay repaired g c3 evs 0 (s_len evs)) as [[c4 es] ns] eqn:E4.
    cbn [fst snd] in Hrp |- *.
    destruct Hrp as (H1 & H2 & H3 & H4 & H5 & H6 & H7 & H8).
    assert (Hes : es = a_tail a).
    { rewrite H7, Hhp3. change (map (read h' evs) (seq 0 (s_len evs))) with (contents h' evs).
      rewrite Hco by exact Hwe. exact Hce. }
    assert (Hlen : s_len evs = length (a_tail a)).
    { rewrite <- Hce, contents_length. reflexivity. }
    split; [|split].
    + constructor; cbn [set_recovering recovering threshold jr hp actor storage].
      * reflexivity.
      * rewrite H4, Hth3. exact Hth.
      * rewrite H2, Hjr3. reflexivity.
      * rewrite H1, H2, Hhp3, Hjr3. cbn [j_events]. rewrite Hcc. exact Hce.
      * rewrite H6, Hac3, Hes. reflexivity.
      * rewrite H1, H2, Hhp3, Hjr3. cbn [j_events]. exact Hcw.
      * right. exact Hsv.
    + unfold a_trace. rewrite Hes. destruct (a_snap a); reflexivity.
    + rewrite H8. unfold a_counts, event_count. rewrite Hjr3. cbn [j_events].
      rewrite Hcl, Hlen. reflexivity.
Qed.

(* persist of a context that satisfies the invariant *)
Lemma persist_spec c a :
  Inv c a ->
  snd (persist c) = a_saved a
  /\ hp (fst (persist c)) = hp c /\ jr (fst (persist c)) = jr c
  /\ recovering (fst (persist c)) = false /\ threshold (fst (persist c)) = threshold c
  /\ actor (fst (persist c)) = actor c
  /\ cur_msg (fst (persist c)) = cur_msg c /\ cur_sender (fst (persist c)) = cur_sender c
  /\ ( (storage (fst (persist c)) = None /\ a_snap a = None /\ a_tail a = [])
       \/ (storage (fst (persist c)) = Some (a_snap a, j_events (jr c)) /\ a_saved a <> None) ).
Proof.
  intros [Hrec Hth Hsn Htl Hac Hwf Hst].
  unfold persist.
  pose proof (contents_length (hp c) (j_events (jr c))) as Hlen. rewrite Htl in Hlen.
  destruct (j_snap (jr c)) as [sn|] eqn:Es.
  - assert (Hsv : a_saved a = Some (a_snap a, a_tail a)).
    { apply a_saved_some. left. rewrite <- Hsn. discriminate. }
    cbn [fst snd set_storage hp jr recovering threshold actor cur_msg cur_sender storage].
    rewrite Htl, Hsv, <- Hsn. repeat split; auto.
    right. split; [reflexivity|discriminate].
  - destruct (s_len (j_events (jr c))) as [|k] eqn:El.
    + assert (Ht : a_tail a = []) by (destruct (a_tail a); [reflexivity|cbn in Hlen; lia]).
      assert (Hsv : a_saved a = None) by (apply a_saved_none; auto).
      cbn [fst snd]. rewrite Hsv. repeat split; auto.
      left. destruct Hst as [Hst|Hst]; [auto|contradiction].
    + assert (Hsv : a_saved a = Some (a_snap a, a_tail a)).
      { apply a_saved_some. right. destruct (a_tail a); [cbn in Hlen; lia|discriminate]. }
      cbn [fst snd set_storage hp jr recovering threshold actor cur_msg cur_sender storage].
      rewrite Htl, Hsv, <- Hsn. repeat split; auto.
      right. split; [reflexivity|discriminate].
Qed.

(* ------------------------------------------------------------------ one step *)

Lemma inv_set_regs c a m w : Inv c a -> Inv (set_regs c m w) a.
Proof. intros [H1 H2 H3 H4 H5 H6 H7]. constructor; cbn; auto. Qed.

Lemma step_refines g c a o :
  Inv c a ->
  Inv (fst (step repaired g c o)) (fst (astep a o)) /\ snd (step repaired g c o) = snd (astep a o).
Proof.
  intros HI. destruct o as [e| |th'| |].
  - (* Event *)
    destruct HI as [Hrec Hth Hsn Htl Hac Hwf Hst].
    cbn [step astep]. unfold process_add, on_add. cbn [repaired v_record_first].
    change (actor (set_regs c (MAdd e) WAsker)) with (actor c).
    set (c0 := set_actor (set_regs c (MAdd e) WAsker) (actor c ++ [e]) false).
    assert (Hrec0 : recovering c0 = false) by exact Hrec.
    assert (Hwf0 : s_arr (j_events (jr c0)) < length (hp c0)) by exact Hwf.
    pose proof (state_changed_spec g c0 e Hrec0 Hwf0) as Hsc. cbv zeta in Hsc.
    destruct (state_changed repaired g c0 e) as [c1 num] eqn:E. cbn [fst snd] in Hsc |- *.
    change (hp c0) with (hp c) in Hsc. change (jr c0) with (jr c) in Hsc.
    change (threshold c0) with (threshold c) in Hsc. change (cur_msg c0) with (MAdd e) in Hsc.
    change (cur_sender c0) with WAsker in Hsc. change (storage c0) with (storage c) in Hsc.
    change (actor c0) with (actor c ++ [e]) in Hsc. change (snapreq_seen c0) with false in Hsc.
    rewrite Htl, Hth in Hsc.
    destruct Hsc as (Hn & Hm & Hw & Hr & Ht & Hs & Ha & Hwf1 & Hcase).
    rewrite app_length. cbn [length]. rewrite Nat.add_1_r.
    rewrite Hn in Hcase.
    destruct (a_th a <=? Z.of_nat (S (length (a_tail a))))%Z eqn:Eth; cbn [fst snd].
    + destruct Hcase as (Hj & Hc & Hq). split.
      * constructor; cbn [a_th a_snap a_tail]; auto.
        -- rewrite Hj, Hac. reflexivity.
        -- rewrite Ha, Hac. unfold a_state at 2. cbn [a_snap a_tail snap_list]. rewrite app_nil_r. reflexivity.
        -- right. unfold a_saved. cbn. discriminate.
      * rewrite Hn, Hm, Hw, Hq. reflexivity.
    + destruct Hcase as (Hj & Hc & Hq). split.
      * constructor; cbn [a_th a_snap a_tail]; auto.
        -- rewrite Hj. exact Hsn.
        -- rewrite Ha, Hac. unfold a_state. cbn [a_snap a_tail]. rewrite app_assoc. reflexivity.
        -- right. unfold a_saved. cbn [a_snap a_tail]. destruct (a_snap a); destruct (a_tail a); discriminate.
      * rewrite Hn, Hm, Hw, Hq. reflexivity.
  - (* Fail *)
    cbn [step astep]. unfold fail.
    pose proof (persist_spec _ _ (inv_set_regs c a MCrash WNone HI)) as Hp.
    destruct (persist (set_regs c MCrash WNone)) as [c1 saved] eqn:E. cbn [fst snd] in Hp.
    destruct Hp as (Hsv & Hh & Hj & Hr & Ht & Ha & _ & _ & Hsto).
    destruct HI as [Hrec Hth Hsn Htl Hac Hwf Hst].
    cbn [set_regs hp jr threshold] in Hh, Hj, Ht.
    assert (HL := launch_spec g (set_actor c1 [] false) a).
    cbn [set_actor recovering actor threshold jr hp storage] in HL.
    rewrite Hh, Hj, Ht in HL.
    specialize (HL Hr eq_refl Hth Hwf).
    destruct (launch repaired g (set_actor c1 [] false)) as [[c2 trace] counts] eqn:EL.
    cbn [fst snd] in HL |- *.
    assert (HL' : Inv c2 a /\ trace = a_trace a /\ counts = a_counts a).
    { apply HL. destruct Hsto as [(Hs0 & Hs1 & Hs2)|(Hs0 & Hs1)].
      - left. repeat split; auto. + rewrite Hsn. exact Hs1. + rewrite Htl. exact Hs2.
      - right. exists (j_events (jr c)). repeat split; auto. }
    destruct HL' as (HI2 & Htr & Hcn). split; [exact HI2|].
    unfold a_launch. rewrite Hsv, Htr, Hcn, (inv_actor _ _ HI2). reflexivity.
  - (* StopRecreate *)
    cbn [step astep]. unfold stop_recreate.
    pose proof (persist_spec _ _ HI) as Hp.
    destruct (persist c) as [c1 saved] eqn:E. cbn [fst snd] in Hp.
    destruct Hp as (Hsv & Hh & Hj & Hr & Ht & Ha & _ & _ & Hsto).
    destruct HI as [Hrec Hth Hsn Htl Hac Hwf Hst].
    set (a' := {| a_th := th'; a_snap := a_snap a; a_tail := a_tail a |}).
    assert (HL := launch_spec g (fresh_ctx (hp c1) (storage c1) th') a').
    cbn [fresh_ctx recovering actor threshold jr hp storage j_events j_snap nil_slice s_arr a' a_th a_snap a_tail] in HL.
    rewrite Hh in HL.
    assert (Hne : 0 < length (hp c)) by lia.
    specialize (HL eq_refl eq_refl eq_refl Hne).
    change (a_saved a') with (a_saved a) in HL.
    rewrite Hh.
    destruct (launch repaired g (fresh_ctx (hp c) (storage c1) th')) as [[c2 trace] counts] eqn:EL.
    cbn [fst snd] in HL |- *.
    assert (HL' : Inv c2 a' /\ trace = a_trace a' /\ counts = a_counts a').
    { apply HL. destruct Hsto as [(Hs0 & Hs1 & Hs2)|(Hs0 & Hs1)].
      - left. repeat split; auto.
      - right. exists (j_events (jr c)). repeat split; auto. }
    destruct HL' as (HI2 & Htr & Hcn). split; [exact HI2|].
    unfold a_launch. rewrite Hsv, Htr, Hcn, (inv_actor _ _ HI2). reflexivity.
  - (* Persist *)
    cbn [step astep].
    pose proof (persist_spec _ _ (inv_set_regs c a MPersist WAsker HI)) as Hp.
    destruct (persist (set_regs c MPersist WAsker)) as [c1 saved] eqn:E. cbn [fst snd] in Hp |- *.
    destruct Hp as (Hsv & Hh & Hj & Hr & Ht & Ha & _ & _ & Hsto).
    destruct HI as [Hrec Hth Hsn Htl Hac Hwf Hst].
    cbn [set_regs hp jr threshold actor] in Hh, Hj, Ht, Ha.
    split; [|rewrite Hsv; reflexivity].
    constructor; auto.
    + rewrite Ht. exact Hth.
    + rewrite Hj. exact Hsn.
    + rewrite Hh, Hj. exact Htl.
    + rewrite Ha. exact Hac.
    + rewrite Hh, Hj. exact Hwf.
    + destruct Hsto as [(Hs0 & _)|(_ & Hs1)]; auto.
  - (* Query *)
    cbn [step astep fst snd]. split; [apply inv_set_regs; exact HI|].
    rewrite (inv_actor _ _ HI). reflexivity.
Qed.

Lemma run_from_refines g : forall ops c a,
  Inv c a ->
  Inv (fst (run_from repaired g c ops)) (fst (arun_from a ops))
  /\ snd (run_from repaired g c ops) = snd (arun_from a ops).
Proof.
  induction ops as [|o ops IH]; intros c a HI; cbn [run_from arun_from].
  - cbn. auto.
  - pose proof (step_refines g c a o HI) as (HI1 & Ho).
    destruct (step repaired g c o) as [c1 x] eqn:E1. destruct (astep a o) as [a1 y] eqn:E2.
    cbn [fst snd] in HI1, Ho. subst y.
    specialize (IH c1 a1 HI1). destruct IH as (HI2 & Hos).
    destruct (run_from repaired g c1 ops) as [c2 xs]. destruct (arun_from a1 ops) as [a2 ys].
    cbn [fst snd] in *. subst ys. auto.
Qed.

Lemma init_inv g th : Inv (init repaired g th) (ainit th).
Proof.
  unfold init.
  pose proof (launch_spec g (fresh_ctx init_heap None th) (ainit th)) as HL.
  cbn [fresh_ctx recovering actor threshold jr hp storage j_events j_snap nil_slice s_arr ainit a_th a_snap a_tail init_heap length] in HL.
  apply HL; auto. left. repeat split; auto.
Qed.

Theorem run_refines g th ops :
  Inv (fst (run repaired g th ops)) (fst (arun th ops))
  /\ snd (run repaired g th ops) = snd (arun th ops).
Proof. unfold run, arun. apply run_from_refines. apply init_inv. Qed.

(* ------------------------------------------------------------------ facts about the abstract journal *)

Lemma astep_state a o :
  a_state (fst (astep a o)) = a_state a ++ match o with Event e => [e] | _ => [] end.
Proof.
  destruct o; cbn [astep]; try (cbn; rewrite app_nil_r; reflexivity).
  destruct (a_th a <=? _)%Z; cbn [fst]; unfold a_state; cbn [a_snap a_tail snap_list].
  - rewrite app_nil_r. reflexivity.
  - rewrite app_assoc. reflexivity.
Qed.

Lemma arun_from_state : forall ops a,
  a_state (fst (arun_from a ops)) = a_state a ++ recorded ops.
Proof.
  induction ops as [|o ops IH]; intros a; cbn [arun_from recorded flat_map].
  - cbn. rewrite app_nil_r. reflexivity.
  - pose proof (astep_state a o) as Hs.
    destruct (astep a o) as [a1 y]. cbn [fst] in Hs.
    specialize (IH a1). destruct (arun_from a1 ops) as [a2 ys]. cbn [fst] in *.
    rewrite IH, Hs, <- app_assoc. reflexivity.
Qed.

Lemma arun_state th ops : a_state (fst (arun th ops)) = recorded ops.
Proof. unfold arun. rewrite arun_from_state. reflexivity. Qed.

(* ------------------------------------------------------------------ the statements of C09 *)

(* the state of the actor is always the full recorded history: across every generation *)
Theorem state_is_history g th ops :
  actor (fst (run repaired g th ops)) = recorded ops.
Proof.
  destruct (run_refines g th ops) as (HI & _).
  rewrite (inv_actor _ _ HI). apply arun_state.
Qed.

Theorem recovery_exact g th ops o :
  is_relaunch o = true ->
  let c := fst (run repaired g th ops) in
  launch_state (snd (step repaired g c o)) = Some (actor c)
  /\ actor (fst (step repaired g c o)) = actor c
  /\ actor c = recorded ops.
Proof.
  intros Hrl. cbv zeta.
  destruct (run_refines g th ops) as (HI & _).
  pose proof (step_refines g _ _ o HI) as (HI1 & Ho).
  rewrite Ho, (inv_actor _ _ HI1), (inv_actor _ _ HI), arun_state.
  destruct o; try discriminate; cbn [astep fst snd a_launch launch_state];
    unfold a_state; cbn [a_snap a_tail]; rewrite <- arun_state with (th := th); auto.
Qed.

Theorem no_loss_dup_reorder g th ops o :
  is_relaunch o = true ->
  let c := fst (run repaired g th ops) in
  let a := fst (arun th ops) in
  exists saved trace counts st,
    snd (step repaired g c o) = OLaunch saved trace counts st
    /\ trace = snap_items (a_snap a) ++ map REv (a_tail a)
    /\ snap_list (a_snap a) ++ a_tail a = recorded ops
    /\ journal_view c = (a_snap a, a_tail a)
    /\ saved = a_saved a.
Proof.
  intros Hrl. cbv zeta.
  destruct (run_refines g th ops) as (HI & _).
  pose proof (step_refines g _ _ o HI) as (HI1 & Ho).
  pose proof (arun_state th ops) as Hst. unfold a_state in Hst.
  assert (Hjv : journal_view (fst (run repaired g th ops)) = (a_snap (fst (arun th ops)), a_tail (fst (arun th ops)))).
  { unfold journal_view. rewrite (inv_snap _ _ HI), (inv_tail _ _ HI). reflexivity. }
  destruct o; try discriminate; rewrite Ho; cbn [astep snd a_launch];
    do 4 eexists; (split; [reflexivity|]); repeat split; auto.
Qed.

Theorem replay_does_not_record g th ops o :
  is_relaunch o = true ->
  let c := fst (run repaired g th ops) in
  let a := fst (arun th ops) in
  (exists saved trace st,
     snd (step repaired g c o) = OLaunch saved trace (repeat (Z.of_nat (length (a_tail a))) (length (a_tail a))) st)
  /\ journal_view (fst (step repaired g c o)) = journal_view c.
Proof.
  intros Hrl. cbv zeta.
  destruct (run_refines g th ops) as (HI & _).
  pose proof (step_refines g _ _ o HI) as (HI1 & Ho).
  split.
  - destruct o; try discriminate; rewrite Ho; cbn [astep snd a_launch]; do 3 eexists; reflexivity.
  - unfold journal_view.
    rewrite (inv_snap _ _ HI), (inv_tail _ _ HI), (inv_snap _ _ HI1), (inv_tail _ _ HI1).
    destruct o; try discriminate; reflexivity.
Qed.

(* StateChanged never changes the current message / sender: for EVERY context, reachable or not *)
Theorem state_changed_preserves_registers g c e :
  cur_msg (fst (state_changed repaired g c e)) = cur_msg c
  /\ cur_sender (fst (state_changed repaired g c e)) = cur_sender c.
Proof.
  unfold state_changed.
  destruct (recovering c); [cbn; auto|].
  destruct (threshold c <=? event_count (j_append g c e))%Z; cbn [fst repaired v_restore].
  - cbn. auto.
  - unfold j_append. destruct (sl_append g (hp c) (j_events (jr c)) e). cbn. auto.
Qed.

Theorem event_output_registers g th ops e :
  exists num sr, snd (step repaired g (fst (run repaired g th ops)) (Event e)) = OEvent num (MAdd e) WAsker sr.
Proof.
  destruct (run_refines g th ops) as (HI & _).
  pose proof (step_refines g _ _ (Event e) HI) as (_ & Ho). rewrite Ho.
  cbn [astep]. destruct (a_th _ <=? _)%Z; cbn [snd]; do 2 eexists; reflexivity.
Qed.

Theorem capacity_invisible g g' th ops :
  snd (run repaired g th ops) = snd (run repaired g' th ops).
Proof.
  destruct (run_refines g th ops) as (_ & H1). destruct (run_refines g' th ops) as (_ & H2).
  congruence.
Qed.

Theorem refines_abstract_journal g th ops :
  snd (run repaired g th ops) = snd (arun th ops)
  /\ journal_view (fst (run repaired g th ops)) = (a_snap (fst (arun th ops)), a_tail (fst (arun th ops)))
  /\ recovering (fst (run repaired g th ops)) = false.
Proof.
  destruct (run_refines g th ops) as (HI & Ho).
  split; [exact Ho|split; [|exact (inv_rec _ _ HI)]].
  unfold journal_view. rewrite (inv_snap _ _ HI), (inv_tail _ _ HI). reflexivity.
Qed.

(* the actor that records before it applies loses the event that crosses the threshold *)
Theorem record_first_recovery_refuted :
  exists (g : nat -> nat -> nat) (th : Z) (ops : list op),
    actor (fst (run repaired_record_first g th ops)) <> recorded ops.
Proof.
  exists go_grow, 2%Z, [Event 1; Event 2; Event 3; Fail]%Z. vm_compute. discriminate.
Qed.
