(* MV.C09.PersistProofs — the heap/slice model of PersistModel refines the abstract journal
   (last snapshot, events since), for every growth policy, threshold and history. *)
From MV Require Import Lib.ListX C09.PersistModel.
From Coq Require Import ZifyBool ZifyNat.

Arguments Z.of_nat : simpl never.
Arguments Z.leb : simpl never.
Arguments Nat.ltb : simpl never.
Arguments Nat.max : simpl never.

(* ------------------------------------------------------------------ lists *)

Lemma map_nth_seq_app : forall (l r : list Z) (d : Z),
  map (fun i => nth i (l ++ r) d) (seq 0 (length l)) = l.
Proof.
  intros l. induction l as [|x l IH] using rev_ind; intros r d.
  - reflexivity.
  - rewrite app_length. cbn [length]. rewrite Nat.add_1_r, seq_S, map_app. cbn [map Nat.add].
    rewrite <- app_assoc. cbn [app]. rewrite IH. f_equal.
    rewrite app_nth2 by lia. rewrite Nat.sub_diag. reflexivity.
Qed.

Lemma map_seq_ext : forall (f f' : nat -> Z) n k,
  (forall i, k <= i < k + n -> f i = f' i) -> map f (seq k n) = map f' (seq k n).
Proof.
  intros f f' n. induction n as [|n IH]; intros k H; cbn; auto.
  f_equal. { apply H. lia. } apply IH. intros i Hi. apply H. lia.
Qed.

(* ------------------------------------------------------------------ heap *)

Lemma contents_length h s : length (contents h s) = s_len s.
Proof. unfold contents. rewrite map_length, seq_length. reflexivity. Qed.

Lemma contents_len0 h a : contents h {| s_arr := a; s_len := 0 |} = [].
Proof. reflexivity. Qed.

Lemma contents_new (h : heap) (l : list Z) cap :
  contents (h ++ [pad l cap]) {| s_arr := length h; s_len := length l |} = l.
Proof.
  unfold contents, read, arr. cbn [s_arr s_len].
  rewrite app_nth2 by lia. rewrite Nat.sub_diag. cbn [nth]. unfold pad.
  apply map_nth_seq_app.
Qed.

Lemma contents_old (h : heap) (x : list Z) s :
  s_arr s < length h -> contents (h ++ [x]) s = contents h s.
Proof.
  intros H. unfold contents, read, arr. rewrite app_nth1 by exact H. reflexivity.
Qed.

Lemma nth_upd_heap (h : heap) a x : a < length h -> nth a (upd a x h) [] = x.
Proof. intros H. apply nth_upd_same. exact H. Qed.

Lemma sl_append_spec g h s e :
  s_arr s < length h ->
  contents (fst (sl_append g h s e)) (snd (sl_append g h s e)) = contents h s ++ [e]
  /\ s_arr (snd (sl_append g h s e)) < length (fst (sl_append g h s e))
  /\ s_len (snd (sl_append g h s e)) = S (s_len s).
Proof.
  intros Hwf. unfold sl_append.
  destruct (Nat.ltb_spec (s_len s) (capacity h s)) as [Hlt|Hge]; cbn [fst snd].
  - unfold capacity in Hlt. split; [|split].
    + unfold contents, read, arr. cbn [s_arr s_len].
      rewrite nth_upd_heap by exact Hwf.
      rewrite seq_S, map_app. cbn [map Nat.add]. f_equal.
      * apply map_seq_ext. intros i Hi. apply nth_upd_other. lia.
      * f_equal. apply nth_upd_same. exact Hlt.
    + cbn [s_arr]. rewrite upd_length. exact Hwf.
    + reflexivity.
  - split; [|split].
    + apply contents_new.
    + cbn [s_arr]. rewrite app_length. cbn. lia.
    + cbn [s_len]. rewrite app_length, contents_length. cbn. lia.
Qed.

(* a heap is well formed when it has the array 0 and that array is empty (capacity 0: never written) *)
Definition hwf (h : heap) : Prop := 0 < length h /\ arr h 0 = [].

(* SEPARATION: the slice s0 (a stored record) shares its backing array with the slice s (the journal) only if
   that array is the empty array 0 *)
Definition sep (s0 s : slice) : Prop := s_arr s0 = s_arr s -> s_arr s0 = 0.

Lemma contents_arr_ext h h' s : arr h' (s_arr s) = arr h (s_arr s) -> contents h' s = contents h s.
Proof. intros H. unfold contents, read. rewrite H. reflexivity. Qed.

(* append(s, e) does not change what any separated slice s0 holds: the in-place write goes to an array that is
   not s0's (it is not array 0, whose capacity is 0), the other case allocates *)
Lemma sl_append_frame g h s e s0 :
  hwf h -> s_arr s < length h -> s_arr s0 < length h -> sep s0 s ->
  contents (fst (sl_append g h s e)) s0 = contents h s0
  /\ hwf (fst (sl_append g h s e))
  /\ s_arr s0 < length (fst (sl_append g h s e))
  /\ sep s0 (snd (sl_append g h s e)).
Proof.
  intros [Hlen H0] Hwf Hwf0 Hsep. unfold sl_append.
  destruct (Nat.ltb_spec (s_len s) (capacity h s)) as [Hlt|Hge]; cbn [fst snd].
  - unfold capacity in Hlt.
    assert (Hne0 : s_arr s <> 0).
    { intros E. rewrite E, H0 in Hlt. cbn in Hlt. lia. }
    assert (Hne : s_arr s <> s_arr s0).
    { intros E. unfold sep in Hsep. symmetry in E. specialize (Hsep E). congruence. }
    split; [|split; [|split]].
    + apply contents_arr_ext. unfold arr. apply nth_upd_other. exact Hne.
    + split; [rewrite upd_length; exact Hlen|]. unfold arr. rewrite nth_upd_other by exact Hne0. exact H0.
    + rewrite upd_length. exact Hwf0.
    + unfold sep. cbn [s_arr]. exact Hsep.
  - split; [|split; [|split]].
    + apply contents_old. exact Hwf0.
    + split; [rewrite app_length; cbn; lia|]. unfold arr. rewrite app_nth1 by exact Hlen. exact H0.
    + rewrite app_length. cbn. lia.
    + unfold sep. cbn [s_arr]. lia.
Qed.

Lemma sl_append_hwf g h s e :
  hwf h -> s_arr s < length h -> hwf (fst (sl_append g h s e)).
Proof.
  intros Hh Hwf.
  apply (sl_append_frame g h s e {| s_arr := 0; s_len := 0 |} Hh Hwf); [destruct Hh; exact H|].
  unfold sep. cbn. auto.
Qed.

Lemma sl_copy_spec g h s :
  hwf h ->
  contents (fst (sl_copy g h s)) (snd (sl_copy g h s)) = contents h s
  /\ s_arr (snd (sl_copy g h s)) < length (fst (sl_copy g h s))
  /\ (forall s0, s_arr s0 < length h -> contents (fst (sl_copy g h s)) s0 = contents h s0)
  /\ s_len (snd (sl_copy g h s)) = s_len s
  /\ hwf (fst (sl_copy g h s))
  /\ length h <= length (fst (sl_copy g h s))
  /\ (forall s0, s_arr s0 < length h -> sep s0 (snd (sl_copy g h s)) /\ sep (snd (sl_copy g h s)) s0).
Proof.
  intros [Hne H0]. unfold sl_copy.
  pose proof (contents_length h s) as Hlen.
  destruct (contents h s) as [|x l] eqn:E; cbn [fst snd].
  - repeat split; auto; unfold sep; cbn; auto.
  - split; [|split; [|split; [|split; [|split; [|split]]]]].
    + apply contents_new.
    + cbn [s_arr]. rewrite app_length. cbn. lia.
    + intros s0 H1. apply contents_old. exact H1.
    + cbn [s_len]. exact Hlen.
    + split; [rewrite app_length; cbn; lia|]. unfold arr. rewrite app_nth1 by exact Hne. exact H0.
    + rewrite app_length. lia.
    + intros s0 H1. unfold sep. cbn [s_arr]. split; lia.
Qed.

(* ------------------------------------------------------------------ the refinement invariant *)

(* the abstract state is well formed: a stored record is never the empty record, and while one is stored the
   journal is not empty (every launch makes the journal continue from the stored record) *)
Definition awf (a : ajr) : Prop :=
  forall r, a_stored a = Some r -> r <> (None, []) /\ a_saved a <> None.

(* the stored record, read through the heap, is the abstract one; its slice is valid *)
Definition sto_rel (c : ctx) (a : ajr) : Prop :=
  match storage c with
  | None => a_stored a = None
  | Some (sn, s) => a_stored a = Some (sn, contents (hp c) s) /\ s_arr s < length (hp c)
  end.

(* ... and separated from the journal's slice, so that appending to the journal cannot change it *)
Definition sto_sep (c : ctx) : Prop :=
  match storage c with
  | None => True
  | Some (_, s) => sep s (j_events (jr c))
  end.

Record Inv (c : ctx) (a : ajr) : Prop := {
  inv_rec : recovering c = false;
  inv_th : threshold c = a_th a;
  inv_snap : j_snap (jr c) = a_snap a;
  inv_tail : contents (hp c) (j_events (jr c)) = a_tail a;
  inv_actor : actor c = a_state a;
  inv_wf : s_arr (j_events (jr c)) < length (hp c);
  inv_heap : hwf (hp c);
  inv_sto : sto_rel c a;
  inv_sep : sto_sep c;
  inv_awf : awf a
}.

Lemma a_saved_some a : (a_snap a <> None \/ a_tail a <> []) -> a_saved a = Some (a_snap a, a_tail a).
Proof.
  unfold a_saved. destruct (a_snap a); destruct (a_tail a); intros [H|H]; try reflexivity; congruence.
Qed.

Lemma a_saved_none a : a_snap a = None -> a_tail a = [] -> a_saved a = None.
Proof. unfold a_saved. intros -> ->. reflexivity. Qed.

Lemma a_saved_cases a :
  (a_saved a = None /\ a_snap a = None /\ a_tail a = [])
  \/ (a_saved a = Some (a_snap a, a_tail a) /\ (a_snap a, a_tail a) <> (None, [])).
Proof.
  unfold a_saved. destruct (a_snap a); destruct (a_tail a); auto; right; split; auto; discriminate.
Qed.

Lemma inv_stored_view c a : Inv c a -> stored_view c = a_stored a.
Proof.
  intros HI. pose proof (inv_sto _ _ HI) as H. unfold sto_rel in H. unfold stored_view.
  destruct (storage c) as [[sn s]|]; [destruct H as [H _]|]; congruence.
Qed.

(* ------------------------------------------------------------------ StateChanged *)

Lemma state_changed_spec g c e :
  recovering c = false ->
  s_arr (j_events (jr c)) < length (hp c) ->
  hwf (hp c) ->
  let t := contents (hp c) (j_events (jr c)) in
  let c' := fst (state_changed repaired g c e) in
  let num := snd (state_changed repaired g c e) in
  num = Z.of_nat (S (length t))
  /\ cur_msg c' = cur_msg c /\ cur_sender c' = cur_sender c
  /\ recovering c' = false /\ threshold c' = threshold c /\ storage c' = storage c
  /\ actor c' = actor c
  /\ s_arr (j_events (jr c')) < length (hp c')
  /\ (if (threshold c <=? num)%Z
      then j_snap (jr c') = Some (actor c) /\ contents (hp c') (j_events (jr c')) = [] /\ snapreq_seen c' = true
      else j_snap (jr c') = j_snap (jr c) /\ contents (hp c') (j_events (jr c')) = t ++ [e]
           /\ snapreq_seen c' = snapreq_seen c)
  /\ hwf (hp c')
  /\ (forall s0, s_arr s0 < length (hp c) -> sep s0 (j_events (jr c)) ->
        contents (hp c') s0 = contents (hp c) s0 /\ s_arr s0 < length (hp c') /\ sep s0 (j_events (jr c'))).
Proof.
  intros Hrec Hwf Hh. cbv zeta.
  unfold state_changed. rewrite Hrec.
  unfold j_append.
  pose proof (sl_append_spec g (hp c) (j_events (jr c)) e Hwf) as (Hc & Hw & Hl).
  pose proof (sl_append_hwf g (hp c) (j_events (jr c)) e Hh Hwf) as Hh'.
  assert (Hfr : forall s0, s_arr s0 < length (hp c) -> sep s0 (j_events (jr c)) ->
            contents (fst (sl_append g (hp c) (j_events (jr c)) e)) s0 = contents (hp c) s0
            /\ s_arr s0 < length (fst (sl_append g (hp c) (j_events (jr c)) e))
            /\ sep s0 (snd (sl_append g (hp c) (j_events (jr c)) e))).
  { intros s0 H0 Hs. pose proof (sl_append_frame g (hp c) (j_events (jr c)) e s0 Hh Hwf H0 Hs) as (F1 & _ & F3 & F4).
    auto. }
  destruct (sl_append g (hp c) (j_events (jr c)) e) as [h' s'] eqn:E. cbn [fst snd] in Hc, Hw, Hl, Hh', Hfr.
  unfold event_count. cbn [set_hp_jr jr j_events hp threshold].
  rewrite Hl, contents_length.
  destruct (threshold c <=? Z.of_nat (S (s_len (j_events (jr c)))))%Z eqn:Eth;
    cbn [fst snd repaired v_restore].
  - unfold process_snapreq, on_snapreq, save_snapshot.
    cbn. rewrite Hrec. cbn. rewrite ?Eth.
    do 10 (split; [solve [auto]|]). intros s0 H0 Hs. apply Hfr; auto.
  - cbn. rewrite ?Eth.
    do 10 (split; [solve [auto]|]). intros s0 H0 Hs. apply Hfr; auto.
Qed.

(* ------------------------------------------------------------------ replay while recovering *)

Lemma process_add_recovering g c w e :
  recovering c = true ->
  process_add repaired g c w e
  = (set_actor (set_regs c (MAdd e) w) (actor c ++ [e]) false, (event_count c, MAdd e, w, false)).
Proof.
  intros H. unfold process_add, on_add, state_changed.
  cbn [repaired v_record_first set_regs set_actor recovering actor]. rewrite H. reflexivity.
Qed.

Lemma replay_recovering g s : forall n i c,
  recovering c = true ->
  let c' := fst (fst (replay repaired g c s i n)) in
  let es := snd (fst (replay repaired g c s i n)) in
  let ns := snd (replay repaired g c s i n) in
  hp c' = hp c /\ jr c' = jr c /\ recovering c' = true /\ threshold c' = threshold c
  /\ storage c' = storage c /\ actor c' = actor c ++ es
  /\ es = map (read (hp c) s) (seq i n) /\ ns = repeat (event_count c) n.
Proof.
  induction n as [|n IH]; intros i c Hrec; cbv zeta.
  - cbn. rewrite app_nil_r. repeat split; auto.
  - cbn [replay]. rewrite process_add_recovering by exact Hrec.
    set (c1 := set_actor (set_regs c (MAdd (read (hp c) s i)) WSelf) (actor c ++ [read (hp c) s i]) false).
    assert (Hrec1 : recovering c1 = true) by exact Hrec.
    specialize (IH (S i) c1 Hrec1). cbv zeta in IH.
    destruct (replay repaired g c1 s (S i) n) as [[c2 es] ns] eqn:E.
    cbn [fst snd] in *.
    destruct IH as (H1 & H2 & H3 & H4 & H5 & H6 & H7 & H8).
    change (hp c1) with (hp c) in *. change (jr c1) with (jr c) in *.
    change (threshold c1) with (threshold c) in *. change (storage c1) with (storage c) in *.
    change (actor c1) with (actor c ++ [read (hp c) s i]) in *.
    change (event_count c1) with (event_count c) in *.
    repeat split; auto.
    + rewrite H6, <- app_assoc. reflexivity.
    + cbn [seq map]. f_equal. exact H7.
    + cbn [repeat]. f_equal. exact H8.
Qed.

(* ------------------------------------------------------------------ launch = OnLaunch + recovery *)

(* whatever the journal of the context held, after the launch it is what the storage holds (nothing if nothing is
   stored), and so is the state of the new instance *)
Lemma launch_spec g c a th :
  recovering c = false -> actor c = [] -> threshold c = th ->
  s_arr (j_events (jr c)) < length (hp c) ->
  hwf (hp c) -> sto_rel c a -> awf a ->
  Inv (fst (fst (launch repaired g c))) (a_recover th a)
  /\ snd (fst (launch repaired g c)) = a_trace (a_recover th a)
  /\ snd (launch repaired g c) = a_counts (a_recover th a).
Proof.
  intros Hrec Hact Hth Hwf Hh Hsto Hawf.
  unfold sto_rel in Hsto. unfold launch, recover, state_load. cbn [set_regs storage].
  destruct (storage c) as [[sn evs]|] eqn:Est.
  - destruct Hsto as [Hsa Hwe].
    assert (Hne : (sn, contents (hp c) evs) <> (None, [])) by (apply (Hawf _ Hsa)).
    unfold a_recover. rewrite Hsa.
    set (t := contents (hp c) evs) in *.
    cbn [repaired v_seed v_load_copies hp].
    pose proof (sl_copy_spec g (hp c) evs Hh) as (Hcc & Hcw & Hco & Hcl & Hch & Hcg & Hcs).
    destruct (sl_copy g (hp c) evs) as [h' s'] eqn:E. cbn [fst snd] in Hcc, Hcw, Hco, Hcl, Hch, Hcg, Hcs.
    change (hp (set_regs c MLaunch WParent)) with (hp c). rewrite E.
    set (c1 := set_recovering (set_hp_jr (set_regs c MLaunch WParent) h' {| j_snap := sn; j_events := s' |}) true).
    set (c3 := match sn with Some s => process_snap c1 s | None => c1 end).
    assert (Hrec3 : recovering c3 = true) by (unfold c3; destruct sn; reflexivity).
    assert (Hhp3 : hp c3 = h') by (unfold c3; destruct sn; reflexivity).
    assert (Hjr3 : jr c3 = {| j_snap := sn; j_events := s' |}) by (unfold c3; destruct sn; reflexivity).
    assert (Hth3 : threshold c3 = threshold c) by (unfold c3; destruct sn; reflexivity).
    assert (Hst3 : storage c3 = Some (sn, evs)) by (unfold c3; destruct sn; cbn; exact Est).
    assert (Hac3 : actor c3 = snap_list sn).
    { unfold c3; destruct sn; cbn; auto. }
    pose proof (replay_recovering g evs (s_len evs) 0 c3 Hrec3) as Hrp. cbv zeta in Hrp.
    destruct (replay repaired g c3 evs 0 (s_len evs)) as [[c4 es] ns] eqn:E4.
    cbn [fst snd] in Hrp |- *.
    destruct Hrp as (H1 & H2 & H3 & H4 & H5 & H6 & H7 & H8).
    assert (Hes : es = t).
    { rewrite H7, Hhp3. change (map (read h' evs) (seq 0 (s_len evs))) with (contents h' evs).
      rewrite Hco by exact Hwe. reflexivity. }
    assert (Hlen : s_len evs = length t).
    { unfold t. rewrite contents_length. reflexivity. }
    split; [|split].
    + constructor; cbn [set_recovering recovering threshold jr hp actor storage a_th a_snap a_tail a_stored].
      * reflexivity.
      * rewrite H4, Hth3. exact Hth.
      * rewrite H2, Hjr3. reflexivity.
      * rewrite H1, H2, Hhp3, Hjr3. cbn [j_events]. rewrite Hcc. reflexivity.
      * rewrite H6, Hac3, Hes. reflexivity.
      * rewrite H1, H2, Hhp3, Hjr3. cbn [j_events]. exact Hcw.
      * rewrite H1, Hhp3. exact Hch.
      * unfold sto_rel. cbn [set_recovering storage hp a_stored]. rewrite H5, Hst3, H1, Hhp3.
        rewrite Hco by exact Hwe. split; [reflexivity|lia].
      * unfold sto_sep. cbn [set_recovering storage jr]. rewrite H5, Hst3, H2, Hjr3. cbn [j_events].
        apply Hcs. exact Hwe.
      * intros r Hr. cbn [a_stored] in Hr. inversion Hr; subst r. split; [exact Hne|].
        destruct (a_saved_cases {| a_th := th; a_snap := sn; a_tail := t; a_stored := Some (sn, t) |})
          as [(_ & Hs1 & Hs2)|(Hs1 & _)]; cbn [a_snap a_tail] in *.
        -- exfalso. apply Hne. congruence.
        -- rewrite Hs1. discriminate.
    + unfold a_trace. cbn [a_snap a_tail]. rewrite Hes. destruct sn; reflexivity.
    + rewrite H8. unfold a_counts, event_count. rewrite Hjr3. cbn [j_events a_tail].
      rewrite Hcl, Hlen. reflexivity.
  - unfold a_recover. rewrite Hsto. cbn [repaired v_norec_resets fst snd].
    split; [|split]; try reflexivity.
    constructor; cbn; auto.
    + destruct Hh; assumption.
    + unfold sto_rel. cbn. rewrite Est. reflexivity.
    + unfold sto_sep. cbn. rewrite Est. exact I.
    + intros r Hr. discriminate.
Qed.

(* ------------------------------------------------------------------ persist *)

Lemma inv_set_regs c a m w : Inv c a -> Inv (set_regs c m w) a.
Proof. intros [H1 H2 H3 H4 H5 H6 H7 H8 H9 H10]. constructor; cbn; auto. Qed.

(* persist of a context that satisfies the invariant: Save receives the abstract journal; the storage is replaced
   by a copy unless the save fails or there is nothing to save; nothing else changes *)
Lemma persist_spec g fault c a :
  Inv c a ->
  snd (persist repaired g fault c) = a_saved a
  /\ Inv (fst (persist repaired g fault c)) (a_persist fault a)
  /\ actor (fst (persist repaired g fault c)) = actor c
  /\ threshold (fst (persist repaired g fault c)) = threshold c
  /\ cur_msg (fst (persist repaired g fault c)) = cur_msg c
  /\ cur_sender (fst (persist repaired g fault c)) = cur_sender c.
Proof.
  intros HI. pose proof HI as [Hrec Hth Hsn Htl Hac Hwf Hh Hsto Hsep Hawf].
  unfold persist, a_persist.
  pose proof (contents_length (hp c) (j_events (jr c))) as Hlen. rewrite Htl in Hlen.
  destruct (a_saved_cases a) as [(Hsv & Hs1 & Hs2)|(Hsv & Hne)].
  - (* nothing to save *)
    rewrite Hsn, Hs1. rewrite Hs2 in Hlen. cbn in Hlen. rewrite <- Hlen, Hsv.
    destruct fault; cbn [fst snd]; auto 10.
  - rewrite Hsv.
    assert (Hrecv : Some (j_snap (jr c), contents (hp c) (j_events (jr c))) = Some (a_snap a, a_tail a))
      by (rewrite Hsn, Htl; reflexivity).
    assert (Hbr : forall (X : ctx * saved_rec),
              match j_snap (jr c), s_len (j_events (jr c)) with None, O => (c, None) | _, _ => X end = X).
    { intros X. rewrite Hsn. destruct (a_snap a) as [x|]; [reflexivity|].
      destruct (s_len (j_events (jr c))) eqn:El; [|reflexivity].
      exfalso. apply Hne. f_equal. destruct (a_tail a); [reflexivity|cbn in Hlen; lia]. }
    rewrite Hbr. clear Hbr.
    destruct fault.
    + cbn [fst snd]. rewrite Hrecv. auto 10.
    + cbn [repaired v_save_copies].
      pose proof (sl_copy_spec g (hp c) (j_events (jr c)) Hh) as (Hcc & Hcw & Hco & Hcl & Hch & Hcg & Hcs).
      destruct (sl_copy g (hp c) (j_events (jr c))) as [h' s'] eqn:E.
      cbn [fst snd] in Hcc, Hcw, Hco, Hcl, Hch, Hcg, Hcs |- *.
      rewrite Hrecv. split; [reflexivity|]. split; [|auto].
      constructor; cbn [set_storage set_hp_jr recovering threshold jr hp actor storage a_th a_snap a_tail a_stored]; auto.
      * rewrite Hco by exact Hwf. exact Htl.
      * lia.
      * unfold sto_rel. cbn [set_storage set_hp_jr storage hp a_stored].
        rewrite Hcc, Hsn, Htl. split; [reflexivity|exact Hcw].
      * unfold sto_sep. cbn [set_storage set_hp_jr storage jr]. apply Hcs. exact Hwf.
      * intros r Hr. cbn [a_stored] in Hr. inversion Hr; subst r. split; [exact Hne|].
        change (a_saved {| a_th := a_th a; a_snap := a_snap a; a_tail := a_tail a; a_stored := Some (a_snap a, a_tail a) |})
          with (a_saved a). rewrite Hsv. discriminate.
Qed.

(* ------------------------------------------------------------------ one step *)

Lemma mark_eq fault s s' o o' : s = s' -> o = o' -> mark fault s o = mark fault s' o'.
Proof. intros -> ->. reflexivity. Qed.

Lemma a_th_persist fault a : a_th (a_persist fault a) = a_th a.
Proof. unfold a_persist. destruct fault; destruct (a_saved a); reflexivity. Qed.

Lemma fail_refines g fault c a :
  Inv c a ->
  Inv (fst (fail repaired g fault c)) (fst (a_relaunch fault (a_th a) a))
  /\ snd (fail repaired g fault c) = snd (a_relaunch fault (a_th a) a).
Proof.
  intros HI. unfold fail, a_relaunch.
  pose proof (persist_spec g fault _ _ (inv_set_regs c a MCrash WNone HI)) as (Hsv & HI1 & _ & Ht & _ & _).
  destruct (persist repaired g fault (set_regs c MCrash WNone)) as [c1 saved] eqn:E. cbn [fst snd] in Hsv, HI1, Ht.
  cbn [set_regs threshold] in Ht.
  pose proof (launch_spec g (set_actor c1 [] false) (a_persist fault a) (a_th a)) as HL.
  cbn [set_actor recovering actor threshold jr hp] in HL.
  assert (HL' := HL (inv_rec _ _ HI1) eq_refl (eq_trans Ht (inv_th _ _ HI)) (inv_wf _ _ HI1) (inv_heap _ _ HI1)
                    (inv_sto _ _ HI1) (inv_awf _ _ HI1)).
  clear HL.
  destruct (launch repaired g (set_actor c1 [] false)) as [[c2 trace] counts] eqn:EL.
  cbn [fst snd] in HL' |- *. destruct HL' as (HI2 & Htr & Hcn).
  split; [exact HI2|]. apply mark_eq; [exact Hsv|].
  rewrite Hsv, Htr, Hcn, (inv_actor _ _ HI2). reflexivity.
Qed.

Lemma stop_recreate_refines g fault c a th :
  Inv c a ->
  Inv (fst (stop_recreate repaired g fault c th)) (fst (a_relaunch fault th a))
  /\ snd (stop_recreate repaired g fault c th) = snd (a_relaunch fault th a).
Proof.
  intros HI. unfold stop_recreate, a_relaunch.
  pose proof (persist_spec g fault _ _ HI) as (Hsv & HI1 & _ & _ & _ & _).
  destruct (persist repaired g fault c) as [c1 saved] eqn:E. cbn [fst snd] in Hsv, HI1.
  pose proof (launch_spec g (fresh_ctx (hp c1) (storage c1) th) (a_persist fault a) th) as HL.
  cbn [fresh_ctx recovering actor threshold jr hp j_events empty_journal nil_slice s_arr] in HL.
  pose proof (inv_heap _ _ HI1) as Hh.
  assert (HL' := HL eq_refl eq_refl eq_refl (proj1 Hh) Hh (inv_sto _ _ HI1) (inv_awf _ _ HI1)).
  clear HL.
  destruct (launch repaired g (fresh_ctx (hp c1) (storage c1) th)) as [[c2 trace] counts] eqn:EL.
  cbn [fst snd] in HL' |- *. destruct HL' as (HI2 & Htr & Hcn).
  split; [exact HI2|]. apply mark_eq; [exact Hsv|].
  rewrite Hsv, Htr, Hcn, (inv_actor _ _ HI2). reflexivity.
Qed.

Lemma explicit_persist_refines g fault c a :
  Inv c a ->
  Inv (fst (explicit_persist repaired g fault c)) (fst (a_explicit fault a))
  /\ snd (explicit_persist repaired g fault c) = snd (a_explicit fault a).
Proof.
  intros HI. unfold explicit_persist, a_explicit.
  pose proof (persist_spec g fault _ _ (inv_set_regs c a MPersist WAsker HI)) as (Hsv & HI1 & _).
  destruct (persist repaired g fault (set_regs c MPersist WAsker)) as [c1 saved] eqn:E. cbn [fst snd] in Hsv, HI1 |- *.
  split; [exact HI1|]. rewrite Hsv. reflexivity.
Qed.

Lemma step_refines g c a o :
  Inv c a ->
  Inv (fst (step repaired g c o)) (fst (astep a o)) /\ snd (step repaired g c o) = snd (astep a o).
Proof.
  intros HI. destruct o as [e| |th'| | | | |th'].
  - (* Event *)
    destruct HI as [Hrec Hth Hsn Htl Hac Hwf Hh Hsto Hsep Hawf].
    cbn [step astep]. unfold process_add, on_add. cbn [repaired v_record_first].
    change (actor (set_regs c (MAdd e) WAsker)) with (actor c).
    set (c0 := set_actor (set_regs c (MAdd e) WAsker) (actor c ++ [e]) false).
    assert (Hrec0 : recovering c0 = false) by exact Hrec.
    assert (Hwf0 : s_arr (j_events (jr c0)) < length (hp c0)) by exact Hwf.
    assert (Hh0 : hwf (hp c0)) by exact Hh.
    pose proof (state_changed_spec g c0 e Hrec0 Hwf0 Hh0) as Hsc. cbv zeta in Hsc.
    destruct (state_changed repaired g c0 e) as [c1 num] eqn:E. cbn [fst snd] in Hsc |- *.
    change (hp c0) with (hp c) in Hsc. change (jr c0) with (jr c) in Hsc.
    change (threshold c0) with (threshold c) in Hsc. change (cur_msg c0) with (MAdd e) in Hsc.
    change (cur_sender c0) with WAsker in Hsc. change (storage c0) with (storage c) in Hsc.
    change (actor c0) with (actor c ++ [e]) in Hsc. change (snapreq_seen c0) with false in Hsc.
    rewrite Htl, Hth in Hsc.
    destruct Hsc as (Hn & Hm & Hw & Hr & Ht & Hs & Ha & Hwf1 & Hcase & Hh1 & Hfr).
    (* the stored record is untouched *)
    assert (Hsto1 : forall a', a_stored a' = a_stored a -> sto_rel c1 a' /\ sto_sep c1).
    { intros a' Ha'. unfold sto_rel, sto_sep in *. rewrite Hs, Ha'.
      destruct (storage c) as [[sn s]|]; [|auto].
      destruct Hsto as [Hs1 Hs2]. destruct (Hfr s Hs2 Hsep) as (F1 & F2 & F3).
      rewrite F1. auto. }
    rewrite app_length. cbn [length]. rewrite Nat.add_1_r.
    rewrite Hn in Hcase.
    destruct (a_th a <=? Z.of_nat (S (length (a_tail a))))%Z eqn:Eth; cbn [fst snd].
    + destruct Hcase as (Hj & Hc & Hq). split.
      * constructor; cbn [a_th a_snap a_tail]; auto; try (apply Hsto1; reflexivity).
        -- rewrite Hj, Hac. reflexivity.
        -- rewrite Ha, Hac. unfold a_state at 2. cbn [a_snap a_tail snap_list]. rewrite app_nil_r. reflexivity.
        -- apply (Hsto1 a eq_refl).
        -- intros r Hr'. cbn [a_stored] in Hr'. split; [apply (Hawf _ Hr')|]. unfold a_saved. cbn. discriminate.
      * rewrite Hn, Hm, Hw, Hq. reflexivity.
    + destruct Hcase as (Hj & Hc & Hq). split.
      * constructor; cbn [a_th a_snap a_tail]; auto; try (apply Hsto1; reflexivity).
        -- rewrite Hj. exact Hsn.
        -- rewrite Ha, Hac. unfold a_state. cbn [a_snap a_tail]. rewrite app_assoc. reflexivity.
        -- apply (Hsto1 a eq_refl).
        -- intros r Hr'. cbn [a_stored] in Hr'. split; [apply (Hawf _ Hr')|].
           unfold a_saved. cbn [a_snap a_tail]. destruct (a_snap a); destruct (a_tail a); discriminate.
      * rewrite Hn, Hm, Hw, Hq. reflexivity.
  - cbn [step astep]. apply fail_refines. exact HI.
  - cbn [step astep]. apply stop_recreate_refines. exact HI.
  - cbn [step astep]. apply explicit_persist_refines. exact HI.
  - (* Query *)
    cbn [step astep fst snd]. split; [apply inv_set_regs; exact HI|].
    rewrite (inv_actor _ _ HI). reflexivity.
  - cbn [step astep]. apply explicit_persist_refines. exact HI.
  - cbn [step astep]. apply fail_refines. exact HI.
  - cbn [step astep]. apply stop_recreate_refines. exact HI.
Qed.

Lemma run_from_refines g : forall ops c a,
  Inv c a ->
  Inv (fst (run_from repaired g c ops)) (fst (arun_from a ops))
  /\ snd (run_from repaired g c ops) = snd (arun_from a ops).
Proof.
  induction ops as [|o ops IH]; intros c a HI; cbn [run_from arun_from].
  - cbn. auto.
  - pose proof (step_refines g c a o HI) as (HI1 & Ho).
    destruct (step repaired g c o) as [c1 x] eqn:E1. destruct (astep a o) as [a1 y] eqn:E2.
    cbn [fst snd] in HI1, Ho. subst y.
    specialize (IH c1 a1 HI1). destruct IH as (HI2 & Hos).
    destruct (run_from repaired g c1 ops) as [c2 xs]. destruct (arun_from a1 ops) as [a2 ys].
    cbn [fst snd] in *. subst ys. auto.
Qed.

Lemma init_inv g th : Inv (init repaired g th) (ainit th).
Proof.
  unfold init.
  pose proof (launch_spec g (fresh_ctx init_heap None th) (ainit th) th) as HL.
  cbn [fresh_ctx recovering actor threshold jr hp storage j_events empty_journal nil_slice s_arr init_heap length] in HL.
  assert (Hh : hwf [[]]) by (split; [cbn; lia|reflexivity]).
  assert (HL' := HL eq_refl eq_refl eq_refl (proj1 Hh) Hh).
  apply HL'.
  - reflexivity.
  - intros r Hr. discriminate.
Qed.

Theorem run_refines g th ops :
  Inv (fst (run repaired g th ops)) (fst (arun th ops))
  /\ snd (run repaired g th ops) = snd (arun th ops).
Proof. unfold run, arun. apply run_from_refines. apply init_inv. Qed.

(* ------------------------------------------------------------------ histories *)

Lemma run_from_app v g : forall ops c more,
  run_from v g c (ops ++ more)
  = (fst (run_from v g (fst (run_from v g c ops)) more),
     snd (run_from v g c ops) ++ snd (run_from v g (fst (run_from v g c ops)) more)).
Proof.
  induction ops as [|o ops IH]; intros c more; cbn [run_from app].
  - cbn. destruct (run_from v g c more). reflexivity.
  - destruct (step v g c o) as [c1 x]. rewrite IH.
    destruct (run_from v g c1 ops) as [c2 xs]. cbn [fst snd].
    destruct (run_from v g c2 more) as [c3 ys]. reflexivity.
Qed.

Lemma arun_from_app : forall ops a more,
  arun_from a (ops ++ more)
  = (fst (arun_from (fst (arun_from a ops)) more),
     snd (arun_from a ops) ++ snd (arun_from (fst (arun_from a ops)) more)).
Proof.
  induction ops as [|o ops IH]; intros a more; cbn [arun_from app].
  - cbn. destruct (arun_from a more). reflexivity.
  - destruct (astep a o) as [a1 x]. rewrite IH.
    destruct (arun_from a1 ops) as [a2 xs]. cbn [fst snd].
    destruct (arun_from a2 more) as [a3 ys]. reflexivity.
Qed.

Lemma run_snoc g th ops o :
  fst (run repaired g th (ops ++ [o])) = fst (step repaired g (fst (run repaired g th ops)) o).
Proof.
  unfold run. rewrite run_from_app. cbn [fst run_from].
  destruct (step repaired g (fst (run_from repaired g (init repaired g th) ops)) o). reflexivity.
Qed.

Lemma arun_snoc th ops o : fst (arun th (ops ++ [o])) = fst (astep (fst (arun th ops)) o).
Proof.
  unfold arun. rewrite arun_from_app. cbn [fst arun_from].
  destruct (astep (fst (arun_from (ainit th) ops)) o). reflexivity.
Qed.

(* ------------------------------------------------------------------ facts about the abstract journal *)

(* the state a launch rebuilds from the stored record *)
Definition a_pers (a : ajr) : list Z := rebuilds (a_stored a).

Lemma track_cons l p o t :
  track l p (o :: t) = track (fst (track l p [o])) (snd (track l p [o])) t.
Proof. destruct o; reflexivity. Qed.

Lemma track_app : forall ops l p more,
  track l p (ops ++ more) = track (fst (track l p ops)) (snd (track l p ops)) more.
Proof.
  induction ops as [|o ops IH]; intros l p more.
  - reflexivity.
  - cbn [app]. rewrite track_cons, IH, (track_cons l p o ops). reflexivity.
Qed.

Lemma awf_saved_none a : awf a -> a_saved a = None -> a_stored a = None.
Proof.
  intros Hw Hs. destruct (a_stored a) as [r|] eqn:E; [|reflexivity].
  destruct (Hw r E) as [_ H]. contradiction.
Qed.

(* one step of the abstract journal is one step of [track] *)
Lemma astep_track a o :
  awf a ->
  (a_state (fst (astep a o)), a_pers (fst (astep a o))) = track (a_state a) (a_pers a) [o].
Proof.
  intros Hw.
  assert (Hper : forall a0, a_saved a0 = Some (a_snap a0, a_tail a0) ->
            a_state (a_persist false a0) = a_state a0 /\ a_pers (a_persist false a0) = a_state a0).
  { intros a0 H. unfold a_persist. rewrite H. split; reflexivity. }
  assert (Hrec : forall th a0, a_state (a_recover th a0) = a_pers a0 /\ a_pers (a_recover th a0) = a_pers a0).
  { intros th a0. unfold a_recover, a_pers, rebuilds. destruct (a_stored a0) as [[s t]|] eqn:E; cbn; auto. }
  assert (Hnone : a_saved a = None -> a_state a = [] /\ a_pers a = [] /\ a_persist false a = a).
  { intros H. pose proof (awf_saved_none a Hw H) as Hs.
    destruct (a_saved_cases a) as [(_ & H1 & H2)|(H1 & _)]; [|congruence].
    unfold a_state, a_pers, rebuilds, a_persist. rewrite H1, H2, Hs, H. auto. }
  assert (Hok : a_state (a_persist false a) = a_state a /\ a_pers (a_persist false a) = a_state a).
  { destruct (a_saved_cases a) as [(H & _)|(H & _)].
    - destruct (Hnone H) as (H1 & H2 & H3). rewrite H3, H1, H2. auto.
    - apply Hper. exact H. }
  destruct o as [e| |th'| | | | |th']; cbn [astep track a_relaunch a_explicit fst].
  - destruct (a_th a <=? _)%Z; cbn [fst]; unfold a_state, a_pers, rebuilds; cbn [a_snap a_tail a_stored snap_list].
    + rewrite app_nil_r. reflexivity.
    + rewrite app_assoc. reflexivity.
  - destruct (Hrec (a_th a) (a_persist false a)) as [H1 H2]. destruct Hok as [_ H4]. rewrite H1, H2, H4. reflexivity.
  - destruct (Hrec th' (a_persist false a)) as [H1 H2]. destruct Hok as [_ H4]. rewrite H1, H2, H4. reflexivity.
  - destruct Hok as [H3 H4]. rewrite H3, H4. reflexivity.
  - reflexivity.
  - reflexivity.
  - destruct (Hrec (a_th a) (a_persist true a)) as [H1 H2]. rewrite H1, H2. reflexivity.
  - destruct (Hrec th' (a_persist true a)) as [H1 H2]. rewrite H1, H2. reflexivity.
Qed.

(* the model's actor state is [live_state], the stored record rebuilds [last_persisted]: after every history *)
Lemma run_track g th ops :
  let c := fst (run repaired g th ops) in
  let a := fst (arun th ops) in
  Inv c a /\ a_state a = live_state ops /\ a_pers a = last_persisted ops.
Proof.
  cbv zeta. induction ops as [|o ops IH] using rev_ind.
  - split; [apply run_refines|]. split; reflexivity.
  - destruct IH as (HI & Hl & Hp).
    split; [apply run_refines|].
    rewrite arun_snoc.
    pose proof (astep_track (fst (arun th ops)) o (inv_awf _ _ HI)) as Ht.
    rewrite Hl, Hp in Ht. unfold live_state, last_persisted in *.
    rewrite track_app. rewrite <- Ht. auto.
Qed.

Lemma track_fault_free : forall ops l p,
  fault_free ops = true -> fst (track l p ops) = l ++ recorded ops.
Proof.
  induction ops as [|o ops IH]; intros l p H.
  - cbn. rewrite app_nil_r. reflexivity.
  - cbn [fault_free forallb] in H. apply andb_prop in H. destruct H as [Ho H].
    destruct o; try discriminate; cbn [track recorded flat_map]; rewrite IH by exact H;
      rewrite <- ?app_assoc; reflexivity.
Qed.

Lemma live_state_fault_free ops : fault_free ops = true -> live_state ops = recorded ops.
Proof. intros H. unfold live_state. rewrite track_fault_free by exact H. reflexivity. Qed.

(* a relaunch without a failing save rebuilds the state the old instance had *)
Lemma last_persisted_ok_relaunch ops o :
  is_relaunch o = true -> faulty o = false -> last_persisted (ops ++ [o]) = live_state ops.
Proof.
  intros Hr Hf. unfold last_persisted, live_state. rewrite track_app.
  destruct o; try discriminate; reflexivity.
Qed.

Lemma fault_free_snoc ops o : fault_free (ops ++ [o]) = true -> fault_free ops = true /\ faulty o = false.
Proof.
  unfold fault_free. rewrite forallb_app. cbn [forallb]. intros H.
  apply andb_prop in H. destruct H as [H1 H2]. rewrite andb_true_r in H2.
  split; [exact H1|]. destruct (faulty o); [discriminate|reflexivity].
Qed.

(* the output of a relaunch in the abstract journal *)
Lemma astep_relaunch a o :
  is_relaunch o = true ->
  let a' := fst (astep a o) in
  unmarked (snd (astep a o)) = OLaunch (a_saved a) (a_trace a') (a_counts a') (a_state a')
  /\ launch_state (snd (astep a o)) = Some (a_state a')
  /\ (faulty o = false -> snd (astep a o) = OLaunch (a_saved a) (a_trace a') (a_counts a') (a_state a')).
Proof.
  intros Hr. cbv zeta.
  destruct o; try discriminate; cbn [astep a_relaunch fst snd faulty];
    (split; [|split]); try reflexivity; try discriminate;
    unfold mark; destruct (a_saved a); reflexivity.
Qed.

(* after a relaunch the journal is the stored record *)
Lemma astep_relaunch_stored a o :
  awf a -> is_relaunch o = true ->
  let a' := fst (astep a o) in
  (a_stored a' = None /\ a_snap a' = None /\ a_tail a' = []) \/ a_stored a' = Some (a_snap a', a_tail a').
Proof.
  intros Hw Hr. cbv zeta.
  assert (H : forall th a0, let a' := a_recover th a0 in
            (a_stored a' = None /\ a_snap a' = None /\ a_tail a' = []) \/ a_stored a' = Some (a_snap a', a_tail a')).
  { intros th a0. cbv zeta. unfold a_recover. destruct (a_stored a0) as [[s t]|] eqn:E; cbn; auto. }
  destruct o; try discriminate; cbn [astep a_relaunch fst]; apply H.
Qed.

(* a relaunch whose save does not fail leaves the journal as it was *)
Lemma astep_relaunch_ok_same a o :
  awf a -> is_relaunch o = true -> faulty o = false ->
  a_snap (fst (astep a o)) = a_snap a /\ a_tail (fst (astep a o)) = a_tail a.
Proof.
  intros Hw Hr Hf.
  assert (H : forall th, a_snap (a_recover th (a_persist false a)) = a_snap a
                         /\ a_tail (a_recover th (a_persist false a)) = a_tail a).
  { intros th. unfold a_persist.
    destruct (a_saved_cases a) as [(H & H1 & H2)|(H & _)]; rewrite H.
    - unfold a_recover. rewrite (awf_saved_none a Hw H). cbn. auto.
    - unfold a_recover. cbn. auto. }
  destruct o; try discriminate; cbn [astep a_relaunch fst]; apply H.
Qed.

(* no operation without a successful save changes the stored record *)
Lemma astep_saves_nothing a o : saves_nothing o = true -> a_stored (fst (astep a o)) = a_stored a.
Proof.
  assert (H : forall th a0, a_stored (a_recover th a0) = a_stored a0).
  { intros th a0. unfold a_recover. destruct (a_stored a0) as [[s t]|] eqn:E; cbn; auto. }
  intros Hs. destruct o; try discriminate; cbn [astep a_relaunch a_explicit fst]; try reflexivity.
  - destruct (a_th a <=? _)%Z; reflexivity.
  - apply H.
  - apply H.
Qed.

Lemma arun_from_saves_nothing : forall more a,
  forallb saves_nothing more = true -> a_stored (fst (arun_from a more)) = a_stored a.
Proof.
  induction more as [|o more IH]; intros a H; cbn [arun_from].
  - reflexivity.
  - cbn [forallb] in H. apply andb_prop in H. destruct H as [Ho H].
    pose proof (astep_saves_nothing a o Ho) as Hs.
    destruct (astep a o) as [a1 x]. cbn [fst] in Hs.
    specialize (IH a1 H). destruct (arun_from a1 more) as [a2 xs]. cbn [fst] in *. congruence.
Qed.

(* ------------------------------------------------------------------ the statements of C09 *)

(* refinement, with the stored record *)
Theorem faulty_storage_refines g th ops :
  snd (run repaired g th ops) = snd (arun th ops)
  /\ journal_view (fst (run repaired g th ops)) = (a_snap (fst (arun th ops)), a_tail (fst (arun th ops)))
  /\ stored_view (fst (run repaired g th ops)) = a_stored (fst (arun th ops))
  /\ recovering (fst (run repaired g th ops)) = false.
Proof.
  destruct (run_refines g th ops) as (HI & Ho).
  split; [exact Ho|split; [|split; [apply inv_stored_view; exact HI|exact (inv_rec _ _ HI)]]].
  unfold journal_view. rewrite (inv_snap _ _ HI), (inv_tail _ _ HI). reflexivity.
Qed.

Theorem refines_abstract_journal g th ops :
  snd (run repaired g th ops) = snd (arun th ops)
  /\ journal_view (fst (run repaired g th ops)) = (a_snap (fst (arun th ops)), a_tail (fst (arun th ops)))
  /\ recovering (fst (run repaired g th ops)) = false.
Proof. destruct (faulty_storage_refines g th ops) as (H1 & H2 & _ & H4). auto. Qed.

(* the state of the actor after any history, failing saves included *)
Theorem state_is_live_state g th ops :
  actor (fst (run repaired g th ops)) = live_state ops.
Proof.
  destruct (run_track g th ops) as (HI & Hl & _). rewrite (inv_actor _ _ HI). exact Hl.
Qed.

(* at every moment what the storage holds rebuilds the state of the last successful persist *)
Theorem stored_record_is_last_successful_persist g th ops :
  rebuilds (stored_view (fst (run repaired g th ops))) = last_persisted ops.
Proof.
  destruct (run_track g th ops) as (HI & _ & Hp). rewrite (inv_stored_view _ _ HI). exact Hp.
Qed.

(* ... without failing saves it is the full recorded history: across every generation *)
Theorem state_is_history g th ops :
  fault_free ops = true ->
  actor (fst (run repaired g th ops)) = recorded ops.
Proof. intros H. rewrite state_is_live_state. apply live_state_fault_free. exact H. Qed.

(* every launch rebuilds the state of the last successful persist *)
Theorem recovers_last_successful_persist g th ops o :
  is_relaunch o = true ->
  let c := fst (run repaired g th ops) in
  launch_state (snd (step repaired g c o)) = Some (last_persisted (ops ++ [o]))
  /\ actor (fst (step repaired g c o)) = last_persisted (ops ++ [o])
  /\ rebuilds (stored_view (fst (step repaired g c o))) = last_persisted (ops ++ [o]).
Proof.
  intros Hrl. cbv zeta.
  destruct (run_track g th ops) as (HI & _ & _).
  destruct (run_track g th (ops ++ [o])) as (HI1 & Hl1 & Hp1).
  rewrite run_snoc in HI1. rewrite arun_snoc in HI1, Hl1, Hp1.
  pose proof (step_refines g _ _ o HI) as (_ & Ho).
  destruct (astep_relaunch (fst (arun th ops)) o Hrl) as (_ & Hls & _). cbv zeta in Hls.
  assert (Heq : a_state (fst (astep (fst (arun th ops)) o)) = last_persisted (ops ++ [o])).
  { rewrite <- Hp1.
    destruct (astep_relaunch_stored _ o (inv_awf _ _ HI) Hrl) as [(H1 & H2 & H3)|H1]; cbv zeta in *;
      unfold a_state, a_pers, rebuilds; rewrite H1; [rewrite H2, H3|]; reflexivity. }
  split; [|split].
  - rewrite Ho, Hls, Heq. reflexivity.
  - rewrite (inv_actor _ _ HI1). exact Heq.
  - rewrite (inv_stored_view _ _ HI1). exact Hp1.
Qed.

(* operations without a successful save leave what Load returns unchanged, however many events overwrite the
   journal's array in between *)
Theorem failed_persist_changes_nothing_stored g th ops more :
  forallb saves_nothing more = true ->
  stored_view (fst (run repaired g th (ops ++ more))) = stored_view (fst (run repaired g th ops)).
Proof.
  intros H.
  destruct (run_refines g th (ops ++ more)) as (HI1 & _). destruct (run_refines g th ops) as (HI & _).
  rewrite (inv_stored_view _ _ HI1), (inv_stored_view _ _ HI).
  unfold arun. rewrite arun_from_app. cbn [fst]. apply arun_from_saves_nothing. exact H.
Qed.

(* what a persist hands to Storage.Save: the journal, unless it is empty *)
Definition to_save (jv : option (list Z) * list Z) : saved_rec :=
  match jv with (None, []) => None | _ => Some jv end.

Theorem no_loss_dup_reorder_with_faults g th ops o :
  is_relaunch o = true ->
  let c := fst (run repaired g th ops) in
  let c' := fst (step repaired g c o) in
  exists (sn : option (list Z)) (t : list Z),
    unmarked (snd (step repaired g c o))
      = OLaunch (to_save (journal_view c)) (snap_items sn ++ map REv t)
                (repeat (Z.of_nat (length t)) (length t)) (snap_list sn ++ t)
    /\ snap_list sn ++ t = last_persisted (ops ++ [o])
    /\ journal_view c' = (sn, t)
    /\ ((stored_view c' = None /\ sn = None /\ t = []) \/ stored_view c' = Some (sn, t)).
Proof.
  intros Hrl. cbv zeta.
  destruct (run_track g th ops) as (HI & _ & _).
  pose proof (step_refines g _ _ o HI) as (HI1 & Ho).
  destruct (recovers_last_successful_persist g th ops o Hrl) as (_ & Hact & _). cbv zeta in Hact.
  set (a := fst (arun th ops)) in *. set (a' := fst (astep a o)) in *.
  exists (a_snap a'), (a_tail a').
  destruct (astep_relaunch a o Hrl) as (Hun & _ & _). cbv zeta in Hun. fold a' in Hun.
  split; [|split; [|split]].
  - rewrite Ho, Hun. f_equal.
    unfold journal_view. rewrite (inv_snap _ _ HI), (inv_tail _ _ HI). fold a.
    unfold to_save, a_saved. destruct (a_snap a); destruct (a_tail a); reflexivity.
  - rewrite <- Hact, (inv_actor _ _ HI1). reflexivity.
  - unfold journal_view. rewrite (inv_snap _ _ HI1), (inv_tail _ _ HI1). reflexivity.
  - rewrite (inv_stored_view _ _ HI1).
    destruct (astep_relaunch_stored a o (inv_awf _ _ HI) Hrl) as [H|H]; cbv zeta in H; fold a' in H; auto.
Qed.

Theorem recovery_exact g th ops o :
  fault_free (ops ++ [o]) = true ->
  is_relaunch o = true ->
  let c := fst (run repaired g th ops) in
  launch_state (snd (step repaired g c o)) = Some (actor c)
  /\ actor (fst (step repaired g c o)) = actor c
  /\ actor c = recorded ops.
Proof.
  intros Hff Hrl. cbv zeta.
  destruct (fault_free_snoc _ _ Hff) as (Hff0 & Hfo).
  destruct (recovers_last_successful_persist g th ops o Hrl) as (H1 & H2 & _). cbv zeta in H1, H2.
  rewrite H1, H2, (last_persisted_ok_relaunch ops o Hrl Hfo), state_is_live_state.
  split; [reflexivity|split; [reflexivity|]]. apply live_state_fault_free. exact Hff0.
Qed.

Theorem no_loss_dup_reorder g th ops o :
  fault_free (ops ++ [o]) = true ->
  is_relaunch o = true ->
  let c := fst (run repaired g th ops) in
  let a := fst (arun th ops) in
  exists saved trace counts st,
    snd (step repaired g c o) = OLaunch saved trace counts st
    /\ trace = snap_items (a_snap a) ++ map REv (a_tail a)
    /\ snap_list (a_snap a) ++ a_tail a = recorded ops
    /\ journal_view c = (a_snap a, a_tail a)
    /\ saved = a_saved a.
Proof.
  intros Hff Hrl. cbv zeta.
  destruct (fault_free_snoc _ _ Hff) as (Hff0 & Hfo).
  destruct (run_track g th ops) as (HI & Hl & _).
  pose proof (step_refines g _ _ o HI) as (HI1 & Ho).
  destruct (astep_relaunch (fst (arun th ops)) o Hrl) as (_ & _ & Hout). cbv zeta in Hout.
  destruct (astep_relaunch_ok_same _ o (inv_awf _ _ HI) Hrl Hfo) as (Hs & Ht).
  do 4 eexists. split; [rewrite Ho; apply Hout; exact Hfo|].
  split; [unfold a_trace; rewrite Hs, Ht; reflexivity|].
  split; [|split; [|reflexivity]].
  - unfold a_state in Hl. rewrite Hl. apply live_state_fault_free. exact Hff0.
  - unfold journal_view. rewrite (inv_snap _ _ HI), (inv_tail _ _ HI). reflexivity.
Qed.

Theorem replay_does_not_record g th ops o :
  fault_free (ops ++ [o]) = true ->
  is_relaunch o = true ->
  let c := fst (run repaired g th ops) in
  let a := fst (arun th ops) in
  (exists saved trace st,
     snd (step repaired g c o) = OLaunch saved trace (repeat (Z.of_nat (length (a_tail a))) (length (a_tail a))) st)
  /\ journal_view (fst (step repaired g c o)) = journal_view c.
Proof.
  intros Hff Hrl. cbv zeta.
  destruct (fault_free_snoc _ _ Hff) as (Hff0 & Hfo).
  destruct (run_refines g th ops) as (HI & _).
  pose proof (step_refines g _ _ o HI) as (HI1 & Ho).
  destruct (astep_relaunch (fst (arun th ops)) o Hrl) as (_ & _ & Hout). cbv zeta in Hout.
  destruct (astep_relaunch_ok_same _ o (inv_awf _ _ HI) Hrl Hfo) as (Hs & Ht).
  split.
  - do 3 eexists. rewrite Ho, (Hout Hfo). unfold a_counts. rewrite Ht. reflexivity.
  - unfold journal_view.
    rewrite (inv_snap _ _ HI), (inv_tail _ _ HI), (inv_snap _ _ HI1), (inv_tail _ _ HI1), Hs, Ht. reflexivity.
Qed.

(* StateChanged never changes the current message / sender: for EVERY context, reachable or not *)
Theorem state_changed_preserves_registers g c e :
  cur_msg (fst (state_changed repaired g c e)) = cur_msg c
  /\ cur_sender (fst (state_changed repaired g c e)) = cur_sender c.
Proof.
  unfold state_changed.
  destruct (recovering c); [cbn; auto|].
  destruct (threshold c <=? event_count (j_append g c e))%Z; cbn [fst repaired v_restore].
  - cbn. auto.
  - unfold j_append. destruct (sl_append g (hp c) (j_events (jr c)) e). cbn. auto.
Qed.

Theorem event_output_registers g th ops e :
  exists num sr, snd (step repaired g (fst (run repaired g th ops)) (Event e)) = OEvent num (MAdd e) WAsker sr.
Proof.
  destruct (run_refines g th ops) as (HI & _).
  pose proof (step_refines g _ _ (Event e) HI) as (_ & Ho). rewrite Ho.
  cbn [astep]. destruct (a_th _ <=? _)%Z; cbn [snd]; do 2 eexists; reflexivity.
Qed.

Theorem capacity_invisible g g' th ops :
  snd (run repaired g th ops) = snd (run repaired g' th ops).
Proof.
  destruct (run_refines g th ops) as (_ & H1). destruct (run_refines g' th ops) as (_ & H2).
  congruence.
Qed.

(* the actor that records before it applies loses the event that crosses the threshold *)
Theorem record_first_recovery_refuted :
  exists (g : nat -> nat -> nat) (th : Z) (ops : list op),
    actor (fst (run repaired_record_first g th ops)) <> recorded ops.
Proof.
  exists go_grow, 2%Z, [Event 1; Event 2; Event 3; Fail]%Z. vm_compute. discriminate.
Qed.

(* ------------------------------------------------------------------ the behaviours that were repaired, refuted *)

(* a launch of variant v that does not rebuild the state of the last successful persist *)
Definition launch_differs (v : variant) (g : nat -> nat -> nat) (th : Z) (ops : list op) (o : op) : Prop :=
  is_relaunch o = true
  /\ launch_state (snd (step v g (fst (run v g th ops)) o)) <> Some (last_persisted (ops ++ [o])).

(* MemoryStorage.Save as shipped (the record keeps the journal's slice): threshold 2; 1 2 (snapshot [1 2]) 3, persist:
   stored ([1 2], [3]); 4 (snapshot, the journal is truncated in place), 5 lands on the stored 3; the restart's save
   fails: the launch rebuilds [1 2 5], the last successful persist was [1 2 3] *)
Theorem memory_storage_alias_as_shipped_refuted :
  exists g th ops o, launch_differs save_aliases g th ops o.
Proof.
  exists go_grow, 2%Z, [Event 1; Event 2; Event 3; Persist; Event 4; Event 5]%Z, FailF.
  split; [reflexivity|]. vm_compute. discriminate.
Qed.

(* State.Load as shipped when nothing is stored: 1 2, restart with a failing save (nothing stored: the new instance is
   empty, the journal keeps 1 2), 3, restart: the launch rebuilds [1 2 3], the last successful persist was [3] *)
Theorem no_record_keeps_journal_as_shipped_refuted :
  exists g th ops o, launch_differs norec_keeps_journal g th ops o.
Proof.
  exists go_grow, 1000%Z, [Event 1; Event 2; FailF; Event 3]%Z, Fail.
  split; [reflexivity|]. vm_compute. discriminate.
Qed.

(* the seeded change "State.Load adopts the storage's slice", with a storage whose copies have spare capacity (growth
   policy: three more than needed): threshold 2; 1, restart (stored (-, [1]); the journal IS that slice), 2 is appended
   in place (snapshot [1 2], truncation), 3 lands on the stored 1; the restart's save fails: the launch rebuilds [3],
   the last successful persist was [1] *)
Theorem load_adopts_storage_slice_refuted :
  exists g th ops o, launch_differs load_adopts g th ops o.
Proof.
  exists (fun _ n => n + 3), 2%Z, [Event 1; Fail; Event 2; Event 3]%Z, FailF.
  split; [reflexivity|]. vm_compute. discriminate.
Qed.
