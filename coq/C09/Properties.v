(* MV.C09.Properties — the statements of property C09 and nothing else.
   Every theorem is closed by [exact <lemma>] and followed by Print Assumptions.

   [run repaired g th ops] is the model of PersistModel.v (actor context + journal + storage over a heap of
   slice backing arrays, with the repairs fixes/C09-*.patch applied) started with snapshot threshold
   [th] and driven through the history [ops] of events, failures (restart), stop + re-create cycles
   (each with the threshold of the new context), explicit persists and queries — and the last three also in
   the form whose Storage.Save returns an error and leaves the storage as it was ([FailF], [StopRecreateF th],
   [PersistF]; any subset of the saves of a history may fail). [g] is the capacity growth
   policy of [append] (arbitrary). [arun th ops] is the abstract journal: the last snapshot, the events
   recorded since, by the rule "snapshot of the full state when the count reaches the threshold", and the
   record the storage holds. [fault_free ops]: no operation of the history comes with a failing save (the
   histories the theorems of the first round quantified over). *)
From MV Require Import Lib.ListX C09.PersistModel C09.PersistProofs C09.OrderModel C09.OrderProofs C09.OrderRun.

(* Refinement: for every growth policy, threshold and history, the outputs of the heap/slice model (results of
   StateChanged, message and sender seen after it, records handed to Storage.Save, messages delivered during
   each recovery, event counts seen while replaying, state after each launch, query answers) are those of the
   abstract journal, and the concrete journal, read through the heap, IS the abstract journal. The history may
   contain failing saves (the statement is the one of the first round; its quantifier has grown). *)
Theorem C09_refines_abstract_journal : forall (g : nat -> nat -> nat) (th : Z) (ops : list op),
  snd (run repaired g th ops) = snd (arun th ops)
  /\ journal_view (fst (run repaired g th ops)) = (a_snap (fst (arun th ops)), a_tail (fst (arun th ops)))
  /\ recovering (fst (run repaired g th ops)) = false.
Proof. exact refines_abstract_journal. Qed.
Print Assumptions C09_refines_abstract_journal.

(* After every history without failing saves — any number of restarts and stop/re-create cycles, any thresholds —
   the state of the current actor instance is exactly the list of all recorded events, in order. (With failing
   saves: C09_recovers_last_successful_persist.) *)
Theorem C09_state_is_recorded_history : forall (g : nat -> nat -> nat) (th : Z) (ops : list op),
  fault_free ops = true ->
  actor (fst (run repaired g th ops)) = recorded ops.
Proof. exact state_is_history. Qed.
Print Assumptions C09_state_is_recorded_history.

(* Recovery is exact: whenever the actor fails (restart) or is stopped and created again under the same
   persistence name, after any history, the state of the new instance after its launch — as reported by the
   launch output and as held by the context — equals the state the old instance had when it persisted,
   which is the full recorded history. *)
Theorem C09_recovery_exact : forall (g : nat -> nat -> nat) (th : Z) (ops : list op) (o : op),
  fault_free (ops ++ [o]) = true ->
  is_relaunch o = true ->
  let c := fst (run repaired g th ops) in
  launch_state (snd (step repaired g c o)) = Some (actor c)
  /\ actor (fst (step repaired g c o)) = actor c
  /\ actor c = recorded ops.
Proof. exact recovery_exact. Qed.
Print Assumptions C09_recovery_exact.

(* No loss, duplication or reordering: at every relaunch the messages delivered to the new instance are the
   last snapshot (if any) followed by exactly the events recorded since that snapshot, in order, each once;
   snapshot ++ those events is the whole recorded history; that pair is what the journal holds and what the
   persist of the old instance handed to Storage.Save. *)
Theorem C09_no_loss_dup_reorder : forall (g : nat -> nat -> nat) (th : Z) (ops : list op) (o : op),
  fault_free (ops ++ [o]) = true ->
  is_relaunch o = true ->
  let c := fst (run repaired g th ops) in
  let a := fst (arun th ops) in
  exists saved trace counts st,
    snd (step repaired g c o) = OLaunch saved trace counts st
    /\ trace = snap_items (a_snap a) ++ map REv (a_tail a)
    /\ snap_list (a_snap a) ++ a_tail a = recorded ops
    /\ journal_view c = (a_snap a, a_tail a)
    /\ saved = a_saved a.
Proof. exact no_loss_dup_reorder. Qed.
Print Assumptions C09_no_loss_dup_reorder.

(* Replay does not record: every StateChanged issued by the handler while the events are replayed returns
   the same event count (the number of events since the last snapshot), and the journal after the relaunch
   is the journal before it. *)
Theorem C09_replay_does_not_record : forall (g : nat -> nat -> nat) (th : Z) (ops : list op) (o : op),
  fault_free (ops ++ [o]) = true ->
  is_relaunch o = true ->
  let c := fst (run repaired g th ops) in
  let a := fst (arun th ops) in
  (exists saved trace st,
     snd (step repaired g c o) = OLaunch saved trace (repeat (Z.of_nat (length (a_tail a))) (length (a_tail a))) st)
  /\ journal_view (fst (step repaired g c o)) = journal_view c.
Proof. exact replay_does_not_record. Qed.
Print Assumptions C09_replay_does_not_record.

(* Recording an event leaves the current message and sender unchanged: for EVERY context (reachable or not,
   recovering or not, threshold crossed or not) ... *)
Theorem C09_current_message_preserved : forall (g : nat -> nat -> nat) (c : ctx) (e : Z),
  cur_msg (fst (state_changed repaired g c e)) = cur_msg c
  /\ cur_sender (fst (state_changed repaired g c e)) = cur_sender c.
Proof. exact state_changed_preserves_registers. Qed.
Print Assumptions C09_current_message_preserved.

(* ... and so the handler of add(e), after any history, sees its own message and the asker after StateChanged. *)
Theorem C09_handler_sees_own_message : forall (g : nat -> nat -> nat) (th : Z) (ops : list op) (e : Z),
  exists num sr,
    snd (step repaired g (fst (run repaired g th ops)) (Event e)) = OEvent num (MAdd e) WAsker sr.
Proof. exact event_output_registers. Qed.
Print Assumptions C09_handler_sees_own_message.

(* The capacity the runtime gives to slices is invisible (failing saves included). *)
Theorem C09_capacity_invisible : forall (g g' : nat -> nat -> nat) (th : Z) (ops : list op),
  snd (run repaired g th ops) = snd (run repaired g' th ops).
Proof. exact capacity_invisible. Qed.
Print Assumptions C09_capacity_invisible.

(* ------------------------------------------------------------------ failing saves (Storage.Save returns an error)

   [last_persisted ops] (PersistModel.v, [track]) is defined by a plain recursion over the history, with no journal,
   threshold or storage in it: the state of the current instance grows by each event; a persist that succeeds
   (explicit, or the one every restart and every stop + re-create performs) remembers that state; a persist that fails
   remembers nothing; every launch starts the new instance from the remembered state (the empty one if there is none).
   [last_persisted ops] is the remembered state after [ops]. *)

(* Refinement with the storage in view: for every growth policy, threshold and history INCLUDING failing saves, the
   model's outputs are the abstract journal's, the journal read through the heap is the abstract journal, and the
   stored record read through the heap (= what a Load would return) is the abstract stored record. *)
Theorem C09_faulty_storage_refines_abstract_journal : forall (g : nat -> nat -> nat) (th : Z) (ops : list op),
  snd (run repaired g th ops) = snd (arun th ops)
  /\ journal_view (fst (run repaired g th ops)) = (a_snap (fst (arun th ops)), a_tail (fst (arun th ops)))
  /\ stored_view (fst (run repaired g th ops)) = a_stored (fst (arun th ops))
  /\ recovering (fst (run repaired g th ops)) = false.
Proof. exact faulty_storage_refines. Qed.
Print Assumptions C09_faulty_storage_refines_abstract_journal.

(* The state of the actor after ANY history is [live_state]: the state rebuilt at the last launch followed by the
   events recorded since. *)
Theorem C09_state_is_live_state : forall (g : nat -> nat -> nat) (th : Z) (ops : list op),
  actor (fst (run repaired g th ops)) = live_state ops.
Proof. exact state_is_live_state. Qed.
Print Assumptions C09_state_is_live_state.

(* Every launch rebuilds the state of the last SUCCESSFUL persist: after any history [ops], a restart or a stop +
   re-create [o], with a failing save or not, launches the new instance in the state the actor had at the last
   Storage.Save that returned nil in [ops ++ [o]] — the save attempted by [o] itself when it succeeds — and in the
   empty state if no save ever succeeded. That is the state reported at the launch, the state the context holds
   afterwards, and the state the stored record still rebuilds ([rebuilds]: snapshot ++ events). *)
Theorem C09_recovers_last_successful_persist : forall (g : nat -> nat -> nat) (th : Z) (ops : list op) (o : op),
  is_relaunch o = true ->
  let c := fst (run repaired g th ops) in
  launch_state (snd (step repaired g c o)) = Some (last_persisted (ops ++ [o]))
  /\ actor (fst (step repaired g c o)) = last_persisted (ops ++ [o])
  /\ rebuilds (stored_view (fst (step repaired g c o))) = last_persisted (ops ++ [o]).
Proof. exact recovers_last_successful_persist. Qed.
Print Assumptions C09_recovers_last_successful_persist.

(* At every moment of every history, what a Load would return rebuilds the state of the last successful persist. *)
Theorem C09_stored_record_is_last_successful_persist : forall (g : nat -> nat -> nat) (th : Z) (ops : list op),
  rebuilds (stored_view (fst (run repaired g th ops))) = last_persisted ops.
Proof. exact stored_record_is_last_successful_persist. Qed.
Print Assumptions C09_stored_record_is_last_successful_persist.

(* A failing save changes nothing stored: after any history [ops], any further operations during which no save
   succeeds — events (threshold snapshots truncate the journal, later events are appended in place over its old
   array), queries, failing explicit persists, restarts and re-creations with failing saves — leave what a Load
   returns exactly as it was. *)
Theorem C09_failed_persist_changes_nothing_stored : forall (g : nat -> nat -> nat) (th : Z) (ops more : list op),
  forallb saves_nothing more = true ->
  stored_view (fst (run repaired g th (ops ++ more))) = stored_view (fst (run repaired g th ops)).
Proof. exact failed_persist_changes_nothing_stored. Qed.
Print Assumptions C09_failed_persist_changes_nothing_stored.

(* No loss, duplication or reordering with failing saves: at every relaunch Storage.Save is handed the journal
   (nothing when it is empty); the messages delivered to the new instance are a snapshot [sn] (if any) followed by
   events [t], in order, each once, with snapshot ++ events = the state at the last successful persist — so [t] is
   exactly what was recorded between that snapshot and that persist; every StateChanged during the replay returns
   the same count; afterwards the journal is (sn, t), and so is the stored record (nothing stored iff both empty). *)
Theorem C09_no_loss_dup_reorder_with_faults : forall (g : nat -> nat -> nat) (th : Z) (ops : list op) (o : op),
  is_relaunch o = true ->
  let c := fst (run repaired g th ops) in
  let c' := fst (step repaired g c o) in
  exists (sn : option (list Z)) (t : list Z),
    unmarked (snd (step repaired g c o))
      = OLaunch (to_save (journal_view c)) (snap_items sn ++ map REv t)
                (repeat (Z.of_nat (length t)) (length t)) (snap_list sn ++ t)
    /\ snap_list sn ++ t = last_persisted (ops ++ [o])
    /\ journal_view c' = (sn, t)
    /\ ((stored_view c' = None /\ sn = None /\ t = []) \/ stored_view c' = Some (sn, t)).
Proof. exact no_loss_dup_reorder_with_faults. Qed.
Print Assumptions C09_no_loss_dup_reorder_with_faults.

(* The three behaviours that break this — each is [repaired] with ONE flag taken back; [launch_differs v g th ops o]:
   [o] is a relaunch and the state it launches in variant [v] is not [last_persisted (ops ++ [o])]. *)

(* MemoryStorage.Save as shipped kept the caller's slice (repaired by fixes/C09-memory-storage-copy.patch). Witness:
   threshold 2; events 1 2 (snapshot) 3; persist — stored ([1 2], [3]); event 4 (snapshot, journal truncated in place);
   event 5 overwrites the stored 3; restart with a failing save: launches [1 2 5], last successful persist [1 2 3]. *)
Theorem C09_memory_storage_alias_as_shipped_refuted :
  exists g th ops o, launch_differs save_aliases g th ops o.
Proof. exact memory_storage_alias_as_shipped_refuted. Qed.
Print Assumptions C09_memory_storage_alias_as_shipped_refuted.

(* State.Load as shipped left the journal alone when nothing is stored (repaired by
   fixes/C09-no-record-resets-journal.patch). Witness: events 1 2; restart with a failing save (launches []); event 3;
   restart: launches [1 2 3], last successful persist [3]. *)
Theorem C09_no_record_keeps_journal_as_shipped_refuted :
  exists g th ops o, launch_differs norec_keeps_journal g th ops o.
Proof. exact no_record_keeps_journal_as_shipped_refuted. Qed.
Print Assumptions C09_no_record_keeps_journal_as_shipped_refuted.

(* The seeded change "State.Load adopts the storage's slice" (s.events = events). Witness, for a storage whose copies
   have spare capacity: threshold 2; event 1; restart — stored (-, [1]) and the journal is that slice; event 2 is
   appended in place (snapshot, truncation); event 3 overwrites the stored 1; restart with a failing save: launches
   [3], last successful persist [1]. *)
Theorem C09_load_adopts_storage_slice_refuted :
  exists g th ops o, launch_differs load_adopts g th ops o.
Proof. exact load_adopts_storage_slice_refuted. Qed.
Print Assumptions C09_load_adopts_storage_slice_refuted.

(* OPEN FINDING (checks/c09_findings.json, C09-snapshot-before-apply). Full statement wanted:
     forall g th ops, actor (fst (run repaired_record_first g th ops)) = recorded ops
   i.e. the same exact recovery for the actor that calls StateChanged BEFORE applying the event. It is false
   of the faithful model, with or without the two repairs: the snapshot is requested inside StateChanged,
   before this actor has applied the event, and SaveSnapshot drops the event from the journal.
   Witness: threshold 2, events 1 2 3, restart: state at launch [1;3]. *)
Theorem C09_record_first_recovery_refuted :
  exists (g : nat -> nat -> nat) (th : Z) (ops : list op),
    actor (fst (run repaired_record_first g th ops)) <> recorded ops.
Proof. exact record_first_recovery_refuted. Qed.
Print Assumptions C09_record_first_recovery_refuted.

(* ------------------------------------------------------------------ the last persist happens-before the end is observable
   (OrderModel.v: the routine that ends a generation is a program = its statements in source order; a persist is two
   steps, begin and commit; Load returns the committed record; observers run on other goroutines and re-create the
   actor under the same persistence name the moment they can observe the end; restart: the observer is the own mailbox)

   [orun pt pr (oinit pt pr evs0 r0) cs]: termination routine pt, restart routine pr, a first generation that applied evs0
   and ends by restart iff r0, then the schedule cs: steps of the newest generation's goroutine, of every earlier
   generation's goroutine (its routine may still be running), of helper goroutines, re-invocations of the routine, and
   the observer launching the next generation (Load; it applies its events; ends by restart or termination).
   [launches_exact w]: at every launch so far the record loaded rebuilt exactly the state the previous generation had
   when it ended.  [order_safe]: the decidable ordering condition on a routine. *)

(* persist-then-announce: for EVERY pair of routines in which a persist commits before the first statement that makes
   the end observable at once (unregistration, notices, closed signal, launch handled inline) with no persist deferred,
   on another goroutine, or at/after such a statement, and in which a synchronous persist commits before the routine
   returns if OnLaunch is posted to the own mailbox: every number of generations, every mix of terminations and
   restarts, every schedule — each generation loads exactly what the previous one had, and the newest state is the
   whole history. *)
Theorem C09_recreate_on_notice_exact : forall (pt pr : list stmt), order_safe pt = true -> order_safe pr = true ->
  forall (evs0 : list Z) (r0 : bool) (cs : list choice),
    let w := orun pt pr (oinit pt pr evs0 r0) cs in
    launches_exact w /\ t_val (cur w) = hist w.
Proof. exact order_sound. Qed.
Print Assumptions C09_recreate_on_notice_exact.

(* ... because at every moment every earlier generation is retired (no Save in progress, none deferred, none to come),
   there is no helper goroutine, and whenever the end of the newest generation is observable the committed record
   already rebuilds its state. *)
Theorem C09_committed_before_observable : forall (pt pr : list stmt), order_safe pt = true -> order_safe pr = true ->
  forall (evs0 : list Z) (r0 : bool) (cs : list choice),
    let w := orun pt pr (oinit pt pr evs0 r0) cs in
    helpers w = [] /\ Forall retired (olds w) /\ (observable (cur w) = true -> rebuilt (store w) = t_val (cur w)).
Proof. exact order_sound_quiescent. Qed.
Print Assumptions C09_committed_before_observable.

(* the order of tryTerminated / tryRestarted as they stand passes the condition (the same is re-established on the
   statements EXTRACTED from the tree under test on every run: checks/c09.py t3, harness/translate/c09order) *)
Theorem C09_source_order_exact : forall (evs0 : list Z) (r0 : bool) (cs : list choice),
  let w := orun src_terminate src_restart (oinit src_terminate src_restart evs0 r0) cs in
  launches_exact w /\ t_val (cur w) = hist w.
Proof. exact (order_sound src_terminate src_restart (proj1 src_programs_safe) (proj1 (proj2 src_programs_safe))). Qed.
Print Assumptions C09_source_order_exact.

(* "No recorded event is lost": OnTerminate and the instance's own OnTerminated are handlers like any other — an actor may
   record an event in them. For every routine (list of statements) that passes the check [handlers_recorded] — no handler of
   the old instance after the last synchronous persist — and has such a persist while the old instance is installed, and for
   EVERY choice of what each of those handlers records: the journal handed to the last Save is the state the old instance
   ends with. The condition is part of term_order_ok / restart_order_ok, which the generated instance proves of the statement
   order extracted from the tree under test on every run (tie T3). *)
Theorem C09_last_handlers_are_persisted : forall (rec : nat -> list Z) (p : list stmt) (v saved : list Z),
  handlers_recorded p = true -> existsb is_sync (old_part p) = true ->
  fst (hexec rec p 0 v saved) = snd (hexec rec p 0 v saved).
Proof. exact handlers_recorded_sound. Qed.
Print Assumptions C09_last_handlers_are_persisted.

Theorem C09_extracted_order_records_last_handlers : forall (ft fr : list fact), term_order_ok ft = true -> restart_order_ok fr = true ->
  handlers_recorded (prog_of ft) = true /\ handlers_recorded (prog_of fr) = true.
Proof. exact facts_handlers_recorded. Qed.
Print Assumptions C09_extracted_order_records_last_handlers.

(* the seeded order — persist first, then the old instance's OnTerminate and OnTerminated — is rejected, and loses what the
   handlers record: the old instance ends with [1; 2; 7; 8], the journal that was saved is [1; 2] *)
Theorem C09_persist_before_last_handlers_refuted :
  handlers_recorded restart_persist_before_last_handlers' = false /\
  order_safe restart_persist_before_last_handlers' = true /\
  hexec (fun k => [7 + Z.of_nat k]%Z) restart_persist_before_last_handlers' 0 [1; 2]%Z [] = ([1; 2; 7; 8]%Z, [1; 2]%Z).
Proof. repeat split; vm_compute; reflexivity. Qed.
Print Assumptions C09_persist_before_last_handlers_refuted.

(* non-vacuity: the order of the source as documented passes, with a persist while the old instance is installed *)
Example C09_example_handlers_recorded :
  handlers_recorded src_terminate = true /\ existsb is_sync (old_part src_terminate) = true /\
  handlers_recorded src_restart = true /\ existsb is_sync (old_part src_restart) = true /\
  hexec (fun k => [7 + Z.of_nat k]%Z) src_restart 0 [1; 2]%Z [] = ([1; 2; 7; 8]%Z, [1; 2; 7; 8]%Z).
Proof. repeat split; vm_compute; reflexivity. Qed.

(* the form used by the generated instance: facts extracted from a source tree that pass [term_order_ok] /
   [restart_order_ok] (persists unconditional, order safe, every announce statement found) *)
Theorem C09_extracted_order_sound : forall (ft fr : list fact), term_order_ok ft = true -> restart_order_ok fr = true ->
  forall (evs0 : list Z) (r0 : bool) (cs : list choice),
    let w := orun (prog_of ft) (prog_of fr) (oinit (prog_of ft) (prog_of fr) evs0 r0) cs in
    launches_exact w /\ t_val (cur w) = hist w.
Proof. exact order_sound_facts. Qed.
Print Assumptions C09_extracted_order_sound.

(* the eager observer of the harness (re-create the moment the end is observable, old routine still running) is one
   of these schedules *)
Theorem C09_eager_observer_exact : forall (pt pr : list stmt), order_safe pt = true -> order_safe pr = true ->
  forall (evs0 : list Z) (r0 : bool) (gens : list (list Z * bool)),
    let w := play pt pr (oinit pt pr evs0 r0) gens in launches_exact w /\ t_val (cur w) = hist w.
Proof. exact eager_observer_exact. Qed.
Print Assumptions C09_eager_observer_exact.

(* announce-then-persist (the final persist deferred past the status change: it runs after the unregistration, the
   notices and the closed signal): REFUTED — the parent re-creates on its notice before the Save has begun. *)
Theorem C09_announce_then_persist_refuted :
  exists (evs0 : list Z) (cs : list choice),
    let w := orun announce_then_persist src_restart (oinit announce_then_persist src_restart evs0 false) cs in
    ~ launches_exact w /\ t_val (cur w) <> hist w.
Proof. exact announce_then_persist_refuted. Qed.
Print Assumptions C09_announce_then_persist_refuted.

(* the restart routine that POSTS OnLaunch to its own mailbox: persist-then-launch and launch-then-persist (even
   deferred) are both exact — the launch is processed after the routine has returned (covered by
   C09_recreate_on_notice_exact: [order_safe] accepts them); a persist on another goroutine is REFUTED. *)
Theorem C09_restart_async_persist_refuted :
  exists (evs0 : list Z) (cs : list choice),
    let w := orun src_terminate restart_async_persist (oinit src_terminate restart_async_persist evs0 true) cs in
    ~ launches_exact w /\ t_val (cur w) <> hist w.
Proof. exact restart_async_persist_refuted. Qed.
Print Assumptions C09_restart_async_persist_refuted.

(* the restart routine that handles OnLaunch INLINE (recovery runs inside the routine) has the analogous ordering:
   persist-then-launch is exact (src_restart_inline passes [order_safe]); launch-then-persist is REFUTED. *)
Theorem C09_restart_launch_then_persist_refuted :
  exists (evs0 : list Z) (cs : list choice),
    let w := orun src_terminate restart_inline_launch_then_persist
                  (oinit src_terminate restart_inline_launch_then_persist evs0 true) cs in
    ~ launches_exact w /\ t_val (cur w) <> hist w.
Proof. exact restart_inline_launch_then_persist_refuted. Qed.
Print Assumptions C09_restart_launch_then_persist_refuted.

(* ------------------------------------------------------------------ non-vacuity and witnesses *)
Open Scope Z_scope.

(* three generations, a snapshot at the second event, restart and re-creation: nothing lost *)
Example C09_example_repaired :
  snd (run repaired go_grow 2 [Event 1; Event 2; Event 3; Fail; Event 4; StopRecreate 2; Event 5; Fail; Query])
  = [OEvent 1 (MAdd 1) WAsker false; OEvent 2 (MAdd 2) WAsker true; OEvent 1 (MAdd 3) WAsker false;
     OLaunch (Some (Some [1; 2], [3])) [RSnap [1; 2]; REv 3] [1] [1; 2; 3];
     OEvent 2 (MAdd 4) WAsker true;
     OLaunch (Some (Some [1; 2; 3; 4], [])) [RSnap [1; 2; 3; 4]] [] [1; 2; 3; 4];
     OEvent 1 (MAdd 5) WAsker false;
     OLaunch (Some (Some [1; 2; 3; 4], [5])) [RSnap [1; 2; 3; 4]; REv 5] [1] [1; 2; 3; 4; 5];
     OState [1; 2; 3; 4; 5]].
Proof. vm_compute. reflexivity. Qed.

(* aliasing is real in the model of MemoryStorage.Save as shipped: after an explicit persist the stored record shares
   the journal's array, and a later truncate + append overwrites the stored record's first element (stale record
   [4;2], not [1;2]); repaired, the record has its own array and stays [1;2] *)
Example C09_example_alias :
  let view v :=
    let c := fst (run v (fun _ _ => 8%nat) 3 [Event 1; Event 2; Persist; Event 3; Event 4]) in
    match storage c with
    | Some (sn, s) => (sn, contents (hp c) s, s_arr s =? s_arr (j_events (jr c)))%nat
    | None => (None, [], false)
    end in
  view save_aliases = (None, [4; 2], true) /\ view repaired = (None, [1; 2], false).
Proof. vm_compute. auto. Qed.

(* failing saves, non-vacuity of the new theorems. Capacity 8 from the start, threshold 2: events 1 2 (snapshot) 3;
   persist; 4 (snapshot: the journal is truncated in place) 5 6 (in-place appends over the old array, the second
   one another snapshot) 7; a failing explicit persist; a restart whose save fails: it rebuilds [1 2 3]; event 8; a
   stop + re-create whose save fails: [1 2 3] again; a restart that succeeds: nothing new to lose *)
Example C09_example_failing_saves :
  let ops := [Event 1; Event 2; Event 3; Persist; Event 4; Event 5; Event 6; Event 7; PersistF; FailF; Query;
              Event 8; StopRecreateF 3; Event 9; Fail; Query] in
  snd (run repaired (fun _ _ => 8%nat) 2 ops)
  = [OEvent 1 (MAdd 1) WAsker false; OEvent 2 (MAdd 2) WAsker true; OEvent 1 (MAdd 3) WAsker false;
     OSaved (Some (Some [1; 2], [3]));
     OEvent 2 (MAdd 4) WAsker true; OEvent 1 (MAdd 5) WAsker false; OEvent 2 (MAdd 6) WAsker true;
     OEvent 1 (MAdd 7) WAsker false;
     OSaveFailed (OSaved (Some (Some [1; 2; 3; 4; 5; 6], [7])));
     OSaveFailed (OLaunch (Some (Some [1; 2; 3; 4; 5; 6], [7])) [RSnap [1; 2]; REv 3] [1] [1; 2; 3]);
     OState [1; 2; 3];
     OEvent 2 (MAdd 8) WAsker true;
     OSaveFailed (OLaunch (Some (Some [1; 2; 3; 8], [])) [RSnap [1; 2]; REv 3] [1] [1; 2; 3]);
     OEvent 2 (MAdd 9) WAsker false;
     OLaunch (Some (Some [1; 2], [3; 9])) [RSnap [1; 2]; REv 3; REv 9] [2; 2] [1; 2; 3; 9];
     OState [1; 2; 3; 9]]
  /\ last_persisted (firstn 10 ops) = [1; 2; 3] /\ live_state (firstn 9 ops) = [1; 2; 3; 4; 5; 6; 7]
  /\ last_persisted ops = [1; 2; 3; 9]
  /\ forallb saves_nothing (firstn 9 (skipn 4 ops)) = true
  /\ stored_view (fst (run repaired (fun _ _ => 8%nat) 2 (firstn 13 ops))) = Some (Some [1; 2], [3]).
Proof. vm_compute. repeat split. Qed.

(* the same history on the three refuted variants: what the launches rebuild instead *)
Example C09_example_failing_saves_as_shipped :
  let launches v g th ops := flat_map (fun o => match launch_state o with Some st => [st] | None => [] end)
                                      (snd (run v g th ops)) in
  launches save_aliases go_grow 2 [Event 1; Event 2; Event 3; Persist; Event 4; Event 5; FailF] = [[1; 2; 5]]
  /\ launches repaired go_grow 2 [Event 1; Event 2; Event 3; Persist; Event 4; Event 5; FailF] = [[1; 2; 3]]
  /\ launches norec_keeps_journal go_grow 1000 [Event 1; Event 2; FailF; Event 3; Fail] = [[]; [1; 2; 3]]
  /\ launches repaired go_grow 1000 [Event 1; Event 2; FailF; Event 3; Fail] = [[]; [3]]
  /\ launches load_adopts (fun _ n => n + 3)%nat 2 [Event 1; Fail; Event 2; Event 3; FailF] = [[1]; [3]]
  /\ launches repaired (fun _ n => n + 3)%nat 2 [Event 1; Fail; Event 2; Event 3; FailF] = [[1]; [1]].
Proof. vm_compute. repeat split. Qed.

(* the code AS IT IS (variant as_is), confirmed on the implementation by the harness:
   (a) three generations under one name, two events each: state at launch [], [1;1], [1;1] — the third
       generation has lost the first one's events; *)
Example C09_as_is_loses_earlier_generations :
  snd (run as_is go_grow 1000 [Query; Event 1; Event 1; StopRecreate 1000; Event 1; Event 1; StopRecreate 1000; Query])
  = [OState []; OEvent 1 (MAdd 1) WAsker false; OEvent 2 (MAdd 1) WAsker false;
     OLaunch (Some (None, [1; 1])) [REv 1; REv 1] [0; 0] [1; 1];
     OEvent 1 (MAdd 1) WAsker false; OEvent 2 (MAdd 1) WAsker false;
     OLaunch (Some (None, [1; 1])) [REv 1; REv 1] [0; 0] [1; 1];
     OState [1; 1]].
Proof. vm_compute. reflexivity. Qed.

(* (b) at the threshold the handler sees OnPersistenceSnapshot from itself instead of its own message. *)
Example C09_as_is_changes_current_message :
  snd (run as_is go_grow 2 [Event 1; Event 2])
  = [OEvent 1 (MAdd 1) WAsker false; OEvent 2 MSnapReq WSelf true].
Proof. vm_compute. reflexivity. Qed.

(* the witness of C09_record_first_recovery_refuted, step by step *)
Example C09_record_first_witness :
  snd (run repaired_record_first go_grow 2 [Event 1; Event 2; Event 3; Fail; Query])
  = [OEvent 1 (MAdd 1) WAsker false; OEvent 2 (MAdd 2) WAsker true; OEvent 1 (MAdd 3) WAsker false;
     OLaunch (Some (Some [1], [3])) [RSnap [1]; REv 3] [1] [1; 3]; OState [1; 3]].
Proof. vm_compute. reflexivity. Qed.

(* persist-then-announce, eager observer, four generations (termination, restart, termination): nothing lost *)
Example C09_example_recreate_on_notice :
  let w := play src_terminate src_restart (oinit src_terminate src_restart [1; 2] false) [([3], true); ([4; 5], false); ([], false)] in
  log w = [(Some [1; 2], [1; 2]); (Some [1; 2; 3], [1; 2; 3]); (Some [1; 2; 3; 4; 5], [1; 2; 3; 4; 5])]
  /\ t_val (cur w) = [1; 2; 3; 4; 5] /\ length (olds w) = 3%nat.
Proof. vm_compute. auto. Qed.

(* announce-then-persist, the same eager observer: the second generation launches empty (state lost) ... *)
Example C09_announce_then_persist_lost :
  let w := orun announce_then_persist src_restart (oinit announce_then_persist src_restart [1; 2; 3] false) lost_schedule in
  log w = [(None, [1; 2; 3])] /\ t_val (cur w) = [4] /\ hist w = [1; 2; 3; 4].
Proof. exact announce_then_persist_lost. Qed.

(* ... and a later generation loads the record of the first one (state stale): the second one's event 2 is lost *)
Example C09_announce_then_persist_stale :
  let w := orun announce_then_persist src_restart (oinit announce_then_persist src_restart [1] false) stale_schedule in
  log w = [(Some [1], [1]); (Some [1], [1; 2])] /\ t_val (cur w) = [1; 3] /\ hist w = [1; 2; 3].
Proof. exact announce_then_persist_stale. Qed.

(* the ordering condition separates them; a deferred or late persist is accepted only when the launch is posted to
   the own mailbox *)
Example C09_order_condition :
  order_safe src_terminate = true /\ order_safe src_restart = true /\ order_safe src_restart_inline = true
  /\ order_safe announce_then_persist = false /\ order_safe restart_async_persist = false
  /\ order_safe restart_inline_launch_then_persist = false
  /\ order_safe [SGuard; SStatus; SAnnounce AUnregister; SPersist; SAnnounce AParent] = false
  /\ order_safe [SGuard; SDeferPersist; SHandler; SNewInstance; SAnnounce ALaunch] = true
  /\ order_safe [SGuard; SHandler; SNewInstance; SAnnounce ALaunch] = false.
Proof. vm_compute. repeat split. Qed.

(* the inline restart routine with the eager observer: nothing lost *)
Example C09_example_restart_inline :
  let w := play src_terminate src_restart_inline (oinit src_terminate src_restart_inline [1] true) [([2], true); ([3], false); ([], false)] in
  log w = [(Some [1], [1]); (Some [1; 2], [1; 2]); (Some [1; 2; 3], [1; 2; 3])] /\ t_val (cur w) = [1; 2; 3].
Proof. vm_compute. auto. Qed.
