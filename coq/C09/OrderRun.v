(* MV.C09.OrderRun — evaluation of the runs of harness/cmd/c09persist -family notice (tie T1 of the order model).
   The harness drives a real ActorSystem with a storage whose Save takes time and an observer that re-creates the
   persistent actor the moment it observes the end of the previous generation (inside the parent's / a watcher's
   OnTerminated handler, right after ActorSystem.Shutdown has returned, or — restart — the launch of the new instance).
   The model is driven by the same EAGER observer: the current generation steps until its end is observable, then the
   next one is launched at once, while the old routine has not returned. *)
From MV Require Import Lib.ListX C09.OrderModel C09.OrderProofs.

Fixpoint drive (fuel : nat) (pt pr : list stmt) (w : world) : world :=
  match fuel with
  | O => w
  | S f => if observable (cur w) then w else drive f pt pr (ostep pt pr w (CCur false))
  end.

(* gens: the events each later generation applies and whether it ends by a restart *)
Fixpoint play (pt pr : list stmt) (w : world) (gens : list (list Z * bool)) : world :=
  match gens with
  | [] => w
  | (evs, r) :: t => play pt pr (ostep pt pr (drive 64 pt pr w) (CRecreate evs r)) t
  end.

(* nimpl: the state observed at each launch on the real system (None: the step was lost — timeout, panic) *)
Record ncase := { nid : nat; nfirst : list Z; nfirst_r : bool; ngens : list (list Z * bool); nimpl : list (option (list Z)) }.

Definition launches_of (pt pr : list stmt) (c : ncase) : list (option (list Z)) :=
  map (fun e => Some (rebuilt (fst e))) (log (play pt pr (oinit pt pr (nfirst c) (nfirst_r c)) (ngens c))).

Definition model_launches (c : ncase) : list (option (list Z)) := launches_of src_terminate src_restart c.
Definition ncase_ok (c : ncase) : bool := list_eqb (opt_eqb (list_eqb Z.eqb)) (model_launches c) (nimpl c).
Definition notice_mismatches (cs : list ncase) : list nat := fail_ids ncase_ok nid cs.

(* the eager observer is one of the schedules the theorems quantify over *)
Lemma drive_is_run pt pr : forall fuel w, exists cs, drive fuel pt pr w = orun pt pr w cs.
Proof.
  induction fuel as [|f IH]; intros w; cbn [drive].
  - exists []. reflexivity.
  - destruct (observable (cur w)).
    + exists []. reflexivity.
    + destruct (IH (ostep pt pr w (CCur false))) as [cs E]. exists (CCur false :: cs). rewrite E. reflexivity.
Qed.

Lemma run_app pt pr w cs1 cs2 : orun pt pr w (cs1 ++ cs2) = orun pt pr (orun pt pr w cs1) cs2.
Proof. unfold orun. apply fold_left_app. Qed.

Lemma play_is_run pt pr : forall gens w, exists cs, play pt pr w gens = orun pt pr w cs.
Proof.
  induction gens as [|[evs r] t IH]; intros w; cbn [play].
  - exists []. reflexivity.
  - destruct (drive_is_run pt pr 64 w) as [cs1 E1].
    destruct (IH (ostep pt pr (drive 64 pt pr w) (CRecreate evs r))) as [cs2 E2].
    exists (cs1 ++ CRecreate evs r :: cs2). rewrite E2, E1, run_app. reflexivity.
Qed.

Lemma eager_observer_exact pt pr : order_safe pt = true -> order_safe pr = true ->
  forall evs0 r0 gens, let w := play pt pr (oinit pt pr evs0 r0) gens in launches_exact w /\ t_val (cur w) = hist w.
Proof.
  intros Ht Hr evs0 r0 gens. destruct (play_is_run pt pr gens (oinit pt pr evs0 r0)) as [cs E].
  cbn zeta. rewrite E. apply order_sound; assumption.
Qed.
