(* MV.C09.PersistModel — executable sequential model (layer C) of actor persistence in
   engine/vivid: actor_context.go (StateChanged, SaveSnapshot, Persistence, recoveryPersistence,
   tryRestarted, tryTerminated, processMessage's message/sender registers), persistence/state.go
   (State: snapshot + events journal) and persistence/memory_storage.go (one record per name; as
   shipped, Save KEPT THE CALLER'S SLICE, so the stored record aliased the live journal's backing
   array; repaired, it stores a copy).

   Storage.Save may FAIL: the operations [PersistF], [FailF], [StopRecreateF] are [Persist], [Fail],
   [StopRecreate] with a Save that is called with the same arguments, returns an error and leaves the
   storage as it was (ctx.Persistence() hands the error to its caller; on restart and termination it
   is logged). Load and Clear never fail; there are no partial writes.

   Go slices are modelled with an explicit heap of backing arrays: a slice is (array id, length),
   its capacity is the length of the array; [append] writes in place when there is room and
   allocates otherwise, with an ARBITRARY growth policy [g] (theorems quantify over it).

   The actor is the recording actor of the harness: state = list of applied events; on add(e) it
   applies e, then calls StateChanged(add e) (same message type for commands and replayed events, as
   in the repository's own persistence test); on OnPersistenceSnapshot it calls SaveSnapshot(full state);
   on a snapshot message it replaces its state.

   Confirmed small defects are modelled REPAIRED ([repaired]); the behaviour of the code as it was
   shipped is kept behind variant flags (used only by Examples and _refuted theorems):
     v_seed    : State.Load seeds the journal with (a copy of) the stored record
                 (fixes/C09-journal-seed.patch); as shipped, a re-created context starts an empty journal
                 and its next persist overwrites the stored history;
     v_restore : StateChanged restores ctx.message/ctx.sender after the threshold snapshot request
                 (fixes/C09-restore-message.patch);
     v_save_copies : MemoryStorage.Save stores a copy of the events (fixes/C09-memory-storage-copy.patch);
                 as shipped the record is the journal's own slice and later in-place appends overwrite it —
                 visible as soon as a save fails;
     v_norec_resets : State.Load empties the runtime journal when nothing is stored
                 (fixes/C09-no-record-resets-journal.patch); as shipped a restart whose save failed before
                 any record existed kept the old instance's events in the journal;
     v_load_copies : State.Load copies the stored events into the journal (part of the journal-seed repair).
                 [false] = the journal ADOPTS the storage's slice: not a shipped behaviour, a seeded change the
                 check must detect (C09_load_adopts_storage_slice_refuted). *)
From MV Require Import Lib.ListX.

(* ------------------------------------------------------------------ messages, ops, outputs *)

Inductive msg := MAdd (e : Z) | MSnapReq | MSnap (s : list Z) | MLaunch | MQuery | MPersist | MCrash | MOther.
Inductive who := WAsker | WSelf | WParent | WNone | WOther.

Inductive op :=
| Event (e : Z)            (* ask add(e): the handler applies e and calls ctx.StateChanged *)
| Fail                     (* the handler panics; the supervisor restarts the actor at once *)
| StopRecreate (th : Z)    (* terminate; then a NEW actor context under the same persistence name, threshold th *)
| Persist                  (* the handler calls ctx.Persistence() *)
| Query                    (* ask for the current state *)
| PersistF                 (* Persist, Fail, StopRecreate with a Storage.Save that returns an error *)
| FailF
| StopRecreateF (th : Z).

Inductive rmsg := RSnap (s : list Z) | REv (e : Z).      (* a message delivered during recovery *)

Definition saved_rec := option (option (list Z) * list Z). (* what Storage.Save received (None: not called) *)

Inductive out :=
| OEvent (num : Z) (m : msg) (w : who) (snapreq : bool)
    (* StateChanged's result; ctx.Message(), ctx.Sender() right after it; OnPersistenceSnapshot was handled *)
| OLaunch (saved : saved_rec) (trace : list rmsg) (counts : list Z) (st : list Z)
    (* after Fail / StopRecreate: record saved by the persist of the old instance, messages the new instance
       received while recovering, results of StateChanged during replay, state of the new instance after launch *)
| OSaved (saved : saved_rec)
| OState (st : list Z)
| OBad                     (* never produced by the model: timeout / panic / unrepresentable output *)
| OSaveFailed (o : out).   (* the output [o] of a step whose Storage.Save was called (with the record shown in [o]) and
                              returned an error; for PersistF the handler got that error from ctx.Persistence() *)

(* ------------------------------------------------------------------ heap of backing arrays *)

Record slice := { s_arr : nat; s_len : nat }.
Definition heap := list (list Z).

Definition nil_slice : slice := {| s_arr := 0; s_len := 0 |}.   (* array 0 has capacity 0 *)
Definition init_heap : heap := [[]].

Definition arr (h : heap) (a : nat) : list Z := nth a h [].
Definition capacity (h : heap) (s : slice) : nat := length (arr h (s_arr s)).
Definition read (h : heap) (s : slice) (i : nat) : Z := nth i (arr h (s_arr s)) 0%Z.
Definition contents (h : heap) (s : slice) : list Z := map (read h s) (seq 0 (s_len s)).

(* capacity the runtime gives a new array: at least what is needed, otherwise arbitrary *)
Definition newcap (g : nat -> nat -> nat) (oldcap needed : nat) : nat := Nat.max needed (g oldcap needed).
Definition pad (l : list Z) (cap : nat) : list Z := l ++ repeat 0%Z (cap - length l).

(* s = append(s, e) *)
Definition sl_append (g : nat -> nat -> nat) (h : heap) (s : slice) (e : Z) : heap * slice :=
  if s_len s <? capacity h s then
    (upd (s_arr s) (upd (s_len s) e (arr h (s_arr s))) h, {| s_arr := s_arr s; s_len := S (s_len s) |})
  else
    let l := contents h s ++ [e] in
    (h ++ [pad l (newcap g (capacity h s) (length l))], {| s_arr := length h; s_len := length l |}).

(* append([]Event(nil), s...) *)
Definition sl_copy (g : nat -> nat -> nat) (h : heap) (s : slice) : heap * slice :=
  match contents h s with
  | [] => (h, nil_slice)
  | l => (h ++ [pad l (newcap g 0 (length l))], {| s_arr := length h; s_len := length l |})
  end.

(* ------------------------------------------------------------------ state *)

Record journal := { j_snap : option (list Z); j_events : slice }.     (* persistence.State *)
Definition record := (option (list Z) * slice)%type.                  (* memoryStorageRecord *)

Record ctx := {
  hp : heap;
  jr : journal;                 (* ctx.persistenceState *)
  recovering : bool;            (* ctx.persistenceRecovering *)
  threshold : Z;                (* ctx.persistenceEventThreshold *)
  cur_msg : msg;                (* ctx.message *)
  cur_sender : who;             (* ctx.sender *)
  actor : list Z;               (* state of the current actor instance *)
  snapreq_seen : bool;          (* instance flag: OnPersistenceSnapshot handled since the last add *)
  storage : option record       (* MemoryStorage's record under the persistence name *)
}.

Definition set_hp_jr (c : ctx) (h : heap) (j : journal) : ctx :=
  {| hp := h; jr := j; recovering := recovering c; threshold := threshold c; cur_msg := cur_msg c;
     cur_sender := cur_sender c; actor := actor c; snapreq_seen := snapreq_seen c; storage := storage c |}.
Definition set_recovering (c : ctx) (b : bool) : ctx :=
  {| hp := hp c; jr := jr c; recovering := b; threshold := threshold c; cur_msg := cur_msg c;
     cur_sender := cur_sender c; actor := actor c; snapreq_seen := snapreq_seen c; storage := storage c |}.
Definition set_regs (c : ctx) (m : msg) (w : who) : ctx :=
  {| hp := hp c; jr := jr c; recovering := recovering c; threshold := threshold c; cur_msg := m;
     cur_sender := w; actor := actor c; snapreq_seen := snapreq_seen c; storage := storage c |}.
Definition set_actor (c : ctx) (a : list Z) (sr : bool) : ctx :=
  {| hp := hp c; jr := jr c; recovering := recovering c; threshold := threshold c; cur_msg := cur_msg c;
     cur_sender := cur_sender c; actor := a; snapreq_seen := sr; storage := storage c |}.
Definition set_storage (c : ctx) (r : option record) : ctx :=
  {| hp := hp c; jr := jr c; recovering := recovering c; threshold := threshold c; cur_msg := cur_msg c;
     cur_sender := cur_sender c; actor := actor c; snapreq_seen := snapreq_seen c; storage := r |}.

(* v_record_first selects the other recording actor: it calls StateChanged BEFORE applying the event (the
   order event-sourcing frameworks prescribe). With the code as it is — and also with the two repairs — the
   threshold snapshot is requested inside StateChanged, i.e. before that actor has applied the event, and
   SaveSnapshot then drops the event from the journal: see C09_record_first_recovery_refuted. *)
Record variant := { v_seed : bool; v_restore : bool; v_record_first : bool;
                    v_save_copies : bool; v_load_copies : bool; v_norec_resets : bool }.
Definition repaired : variant :=
  {| v_seed := true; v_restore := true; v_record_first := false;
     v_save_copies := true; v_load_copies := true; v_norec_resets := true |}.
(* the code as it was first examined: none of the repairs *)
Definition as_is : variant :=
  {| v_seed := false; v_restore := false; v_record_first := false;
     v_save_copies := false; v_load_copies := true; v_norec_resets := false |}.
Definition repaired_record_first : variant :=
  {| v_seed := true; v_restore := true; v_record_first := true;
     v_save_copies := true; v_load_copies := true; v_norec_resets := true |}.
(* [repaired] with ONE repair (or, for the third, one seeded change) taken back *)
Definition save_aliases : variant :=     (* MemoryStorage.Save as shipped *)
  {| v_seed := true; v_restore := true; v_record_first := false;
     v_save_copies := false; v_load_copies := true; v_norec_resets := true |}.
Definition norec_keeps_journal : variant :=  (* State.Load as shipped when nothing is stored *)
  {| v_seed := true; v_restore := true; v_record_first := false;
     v_save_copies := true; v_load_copies := true; v_norec_resets := false |}.
Definition load_adopts : variant :=      (* seeded: s.events = events *)
  {| v_seed := true; v_restore := true; v_record_first := false;
     v_save_copies := true; v_load_copies := false; v_norec_resets := true |}.

(* ------------------------------------------------------------------ persistence.State *)

(* State.StateChanged: s.events = append(s.events, event) *)
Definition j_append (g : nat -> nat -> nat) (c : ctx) (e : Z) : ctx :=
  let (h', s') := sl_append g (hp c) (j_events (jr c)) e in
  set_hp_jr c h' {| j_snap := j_snap (jr c); j_events := s' |}.

(* State.SaveSnapshot: s.snapshot = snapshot; s.events = s.events[:0] (same backing array) *)
Definition j_save_snapshot (c : ctx) (snap : list Z) : ctx :=
  set_hp_jr c (hp c) {| j_snap := Some snap; j_events := {| s_arr := s_arr (j_events (jr c)); s_len := 0 |} |}.

Definition event_count (c : ctx) : Z := Z.of_nat (s_len (j_events (jr c))).

(* State.Persist + Storage.Save: nothing (Save is not called) when there is neither snapshot nor event. Otherwise
   Save receives the snapshot and the journal's slice — second component: what it received. With [fault] it
   returns an error and the storage stays as it was. Otherwise MemoryStorage.Save replaces the record: by a copy of
   the events (append([]Event(nil), events...)); as shipped, by the journal's slice itself (aliasing). *)
Definition persist (v : variant) (g : nat -> nat -> nat) (fault : bool) (c : ctx) : ctx * saved_rec :=
  match j_snap (jr c), s_len (j_events (jr c)) with
  | None, O => (c, None)
  | _, _ =>
      let received := Some (j_snap (jr c), contents (hp c) (j_events (jr c))) in
      if fault then (c, received)
      else if v_save_copies v then
        let (h', s') := sl_copy g (hp c) (j_events (jr c)) in
        (set_storage (set_hp_jr c h' (jr c)) (Some (j_snap (jr c), s')), received)
      else (set_storage c (Some (j_snap (jr c), j_events (jr c))), received)
  end.

(* the output of a step that persisted: wrapped in OSaveFailed when Save was called and returned an error *)
Definition mark (fault : bool) (saved : saved_rec) (o : out) : out :=
  match fault, saved with
  | true, Some _ => OSaveFailed o
  | _, _ => o
  end.

Definition empty_journal : journal := {| j_snap := None; j_events := nil_slice |}.

(* State.Load + MemoryStorage.Load: returns the stored snapshot and the stored events SLICE; the repaired code also
   makes the journal continue from a copy of the stored record, and from nothing when nothing is stored
   (ErrorPersistenceNotHasRecord) *)
Definition state_load (v : variant) (g : nat -> nat -> nat) (c : ctx) : ctx * option record :=
  match storage c with
  | None => (if v_norec_resets v then set_hp_jr c (hp c) empty_journal else c, None)
  | Some (snap, evs) =>
      if v_seed v then
        if v_load_copies v then
          let (h', s') := sl_copy g (hp c) evs in
          (set_hp_jr c h' {| j_snap := snap; j_events := s' |}, Some (snap, evs))
        else (set_hp_jr c (hp c) {| j_snap := snap; j_events := evs |}, Some (snap, evs))
      else (c, Some (snap, evs))
  end.

(* ------------------------------------------------------------------ actorContext + the recording actor *)

(* actorContext.SaveSnapshot *)
Definition save_snapshot (c : ctx) (snap : list Z) : ctx :=
  if recovering c then c else j_save_snapshot c snap.

(* actor: case *OnPersistenceSnapshot: ctx.SaveSnapshot(full state) *)
Definition on_snapreq (c : ctx) : ctx := save_snapshot (set_actor c (actor c) true) (actor c).

(* ctx.processMessage(ctx.ref, ctx.ref, onPersistenceSnapshot, false) *)
Definition process_snapreq (c : ctx) : ctx := on_snapreq (set_regs c MSnapReq WSelf).

(* actorContext.StateChanged *)
Definition state_changed (v : variant) (g : nat -> nat -> nat) (c : ctx) (e : Z) : ctx * Z :=
  if recovering c then (c, event_count c)
  else
    let c1 := j_append g c e in
    let num := event_count c1 in
    if (threshold c <=? num)%Z then
      let c2 := process_snapreq c1 in
      (if v_restore v then set_regs c2 (cur_msg c) (cur_sender c) else c2, num)
    else (c1, num).

(* actor: case add(e): apply, then record; observes num, ctx.Message(), ctx.Sender(), snapshot request *)
Definition on_add (v : variant) (g : nat -> nat -> nat) (c : ctx) (e : Z) : ctx * (Z * msg * who * bool) :=
  if v_record_first v then
    (* the other actor: record, then apply *)
    let (c1, num) := state_changed v g (set_actor c (actor c) false) e in
    (set_actor c1 (actor c1 ++ [e]) (snapreq_seen c1), (num, cur_msg c1, cur_sender c1, snapreq_seen c1))
  else
    let (c1, num) := state_changed v g (set_actor c (actor c ++ [e]) false) e in
    (c1, (num, cur_msg c1, cur_sender c1, snapreq_seen c1)).

(* processMessage(sender, self, add e, false) *)
Definition process_add (v : variant) (g : nat -> nat -> nat) (c : ctx) (w : who) (e : Z) :=
  on_add v g (set_regs c (MAdd e) w) e.

(* processMessage(self, self, snapshot, false); actor: case snapshot: state = snapshot *)
Definition process_snap (c : ctx) (s : list Z) : ctx :=
  let c1 := set_regs c (MSnap s) WSelf in set_actor c1 s (snapreq_seen c1).

(* for _, event := range events { processMessage(self, self, event, false) }: the elements are read from the
   backing array one per iteration. Returns the delivered events and the results of StateChanged. *)
Fixpoint replay (v : variant) (g : nat -> nat -> nat) (c : ctx) (s : slice) (i n : nat) : ctx * list Z * list Z :=
  match n with
  | O => (c, [], [])
  | S n' =>
      let e := read (hp c) s i in
      let '(c1, (num, _, _, _)) := process_add v g c WSelf e in
      let '(c2, es, ns) := replay v g c1 s (S i) n' in
      (c2, e :: es, num :: ns)
  end.

(* actorContext.recoveryPersistence *)
Definition recover (v : variant) (g : nat -> nat -> nat) (c : ctx) : ctx * list rmsg * list Z :=
  let (c1, loaded) := state_load v g c in
  match loaded with
  | None => (c1, [], [])
  | Some (snap, evs) =>
      let c2 := set_recovering c1 true in
      let c3 := match snap with Some s => process_snap c2 s | None => c2 end in
      let '(c4, es, ns) := replay v g c3 evs 0 (s_len evs) in
      (set_recovering c4 false, match snap with Some s => [RSnap s] | None => [] end ++ map REv es, ns)
  end.

(* system message OnLaunch: the handler sees OnLaunch (ignored by the actor), then recovery *)
Definition launch (v : variant) (g : nat -> nat -> nat) (c : ctx) : ctx * list rmsg * list Z :=
  recover v g (set_regs c MLaunch WParent).

(* tryRestarted: (OnTerminate, OnTerminated to the old instance: ignored), persist, new instance from the
   provider, OnLaunch. The context and therefore the journal are kept. *)
Definition fail (v : variant) (g : nat -> nat -> nat) (fault : bool) (c : ctx) : ctx * out :=
  let (c1, saved) := persist v g fault (set_regs c MCrash WNone) in
  let '(c2, trace, counts) := launch v g (set_actor c1 [] false) in
  (c2, mark fault saved (OLaunch saved trace counts (actor c2))).

(* tryTerminated: persist. ActorOf under the same persistence name: a new context, hence a fresh journal
   (initPersistenceState), same storage; OnLaunch. *)
Definition fresh_ctx (h : heap) (st : option record) (th : Z) : ctx :=
  {| hp := h; jr := empty_journal; recovering := false; threshold := th;
     cur_msg := MOther; cur_sender := WNone; actor := []; snapreq_seen := false; storage := st |}.

Definition stop_recreate (v : variant) (g : nat -> nat -> nat) (fault : bool) (c : ctx) (th : Z) : ctx * out :=
  let (c1, saved) := persist v g fault c in
  let '(c2, trace, counts) := launch v g (fresh_ctx (hp c1) (storage c1) th) in
  (c2, mark fault saved (OLaunch saved trace counts (actor c2))).

(* the handler calls ctx.Persistence() and answers with its result *)
Definition explicit_persist (v : variant) (g : nat -> nat -> nat) (fault : bool) (c : ctx) : ctx * out :=
  let (c1, saved) := persist v g fault (set_regs c MPersist WAsker) in (c1, mark fault saved (OSaved saved)).

Definition step (v : variant) (g : nat -> nat -> nat) (c : ctx) (o : op) : ctx * out :=
  match o with
  | Event e => let '(c1, (num, m, w, sr)) := process_add v g c WAsker e in (c1, OEvent num m w sr)
  | Fail => fail v g false c
  | StopRecreate th => stop_recreate v g false c th
  | Persist => explicit_persist v g false c
  | Query => (set_regs c MQuery WAsker, OState (actor c))
  | FailF => fail v g true c
  | StopRecreateF th => stop_recreate v g true c th
  | PersistF => explicit_persist v g true c
  end.

Definition init (v : variant) (g : nat -> nat -> nat) (th : Z) : ctx :=
  fst (fst (launch v g (fresh_ctx init_heap None th))).

Fixpoint run_from (v : variant) (g : nat -> nat -> nat) (c : ctx) (ops : list op) : ctx * list out :=
  match ops with
  | [] => (c, [])
  | o :: t => let (c1, x) := step v g c o in let (c2, xs) := run_from v g c1 t in (c2, x :: xs)
  end.

Definition run (v : variant) (g : nat -> nat -> nat) (th : Z) (ops : list op) : ctx * list out :=
  run_from v g (init v g th) ops.

(* growth policy used when recorded runs are evaluated (doubling); by theorem C09_capacity_invisible the
   outputs do not depend on it *)
Definition go_grow (oldcap needed : nat) : nat := 2 * oldcap.

(* ------------------------------------------------------------------ abstract journal (specification) *)

(* The journal as a plain pair: the last snapshot (if any) and the events recorded since, in order; and the record
   the storage holds under the persistence name (None: nothing was ever saved successfully), as plain lists. *)
Definition arecord := (option (list Z) * list Z)%type.
Record ajr := { a_th : Z; a_snap : option (list Z); a_tail : list Z; a_stored : option arecord }.

Definition snap_list (s : option (list Z)) : list Z := match s with Some l => l | None => [] end.
Definition snap_items (s : option (list Z)) : list rmsg := match s with Some l => [RSnap l] | None => [] end.

Definition a_state (a : ajr) : list Z := snap_list (a_snap a) ++ a_tail a.
(* what a persist hands to Storage.Save (None: nothing to save, Save is not called) *)
Definition a_saved (a : ajr) : saved_rec :=
  match a_snap a, a_tail a with
  | None, [] => None
  | s, t => Some (s, t)
  end.
Definition a_trace (a : ajr) : list rmsg := snap_items (a_snap a) ++ map REv (a_tail a).
Definition a_counts (a : ajr) : list Z := repeat (Z.of_nat (length (a_tail a))) (length (a_tail a)).

(* persist: a successful Save with something to save replaces the stored record; a failing one changes nothing *)
Definition a_persist (fault : bool) (a : ajr) : ajr :=
  match fault, a_saved a with
  | false, Some r => {| a_th := a_th a; a_snap := a_snap a; a_tail := a_tail a; a_stored := Some r |}
  | _, _ => a
  end.

(* launch with threshold th: the journal (and the new instance's state) become what is stored; nothing if nothing is *)
Definition a_recover (th : Z) (a : ajr) : ajr :=
  match a_stored a with
  | Some (s, t) => {| a_th := th; a_snap := s; a_tail := t; a_stored := a_stored a |}
  | None => {| a_th := th; a_snap := None; a_tail := []; a_stored := None |}
  end.

(* restart / stop + re-create: the persist is attempted, then the launch recovers what is stored *)
Definition a_relaunch (fault : bool) (th : Z) (a : ajr) : ajr * out :=
  let a' := a_recover th (a_persist fault a) in
  (a', mark fault (a_saved a) (OLaunch (a_saved a) (a_trace a') (a_counts a') (a_state a'))).

Definition a_explicit (fault : bool) (a : ajr) : ajr * out :=
  (a_persist fault a, mark fault (a_saved a) (OSaved (a_saved a))).

Definition astep (a : ajr) (o : op) : ajr * out :=
  match o with
  | Event e =>
      let t := a_tail a ++ [e] in
      let num := Z.of_nat (length t) in
      if (a_th a <=? num)%Z
      then ({| a_th := a_th a; a_snap := Some (a_state a ++ [e]); a_tail := []; a_stored := a_stored a |},
            OEvent num (MAdd e) WAsker true)
      else ({| a_th := a_th a; a_snap := a_snap a; a_tail := t; a_stored := a_stored a |},
            OEvent num (MAdd e) WAsker false)
  | Fail => a_relaunch false (a_th a) a
  | StopRecreate th => a_relaunch false th a
  | Persist => a_explicit false a
  | Query => (a, OState (a_state a))
  | FailF => a_relaunch true (a_th a) a
  | StopRecreateF th => a_relaunch true th a
  | PersistF => a_explicit true a
  end.

Fixpoint arun_from (a : ajr) (ops : list op) : ajr * list out :=
  match ops with
  | [] => (a, [])
  | o :: t => let (a1, x) := astep a o in let (a2, xs) := arun_from a1 t in (a2, x :: xs)
  end.

Definition ainit (th : Z) : ajr := {| a_th := th; a_snap := None; a_tail := []; a_stored := None |}.
Definition arun (th : Z) (ops : list op) : ajr * list out := arun_from (ainit th) ops.

(* ------------------------------------------------------------------ vocabulary of the theorems *)

(* every event recorded by a history, in order *)
Definition recorded (ops : list op) : list Z :=
  flat_map (fun o => match o with Event e => [e] | _ => [] end) ops.

Definition is_relaunch (o : op) : bool :=
  match o with Fail | StopRecreate _ | FailF | StopRecreateF _ => true | _ => false end.

(* the operation comes with a failing Storage.Save *)
Definition faulty (o : op) : bool :=
  match o with PersistF | FailF | StopRecreateF _ => true | _ => false end.
Definition fault_free (ops : list op) : bool := forallb (fun o => negb (faulty o)) ops.

(* operations during which no Save returns nil: events, queries and everything with a failing save *)
Definition saves_nothing (o : op) : bool :=
  match o with Event _ | Query => true | _ => faulty o end.

(* What a history means for the actor, by a plain recursion over it and nothing else (no journal, no threshold, no
   storage): [live] is the state of the current instance, [pers] the state the actor had at the last Storage.Save
   that returned nil (nothing yet: the empty state).
     an event extends live;
     a successful persist (explicit, or the one of a restart / stop + re-create) makes pers := live
       (when live is empty there is nothing to save and Save is not even called: pers is empty too, see
        PersistProofs.track_spec, so pers := live is still right);
     a failing persist leaves pers alone;
     every launch — after a successful or a failing persist — starts the new instance from pers. *)
Fixpoint track (live pers : list Z) (ops : list op) : list Z * list Z :=
  match ops with
  | [] => (live, pers)
  | o :: t =>
      match o with
      | Event e => track (live ++ [e]) pers t
      | Persist => track live live t
      | Fail | StopRecreate _ => track live live t
      | Query | PersistF => track live pers t
      | FailF | StopRecreateF _ => track pers pers t
      end
  end.

Definition live_state (ops : list op) : list Z := fst (track [] [] ops).
(* the state the actor had when it last persisted SUCCESSFULLY in the history ops *)
Definition last_persisted (ops : list op) : list Z := snd (track [] [] ops).

Fixpoint launch_state (o : out) : option (list Z) :=
  match o with
  | OLaunch _ _ _ st => Some st
  | OSaveFailed o' => launch_state o'
  | _ => None
  end.

(* the step's output without the failure mark *)
Definition unmarked (o : out) : out := match o with OSaveFailed o' => o' | _ => o end.

(* the concrete journal seen through the heap *)
Definition journal_view (c : ctx) : option (list Z) * list Z :=
  (j_snap (jr c), contents (hp c) (j_events (jr c))).

(* what a Load would return now: the stored record seen through the heap *)
Definition stored_view (c : ctx) : option arecord :=
  match storage c with
  | Some (sn, s) => Some (sn, contents (hp c) s)
  | None => None
  end.

(* the state a launch rebuilds from a record: the snapshot, then the events (nothing stored: the empty state) *)
Definition rebuilds (r : option arecord) : list Z :=
  match r with Some (sn, t) => snap_list sn ++ t | None => [] end.
