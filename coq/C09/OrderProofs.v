(* MV.C09.OrderProofs — a program that passes [order_safe] never lets a generation load anything but the state its
   predecessor ended with, under EVERY schedule; programs that announce first are refuted by schedules. *)
From MV Require Import Lib.ListX C09.OrderModel.

Arguments Nat.eqb : simpl nomatch.

(* ------------------------------------------------------------------ invariant *)

Definition quiet (b : list stmt) : bool := forallb (fun s => negb (is_persist s)) b.

(* a generation that has been succeeded: it will never touch the storage again *)
Definition retired (t : thread) : Prop := t_saving t = false /\ t_ndef t = 0 /\ quiet (t_body t) = true.

Definition tsafe (t : thread) : bool :=
  if t_saving t
  then negb (t_now t) && prog_safe true (t_now t) (t_ret t) (t_ndef t) (t_body t)
  else prog_safe (t_saved t) (t_now t) (t_ret t) (t_ndef t) (t_body t).

Definition cur_ok (t : thread) (st : orecord) : Prop :=
  tsafe t = true
  /\ (t_now t = true -> t_saved t = true /\ t_ndef t = 0)
  /\ (t_saved t = true -> rebuilt st = t_val t)
  /\ (t_val t = [] -> rebuilt st = []).

Record OInv (w : world) : Prop := {
  i_helpers : helpers w = [];
  i_olds : Forall retired (olds w);
  i_cur : cur_ok (cur w) (store w);
  i_log : launches_exact w;
  i_hist : t_val (cur w) = hist w }.

(* ------------------------------------------------------------------ the checker *)

Lemma end_ok_mono ret n : end_ok false ret n = true -> end_ok true ret n = true.
Proof. unfold end_ok. destruct ret; simpl; auto. Qed.

Lemma prog_safe_mono b : forall now ret n,
  prog_safe false now ret n b = true -> prog_safe true now ret n b = true.
Proof.
  induction b as [|s r IH]; intros now ret n H; cbn [prog_safe] in *.
  - apply end_ok_mono; exact H.
  - destruct s; try (apply IH; exact H); try exact H.
    + apply andb_true_iff in H as [H1 H2]. apply andb_true_iff; split; [exact H1 | apply IH; exact H2].
    + apply andb_true_iff in H as [H1 H2]. apply andb_true_iff; split; [apply end_ok_mono; exact H1 | apply IH; exact H2].
    + destruct (immediate a); [simpl in H; discriminate | apply IH; exact H].
Qed.

Lemma prog_safe_any_saved sd b : prog_safe false false false 0 b = true -> prog_safe sd false false 0 b = true.
Proof. destruct sd; [apply prog_safe_mono | auto]. Qed.

(* once an immediate announce has executed, the rest of a safe body contains no persist of any kind *)
Lemma now_quiet b : forall sd ret n, prog_safe sd true ret n b = true -> quiet b = true.
Proof.
  induction b as [|s r IH]; intros sd ret n H; [reflexivity|].
  cbn [prog_safe] in H. cbn [quiet forallb]. fold (quiet r).
  destruct s; cbn [is_persist negb andb] in *; try discriminate; try (eapply IH; exact H).
  - apply andb_true_iff in H as [_ H]. eapply IH; exact H.
  - destruct (immediate a).
    + apply andb_true_iff in H as [_ H]. eapply IH; exact H.
    + eapply IH; exact H.
Qed.

(* ------------------------------------------------------------------ steps of one goroutine *)

Lemma quiet_tail s r : quiet (s :: r) = true -> is_persist s = false /\ quiet r = true.
Proof. cbn [quiet forallb]. intros H. apply andb_true_iff in H as [H1 H2]. split; [destruct (is_persist s); auto; discriminate | exact H2]. Qed.

Lemma tstep_retired t e st t' st' hs :
  retired t -> tstep t e st = (t', st', hs) -> retired t' /\ st' = st /\ hs = [].
Proof.
  intros (Hs & Hn & Hq) H. unfold tstep in H. rewrite Hs in H.
  destruct (t_body t) as [|s r] eqn:Hb.
  - rewrite Hn in H. inversion H; subst. repeat split; auto. rewrite Hb. reflexivity.
  - apply quiet_tail in Hq as [Hp Hq].
    destruct s; cbn [is_persist] in Hp; try discriminate; inversion H; subst; unfold retired; cbn [set_t t_saving t_ndef t_body];
      repeat split; auto.
    destruct e; auto.
Qed.

Ltac bools :=
  repeat match goal with
         | H : _ && _ = true |- _ => apply andb_true_iff in H; destruct H
         | H : negb _ = true |- _ => apply negb_true_iff in H
         end.

Lemma rebuilt_commit v st : (v = [] -> rebuilt st = []) -> rebuilt (commit v st) = v.
Proof. destruct v; simpl; auto. Qed.

Ltac tnorm := cbn [set_t t_restart t_val t_body t_ndef t_saving t_saved t_now t_ret] in *.
(* goal: hs = [] /\ (tsafe /\ now-clause /\ store-clause /\ empty-clause) /\ val /\ restart: four goals *)
Ltac shape := split; [reflexivity|]; split; [|split; reflexivity]; split; [|split; [|split]].

Lemma tstep_cur t e st t' st' hs :
  cur_ok t st -> tstep t e st = (t', st', hs) ->
  hs = [] /\ cur_ok t' st' /\ t_val t' = t_val t /\ t_restart t' = t_restart t.
Proof.
  intros (Hsafe & Hnow & Hst & Hemp) H.
  destruct t as [rs v body nd sv sd nw rt]. unfold tstep in H. unfold tsafe in Hsafe. unfold cur_ok, tsafe. tnorm.
  destruct sv.
  - (* a Save in progress commits *)
    inversion H; subst; clear H. tnorm. apply andb_true_iff in Hsafe as [Hg Hb]. shape.
    + exact Hb.
    + intros ->. simpl in Hg. discriminate.
    + intros _. apply rebuilt_commit; exact Hemp.
    + intros ->. simpl. auto.
  - destruct body as [|s r].
    + (* the routine returns *)
      destruct nd as [|n]; inversion H; subst; clear H; tnorm.
      * shape; auto.
      * cbn [prog_safe] in *. unfold end_ok in *. shape; auto.
        -- destruct nw; [destruct (Hnow eq_refl) as [_ Hn]; discriminate|]. simpl.
           destruct rt; simpl; auto.
        -- intros ->. destruct (Hnow eq_refl) as [_ Hn]. discriminate.
    + destruct s; inversion H; subst; clear H; tnorm; cbn [prog_safe] in Hsafe; try discriminate.
      * (* SPersist: begin *)
        apply andb_true_iff in Hsafe as [Hg Hb]. shape; auto.
        rewrite Hg, Hb. reflexivity.
      * (* SDeferPersist *)
        apply andb_true_iff in Hsafe as [Hg Hb]. shape; auto.
        intros ->. simpl in Hg. discriminate.
      * (* SGuard *)
        apply andb_true_iff in Hsafe as [Hg Hb]. shape; auto.
        destruct e; [exact Hg | exact Hb].
      * (* SStatus *) shape; auto.
      * (* SHandler *) shape; auto.
      * (* SNewInstance *) shape; auto.
      * (* SAnnounce *)
        destruct (immediate a); cbn [negb]; rewrite ?orb_true_r, ?orb_false_r.
        -- apply andb_true_iff in Hsafe as [Hg Hb]. apply andb_true_iff in Hg as [Hg1 Hg2]. apply Nat.eqb_eq in Hg2.
           shape; auto.
        -- shape; auto.
      * (* SOther *) shape; auto.
Qed.

(* when the end is observable the committed record rebuilds the state of the generation, and its goroutine will not
   touch the storage again *)
Lemma obs_cur t st : cur_ok t st -> observable t = true -> rebuilt st = t_val t /\ retired t.
Proof.
  intros (Hsafe & Hnow & Hst & _) Hobs. unfold observable in Hobs.
  unfold tsafe in Hsafe. unfold retired.
  destruct (t_now t) eqn:Hn.
  - (* an immediate announce has executed *)
    destruct (Hnow eq_refl) as [Hsd Hnd].
    split; [apply Hst; exact Hsd|].
    destruct (t_saving t) eqn:Hs.
    + simpl in Hsafe. discriminate.
    + repeat split; auto. eapply now_quiet; exact Hsafe.
  - (* OnLaunch was posted and the routine has returned *)
    cbn [orb] in Hobs. apply andb_true_iff in Hobs as [Hr Hf].
    unfold finished in Hf. destruct (t_body t) eqn:Hb; [|discriminate].
    apply andb_true_iff in Hf as [Hnd Hs]. apply Nat.eqb_eq in Hnd. apply negb_true_iff in Hs.
    rewrite Hs, Hnd, Hr in Hsafe. cbn [prog_safe] in Hsafe. unfold end_ok in Hsafe. simpl in Hsafe.
    rewrite orb_false_r in Hsafe. split; [apply Hst; exact Hsafe | repeat split; auto].
Qed.

Lemma fresh_ok pt pr r st evs :
  order_safe pt = true -> order_safe pr = true -> cur_ok (ofresh r (prog_for pt pr r) (rebuilt st ++ evs)) st.
Proof.
  intros Ht Hr. unfold cur_ok, tsafe, ofresh; tnorm.
  repeat split; try discriminate.
  - destruct r; [exact Hr | exact Ht].
  - intros H. apply app_eq_nil in H as [H _]. exact H.
Qed.

Lemma Forall_upd {A} (P : A -> Prop) i v l : Forall P l -> P v -> Forall P (upd i v l).
Proof.
  revert i; induction l as [|h t IH]; intros [|i] Hl Hv; simpl; auto; inversion Hl; subst; constructor; auto.
Qed.

(* ------------------------------------------------------------------ preservation *)

Lemma inv_step pt pr w c : order_safe pt = true -> order_safe pr = true -> OInv w -> OInv (ostep pt pr w c).
Proof.
  intros Ht Hr [Hh Ho Hc Hl Hhi]. destruct c as [e|i e|i| |evs r]; cbn [ostep].
  - (* the current generation steps *)
    destruct (tstep (cur w) e (store w)) as [[t st] hs] eqn:E.
    destruct (tstep_cur _ _ _ _ _ _ Hc E) as (-> & Hc' & Hv & _).
    constructor; cbn [set_cur helpers olds cur store log hist]; auto.
    + rewrite Hh; reflexivity.
    + rewrite Hv; exact Hhi.
  - (* an earlier generation steps: it is retired *)
    destruct (nth_error (olds w) i) as [t0|] eqn:En; [|constructor; auto].
    destruct (tstep t0 e (store w)) as [[t st] hs] eqn:E.
    assert (Hr0 : retired t0) by (rewrite Forall_forall in Ho; apply Ho; eapply nth_error_In; exact En).
    destruct (tstep_retired _ _ _ _ _ _ Hr0 E) as (Hr' & -> & ->).
    constructor; cbn [helpers olds cur store log hist]; auto.
    + rewrite Hh; reflexivity.
    + apply Forall_upd; auto.
  - (* there are no helper goroutines *)
    rewrite Hh. destruct i; constructor; auto.
  - (* the routine is called again *)
    destruct (finished (cur w) && negb (t_now (cur w)) && negb (t_ret (cur w))) eqn:E; [|constructor; auto].
    apply andb_true_iff in E as [E Hb]. apply andb_true_iff in E as [Hf Ha].
    apply negb_true_iff in Ha. apply negb_true_iff in Hb.
    destruct Hc as (Hsafe & Hnow & Hst & Hemp).
    constructor; cbn [set_cur helpers olds cur store log hist set_t t_val]; auto.
    + rewrite Hh; reflexivity.
    + unfold cur_ok, tsafe; tnorm. repeat split; auto; try discriminate.
      apply prog_safe_any_saved. destruct (t_restart (cur w)); [exact Hr | exact Ht].
  - (* the observer launches the next generation *)
    destruct (observable (cur w)) eqn:E; [|constructor; auto].
    destruct (obs_cur _ _ Hc E) as [Hst Hret].
    constructor; cbn [helpers olds cur store log hist]; auto.
    + apply Forall_app; split; [exact Ho | constructor; [exact Hret | constructor]].
    + apply fresh_ok; auto.
    + unfold launches_exact in *. cbn [log]. apply Forall_app; split; [exact Hl | constructor; [exact Hst | constructor]].
    + cbn [ofresh t_val]. rewrite Hst, Hhi. reflexivity.
Qed.

Lemma inv_init pt pr evs0 r0 : order_safe pt = true -> order_safe pr = true -> OInv (oinit pt pr evs0 r0).
Proof.
  intros Ht Hr. constructor; cbn [oinit helpers olds cur store log hist ofresh t_val]; auto.
  - unfold cur_ok, tsafe, ofresh; tnorm. cbn [rebuilt]. repeat split; auto; try discriminate.
    destruct r0; [exact Hr | exact Ht].
  - constructor.
Qed.

Lemma inv_run pt pr : order_safe pt = true -> order_safe pr = true -> forall cs w, OInv w -> OInv (orun pt pr w cs).
Proof.
  intros Ht Hr. induction cs as [|c cs IH]; intros w Hw; [exact Hw|].
  cbn [orun fold_left]. apply IH. apply inv_step; auto.
Qed.

(* ------------------------------------------------------------------ the theorems *)

(* persist-then-announce (any pair of routines that pass the check), any number of generations, ended by terminations
   and restarts in any mix, every schedule of every goroutine and of the observer who re-creates as soon as he can:
   every launch rebuilt exactly the state the previous generation had when it ended, and the state of the newest
   generation is every event ever applied, in order. *)
Theorem order_sound : forall (pt pr : list stmt), order_safe pt = true -> order_safe pr = true ->
  forall (evs0 : list Z) (r0 : bool) (cs : list choice),
    let w := orun pt pr (oinit pt pr evs0 r0) cs in
    launches_exact w /\ t_val (cur w) = hist w.
Proof.
  intros pt pr Ht Hr evs0 r0 cs w.
  destruct (inv_run pt pr Ht Hr cs _ (inv_init pt pr evs0 r0 Ht Hr)) as [_ _ _ Hl Hh]. split; assumption.
Qed.

(* ... because at every moment all earlier generations are retired, there is no helper goroutine, and whenever the end
   of the newest generation is observable the committed record already rebuilds its state *)
Theorem order_sound_quiescent : forall (pt pr : list stmt), order_safe pt = true -> order_safe pr = true ->
  forall (evs0 : list Z) (r0 : bool) (cs : list choice),
    let w := orun pt pr (oinit pt pr evs0 r0) cs in
    helpers w = [] /\ Forall retired (olds w) /\ (observable (cur w) = true -> rebuilt (store w) = t_val (cur w)).
Proof.
  intros pt pr Ht Hr evs0 r0 cs w.
  destruct (inv_run pt pr Ht Hr cs _ (inv_init pt pr evs0 r0 Ht Hr)) as [Hh Ho Hc _ _].
  repeat split; auto. intros E. apply (obs_cur _ _ Hc E).
Qed.

(* the same for the facts extracted from a source tree (tie T3) *)
Theorem order_sound_facts : forall (ft fr : list fact), term_order_ok ft = true -> restart_order_ok fr = true ->
  forall (evs0 : list Z) (r0 : bool) (cs : list choice),
    let w := orun (prog_of ft) (prog_of fr) (oinit (prog_of ft) (prog_of fr) evs0 r0) cs in
    launches_exact w /\ t_val (cur w) = hist w.
Proof.
  intros ft fr Ht Hr. unfold term_order_ok in Ht. unfold restart_order_ok in Hr. bools.
  apply order_sound; assumption.
Qed.

(* ------------------------------------------------------------------ the last handlers are persisted *)

Lemma hexec_old rec : forall p k v saved, hexec rec p k v saved = hexec rec (old_part p) k v saved.
Proof.
  induction p as [|s r IH]; intros k v saved; [reflexivity|]. destruct s; cbn [hexec old_part]; try apply IH; reflexivity.
Qed.

Lemma old_part_no_new p : ~ In SNewInstance (old_part p).
Proof. induction p as [|s r IH]; cbn [old_part]; [tauto|]. destruct s; cbn [In]; try tauto; intros [H|H]; try discriminate; tauto. Qed.

(* a stretch without persist and without handler changes nothing *)
Lemma hexec_quiet rec : forall l k v saved, ~ In SNewInstance l -> existsb is_sync l = false -> existsb is_handler l = false ->
  hexec rec l k v saved = (v, saved).
Proof.
  induction l as [|s r IH]; intros k v saved Hn Hs Hh; [reflexivity|].
  cbn [existsb] in Hs, Hh. apply orb_false_iff in Hs. apply orb_false_iff in Hh. destruct Hs as [Hs1 Hs2], Hh as [Hh1 Hh2].
  assert (Hn' : ~ In SNewInstance r) by (intros X; apply Hn; right; exact X).
  destruct s; cbn [hexec]; try (apply IH; assumption); try discriminate. exfalso. apply Hn. left. reflexivity.
Qed.

Lemma hexec_recorded rec : forall l k v saved, ~ In SNewInstance l -> existsb is_sync l = true ->
  existsb is_handler (after_last_persist l) = false -> fst (hexec rec l k v saved) = snd (hexec rec l k v saved).
Proof.
  induction l as [|s r IH]; intros k v saved Hn Hs Hh; [discriminate|].
  assert (Hn' : ~ In SNewInstance r) by (intros X; apply Hn; right; exact X).
  cbn [after_last_persist] in Hh. destruct (existsb is_sync r) eqn:Er.
  - destruct s; cbn [hexec]; try (apply IH; [exact Hn'|reflexivity|exact Hh]). exfalso. apply Hn. left. reflexivity.
  - cbn [existsb] in Hs. rewrite Er, orb_false_r in Hs. rewrite Hs in Hh. destruct s; try discriminate.
    cbn [hexec]. rewrite (hexec_quiet rec r k v v Hn' Er Hh). reflexivity.
Qed.

(* for every routine that passes the check and has a synchronous persist while the old instance is installed: whatever its
   last handlers record, the journal handed to the last Save is the state the old instance ends with *)
Theorem handlers_recorded_sound rec p v saved :
  handlers_recorded p = true -> existsb is_sync (old_part p) = true ->
  fst (hexec rec p 0 v saved) = snd (hexec rec p 0 v saved).
Proof.
  unfold handlers_recorded. intros H Hs. apply negb_true_iff in H. rewrite hexec_old.
  apply hexec_recorded; [apply old_part_no_new|exact Hs|exact H].
Qed.

Lemma facts_handlers_recorded ft fr : term_order_ok ft = true -> restart_order_ok fr = true ->
  handlers_recorded (prog_of ft) = true /\ handlers_recorded (prog_of fr) = true.
Proof. intros Ht Hr. unfold term_order_ok in Ht. unfold restart_order_ok in Hr. bools. split; assumption. Qed.

Lemma launches_exactb_spec w : launches_exact w -> launches_exactb w = true.
Proof.
  unfold launches_exact, launches_exactb. intros H. apply forallb_forall. intros e He.
  rewrite Forall_forall in H. rewrite (H e He). apply list_eqb_eq; [apply Z.eqb_eq | reflexivity].
Qed.

Open Scope Z_scope.

(* announce-then-persist (the final persist deferred past the status change, hence past every announce), slow Save:
   the parent re-creates on the notice while the Save of the old generation has not even begun: nothing is loaded *)
Definition lost_schedule : list choice := repeat (CCur false) 8 ++ [CRecreate [4] false].

Lemma announce_then_persist_lost :
  let w := orun announce_then_persist src_restart (oinit announce_then_persist src_restart [1; 2; 3] false) lost_schedule in
  log w = [(None, [1; 2; 3])] /\ t_val (cur w) = [4] /\ hist w = [1; 2; 3; 4].
Proof. vm_compute. auto. Qed.

(* ... and with three generations the third one loads the record of the FIRST (stale): the second one's events are lost *)
Definition stale_schedule : list choice :=
  repeat (CCur false) 16 ++ [CRecreate [2] false] ++ repeat (CCur false) 8 ++ [CRecreate [3] false].

Lemma announce_then_persist_stale :
  let w := orun announce_then_persist src_restart (oinit announce_then_persist src_restart [1] false) stale_schedule in
  log w = [(Some [1], [1]); (Some [1], [1; 2])] /\ t_val (cur w) = [1; 3] /\ hist w = [1; 2; 3].
Proof. vm_compute. auto. Qed.

Theorem announce_then_persist_refuted :
  exists (evs0 : list Z) (cs : list choice),
    let w := orun announce_then_persist src_restart (oinit announce_then_persist src_restart evs0 false) cs in
    ~ launches_exact w /\ t_val (cur w) <> hist w.
Proof.
  exists [1; 2; 3], lost_schedule. split.
  - intros H. apply launches_exactb_spec in H. vm_compute in H. discriminate.
  - vm_compute. discriminate.
Qed.

(* the restart routine that POSTS OnLaunch is safe with its persist anywhere (plain or deferred) because the launch is
   processed by the actor's own mailbox after the routine has returned; it is NOT safe when the persist runs on another
   goroutine ... *)
Theorem restart_async_persist_refuted :
  exists (evs0 : list Z) (cs : list choice),
    let w := orun src_terminate restart_async_persist (oinit src_terminate restart_async_persist evs0 true) cs in
    ~ launches_exact w /\ t_val (cur w) <> hist w.
Proof.
  exists [1], (repeat (CCur false) 13 ++ [CRecreate [2] true]). split.
  - intros H. apply launches_exactb_spec in H. vm_compute in H. discriminate.
  - vm_compute. discriminate.
Qed.

(* ... and the restart routine that handles OnLaunch INLINE has the same ordering as the termination: launch-then-persist
   (the persist deferred to the return of the routine) is refuted *)
Theorem restart_inline_launch_then_persist_refuted :
  exists (evs0 : list Z) (cs : list choice),
    let w := orun src_terminate restart_inline_launch_then_persist
                  (oinit src_terminate restart_inline_launch_then_persist evs0 true) cs in
    ~ launches_exact w /\ t_val (cur w) <> hist w.
Proof.
  exists [1], (repeat (CCur false) 12 ++ [CRecreate [2] true]). split.
  - intros H. apply launches_exactb_spec in H. vm_compute in H. discriminate.
  - vm_compute. discriminate.
Qed.

Lemma src_programs_safe :
  order_safe src_terminate = true /\ order_safe src_restart = true /\ order_safe src_restart_inline = true.
Proof. vm_compute. auto. Qed.

Lemma seeded_programs_unsafe :
  order_safe announce_then_persist = false /\ order_safe restart_async_persist = false
  /\ order_safe restart_inline_launch_then_persist = false.
Proof. vm_compute. auto. Qed.
