(* MV.C15.BacklogModel — executable model of the two "channel of capacity 1 + backlog" containers
     toolkit/buffer/unbounded.go            (buffer.Unbounded[V],            V := Z)
     toolkit/channels/unbounded_backlog.go  (channels.UnboundedBacklog[V],   V := Z)
   (textually the same algorithm).  Layer C: sequential, statement by statement as the Go code is
   written; the mutex is not modelled (one operation at a time).
   The Go channel `c : chan V` of capacity 1 is the field [bslot] (its single buffer cell) plus the
   flag [bclosed] (close(c) is executed exactly when closed becomes true, so one flag serves both).
   Get() only returns the channel: the observable operation is the NON-BLOCKING receive
     select { case v, ok := <-c: ... default: }
   with the three outcomes value / empty / closed-and-drained.
   No proofs here: this file must keep evaluating even when a proof breaks.
   Every identifier carries a b/B prefix: Properties.v imports RingModel (op, out, run, ...) as well. *)
From MV Require Import Lib.ListX.

Record bstate := { bslot : option Z; bclosed : bool; bbacklog : list Z }.

(* NewUnbounded / NewUnboundedBacklog: &{c: make(chan V, 1)} *)
Definition binit : bstate := {| bslot := None; bclosed := false; bbacklog := [] |}.

Inductive bop := BPut (v : Z) | BLoad | BGet | BClose | BIsClosed.

Inductive bout :=
| BOUnit
| BOVal (v : Z)        (* receive delivered v *)
| BOEmpty              (* select took the default branch: nothing buffered, channel open *)
| BOClosed             (* receive returned ok = false: closed and drained *)
| BOBool (b : bool)
| BOBad.               (* never produced by the model: panics of the implementation *)

(* Put:  if closed {return}
         if len(backlog) == 0 { select { case c <- t: return; default: } }
         backlog = append(backlog, t) *)
Definition bput (s : bstate) (v : Z) : bstate :=
  if bclosed s then s
  else
    match bbacklog s, bslot s with
    | [], None => {| bslot := Some v; bclosed := bclosed s; bbacklog := [] |}
    | _, _ => {| bslot := bslot s; bclosed := bclosed s; bbacklog := bbacklog s ++ [v] |}
    end.

(* Load: if closed {return}
         if len(backlog) > 0 { select { case c <- backlog[0]: backlog = backlog[1:]; default: } } *)
Definition bload (s : bstate) : bstate :=
  if bclosed s then s
  else
    match bbacklog s, bslot s with
    | x :: t, None => {| bslot := Some x; bclosed := bclosed s; bbacklog := t |}
    | _, _ => s
    end.

(* non-blocking receive on Get(): a closed Go channel still delivers its buffered element *)
Definition bget (s : bstate) : bstate * bout :=
  match bslot s with
  | Some v => ({| bslot := None; bclosed := bclosed s; bbacklog := bbacklog s |}, BOVal v)
  | None => (s, if bclosed s then BOClosed else BOEmpty)
  end.

(* Close: if closed {return}; closed = true; close(c).
   The backlog stays in the record but is unreachable from now on (Put and Load return early). *)
Definition bclose (s : bstate) : bstate :=
  if bclosed s then s
  else {| bslot := bslot s; bclosed := true; bbacklog := bbacklog s |}.

Definition bstep (s : bstate) (o : bop) : bstate * bout :=
  match o with
  | BPut v => (bput s v, BOUnit)
  | BLoad => (bload s, BOUnit)
  | BGet => bget s
  | BClose => (bclose s, BOUnit)
  | BIsClosed => (s, BOBool (bclosed s))
  end.

Fixpoint brun (s : bstate) (ops : list bop) : bstate * list bout :=
  match ops with
  | [] => (s, [])
  | o :: t => let '(s1, x) := bstep s o in let '(s2, xs) := brun s1 t in (s2, x :: xs)
  end.

(* ---------- specification vocabulary ---------- *)

(* the values handed out by the receives of a run, in order *)
Fixpoint breceived (outs : list bout) : list Z :=
  match outs with
  | [] => []
  | BOVal v :: t => v :: breceived t
  | _ :: t => breceived t
  end.

(* the values of the accepted Puts = those issued before the first Close, in order *)
Fixpoint baccepted (ops : list bop) : list Z :=
  match ops with
  | [] => []
  | BPut v :: t => v :: baccepted t
  | BClose :: _ => []
  | _ :: t => baccepted t
  end.

(* what the container holds, oldest first: the channel cell, then the backlog.
   (After Close the backlog part can no longer be read: see bload.) *)
Definition bheld (s : bstate) : list Z :=
  match bslot s with Some v => v :: bbacklog s | None => bbacklog s end.

Fixpoint bhas_close (ops : list bop) : bool :=
  match ops with
  | [] => false
  | BClose :: _ => true
  | _ :: t => bhas_close t
  end.

(* The documented usage protocol ("Load must be called after every Get"), as a computable
   predicate on a history [ops] issued from state [s]: no Close, and every SUCCESSFUL receive is
   immediately followed by Load.  A receive that found nothing needs no Load. *)
Fixpoint bprotocol (s : bstate) (ops : list bop) : bool :=
  match ops with
  | [] => true
  | o :: t =>
      match o with
      | BClose => false
      | BGet =>
          match bslot s, t with
          | Some _, BLoad :: _ => bprotocol (fst (bstep s BGet)) t
          | Some _, _ => false
          | None, _ => bprotocol s t
          end
      | _ => bprotocol (fst (bstep s o)) t
      end
  end.

(* purely syntactic, stronger form: no Close and EVERY Get is immediately followed by Load *)
Fixpoint bstrict (ops : list bop) : bool :=
  match ops with
  | [] => true
  | BClose :: _ => false
  | BGet :: t => match t with BLoad :: _ => bstrict t | _ => false end
  | _ :: t => bstrict t
  end.

(* n consumer rounds  Get; Load *)
Fixpoint bdrain (n : nat) : list bop :=
  match n with
  | O => []
  | S k => BGet :: BLoad :: bdrain k
  end.

(* the outputs of draining exactly the values l *)
Fixpoint bdrain_outs (l : list Z) : list bout :=
  match l with
  | [] => []
  | v :: t => BOVal v :: BOUnit :: bdrain_outs t
  end.
