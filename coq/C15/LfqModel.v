(* MV.C15.LfqModel — layer-A machine transcribing toolkit/queues/lock_free.go (Michael–Scott
   lock-free queue, LFQueue). One [qstep] per statement that touches shared memory, i.e. per
   atomic.LoadPointer / atomic.CompareAndSwapPointer of Push and Pop, in program order:

     Push(value):  node := &lfNode{value}                               QPAlloc   (allocation = one step)
       for { tail := Load(&q.tail)                                      QPLdTail
             next := Load(&tail.next)                                   QPLdNext
             if tail == Load(&q.tail) {                                 QPChk
               if next == nil { if CAS(&tail.next, nil, node) {         QPCasNext   <- linearization point of Push
                                   CAS(&q.tail, tail, node); return } } QPCasTail
               else { CAS(&q.tail, tail, next) } } }                    QPSwing
     Pop():
       for { head := Load(&q.head)                                      QCLdHead
             tail := Load(&q.tail)                                      QCLdTail
             next := Load(&head.next)                                   QCLdNext
             if head == Load(&q.head) {                                 QCChk
               if head == tail { if next == nil { return nil }          -> QCRet None
                                 CAS(&q.tail, tail, next) }             QCSwing
               else { value := next.value                               (plain read of an immutable field, folded into QCChk;
                                                                         next == nil here would be a nil dereference: QCCrash)
                      if CAS(&q.head, head, next) { return value } } } }  QCCasHead  <- linearization point of Pop

   Heap: nodes are numbered in allocation order (id = index in [qheap]); node 0 is the sentinel of
   NewLFQueue. MODELLING ASSUMPTION (no ABA): a node id is never reused — in Go the garbage collector
   frees a node only when no goroutine holds a pointer to it, so a CAS can never succeed on a recycled
   address; allocation here always yields a fresh id.
   sync/atomic operations are sequentially consistent single steps.

   Threads: QEnv spawns, at will, producers (a goroutine pushing a list of values one after the other)
   and consumers (a goroutine calling Pop k+1 times): unbounded numbers of both.
   Ghost fields (never read by the algorithm): qchain = node ids in the order they were linked
   (sentinel first), qhidx/qtidx = positions of head/tail in it, qpushed/qpopped = values in the order
   of the successful CASes on tail.next / on head.  No proofs in this file. *)
From MV Require Import Lib.ListX Lib.Sched.

Record qnode := { qval : nat; qnxt : option nat }.

Record qsh := {
  qheap : list qnode; qhead : nat; qtail : nat;
  (* ghost *)
  qchain : list nat; qhidx : nat; qtidx : nat; qpushed : list nat; qpopped : list nat
}.

Definition nxt_of (h : list qnode) (i : nat) : option nat :=
  match nth_error h i with Some d => qnxt d | None => None end.
Definition val_of (h : list qnode) (i : nat) : nat :=
  match nth_error h i with Some d => qval d | None => O end.
Definition set_nxt (h : list qnode) (i x : nat) : list qnode :=
  match nth_error h i with
  | Some d => upd i {| qval := qval d; qnxt := Some x |} h
  | None => h
  end.

(* the abstract queue: the values of the nodes reachable from head.next *)
Fixpoint follow (h : list qnode) (fuel i : nat) : list nat :=
  match fuel with
  | O => []
  | S f => match nxt_of h i with
           | Some j => val_of h j :: follow h f j
           | None => []
           end
  end.
Definition absq (s : qsh) : list nat := follow (qheap s) (length (qheap s)) (qhead s).
Definition is_nil {A} (l : list A) : bool := match l with [] => true | _ => false end.

Inductive qpc :=
| QEnv
| QPAlloc (v : nat) (rest : list nat)
| QPLdTail (n v : nat) (rest : list nat)
| QPLdNext (n v t : nat) (rest : list nat)
| QPChk (n v t : nat) (nx : option nat) (rest : list nat)
| QPCasNext (n v t : nat) (rest : list nat)
| QPCasTail (n t : nat) (rest : list nat)
| QPSwing (n v t x : nat) (rest : list nat)
| QCLdHead (k : nat)                                   (* k more Pops after this one *)
| QCLdTail (h : nat) (k : nat)
| QCLdNext (h t : nat) (k : nat)
| QCChk (h t : nat) (nx : option nat) (we : bool) (k : nat)
          (* we: ghost — "the abstract queue was empty when head.next was loaded" *)
| QCSwing (t x : nat) (k : nat)
| QCCasHead (h x v : nat) (k : nat)
| QCRet (r : option nat) (we : bool) (k : nat)         (* Pop returns r *)
| QCCrash.                                             (* nil dereference of next.value *)

Inductive qchoice := QCNone | QCPush (vs : list nat) | QCPop (k : nat).

Inductive qevent :=
| QEvSpawn (c : qchoice)
| QEvAlloc (n v : nat)
| QEvLdHead (r : nat)
| QEvLdTail (r : nat)
| QEvLdNext (n : nat) (r : option nat)
| QEvCasNext (n new : nat) (ok : bool)                 (* CAS(&n.next, nil, new) *)
| QEvCasTail (old new : nat) (ok : bool)
| QEvCasHead (old new : nat) (ok : bool)
| QEvRet (r : option nat)
| QEvExit                                              (* pseudo-event of the replay log: the goroutine returned *)
| QEvOther (n : nat).                                  (* an operation the machine does not have; never produced by [qstep] *)

Definition set_heap (h : list qnode) (s : qsh) : qsh :=
  {| qheap := h; qhead := qhead s; qtail := qtail s; qchain := qchain s; qhidx := qhidx s; qtidx := qtidx s;
     qpushed := qpushed s; qpopped := qpopped s |}.
(* successful CAS(&t.next, nil, n) by a producer pushing v *)
Definition link (t n v : nat) (s : qsh) : qsh :=
  {| qheap := set_nxt (qheap s) t n; qhead := qhead s; qtail := qtail s; qchain := qchain s ++ [n];
     qhidx := qhidx s; qtidx := qtidx s; qpushed := qpushed s ++ [v]; qpopped := qpopped s |}.
(* successful CAS(&q.tail, _, x) *)
Definition set_tail (x : nat) (s : qsh) : qsh :=
  {| qheap := qheap s; qhead := qhead s; qtail := x; qchain := qchain s; qhidx := qhidx s; qtidx := S (qtidx s);
     qpushed := qpushed s; qpopped := qpopped s |}.
(* successful CAS(&q.head, _, x) by a consumer returning v *)
Definition set_head (x v : nat) (s : qsh) : qsh :=
  {| qheap := qheap s; qhead := x; qtail := qtail s; qchain := qchain s; qhidx := S (qhidx s); qtidx := qtidx s;
     qpushed := qpushed s; qpopped := qpopped s ++ [v] |}.

Definition pnext (rest : list nat) : option qpc :=
  match rest with [] => None | v :: r => Some (QPAlloc v r) end.

Definition QR := (qsh * option qpc * list qpc * qevent)%type.

Definition qstep (s : qsh) (l : qpc) (c : qchoice) : option QR :=
  match l with
  | QEnv =>
      match c with
      | QCPush (v :: vs) => Some (s, Some QEnv, [QPAlloc v vs], QEvSpawn c)
      | QCPop k => Some (s, Some QEnv, [QCLdHead k], QEvSpawn c)
      | _ => None
      end
  | QPAlloc v rest =>
      let n := length (qheap s) in
      Some (set_heap (qheap s ++ [{| qval := v; qnxt := None |}]) s, Some (QPLdTail n v rest), [], QEvAlloc n v)
  | QPLdTail n v rest => Some (s, Some (QPLdNext n v (qtail s) rest), [], QEvLdTail (qtail s))
  | QPLdNext n v t rest =>
      Some (s, Some (QPChk n v t (nxt_of (qheap s) t) rest), [], QEvLdNext t (nxt_of (qheap s) t))
  | QPChk n v t nx rest =>
      if Nat.eqb t (qtail s) then
        match nx with
        | None => Some (s, Some (QPCasNext n v t rest), [], QEvLdTail (qtail s))
        | Some x => Some (s, Some (QPSwing n v t x rest), [], QEvLdTail (qtail s))
        end
      else Some (s, Some (QPLdTail n v rest), [], QEvLdTail (qtail s))
  | QPCasNext n v t rest =>
      match nxt_of (qheap s) t with
      | None => Some (link t n v s, Some (QPCasTail n t rest), [], QEvCasNext t n true)
      | Some _ => Some (s, Some (QPLdTail n v rest), [], QEvCasNext t n false)
      end
  | QPCasTail n t rest =>
      if Nat.eqb (qtail s) t then Some (set_tail n s, pnext rest, [], QEvCasTail t n true)
      else Some (s, pnext rest, [], QEvCasTail t n false)
  | QPSwing n v t x rest =>
      if Nat.eqb (qtail s) t then Some (set_tail x s, Some (QPLdTail n v rest), [], QEvCasTail t x true)
      else Some (s, Some (QPLdTail n v rest), [], QEvCasTail t x false)
  | QCLdHead k => Some (s, Some (QCLdTail (qhead s) k), [], QEvLdHead (qhead s))
  | QCLdTail h k => Some (s, Some (QCLdNext h (qtail s) k), [], QEvLdTail (qtail s))
  | QCLdNext h t k =>
      Some (s, Some (QCChk h t (nxt_of (qheap s) h) (is_nil (absq s)) k), [], QEvLdNext h (nxt_of (qheap s) h))
  | QCChk h t nx we k =>
      if Nat.eqb h (qhead s) then
        if Nat.eqb h t then
          match nx with
          | None => Some (s, Some (QCRet None we k), [], QEvLdHead (qhead s))
          | Some x => Some (s, Some (QCSwing t x k), [], QEvLdHead (qhead s))
          end
        else
          match nx with
          | Some x => Some (s, Some (QCCasHead h x (val_of (qheap s) x) k), [], QEvLdHead (qhead s))
          | None => Some (s, Some QCCrash, [], QEvLdHead (qhead s))
          end
      else Some (s, Some (QCLdHead k), [], QEvLdHead (qhead s))
  | QCSwing t x k =>
      if Nat.eqb (qtail s) t then Some (set_tail x s, Some (QCLdHead k), [], QEvCasTail t x true)
      else Some (s, Some (QCLdHead k), [], QEvCasTail t x false)
  | QCCasHead h x v k =>
      if Nat.eqb (qhead s) h then Some (set_head x v s, Some (QCRet (Some v) false k), [], QEvCasHead h x true)
      else Some (s, Some (QCLdHead k), [], QEvCasHead h x false)
  | QCRet r we k =>
      Some (s, match k with O => None | S k' => Some (QCLdHead k') end, [], QEvRet r)
  | QCCrash => None
  end.

Definition Lfq : machine :=
  {| shared := qsh; local := qpc; Sched.choice := qchoice; ev := qevent; tstep := qstep |}.

Definition qinit_sh : qsh :=
  {| qheap := [{| qval := O; qnxt := None |}]; qhead := O; qtail := O;
     qchain := [O]; qhidx := O; qtidx := O; qpushed := []; qpopped := [] |}.
Definition qinit : state Lfq := (qinit_sh, [Some QEnv]).
