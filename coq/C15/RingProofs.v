(* MV.C15.RingProofs — the ring buffer refines a FIFO list, for every initial capacity and every
   operation sequence (induction over the operation list with a representation invariant). *)
From MV Require Import Lib.ListX C15.RingModel.
From Coq Require Import ZifyBool ZifyNat.
Ltac Zify.zify_post_hook ::= Z.div_mod_to_equations.
Open Scope nat_scope.
Arguments Nat.div : simpl never.
Arguments Nat.modulo : simpl never.

Definition Inv (b : ring) : Prop :=
  length (buf b) = size b /\ rd b < size b /\ wr b < size b /\
  2 <= initSize b /\ initSize b <= size b.

Lemma skipn_skipn' {A} (l : list A) a c : skipn a (skipn c l) = skipn (c + a) l.
Proof.
  revert c; induction l as [|h t IH]; intros c.
  - now rewrite !skipn_nil.
  - destruct c as [|c]; simpl; auto.
Qed.

Lemma skipn_firstn' {A} (l : list A) a c : skipn a (firstn c l) = firstn (c - a) (skipn a l).
Proof.
  revert a c; induction l as [|h t IH]; intros a c.
  - now rewrite firstn_nil, !skipn_nil, firstn_nil.
  - destruct a as [|a], c as [|c]; simpl; auto.
Qed.

Lemma firstn_firstn' {A} (l : list A) a c : a <= c -> firstn a (firstn c l) = firstn a l.
Proof. intros H. rewrite firstn_firstn. f_equal. lia. Qed.

Arguments Nat.sub : simpl never.

Ltac rsimpl := cbn [buf size rd wr initSize fst snd set_rd].

Lemma new_ring_inv n : Inv (new_ring n).
Proof.
  unfold new_ring, Inv; destruct (Z.ltb_spec n 2); simpl; rewrite ?repeat_length; lia.
Qed.

Lemma new_ring_contents n : contents (new_ring n) = [].
Proof. unfold new_ring, contents; destruct (Z.ltb_spec n 2); simpl; reflexivity. Qed.

Lemma contents_length b : Inv b ->
  length (contents b) = if rd b <=? wr b then wr b - rd b else size b - rd b + wr b.
Proof.
  intros (Hl & Hr & Hw & _). unfold contents.
  destruct (Nat.leb_spec (rd b) (wr b)).
  - rewrite firstn_length, skipn_length. lia.
  - rewrite app_length, firstn_length, skipn_length. lia.
Qed.

Lemma contents_nil_iff b : Inv b -> (contents b = [] <-> rd b = wr b).
Proof.
  intros HI. pose proof (contents_length b HI) as HL. destruct HI as (Hl & Hr & Hw & _).
  split; intros H.
  - rewrite H in HL. simpl in HL. destruct (Nat.leb_spec (rd b) (wr b)); lia.
  - apply length_zero_iff_nil. rewrite HL. destruct (Nat.leb_spec (rd b) (wr b)); lia.
Qed.

Lemma len_spec b : Inv b -> len b = length (contents b).
Proof.
  intros HI. rewrite contents_length by assumption. unfold len.
  destruct HI as (Hl & Hr & Hw & _).
  destruct (Nat.eqb_spec (rd b) (wr b)), (Nat.ltb_spec (rd b) (wr b)), (Nat.leb_spec (rd b) (wr b)); lia.
Qed.

Lemma grow_spec b : Inv b -> rd b = wr b ->
  Inv (grow b) /\ contents (grow b) = skipn (rd b) (buf b) ++ firstn (rd b) (buf b).
Proof.
  intros (Hl & Hr & Hw & Hi & His) Heq. unfold grow, Inv, contents; simpl.
  set (size' := if size b <? 1024 then size b * 2 else size b + size b / 4).
  assert (Hs : size b < size').
  { unfold size'. destruct (Nat.ltb_spec (size b) 1024); [lia|].
    assert (1 <= size b / 4) by (apply Nat.div_le_lower_bound; lia). lia. }
  split.
  - rewrite !app_length, skipn_length, firstn_length, repeat_length. lia.
  - rewrite Nat.sub_0_r. rewrite firstn_app.
    rewrite app_length, skipn_length, firstn_length.
    replace (size b - (length (buf b) - rd b + Nat.min (rd b) (length (buf b)))) with 0 by lia.
    rewrite firstn_O, app_nil_r. apply firstn_all2.
    rewrite app_length, skipn_length, firstn_length. lia.
Qed.

Lemma write_spec b v : Inv b -> Inv (write b v) /\ contents (write b v) = contents b ++ [v].
Proof.
  intros HI. pose proof HI as (Hl & Hr & Hw & Hi & His). unfold write.
  set (b2 := fun w2 => {| buf := upd (wr b) v (buf b); initSize := initSize b; size := size b;
                          rd := rd b; wr := w2 |}).
  destruct (Nat.eqb_spec (S (wr b)) (size b)) as [Hws|Hws].
  - (* the write cursor wraps to 0 *)
    destruct (Nat.eqb_spec 0 (rd b)) as [Hr0|Hr0].
    + (* full: grow *)
      assert (HI2 : Inv (b2 0)) by (unfold Inv, b2; simpl; rewrite upd_length; lia).
      destruct (grow_spec (b2 0) HI2) as [HG1 HG2]; [simpl; lia|].
      split; [exact HG1|]. rewrite HG2. simpl. rewrite <- Hr0. simpl. rewrite app_nil_r.
      unfold contents. rewrite <- Hr0. simpl. rewrite Nat.sub_0_r.
      replace (wr b) with (length (buf b) - 1) by lia. apply upd_last. lia.
    + split; [unfold Inv; unfold b2; rsimpl; rewrite upd_length; lia|].
      unfold contents; unfold b2; rsimpl.
      destruct (Nat.leb_spec (rd b) 0); [lia|].
      destruct (Nat.leb_spec (rd b) (wr b)); [|lia].
      rewrite ?firstn_O, app_nil_r. rewrite skipn_upd_le by lia.
      replace (wr b - rd b) with (length (skipn (rd b) (buf b)) - 1) by (rewrite skipn_length; lia).
      apply upd_last. rewrite skipn_length. lia.
  - destruct (Nat.eqb_spec (S (wr b)) (rd b)) as [Hfull|Hnf].
    + (* full: grow *)
      assert (HI2 : Inv (b2 (S (wr b)))) by (unfold Inv, b2; simpl; rewrite upd_length; lia).
      destruct (grow_spec (b2 (S (wr b))) HI2) as [HG1 HG2]; [simpl; lia|].
      split; [exact HG1|]. rewrite HG2. simpl.
      unfold contents. destruct (Nat.leb_spec (rd b) (wr b)); [lia|].
      rewrite skipn_upd_gt by lia. rewrite <- Hfull. rewrite firstn_S_upd by lia.
      now rewrite app_assoc.
    + split; [unfold Inv; unfold b2; rsimpl; rewrite upd_length; lia|].
      unfold contents; unfold b2; rsimpl.
      destruct (Nat.leb_spec (rd b) (wr b)).
      * destruct (Nat.leb_spec (rd b) (S (wr b))); [|lia].
        rewrite skipn_upd_le by lia.
        replace (S (wr b) - rd b) with (S (wr b - rd b)) by lia.
        apply firstn_S_upd. rewrite skipn_length. lia.
      * destruct (Nat.leb_spec (rd b) (S (wr b))); [lia|].
        rewrite skipn_upd_gt by lia. rewrite firstn_S_upd by lia.
        now rewrite app_assoc.
Qed.

Lemma read_spec b : Inv b ->
  match contents b with
  | [] => read b = (b, OVal None)
  | x :: t => exists b', read b = (b', OVal (Some x)) /\ Inv b' /\ contents b' = t
  end.
Proof.
  intros HI. pose proof (contents_nil_iff b HI) as Hnil.
  pose proof HI as (Hl & Hr & Hw & Hi & His). unfold read.
  destruct (Nat.eqb_spec (rd b) (wr b)) as [Heq|Hne].
  - apply Hnil in Heq. now rewrite Heq.
  - destruct (contents b) as [|x t] eqn:Hc; [exfalso; apply Hne, Hnil; reflexivity|].
    eexists; split; [|split].
    + f_equal. f_equal. f_equal.
      unfold contents in Hc. destruct (Nat.leb_spec (rd b) (wr b)).
      * rewrite (skipn_nth_cons _ _ 0%Z) in Hc by lia.
        replace (wr b - rd b) with (S (wr b - rd b - 1)) in Hc by lia.
        cbn [firstn app] in Hc. congruence.
      * rewrite (skipn_nth_cons _ _ 0%Z) in Hc by lia. cbn [firstn app] in Hc. congruence.
    + unfold Inv; rsimpl. destruct (Nat.eqb_spec (S (rd b)) (size b)); lia.
    + unfold contents in *; rsimpl.
      destruct (Nat.leb_spec (rd b) (wr b)).
      * destruct (Nat.eqb_spec (S (rd b)) (size b)); [lia|].
        destruct (Nat.leb_spec (S (rd b)) (wr b)); [|lia].
        rewrite (skipn_nth_cons _ _ 0%Z) in Hc by lia.
        replace (wr b - rd b) with (S (wr b - S (rd b))) in Hc by lia.
        cbn [firstn app] in Hc. congruence.
      * rewrite (skipn_nth_cons _ _ 0%Z) in Hc by lia. cbn [firstn app] in Hc.
        destruct (Nat.eqb_spec (S (rd b)) (size b)) as [Hs|Hs].
        -- simpl. rewrite Nat.sub_0_r.
           rewrite skipn_all2 in Hc by lia. cbn [firstn app] in Hc. congruence.
        -- destruct (Nat.leb_spec (S (rd b)) (wr b)); [lia|]. congruence.
Qed.

Lemma peek_spec b : Inv b -> peek b = OVal (hd_error (contents b)).
Proof.
  intros HI. pose proof (read_spec b HI) as H. unfold peek, read in *.
  destruct (Nat.eqb_spec (rd b) (wr b)).
  - apply (contents_nil_iff b HI) in e. now rewrite e.
  - destruct (contents b) as [|x t]; [discriminate|].
    destruct H as (b' & H & _). simpl. congruence.
Qed.

Lemma read_all_spec b : Inv b ->
  exists b', read_all b = (b', OList (contents b)) /\ Inv b' /\ contents b' = [].
Proof.
  intros HI. pose proof (contents_nil_iff b HI) as Hnil.
  pose proof HI as (Hl & Hr & Hw & Hi & His). unfold read_all.
  destruct (Nat.eqb_spec (rd b) (wr b)) as [Heq|Hne].
  - exists b. apply Hnil in Heq. rewrite Heq. auto.
  - eexists; split; [|split].
    + f_equal. f_equal. unfold contents.
      destruct (Nat.ltb_spec (rd b) (wr b)), (Nat.leb_spec (rd b) (wr b)); try lia; reflexivity.
    + unfold Inv; rsimpl; lia.
    + reflexivity.
Qed.

Lemma reset_spec b : Inv b -> Inv (reset b) /\ contents (reset b) = [].
Proof.
  intros (Hl & Hr & Hw & Hi & His). split; [|reflexivity].
  unfold Inv, reset; rsimpl. rewrite firstn_length. lia.
Qed.

Lemma read_multi_spec b n : Inv b -> (0 < n)%Z -> contents b <> [] ->
  exists b', read_multi b n = (b', OMulti false (firstn (Z.to_nat n) (contents b))) /\
             Inv b' /\ contents b' = skipn (Z.to_nat n) (contents b).
Proof.
  intros HI Hn Hne. pose proof (contents_nil_iff b HI) as Hnil.
  pose proof HI as (Hl & Hr & Hw & Hi & His). unfold read_multi.
  destruct (Z.leb_spec n 0); [lia|].
  destruct (Nat.eqb_spec (rd b) (wr b)) as [Heq|Hneq]; [exfalso; apply Hne, Hnil, Heq|].
  set (k := Z.to_nat n). assert (Hk : 0 < k) by (unfold k; lia).
  destruct (Nat.ltb_spec (rd b) (wr b)) as [Hlt|Hge].
  - (* contiguous *)
    set (n' := Nat.min k (wr b - rd b)).
    assert (Hc : contents b = firstn (wr b - rd b) (skipn (rd b) (buf b))).
    { unfold contents. destruct (Nat.leb_spec (rd b) (wr b)); [reflexivity|lia]. }
    destruct (Nat.eqb_spec (rd b + n') (size b)); [lia|].
    eexists; split; [|split].
    + f_equal. f_equal. rewrite Hc. rewrite firstn_firstn. reflexivity.
    + unfold Inv, set_rd; rsimpl. lia.
    + unfold set_rd, contents at 1; rsimpl. rewrite Hc.
      destruct (Nat.leb_spec (rd b + n') (wr b)); [|lia].
      rewrite skipn_firstn', skipn_skipn'.
      destruct (Nat.le_ge_cases k (wr b - rd b)).
      * replace n' with k by lia. f_equal; lia.
      * replace n' with (wr b - rd b) by lia.
        replace (wr b - (rd b + (wr b - rd b))) with 0 by lia.
        replace (wr b - rd b - k) with 0 by lia. reflexivity.
  - (* wrapped *)
    assert (Hlt : wr b < rd b) by lia.
    set (L1 := skipn (rd b) (buf b)). set (L2 := firstn (wr b) (buf b)).
    assert (HL1 : length L1 = size b - rd b) by (unfold L1; rewrite skipn_length; lia).
    assert (HL2 : length L2 = wr b) by (unfold L2; rewrite firstn_length; lia).
    assert (Hc : contents b = L1 ++ L2).
    { unfold contents. destruct (Nat.leb_spec (rd b) (wr b)); [lia|reflexivity]. }
    rewrite Hl.
    set (n' := Nat.min k (size b - rd b + wr b)).
    assert (Hn' : 0 < n' <= size b - rd b + wr b) by lia.
    assert (Hfk : firstn k (L1 ++ L2) = firstn n' (L1 ++ L2)).
    { unfold n'. rewrite <- firstn_firstn. symmetry. rewrite firstn_all2 with (n := size b - rd b + wr b);
        [reflexivity | rewrite app_length; lia]. }
    assert (Hsk : skipn k (L1 ++ L2) = skipn n' (L1 ++ L2)).
    { destruct (Nat.le_ge_cases k (size b - rd b + wr b)); [replace n' with k by lia; reflexivity|].
      replace n' with (size b - rd b + wr b) by lia.
      rewrite !skipn_all2; auto; rewrite app_length; lia. }
    assert (Hmod : (rd b + n') mod size b <> size b).
    { pose proof (Nat.mod_upper_bound (rd b + n') (size b)). lia. }
    destruct (Nat.eqb_spec ((rd b + n') mod size b) (size b)); [contradiction|].
    eexists; split; [|split].
    + f_equal. f_equal. rewrite Hc, Hfk. rewrite firstn_app. f_equal.
      fold L1. rewrite firstn_length, HL1.
      destruct (Nat.ltb_spec (Nat.min n' (size b - rd b)) n').
      * unfold L2. rewrite firstn_firstn. f_equal. lia.
      * replace (n' - (size b - rd b)) with 0 by lia. reflexivity.
    + unfold Inv, set_rd; rsimpl. pose proof (Nat.mod_upper_bound (rd b + n') (size b)). lia.
    + rewrite Hc, Hsk. unfold set_rd, contents at 1; rsimpl.
      destruct (Nat.lt_ge_cases (rd b + n') (size b)) as [Hs|Hs].
      * rewrite Nat.mod_small by lia.
        destruct (Nat.leb_spec (rd b + n') (wr b)); [lia|].
        rewrite skipn_app. fold L2. unfold L1. rewrite skipn_skipn'. f_equal.
        fold L1. rewrite HL1. replace (n' - (size b - rd b)) with 0 by lia. reflexivity.
      * assert (Hm : (rd b + n') mod size b = rd b + n' - size b).
        { symmetry. apply Nat.mod_unique with (q := 1); lia. }
        rewrite Hm.
        destruct (Nat.leb_spec (rd b + n' - size b) (wr b)); [|lia].
        rewrite skipn_app, HL1. rewrite (skipn_all2 L1) by lia. cbn [app].
        unfold L2. rewrite skipn_firstn'.
        replace (n' - (size b - rd b)) with (rd b + n' - size b) by lia. reflexivity.
Qed.

(* one step of the model against one step of the FIFO specification *)
Lemma step_refines b o : Inv b ->
  let '(b', m) := step b o in
  let '(q', s) := spec_step (contents b) o in
  Inv b' /\ contents b' = q' /\ out_rel (contents b) o m s.
Proof.
  intros HI. destruct o; simpl.
  - destruct (write_spec b v HI). auto.
  - pose proof (read_spec b HI) as H. destruct (contents b) as [|x t] eqn:Hc.
    + rewrite H. rewrite Hc. auto.
    + destruct H as (b' & -> & H1 & H2). auto.
  - destruct (Z.leb_spec n 0) as [Hn|Hn].
    + unfold read_multi. destruct (Z.leb_spec n 0); [|lia]. auto.
    + destruct (contents b) as [|x t] eqn:Hc.
      * unfold read_multi. destruct (Z.leb_spec n 0); [lia|].
        apply (contents_nil_iff b HI) in Hc. rewrite <- Nat.eqb_eq in Hc. rewrite Hc.
        rewrite Nat.eqb_eq in Hc. apply (contents_nil_iff b HI) in Hc. auto.
      * destruct (read_multi_spec b n HI) as (b' & -> & H1 & H2); [lia|congruence|].
        rewrite Hc in *. auto.
  - destruct (read_all_spec b HI) as (b' & -> & H1 & H2). auto.
  - rewrite peek_spec by assumption. auto.
  - split; [assumption|split;[reflexivity|]]. f_equal.
    pose proof (contents_nil_iff b HI) as Hnil.
    destruct (Nat.eqb_spec (rd b) (wr b)) as [e|e].
    + apply Hnil in e. now rewrite e.
    + destruct (contents b); [exfalso; apply e, Hnil; reflexivity|reflexivity].
  - split; [assumption|split;[reflexivity|]]. exists (size b). split; [reflexivity|].
    rewrite contents_length by assumption. destruct HI as (Hl & Hr & Hw & _).
    destruct (Nat.leb_spec (rd b) (wr b)); lia.
  - rewrite len_spec by assumption. auto.
  - destruct (reset_spec b HI). auto.
Qed.

(* outputs of whole runs are related pointwise *)
Inductive outs_rel : list Z -> list op -> list out -> list out -> Prop :=
| or_nil q : outs_rel q [] [] []
| or_cons q o ops m ms s ss :
    out_rel q o m s -> outs_rel (fst (spec_step q o)) ops ms ss ->
    outs_rel q (o :: ops) (m :: ms) (s :: ss).

Lemma run_refines ops : forall b, Inv b ->
  Inv (fst (run b ops)) /\
  contents (fst (run b ops)) = fst (spec_run (contents b) ops) /\
  outs_rel (contents b) ops (snd (run b ops)) (snd (spec_run (contents b) ops)).
Proof.
  induction ops as [|o ops IH]; intros b HI; simpl.
  - split; [assumption|split; [reflexivity|constructor]].
  - pose proof (step_refines b o HI) as Hs.
    destruct (step b o) as [b1 m] eqn:E1.
    destruct (spec_step (contents b) o) as [q1 s] eqn:E2.
    destruct Hs as (HI1 & Hc1 & Hr1).
    specialize (IH b1 HI1). rewrite Hc1 in IH.
    destruct (run b1 ops) as [b2 ms] eqn:E3.
    destruct (spec_run q1 ops) as [q2 ss] eqn:E4. simpl in *.
    destruct IH as (IH1 & IH2 & IH3).
    split; [assumption|split; [assumption|]]. constructor; [assumption|]. rewrite E2. simpl. assumption.
Qed.

Theorem ring_refines_fifo (n : Z) (ops : list op) :
  outs_rel [] ops (snd (run (new_ring n) ops)) (snd (spec_run [] ops)) /\
  contents (fst (run (new_ring n) ops)) = fst (spec_run [] ops).
Proof.
  pose proof (run_refines ops (new_ring n) (new_ring_inv n)) as (H1 & H2 & H3).
  rewrite new_ring_contents in *. auto.
Qed.
