(* MV.C15.RuPumpModel — layer-A machine (over MV.Lib.Sched) of toolkit/buffer/ring_unbounded.go:
   RingUnbounded = Ring + sync.Mutex rrm + sync.Cond + sync.RWMutex closedMutex + pump goroutine
   [process] + output channel rc + closedSignal. One pc per statement that touches shared state.

   The machine takes a boolean [rep]:
     rep = true   the REPAIRED code (fixes/C15-ringunbounded-close.patch: after cond.Wait() the pump
                  re-reads the ring, [vs = b.ring.ReadAll()]) — all positive theorems are about this one;
     rep = false  the code AS IT IS in /repo (after Wait the pump goes on with its stale, empty [vs]) —
                  used only by the refutation theorem C15_rupump_asis_refuted.

   Abstractions (stated, not hidden):
   * the Ring is its FIFO contents [ring : list nat] (C15_ring_refines_fifo); ReadAll takes everything;
   * sync.Mutex = a boolean; Lock is DISABLED (tstep = None) while it is held;
   * sync.RWMutex = reader count + writer flag; RLock disabled while a writer holds it, Lock disabled while
     readers > 0 or a writer holds it. Go's writer preference (a pending Lock blocks new RLocks) is NOT
     modelled: the machine has more interleavings than Go, so safety theorems carry over;
   * cond.Wait = step "release rrm + park" (Go takes the wait ticket before unlocking, so a Signal issued
     after the unlock is never lost) and a later step "reacquire rrm", enabled only when not parked and
     rrm is free. Signal = unpark if parked, nothing otherwise (no memory). The pump is the only waiter;
   * the channel rc is a list with capacity max 1 cap: an unbuffered channel (bufferSize 0) is treated as
     capacity 1 (a rendezvous hands the element over at the moment the consumer is ready; for what is
     proved here — which elements are where — the difference is only where the element sits meanwhile);
     send is disabled while the channel is full, receive while it is empty and not closed;
   * threads: [Env] spawns Write(v) callers and Close() callers at will (any number, any values);
     one pump thread; one consumer thread looping over receive until the channel is closed and drained;
   * ghost fields [accepted] (appended at the writer's ring.Write step) and [received] (appended at the
     consumer's receive) are never read by the algorithm.
   No proofs in this file. *)
From MV Require Import Lib.ListX Lib.Sched.
Local Open Scope Z_scope.

Inductive pc :=
| Env
(* Write(v): closedMutex.RLock; if closed return; rrm.Lock; ring.Write(v); cond.Signal; rrm.Unlock; (deferred) RUnlock *)
| WRLock (v : nat) | WChk (v : nat) | WLock (v : nat) | WPut (v : nat) | WSig | WUnl | WRUnl
(* Close(): closedMutex.Lock; if closed return; closed = true; rrm.Lock; cond.Signal; rrm.Unlock; (deferred) Unlock *)
| CLock | CChk | CSet | CLockR | CSig | CUnlR | CUnl
(* process(): for { RLock; rrm.Lock; vs := ring.ReadAll();
                    if len(vs)==0 && !closed { RUnlock; cond.Wait() [; vs = ring.ReadAll()] } else { RUnlock };
                    rrm.Unlock; RLock;
                    if closed && len(vs)==0 { close(rc); close(closedSignal); RUnlock; break }
                    for v in vs { rc <- v }; RUnlock } *)
| PRLock | PLock | PRead
| PChk (vs : list nat)          (* evaluating len(vs)==0 && !closed *)
| PRUnlW                        (* wait branch: RUnlock *)
| PPark                         (* cond.Wait, first half: release rrm and park *)
| PWake                         (* cond.Wait, second half: reacquire rrm once signalled *)
| PReread                       (* repaired code only: vs = ring.ReadAll() *)
| PRUnlE (vs : list nat)        (* else branch: RUnlock *)
| PUnl (vs : list nat)          (* rrm.Unlock *)
| PRLock2 (vs : list nat)
| PChk2 (vs : list nat)         (* evaluating closed && len(vs)==0 *)
| PCloseRc | PCloseSig | PRUnlEnd
| PSend (vs : list nat)         (* rc <- head vs; with vs = [] the loop is over: RUnlock and start again *)
(* consumer: for v := range rc *)
| KRecv.

Inductive choice := CNone | CWrite (v : nat) | CClose.

Inductive event :=
| EvSpawn | EvTau
| EvAccept (v : nat)            (* ring.Write(v) done *)
| EvDrop (v : nat)              (* Write(v) saw closed = true *)
| EvRead (vs : list nat)        (* ReadAll returned vs *)
| EvSend (v : nat) | EvRecv (v : nat) | EvRecvClosed
| EvCloseRc | EvCloseSig.

Record rsh := {
  ring : list nat; rrm : bool; readers : Z; writer : bool; closed : bool;
  rc : list nat; cap : nat; rc_closed : bool; sig_closed : bool; parked : bool;
  (* ghost *)
  accepted : list nat; received : list nat
}.

Definition init_sh (n : nat) : rsh :=
  {| ring := []; rrm := false; readers := 0; writer := false; closed := false;
     rc := []; cap := n; rc_closed := false; sig_closed := false; parked := false;
     accepted := []; received := [] |}.

Definition set_ring x s := {| ring := x; rrm := rrm s; readers := readers s; writer := writer s; closed := closed s;
  rc := rc s; cap := cap s; rc_closed := rc_closed s; sig_closed := sig_closed s; parked := parked s;
  accepted := accepted s; received := received s |}.
Definition set_rrm x s := {| ring := ring s; rrm := x; readers := readers s; writer := writer s; closed := closed s;
  rc := rc s; cap := cap s; rc_closed := rc_closed s; sig_closed := sig_closed s; parked := parked s;
  accepted := accepted s; received := received s |}.
Definition add_readers d s := {| ring := ring s; rrm := rrm s; readers := readers s + d; writer := writer s; closed := closed s;
  rc := rc s; cap := cap s; rc_closed := rc_closed s; sig_closed := sig_closed s; parked := parked s;
  accepted := accepted s; received := received s |}.
Definition set_writer x s := {| ring := ring s; rrm := rrm s; readers := readers s; writer := x; closed := closed s;
  rc := rc s; cap := cap s; rc_closed := rc_closed s; sig_closed := sig_closed s; parked := parked s;
  accepted := accepted s; received := received s |}.
Definition set_closed x s := {| ring := ring s; rrm := rrm s; readers := readers s; writer := writer s; closed := x;
  rc := rc s; cap := cap s; rc_closed := rc_closed s; sig_closed := sig_closed s; parked := parked s;
  accepted := accepted s; received := received s |}.
Definition set_rc x s := {| ring := ring s; rrm := rrm s; readers := readers s; writer := writer s; closed := closed s;
  rc := x; cap := cap s; rc_closed := rc_closed s; sig_closed := sig_closed s; parked := parked s;
  accepted := accepted s; received := received s |}.
Definition set_rc_closed x s := {| ring := ring s; rrm := rrm s; readers := readers s; writer := writer s; closed := closed s;
  rc := rc s; cap := cap s; rc_closed := x; sig_closed := sig_closed s; parked := parked s;
  accepted := accepted s; received := received s |}.
Definition set_sig_closed x s := {| ring := ring s; rrm := rrm s; readers := readers s; writer := writer s; closed := closed s;
  rc := rc s; cap := cap s; rc_closed := rc_closed s; sig_closed := x; parked := parked s;
  accepted := accepted s; received := received s |}.
Definition set_parked x s := {| ring := ring s; rrm := rrm s; readers := readers s; writer := writer s; closed := closed s;
  rc := rc s; cap := cap s; rc_closed := rc_closed s; sig_closed := sig_closed s; parked := x;
  accepted := accepted s; received := received s |}.
(* ring.Write(v) (+ ghost) *)
Definition put v s := {| ring := ring s ++ [v]; rrm := rrm s; readers := readers s; writer := writer s; closed := closed s;
  rc := rc s; cap := cap s; rc_closed := rc_closed s; sig_closed := sig_closed s; parked := parked s;
  accepted := accepted s ++ [v]; received := received s |}.
(* cond.Wait, first half *)
Definition park s := {| ring := ring s; rrm := false; readers := readers s; writer := writer s; closed := closed s;
  rc := rc s; cap := cap s; rc_closed := rc_closed s; sig_closed := sig_closed s; parked := true;
  accepted := accepted s; received := received s |}.
(* v, ok := <-rc with rc = v :: t (+ ghost) *)
Definition recv v t s := {| ring := ring s; rrm := rrm s; readers := readers s; writer := writer s; closed := closed s;
  rc := t; cap := cap s; rc_closed := rc_closed s; sig_closed := sig_closed s; parked := parked s;
  accepted := accepted s; received := received s ++ [v] |}.

Definition chancap (s : rsh) : nat := Nat.max 1 (cap s).
Definition is_nil (l : list nat) : bool := match l with [] => true | _ => false end.

Definition R := (rsh * option pc * list pc * event)%type.

Definition mstep (rep : bool) (s : rsh) (l : pc) (c : choice) : option R :=
  match l with
  | Env =>
      match c with
      | CWrite v => Some (s, Some Env, [WRLock v], EvSpawn)
      | CClose => Some (s, Some Env, [CLock], EvSpawn)
      | CNone => None
      end
  (* ---- Write(v) *)
  | WRLock v => if writer s then None else Some (add_readers 1 s, Some (WChk v), [], EvTau)
  | WChk v => if closed s then Some (s, Some WRUnl, [], EvDrop v) else Some (s, Some (WLock v), [], EvTau)
  | WLock v => if rrm s then None else Some (set_rrm true s, Some (WPut v), [], EvTau)
  | WPut v => Some (put v s, Some WSig, [], EvAccept v)
  | WSig => Some (set_parked false s, Some WUnl, [], EvTau)
  | WUnl => Some (set_rrm false s, Some WRUnl, [], EvTau)
  | WRUnl => Some (add_readers (-1) s, None, [], EvTau)
  (* ---- Close() *)
  | CLock => if writer s then None else
             if readers s =? 0 then Some (set_writer true s, Some CChk, [], EvTau) else None
  | CChk => if closed s then Some (s, Some CUnl, [], EvTau) else Some (s, Some CSet, [], EvTau)
  | CSet => Some (set_closed true s, Some CLockR, [], EvTau)
  | CLockR => if rrm s then None else Some (set_rrm true s, Some CSig, [], EvTau)
  | CSig => Some (set_parked false s, Some CUnlR, [], EvTau)
  | CUnlR => Some (set_rrm false s, Some CUnl, [], EvTau)
  | CUnl => Some (set_writer false s, None, [], EvTau)
  (* ---- process() *)
  | PRLock => if writer s then None else Some (add_readers 1 s, Some PLock, [], EvTau)
  | PLock => if rrm s then None else Some (set_rrm true s, Some PRead, [], EvTau)
  | PRead => Some (set_ring [] s, Some (PChk (ring s)), [], EvRead (ring s))
  | PChk vs =>
      if is_nil vs then
        if closed s then Some (s, Some (PRUnlE vs), [], EvTau) else Some (s, Some PRUnlW, [], EvTau)
      else Some (s, Some (PRUnlE vs), [], EvTau)
  | PRUnlW => Some (add_readers (-1) s, Some PPark, [], EvTau)
  | PPark => Some (park s, Some PWake, [], EvTau)
  | PWake => if parked s then None else
             if rrm s then None else
             Some (set_rrm true s, Some (if rep then PReread else PUnl []), [], EvTau)
  | PReread => Some (set_ring [] s, Some (PUnl (ring s)), [], EvRead (ring s))
  | PRUnlE vs => Some (add_readers (-1) s, Some (PUnl vs), [], EvTau)
  | PUnl vs => Some (set_rrm false s, Some (PRLock2 vs), [], EvTau)
  | PRLock2 vs => if writer s then None else Some (add_readers 1 s, Some (PChk2 vs), [], EvTau)
  | PChk2 vs =>
      if closed s then
        if is_nil vs then Some (s, Some PCloseRc, [], EvTau) else Some (s, Some (PSend vs), [], EvTau)
      else Some (s, Some (PSend vs), [], EvTau)
  | PCloseRc => Some (set_rc_closed true s, Some PCloseSig, [], EvCloseRc)
  | PCloseSig => Some (set_sig_closed true s, Some PRUnlEnd, [], EvCloseSig)
  | PRUnlEnd => Some (add_readers (-1) s, None, [], EvTau)
  | PSend vs =>
      match vs with
      | [] => Some (add_readers (-1) s, Some PRLock, [], EvTau)
      | v :: t => if (length (rc s) <? chancap s)%nat
                  then Some (set_rc (rc s ++ [v]) s, Some (PSend t), [], EvSend v)
                  else None
      end
  (* ---- consumer *)
  | KRecv =>
      match rc s with
      | v :: t => Some (recv v t s, Some KRecv, [], EvRecv v)
      | [] => if rc_closed s then Some (s, None, [], EvRecvClosed) else None
      end
  end.

Definition RuPump (rep : bool) : machine :=
  {| shared := rsh; local := pc; Sched.choice := choice; ev := event; tstep := mstep rep |}.

(* NewRingUnbounded(n): thread 0 = environment, thread 1 = the pump, thread 2 = the consumer *)
Definition init (rep : bool) (n : nat) : state (RuPump rep) := (init_sh n, [Some Env; Some PRLock; Some KRecv]).

(* ---- observables used by the statements ---- *)
(* the elements the pump has taken out of the ring and not yet sent *)
Definition pvs (l : pc) : list nat :=
  match l with
  | PChk vs | PRUnlE vs | PUnl vs | PRLock2 vs | PChk2 vs | PSend vs => vs
  | _ => []
  end.
Definition held (p : list (option pc)) : list nat :=
  flat_map (fun o : option pc => match o with Some l => pvs l | None => [] end) p.

(* no thread other than the environment can take a step (everybody has returned or is blocked) *)
Definition stuck {rep} (st : state (RuPump rep)) : Prop :=
  forall i l c, nth_error (snd st) i = Some (Some l) -> l <> Env -> mstep rep (fst st) l c = None.
