(* MV.C15.RuPumpRun — evaluation of recorded runs of toolkit/buffer.RingUnbounded
   (harness/cmd/c15rupump, plain uninstrumented stress runs through the public API).

   THE TIE IS BY OBSERVABLE TRACES ONLY. The machine MV.C15.RuPumpModel is hand-written and is NOT
   replayed step by step against the Go code. What is checked here, on every recorded run, is exactly
   the set of observable consequences of the theorems proved of the machine (RuPumpProofs.v):

     C15_rupump_prefix            accepted = received ++ rc ++ held ++ ring
        => nothing is received that was not written (accepted only grows by the value of a Write),
           nothing twice, and the received elements are an initial segment of the accepted ones in
           the order of their ring.Write steps. A producer issues its Writes one after the other, so
           the ring.Write steps of one producer are in program order: what is received of one
           producer is in program order, and an element of that producer may be missing before a
           received one only if it was not accepted.
     C15_rupump_drains_after_close   rc_closed = true -> accepted = received ++ rc
        => once the consumer has seen the channel closed (rc drained), every accepted element has
           been received.

   From outside one cannot see which Writes were accepted (observed closed = false); the harness
   records per write the flag [sure] = "this Write returned before Close() was called", which implies
   accepted. Only such writes are required to be received; the others may or may not be.

   A case = per producer the issued writes (value, sure), the received sequence, whether the consumer
   saw the channel closed, and the outcome. An outcome other than a clean end (time-out of any wait,
   panic) is [RuBad] and always mismatches. All identifiers are prefixed [ru]. *)
From MV Require Import Lib.ListX.
Local Open Scope Z_scope.

Inductive ruoutcome := RuDone | RuBad.

Record rucase := {
  rucid : nat;
  ruwritten : list (list (Z * bool));   (* per producer, in program order: (value, sure) *)
  rureceived : list Z;                  (* what the single consumer received, in order *)
  ruclosed : bool;                      (* the consumer saw the channel closed *)
  ruout : ruoutcome
}.

(* printing abbreviation used by the harness for a regular row: n consecutive values from [base],
   the first k of them certainly accepted (the flag can only go from true to false along a producer:
   Close is called once). Irregular rows are printed element by element. *)
Fixpoint rurow_from (base : Z) (n k : nat) : list (Z * bool) :=
  match n with
  | O => []
  | S n' => (base, match k with O => false | S _ => true end) :: rurow_from (base + 1) n' (Nat.pred k)
  end.
Definition rurow (base : Z) (n k : nat) : list (Z * bool) := rurow_from base n k.

Definition rumem (v : Z) (l : list Z) : bool := existsb (Z.eqb v) l.

Fixpoint runodup (l : list Z) : bool :=
  match l with
  | [] => true
  | v :: t => negb (rumem v t) && runodup t
  end.

(* all values issued by any producer *)
Definition ruvals (c : rucase) : list Z := flat_map (map fst) (ruwritten c).

(* nothing invented *)
Definition runot_invented (c : rucase) : bool :=
  forallb (fun v => rumem v (ruvals c)) (rureceived c).

(* advance in one producer's written list to the element r; the elements stepped over are missing
   from the output before r, which is allowed only for writes that were not certainly accepted *)
Fixpoint ruskip (r : Z) (ws : list (Z * bool)) : option (list (Z * bool)) :=
  match ws with
  | [] => None
  | (v, sure) :: t => if Z.eqb v r then Some t else if sure then None else ruskip r t
  end.

(* rs = the received elements of one producer, in order of reception *)
Fixpoint ruscan (rs : list Z) (ws : list (Z * bool)) : bool :=
  match rs with
  | [] => true
  | r :: rt => match ruskip r ws with Some ws' => ruscan rt ws' | None => false end
  end.

Definition ruof (ws : list (Z * bool)) (received : list Z) : list Z :=
  filter (fun v => rumem v (map fst ws)) received.

(* per producer: program order, no gap among certainly-accepted writes *)
Definition ruorder_ok (c : rucase) : bool :=
  forallb (fun ws => ruscan (ruof ws (rureceived c)) ws) (ruwritten c).

(* channel seen closed -> every certainly-accepted write was received *)
Definition rudrained_ok (c : rucase) : bool :=
  implb (ruclosed c)
        (forallb (fun ws => forallb (fun w : Z * bool => implb (snd w) (rumem (fst w) (rureceived c))) ws)
                 (ruwritten c)).

Definition ruobs_ok (c : rucase) : bool :=
  match ruout c with
  | RuBad => false
  | RuDone => runodup (rureceived c) && runot_invented c && ruorder_ok c && rudrained_ok c
  end.

Definition rumismatches (cs : list rucase) : list nat := fail_ids ruobs_ok rucid cs.
