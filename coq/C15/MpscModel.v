(* MV.C15.MpscModel — layer-A machine transcribing toolkit/queues/mpsc.go (Vyukov's intrusive
   multi-producer single-consumer queue, MPSC). NOTE the naming of the Go code: [head] is the PRODUCER
   end, [tail] the CONSUMER end. NewMPSC: stub node, head = tail = stub.
   One [mstep] per statement that touches shared memory (every sync/atomic operation), in program order:

     Push(m):  n := new(mpscNode); n.val = m                      MPAlloc   (allocation = one step, see below)
               prev := atomic.SwapPointer(&q.head, n)             MPSwap    <- linearization point of Push
               atomic.StorePointer(&prev.next, n)                 MPStore
     Pop():    tail := q.tail                                     (plain, consumer-private: folded into MCLoad)
               next := atomic.LoadPointer(&tail.next)             MCLoad    <- linearization point of Pop
               if next != nil { q.tail = next; v := next.val;     (plain, consumer-private: folded into MCLoad)
                                next.val = nil; return v }        MCRet (Some v)  (pseudo-step: Pop returned v)
               return nil                                         MCRet None

   Between MPSwap and MPStore of one Push the new node is already the head but is not yet linked
   from its predecessor: a consumer that loads [prev.next] in that window sees nil.

   Heap: nodes are numbered in allocation order (id = index in [mheap]); node 0 is the stub of NewMPSC.
   The allocation is thread-local in Go; making it a step gives node ids a deterministic order that the
   instrumented Go run reproduces (pseudo-step "alloc" right before each Push).
   MODELLING ASSUMPTIONS: (1) no reuse / no ABA: a node id is never reused — in Go the garbage
   collector frees a node only when nobody holds a pointer to it; allocation here always yields a fresh
   id. (2) sync/atomic operations are sequentially consistent single steps. (3) q.tail and next.val
   are accessed by the single consumer only (plain accesses, folded into the adjacent atomic step);
   the write [next.val = nil] (a GC aid: the node becomes the new stub, its val is never read again)
   is not represented. "Single consumer" is the documented precondition of Pop: the environment can
   start at most ONE consumer thread (ghost flag [mcons]).

   Threads: MEnv spawns, at will, producers ([MCProd (v :: vs)] = one goroutine pushing these values one
   after the other: unbounded number of producers) and at most one consumer ([MCCons k] = one goroutine
   calling Pop k+1 times).
   Ghost fields (never read by the algorithm): [mchain] = node ids in the order of their Swap (the stub
   is not in it: the full chain is [mfull] = 0 :: mchain), [mswapped] = the pushed values in the order
   of their Swap (= linearization order of Push), [mpopped] = the values returned by successful Pops in
   order, [mgiven] = every value handed to a producer by the environment.  No proofs in this file. *)
From MV Require Import Lib.ListX Lib.Sched.

Record mnode := { mval : nat; mnxt : option nat }.

Record msh := {
  mheap : list mnode; mhead : nat; mtail : nat;
  (* ghost *)
  mcons : bool; mchain : list nat; mswapped : list nat; mpopped : list nat; mgiven : list nat
}.

Definition mnxt_of (h : list mnode) (i : nat) : option nat :=
  match nth_error h i with Some d => mnxt d | None => None end.
Definition mval_of (h : list mnode) (i : nat) : nat :=
  match nth_error h i with Some d => mval d | None => O end.
(* heap[i].next := x (a guarded store: no effect on an id that was never allocated) *)
Definition mset_nxt (h : list mnode) (i x : nat) : list mnode :=
  upd i {| mval := mval_of h i; mnxt := Some x |} h.

(* values of the nodes reachable from node i by following next *)
Fixpoint mfollow (h : list mnode) (fuel i : nat) : list nat :=
  match fuel with
  | O => []
  | S f => match mnxt_of h i with
           | Some j => mval_of h j :: mfollow h f j
           | None => []
           end
  end.

(* the concretely linked queue: what a consumer can reach from tail right now *)
Definition mlinked (s : msh) : list nat := mfollow (mheap s) (length (mheap s)) (mtail s).
(* the abstract queue: the values whose Push has performed its Swap and that no Pop has returned yet,
   in Swap order *)
Definition mabsq (s : msh) : list nat := skipn (length (mpopped s)) (mswapped s).
(* the full chain of nodes in Swap order, stub first *)
Definition mfull (s : msh) : list nat := O :: mchain s.

Inductive mpc :=
| MEnv
| MPAlloc (v : nat) (rest : list nat)              (* about to allocate the node of Push(v); rest = later pushes *)
| MPSwap (n v : nat) (rest : list nat)             (* node n holds v; about to SwapPointer(&q.head, n) *)
| MPStore (prev n : nat) (rest : list nat)         (* swapped; about to StorePointer(&prev.next, n) *)
| MCLoad (k : nat)                                 (* Pop: about to LoadPointer(&tail.next); k more Pops after this one *)
| MCRet (r : option nat) (k : nat).                (* Pop returns r *)

Inductive mchoice := MCNone | MCProd (vs : list nat) | MCCons (k : nat).

Inductive mevent :=
| MEvSpawn (c : mchoice)
| MEvAlloc (n v : nat)
| MEvSwap (new old : nat)                          (* SwapPointer(&q.head, new) returned old *)
| MEvStoreNext (node new : nat)                    (* StorePointer(&node.next, new) *)
| MEvLoadNext (node : nat) (r : option nat)        (* LoadPointer(&node.next) returned r *)
| MEvRet (r : option nat)                          (* Pop returned r *)
| MEvExit                                          (* pseudo-event of the replay log: the goroutine returned *)
| MEvOther (n : nat).                              (* an operation the machine does not have; never produced by [mpstep] *)

Definition mset_heap (h : list mnode) (s : msh) : msh :=
  {| mheap := h; mhead := mhead s; mtail := mtail s; mcons := mcons s; mchain := mchain s;
     mswapped := mswapped s; mpopped := mpopped s; mgiven := mgiven s |}.
(* SwapPointer(&q.head, n) by a producer pushing v *)
Definition mswap (n v : nat) (s : msh) : msh :=
  {| mheap := mheap s; mhead := n; mtail := mtail s; mcons := mcons s; mchain := mchain s ++ [n];
     mswapped := mswapped s ++ [v]; mpopped := mpopped s; mgiven := mgiven s |}.
(* q.tail = x; return x.val *)
Definition madvance (x : nat) (s : msh) : msh :=
  {| mheap := mheap s; mhead := mhead s; mtail := x; mcons := mcons s; mchain := mchain s;
     mswapped := mswapped s; mpopped := mpopped s ++ [mval_of (mheap s) x]; mgiven := mgiven s |}.
Definition mstart_cons (s : msh) : msh :=
  {| mheap := mheap s; mhead := mhead s; mtail := mtail s; mcons := true; mchain := mchain s;
     mswapped := mswapped s; mpopped := mpopped s; mgiven := mgiven s |}.
Definition mgive (vs : list nat) (s : msh) : msh :=
  {| mheap := mheap s; mhead := mhead s; mtail := mtail s; mcons := mcons s; mchain := mchain s;
     mswapped := mswapped s; mpopped := mpopped s; mgiven := mgiven s ++ vs |}.

Definition mpnext (rest : list nat) : option mpc :=
  match rest with [] => None | v :: r => Some (MPAlloc v r) end.

Definition MR := (msh * option mpc * list mpc * mevent)%type.

Definition mpstep (s : msh) (l : mpc) (c : mchoice) : option MR :=
  match l with
  | MEnv =>
      match c with
      | MCProd (v :: vs) => Some (mgive (v :: vs) s, Some MEnv, [MPAlloc v vs], MEvSpawn c)
      | MCCons k => if mcons s then None     (* single consumer: a second one is never started *)
                    else Some (mstart_cons s, Some MEnv, [MCLoad k], MEvSpawn c)
      | _ => None
      end
  | MPAlloc v rest =>
      let n := length (mheap s) in
      Some (mset_heap (mheap s ++ [{| mval := v; mnxt := None |}]) s, Some (MPSwap n v rest), [], MEvAlloc n v)
  | MPSwap n v rest =>
      Some (mswap n v s, Some (MPStore (mhead s) n rest), [], MEvSwap n (mhead s))
  | MPStore prev n rest =>
      Some (mset_heap (mset_nxt (mheap s) prev n) s, mpnext rest, [], MEvStoreNext prev n)
  | MCLoad k =>
      match mnxt_of (mheap s) (mtail s) with
      | Some x => Some (madvance x s, Some (MCRet (Some (mval_of (mheap s) x)) k), [], MEvLoadNext (mtail s) (Some x))
      | None => Some (s, Some (MCRet None k), [], MEvLoadNext (mtail s) None)
      end
  | MCRet r k =>
      Some (s, match k with O => None | S k' => Some (MCLoad k') end, [], MEvRet r)
  end.

Definition Mpsc : machine :=
  {| shared := msh; local := mpc; Sched.choice := mchoice; ev := mevent; tstep := mpstep |}.

Definition minit_sh : msh :=
  {| mheap := [{| mval := O; mnxt := None |}]; mhead := O; mtail := O; mcons := false;
     mchain := []; mswapped := []; mpopped := []; mgiven := [] |}.
Definition minit : state Mpsc := (minit_sh, [Some MEnv]).

(* ---- observables used by the statements ---- *)
(* 1 on a producer that has swapped and not yet linked (the swap->store window) *)
Definition mat_store (l : mpc) : Z := match l with MPStore _ _ _ => 1%Z | _ => 0%Z end.
Definition min_window (st : state Mpsc) : Z := @total Mpsc mat_store (snd st).
(* a live producer thread *)
Definition mis_prod (l : mpc) : Prop :=
  match l with MPAlloc _ _ | MPSwap _ _ _ | MPStore _ _ _ => True | _ => False end.
Definition mno_producer (st : state Mpsc) : Prop := @all_live Mpsc (fun l => ~ mis_prod l) (snd st).
(* the values a producer thread has still to swap, in program order *)
Definition mpending (l : mpc) : list nat :=
  match l with
  | MPAlloc v rest | MPSwap _ v rest => v :: rest
  | MPStore _ _ rest => rest
  | _ => []
  end.
Definition mpending_o (o : option mpc) : list nat := match o with Some l => mpending l | None => [] end.

(* sums over the live threads of the pool, occurrence counts *)
Definition MpT (f : mpc -> Z) (p : pool Mpsc) : Z := @total Mpsc f p.
Definition mcount (l : list nat) (n : nat) : Z := Z.of_nat (count_occ Nat.eq_dec l n).
(* occurrences of v among the values a producer has still to swap *)
Definition mcnt (v : nat) (l : mpc) : Z := Z.of_nat (count_occ Nat.eq_dec (mpending l) v).
(* thread is the producer that has swapped b in after a and has not yet stored a.next := b *)
Definition mat_pair (a b : nat) (l : mpc) : Z :=
  match l with MPStore a' b' _ => if Nat.eqb a a' && Nat.eqb b b' then 1%Z else 0%Z | _ => 0%Z end.
(* a consumer thread *)
Definition mis_cons (l : mpc) : Z := match l with MCLoad _ | MCRet _ _ => 1%Z | _ => 0%Z end.
(* the pending values of the thread in slot i ([] if the slot is empty or the thread has ended) *)
Definition mpending_at (p : pool Mpsc) (i : nat) : list nat :=
  match nth_error p i with Some o => mpending_o o | None => [] end.
(* what the Pops of a run returned, in order *)
Definition mrets (es : list (nat * mevent)) : list (option nat) :=
  flat_map (fun x => match snd x with MEvRet r => [r] | _ => [] end) es.
