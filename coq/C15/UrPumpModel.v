(* MV.C15.UrPumpModel — layer-A machine (over MV.Lib.Sched) of toolkit/channels/unbounded_ring.go.

   The machine is parametrised by [r : bool]:
     r = true   the REPAIRED code (fixes/C15-unboundedring-cancel.patch): run() has no select; NewUnboundedRing
                also starts   go watch()   with   watch: select { case <-ctx.Done(): r.Close(); case <-r.done: }
                and run() does   defer close(r.done).
     r = false  the code AS IT IS in /repo: run() is   for { select { case <-ctx.Done(): r.Close(); default: ... } }
                and there is no watcher (used only for the refutation theorem).

   One pc per statement that touches shared state:

     Put(v...):   [len(v)==0 -> return nil]  rw.Lock ; if closed {rw.Unlock; return err} ;
                  ring.Write(t) for each t ; rw.Unlock ; cond.Signal ; return nil
     Close():     rw.RLock ; closed = true ; rw.RUnlock ; cond.Signal
     watch():     select { <-ctx.Done(): Close() | <-done: }                                     (repair)
     run():       [as-is: select { <-ctx.Done(): Close(); continue | default: }]
                  rw.Lock ; if ring.IsEmpty() { if closed { close(ch); rw.Unlock; return [close(done)] } ; cond.Wait() } ;
                  vs := ring.ReadAll() ; rw.Unlock ; for v in vs { ch <- v }
     consumer:    v, ok := <-ch   (one thread; ends when it sees the channel closed and empty)

   Abstractions: the Ring is its FIFO contents (list), justified by C15_ring_refines_fifo (Write appends,
   ReadAll returns and empties the contents, IsEmpty <-> contents = []). sync.RWMutex = a reader count and a
   writer flag; Lock is disabled while the lock is held in any mode, RLock while a writer holds it (Go's
   writer preference — a pending Lock blocks new RLocks — only removes behaviours, so the machine
   over-approximates). cond.Wait() = one step "add to the notify list, unlock, park" (Go takes the ticket before
   unlocking, so a Signal after the unlock is not lost) and a later step "re-lock", enabled only when unparked and
   the lock is free; Signal = unpark if parked, no memory. The channel is a list with a capacity; a send is
   disabled while it is full, the receive while it is empty and open. ctx cancellation is a flag set by the
   environment. Blocking = disabled step ([ur_step] = None).
   Ghost fields (never read by the algorithm): accepted (appended by Put's Write step) and received.
   No proofs in this file. *)
From MV Require Import Lib.ListX Lib.Sched.
Open Scope Z_scope.

(* who is executing Close(): a caller of the public API, the watcher of the repair, or the pump (as-is select) *)
Inductive urk := UrKCloser | UrKWatch | UrKPump.

Inductive urpc :=
| UrEnv                              (* spawns putters and closers at will; cancels the context *)
| UrPutLock (vs : list nat)          (* Put(vs...): about to rw.Lock() (returns at once when vs = []) *)
| UrPutChk (vs : list nat)           (* holds the write lock: about to read r.closed *)
| UrPutWrite (vs : list nat)         (* about to ring.Write(head vs); [] = about to rw.Unlock() on the nil path *)
| UrPutUnlockErr                     (* closed: about to rw.Unlock(), then return the error *)
| UrPutSignal                        (* about to cond.Signal(), then return nil *)
| UrClRLock (k : urk)                (* Close(): about to rw.RLock() *)
| UrClSet (k : urk)                  (* about to store closed = true *)
| UrClRUnlock (k : urk)              (* about to rw.RUnlock() *)
| UrClSignal (k : urk)               (* about to cond.Signal() *)
| UrWatch                            (* repair: blocked in select { <-ctx.Done() | <-done } *)
| UrPmSelect                         (* as-is: at the select of run() *)
| UrPmLock                           (* run(): about to rw.Lock() *)
| UrPmChkEmpty                       (* about to read ring.IsEmpty() *)
| UrPmChkClosed                      (* ring empty: about to read r.closed *)
| UrPmCloseCh                        (* about to close(r.ch) *)
| UrPmUnlockRet                      (* about to rw.Unlock() and return *)
| UrPmDone                           (* repair: deferred close(r.done) *)
| UrPmWait                           (* about to cond.Wait(): unlock + park *)
| UrPmWake                           (* parked inside cond.Wait(): re-lock once signalled *)
| UrPmRead                           (* about to vs := ring.ReadAll() *)
| UrPmUnlock (vs : list nat)         (* about to rw.Unlock(), holding vs *)
| UrPmSend (vs : list nat)           (* about to ch <- head vs; [] = loop back *)
| UrCons.                            (* the consumer: about to receive from r.Get() *)

Inductive urchoice := UrCNone | UrCPut (vs : list nat) | UrCClose | UrCCancel | UrCAlt.

Inductive urev :=
| UrEvSpawn (c : urchoice) | UrEvCancel | UrEvRet
| UrEvLock | UrEvUnlock | UrEvRLock | UrEvRUnlock
| UrEvLoadClosed (b : bool) | UrEvWrite (v : nat) | UrEvSignal (woke : bool) | UrEvSetClosed
| UrEvSelect (cancelled : bool) | UrEvWatch (by_cancel : bool)
| UrEvIsEmpty (b : bool) | UrEvCloseCh | UrEvDone | UrEvWait | UrEvWake
| UrEvReadAll (vs : list nat) | UrEvSend (v : nat) | UrEvLoop | UrEvRecv (o : option nat).

Record ursh := {
  ur_ring : list nat;          (* contents of the ring buffer *)
  ur_readers : nat;            (* rw: number of read locks held *)
  ur_writer : bool;            (* rw: write lock held *)
  ur_closed : bool;            (* r.closed *)
  ur_ch : list nat;            (* buffered contents of r.ch *)
  ur_cap : nat;                (* capacity of r.ch (1024 in the code) *)
  ur_chclosed : bool;          (* r.ch has been closed *)
  ur_parked : bool;            (* the pump is on the cond's notify list *)
  ur_cancelled : bool;         (* ctx.Done() is closed *)
  ur_done : bool;              (* repair: r.done is closed *)
  ur_accepted : list nat;      (* ghost: every value written into the ring by a Put, in write order *)
  ur_received : list nat       (* ghost: every value the consumer received, in order *)
}.

Definition ur_init_sh (cap : nat) : ursh :=
  {| ur_ring := []; ur_readers := 0; ur_writer := false; ur_closed := false; ur_ch := []; ur_cap := cap;
     ur_chclosed := false; ur_parked := false; ur_cancelled := false; ur_done := false;
     ur_accepted := []; ur_received := [] |}.

Definition ur_set_writer b s := {| ur_ring := ur_ring s; ur_readers := ur_readers s; ur_writer := b; ur_closed := ur_closed s;
  ur_ch := ur_ch s; ur_cap := ur_cap s; ur_chclosed := ur_chclosed s; ur_parked := ur_parked s; ur_cancelled := ur_cancelled s;
  ur_done := ur_done s; ur_accepted := ur_accepted s; ur_received := ur_received s |}.
Definition ur_set_readers n s := {| ur_ring := ur_ring s; ur_readers := n; ur_writer := ur_writer s; ur_closed := ur_closed s;
  ur_ch := ur_ch s; ur_cap := ur_cap s; ur_chclosed := ur_chclosed s; ur_parked := ur_parked s; ur_cancelled := ur_cancelled s;
  ur_done := ur_done s; ur_accepted := ur_accepted s; ur_received := ur_received s |}.
Definition ur_set_closed s := {| ur_ring := ur_ring s; ur_readers := ur_readers s; ur_writer := ur_writer s; ur_closed := true;
  ur_ch := ur_ch s; ur_cap := ur_cap s; ur_chclosed := ur_chclosed s; ur_parked := ur_parked s; ur_cancelled := ur_cancelled s;
  ur_done := ur_done s; ur_accepted := ur_accepted s; ur_received := ur_received s |}.
Definition ur_set_chclosed s := {| ur_ring := ur_ring s; ur_readers := ur_readers s; ur_writer := ur_writer s; ur_closed := ur_closed s;
  ur_ch := ur_ch s; ur_cap := ur_cap s; ur_chclosed := true; ur_parked := ur_parked s; ur_cancelled := ur_cancelled s;
  ur_done := ur_done s; ur_accepted := ur_accepted s; ur_received := ur_received s |}.
Definition ur_set_parked b s := {| ur_ring := ur_ring s; ur_readers := ur_readers s; ur_writer := ur_writer s; ur_closed := ur_closed s;
  ur_ch := ur_ch s; ur_cap := ur_cap s; ur_chclosed := ur_chclosed s; ur_parked := b; ur_cancelled := ur_cancelled s;
  ur_done := ur_done s; ur_accepted := ur_accepted s; ur_received := ur_received s |}.
Definition ur_set_cancelled s := {| ur_ring := ur_ring s; ur_readers := ur_readers s; ur_writer := ur_writer s; ur_closed := ur_closed s;
  ur_ch := ur_ch s; ur_cap := ur_cap s; ur_chclosed := ur_chclosed s; ur_parked := ur_parked s; ur_cancelled := true;
  ur_done := ur_done s; ur_accepted := ur_accepted s; ur_received := ur_received s |}.
Definition ur_set_done s := {| ur_ring := ur_ring s; ur_readers := ur_readers s; ur_writer := ur_writer s; ur_closed := ur_closed s;
  ur_ch := ur_ch s; ur_cap := ur_cap s; ur_chclosed := ur_chclosed s; ur_parked := ur_parked s; ur_cancelled := ur_cancelled s;
  ur_done := true; ur_accepted := ur_accepted s; ur_received := ur_received s |}.
(* cond.Wait, first half: unlock and park, atomically *)
Definition ur_wait s := {| ur_ring := ur_ring s; ur_readers := ur_readers s; ur_writer := false; ur_closed := ur_closed s;
  ur_ch := ur_ch s; ur_cap := ur_cap s; ur_chclosed := ur_chclosed s; ur_parked := true; ur_cancelled := ur_cancelled s;
  ur_done := ur_done s; ur_accepted := ur_accepted s; ur_received := ur_received s |}.
(* ring.Write(v) by a Put: the value is accepted *)
Definition ur_write v s := {| ur_ring := ur_ring s ++ [v]; ur_readers := ur_readers s; ur_writer := ur_writer s; ur_closed := ur_closed s;
  ur_ch := ur_ch s; ur_cap := ur_cap s; ur_chclosed := ur_chclosed s; ur_parked := ur_parked s; ur_cancelled := ur_cancelled s;
  ur_done := ur_done s; ur_accepted := ur_accepted s ++ [v]; ur_received := ur_received s |}.
(* ring.ReadAll() *)
Definition ur_readall s := {| ur_ring := []; ur_readers := ur_readers s; ur_writer := ur_writer s; ur_closed := ur_closed s;
  ur_ch := ur_ch s; ur_cap := ur_cap s; ur_chclosed := ur_chclosed s; ur_parked := ur_parked s; ur_cancelled := ur_cancelled s;
  ur_done := ur_done s; ur_accepted := ur_accepted s; ur_received := ur_received s |}.
(* ch <- v *)
Definition ur_send v s := {| ur_ring := ur_ring s; ur_readers := ur_readers s; ur_writer := ur_writer s; ur_closed := ur_closed s;
  ur_ch := ur_ch s ++ [v]; ur_cap := ur_cap s; ur_chclosed := ur_chclosed s; ur_parked := ur_parked s; ur_cancelled := ur_cancelled s;
  ur_done := ur_done s; ur_accepted := ur_accepted s; ur_received := ur_received s |}.
(* v := <-ch with ch = v :: t *)
Definition ur_recv v t s := {| ur_ring := ur_ring s; ur_readers := ur_readers s; ur_writer := ur_writer s; ur_closed := ur_closed s;
  ur_ch := t; ur_cap := ur_cap s; ur_chclosed := ur_chclosed s; ur_parked := ur_parked s; ur_cancelled := ur_cancelled s;
  ur_done := ur_done s; ur_accepted := ur_accepted s; ur_received := ur_received s ++ [v] |}.

(* the rw lock is held in no mode *)
Definition ur_free (s : ursh) : bool := negb (ur_writer s) && Nat.eqb (ur_readers s) 0.
(* head of the pump's loop *)
Definition ur_top (r : bool) : urpc := if r then UrPmLock else UrPmSelect.

Definition UrR := (ursh * option urpc * list urpc * urev)%type.

Definition ur_step (r : bool) (s : ursh) (l : urpc) (c : urchoice) : option UrR :=
  match l with
  | UrEnv =>
      match c with
      | UrCPut vs => Some (s, Some UrEnv, [UrPutLock vs], UrEvSpawn c)
      | UrCClose => Some (s, Some UrEnv, [UrClRLock UrKCloser], UrEvSpawn c)
      | UrCCancel => Some (ur_set_cancelled s, Some UrEnv, [], UrEvCancel)
      | _ => None
      end
  (* ---- Put *)
  | UrPutLock [] => Some (s, None, [], UrEvRet)
  | UrPutLock (v :: t) =>
      if ur_free s then Some (ur_set_writer true s, Some (UrPutChk (v :: t)), [], UrEvLock) else None
  | UrPutChk vs =>
      if ur_closed s then Some (s, Some UrPutUnlockErr, [], UrEvLoadClosed true)
      else Some (s, Some (UrPutWrite vs), [], UrEvLoadClosed false)
  | UrPutWrite (v :: t) => Some (ur_write v s, Some (UrPutWrite t), [], UrEvWrite v)
  | UrPutWrite [] => Some (ur_set_writer false s, Some UrPutSignal, [], UrEvUnlock)
  | UrPutUnlockErr => Some (ur_set_writer false s, None, [], UrEvUnlock)
  | UrPutSignal => Some (ur_set_parked false s, None, [], UrEvSignal (ur_parked s))
  (* ---- Close *)
  | UrClRLock k =>
      if ur_writer s then None
      else Some (ur_set_readers (S (ur_readers s)) s, Some (UrClSet k), [], UrEvRLock)
  | UrClSet k => Some (ur_set_closed s, Some (UrClRUnlock k), [], UrEvSetClosed)
  | UrClRUnlock k => Some (ur_set_readers (ur_readers s - 1) s, Some (UrClSignal k), [], UrEvRUnlock)
  | UrClSignal k =>
      Some (ur_set_parked false s, match k with UrKPump => Some UrPmSelect | _ => None end, [], UrEvSignal (ur_parked s))
  (* ---- watcher (repair): a select with both cases ready may take either *)
  | UrWatch =>
      match c with
      | UrCAlt => if ur_done s then Some (s, None, [], UrEvWatch false) else None
      | _ => if ur_cancelled s then Some (s, Some (UrClRLock UrKWatch), [], UrEvWatch true) else None
      end
  (* ---- pump *)
  | UrPmSelect =>   (* default is taken only when ctx.Done() is not ready *)
      if ur_cancelled s then Some (s, Some (UrClRLock UrKPump), [], UrEvSelect true)
      else Some (s, Some UrPmLock, [], UrEvSelect false)
  | UrPmLock => if ur_free s then Some (ur_set_writer true s, Some UrPmChkEmpty, [], UrEvLock) else None
  | UrPmChkEmpty =>
      match ur_ring s with
      | [] => Some (s, Some UrPmChkClosed, [], UrEvIsEmpty true)
      | _ :: _ => Some (s, Some UrPmRead, [], UrEvIsEmpty false)
      end
  | UrPmChkClosed =>
      if ur_closed s then Some (s, Some UrPmCloseCh, [], UrEvLoadClosed true)
      else Some (s, Some UrPmWait, [], UrEvLoadClosed false)
  | UrPmCloseCh => Some (ur_set_chclosed s, Some UrPmUnlockRet, [], UrEvCloseCh)
  | UrPmUnlockRet => Some (ur_set_writer false s, if r then Some UrPmDone else None, [], UrEvUnlock)
  | UrPmDone => Some (ur_set_done s, None, [], UrEvDone)
  | UrPmWait => Some (ur_wait s, Some UrPmWake, [], UrEvWait)
  | UrPmWake =>
      if negb (ur_parked s) && ur_free s then Some (ur_set_writer true s, Some UrPmRead, [], UrEvWake) else None
  | UrPmRead => Some (ur_readall s, Some (UrPmUnlock (ur_ring s)), [], UrEvReadAll (ur_ring s))
  | UrPmUnlock vs => Some (ur_set_writer false s, Some (UrPmSend vs), [], UrEvUnlock)
  | UrPmSend [] => Some (s, Some (ur_top r), [], UrEvLoop)
  | UrPmSend (v :: t) =>
      if Nat.ltb (length (ur_ch s)) (ur_cap s) then Some (ur_send v s, Some (UrPmSend t), [], UrEvSend v) else None
  (* ---- consumer *)
  | UrCons =>
      match ur_ch s with
      | v :: t => Some (ur_recv v t s, Some UrCons, [], UrEvRecv (Some v))
      | [] => if ur_chclosed s then Some (s, None, [], UrEvRecv None) else None
      end
  end.

Definition UrPump (r : bool) : machine :=
  {| shared := ursh; local := urpc; Sched.choice := urchoice; ev := urev; tstep := ur_step r |}.

(* NewUnboundedRing has returned: pump (and watcher) started, nothing put yet; thread 0 is the environment,
   thread 1 the pump, thread 2 the consumer (it may take its first step at any time), thread 3 the watcher *)
Definition ur_init (r : bool) (cap : nat) : state (UrPump r) :=
  (ur_init_sh cap, [Some UrEnv; Some (ur_top r); Some UrCons] ++ (if r then [Some UrWatch] else [])).

(* ---- observables used by the statements ---- *)
(* what a pump thread holds locally, still to be sent *)
Definition ur_hl (l : urpc) : list nat :=
  match l with UrPmUnlock vs | UrPmSend vs => vs | _ => [] end.
Definition ur_hlo (o : option urpc) : list nat := match o with Some l => ur_hl l | None => [] end.
Fixpoint ur_held_pool (p : list (option urpc)) : list nat :=
  match p with
  | [] => []
  | o :: t => ur_hlo o ++ ur_held_pool t
  end.
Definition ur_held {r} (st : state (UrPump r)) : list nat := ur_held_pool (snd st).

(* no thread other than the environment can take a step (whatever the choice) *)
Definition ur_quiescent {r} (st : state (UrPump r)) : Prop :=
  forall i l c, nth_error (snd st) i = Some (Some l) -> l <> UrEnv -> ur_step r (fst st) l c = None.
