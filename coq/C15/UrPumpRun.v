(* MV.C15.UrPumpRun — evaluation of recorded runs of toolkit/channels.UnboundedRing.

   THE TIE IS BY OBSERVABLE TRACES ONLY. The layer-A machine MV.C15.UrPumpModel is hand-written and is NOT
   replayed step by step against the Go code (the harness harness/cmd/c15urpump is uninstrumented and drives
   the public API: NewUnboundedRing / Put / Get / Close and the context). What is checked here, per recorded
   scenario, is exactly the set of observable consequences that MV.C15.UrPumpProofs proves of the machine:

     - C15_urpump_prefix (accepted = received ++ ch ++ held ++ ring) restricted to one producer
       (ur_filter_prefix in UrPumpProofs): the received values of a producer are a PREFIX, in order, of the
       values of its accepted Puts (argument order within one Put) — hence no duplicate, no reordering,
       nothing invented, nothing from a refused Put;
     - C15_urpump_drains_after_close: when the consumer has seen the channel closed, the received values of
       every producer are ALL its accepted values;
     - closed is stable and Put refuses once closed (second half of C15_urpump_drains_after_close): a Put that
       was started after an explicit Close() returned is refused (Put() without arguments returns nil and has no
       effect, before or after Close: the machine's putter of [] ends at once);
     - the machine has no stuck or crashing behaviour visible to the client: an outcome other than UrOk
       (timeout of the close-wait, panic) always mismatches.

   A case = per producer the list of its Put calls in program order (values, accepted = Put returned nil,
   late = started after an explicit Close() had returned), the sequence received by the single consumer,
   whether the consumer saw the channel closed, and the outcome of the harness' waits.
   Values are tagged: value = producer * 100000 + sequence number, producer = 1, 2, 3 (index in urprods + 1).
   Only to keep the generated terms small, the harness writes runs of consecutive values as (first, count):
   a Put call as [UrPut first count acc late] (several such entries if its values are not consecutive; count 0 =
   Put() without arguments) and the received sequence as its maximal runs; [urexpand]/[urseq] restore the
   sequences, the judgement is on the expanded sequences. *)
From MV Require Import Lib.ListX.
Open Scope Z_scope.

(* one Put call (or one run of a Put call): the consecutive values first, first+1, ..., first+count-1 *)
Inductive urput := UrPut (first count : Z) (acc late : bool).
Inductive uroutc := UrOk | UrBad.          (* UrBad: timeout / panic / anything the harness cannot represent *)

Record urcase := {
  urcid : nat;
  urprods : list (list urput);
  urrecv : list (Z * Z);        (* run-length compressed: maximal runs (first, count) of consecutive values *)
  urclosed : bool;
  uroutcome : uroutc
}.

Definition urtag (v : Z) : Z := v / 100000.

Definition urseq (first count : Z) : list Z := map (fun i => first + Z.of_nat i) (seq 0 (Z.to_nat count)).
Definition urexpand (runs : list (Z * Z)) : list Z := flat_map (fun r => urseq (fst r) (snd r)) runs.

Definition uraccepted (ps : list urput) : list Z :=
  flat_map (fun p => match p with UrPut f n true _ => urseq f n | UrPut _ _ false _ => [] end) ps.

Fixpoint urprefixb (a b : list Z) : bool :=      (* a is a prefix of b *)
  match a, b with
  | [], _ => true
  | x :: a', y :: b' => Z.eqb x y && urprefixb a' b'
  | _ :: _, [] => false
  end.

Definition urlate_ok (ps : list urput) : bool :=
  forallb (fun p => match p with UrPut _ n acc late => negb (late && acc && (0 <? n)) end) ps.

(* producer number k (1-based) with its Put list ps *)
Definition urprod_ok (closed : bool) (recv : list Z) (k : Z) (ps : list urput) : bool :=
  let got := filter (fun v => Z.eqb (urtag v) k) recv in
  let acc := uraccepted ps in
  (if closed then list_eqb Z.eqb got acc else urprefixb got acc) && urlate_ok ps.

Fixpoint urprods_ok (closed : bool) (recv : list Z) (k : Z) (pss : list (list urput)) : bool :=
  match pss with
  | [] => true
  | ps :: t => urprod_ok closed recv k ps && urprods_ok closed recv (k + 1) t
  end.

Definition urobs_ok (c : urcase) : bool :=
  match uroutcome c with
  | UrBad => false
  | UrOk =>
      let P := Z.of_nat (length (urprods c)) in
      let recv := urexpand (urrecv c) in
      forallb (fun v => (0 <=? v) && (1 <=? urtag v) && (urtag v <=? P)) recv &&
      urprods_ok (urclosed c) recv 1 (urprods c)
  end.

Definition urmismatches (cs : list urcase) : list nat := fail_ids urobs_ok urcid cs.
