(* MV.C15.RingModel — executable model of toolkit/buffer/ring.go (Ring[T], T := Z).
   Transcribes the cursor arithmetic of the Go code statement by statement (layer C).
   No proofs here: this file must keep evaluating even when a proof breaks. *)
From MV Require Import Lib.ListX.
Open Scope nat_scope.

Record ring := { buf : list Z; initSize : nat; size : nat; rd : nat; wr : nat }.

(* NewRing(initSize...): missing or < 2 ==> 2 *)
Definition new_ring (n : Z) : ring :=
  let k := if (n <? 2)%Z then 2 else Z.to_nat n in
  {| buf := repeat 0%Z k; initSize := k; size := k; rd := 0; wr := 0 |}.

Inductive op :=
| Write (v : Z) | Read | ReadMulti (n : Z) | ReadAll | Peek | IsEmpty | Cap | Len | Reset.

Inductive out :=
| OUnit
| OVal (v : option Z)              (* None = ErrBufferIsEmpty *)
| OMulti (err : bool) (l : list Z) (* ReadMulti: (data, err) *)
| OList (l : list Z)               (* ReadAll; nil and empty slice are identified *)
| OBool (b : bool)
| ONat (n : nat)
| OBad.                              (* never produced by the model: panics and unrepresentable outputs of the implementation *)

Definition grow (b : ring) : ring :=
  let size' := if size b <? 1024 then size b * 2 else size b + size b / 4 in
  {| buf := (skipn (rd b) (buf b) ++ firstn (rd b) (buf b)) ++ repeat 0%Z (size' - size b);
     initSize := initSize b; size := size'; rd := 0; wr := size b |}.

Definition write (b : ring) (v : Z) : ring :=
  let buf1 := upd (wr b) v (buf b) in
  let w1 := S (wr b) in
  let w2 := if w1 =? size b then 0 else w1 in
  let b2 := {| buf := buf1; initSize := initSize b; size := size b; rd := rd b; wr := w2 |} in
  if w2 =? rd b then grow b2 else b2.

Definition read (b : ring) : ring * out :=
  if rd b =? wr b then (b, OVal None)
  else
    let v := nth (rd b) (buf b) 0%Z in
    let r1 := S (rd b) in
    let r2 := if r1 =? size b then 0 else r1 in
    ({| buf := buf b; initSize := initSize b; size := size b; rd := r2; wr := wr b |}, OVal (Some v)).

Definition set_rd (b : ring) (r : nat) : ring :=
  {| buf := buf b; initSize := initSize b; size := size b; rd := r; wr := wr b |}.

(* ReadMulti as repaired by the fix: commit (wrapped branch: r = (r + n) % size). *)
Definition read_multi (b : ring) (n : Z) : ring * out :=
  if (n <=? 0)%Z then (b, OMulti false [])
  else if rd b =? wr b then (b, OMulti true [])
  else
    let len := if rd b <? wr b then wr b - rd b else length (buf b) - rd b + wr b in
    let n' := Nat.min (Z.to_nat n) len in
    if rd b <? wr b then
      let data := firstn n' (skipn (rd b) (buf b)) in
      let r1 := rd b + n' in
      (set_rd b (if r1 =? size b then 0 else r1), OMulti false data)
    else
      let part1 := firstn n' (skipn (rd b) (buf b)) in
      let copied := length part1 in
      let part2 := if copied <? n' then firstn (n' - copied) (buf b) else [] in
      let r1 := (rd b + n') mod size b in
      (set_rd b (if r1 =? size b then 0 else r1), OMulti false (part1 ++ part2)).

Definition read_all (b : ring) : ring * out :=
  if rd b =? wr b then (b, OList [])
  else
    let data := if rd b <? wr b then firstn (wr b - rd b) (skipn (rd b) (buf b))
                else skipn (rd b) (buf b) ++ firstn (wr b) (buf b) in
    ({| buf := buf b; initSize := initSize b; size := size b; rd := 0; wr := 0 |}, OList data).

Definition peek (b : ring) : out :=
  if rd b =? wr b then OVal None else OVal (Some (nth (rd b) (buf b) 0%Z)).

Definition len (b : ring) : nat :=
  if rd b =? wr b then 0
  else if rd b <? wr b then wr b - rd b else size b - rd b + wr b.

Definition reset (b : ring) : ring :=
  {| buf := firstn (initSize b) (buf b); initSize := initSize b; size := initSize b; rd := 0; wr := 0 |}.

Definition step (b : ring) (o : op) : ring * out :=
  match o with
  | Write v => (write b v, OUnit)
  | Read => read b
  | ReadMulti n => read_multi b n
  | ReadAll => read_all b
  | Peek => (b, peek b)
  | IsEmpty => (b, OBool (rd b =? wr b))
  | Cap => (b, ONat (size b))
  | Len => (b, ONat (len b))
  | Reset => (reset b, OUnit)
  end.

Fixpoint run (b : ring) (ops : list op) : ring * list out :=
  match ops with
  | [] => (b, [])
  | o :: t => let '(b1, x) := step b o in let '(b2, xs) := run b1 t in (b2, x :: xs)
  end.

(* ---------- abstract specification: a FIFO list ---------- *)
Definition spec_step (q : list Z) (o : op) : list Z * out :=
  match o with
  | Write v => (q ++ [v], OUnit)
  | Read => match q with [] => (q, OVal None) | x :: t => (t, OVal (Some x)) end
  | ReadMulti n =>
      if (n <=? 0)%Z then (q, OMulti false [])
      else match q with
           | [] => (q, OMulti true [])
           | _ => (skipn (Z.to_nat n) q, OMulti false (firstn (Z.to_nat n) q))
           end
  | ReadAll => ([], OList q)
  | Peek => (q, OVal (hd_error q))
  | IsEmpty => (q, OBool (match q with [] => true | _ => false end))
  | Cap => (q, ONat 0)                       (* capacity is not part of the FIFO contract *)
  | Len => (q, ONat (length q))
  | Reset => ([], OUnit)
  end.

Fixpoint spec_run (q : list Z) (ops : list op) : list Z * list out :=
  match ops with
  | [] => (q, [])
  | o :: t => let '(q1, x) := spec_step q o in let '(q2, xs) := spec_run q1 t in (q2, x :: xs)
  end.

(* what the ring currently holds, oldest first *)
Definition contents (b : ring) : list Z :=
  if rd b <=? wr b then firstn (wr b - rd b) (skipn (rd b) (buf b))
  else skipn (rd b) (buf b) ++ firstn (wr b) (buf b).

(* outputs agree; for Cap the only contract is "strictly more room than elements" *)
Definition out_rel (q_before : list Z) (o : op) (m s : out) : Prop :=
  match o with
  | Cap => exists c, m = ONat c /\ length q_before < c
  | _ => m = s
  end.
