(* MV.C15.BacklogProofs — the channel+backlog containers (buffer.Unbounded, channels.UnboundedBacklog)
   are loss-free FIFOs: conservation equation for every operation sequence, nothing stranded under
   the documented Get;Load protocol, drain corollary, behaviour after Close. *)
From MV Require Import Lib.ListX C15.BacklogModel.

(* ------------------------------------------------------------------ running *)

Lemma brun_cons s o t :
  brun s (o :: t) =
  (fst (brun (fst (bstep s o)) t), snd (bstep s o) :: snd (brun (fst (bstep s o)) t)).
Proof.
  cbn [brun]. destruct (bstep s o) as [s1 x]. cbn [fst snd].
  destruct (brun s1 t) as [s2 xs]. reflexivity.
Qed.

Lemma brun_app s a b :
  brun s (a ++ b) =
  (fst (brun (fst (brun s a)) b), snd (brun s a) ++ snd (brun (fst (brun s a)) b)).
Proof.
  revert s; induction a as [|o t IH]; intros s.
  - cbn [app brun fst snd]. destruct (brun s b); reflexivity.
  - rewrite <- app_comm_cons, !brun_cons, IH. cbn [fst snd]. reflexivity.
Qed.

Lemma breceived_app a b : breceived (a ++ b) = breceived a ++ breceived b.
Proof.
  induction a as [|x t IH]; cbn [app breceived]; auto.
  destruct x; cbn [app]; rewrite ?IH; reflexivity.
Qed.

Lemma breceived_drain_outs l : breceived (bdrain_outs l) = l.
Proof. induction l as [|v t IH]; cbn [bdrain_outs breceived]; congruence. Qed.

(* ------------------------------------------------------------------ 1. conservation / FIFO *)

(* one step: what was received by this step ++ what is held afterwards
             = what was held before ++ what this step accepted *)
Lemma bstep_conserve s o :
  breceived [snd (bstep s o)] ++ bheld (fst (bstep s o)) =
  bheld s ++ (if bclosed s then [] else match o with BPut v => [v] | _ => [] end).
Proof.
  destruct s as [[x|] [|] [|y bl]], o; cbn; rewrite ?app_nil_r; try reflexivity.
  all: rewrite <- ?app_assoc; reflexivity.
Qed.

Lemma bstep_closed_after s o :
  bclosed (fst (bstep s o)) = match o with BClose => true | _ => bclosed s end.
Proof. destruct s as [[x|] [|] [|y bl]], o; reflexivity. Qed.

Lemma backlog_fifo_gen ops : forall s,
  breceived (snd (brun s ops)) ++ bheld (fst (brun s ops)) =
  bheld s ++ (if bclosed s then [] else baccepted ops).
Proof.
  induction ops as [|o t IH]; intros s.
  - cbn [brun fst snd breceived app baccepted]. destruct (bclosed s); rewrite app_nil_r; reflexivity.
  - rewrite brun_cons. cbn [fst snd].
    change (snd (bstep s o) :: snd (brun (fst (bstep s o)) t))
      with ([snd (bstep s o)] ++ snd (brun (fst (bstep s o)) t)).
    rewrite breceived_app, <- app_assoc, IH, app_assoc, bstep_conserve, bstep_closed_after.
    rewrite <- app_assoc. f_equal.
    destruct (bclosed s), o; cbn [app baccepted]; reflexivity.
Qed.

Lemma backlog_fifo : forall ops : list bop,
  breceived (snd (brun binit ops)) ++ bheld (fst (brun binit ops)) = baccepted ops.
Proof. intros ops. rewrite backlog_fifo_gen. reflexivity. Qed.

(* ------------------------------------------------------------------ 2. the protocol *)

(* protocol invariant: open, and the backlog is only non-empty while the channel cell is full *)
Definition binv (s : bstate) : Prop :=
  bclosed s = false /\ (bslot s = None -> bbacklog s = []).

Lemma binv_init : binv binit.
Proof. split; reflexivity. Qed.

Lemma binv_put s v : binv s -> binv (bput s v).
Proof.
  destruct s as [[x|] [|] [|y bl]]; intros [Hc Hb]; cbn in *; try discriminate;
    split; cbn; try reflexivity; try discriminate; auto.
  specialize (Hb eq_refl). discriminate.
Qed.

Lemma binv_load s : binv s -> binv (bload s).
Proof.
  destruct s as [[x|] [|] [|y bl]]; intros [Hc Hb]; cbn in *; try discriminate;
    split; cbn; try reflexivity; try discriminate; auto.
Qed.

Lemma binv_get_load s : binv s -> binv (bload (fst (bget s))).
Proof.
  destruct s as [[x|] [|] [|y bl]]; intros [Hc Hb]; cbn in *; try discriminate;
    split; cbn; try reflexivity; try discriminate; auto.
Qed.

Lemma bget_none s : bslot s = None -> fst (bget s) = s.
Proof. unfold bget. intros ->. reflexivity. Qed.

Lemma bprotocol_inv_n : forall n ops s,
  length ops <= n -> binv s -> bprotocol s ops = true -> binv (fst (brun s ops)).
Proof.
  induction n as [|n IH]; intros ops s Hn Hi Hp.
  - destruct ops; [exact Hi | cbn in Hn; lia].
  - destruct ops as [|o t]; [exact Hi|].
    cbn [length] in Hn. rewrite brun_cons. cbn [fst].
    destruct o.
    + cbn [bprotocol] in Hp. apply IH; [lia | apply binv_put; exact Hi | exact Hp].
    + cbn [bprotocol] in Hp. apply IH; [lia | apply binv_load; exact Hi | exact Hp].
    + cbn [bprotocol] in Hp. destruct (bslot s) as [x|] eqn:Hs.
      * destruct t as [|o2 t2]; [discriminate|].
        destruct o2; try discriminate.
        rewrite brun_cons. cbn [fst]. cbn [length] in Hn.
        cbn [bprotocol] in Hp.
        apply IH; [lia | apply (binv_get_load s Hi) | exact Hp].
      * cbn [bstep]. rewrite (bget_none s Hs).
        apply IH; [lia | exact Hi |]. destruct t; exact Hp.
    + cbn [bprotocol] in Hp. discriminate.
    + cbn [bprotocol] in Hp. apply IH; [lia | exact Hi | exact Hp].
Qed.

Lemma bprotocol_inv ops : bprotocol binit ops = true -> binv (fst (brun binit ops)).
Proof. intros H. apply (bprotocol_inv_n (length ops)); auto using binv_init. Qed.

Lemma bprotocol_no_close : forall ops s, bprotocol s ops = true -> bhas_close ops = false.
Proof.
  induction ops as [|o t IH]; intros s Hp; [reflexivity|].
  destruct o; cbn [bprotocol bhas_close] in *; try discriminate; try (eapply IH; exact Hp).
  destruct (bslot s); [|destruct t; eapply IH; exact Hp].
  destruct t as [|o2 t2]; [discriminate|]. destruct o2; try discriminate. eapply IH; exact Hp.
Qed.

(* the syntactic protocol implies the semantic one, from every state *)
Lemma bstrict_protocol : forall ops s, bstrict ops = true -> bprotocol s ops = true.
Proof.
  induction ops as [|o t IH]; intros s Hs; [reflexivity|].
  destruct o; cbn [bstrict bprotocol] in *; try discriminate; try (apply IH; exact Hs).
  destruct t as [|o2 t2]; [discriminate|]. destruct o2; try discriminate.
  destruct (bslot s); apply IH; exact Hs.
Qed.

Lemma bget_empty_iff s : snd (bget s) = BOEmpty <-> bslot s = None /\ bclosed s = false.
Proof.
  unfold bget. destruct (bslot s), (bclosed s); cbn; split; try discriminate; auto.
  all: intros [H1 H2]; discriminate.
Qed.

Lemma backlog_no_loss_under_protocol : forall ops : list bop,
  bprotocol binit ops = true ->
  let s := fst (brun binit ops) in
  (bslot s = None -> bbacklog s = []) /\
  (snd (bstep s BGet) = BOEmpty -> breceived (snd (brun binit ops)) = baccepted ops).
Proof.
  intros ops Hp s. pose proof (bprotocol_inv ops Hp) as [Hc Hb]. fold s in Hc, Hb.
  split; [exact Hb|]. cbn [bstep]. intros He. apply bget_empty_iff in He as [Hs _].
  pose proof (backlog_fifo ops) as Hf. fold s in Hf.
  unfold bheld in Hf. rewrite Hs, (Hb Hs), app_nil_r in Hf. exact Hf.
Qed.

Lemma backlog_strict_protocol_suffices : forall ops : list bop,
  bstrict ops = true -> bprotocol binit ops = true.
Proof. intros ops H. apply bstrict_protocol. exact H. Qed.

(* ------------------------------------------------------------------ drain corollary *)

Lemma bdrain_full : forall bl v,
  brun {| bslot := Some v; bclosed := false; bbacklog := bl |} (bdrain (S (length bl))) =
  ({| bslot := None; bclosed := false; bbacklog := [] |}, bdrain_outs (v :: bl)).
Proof.
  induction bl as [|y bl IH]; intros v.
  - reflexivity.
  - cbn [length]. change (bdrain (S (S (length bl)))) with (BGet :: BLoad :: bdrain (S (length bl))).
    rewrite !brun_cons. cbn [bstep bget bload bslot bclosed bbacklog fst snd].
    rewrite IH. reflexivity.
Qed.

Lemma bdrain_inv s : binv s ->
  brun s (bdrain (length (bheld s))) =
  ({| bslot := None; bclosed := false; bbacklog := [] |}, bdrain_outs (bheld s)).
Proof.
  destruct s as [[v|] c bl]; intros [Hc Hb]; cbn in Hc, Hb; subst c.
  - unfold bheld. cbn [bslot bbacklog length]. apply bdrain_full.
  - rewrite (Hb eq_refl). reflexivity.
Qed.

Lemma bprotocol_app_n : forall n a s b,
  length a <= n -> bprotocol s a = true ->
  bprotocol s (a ++ b) = bprotocol (fst (brun s a)) b.
Proof.
  induction n as [|n IH]; intros a s b Hn Hp.
  - destruct a; [reflexivity | cbn in Hn; lia].
  - destruct a as [|o t]; [reflexivity|].
    cbn [length] in Hn. rewrite brun_cons. cbn [fst]. rewrite <- app_comm_cons.
    destruct o; cbn [bprotocol] in *; try discriminate; try (apply IH; [lia | exact Hp]).
    destruct (bslot s) as [x|] eqn:Hs.
    + destruct t as [|o2 t2]; [discriminate|]. destruct o2; try discriminate.
      rewrite <- app_comm_cons. cbn [bprotocol] in *. rewrite brun_cons. cbn [fst].
      cbn [length] in Hn. apply IH; [lia | exact Hp].
    + cbn [bstep]. rewrite (bget_none s Hs).
      assert (Hp' : bprotocol s t = true) by (destruct t; exact Hp).
      rewrite <- (IH t s b); [destruct (t ++ b); reflexivity | lia | exact Hp'].
Qed.

Lemma bstrict_drain n : bstrict (bdrain n) = true.
Proof. induction n; cbn; auto. Qed.

Lemma backlog_drain_under_protocol : forall ops : list bop,
  bprotocol binit ops = true ->
  let s := fst (brun binit ops) in
  let l := bheld s in
  let d := bdrain (length l) in
  snd (brun s d) = bdrain_outs l /\
  bheld (fst (brun s d)) = [] /\
  bprotocol binit (ops ++ d) = true /\
  breceived (snd (brun binit (ops ++ d))) = baccepted ops.
Proof.
  intros ops Hp s l d. pose proof (bprotocol_inv ops Hp) as Hi. fold s in Hi.
  pose proof (bdrain_inv s Hi) as Hd. fold l in Hd. fold d in Hd.
  repeat split.
  - rewrite Hd. reflexivity.
  - rewrite Hd. reflexivity.
  - rewrite (bprotocol_app_n (length ops)); [|lia|exact Hp]. fold s.
    apply bstrict_protocol, bstrict_drain.
  - rewrite brun_app. cbn [snd]. fold s. rewrite Hd. cbn [snd].
    rewrite breceived_app, breceived_drain_outs. apply backlog_fifo.
Qed.

(* ------------------------------------------------------------------ 3. after Close *)

Lemma bclosed_step s o : bclosed s = true ->
  bclosed (fst (bstep s o)) = true /\ (bslot s = None -> bslot (fst (bstep s o)) = None).
Proof. destruct s as [[x|] [|] bl], o; cbn; intros H; try discriminate; auto. Qed.

Lemma bclosed_run : forall ops s, bclosed s = true ->
  bclosed (fst (brun s ops)) = true /\ (bslot s = None -> bslot (fst (brun s ops)) = None).
Proof.
  induction ops as [|o t IH]; intros s Hc; [cbn; auto|].
  rewrite brun_cons. cbn [fst].
  destruct (bclosed_step s o Hc) as [H1 H2]. destruct (IH _ H1) as [H3 H4]. auto.
Qed.

Lemma bisclosed_exact : forall ops s,
  bclosed (fst (brun s ops)) = bclosed s || bhas_close ops.
Proof.
  induction ops as [|o t IH]; intros s.
  - cbn. rewrite orb_false_r. reflexivity.
  - rewrite brun_cons. cbn [fst]. rewrite IH, bstep_closed_after.
    destruct o; cbn [bhas_close]; try reflexivity. rewrite orb_true_r. reflexivity.
Qed.

Lemma bhas_close_In ops : In BClose ops -> bhas_close ops = true.
Proof.
  induction ops as [|o t IH]; intros H; [destruct H|].
  destruct o; cbn [bhas_close]; try reflexivity; destruct H as [H|H]; try discriminate; auto.
Qed.

Lemma backlog_closed_reports : forall ops ops' : list bop,
  let s1 := fst (brun binit ops) in
  let s2 := fst (brun binit (ops ++ ops')) in
  snd (bstep s1 BIsClosed) = BOBool (bhas_close ops) /\
  (In BClose ops ->
     snd (bstep s2 BIsClosed) = BOBool true /\
     (bslot s1 = None -> snd (bstep s2 BGet) = BOClosed)).
Proof.
  intros ops ops' s1 s2. split.
  - cbn [bstep snd]. unfold s1. rewrite bisclosed_exact. reflexivity.
  - intros Hin. assert (Hc1 : bclosed s1 = true).
    { unfold s1. rewrite bisclosed_exact. cbn. apply bhas_close_In, Hin. }
    assert (Hs2 : s2 = fst (brun s1 ops')) by (unfold s2; rewrite brun_app; reflexivity).
    destruct (bclosed_run ops' s1 Hc1) as [Hc2 Hn2]. rewrite <- Hs2 in Hc2, Hn2.
    split.
    + cbn [bstep snd]. rewrite Hc2. reflexivity.
    + intros Hn. cbn [bstep]. unfold bget. rewrite (Hn2 Hn), Hc2. reflexivity.
Qed.
