(* MV.C15.UrPumpProofs — invariants of the UnboundedRing machine over every reachable state
   (every schedule, any number of putters and closers, cancellation at any moment, any channel capacity). *)
From MV Require Import Lib.ListX Lib.Sched C15.UrPumpModel.
From Coq Require Import ZifyBool.
Open Scope Z_scope.
Arguments Z.add : simpl never.
Arguments Z.sub : simpl never.
Arguments Z.of_nat : simpl never.
Arguments Nat.sub : simpl never.
Arguments Nat.ltb : simpl never.

Definition ur_b2z (b : bool) : Z := if b then 1 else 0.

(* ---- indicator functions over pcs ---- *)
(* holds the write lock / a read lock *)
Definition ur_hw (l : urpc) : Z :=
  match l with
  | UrPutChk _ | UrPutWrite _ | UrPutUnlockErr
  | UrPmChkEmpty | UrPmChkClosed | UrPmCloseCh | UrPmUnlockRet | UrPmWait | UrPmRead | UrPmUnlock _ => 1
  | _ => 0
  end.
Definition ur_hr (l : urpc) : Z := match l with UrClSet _ | UrClRUnlock _ => 1 | _ => 0 end.
(* the pump before it has closed the channel *)
Definition ur_act (l : urpc) : Z :=
  match l with
  | UrPmSelect | UrClRLock UrKPump | UrClSet UrKPump | UrClRUnlock UrKPump | UrClSignal UrKPump
  | UrPmLock | UrPmChkEmpty | UrPmChkClosed | UrPmCloseCh | UrPmWait | UrPmWake | UrPmRead
  | UrPmUnlock _ | UrPmSend _ => 1
  | _ => 0
  end.
(* the pump after close(ch) *)
Definition ur_post (l : urpc) : Z := match l with UrPmUnlockRet | UrPmDone => 1 | _ => 0 end.
(* under the write lock, having read closed = false *)
Definition ur_nc (l : urpc) : Z := match l with UrPutWrite _ | UrPmWait => 1 | _ => 0 end.
(* under the write lock, having seen the ring empty *)
Definition ur_emp (l : urpc) : Z := match l with UrPmChkClosed | UrPmCloseCh | UrPmWait => 1 | _ => 0 end.
(* under the write lock, having read closed = true *)
Definition ur_cc (l : urpc) : Z := match l with UrPmCloseCh => 1 | _ => 0 end.
(* inside Close() after the store: closed is true, the Signal is still to come *)
Definition ur_sig (l : urpc) : Z := match l with UrClRUnlock _ | UrClSignal _ => 1 | _ => 0 end.
(* the watcher, waiting or inside its Close() *)
Definition ur_wl (l : urpc) : Z :=
  match l with
  | UrWatch | UrClRLock UrKWatch | UrClSet UrKWatch | UrClRUnlock UrKWatch | UrClSignal UrKWatch => 1
  | _ => 0
  end.
Definition ur_cons (l : urpc) : Z := match l with UrCons => 1 | _ => 0 end.
(* the as-is pump anywhere but at its select or inside the Close() called from it *)
Definition ur_nospin (l : urpc) : Z :=
  match l with
  | UrPmLock | UrPmChkEmpty | UrPmChkClosed | UrPmCloseCh | UrPmUnlockRet | UrPmDone | UrPmWait | UrPmWake
  | UrPmRead | UrPmUnlock _ | UrPmSend _ => 1
  | _ => 0
  end.

Section WithR.
Variable r : bool.
Notation M := (UrPump r).
Definition urT (f : urpc -> Z) (p : pool M) : Z := @total M f p.

Lemma ur_total_minus (f g : urpc -> Z) (p : pool M) :
  @total M (fun x => f x - g x) p = @total M f p - @total M g p.
Proof. induction p as [|[l|] t IH]; simpl in *; try rewrite IH; lia. Qed.

(* g-threads hold the write lock; if thread i holds it and is not a g-thread, there is no g-thread *)
Lemma ur_excl (g : urpc -> Z) (p : pool M) i l :
  (forall x, 0 <= g x <= ur_hw x) -> nth_error p i = Some (Some l) ->
  ur_hw l - g l <= urT ur_hw p - urT g p.
Proof.
  intros Hg Hn. unfold urT. rewrite <- ur_total_minus.
  apply (total_ge_nth M (fun x => ur_hw x - g x) p i l); [|exact Hn].
  intros x. specialize (Hg x). lia.
Qed.

Lemma ur_nn_hw l : 0 <= ur_hw l. Proof. destruct l; simpl; lia. Qed.
Lemma ur_nn_hr l : 0 <= ur_hr l. Proof. destruct l; simpl; lia. Qed.
Lemma ur_nn_act l : 0 <= ur_act l. Proof. destruct l as [| | | | | |k|k|k|k| | | | | | | | | | | | | |]; try destruct k; simpl; lia. Qed.
Lemma ur_nn_post l : 0 <= ur_post l. Proof. destruct l; simpl; lia. Qed.
Lemma ur_nn_sig l : 0 <= ur_sig l. Proof. destruct l; simpl; lia. Qed.
Lemma ur_nn_wl l : 0 <= ur_wl l. Proof. destruct l as [| | | | | |k|k|k|k| | | | | | | | | | | | | |]; try destruct k; simpl; lia. Qed.
Lemma ur_nn_cons l : 0 <= ur_cons l. Proof. destruct l; simpl; lia. Qed.
Lemma ur_nn_nospin l : 0 <= ur_nospin l. Proof. destruct l; simpl; lia. Qed.
Lemma ur_nc_hw l : 0 <= ur_nc l <= ur_hw l. Proof. destruct l; simpl; lia. Qed.
Lemma ur_emp_hw l : 0 <= ur_emp l <= ur_hw l. Proof. destruct l; simpl; lia. Qed.
Lemma ur_cc_hw l : 0 <= ur_cc l <= ur_hw l. Proof. destruct l; simpl; lia. Qed.

(* ================= invariant A: locks, the pump's phases, flags (linear facts) ================= *)
Definition ur_InvA (st : state M) : Prop :=
  let s := fst st in let p := snd st in
  urT ur_hw p = ur_b2z (ur_writer s) /\
  urT ur_hr p = Z.of_nat (ur_readers s) /\
  (ur_writer s = true -> ur_readers s = 0%nat) /\
  urT ur_act p + ur_b2z (ur_chclosed s) = 1 /\
  urT ur_nc p + ur_b2z (ur_closed s) <= 1 /\
  urT ur_cc p <= ur_b2z (ur_closed s) /\
  ur_b2z (ur_chclosed s) <= ur_b2z (ur_closed s) /\
  urT ur_post p <= ur_b2z (ur_chclosed s) /\
  ur_b2z (ur_done s) <= ur_b2z (ur_chclosed s) /\
  (1 <= urT ur_sig p -> ur_closed s = true).

Lemma ur_invA_init cap : ur_InvA (ur_init r cap).
Proof.
  unfold ur_InvA, ur_init, urT, ur_top. destruct r; simpl; repeat split; intros; try lia; try reflexivity; discriminate.
Qed.

Ltac ur_pose_facts p i l Hn :=
  pose proof (total_ge_nth M ur_hw p i l ur_nn_hw Hn) as Ghw;
  pose proof (total_ge_nth M ur_hr p i l ur_nn_hr Hn) as Ghr;
  pose proof (total_ge_nth M ur_act p i l ur_nn_act Hn) as Gact;
  pose proof (total_ge_nth M ur_post p i l ur_nn_post Hn) as Gpost;
  pose proof (total_ge_nth M ur_sig p i l ur_nn_sig Hn) as Gsig;
  pose proof (total_ge_nth M ur_nc p i l (fun x => proj1 (ur_nc_hw x)) Hn) as Gnc;
  pose proof (total_ge_nth M ur_emp p i l (fun x => proj1 (ur_emp_hw x)) Hn) as Gemp;
  pose proof (total_ge_nth M ur_cc p i l (fun x => proj1 (ur_cc_hw x)) Hn) as Gcc;
  pose proof (total_nonneg M ur_sig p ur_nn_sig) as Nsig;
  pose proof (total_nonneg M ur_post p ur_nn_post) as Npost;
  pose proof (ur_excl ur_nc p i l ur_nc_hw Hn) as Xnc;
  pose proof (ur_excl ur_emp p i l ur_emp_hw Hn) as Xemp;
  pose proof (ur_excl ur_cc p i l ur_cc_hw Hn) as Xcc;
  pose proof (total_nonneg M ur_nc p (fun x => proj1 (ur_nc_hw x))) as Nnc;
  pose proof (total_nonneg M ur_emp p (fun x => proj1 (ur_emp_hw x))) as Nemp;
  pose proof (total_nonneg M ur_cc p (fun x => proj1 (ur_cc_hw x))) as Ncc.

(* case analysis of one step of thread l: every condition the step function inspects *)
Ltac ur_cases :=
  repeat match goal with
  | |- context [match ?c with UrCNone => _ | _ => _ end] => destruct c
  | |- context [match ?k with UrKCloser => _ | _ => _ end] => destruct k
  | |- context [match ?vs with [] => _ | _ :: _ => _ end] => let Hq := fresh "Hq" in destruct vs eqn:Hq
  | |- context [if ur_free ?s then _ else _] => let Hf := fresh "Hf" in destruct (ur_free s) eqn:Hf
  | |- context [if ur_closed ?s then _ else _] => let Hc := fresh "Hc" in destruct (ur_closed s) eqn:Hc
  | |- context [if ur_writer ?s then _ else _] => let Hw := fresh "Hw" in destruct (ur_writer s) eqn:Hw
  | |- context [if ur_done ?s then _ else _] => let Hd := fresh "Hd" in destruct (ur_done s) eqn:Hd
  | |- context [if ur_cancelled ?s then _ else _] => let Hx := fresh "Hx" in destruct (ur_cancelled s) eqn:Hx
  | |- context [if ur_chclosed ?s then _ else _] => let Hcc := fresh "Hcc" in destruct (ur_chclosed s) eqn:Hcc
  | |- context [if negb (ur_parked ?s) && ur_free ?s then _ else _] =>
      let Hp := fresh "Hp" in let Hf := fresh "Hf" in destruct (ur_parked s) eqn:Hp; destruct (ur_free s) eqn:Hf; cbn [negb andb]
  | |- context [if Nat.ltb ?a ?b then _ else _] => let Hl := fresh "Hl" in destruct (Nat.ltb a b) eqn:Hl
  end.

Ltac ur_norm Hn :=
  unfold urT, ur_top in *; cbn [fst snd];
  repeat rewrite total_app; repeat rewrite (total_upd _ _ _ _ _ _ Hn);
  cbn [total fo map ur_hw ur_hr ur_act ur_post ur_nc ur_emp ur_cc ur_sig ur_wl ur_cons ur_nospin ur_top
       ur_set_writer ur_set_readers ur_set_closed ur_set_chclosed ur_set_parked ur_set_cancelled ur_set_done
       ur_wait ur_write ur_readall ur_send ur_recv
       ur_ring ur_readers ur_writer ur_closed ur_ch ur_cap ur_chclosed ur_parked ur_cancelled ur_done
       ur_accepted ur_received fst snd] in *.

Lemma ur_free_true s : ur_free s = true -> ur_writer s = false /\ ur_readers s = 0%nat.
Proof.
  unfold ur_free. intros H. apply andb_true_iff in H as [H1 H2].
  apply negb_true_iff in H1. apply Nat.eqb_eq in H2. auto.
Qed.

Lemma ur_invA_step st i c st' e : ur_InvA st -> gstep st i c = Some (st', e) -> ur_InvA st'.
Proof.
  destruct st as [s p]. unfold ur_InvA, gstep. cbn [fst snd].
  intros (Hw & Hr & Hwr & Hact & Hnc & Hcc & Hcl & Hpost & Hdone & Hsig).
  destruct (nth_error p i) as [[l|]|] eqn:Hn; try discriminate.
  ur_pose_facts p i l Hn.
  cbn [tstep UrPump]. destruct l; cbn [ur_step]; ur_cases; try discriminate;
  intros Hstep; inversion Hstep; subst; clear Hstep;
  repeat match goal with Hf : ur_free _ = true |- _ => apply ur_free_true in Hf; destruct Hf end;
  ur_norm Hn;
  try (match goal with |- context [if r then _ else _] => destruct r end;
       cbn [total fo map ur_hw ur_hr ur_act ur_post ur_nc ur_emp ur_cc ur_sig ur_wl ur_cons ur_nospin] in * );
  unfold ur_b2z in *;
  repeat match goal with Hx : ?b = true |- _ => rewrite Hx in * | Hx : ?b = false |- _ => rewrite Hx in * end;
  repeat split; intros;
  first [ lia | reflexivity | discriminate | congruence
        | (destruct (ur_writer s), (ur_closed s), (ur_chclosed s), (ur_done s); first [lia | congruence | (apply Hsig; lia) | (try specialize (Hwr eq_refl)); lia])
        | (apply Hsig; lia) ].
Qed.

(* ================= invariant B: the ring, the channel and the ghost histories ================= *)
Lemma ur_held_app (p q : list (option urpc)) : ur_held_pool (p ++ q) = ur_held_pool p ++ ur_held_pool q.
Proof. induction p as [|o t IH]; simpl; [reflexivity|]. rewrite IH, app_assoc. reflexivity. Qed.

Lemma ur_hl_inactive l : ur_act l = 0 -> ur_hl l = [].
Proof. destruct l; simpl; intros; try reflexivity; lia. Qed.

Lemma ur_held_upd_other (p : pool M) i l (x : option urpc) :
  nth_error p i = Some (Some l) -> ur_hl l = [] -> ur_hlo x = [] ->
  ur_held_pool (@upd (option urpc) i x p) = ur_held_pool p.
Proof.
  revert i; induction p as [|h t IH]; intros [|i] Hn Hl Hx; simpl in *; try discriminate.
  - inversion Hn; subst. simpl. rewrite Hl, Hx. reflexivity.
  - rewrite (IH i Hn Hl Hx). reflexivity.
Qed.

Lemma ur_held_zero (p : pool M) : urT ur_act p = 0 -> ur_held_pool p = [].
Proof.
  unfold urT. induction p as [|[l|] t IH]; simpl; intros H; try reflexivity.
  - pose proof (ur_nn_act l). pose proof (total_nonneg M ur_act t ur_nn_act).
    rewrite (ur_hl_inactive l) by lia. apply IH. lia.
  - apply IH. exact H.
Qed.

(* the only live pump thread is the one that holds values *)
Lemma ur_held_upd_pump (p : pool M) i l (x : option urpc) :
  urT ur_act p <= 1 -> nth_error p i = Some (Some l) -> ur_act l = 1 ->
  ur_held_pool p = ur_hl l /\ ur_held_pool (@upd (option urpc) i x p) = ur_hlo x.
Proof.
  unfold urT. revert i; induction p as [|h t IH]; intros [|i] Hle Hn Hl; simpl in *; try discriminate.
  - inversion Hn; subst. simpl in Hle.
    pose proof (total_nonneg M ur_act t ur_nn_act).
    rewrite (ur_held_zero t) by (unfold urT; lia). simpl. rewrite !app_nil_r. auto.
  - pose proof (total_ge_nth M ur_act t i l ur_nn_act Hn) as G.
    assert (Hh : ur_hlo h = []).
    { destruct h as [lh|]; [|reflexivity]. simpl. pose proof (ur_nn_act lh). apply ur_hl_inactive. lia. }
    assert (Hle' : @total M ur_act t <= 1) by (destruct h as [lh|]; [pose proof (ur_nn_act lh)|]; lia).
    destruct (IH i Hle' Hn Hl) as [E1 E2]. rewrite Hh, E1, E2. auto.
Qed.

Definition ur_InvB (st : state M) : Prop :=
  let s := fst st in let p := snd st in
  (1 <= urT ur_emp p -> ur_ring s = []) /\
  (ur_chclosed s = true -> ur_ring s = []) /\
  ur_accepted s = ur_received s ++ ur_ch s ++ ur_held_pool p ++ ur_ring s.

Lemma ur_invB_init cap : ur_InvB (ur_init r cap).
Proof. unfold ur_InvB, ur_init, urT, ur_top. destruct r; simpl; repeat split; intros; reflexivity. Qed.

Lemma ur_invB_step st i c st' e : ur_InvA st -> ur_InvB st -> gstep st i c = Some (st', e) -> ur_InvB st'.
Proof.
  destruct st as [s p]. unfold ur_InvA, ur_InvB, gstep. cbn [fst snd].
  intros (Hw & Hr & Hwr & Hact & Hnc & Hcc & Hcl & Hpost & Hdone & Hsig) (H1 & H2 & H3).
  destruct (nth_error p i) as [[l|]|] eqn:Hn; try discriminate.
  ur_pose_facts p i l Hn.
  assert (Hle : urT ur_act p <= 1) by (unfold ur_b2z in Hact; destruct (ur_chclosed s); lia).
  assert (Hw1 : urT ur_hw p <= 1) by (unfold ur_b2z in Hw; destruct (ur_writer s); lia).
  cbn [tstep UrPump]. destruct l; cbn [ur_step]; ur_cases; try discriminate;
  intros Hstep; inversion Hstep; subst; clear Hstep;
  (split; [ (* seen empty -> ring empty *)
    ur_norm Hn; try (match goal with |- context [if r then _ else _] => destruct r end; cbn [fo ur_emp] in * );
    intros;
    first [ reflexivity | assumption | congruence | (apply H1; lia) | (exfalso; lia) ]
  | split; [ (* channel closed -> ring empty *)
    ur_norm Hn; unfold ur_b2z in *; intros;
    first [ reflexivity | (apply H2; first [assumption | reflexivity]) | (apply H1; lia) | congruence
          | (exfalso; destruct (ur_closed s), (ur_chclosed s); first [discriminate | lia]) ]
  | (* conservation *)
    cbn [fst snd ur_set_writer ur_set_readers ur_set_closed ur_set_chclosed ur_set_parked ur_set_cancelled ur_set_done
         ur_wait ur_write ur_readall ur_send ur_recv ur_ring ur_ch ur_accepted ur_received];
    rewrite ur_held_app; cbn [map ur_held_pool ur_hlo ur_hl app]; rewrite ?app_nil_r;
    try match goal with |- context [if r then _ else _] => destruct r end;
    repeat match goal with Hq : ur_ring s = _ |- _ => rewrite Hq in *; clear Hq end;
    match goal with |- context [upd i ?x p] =>
      first [ (destruct (ur_held_upd_pump p i _ x Hle Hn eq_refl) as [E1 E2];
               rewrite E2; rewrite E1 in H3; cbn [ur_hlo ur_hl app] in *; unfold ur_top; try destruct r)
            | rewrite (ur_held_upd_other p i _ x Hn) by reflexivity ]
    end;
    cbn [ur_hlo ur_hl app] in *;
    try match goal with Hq : ur_ch s = _ |- _ => rewrite ?Hq end;
    first [ assumption
          | (rewrite H3; rewrite ?app_nil_r; repeat rewrite <- app_assoc; cbn [app]; reflexivity)
          | (match goal with Hq : ur_ch s = _ |- _ => rewrite Hq in H3 end;
             rewrite H3; rewrite ?app_nil_r; repeat rewrite <- app_assoc; cbn [app]; reflexivity) ]
  ] ]).
Qed.

(* ================= reachable states ================= *)
Definition ur_Inv (st : state M) : Prop := ur_InvA st /\ ur_InvB st.

Lemma ur_inv_reach cap st : reach (ur_init r cap) st -> ur_Inv st.
Proof.
  apply (inv_reach M (ur_init r cap) ur_Inv).
  - split; [apply ur_invA_init | apply ur_invB_init].
  - intros s0 i c s1 e [HA HB] Hs. split; [eapply ur_invA_step | eapply ur_invB_step]; eauto.
Qed.

Lemma ur_reach_trans (a b c : state M) : reach a b -> reach b c -> reach a c.
Proof. intros Hab Hbc. induction Hbc; [assumption|]. econstructor; eauto. Qed.

(* FIFO conservation: what the Puts wrote is, in order, what the consumer received, then the channel
   buffer, then what the pump holds locally, then the ring *)
Theorem ur_prefix cap st : reach (ur_init r cap) st ->
  ur_accepted (fst st) = ur_received (fst st) ++ ur_ch (fst st) ++ ur_held st ++ ur_ring (fst st).
Proof. intros Hr. destruct (ur_inv_reach cap st Hr) as [_ (_ & _ & H)]. exact H. Qed.

(* the observable consequence used by the trace check: restricted to any class of values (one producer's),
   the received values are a prefix of the accepted ones *)
Corollary ur_filter_prefix cap st (f : nat -> bool) : reach (ur_init r cap) st ->
  exists rest, filter f (ur_accepted (fst st)) = filter f (ur_received (fst st)) ++ rest.
Proof.
  intros Hr. rewrite (ur_prefix cap st Hr), filter_app. eexists. reflexivity.
Qed.

(* once the output channel is closed nothing is left behind *)
Theorem ur_drains cap st : reach (ur_init r cap) st -> ur_chclosed (fst st) = true ->
  ur_closed (fst st) = true /\ ur_ring (fst st) = [] /\ ur_held st = [] /\
  ur_accepted (fst st) = ur_received (fst st) ++ ur_ch (fst st).
Proof.
  intros Hr Hc. destruct (ur_inv_reach cap st Hr) as [HA (_ & H2 & H3)].
  destruct HA as (_ & _ & _ & Hact & _ & _ & Hcl & _).
  rewrite Hc in *. unfold ur_b2z in *.
  assert (Hh : ur_held st = []) by (apply ur_held_zero; lia).
  unfold ur_held in *. rewrite H3, Hh, (H2 eq_refl), !app_nil_r.
  repeat split; try reflexivity. destruct (ur_closed (fst st)); [reflexivity|lia].
Qed.

(* closed (and the closed channel) are stable and no Put is accepted once closed is set *)
Lemma ur_closed_step st i c st' e : ur_InvA st -> ur_closed (fst st) = true -> gstep st i c = Some (st', e) ->
  ur_closed (fst st') = true /\ ur_accepted (fst st') = ur_accepted (fst st) /\
  (ur_chclosed (fst st) = true -> ur_chclosed (fst st') = true).
Proof.
  destruct st as [s p]. unfold ur_InvA, gstep. cbn [fst snd].
  intros (Hw & Hr & Hwr & Hact & Hnc & Hcc & Hcl & Hpost & Hdone & Hsig) Hc.
  destruct (nth_error p i) as [[l|]|] eqn:Hn; try discriminate.
  pose proof (total_ge_nth M ur_nc p i l (fun x => proj1 (ur_nc_hw x)) Hn) as Gnc.
  rewrite Hc in *. unfold ur_b2z in *.
  cbn [tstep UrPump]. destruct l; cbn [ur_step]; ur_cases; try discriminate;
  intros Hstep; inversion Hstep; subst; clear Hstep; ur_norm Hn;
  first [ (exfalso; lia) | (repeat split; first [assumption | reflexivity | (intros; assumption)]) ].
Qed.

Theorem ur_closed_stable cap st st' : reach (ur_init r cap) st -> reach st st' -> ur_closed (fst st) = true ->
  ur_closed (fst st') = true /\ ur_accepted (fst st') = ur_accepted (fst st) /\
  (ur_chclosed (fst st) = true -> ur_chclosed (fst st') = true).
Proof.
  intros Hr Hr' Hc. induction Hr' as [|s1 i c s2 e Hr1 IH Hs].
  - auto.
  - destruct IH as (I1 & I2 & I3).
    destruct (ur_inv_reach cap s1 (ur_reach_trans _ _ _ Hr Hr1)) as [HA _].
    destruct (ur_closed_step s1 i c s2 e HA I1 Hs) as (J1 & J2 & J3).
    repeat split; [assumption | congruence | auto].
Qed.

(* the pump never sends on, or closes, a closed channel (either would panic) *)
Theorem ur_no_chan_panic cap st i l : reach (ur_init r cap) st -> nth_error (snd st) i = Some (Some l) ->
  ur_act l = 1 -> ur_chclosed (fst st) = false.
Proof.
  intros Hr Hn Hl. destruct (ur_inv_reach cap st Hr) as [HA _].
  destruct HA as (_ & _ & _ & Hact & _).
  pose proof (total_ge_nth M ur_act (snd st) i l ur_nn_act Hn) as G.
  unfold urT, ur_b2z in *. destruct (ur_chclosed (fst st)); [lia|reflexivity].
Qed.

(* ================= invariant Q: progress obligations (who still has to act) ================= *)
Definition ur_InvQ (st : state M) : Prop :=
  let s := fst st in let p := snd st in
  (* the consumer is there as long as the channel is open *)
  1 - ur_b2z (ur_chclosed s) <= urT ur_cons p /\
  (* once it has ended the channel buffer is empty *)
  (urT ur_cons p = 0 -> ur_ch s = []) /\
  (* closed and the pump parked: some Close() still owes its Signal *)
  ur_b2z (ur_closed s) + ur_b2z (ur_parked s) - 1 <= urT ur_sig p /\
  (* repair: the watcher is waiting or closing, unless closed or done is already set *)
  (r = true -> 1 <= urT ur_wl p + ur_b2z (ur_closed s) + ur_b2z (ur_done s)).

Lemma ur_invQ_init cap : ur_InvQ (ur_init r cap).
Proof.
  unfold ur_InvQ, ur_init, urT, ur_top. destruct r; simpl; repeat split; intros; try lia; try reflexivity; discriminate.
Qed.

Lemma ur_invQ_step st i c st' e : ur_InvA st -> ur_InvQ st -> gstep st i c = Some (st', e) -> ur_InvQ st'.
Proof.
  destruct st as [s p]. unfold ur_InvA, ur_InvQ, gstep. cbn [fst snd].
  intros (Hw & Hr & Hwr & Hact & Hnc & Hcc & Hcl & Hpost & Hdone & Hsig) (Q1 & Q2 & Q3 & Q4).
  destruct (nth_error p i) as [[l|]|] eqn:Hn; try discriminate.
  clear Hw Hr Hwr Hcc Hcl Hpost.
  pose proof (total_ge_nth M ur_act p i l ur_nn_act Hn) as Gact;
  pose proof (total_ge_nth M ur_sig p i l ur_nn_sig Hn) as Gsig;
  pose proof (total_ge_nth M ur_nc p i l (fun x => proj1 (ur_nc_hw x)) Hn) as Gnc;
  pose proof (total_nonneg M ur_sig p ur_nn_sig) as Nsig.
  pose proof (total_ge_nth M ur_cons p i l ur_nn_cons Hn) as Gcons.
  pose proof (total_nonneg M ur_cons p ur_nn_cons) as Ncons.
  pose proof (total_ge_nth M ur_wl p i l ur_nn_wl Hn) as Gwl.
  pose proof (total_nonneg M ur_wl p ur_nn_wl) as Nwl.
  cbn [tstep UrPump]. destruct l; cbn [ur_step]; ur_cases; try discriminate;
  intros Hstep; inversion Hstep; subst; clear Hstep;
  ur_norm Hn;
  try (match goal with |- context [if r then _ else _] => destruct r end;
       cbn [total fo map ur_hw ur_hr ur_act ur_post ur_nc ur_emp ur_cc ur_sig ur_wl ur_cons ur_nospin] in * );
  unfold ur_b2z in *;
  try (assert (Hsg : ur_closed s = true) by (apply Hsig; lia); rewrite Hsg in * );
  repeat match goal with Hx : ?b = true |- _ => rewrite Hx in * | Hx : ?b = false |- _ => rewrite Hx in * end;
  repeat split; intros;
  try (specialize (Q4 ltac:(first [assumption | reflexivity])));
  first [ lia | reflexivity | assumption | discriminate | congruence | (apply Q2; lia)
        | (destruct (ur_closed s), (ur_chclosed s), (ur_parked s), (ur_done s); first [lia | congruence | (apply Q2; lia)]) ].
Qed.

Definition ur_InvAll (st : state M) : Prop := ur_InvA st /\ ur_InvB st /\ ur_InvQ st.

Lemma ur_invall_reach cap st : reach (ur_init r cap) st -> ur_InvAll st.
Proof.
  apply (inv_reach M (ur_init r cap) ur_InvAll).
  - split; [apply ur_invA_init | split; [apply ur_invB_init | apply ur_invQ_init]].
  - intros s0 i c s1 e (HA & HB & HQ) Hs.
    split; [eapply ur_invA_step | split; [eapply ur_invB_step | eapply ur_invQ_step]]; eauto.
Qed.

Lemma ur_total_pos_exists (f : urpc -> Z) (p : pool M) :
  (forall l, 0 <= f l) -> 1 <= @total M f p -> exists i l, nth_error p i = Some (Some l) /\ 1 <= f l.
Proof.
  intros Hf. induction p as [|[l|] t IH]; simpl; intros H.
  - lia.
  - destruct (Z_le_dec 1 (f l)) as [Hl|Hl].
    + exists 0%nat, l. auto.
    + specialize (Hf l). destruct IH as (i & l' & Hn & Hl'); [lia|]. exists (S i), l'. auto.
  - destruct (IH H) as (i & l' & Hn & Hl'). exists (S i), l'. auto.
Qed.

(* pcs whose step is never disabled *)
Lemma ur_hw_enabled s l : 1 <= ur_hw l -> ur_step r s l UrCNone <> None.
Proof.
  destruct l; simpl; intros H; try lia; try discriminate.
  - destruct (ur_closed s); discriminate.
  - destruct vs; discriminate.
  - destruct (ur_ring s); discriminate.
  - destruct (ur_closed s); discriminate.
Qed.
Lemma ur_hr_enabled s l : 1 <= ur_hr l -> ur_step r s l UrCNone <> None.
Proof. destruct l; simpl; intros H; try lia; discriminate. Qed.
Lemma ur_sig_enabled s l : 1 <= ur_sig l -> ur_step r s l UrCNone <> None.
Proof. destruct l; simpl; intros H; try lia; discriminate. Qed.
Lemma ur_hw_not_env l : 1 <= ur_hw l -> l <> UrEnv. Proof. intros H E; subst; simpl in H; lia. Qed.
Lemma ur_hr_not_env l : 1 <= ur_hr l -> l <> UrEnv. Proof. intros H E; subst; simpl in H; lia. Qed.
Lemma ur_sig_not_env l : 1 <= ur_sig l -> l <> UrEnv. Proof. intros H E; subst; simpl in H; lia. Qed.

(* Repaired code, no-stranded style: when Close() has been called or the context cancelled, and no thread
   other than the environment can take a step any more (in particular the consumer cannot: it has ended, or
   it would be blocked on an open empty channel), then the output channel IS closed, the consumer has seen
   the end, and it has received every accepted element. *)
Theorem ur_closes_when_quiescent cap st : r = true -> (1 <= cap)%nat ->
  reach (ur_init r cap) st -> ur_quiescent st ->
  ur_closed (fst st) = true \/ ur_cancelled (fst st) = true ->
  ur_chclosed (fst st) = true /\ ur_received (fst st) = ur_accepted (fst st).
Proof.
  intros Hr1 Hcap Hreach Hq Hend.
  assert (Hcapeq : ur_cap (fst st) = cap).
  { clear Hq Hend. induction Hreach as [|s1 i c s2 e _ IH Hs]; [reflexivity|].
    destruct s1 as [s p]. unfold gstep in Hs. cbn [fst snd] in *.
    destruct (nth_error p i) as [[l|]|]; try discriminate.
    revert Hs. cbn [tstep UrPump]. destruct l; cbn [ur_step]; ur_cases; try discriminate;
    intros Hs; inversion Hs; subst; reflexivity. }
  destruct (ur_invall_reach cap st Hreach) as (HA & HB & HQ).
  destruct st as [s p]. unfold ur_quiescent in Hq. unfold ur_InvA, ur_InvB, ur_InvQ in *. cbn [fst snd] in *.
  destruct HA as (Hw & Hr & Hwr & Hact & Hnc & Hcc & Hcl & Hpost & Hdone & Hsig).
  destruct HB as (H1 & H2 & H3). destruct HQ as (Q1 & Q2 & Q3 & Q4). specialize (Q4 Hr1).
  unfold urT in *.
  (* nobody holds the lock: a holder could always step *)
  assert (Fw : ur_writer s = false).
  { destruct (ur_writer s) eqn:E; [|reflexivity]. exfalso. unfold ur_b2z in Hw.
    destruct (ur_total_pos_exists ur_hw p ur_nn_hw ltac:(lia)) as (i & l & Hn & Hl).
    exact (ur_hw_enabled s l Hl (Hq i l UrCNone Hn (ur_hw_not_env l Hl))). }
  assert (Fr : ur_readers s = 0%nat).
  { destruct (ur_readers s) eqn:E; [reflexivity|]. exfalso.
    destruct (ur_total_pos_exists ur_hr p ur_nn_hr ltac:(lia)) as (i & l & Hn & Hl).
    exact (ur_hr_enabled s l Hl (Hq i l UrCNone Hn (ur_hr_not_env l Hl))). }
  assert (Ffree : ur_free s = true) by (unfold ur_free; rewrite Fw, Fr; reflexivity).
  (* no Close() still owes its Signal *)
  assert (Fsig : @total M ur_sig p = 0).
  { pose proof (total_nonneg M ur_sig p ur_nn_sig).
    destruct (Z_le_dec 1 (@total M ur_sig p)) as [G|G]; [exfalso|lia].
    destruct (ur_total_pos_exists ur_sig p ur_nn_sig G) as (i & l & Hn & Hl).
    exact (ur_sig_enabled s l Hl (Hq i l UrCNone Hn (ur_sig_not_env l Hl))). }
  assert (Hclosed : ur_chclosed s = true).
  { destruct (ur_chclosed s) eqn:Ecc; [reflexivity|]. exfalso. unfold ur_b2z in *.
    destruct (ur_total_pos_exists ur_act p ur_nn_act ltac:(lia)) as (i & l & Hn & Hl).
    assert (Hne : l <> UrEnv) by (intros E; subst; simpl in Hl; lia).
    pose proof (Hq i l UrCNone Hn Hne) as Hdis.
    destruct l; simpl in Hl; try (exfalso; clear - Hl; lia); cbn [ur_step] in Hdis; rewrite ?Ffree, ?Fw in Hdis; try discriminate.
    - destruct (ur_cancelled s); discriminate.
    - destruct (ur_ring s); discriminate.
    - destruct (ur_closed s); discriminate.
    - (* parked inside cond.Wait *)
      destruct (ur_parked s) eqn:Epk; [|discriminate].
      destruct (ur_closed s) eqn:Ecl; [lia|].
      destruct Hend as [Hend|Hend]; [discriminate|].
      assert (Hdn : ur_done s = false) by (destruct (ur_done s); [lia|reflexivity]).
      rewrite Hdn in Q4.
      destruct (ur_total_pos_exists ur_wl p ur_nn_wl ltac:(lia)) as (j & lw & Hnw & Hlw).
      assert (Hnew : lw <> UrEnv) by (intros E; subst; simpl in Hlw; lia).
      pose proof (Hq j lw UrCNone Hnw Hnew) as Hdw.
      destruct lw; simpl in Hlw; try (exfalso; clear - Hlw; lia); cbn [ur_step] in Hdw; rewrite ?Fw, ?Hend in Hdw; try discriminate;
      destruct k; discriminate.
    - (* blocked on a full channel: the consumer could receive *)
      destruct vs as [|v t]; [discriminate|].
      destruct (Nat.ltb (length (ur_ch s)) (ur_cap s)) eqn:El; [discriminate|].
      apply Nat.ltb_ge in El. rewrite Hcapeq in El.
      destruct (ur_total_pos_exists ur_cons p ur_nn_cons ltac:(lia)) as (j & lc & Hnc' & Hlc).
      assert (Hnec : lc <> UrEnv) by (intros E; subst; simpl in Hlc; lia).
      pose proof (Hq j lc UrCNone Hnc' Hnec) as Hdc.
      destruct lc; simpl in Hlc; try (exfalso; clear - Hlc; lia). cbn [ur_step] in Hdc.
      destruct (ur_ch s); [simpl in El; clear - El Hcap; lia | discriminate]. }
  split; [exact Hclosed|].
  (* the consumer has ended, so the buffer is empty *)
  assert (Fcons : @total M ur_cons p = 0).
  { pose proof (total_nonneg M ur_cons p ur_nn_cons).
    destruct (Z_le_dec 1 (@total M ur_cons p)) as [G|G]; [exfalso|lia].
    destruct (ur_total_pos_exists ur_cons p ur_nn_cons G) as (j & lc & Hnc' & Hlc).
    assert (Hnec : lc <> UrEnv) by (intros E; subst; simpl in Hlc; lia).
    pose proof (Hq j lc UrCNone Hnc' Hnec) as Hdc.
    destruct lc; simpl in Hlc; try (exfalso; clear - Hlc; lia). cbn [ur_step] in Hdc. rewrite Hclosed in Hdc.
    destruct (ur_ch s); discriminate. }
  rewrite Hclosed in *. unfold ur_b2z in *.
  assert (Hh : ur_held_pool p = []) by (apply ur_held_zero; unfold urT; lia).
  rewrite H3, Hh, (H2 eq_refl), (Q2 Fcons), !app_nil_r. reflexivity.
Qed.

(* ================= the code as it is (r = false): after cancellation the pump only spins ================= *)
Definition ur_SpinInv (st : state M) : Prop :=
  let s := fst st in let p := snd st in
  ur_cancelled s = true /\ ur_chclosed s = false /\ urT ur_nospin p = 0 /\
  ur_ring s <> [] /\ ur_ch s = [] /\ ur_received s = [].

Lemma ur_app_not_nil (a : list nat) v : a ++ [v] <> [].
Proof. destruct a; discriminate. Qed.

Lemma ur_spin_step st i c st' e : r = false -> ur_SpinInv st -> gstep st i c = Some (st', e) -> ur_SpinInv st'.
Proof.
  intros Hr0. destruct st as [s p]. unfold ur_SpinInv, gstep. cbn [fst snd].
  intros (Hx & Hcc & Hns & Hring & Hch & Hrecv).
  destruct (nth_error p i) as [[l|]|] eqn:Hn; try discriminate.
  pose proof (total_ge_nth M ur_nospin p i l ur_nn_nospin Hn) as Gns.
  cbn [tstep UrPump]. destruct l; cbn [ur_step ur_nospin] in *; unfold urT in *; try (exfalso; lia);
  ur_cases; try discriminate; try congruence;
  intros Hstep; inversion Hstep; subst; clear Hstep; ur_norm Hn;
  repeat split; first [ assumption | reflexivity | lia | congruence | apply ur_app_not_nil ].
Qed.

Lemma ur_spin_reach st st' : r = false -> ur_SpinInv st -> reach st st' -> ur_SpinInv st'.
Proof. intros Hr0 H0 Hr. induction Hr; [assumption|]. eapply ur_spin_step; eauto. Qed.

End WithR.

(* the witness: Put(1) completes and is accepted, the pump has not run yet, the context is cancelled *)
Definition ur_asis_sched : list (nat * urchoice) :=
  [(0%nat, UrCPut [1%nat]); (3%nat, UrCNone); (3%nat, UrCNone); (3%nat, UrCNone); (3%nat, UrCNone); (3%nat, UrCNone);
   (0%nat, UrCCancel)].

Definition ur_asis_witness (cap : nat) : state (UrPump false) :=
  ({| ur_ring := [1%nat]; ur_readers := 0; ur_writer := false; ur_closed := false; ur_ch := []; ur_cap := cap;
      ur_chclosed := false; ur_parked := false; ur_cancelled := true; ur_done := false;
      ur_accepted := [1%nat]; ur_received := [] |},
   [Some UrEnv; Some UrPmSelect; Some UrCons; None]).

Lemma ur_asis_witness_reach cap : reach (ur_init false cap) (ur_asis_witness cap).
Proof.
  apply (run_reach (UrPump false) (ur_init false cap) ur_asis_sched (ur_init false cap) (ur_asis_witness cap)
           (snd (match run (ur_init false cap) ur_asis_sched with Some x => x | None => (ur_init false cap, []) end))).
  - constructor.
  - vm_compute. reflexivity.
Qed.

(* As-is code: there is a reachable state — an accepted element in the ring, context cancelled — from which,
   whatever happens next (any schedule, any further Puts, explicit Close() calls included), the output channel
   is never closed and nothing is ever received: the accepted element is never delivered. *)
Theorem ur_asis_stuck cap :
  exists st, reach (ur_init false cap) st /\ ur_accepted (fst st) = [1%nat] /\ ur_ring (fst st) <> [] /\
             ur_cancelled (fst st) = true /\
             forall st', reach st st' -> ur_chclosed (fst st') = false /\ ur_received (fst st') = [].
Proof.
  exists (ur_asis_witness cap). split; [apply ur_asis_witness_reach|].
  repeat split; try reflexivity; try discriminate.
  - assert (H0 : ur_SpinInv false (ur_asis_witness cap)).
    { unfold ur_SpinInv, ur_asis_witness, urT. simpl. repeat split; try reflexivity. discriminate. }
    destruct (ur_spin_reach false _ _ eq_refl H0 H) as (_ & Hc & _). exact Hc.
  - assert (H0 : ur_SpinInv false (ur_asis_witness cap)).
    { unfold ur_SpinInv, ur_asis_witness, urT. simpl. repeat split; try reflexivity. discriminate. }
    destruct (ur_spin_reach false _ _ eq_refl H0 H) as (_ & _ & _ & _ & _ & Hc). exact Hc.
Qed.

Theorem ur_asis_refuted cap :
  exists st, reach (ur_init false cap) st /\ ur_ring (fst st) <> [] /\ ur_cancelled (fst st) = true /\
             forall st', reach st st' -> ur_chclosed (fst st') = false.
Proof.
  destruct (ur_asis_stuck cap) as (st & H1 & _ & H3 & H4 & H5).
  exists st. repeat split; try assumption. intros st' Hr. apply (H5 st' Hr).
Qed.
