(* MV.C15.RuPumpProofs — invariants of the RingUnbounded machine (MV.C15.RuPumpModel) over every
   reachable state: every schedule, any number of concurrent Write and Close callers. *)
From MV Require Import Lib.ListX Lib.Sched C15.RuPumpModel.
From Coq Require Import ZifyBool.
Local Open Scope Z_scope.
Local Arguments Z.add : simpl never.
Local Arguments Z.sub : simpl never.
Local Arguments Z.of_nat : simpl never.
Local Arguments Z.ltb : simpl never.
Local Arguments Z.eqb : simpl never.

Definition b2z (b : bool) : Z := if b then 1 else 0.
Lemma b2z_spec b : (b = true /\ b2z b = 1) \/ (b = false /\ b2z b = 0).
Proof. destruct b; simpl; auto. Qed.

Lemma is_nil_snoc l (v : nat) : is_nil (l ++ [v]) = false.
Proof. destruct l; reflexivity. Qed.
Lemma is_nil_true l : is_nil l = true -> l = [].
Proof. destruct l; [reflexivity|discriminate]. Qed.

(* ------------------------------------------------------------------ indicators *)
(* holds rrm *)
Definition hr (l : pc) : Z :=
  match l with
  | WPut _ | WSig | WUnl | CSig | CUnlR
  | PRead | PChk _ | PRUnlW | PPark | PReread | PRUnlE _ | PUnl _ => 1
  | _ => 0
  end.
(* holds closedMutex for reading *)
Definition rd (l : pc) : Z :=
  match l with
  | WChk _ | WLock _ | WPut _ | WSig | WUnl | WRUnl
  | PLock | PRead | PChk _ | PRUnlW | PRUnlE _
  | PChk2 _ | PCloseRc | PCloseSig | PRUnlEnd | PSend _ => 1
  | _ => 0
  end.
(* holds closedMutex for writing *)
Definition wr (l : pc) : Z :=
  match l with CChk | CSet | CLockR | CSig | CUnlR | CUnl => 1 | _ => 0 end.
(* a Write that saw closed = false and has not yet done its ring.Write *)
Definition wacc (l : pc) : Z := match l with WLock _ | WPut _ => 1 | _ => 0 end.
(* a Write between its ring.Write and its Signal *)
Definition w4 (l : pc) : Z := match l with WSig => 1 | _ => 0 end.
(* a Close after closed = true *)
Definition cpost (l : pc) : Z := match l with CLockR | CSig | CUnlR | CUnl => 1 | _ => 0 end.
Definition ispump (l : pc) : Z :=
  match l with
  | PRLock | PLock | PRead | PChk _ | PRUnlW | PPark | PWake | PReread | PRUnlE _ | PUnl _ | PRLock2 _
  | PChk2 _ | PCloseRc | PCloseSig | PRUnlEnd | PSend _ => 1
  | _ => 0
  end.
(* the pump before it has closed rc *)
Definition pact (l : pc) : Z :=
  match l with
  | PRLock | PLock | PRead | PChk _ | PRUnlW | PPark | PWake | PReread | PRUnlE _ | PUnl _ | PRLock2 _
  | PChk2 _ | PCloseRc | PSend _ => 1
  | _ => 0
  end.
(* the pump has just read an empty ring and still holds rrm *)
Definition p3e (l : pc) : Z := match l with PChk [] => 1 | _ => 0 end.
(* the pump is past its read(s) with nothing in hand, on its way to the "closed && len(vs)==0" test *)
Definition pe (l : pc) : Z :=
  match l with PRUnlE [] | PUnl [] | PRLock2 [] | PChk2 [] | PCloseRc => 1 | _ => 0 end.
(* the pump is inside / just after cond.Wait *)
Definition pw (l : pc) : Z := match l with PWake | PReread => 1 | _ => 0 end.
Definition atwake (l : pc) : Z := match l with PWake => 1 | _ => 0 end.

Definition M := RuPump true.
Definition T (f : pc -> Z) (p : pool M) : Z := @total M f p.

(* ------------------------------------------------------------------ helper lemmas on totals *)
Lemma total_minus (f g : pc -> Z) (p : pool M) :
  T (fun x => f x - g x) p = T f p - T g p.
Proof. unfold T. induction p as [|[l|] t IH]; simpl; lia. Qed.

Lemma total_sub_ge (f g : pc -> Z) (p : pool M) i l :
  (forall x, g x <= f x) -> nth_error p i = Some (Some l) -> f l - g l <= T f p - T g p.
Proof.
  intros H Hn. rewrite <- total_minus. unfold T.
  apply (total_ge_nth M (fun x => f x - g x) p i l); [intros x; specialize (H x); lia | exact Hn].
Qed.

Lemma total_pos_ex (f : pc -> Z) (p : pool M) :
  1 <= T f p -> exists i l, nth_error p i = Some (Some l) /\ f l <> 0.
Proof.
  unfold T. induction p as [|[l|] t IH]; simpl; intros H; try lia.
  - destruct (Z.eq_dec (f l) 0) as [E|E].
    + destruct IH as (i & l' & Hn & Hf); [lia|]. exists (S i), l'. auto.
    + exists 0%nat, l. auto.
  - destruct IH as (i & l' & Hn & Hf); [lia|]. exists (S i), l'. auto.
Qed.

(* ------------------------------------------------------------------ the pump's hand [held] *)
Definition opvs (o : option pc) : list nat := match o with Some l => pvs l | None => [] end.

Lemma held_app (p q : pool M) : held (p ++ q) = held p ++ held q.
Proof. unfold held. apply flat_map_app. Qed.

Lemma pvs_ispump l : ispump l = 0 -> pvs l = [].
Proof. destruct l; simpl; intros; try reflexivity; lia. Qed.

Lemma nn_ispump l : 0 <= ispump l. Proof. destruct l; simpl; lia. Qed.

Lemma held_nil (p : pool M) : T ispump p = 0 -> held p = [].
Proof.
  unfold T, held. induction p as [|[l|] t IH]; simpl; intros H; auto.
  pose proof (total_nonneg M ispump t nn_ispump). pose proof (nn_ispump l).
  rewrite pvs_ispump by lia. rewrite IH by lia. reflexivity.
Qed.

(* the pump is the only thread with something in hand *)
Lemma held_upd_one (p : pool M) i l :
  T ispump p <= 1 -> nth_error p i = Some (Some l) -> ispump l = 1 ->
  held p = pvs l /\ forall x, held (upd i x p) = opvs x.
Proof.
  unfold T. revert i. induction p as [|h t IH]; intros [|i] Ht Hn Hl; simpl in Hn; try discriminate.
  - inversion Hn; subst. simpl in Ht. pose proof (total_nonneg M ispump t nn_ispump).
    assert (Hz : T ispump t = 0) by (unfold T; lia). apply held_nil in Hz.
    split; [|intros x]; unfold held in *; simpl; rewrite Hz, app_nil_r; reflexivity.
  - pose proof (total_ge_nth M ispump t i l nn_ispump Hn) as G.
    assert (Hh : opvs h = []).
    { destruct h as [l'|]; [|reflexivity]. simpl in Ht. pose proof (nn_ispump l'). apply pvs_ispump. lia. }
    assert (Ht' : @total M ispump t <= 1).
    { destruct h as [l'|]; simpl in Ht; [pose proof (nn_ispump l')|]; lia. }
    destruct (IH i Ht' Hn Hl) as [E1 E2].
    split; [|intros x]; unfold held in *; simpl; fold (opvs h); rewrite Hh; simpl; auto.
Qed.

(* a thread with nothing in hand steps to a pc with nothing in hand *)
Lemma held_upd_non (p : pool M) i l x :
  nth_error p i = Some (Some l) -> pvs l = [] -> opvs x = [] -> held (upd i x p) = held p.
Proof.
  revert i. induction p as [|h t IH]; intros [|i] Hn Hl Hx; simpl in Hn; try discriminate.
  - inversion Hn; subst. unfold held; simpl. fold (opvs x). rewrite Hx, Hl. reflexivity.
  - unfold held in *; simpl. rewrite (IH i Hn Hl Hx). reflexivity.
Qed.

(* ------------------------------------------------------------------ the invariant (safety part) *)
Definition Inv (st : state M) : Prop :=
  let s := fst st in let p := snd st in
  T hr p = b2z (rrm s) /\
  T rd p = readers s /\
  T wr p = b2z (writer s) /\
  (writer s = true -> readers s = 0) /\
  (closed s = true -> T wacc p = 0) /\
  T ispump p <= 1 /\
  (1 <= T w4 p -> is_nil (ring s) = false) /\
  (1 <= T cpost p -> closed s = true) /\
  (1 <= T p3e p -> is_nil (ring s) = true) /\
  (1 <= T pe p -> closed s = true /\ is_nil (ring s) = true) /\
  (1 <= T pw p -> parked s = false -> is_nil (ring s) = false \/ closed s = true) /\
  (parked s = true -> 1 <= T atwake p) /\
  (rc_closed s = true -> T pact p = 0 /\ closed s = true /\ is_nil (ring s) = true) /\
  accepted s = received s ++ rc s ++ held p ++ ring s.

Lemma inv_init n : Inv (init true n).
Proof.
  unfold Inv, init, T, held; simpl. repeat split; intros; try lia; try discriminate; try reflexivity.
Qed.

Lemma nn_hr l : 0 <= hr l. Proof. destruct l; simpl; lia. Qed.
Lemma nn_rd l : 0 <= rd l. Proof. destruct l; simpl; lia. Qed.
Lemma nn_wr l : 0 <= wr l. Proof. destruct l; simpl; lia. Qed.
Lemma nn_wacc l : 0 <= wacc l. Proof. destruct l; simpl; lia. Qed.
Lemma nn_w4 l : 0 <= w4 l. Proof. destruct l; simpl; lia. Qed.
Lemma nn_cpost l : 0 <= cpost l. Proof. destruct l; simpl; lia. Qed.
Lemma nn_pact l : 0 <= pact l. Proof. destruct l; simpl; lia. Qed.
Lemma nn_p3e l : 0 <= p3e l.
Proof. destruct l; simpl; try lia; match goal with |- context [match ?v with _ => _ end] => destruct v end; lia. Qed.
Lemma nn_pe l : 0 <= pe l.
Proof. destruct l; simpl; try lia; match goal with |- context [match ?v with _ => _ end] => destruct v end; lia. Qed.
Lemma nn_pw l : 0 <= pw l. Proof. destruct l; simpl; lia. Qed.
Lemma nn_atwake l : 0 <= atwake l. Proof. destruct l; simpl; lia. Qed.

Lemma le_w4_hr l : w4 l <= hr l. Proof. destruct l; simpl; lia. Qed.
Lemma le_p3e_hr l : p3e l <= hr l.
Proof. destruct l; simpl; try lia; match goal with |- context [match ?v with _ => _ end] => destruct v end; lia. Qed.
Lemma le_wacc_rd l : wacc l <= rd l. Proof. destruct l; simpl; lia. Qed.
Lemma le_pw_ispump l : pw l <= ispump l. Proof. destruct l; simpl; lia. Qed.
Lemma le_atwake_ispump l : atwake l <= ispump l. Proof. destruct l; simpl; lia. Qed.
Lemma le_pact_ispump l : pact l <= ispump l. Proof. destruct l; simpl; lia. Qed.
Lemma le_pe_ispump l : pe l <= ispump l.
Proof. destruct l; simpl; try lia; match goal with |- context [match ?v with _ => _ end] => destruct v end; lia. Qed.
Lemma le_p3e_ispump l : p3e l <= ispump l.
Proof. destruct l; simpl; try lia; match goal with |- context [match ?v with _ => _ end] => destruct v end; lia. Qed.
Lemma le_wr_cpost l : cpost l <= wr l. Proof. destruct l; simpl; lia. Qed.

Ltac facts p i l Hn :=
  pose proof (total_ge_nth M hr p i l nn_hr Hn);
  pose proof (total_ge_nth M rd p i l nn_rd Hn);
  pose proof (total_ge_nth M wr p i l nn_wr Hn);
  pose proof (total_ge_nth M wacc p i l nn_wacc Hn);
  pose proof (total_ge_nth M w4 p i l nn_w4 Hn);
  pose proof (total_ge_nth M cpost p i l nn_cpost Hn);
  pose proof (total_ge_nth M ispump p i l nn_ispump Hn);
  pose proof (total_ge_nth M pact p i l nn_pact Hn);
  pose proof (total_ge_nth M p3e p i l nn_p3e Hn);
  pose proof (total_ge_nth M pe p i l nn_pe Hn);
  pose proof (total_ge_nth M pw p i l nn_pw Hn);
  pose proof (total_ge_nth M atwake p i l nn_atwake Hn);
  pose proof (total_nonneg M wacc p nn_wacc);
  pose proof (total_nonneg M w4 p nn_w4);
  pose proof (total_nonneg M cpost p nn_cpost);
  pose proof (total_nonneg M pact p nn_pact);
  pose proof (total_nonneg M p3e p nn_p3e);
  pose proof (total_nonneg M pe p nn_pe);
  pose proof (total_nonneg M pw p nn_pw);
  pose proof (total_nonneg M atwake p nn_atwake);
  pose proof (total_nonneg M ispump p nn_ispump);
  pose proof (total_sub_ge hr w4 p i l le_w4_hr Hn);
  pose proof (total_sub_ge hr p3e p i l le_p3e_hr Hn);
  pose proof (total_sub_ge rd wacc p i l le_wacc_rd Hn);
  pose proof (total_sub_ge ispump pw p i l le_pw_ispump Hn);
  pose proof (total_sub_ge ispump atwake p i l le_atwake_ispump Hn);
  pose proof (total_sub_ge ispump pact p i l le_pact_ispump Hn);
  pose proof (total_sub_ge ispump pe p i l le_pe_ispump Hn);
  pose proof (total_sub_ge ispump p3e p i l le_p3e_ispump Hn);
  pose proof (total_le M wacc rd p le_wacc_rd);
  pose proof (total_le M pact ispump p le_pact_ispump);
  pose proof (total_le M cpost wr p le_wr_cpost).

Ltac fields :=
  cbn [ring rrm readers writer closed rc cap rc_closed sig_closed parked accepted received
       set_ring set_rrm add_readers set_writer set_closed set_rc set_rc_closed set_sig_closed set_parked
       put park recv].
Ltac inds :=
  cbn [total fo map hr rd wr wacc w4 cpost ispump pact p3e pe pw atwake is_nil] in *;
  try change (b2z true) with 1; try change (b2z false) with 0.

(* the FIFO equation after a step *)
Ltac fifo p i Hn Hone Hfifo :=
  first
  [ (* a thread with nothing in hand *)
    solve [ match goal with |- context [held (upd i ?x p ++ _)] =>
              rewrite held_app, (held_upd_non p i _ x Hn eq_refl eq_refl) end;
            cbn [held flat_map map opvs pvs app]; rewrite ?app_nil_r;
            try match goal with Hrc : rc _ = _ |- _ => rewrite ?Hrc end;
            first [ exact Hfifo | rewrite Hfifo; repeat rewrite <- app_assoc; reflexivity ] ]
  | (* the pump *)
    solve [ let E1 := fresh "E1" in let E2 := fresh "E2" in
            destruct (held_upd_one p i _ Hone Hn eq_refl) as [E1 E2];
            rewrite held_app, E2; rewrite E1 in Hfifo;
            cbn [held flat_map map opvs pvs app] in *; rewrite ?app_nil_r in *;
            try match goal with Hring : ring _ = _ |- _ => rewrite Hring in Hfifo end;
            first [ exact Hfifo | rewrite Hfifo; repeat rewrite <- app_assoc; reflexivity ] ]
  ].

Lemma inv_step st i c st' e : Inv st -> gstep st i c = Some (st', e) -> Inv st'.
Proof.
  destruct st as [s p]. unfold Inv, gstep. cbn [fst snd].
  intros (Hhr & Hrd & Hwr & Hwz & Hacc & Hone & Hw4 & Hcp & Hp3 & Hpe & Hpw & Hpk & Hrcc & Hfifo).
  destruct (nth_error p i) as [[l|]|] eqn:Hn; try discriminate.
  facts p i l Hn.
  pose proof (b2z_spec (rrm s)) as Brrm; pose proof (b2z_spec (writer s)) as Bwr.
  unfold T in *.
  cbn [tstep M RuPump].
  destruct l; cbn [mstep];
  try match goal with vs : list nat |- _ => destruct vs as [|v0 vt] end;
  cbn [is_nil];
  repeat match goal with
  | |- context [match ?c with CNone => _ | _ => _ end] => destruct c
  | |- context [if writer ?s then _ else _] => let E := fresh "Ewr" in destruct (writer s) eqn:E
  | |- context [if rrm ?s then _ else _] => let E := fresh "Errm" in destruct (rrm s) eqn:E
  | |- context [if closed ?s then _ else _] => let E := fresh "Ecl" in destruct (closed s) eqn:E
  | |- context [if parked ?s then _ else _] => let E := fresh "Epk" in destruct (parked s) eqn:E
  | |- context [if rc_closed ?s then _ else _] => let E := fresh "Ercc" in destruct (rc_closed s) eqn:E
  | |- context [if readers ?s =? 0 then _ else _] => destruct (Z.eqb_spec (readers s) 0)
  | |- context [if (?a <? ?b)%nat then _ else _] => let E := fresh "Ecap" in destruct (a <? b)%nat eqn:E
  | |- context [match rc ?s with _ => _ end] => let E := fresh "Hrc" in destruct (rc s) eqn:E
  | |- context [PChk (ring ?s)] => let E := fresh "Hring" in destruct (ring s) eqn:E
  | |- context [PUnl (ring ?s)] => let E := fresh "Hring" in destruct (ring s) eqn:E
  end;
  try discriminate;
  (intros Hstep; inversion Hstep; subst; clear Hstep; cbn [fst snd];
   repeat rewrite total_app; repeat rewrite (total_upd _ _ _ _ _ _ Hn);
   fields; inds; rewrite ?is_nil_snoc;
   (split; [|split; [|split; [|split; [|split; [|split; [|split; [|split; [|split; [|split; [|split; [|split; [|split]]]]]]]]]]]]);
   [ clear Hwz Hacc Hw4 Hcp Hp3 Hpe Hpw Hpk Hrcc Bwr; lia
   | clear Hwz Hacc Hw4 Hcp Hp3 Hpe Hpw Hpk Hrcc Bwr Brrm; lia
   | clear Hwz Hacc Hw4 Hcp Hp3 Hpe Hpw Hpk Hrcc Brrm; lia
   | clear Hacc Hw4 Hcp Hp3 Hpe Hpw Hpk Hrcc Brrm; lia
   | clear Hw4 Hcp Hp3 Hpe Hpw Hpk Hrcc Brrm; lia
   | clear Hwz Hacc Hw4 Hcp Hp3 Hpe Hpw Hpk Hrcc Bwr Brrm; lia
   | clear Hwz Hacc Hcp Hp3 Hpe Hpw Hpk Hrcc Bwr; lia
   | clear Hwz Hacc Hw4 Hp3 Hpe Hpw Hpk Hrcc Bwr Brrm; lia
   | clear Hwz Hacc Hw4 Hcp Hpe Hpw Hpk Hrcc Bwr; lia
   | clear Hwz Hw4 Hcp Hrcc Bwr Brrm; lia
   | clear Hwz Hacc Hp3 Hpe Hpk Hrcc Bwr Brrm; lia
   | clear Hwz Hacc Hw4 Hcp Hp3 Hpe Hpw Hrcc Bwr Brrm; lia
   | clear Hwz Hw4 Hcp Hp3 Hpw Hpk Bwr Brrm; lia
   | fifo p i Hn Hone Hfifo ]).
Qed.

Theorem inv_reachable n (st : state M) : reach (init true n) st -> Inv st.
Proof. apply (inv_reach M (init true n) Inv); [exact (inv_init n) | exact inv_step]. Qed.

(* ------------------------------------------------------------------ C15: FIFO, exactly once, nothing invented *)
Theorem rupump_prefix n (st : state M) : reach (init true n) st ->
  accepted (fst st) = received (fst st) ++ rc (fst st) ++ held (snd st) ++ ring (fst st).
Proof. intros Hr. apply (inv_reachable n st Hr). Qed.

Lemma pvs_pact l : pact l = 0 -> pvs l = [].
Proof. destruct l; simpl; intros; try reflexivity; lia. Qed.

Lemma held_nil_pact (p : pool M) : T pact p = 0 -> held p = [].
Proof.
  unfold T, held. induction p as [|[l|] t IH]; simpl; intros H; auto.
  pose proof (total_nonneg M pact t nn_pact). pose proof (nn_pact l).
  rewrite pvs_pact by lia. rewrite IH by lia. reflexivity.
Qed.

(* C15: once the output channel is closed nothing is left behind *)
Theorem rupump_drains n (st : state M) : reach (init true n) st -> rc_closed (fst st) = true ->
  ring (fst st) = [] /\ held (snd st) = [] /\ closed (fst st) = true /\
  accepted (fst st) = received (fst st) ++ rc (fst st).
Proof.
  intros Hr Hc. destruct (inv_reachable n st Hr) as (_ & _ & _ & _ & _ & _ & _ & _ & _ & _ & _ & _ & Hrcc & Hfifo).
  destruct (Hrcc Hc) as (Hp & Hcl & Hnil). apply is_nil_true in Hnil. apply held_nil_pact in Hp.
  repeat split; auto. rewrite Hfifo, Hp, Hnil. simpl. rewrite app_nil_r. reflexivity.
Qed.

(* closed = true is stable, and from then on no Write is accepted any more *)
Theorem rupump_closed_stable n (st : state M) i c st' e : reach (init true n) st -> closed (fst st) = true ->
  gstep st i c = Some (st', e) -> closed (fst st') = true /\ accepted (fst st') = accepted (fst st).
Proof.
  intros Hr Hc. destruct (inv_reachable n st Hr) as (_ & _ & _ & _ & Hacc & _).
  specialize (Hacc Hc). destruct st as [s p]. unfold gstep. cbn [fst snd] in *.
  destruct (nth_error p i) as [[l|]|] eqn:Hn; try discriminate.
  pose proof (total_ge_nth M wacc p i l nn_wacc Hn) as G. unfold T in *.
  cbn [tstep M RuPump].
  destruct l; cbn [mstep];
  repeat match goal with
  | |- context [match ?c with CNone => _ | _ => _ end] => destruct c
  | |- context [if ?b then _ else _] => destruct b eqn:?
  | |- context [match ?l with [] => _ | _ :: _ => _ end] => destruct l
  end; try discriminate;
  intros Hstep; inversion Hstep; subst; clear Hstep; cbn [fst snd]; fields; try (split; [assumption || reflexivity || congruence | reflexivity]).
  simpl in G. lia.
Qed.

(* ------------------------------------------------------------------ the code as it is in /repo loses an element *)
(* pump: RLock, rrm.Lock, ReadAll = [], test, RUnlock, Wait (parks);  Write(7) runs to completion;
   Close() runs to completion;  pump: wakes (no re-read, vs = []), rrm.Unlock, RLock, test closed && len(vs)==0,
   close(rc), close(closedSignal), RUnlock;  consumer: sees the channel closed *)
Definition asis_schedule : list (nat * choice) :=
  let t (i k : nat) := repeat (i, CNone) k in
  (t 1 6 ++ [(0, CWrite 7)] ++ t 3 7 ++ [(0, CClose)] ++ t 4 7 ++ t 1 7 ++ t 2 1)%nat.

Theorem rupump_asis_refuted n :
  exists st : state (RuPump false),
    reach (init false n) st /\ rc_closed (fst st) = true /\ sig_closed (fst st) = true /\
    snd st = [Some Env; None; None; None; None] /\
    accepted (fst st) = [7%nat] /\ received (fst st) = [] /\ rc (fst st) = [] /\ ring (fst st) = [7%nat].
Proof.
  assert (E : exists (st : state (RuPump false)) es, run (init false n) asis_schedule = Some (st, es) /\
            (rc_closed (fst st) = true /\ sig_closed (fst st) = true /\
             snd st = [Some Env; None; None; None; None] /\
             accepted (fst st) = [7%nat] /\ received (fst st) = [] /\ rc (fst st) = [] /\ ring (fst st) = [7%nat])).
  { vm_compute. eexists. eexists. split; [reflexivity|]. cbn. repeat split; reflexivity. }
  destruct E as (st & es & E & P). exists st. split; [|exact P].
  eapply (run_reach (RuPump false)); [apply reach_init | exact E].
Qed.

(* ------------------------------------------------------------------ second invariant: nobody sleeps forever *)
(* a Signal is still to come: a Write after its ring.Write, a Close after closed = true *)
Definition pend (l : pc) : Z := match l with WSig | CLockR | CSig => 1 | _ => 0 end.
(* the pump has decided to wait and still holds rrm *)
Definition pq (l : pc) : Z := match l with PRUnlW | PPark => 1 | _ => 0 end.
Definition iscons (l : pc) : Z := match l with KRecv => 1 | _ => 0 end.
Definition atsig (l : pc) : Z := match l with PCloseSig => 1 | _ => 0 end.
Definition ppost (l : pc) : Z := match l with PCloseSig | PRUnlEnd => 1 | _ => 0 end.

Definition Inv2 (st : state M) : Prop :=
  let s := fst st in let p := snd st in
  (parked s = true -> is_nil (ring s) = false \/ closed s = true -> 1 <= T pend p) /\
  (1 <= T pq p -> is_nil (ring s) = true /\ (closed s = true -> 1 <= T pend p)) /\
  (rc_closed s = false -> T ispump p = 1 /\ T iscons p = 1) /\
  (rc_closed s = true -> sig_closed s = false -> 1 <= T atsig p) /\
  (is_nil (rc s) = false -> 1 <= T iscons p) /\
  (1 <= T ppost p -> rc_closed s = true).

Lemma inv2_init n : Inv2 (init true n).
Proof.
  unfold Inv2, init, T; simpl. repeat split; intros; try lia; try discriminate.
  all: try match goal with H : _ \/ _ |- _ => destruct H; discriminate end.
Qed.

Lemma nn_pend l : 0 <= pend l. Proof. destruct l; simpl; lia. Qed.
Lemma nn_pq l : 0 <= pq l. Proof. destruct l; simpl; lia. Qed.
Lemma nn_iscons l : 0 <= iscons l. Proof. destruct l; simpl; lia. Qed.
Lemma nn_atsig l : 0 <= atsig l. Proof. destruct l; simpl; lia. Qed.
Lemma nn_ppost l : 0 <= ppost l. Proof. destruct l; simpl; lia. Qed.
Lemma le_pq_hr l : pq l <= hr l. Proof. destruct l; simpl; lia. Qed.
Lemma le_pq_ispump l : pq l <= ispump l. Proof. destruct l; simpl; lia. Qed.
Lemma le_ppost_ispump l : ppost l <= ispump l. Proof. destruct l; simpl; lia. Qed.

Ltac inds2 :=
  cbn [total fo map hr rd wr wacc w4 cpost ispump pact p3e pe pw atwake is_nil pend pq iscons atsig ppost] in *;
  try change (b2z true) with 1; try change (b2z false) with 0.

Lemma inv2_step (st : state M) i c st' e : Inv st -> Inv2 st -> gstep st i c = Some (st', e) -> Inv2 st'.
Proof.
  destruct st as [s p]. unfold Inv, Inv2, gstep. cbn [fst snd].
  intros (Hhr & Hrd & Hwr & Hwz & Hacc & Hone & Hw4 & Hcp & Hp3 & Hpe & Hpw & Hpk & Hrcc & Hfifo)
         (HA & HB & HC & HD & HE & HF).
  destruct (nth_error p i) as [[l|]|] eqn:Hn; try discriminate.
  pose proof (total_ge_nth M hr p i l nn_hr Hn);
  pose proof (total_ge_nth M ispump p i l nn_ispump Hn);
  pose proof (total_ge_nth M pact p i l nn_pact Hn);
  pose proof (total_ge_nth M p3e p i l nn_p3e Hn);
  pose proof (total_ge_nth M atwake p i l nn_atwake Hn);
  pose proof (total_ge_nth M pend p i l nn_pend Hn);
  pose proof (total_ge_nth M pq p i l nn_pq Hn);
  pose proof (total_ge_nth M iscons p i l nn_iscons Hn);
  pose proof (total_ge_nth M atsig p i l nn_atsig Hn);
  pose proof (total_ge_nth M ppost p i l nn_ppost Hn);
  pose proof (total_sub_ge hr pq p i l le_pq_hr Hn);
  pose proof (total_sub_ge ispump pq p i l le_pq_ispump Hn);
  pose proof (total_sub_ge ispump atwake p i l le_atwake_ispump Hn);
  pose proof (total_sub_ge ispump pact p i l le_pact_ispump Hn);
  pose proof (total_sub_ge ispump ppost p i l le_ppost_ispump Hn);
  pose proof (total_le M pq hr p le_pq_hr);
  pose proof (total_le M pq ispump p le_pq_ispump);
  pose proof (total_le M pact ispump p le_pact_ispump).
  pose proof (b2z_spec (rrm s)) as Brrm.
  unfold T in *.
  cbn [tstep M RuPump].
  destruct l; cbn [mstep];
  try match goal with vs : list nat |- _ => destruct vs as [|v0 vt] end;
  cbn [is_nil];
  repeat match goal with
  | |- context [match ?c with CNone => _ | _ => _ end] => destruct c
  | |- context [if writer ?s then _ else _] => let E := fresh "Ewr" in destruct (writer s) eqn:E
  | |- context [if rrm ?s then _ else _] => let E := fresh "Errm" in destruct (rrm s) eqn:E
  | |- context [if closed ?s then _ else _] => let E := fresh "Ecl" in destruct (closed s) eqn:E
  | |- context [if parked ?s then _ else _] => let E := fresh "Epk" in destruct (parked s) eqn:E
  | |- context [if rc_closed ?s then _ else _] => let E := fresh "Ercc" in destruct (rc_closed s) eqn:E
  | |- context [if readers ?s =? 0 then _ else _] => destruct (Z.eqb_spec (readers s) 0)
  | |- context [if (?a <? ?b)%nat then _ else _] => let E := fresh "Ecap" in destruct (a <? b)%nat eqn:E
  | |- context [match rc ?s with _ => _ end] => let E := fresh "Hrc" in destruct (rc s) eqn:E
  | |- context [PChk (ring ?s)] => let E := fresh "Hring" in destruct (ring s) eqn:E
  | |- context [PUnl (ring ?s)] => let E := fresh "Hring" in destruct (ring s) eqn:E
  end;
  try discriminate;
  (intros Hstep; inversion Hstep; subst; clear Hstep; cbn [fst snd];
   repeat rewrite total_app; repeat rewrite (total_upd _ _ _ _ _ _ Hn);
   fields; try match goal with Hrc : rc _ = _ |- _ => rewrite ?Hrc end; inds2; rewrite ?is_nil_snoc;
   clear Hrd Hwr Hwz Hacc Hw4 Hcp Hpe Hpw Hfifo;
   (split; [|split; [|split; [|split; [|split]]]]);
   [ clear HC HD HE HF Hrcc Hp3 Brrm; lia
   | clear HA HC HD HE HF Hrcc Hpk; lia
   | clear HA HB HD HE Hrcc Hp3 Hpk Brrm; lia
   | clear HA HB HC HE HF Hrcc Hp3 Hpk Brrm; lia
   | clear HA HB HD HF Hp3 Hpk Brrm; lia
   | clear HA HB HC HD HE Hrcc Hp3 Hpk Brrm; lia ]).
Qed.

Theorem inv2_reachable n (st : state M) : reach (init true n) st -> Inv st /\ Inv2 st.
Proof.
  apply (inv_reach M (init true n) (fun st => Inv st /\ Inv2 st)).
  - split; [exact (inv_init n) | exact (inv2_init n)].
  - intros st0 i c st' e [H1 H2] Hs. split; [eapply inv_step; eauto | eapply inv2_step; eauto].
Qed.

(* under [stuck], no thread sits at a pc that is enabled in this state *)
Lemma stuck_zero (st : state M) (f : pc -> Z) :
  stuck st ->
  (forall l, f l <> 0 -> l <> Env /\ mstep true (fst st) l CNone <> None) ->
  T f (snd st) < 1.
Proof.
  intros Hs Hf. destruct (Z_lt_le_dec (T f (snd st)) 1) as [L|G]; [exact L|].
  destruct (total_pos_ex f _ G) as (i & l & Hn & Hl). destruct (Hf l Hl) as [Hne Hen].
  exfalso. apply Hen. exact (Hs i l CNone Hn Hne).
Qed.

Ltac en_tac l Hl :=
  split; [intros ->; simpl in Hl; lia|];
  destruct l; simpl in Hl; try lia; cbn [mstep];
  repeat match goal with
         | E : _ = _ |- _ => rewrite E
         | |- context [if ?b then _ else _] => destruct b
         | |- context [match ?x with [] => _ | _ :: _ => _ end] => destruct x
         end; discriminate.

Lemma en_hr s l : hr l <> 0 -> l <> Env /\ mstep true s l CNone <> None.
Proof. intros Hl. en_tac l Hl. Qed.
Lemma en_wr s l : rrm s = false -> wr l <> 0 -> l <> Env /\ mstep true s l CNone <> None.
Proof. intros E Hl. en_tac l Hl. Qed.
Lemma en_pend s l : rrm s = false -> pend l <> 0 -> l <> Env /\ mstep true s l CNone <> None.
Proof. intros E Hl. en_tac l Hl. Qed.
Lemma en_atsig s l : atsig l <> 0 -> l <> Env /\ mstep true s l CNone <> None.
Proof. intros Hl. en_tac l Hl. Qed.
Lemma en_cons s l : rc_closed s = true -> iscons l <> 0 -> l <> Env /\ mstep true s l CNone <> None.
Proof. intros E Hl. en_tac l Hl. Qed.

(* C15 (no element stranded, the output ends): once Close has taken effect and no Write, Close, pump or
   consumer thread can move any more — each has returned or is blocked — the output channel and the Close
   signal are closed, the channel is drained and everything that was accepted has been received. *)
Theorem rupump_quiescent n (st : state M) : reach (init true n) st -> closed (fst st) = true -> stuck st ->
  rc_closed (fst st) = true /\ sig_closed (fst st) = true /\ rc (fst st) = [] /\
  accepted (fst st) = received (fst st).
Proof.
  intros Hr Hcl Hs. destruct (inv2_reachable n st Hr) as [HI HI2].
  pose proof (rupump_drains n st Hr) as Hdr.
  destruct st as [s p]. unfold Inv, Inv2, stuck in *. cbn [fst snd] in *.
  destruct HI as (Hhr & _ & Hwr & _ & _ & _ & _ & _ & _ & _ & _ & _ & Hrcc & _).
  destruct HI2 as (HA & _ & HC & HD & HE & _).
  (* nobody holds rrm *)
  pose proof (stuck_zero (s, p) hr Hs (en_hr s)) as Zhr; cbn [fst snd] in Zhr.
  assert (Errm : rrm s = false).
  { destruct (b2z_spec (rrm s)) as [[E1 E2]|[E1 E2]]; [lia|exact E1]. }
  (* nobody holds closedMutex for writing, no Signal is pending *)
  pose proof (stuck_zero (s, p) wr Hs (fun l => en_wr s l Errm)) as Zwr; cbn [fst snd] in Zwr.
  assert (Ewr : writer s = false).
  { destruct (b2z_spec (writer s)) as [[E1 E2]|[E1 E2]]; [lia|exact E1]. }
  pose proof (stuck_zero (s, p) pend Hs (fun l => en_pend s l Errm)) as Zpend; cbn [fst snd] in Zpend.
  (* hence the pump cannot be blocked before it has closed rc *)
  assert (Ercc : rc_closed s = true).
  { destruct (rc_closed s) eqn:Ercc; [reflexivity|exfalso].
    destruct (HC eq_refl) as [Hp1 Hk1].
    assert (G1 : 1 <= T ispump p) by lia.
    destruct (total_pos_ex ispump p G1) as (i & l & Hn & Hl).
    assert (Hne : l <> Env) by (intros ->; simpl in Hl; lia).
    pose proof (Hs i l CNone Hn Hne) as Hdis.
    clear Hhr Hwr Hrcc HC HD Zhr Zwr Hp1 Hk1 G1.
    destruct l; simpl in Hl; try (clear -Hl; lia); cbn [mstep] in Hdis; rewrite ?Errm, ?Ewr, ?Hcl in Hdis;
    try discriminate;
    try (match type of Hdis with context [is_nil ?v] => destruct (is_nil v) end; discriminate).
    - (* PWake *) destruct (parked s) eqn:Epk; [|discriminate].
      specialize (HA eq_refl (or_intror Hcl)). lia.
    - (* PSend *) destruct vs as [|v t]; [discriminate|].
      destruct (length (rc s) <? chancap s)%nat eqn:Ecap; [discriminate|].
      apply Nat.ltb_ge in Ecap. unfold chancap in Ecap.
      assert (Hnn : is_nil (rc s) = false).
      { pose proof (Nat.le_max_l 1 (cap s)). destruct (rc s); [cbn [length] in Ecap; lia | reflexivity]. }
      specialize (HE Hnn).
      destruct (total_pos_ex iscons p HE) as (j & l' & Hn' & Hl').
      assert (Hne' : l' <> Env) by (intros ->; simpl in Hl'; lia).
      pose proof (Hs j l' CNone Hn' Hne') as Hdis'.
      destruct l'; simpl in Hl'; try (clear -Hl'; lia). cbn [mstep] in Hdis'.
      destruct (rc s); [discriminate Hnn | discriminate Hdis']. }
  destruct (Hrcc Ercc) as (Hp0 & _ & Hnil).
  (* the pump has finished, so has the consumer *)
  pose proof (stuck_zero (s, p) atsig Hs (en_atsig s)) as Zsig; cbn [fst snd] in Zsig.
  pose proof (stuck_zero (s, p) iscons Hs (fun l => en_cons s l Ercc)) as Zcons; cbn [fst snd] in Zcons.
  assert (Esig : sig_closed s = true).
  { destruct (sig_closed s) eqn:E; [reflexivity|]. specialize (HD Ercc eq_refl). lia. }
  assert (Erc : rc s = []).
  { destruct (rc s) as [|v t] eqn:E; [reflexivity|]. specialize (HE eq_refl). lia. }
  repeat split; auto.
  destruct (Hdr Ercc) as (_ & _ & _ & Hd). rewrite Hd, Erc, app_nil_r. reflexivity.
Qed.
