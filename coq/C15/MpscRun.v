(* MV.C15.MpscRun — tie T2 for toolkit/queues/mpsc.go: replay of schedules recorded from the
   instrumented CURRENT source under the controlled scheduler. Each log entry = (thread id, choice,
   event observed in the Go code); the machine MV.C15.MpscModel must be able to take that step and
   must predict exactly that event (which node was swapped in and which one came out, which next
   field was stored / loaded and what the load returned, what Pop returned). At the end the values
   still linked behind q.tail in the real queue are compared with the machine's [mlinked]. *)
From MV Require Import Lib.ListX Lib.Sched C15.MpscModel.

Definition mpchoice_eqb (a b : mchoice) : bool :=
  match a, b with
  | MCNone, MCNone => true
  | MCProd l, MCProd l' => list_eqb Nat.eqb l l'
  | MCCons k, MCCons k' => Nat.eqb k k'
  | _, _ => false
  end.

Definition mpevent_eqb (a b : mevent) : bool :=
  match a, b with
  | MEvSpawn c, MEvSpawn c' => mpchoice_eqb c c'
  | MEvAlloc n v, MEvAlloc n' v' => Nat.eqb n n' && Nat.eqb v v'
  | MEvSwap n o, MEvSwap n' o' => Nat.eqb n n' && Nat.eqb o o'
  | MEvStoreNext n x, MEvStoreNext n' x' => Nat.eqb n n' && Nat.eqb x x'
  | MEvLoadNext n r, MEvLoadNext n' r' => Nat.eqb n n' && opt_eqb Nat.eqb r r'
  | MEvRet r, MEvRet r' => opt_eqb Nat.eqb r r'
  | MEvExit, MEvExit => true
  | _, _ => false
  end.

(* None = the whole log is a run of the machine with equal events; Some k = first diverging step *)
Fixpoint mpreplay (st : state Mpsc) (log : list (nat * mchoice * mevent)) (k : nat) : option nat :=
  match log with
  | [] => None
  | (i, c, MEvExit) :: t =>
      (* the goroutine returned: the machine's thread must have ended too *)
      match nth_error (snd st) i with
      | Some None => mpreplay st t (S k)
      | _ => Some k
      end
  | (i, c, e) :: t =>
      match gstep st i c with
      | Some (st', e') => if mpevent_eqb e e' then mpreplay st' t (S k) else Some k
      | None => Some k
      end
  end.

Fixpoint mpfinal (st : state Mpsc) (log : list (nat * mchoice * mevent)) : option (state Mpsc) :=
  match log with
  | [] => Some st
  | (i, c, MEvExit) :: t => mpfinal st t
  | (i, c, _) :: t => match gstep st i c with Some (st', _) => mpfinal st' t | None => None end
  end.

(* mpend: the values still linked behind q.tail in the Go queue when the schedule ended *)
Record mpcase := { mpcid : nat; mplog : list (nat * mchoice * mevent); mpend : option (list nat) }.

Definition mpcase_ok (c : mpcase) : bool :=
  match mpreplay minit (mplog c) 0 with
  | Some _ => false
  | None =>
      match mpend c, mpfinal minit (mplog c) with
      | None, _ => true
      | Some vs, Some st => list_eqb Nat.eqb (mlinked (fst st)) vs
      | Some _, None => false
      end
  end.

Definition mpmismatches (cs : list mpcase) : list nat := fail_ids mpcase_ok mpcid cs.
Definition mpdivergence (c : mpcase) : option nat := mpreplay minit (mplog c) 0.
