(* MV.C15.LfqProofs — invariants of the Michael–Scott queue machine (MV.C15.LfqModel) over every
   reachable state: any number of producer and consumer threads, every schedule. *)
From MV Require Import Lib.ListX Lib.Sched C15.LfqModel.
From Coq Require Import ZifyBool.
Open Scope nat_scope.
Arguments Z.add : simpl never.
Arguments Z.sub : simpl never.
Arguments Z.of_nat : simpl never.

(* ------------------------------------------------------------------ list helpers *)
Lemma nth_error_upd_eq {A} i (v : A) l : i < length l -> nth_error (upd i v l) i = Some v.
Proof. revert i; induction l as [|h t IH]; intros [|i] H; simpl in *; try lia; auto. apply IH; lia. Qed.

Lemma nth_error_upd_neq {A} i j (v : A) l : i <> j -> nth_error (upd i v l) j = nth_error l j.
Proof. revert i j; induction l as [|h t IH]; intros [|i] [|j] H; simpl in *; try lia; auto. Qed.

Lemma nth_error_upd_inv {A} i j (x y : A) l :
  nth_error (upd i x l) j = Some y -> (j = i /\ y = x) \/ (j <> i /\ nth_error l j = Some y).
Proof.
  intros H. destruct (Nat.eq_dec j i) as [->|Hn].
  - left. split; [reflexivity|]. assert (i < length l).
    { rewrite <- (upd_length i x l). apply nth_error_Some. congruence. }
    rewrite nth_error_upd_eq in H by assumption. congruence.
  - right. split; [assumption|]. rewrite nth_error_upd_neq in H by auto. assumption.
Qed.

Lemma nth_error_app_some {A} (l m : list A) i a : nth_error l i = Some a -> nth_error (l ++ m) i = Some a.
Proof. intros H. rewrite nth_error_app1; [assumption|]. apply nth_error_Some. congruence. Qed.

Lemma nth_error_lt {A} (l : list A) i a : nth_error l i = Some a -> i < length l.
Proof. intros H. apply nth_error_Some. congruence. Qed.

Lemma skipn_nth_error_cons {A} (l : list A) i a : nth_error l i = Some a -> skipn i l = a :: skipn (S i) l.
Proof.
  revert i; induction l as [|h t IH]; intros [|i] H; simpl in *; try discriminate.
  - inversion H; reflexivity.
  - apply IH; assumption.
Qed.

Lemma in_skipn_sub {A} (a : A) k l : In a (skipn k l) -> In a l.
Proof.
  revert k; induction l as [|h t IH]; intros [|k] H; simpl in *; auto. right. eapply IH; eassumption.
Qed.

Lemma skipn_none_nil {A} (l : list A) i : nth_error l i = None -> skipn i l = [].
Proof. intros H. apply skipn_all2. apply nth_error_None. assumption. Qed.

(* ------------------------------------------------------------------ heap helpers *)
Lemma nxt_of_app h d a : a < length h -> nxt_of (h ++ [d]) a = nxt_of h a.
Proof. intros H. unfold nxt_of. rewrite nth_error_app1 by assumption. reflexivity. Qed.
Lemma val_of_app h d a : a < length h -> val_of (h ++ [d]) a = val_of h a.
Proof. intros H. unfold val_of. rewrite nth_error_app1 by assumption. reflexivity. Qed.
Lemma nxt_of_app_new h d : nxt_of (h ++ [d]) (length h) = qnxt d.
Proof. unfold nxt_of. rewrite nth_error_app2 by lia. rewrite Nat.sub_diag. reflexivity. Qed.
Lemma val_of_app_new h d : val_of (h ++ [d]) (length h) = qval d.
Proof. unfold val_of. rewrite nth_error_app2 by lia. rewrite Nat.sub_diag. reflexivity. Qed.

Lemma set_nxt_length h t x : length (set_nxt h t x) = length h.
Proof. unfold set_nxt. destruct (nth_error h t); [apply upd_length|reflexivity]. Qed.
Lemma nxt_of_set_same h t x : t < length h -> nxt_of (set_nxt h t x) t = Some x.
Proof.
  intros H. unfold set_nxt. destruct (nth_error h t) as [d|] eqn:E.
  - unfold nxt_of. rewrite nth_error_upd_eq by assumption. reflexivity.
  - apply nth_error_None in E. lia.
Qed.
Lemma nxt_of_set_other h t x a : a <> t -> nxt_of (set_nxt h t x) a = nxt_of h a.
Proof.
  intros H. unfold set_nxt. destruct (nth_error h t) as [d|]; [|reflexivity].
  unfold nxt_of. rewrite nth_error_upd_neq by auto. reflexivity.
Qed.
Lemma val_of_set h t x a : val_of (set_nxt h t x) a = val_of h a.
Proof.
  unfold set_nxt. destruct (nth_error h t) as [d|] eqn:E; [|reflexivity].
  unfold val_of. destruct (Nat.eq_dec a t) as [->|Hn].
  - rewrite nth_error_upd_eq by (eapply nth_error_lt; eassumption). rewrite E. reflexivity.
  - rewrite nth_error_upd_neq by auto. reflexivity.
Qed.

(* ------------------------------------------------------------------ counting *)
Definition cnt (n : nat) (c : list nat) : Z := Z.of_nat (count_occ Nat.eq_dec c n).
Definition b2z (b : bool) : Z := if b then 1%Z else 0%Z.

Lemma cnt_nonneg n c : (0 <= cnt n c)%Z.
Proof. unfold cnt. lia. Qed.
Lemma cnt_app1 n c m : cnt n (c ++ [m]) = (cnt n c + (if Nat.eqb m n then 1 else 0))%Z.
Proof.
  unfold cnt. rewrite count_occ_app. simpl. destruct (Nat.eq_dec m n) as [->|Hn].
  - rewrite Nat.eqb_refl. lia.
  - destruct (Nat.eqb_spec m n); [contradiction|]. lia.
Qed.
Lemma cnt_in n c i : nth_error c i = Some n -> (1 <= cnt n c)%Z.
Proof.
  intros H. apply nth_error_In in H. apply (count_occ_In Nat.eq_dec) in H. unfold cnt. lia.
Qed.
Lemma cnt_zero_notin n c : cnt n c = 0%Z -> ~ In n c.
Proof. intros H Hin. apply (count_occ_In Nat.eq_dec) in Hin. unfold cnt in H. lia. Qed.

Definition owned (l : qpc) : option nat :=
  match l with
  | QPLdTail n _ _ | QPLdNext n _ _ _ | QPChk n _ _ _ _ | QPCasNext n _ _ _ | QPSwing n _ _ _ _ => Some n
  | _ => None
  end.
Definition own (n : nat) (l : qpc) : Z :=
  match owned l with Some m => if Nat.eqb m n then 1%Z else 0%Z | None => 0%Z end.
Lemma own_nonneg n l : (0 <= own n l)%Z.
Proof. unfold own. destruct (owned l) as [m|]; [destruct (Nat.eqb m n)|]; lia. Qed.

Definition TT (f : qpc -> Z) (p : pool Lfq) : Z := @total Lfq f p.

(* ------------------------------------------------------------------ the invariant *)
Record Gs (s : qsh) : Prop := {
  g_idx : qhidx s <= qtidx s /\ qtidx s < length (qchain s);
  g_head : nth_error (qchain s) (qhidx s) = Some (qhead s);
  g_tail : nth_error (qchain s) (qtidx s) = Some (qtail s);
  g_link : forall i a, nth_error (qchain s) i = Some a ->
             a < length (qheap s) /\ nxt_of (qheap s) a = nth_error (qchain s) (S i);
  g_free : forall a, a < length (qheap s) -> cnt a (qchain s) = 0%Z -> nxt_of (qheap s) a = None;
  g_hist : qpushed s = qpopped s ++ map (val_of (qheap s)) (skipn (S (qhidx s)) (qchain s))
}.

Definition Gown (s : qsh) (p : pool Lfq) : Prop :=
  forall n, (TT (own n) p + cnt n (qchain s) <= b2z (Nat.ltb n (length (qheap s))))%Z.

Definition at_t (s : qsh) (t : nat) : Prop := exists j, nth_error (qchain s) j = Some t /\ j <= qtidx s.
Definition fresh (s : qsh) (n v : nat) : Prop := n < length (qheap s) /\ val_of (qheap s) n = v.

Definition tinv (s : qsh) (l : qpc) : Prop :=
  match l with
  | QEnv | QPAlloc _ _ | QCLdHead _ => True
  | QPLdTail n v _ => fresh s n v
  | QPLdNext n v t _ => fresh s n v /\ at_t s t
  | QPChk n v t nx _ => fresh s n v /\ at_t s t /\ (forall x, nx = Some x -> nxt_of (qheap s) t = Some x)
  | QPCasNext n v t _ => fresh s n v /\ at_t s t
  | QPCasTail n t _ => at_t s t /\ nxt_of (qheap s) t = Some n
  | QPSwing n v t x _ => fresh s n v /\ at_t s t /\ nxt_of (qheap s) t = Some x
  | QCLdTail h _ => exists i, nth_error (qchain s) i = Some h /\ i <= qhidx s
  | QCLdNext h t _ => exists i j, nth_error (qchain s) i = Some h /\ nth_error (qchain s) j = Some t /\
                        i <= qhidx s /\ j <= qtidx s /\ i <= j
  | QCChk h t nx we _ => exists i j, nth_error (qchain s) i = Some h /\ nth_error (qchain s) j = Some t /\
                        i <= qhidx s /\ j <= qtidx s /\ i <= j /\
                        match nx with
                        | Some x => nxt_of (qheap s) h = Some x
                        | None => i = j /\ (we = true \/ i < qhidx s)
                        end
  | QCSwing t x _ => at_t s t /\ nxt_of (qheap s) t = Some x
  | QCCasHead h x v _ => exists i, nth_error (qchain s) i = Some h /\ i <= qhidx s /\ i < qtidx s /\
                        nxt_of (qheap s) h = Some x /\ x < length (qheap s) /\ val_of (qheap s) x = v
  | QCRet r we _ => r = None -> we = true
  | QCCrash => False
  end.

Definition Inv (st : state Lfq) : Prop :=
  Gs (fst st) /\ Gown (fst st) (snd st) /\ @all_live Lfq (tinv (fst st)) (snd st).

(* monotone evolution of the shared state *)
Record ext (s s' : qsh) : Prop := {
  e_chain : forall i a, nth_error (qchain s) i = Some a -> nth_error (qchain s') i = Some a;
  e_h : qhidx s <= qhidx s';
  e_t : qtidx s <= qtidx s';
  e_len : length (qheap s) <= length (qheap s');
  e_val : forall a, a < length (qheap s) -> val_of (qheap s') a = val_of (qheap s) a;
  e_nxt : forall a x, nxt_of (qheap s) a = Some x -> nxt_of (qheap s') a = Some x
}.

Lemma ext_refl s : ext s s.
Proof. constructor; auto. Qed.

Lemma at_t_ext s s' t : ext s s' -> at_t s t -> at_t s' t.
Proof. intros E (j & H1 & H2). exists j. split; [apply (e_chain _ _ E); assumption|]. pose proof (e_t _ _ E). lia. Qed.
Lemma fresh_ext s s' n v : ext s s' -> fresh s n v -> fresh s' n v.
Proof.
  intros E (H1 & H2). split; [pose proof (e_len _ _ E); lia|]. rewrite (e_val _ _ E) by assumption. assumption.
Qed.

Lemma tinv_ext s s' l : ext s s' -> tinv s l -> tinv s' l.
Proof.
  intros E. pose proof (e_h _ _ E) as Eh. pose proof (e_t _ _ E) as Et. pose proof (e_len _ _ E) as El.
  destruct l; cbn [tinv]; auto.
  - apply fresh_ext; assumption.
  - intros (H1 & H2). split; [eapply fresh_ext|eapply at_t_ext]; eassumption.
  - intros (H1 & H2 & H3). split; [eapply fresh_ext; eassumption|split; [eapply at_t_ext; eassumption|]].
    intros x Hx. apply (e_nxt _ _ E). apply H3. assumption.
  - intros (H1 & H2). split; [eapply fresh_ext|eapply at_t_ext]; eassumption.
  - intros (H1 & H2). split; [eapply at_t_ext; eassumption|apply (e_nxt _ _ E); assumption].
  - intros (H1 & H2 & H3). split; [eapply fresh_ext; eassumption|split; [eapply at_t_ext; eassumption|]].
    apply (e_nxt _ _ E); assumption.
  - intros (i & H1 & H2). exists i. split; [apply (e_chain _ _ E); assumption|lia].
  - intros (i & j & H1 & H2 & H3 & H4 & H5). exists i, j.
    repeat split; try (apply (e_chain _ _ E); assumption); lia.
  - intros (i & j & H1 & H2 & H3 & H4 & H5 & H6). exists i, j.
    repeat split; try (apply (e_chain _ _ E); assumption); try lia.
    destruct nx as [x|].
    + apply (e_nxt _ _ E); assumption.
    + destruct H6 as (H6 & [H7|H7]); split; auto. right. lia.
  - intros (H1 & H2). split; [eapply at_t_ext; eassumption|apply (e_nxt _ _ E); assumption].
  - intros (i & H1 & H2 & H3 & H4 & H5 & H6). exists i.
    repeat split; try (apply (e_chain _ _ E); assumption); try lia.
    + apply (e_nxt _ _ E); assumption.
    + rewrite (e_val _ _ E) by assumption. assumption.
Qed.

(* ------------------------------------------------------------------ consequences of the invariant *)
Lemma total_own_nonneg n p : (0 <= TT (own n) p)%Z.
Proof. apply total_nonneg. intros l. apply own_nonneg. Qed.

Lemma chain_nodup s p : Gown s p -> NoDup (qchain s).
Proof.
  intros H. apply (NoDup_count_occ Nat.eq_dec). intros n. specialize (H n).
  pose proof (total_own_nonneg n p). unfold cnt, b2z in H. destruct (Nat.ltb n (length (qheap s))); lia.
Qed.

Lemma chain_inj s p i j a : Gown s p ->
  nth_error (qchain s) i = Some a -> nth_error (qchain s) j = Some a -> i = j.
Proof.
  intros H Hi Hj. pose proof (chain_nodup s p H) as Hnd.
  rewrite NoDup_nth_error in Hnd. apply Hnd; [eapply nth_error_lt; eassumption | congruence].
Qed.

Lemma chain_len s p : Gs s -> Gown s p -> length (qchain s) <= length (qheap s).
Proof.
  intros G O. pose proof (chain_nodup s p O) as Hnd.
  assert (Hincl : incl (qchain s) (seq 0 (length (qheap s)))).
  { intros a Ha. apply In_nth_error in Ha as (i & Hi). apply (g_link s G) in Hi as (Hlt & _).
    apply in_seq. lia. }
  pose proof (NoDup_incl_length Hnd Hincl) as Hl. rewrite seq_length in Hl. assumption.
Qed.

Lemma follow_chain s : Gs s -> forall fuel i a,
  nth_error (qchain s) i = Some a -> length (qchain s) - S i <= fuel ->
  follow (qheap s) fuel a = map (val_of (qheap s)) (skipn (S i) (qchain s)).
Proof.
  intros G. induction fuel as [|f IH]; intros i a Hi Hf.
  - cbn [follow]. rewrite skipn_all2 by lia. reflexivity.
  - cbn [follow]. destruct (g_link s G i a Hi) as (_ & Hn). rewrite Hn.
    destruct (nth_error (qchain s) (S i)) as [b|] eqn:E.
    + rewrite (skipn_nth_error_cons _ _ _ E). cbn [map]. f_equal. apply IH; [assumption|lia].
    + rewrite (skipn_none_nil _ _ E). reflexivity.
Qed.

(* the abstract queue (values reachable from head.next) is the part of the link order behind head *)
Lemma absq_chain s p : Gs s -> Gown s p ->
  absq s = map (val_of (qheap s)) (skipn (S (qhidx s)) (qchain s)).
Proof.
  intros G O. unfold absq. apply (follow_chain s G _ _ _ (g_head s G)).
  pose proof (chain_len s p G O). lia.
Qed.

Lemma owner_facts s p i l n :
  Gown s p -> nth_error p i = Some (Some l) -> owned l = Some n ->
  n < length (qheap s) /\ cnt n (qchain s) = 0%Z.
Proof.
  intros O Hn Ho. specialize (O n).
  pose proof (total_ge_nth Lfq (own n) p i l (own_nonneg n) Hn) as Hge.
  unfold own in Hge at 1. rewrite Ho, Nat.eqb_refl in Hge. unfold TT in O.
  pose proof (cnt_nonneg n (qchain s)). unfold b2z in O.
  destruct (Nat.ltb_spec n (length (qheap s))); [split; [assumption|lia]|lia].
Qed.

(* ------------------------------------------------------------------ preservation: ownership count *)
Lemma gown_same s p i l (ol : option qpc) (sp : list qpc) :
  Gown s p -> nth_error p i = Some (Some l) ->
  (forall n, (@fo Lfq (own n) ol + TT (own n) (map Some sp) <= own n l)%Z) ->
  Gown s (upd i ol p ++ map Some sp).
Proof.
  intros O Hn Hle n. specialize (O n). specialize (Hle n). unfold TT in *.
  rewrite total_app, (total_upd _ _ _ _ _ _ Hn). lia.
Qed.

Lemma own_eq_le n l l' : owned l' = owned l -> (@fo Lfq (own n) (Some l') + TT (own n) (map Some []) <= own n l)%Z.
Proof. intros H. cbn [fo map TT total]. unfold own. rewrite H. lia. Qed.
Lemma own_none_le n l l' : owned l' = None -> (@fo Lfq (own n) (Some l') + TT (own n) (map Some []) <= own n l)%Z.
Proof. intros H. cbn [fo map TT total]. pose proof (own_nonneg n l). unfold own at 1. rewrite H. lia. Qed.

(* state-only changes that keep chain and heap length *)
Lemma gown_state s s' p : qchain s' = qchain s -> length (qheap s') = length (qheap s) -> Gown s p -> Gown s' p.
Proof. intros Hc Hl O n. rewrite Hc, Hl. apply O. Qed.

(* ------------------------------------------------------------------ preservation: successful CAS on tail *)
Lemma gs_set_tail s p t x :
  Gs s -> Gown s p -> at_t s t -> nxt_of (qheap s) t = Some x -> qtail s = t -> Gs (set_tail x s).
Proof.
  intros G O _ Hx Ht. destruct (g_idx s G) as (Hi1 & Hi2).
  pose proof (g_tail s G) as Htl. rewrite Ht in Htl.
  destruct (g_link s G _ _ Htl) as (_ & Hn). rewrite Hx in Hn. symmetry in Hn.
  constructor; cbn [set_tail qhidx qtidx qchain qheap qhead qtail qpushed qpopped].
  - split; [lia|]. eapply nth_error_lt; eassumption.
  - apply (g_head s G).
  - assumption.
  - apply (g_link s G).
  - apply (g_free s G).
  - apply (g_hist s G).
Qed.

Lemma ext_set_tail s x : ext s (set_tail x s).
Proof. constructor; cbn [set_tail qhidx qtidx qchain qheap]; auto. Qed.

(* ------------------------------------------------------------------ preservation: successful CAS on head *)
Lemma gs_set_head s p h x v i :
  Gs s -> Gown s p -> nth_error (qchain s) i = Some h -> i <= qhidx s -> i < qtidx s ->
  nxt_of (qheap s) h = Some x -> val_of (qheap s) x = v -> qhead s = h ->
  Gs (set_head x v s) /\ skipn (S (qhidx s)) (qchain s) = x :: skipn (S (S (qhidx s))) (qchain s).
Proof.
  intros G O Hi Hle Hlt Hx Hv Hh. destruct (g_idx s G) as (Hi1 & Hi2).
  pose proof (g_head s G) as Hhd. rewrite Hh in Hhd.
  assert (i = qhidx s) by (eapply chain_inj; eassumption). subst i.
  destruct (g_link s G _ _ Hhd) as (_ & Hn). rewrite Hx in Hn. symmetry in Hn.
  pose proof (skipn_nth_error_cons _ _ _ Hn) as Hsk.
  split; [|assumption].
  constructor; cbn [set_head qhidx qtidx qchain qheap qhead qtail qpushed qpopped].
  - split; [lia|assumption].
  - assumption.
  - apply (g_tail s G).
  - apply (g_link s G).
  - apply (g_free s G).
  - rewrite (g_hist s G), Hsk. cbn [map]. rewrite Hv, <- app_assoc. reflexivity.
Qed.

Lemma ext_set_head s x v : ext s (set_head x v s).
Proof. constructor; cbn [set_head qhidx qtidx qchain qheap]; auto. Qed.

(* ------------------------------------------------------------------ preservation: allocation *)
Lemma gs_alloc s d : Gs s -> qnxt d = None -> Gs (set_heap (qheap s ++ [d]) s).
Proof.
  intros G Hd. constructor; cbn [set_heap qhidx qtidx qchain qheap qhead qtail qpushed qpopped].
  - apply (g_idx s G).
  - apply (g_head s G).
  - apply (g_tail s G).
  - intros i a Hi. destruct (g_link s G i a Hi) as (H1 & H2). rewrite app_length. cbn [length].
    split; [lia|]. rewrite nxt_of_app by assumption. assumption.
  - intros a Ha Hc. rewrite app_length in Ha. cbn [length] in Ha.
    destruct (Nat.eq_dec a (length (qheap s))) as [->|Hn].
    + rewrite nxt_of_app_new. assumption.
    + rewrite nxt_of_app by lia. apply (g_free s G); [lia|assumption].
  - rewrite (g_hist s G). f_equal. apply map_ext_in. intros a Ha.
    apply (In_nth_error) in Ha as (k & Hk).
    assert (Hin : In a (qchain s)).
    { eapply in_skipn_sub. exact (nth_error_In _ _ Hk). }
    apply In_nth_error in Hin as (k' & Hk'). destruct (g_link s G k' a Hk') as (Hlt & _).
    symmetry. apply val_of_app. assumption.
Qed.

Lemma gown_alloc s p i v rest d :
  Gown s p -> nth_error p i = Some (Some (QPAlloc v rest)) ->
  Gown (set_heap (qheap s ++ [d]) s) (upd i (Some (QPLdTail (length (qheap s)) v rest)) p ++ map Some []).
Proof.
  intros O Hn n. specialize (O n). unfold TT in *.
  rewrite total_app, (total_upd _ _ _ _ _ _ Hn).
  cbn [set_heap qchain qheap fo map total own owned]. rewrite app_length. cbn [length].
  unfold b2z in *. pose proof (cnt_nonneg n (qchain s)). pose proof (total_own_nonneg n p) as Hp. unfold TT in Hp.
  destruct (Nat.eqb_spec (length (qheap s)) n) as [<-|Hne].
  - destruct (Nat.ltb_spec (length (qheap s)) (length (qheap s))); [lia|].
    destruct (Nat.ltb_spec (length (qheap s)) (length (qheap s) + 1)); lia.
  - destruct (Nat.ltb_spec n (length (qheap s))); destruct (Nat.ltb_spec n (length (qheap s) + 1)); lia.
Qed.

Lemma ext_alloc s d : ext s (set_heap (qheap s ++ [d]) s).
Proof.
  constructor; cbn [set_heap qhidx qtidx qchain qheap]; auto.
  - rewrite app_length. lia.
  - intros a Ha. apply val_of_app. assumption.
  - intros a x Hx. assert (a < length (qheap s)).
    { unfold nxt_of in Hx. destruct (nth_error (qheap s) a) eqn:E; [|discriminate]. eapply nth_error_lt; eassumption. }
    rewrite nxt_of_app by assumption. assumption.
Qed.

(* ------------------------------------------------------------------ preservation: successful CAS on tail.next *)
Lemma gown_link s p i n v t rest :
  Gown s p -> nth_error p i = Some (Some (QPCasNext n v t rest)) ->
  Gown (link t n v s) (upd i (Some (QPCasTail n t rest)) p ++ map Some []).
Proof.
  intros O Hn m. specialize (O m). unfold TT in *.
  rewrite total_app, (total_upd _ _ _ _ _ _ Hn).
  cbn [link qchain qheap fo map total own owned]. rewrite cnt_app1, set_nxt_length.
  destruct (Nat.eqb n m); lia.
Qed.

Lemma gs_link s p t n v j :
  Gs s -> Gown s p -> nth_error (qchain s) j = Some t -> nxt_of (qheap s) t = None ->
  n < length (qheap s) -> cnt n (qchain s) = 0%Z -> val_of (qheap s) n = v ->
  Gs (link t n v s) /\ ext s (link t n v s) /\ nxt_of (qheap (link t n v s)) t = Some n /\
  skipn (S (qhidx s)) (qchain s ++ [n]) = skipn (S (qhidx s)) (qchain s) ++ [n].
Proof.
  intros G O Hj Hnil Hn Hc Hv. destruct (g_idx s G) as (Hi1 & Hi2).
  destruct (g_link s G j t Hj) as (Htl & Hjn). rewrite Hnil in Hjn. symmetry in Hjn.
  apply nth_error_None in Hjn. pose proof (nth_error_lt _ _ _ Hj) as Hjl.
  assert (Hlast : S j = length (qchain s)) by lia.
  assert (Hnt : n <> t). { intros ->. pose proof (cnt_in _ _ _ Hj). lia. }
  assert (Hsk : skipn (S (qhidx s)) (qchain s ++ [n]) = skipn (S (qhidx s)) (qchain s) ++ [n]).
  { rewrite skipn_app. replace (S (qhidx s) - length (qchain s)) with 0 by lia. reflexivity. }
  split; [|split; [|split; [|exact Hsk]]].
  - constructor; cbn [link qhidx qtidx qchain qheap qhead qtail qpushed qpopped].
    + rewrite app_length. cbn [length]. lia.
    + apply nth_error_app_some. apply (g_head s G).
    + apply nth_error_app_some. apply (g_tail s G).
    + intros i a Hi. rewrite set_nxt_length.
      destruct (Nat.lt_ge_cases i (length (qchain s))) as [Hlt|Hge].
      * rewrite nth_error_app1 in Hi by assumption. destruct (g_link s G i a Hi) as (H1 & H2).
        split; [assumption|]. destruct (Nat.eq_dec a t) as [->|Hne].
        -- assert (i = j) by (eapply chain_inj; eassumption). subst i.
           rewrite nxt_of_set_same by assumption. rewrite nth_error_app2 by lia.
           replace (S j - length (qchain s)) with 0 by lia. reflexivity.
        -- rewrite nxt_of_set_other by assumption. rewrite H2.
           destruct (Nat.lt_ge_cases (S i) (length (qchain s))) as [Hlt2|Hge2].
           ++ rewrite nth_error_app1 by assumption. reflexivity.
           ++ exfalso. assert (i = j) by lia. subst i. congruence.
      * rewrite nth_error_app2 in Hi by assumption.
        destruct (i - length (qchain s)) as [|k] eqn:Ek.
        -- cbn in Hi. inversion Hi; subst a. split; [assumption|].
           rewrite nxt_of_set_other by assumption. rewrite (g_free s G n Hn Hc).
           symmetry. apply nth_error_None. rewrite app_length. cbn [length]. lia.
        -- cbn in Hi. destruct k; discriminate.
    + intros a Ha Hca. rewrite set_nxt_length in Ha. rewrite cnt_app1 in Hca.
      pose proof (cnt_nonneg a (qchain s)).
      assert (Hat : a <> t). { intros ->. pose proof (cnt_in _ _ _ Hj). destruct (Nat.eqb n t); lia. }
      rewrite nxt_of_set_other by assumption. apply (g_free s G); [assumption|]. destruct (Nat.eqb n a); lia.
    + rewrite Hsk, map_app. cbn [map]. rewrite val_of_set, Hv.
      rewrite (g_hist s G), <- app_assoc. f_equal. f_equal. apply map_ext. intros a. symmetry. apply val_of_set.
  - constructor; cbn [link qhidx qtidx qchain qheap]; auto.
    + intros i a Hi. apply nth_error_app_some. assumption.
    + rewrite set_nxt_length. lia.
    + intros a _. apply val_of_set.
    + intros a x Hx. rewrite nxt_of_set_other; [assumption|]. intros ->. congruence.
  - cbn [link qheap]. apply nxt_of_set_same. assumption.
Qed.

(* ------------------------------------------------------------------ one step preserves everything *)
Lemma all_live_step s s' p i l (ol : option qpc) (sp : list qpc) :
  ext s s' -> @all_live Lfq (tinv s) p -> nth_error p i = Some (Some l) ->
  (forall l', ol = Some l' -> tinv s' l') -> (forall l', In l' sp -> tinv s' l') ->
  @all_live Lfq (tinv s') (upd i ol p ++ map Some sp).
Proof.
  intros E HL Hn Hol Hsp k lk Hk.
  destruct (Nat.lt_ge_cases k (length (upd i ol p))) as [Hlt|Hge].
  - rewrite nth_error_app1 in Hk by assumption.
    apply nth_error_upd_inv in Hk as [(-> & Heq)|(Hne & Hk)].
    + apply Hol. symmetry. exact Heq.
    + eapply tinv_ext; [eassumption|]. eapply HL; eassumption.
  - rewrite nth_error_app2 in Hk by assumption. apply nth_error_In in Hk.
    apply in_map_iff in Hk as (x & Hx & Hin). inversion Hx; subst. apply Hsp. assumption.
Qed.

Ltac inj Hs := injection Hs as <- <- <- <-.
Ltac invl H := first [discriminate H | injection H as <-].

Ltac own_tac :=
  let n0 := fresh "n0" in
  intros n0; cbn [fo map TT total own owned pnext];
  try lia; try (destruct (Nat.eqb _ n0); lia).

(* a step that does not change the shared state *)
Ltac same_state G O Hn :=
  split; [exact G|]; split; [apply (gown_same _ _ _ _ _ _ O Hn); own_tac|]; split; [apply ext_refl|];
  split; [|intros ? []].

Lemma qstep_ok s p i l c s' ol sp e :
  Gs s -> Gown s p -> @all_live Lfq (tinv s) p -> nth_error p i = Some (Some l) ->
  qstep s l c = Some (s', ol, sp, e) ->
  Gs s' /\ Gown s' (upd i ol p ++ map Some sp) /\ ext s s' /\
  (forall l', ol = Some l' -> tinv s' l') /\ (forall l', In l' sp -> tinv s' l').
Proof.
  intros G O HL Hn Hs. pose proof (HL i l Hn) as Ht.
  destruct (g_idx s G) as (Hi1 & Hi2).
  destruct l; cbn [qstep] in Hs; cbn [tinv] in Ht.
  - (* QEnv *)
    destruct c as [|[|v vs]|k]; try discriminate; inj Hs.
    + split; [exact G|]. split; [apply (gown_same _ _ _ _ _ _ O Hn); own_tac|]. split; [apply ext_refl|].
      split; [intros l' Hl'; invl Hl'; exact I|].
      intros l' [<-|[]]. exact I.
    + split; [exact G|]. split; [apply (gown_same _ _ _ _ _ _ O Hn); own_tac|]. split; [apply ext_refl|].
      split; [intros l' Hl'; invl Hl'; exact I|].
      intros l' [<-|[]]. exact I.
  - (* QPAlloc *)
    inj Hs.
    split; [apply gs_alloc; [assumption|reflexivity]|].
    split; [apply gown_alloc; assumption|]. split; [apply ext_alloc|].
    split; [|intros ? []]. intros l' Hl'. invl Hl'. cbn [tinv]. unfold fresh. cbn [set_heap qheap]. split.
    + rewrite app_length. cbn [length]. lia.
    + rewrite val_of_app_new. reflexivity.
  - (* QPLdTail *)
    inj Hs. same_state G O Hn.
    intros l' Hl'. invl Hl'. cbn [tinv]. split; [assumption|].
    exists (qtidx s). split; [apply (g_tail s G)|lia].
  - (* QPLdNext *)
    inj Hs. same_state G O Hn.
    intros l' Hl'. invl Hl'. cbn [tinv]. destruct Ht as (H1 & H2).
    split; [assumption|]. split; [assumption|]. intros x Hx. assumption.
  - (* QPChk *)
    destruct Ht as (H1 & H2 & H3).
    destruct (Nat.eqb t (qtail s)); [destruct nx as [x|]|]; inj Hs; same_state G O Hn;
      intros l' Hl'; invl Hl'; cbn [tinv]; auto.
  - (* QPCasNext *)
    destruct Ht as (H1 & (j & Hj & Hjt)).
    destruct (nxt_of (qheap s) t) as [y|] eqn:Hnx; inj Hs.
    + same_state G O Hn. intros l' Hl'. invl Hl'. cbn [tinv]. assumption.
    + destruct H1 as (Hf1 & Hf2).
      destruct (owner_facts s p i _ n O Hn eq_refl) as (_ & Hc).
      destruct (gs_link s p t n v j G O Hj Hnx Hf1 Hc Hf2) as (G' & E' & Hset & _).
      split; [exact G'|]. split; [apply gown_link; assumption|]. split; [exact E'|].
      split; [|intros ? []]. intros l' Hl'. invl Hl'. cbn [tinv]. split; [|assumption].
      eapply at_t_ext; [eassumption|]. exists j. auto.
  - (* QPCasTail *)
    destruct Ht as (H1 & H2).
    destruct (Nat.eqb_spec (qtail s) t) as [Heq|Hne]; inj Hs.
    + split; [eapply gs_set_tail; eauto|].
      split; [apply (gown_state s); [reflexivity|reflexivity|]; apply (gown_same _ _ _ _ _ _ O Hn); destruct rest; own_tac|].
      split; [apply ext_set_tail|]. split; [|intros ? []].
      intros l' Hl'. destruct rest; invl Hl'. exact I.
    + split; [exact G|]. split; [apply (gown_same _ _ _ _ _ _ O Hn); destruct rest; own_tac|]. split; [apply ext_refl|].
      split; [|intros ? []]. intros l' Hl'. destruct rest; invl Hl'. exact I.
  - (* QPSwing *)
    destruct Ht as (H1 & H2 & H3).
    destruct (Nat.eqb_spec (qtail s) t) as [Heq|Hne]; inj Hs.
    + split; [eapply gs_set_tail; eauto|].
      split; [apply (gown_state s); [reflexivity|reflexivity|]; apply (gown_same _ _ _ _ _ _ O Hn); own_tac|].
      split; [apply ext_set_tail|]. split; [|intros ? []].
      intros l' Hl'. invl Hl'. cbn [tinv]. eapply fresh_ext; [apply ext_set_tail|assumption].
    + same_state G O Hn. intros l' Hl'. invl Hl'. cbn [tinv]. assumption.
  - (* QCLdHead *)
    inj Hs. same_state G O Hn.
    intros l' Hl'. invl Hl'. cbn [tinv]. exists (qhidx s). split; [apply (g_head s G)|lia].
  - (* QCLdTail *)
    inj Hs. same_state G O Hn.
    intros l' Hl'. invl Hl'. cbn [tinv]. destruct Ht as (i0 & H1 & H2).
    exists i0, (qtidx s). repeat split; try assumption; try lia. apply (g_tail s G).
  - (* QCLdNext *)
    inj Hs. same_state G O Hn.
    intros l' Hl'. invl Hl'. cbn [tinv]. destruct Ht as (i0 & j0 & H1 & H2 & H3 & H4 & H5).
    exists i0, j0. repeat split; try assumption.
    destruct (nxt_of (qheap s) h) as [x|] eqn:Hnx; [reflexivity|].
    destruct (g_link s G i0 h H1) as (Hhl & Hl). rewrite Hnx in Hl. symmetry in Hl. apply nth_error_None in Hl.
    pose proof (nth_error_lt _ _ _ H2) as Hj0. split; [lia|].
    destruct (Nat.eq_dec i0 (qhidx s)) as [->|Hne]; [left|right; lia].
    pose proof (g_head s G) as Hhd. rewrite H1 in Hhd. inversion Hhd as [Hhh].
    unfold absq. rewrite <- Hhh. destruct (length (qheap s)) eqn:El; [lia|]. cbn [follow]. rewrite Hnx. reflexivity.
  - (* QCChk *)
    destruct Ht as (i0 & j0 & H1 & H2 & H3 & H4 & H5 & H6).
    destruct (Nat.eqb_spec h (qhead s)) as [Hh|Hh].
    + assert (Hi0 : i0 = qhidx s). { eapply chain_inj; [eassumption|eassumption|]. rewrite Hh. apply (g_head s G). }
      destruct (Nat.eqb_spec h t) as [Hht|Hht]; destruct nx as [x|]; inj Hs; same_state G O Hn;
        intros l' Hl'; invl Hl'; cbn [tinv].
      * split; [exists j0; auto|rewrite <- Hht; assumption].
      * intros _. destruct H6 as (_ & [H6|H6]); [assumption|lia].
      * exists (qhidx s). destruct (g_link s G _ _ H1) as (_ & Hl). rewrite H6 in Hl. symmetry in Hl.
        destruct (g_link s G _ _ Hl) as (Hxl & _).
        assert (i0 <> j0). { intros ->. rewrite H1 in H2. inversion H2. contradiction. }
        rewrite <- Hi0. repeat split; auto; lia.
      * destruct H6 as (H6 & _). subst j0. rewrite H1 in H2. inversion H2. contradiction.
    + inj Hs. same_state G O Hn. intros l' Hl'. invl Hl'. exact I.
  - (* QCSwing *)
    destruct Ht as (H1 & H2).
    destruct (Nat.eqb_spec (qtail s) t) as [Heq|Hne]; inj Hs.
    + split; [eapply gs_set_tail; eauto|].
      split; [apply (gown_state s); [reflexivity|reflexivity|]; apply (gown_same _ _ _ _ _ _ O Hn); own_tac|].
      split; [apply ext_set_tail|]. split; [|intros ? []].
      intros l' Hl'. invl Hl'. exact I.
    + same_state G O Hn. intros l' Hl'. invl Hl'. exact I.
  - (* QCCasHead *)
    destruct Ht as (i0 & H1 & H2 & H3 & H4 & H5 & H6).
    destruct (Nat.eqb_spec (qhead s) h) as [Heq|Hne]; inj Hs.
    + destruct (gs_set_head s p h x v i0 G O H1 H2 H3 H4 H6 Heq) as (G' & _).
      split; [exact G'|].
      split; [apply (gown_state s); [reflexivity|reflexivity|]; apply (gown_same _ _ _ _ _ _ O Hn); own_tac|].
      split; [apply ext_set_head|]. split; [|intros ? []].
      intros l' Hl'. invl Hl'. cbn [tinv]. discriminate.
    + same_state G O Hn. intros l' Hl'. invl Hl'. exact I.
  - (* QCRet *)
    inj Hs.
    split; [exact G|]. split; [apply (gown_same _ _ _ _ _ _ O Hn); destruct k; own_tac|]. split; [apply ext_refl|].
    split; [|intros ? []]. intros l' Hl'. destruct k; invl Hl'. exact I.
  - (* QCCrash *) discriminate.
Qed.

Lemma inv_step st i c st' e : Inv st -> gstep st i c = Some (st', e) -> Inv st'.
Proof.
  destruct st as [s p]. unfold Inv, gstep. cbn [fst snd]. intros (G & O & HL) Hg.
  destruct (nth_error p i) as [[l|]|] eqn:Hn; try discriminate.
  cbn [tstep Lfq] in Hg. destruct (qstep s l c) as [[[[s1 ol] sp] e1]|] eqn:Hs; [|discriminate].
  injection Hg as <- <-. cbn [fst snd].
  destruct (qstep_ok s p i l c s1 ol sp e1 G O HL Hn Hs) as (G' & O' & E' & Hol & Hsp).
  split; [exact G'|]. split; [exact O'|]. eapply all_live_step; eassumption.
Qed.

Lemma inv_init : Inv qinit.
Proof.
  unfold Inv, qinit. cbn [fst snd]. split; [|split].
  - constructor; cbn [qinit_sh qhidx qtidx qchain qheap qhead qtail qpushed qpopped].
    + cbn. lia.
    + reflexivity.
    + reflexivity.
    + intros [|i] a Hi; cbn in Hi; [|destruct i; discriminate]. inversion Hi; subst. cbn. split; [lia|reflexivity].
    + intros a Ha Hc. cbn in Ha. assert (a = 0) by lia. subst. cbv in Hc. discriminate.
    + reflexivity.
  - intros n. cbn [qinit_sh qchain qheap TT total own owned length]. unfold cnt, b2z. cbn [count_occ].
    destruct (Nat.eq_dec 0 n) as [<-|Hn]; cbn; [lia|]. destruct n; [contradiction|]. cbn. lia.
  - intros [|i] l Hi; cbn in Hi; [|destruct i; discriminate]. inversion Hi; subst. exact I.
Qed.

Theorem inv_reachable st : reach qinit st -> Inv st.
Proof. apply inv_reach; [exact inv_init|exact inv_step]. Qed.

(* ------------------------------------------------------------------ the theorems *)

(* FIFO / exactly once / nothing invented: the values linked by the successful CASes on tail.next, in that
   order, are the values removed by the successful CASes on head, in that order, followed by the values
   still reachable from head.next *)
Theorem ms_fifo st : reach qinit st -> qpushed (fst st) = qpopped (fst st) ++ absq (fst st).
Proof.
  intros Hr. destruct (inv_reachable st Hr) as (G & O & _).
  rewrite (absq_chain _ _ G O). apply (g_hist _ G).
Qed.

(* linearization of Push: the successful CAS on tail.next appends exactly the value being pushed *)
Theorem ms_push_linearizes st i c st' t n :
  reach qinit st -> gstep st i c = Some (st', QEvCasNext t n true) ->
  exists v rest, nth_error (snd st) i = Some (Some (QPCasNext n v t rest)) /\
                 absq (fst st') = absq (fst st) ++ [v].
Proof.
  intros Hr Hg. pose proof (inv_reachable st Hr) as HI.
  pose proof (inv_step st i c st' _ HI Hg) as HI'.
  destruct st as [s p]. destruct HI as (G & O & HL). destruct HI' as (G' & O' & _).
  unfold gstep in Hg. cbn [fst snd] in *.
  destruct (nth_error p i) as [[l|]|] eqn:Hn; try discriminate.
  cbn [tstep Lfq] in Hg. destruct (qstep s l c) as [[[[s1 ol] sp] e1]|] eqn:Hs; [|discriminate].
  injection Hg as <- He. cbn [fst snd] in *. subst e1.
  pose proof (HL i l Hn) as Ht.
  destruct l; cbn [qstep] in Hs;
    repeat match type of Hs with
    | context [match ?c with QCNone => _ | _ => _ end] => destruct c
    | context [match ?v with [] => _ | _ => _ end] => destruct v
    | context [match ?o with Some _ => _ | None => _ end] => let H := fresh "Hnxo" in destruct o eqn:H
    | context [if ?b then _ else _] => destruct b
    end; try discriminate; try (destruct rest; discriminate); try (destruct k; discriminate).
  injection Hs as <- <- <- <- <-. exists v, rest. split; [reflexivity|].
  cbn [tinv] in Ht. destruct Ht as ((Hf1 & Hf2) & (j & Hj & _)).
  destruct (owner_facts s p i _ n0 O Hn eq_refl) as (_ & Hc).
  destruct (gs_link s p t0 n0 v j G O Hj Hnxo Hf1 Hc Hf2) as (_ & _ & _ & Hsk).
  rewrite (absq_chain _ _ G' O'), (absq_chain _ _ G O). cbn [link qheap qchain qhidx].
  rewrite Hsk, map_app. cbn [map]. rewrite val_of_set, Hf2. f_equal. apply map_ext. intros a. apply val_of_set.
Qed.

Ltac step_cases Hs :=
  repeat match type of Hs with
  | context [match ?c with QCNone => _ | _ => _ end] => destruct c
  | context [match ?v with [] => _ | _ => _ end] => destruct v
  | context [match ?o with Some _ => _ | None => _ end] => let H := fresh "Hnxo" in destruct o eqn:H
  | context [if ?b then _ else _] => let H := fresh "Hb" in destruct b eqn:H
  end.

(* linearization of Pop: the successful CAS on head removes exactly the first element of the abstract
   queue, and that is the value this Pop returns *)
Theorem ms_pop_linearizes st i c st' h x :
  reach qinit st -> gstep st i c = Some (st', QEvCasHead h x true) ->
  exists v k, nth_error (snd st) i = Some (Some (QCCasHead h x v k)) /\
              absq (fst st) = v :: absq (fst st') /\
              nth_error (snd st') i = Some (Some (QCRet (Some v) false k)).
Proof.
  intros Hr Hg. pose proof (inv_reachable st Hr) as HI.
  pose proof (inv_step st i c st' _ HI Hg) as HI'.
  destruct st as [s p]. destruct HI as (G & O & HL). destruct HI' as (G' & O' & _).
  unfold gstep in Hg. cbn [fst snd] in *.
  destruct (nth_error p i) as [[l|]|] eqn:Hn; try discriminate.
  cbn [tstep Lfq] in Hg. destruct (qstep s l c) as [[[[s1 ol] sp] e1]|] eqn:Hs; [|discriminate].
  injection Hg as <- He. cbn [fst snd] in *. subst e1.
  pose proof (HL i l Hn) as Ht.
  destruct l; cbn [qstep] in Hs; step_cases Hs;
    try discriminate; try (destruct rest; discriminate); try (destruct k; discriminate).
  injection Hs as <- <- <- <- <-. exists v, k. split; [reflexivity|].
  cbn [tinv] in Ht. destruct Ht as (i0 & H1 & H2 & H3 & H4 & H5 & H6).
  apply Nat.eqb_eq in Hb.
  destruct (gs_set_head s p h0 x0 v i0 G O H1 H2 H3 H4 H6 Hb) as (_ & Hsk).
  split.
  - rewrite (absq_chain _ _ G' O'), (absq_chain _ _ G O). cbn [set_head qheap qchain qhidx].
    rewrite Hsk. cbn [map]. rewrite H6. reflexivity.
  - rewrite app_nil_r. apply nth_error_upd_eq. eapply nth_error_lt; eassumption.
Qed.

(* every other step (loads, failed CASes, CASes on tail, allocation, spawning, returning) leaves the
   abstract queue unchanged *)
Definition is_lin (e : qevent) : bool :=
  match e with QEvCasNext _ _ true | QEvCasHead _ _ true => true | _ => false end.

Theorem ms_other_steps_keep_queue st i c st' e :
  reach qinit st -> gstep st i c = Some (st', e) -> is_lin e = false -> absq (fst st') = absq (fst st).
Proof.
  intros Hr Hg Hlin. pose proof (inv_reachable st Hr) as HI.
  pose proof (inv_step st i c st' _ HI Hg) as HI'.
  destruct st as [s p]. destruct HI as (G & O & HL). destruct HI' as (G' & O' & _).
  unfold gstep in Hg. cbn [fst snd] in *.
  destruct (nth_error p i) as [[l|]|] eqn:Hn; try discriminate.
  cbn [tstep Lfq] in Hg. destruct (qstep s l c) as [[[[s1 ol] sp] e1]|] eqn:Hs; [|discriminate].
  injection Hg as <- He. cbn [fst snd] in *. subst e1.
  destruct l; cbn [qstep] in Hs; step_cases Hs; try discriminate;
    injection Hs as <- <- <- <-; try reflexivity; try discriminate Hlin.
  (* allocation: the heap grows, the chain and its values do not change *)
  rewrite (absq_chain _ _ G' O'), (absq_chain _ _ G O). cbn [set_heap qheap qchain qhidx].
  apply map_ext_in. intros a Ha. apply in_skipn_sub in Ha. apply In_nth_error in Ha as (k' & Hk').
  destruct (g_link s G k' a Hk') as (Hlt & _). apply val_of_app. assumption.
Qed.

(* a Pop that returns nil saw an empty abstract queue when it loaded head.next *)
Theorem ms_nil_means_was_empty st i we k :
  reach qinit st -> nth_error (snd st) i = Some (Some (QCRet None we k)) -> we = true.
Proof.
  intros Hr Hn. destruct (inv_reachable st Hr) as (_ & _ & HL).
  specialize (HL i _ Hn). cbn [tinv] in HL. apply HL. reflexivity.
Qed.

(* meaning of the ghost flag: it is written by the load of head.next (and only there) as
   "the abstract queue is empty now", and carried unchanged to the return *)
Theorem ms_flag_set_at_next_load (st : state Lfq) i c (st' : state Lfq) e h t k :
  nth_error (snd st) i = Some (Some (QCLdNext h t k)) -> gstep st i c = Some (st', e) ->
  nth_error (snd st') i = Some (Some (QCChk h t (nxt_of (qheap (fst st)) h) (is_nil (absq (fst st))) k)).
Proof.
  destruct st as [s p]. unfold gstep. cbn [fst snd]. intros Hn Hg. rewrite Hn in Hg.
  cbn [tstep Lfq qstep] in Hg. injection Hg as <- _. cbn [snd]. rewrite app_nil_r.
  apply nth_error_upd_eq. eapply nth_error_lt; eassumption.
Qed.

Theorem ms_flag_carried (st : state Lfq) i c (st' : state Lfq) e h t nx we k r we' k' :
  nth_error (snd st) i = Some (Some (QCChk h t nx we k)) -> gstep st i c = Some (st', e) ->
  nth_error (snd st') i = Some (Some (QCRet r we' k')) -> r = None /\ we' = we /\ k' = k.
Proof.
  destruct st as [s p]. unfold gstep. cbn [fst snd]. intros Hn Hg Hn'. rewrite Hn in Hg.
  cbn [tstep Lfq qstep] in Hg. pose proof (nth_error_lt _ _ _ Hn) as Hlt.
  destruct (h =? qhead s); [destruct (h =? t); destruct nx as [x|]|];
    injection Hg as <- _; cbn [snd] in Hn'; rewrite app_nil_r in Hn';
    rewrite nth_error_upd_eq in Hn' by assumption; inversion Hn'; auto.
Qed.

(* Pop never dereferences a nil next pointer: no thread ever reaches QCCrash *)
Theorem ms_no_nil_deref st i : reach qinit st -> nth_error (snd st) i <> Some (Some QCCrash).
Proof.
  intros Hr Hn. destruct (inv_reachable st Hr) as (_ & _ & HL).
  specialize (HL i _ Hn). exact HL.
Qed.

(* head never overtakes tail in link order, and both are linked nodes *)
Theorem ms_head_behind_tail st : reach qinit st ->
  qhidx (fst st) <= qtidx (fst st) /\
  nth_error (qchain (fst st)) (qhidx (fst st)) = Some (qhead (fst st)) /\
  nth_error (qchain (fst st)) (qtidx (fst st)) = Some (qtail (fst st)).
Proof.
  intros Hr. destruct (inv_reachable st Hr) as (G & _ & _).
  destruct (g_idx _ G). split; [assumption|]. split; [apply (g_head _ G)|apply (g_tail _ G)].
Qed.

(* ------------------------------------------------------------------ example schedules (non-vacuity) *)
(* producer A pushes 7 completely; producer B pushes 8 but is preempted before swinging tail;
   a consumer pops once (helping tail forward is not needed: head <> tail) *)
Definition ex_push (tid : nat) : list (nat * qchoice) :=
  [(tid, QCNone); (tid, QCNone); (tid, QCNone); (tid, QCNone); (tid, QCNone)]. (* alloc, ld tail, ld next, chk, cas next *)
Definition ex_sched_two_pushes : list (nat * qchoice) :=
  [(0, QCPush [7]); (0, QCPush [8]); (0, QCPop 0)] ++ ex_push 1 ++ [(1, QCNone)] ++
  [(2, QCNone); (2, QCNone); (2, QCNone); (2, QCNone)].      (* B: alloc, ld tail, ld next, chk -> about to CAS tail.next *)
Definition ex_state_before_link : state Lfq :=
  match Sched.run qinit ex_sched_two_pushes with Some (st, _) => st | None => qinit end.
Definition ex_state_before_pop : state Lfq :=
  match Sched.run ex_state_before_link [(2, QCNone); (3, QCNone); (3, QCNone); (3, QCNone); (3, QCNone)] with
  | Some (st, _) => st | None => qinit end.
(* a consumer on the empty queue: about to return nil *)
Definition ex_state_nil : state Lfq :=
  match Sched.run qinit [(0, QCPop 0); (1, QCNone); (1, QCNone); (1, QCNone); (1, QCNone)] with
  | Some (st, _) => st | None => qinit end.

Lemma ex_reach sched st es : Sched.run qinit sched = Some (st, es) -> reach qinit st.
Proof. intros H. eapply run_reach; [constructor|exact H]. Qed.

Lemma reach_run_default st sched : reach qinit st ->
  reach qinit (match Sched.run st sched with Some (st', _) => st' | None => qinit end).
Proof.
  intros Hr. destruct (Sched.run st sched) as [[st' es]|] eqn:E; [|constructor].
  eapply run_reach; eassumption.
Qed.
Lemma ex_reach_link : reach qinit ex_state_before_link.
Proof. apply reach_run_default. constructor. Qed.
Lemma ex_reach_pop : reach qinit ex_state_before_pop.
Proof. apply reach_run_default. exact ex_reach_link. Qed.
Lemma ex_reach_nil : reach qinit ex_state_nil.
Proof. apply reach_run_default. constructor. Qed.
