(* MV.C15.Properties — the statements of property C15 and nothing else.
   Every theorem is closed by [exact <lemma>] and followed by Print Assumptions. *)
From MV Require Import Lib.ListX C15.RingModel C15.RingProofs.

(* Ring buffer: for every initial capacity and every sequence of
   write/read/read-n/read-all/peek/is-empty/cap/len/reset operations, every output of the ring
   (cursor arithmetic, growth, wrap-around as in ring.go) equals the output of a plain FIFO list,
   and what the ring still holds afterwards is exactly what the FIFO list holds. *)
Theorem C15_ring_refines_fifo : forall (n : Z) (ops : list op),
  outs_rel [] ops (snd (run (new_ring n) ops)) (snd (spec_run [] ops)) /\
  contents (fst (run (new_ring n) ops)) = fst (spec_run [] ops).
Proof. exact ring_refines_fifo. Qed.
Print Assumptions C15_ring_refines_fifo.

(* non-vacuity: a concrete run that grows, wraps and bulk-reads across the wrap *)
Example C15_ring_example :
  snd (run (new_ring 4) [Write 1; Write 2; Write 3; ReadMulti 3; Write 4; Write 5; ReadMulti 1; ReadAll; Len])
  = [OUnit; OUnit; OUnit; OMulti false [1; 2; 3]; OUnit; OUnit; OMulti false [4]; OList [5]; ONat 0]%Z.
Proof. vm_compute. reflexivity. Qed.

(* ======================================================================================
   backlog part: buffer.Unbounded[V] (toolkit/buffer/unbounded.go) and
   channels.UnboundedBacklog[V] (toolkit/channels/unbounded_backlog.go) — a Go channel of
   capacity 1 in front of a backlog slice; model MV.C15.BacklogModel (all names b/B-prefixed).
   ====================================================================================== *)
From MV Require Import C15.BacklogModel C15.BacklogProofs.

(* Conservation + order, for EVERY sequence of Put/Load/Get(non-blocking receive)/Close/IsClosed
   from the fresh container: the values handed out by the receives so far, followed by what the
   container holds (channel cell, then backlog), are exactly the values of the accepted Puts
   (= issued before the first Close) in insertion order.  Hence nothing is duplicated, reordered
   or invented, and every accepted value is either received or still held.
   (After Close the backlog part of [bheld] stays in the state but is unreachable: Load returns
   early once closed — the documented gRPC-style behaviour; "read after close" is promised by the
   property only for the ring-backed buffers.) *)
Theorem C15_backlog_fifo : forall ops : list bop,
  breceived (snd (brun binit ops)) ++ bheld (fst (brun binit ops)) = baccepted ops.
Proof. exact backlog_fifo. Qed.
Print Assumptions C15_backlog_fifo.

(* non-vacuity: backlog of 2, a receive without Load (reports empty although values are held),
   Load, receive, Put after Close is rejected, the buffered element is still delivered after Close *)
Example C15_backlog_fifo_example :
  let ops := [BPut 1; BPut 2; BPut 3; BGet; BGet; BLoad; BGet; BLoad; BClose; BPut 4; BGet; BGet; BLoad; BGet]%Z in
  snd (brun binit ops) =
    [BOUnit; BOUnit; BOUnit; BOVal 1; BOEmpty; BOUnit; BOVal 2; BOUnit; BOUnit; BOUnit; BOVal 3; BOClosed; BOUnit; BOClosed]%Z /\
  breceived (snd (brun binit ops)) = [1; 2; 3]%Z /\ bheld (fst (brun binit ops)) = [] /\ baccepted ops = [1; 2; 3]%Z.
Proof. vm_compute. repeat split. Qed.

(* Nothing is stranded under the documented protocol: for every history without Close in which
   every SUCCESSFUL receive is immediately followed by Load ([bprotocol], computable), an empty
   channel cell implies an empty backlog; so a receive reports "empty" only when every accepted
   value has already been received. *)
Theorem C15_backlog_no_loss_under_protocol : forall ops : list bop,
  bprotocol binit ops = true ->
  let s := fst (brun binit ops) in
  (bslot s = None -> bbacklog s = []) /\
  (snd (bstep s BGet) = BOEmpty -> breceived (snd (brun binit ops)) = baccepted ops).
Proof. exact backlog_no_loss_under_protocol. Qed.
Print Assumptions C15_backlog_no_loss_under_protocol.

(* non-vacuity: a protocol-following history (with an unsuccessful receive and a double Load) that
   ends with an empty cell: hypotheses of both conjuncts hold; and a history that breaks the
   protocol (receive without Load) really strands a value: the conclusion is not trivially true. *)
Example C15_backlog_no_loss_example :
  let ops := [BGet; BPut 1; BPut 2; BPut 3; BGet; BLoad; BLoad; BIsClosed; BGet; BLoad; BPut 4; BGet; BLoad; BGet; BLoad]%Z in
  bprotocol binit ops = true /\ bslot (fst (brun binit ops)) = None /\
  snd (bstep (fst (brun binit ops)) BGet) = BOEmpty /\ breceived (snd (brun binit ops)) = [1; 2; 3; 4]%Z /\
  let bad := [BPut 1; BPut 2; BGet]%Z in
  bprotocol binit bad = false /\ bslot (fst (brun binit bad)) = None /\ bbacklog (fst (brun binit bad)) = [2]%Z.
Proof. vm_compute. repeat split. Qed.

(* The purely syntactic protocol "no Close, every Get immediately followed by Load" is a special
   case of the hypothesis above. *)
Theorem C15_backlog_strict_protocol_suffices : forall ops : list bop,
  bstrict ops = true -> bprotocol binit ops = true.
Proof. exact backlog_strict_protocol_suffices. Qed.
Print Assumptions C15_backlog_strict_protocol_suffices.

Example C15_backlog_strict_example :
  bstrict [BPut 1; BPut 2; BGet; BLoad; BIsClosed; BGet; BLoad; BGet; BLoad]%Z = true /\
  bstrict [BPut 1; BGet; BPut 2; BLoad]%Z = false.
Proof. vm_compute. split; reflexivity. Qed.

(* Drain corollary: from any state reached by a protocol-following history, holding the values l,
   length l consumer rounds Get;Load return exactly l in order (outputs BOVal v; BOUnit per value)
   and leave the container empty; the extended history still follows the protocol and has then
   received exactly the accepted values. *)
Theorem C15_backlog_drain_under_protocol : forall ops : list bop,
  bprotocol binit ops = true ->
  let s := fst (brun binit ops) in
  let l := bheld s in
  let d := bdrain (length l) in
  snd (brun s d) = bdrain_outs l /\
  bheld (fst (brun s d)) = [] /\
  bprotocol binit (ops ++ d) = true /\
  breceived (snd (brun binit (ops ++ d))) = baccepted ops.
Proof. exact backlog_drain_under_protocol. Qed.
Print Assumptions C15_backlog_drain_under_protocol.

Example C15_backlog_drain_example :
  let ops := [BPut 1; BPut 2; BPut 3; BGet; BLoad; BPut 4; BPut 5]%Z in
  bprotocol binit ops = true /\ bheld (fst (brun binit ops)) = [2; 3; 4; 5]%Z /\
  snd (brun (fst (brun binit ops)) (bdrain 4)) =
    [BOVal 2; BOUnit; BOVal 3; BOUnit; BOVal 4; BOUnit; BOVal 5; BOUnit]%Z.
Proof. vm_compute. repeat split. Qed.

(* Close: IsClosed reports exactly "a Close was issued"; after a Close, IsClosed stays true, and
   once the channel cell has been found empty (at the end of ops) every later receive — whatever
   operations ops' come in between, Puts and Loads included — reports closed: the output ends. *)
Theorem C15_backlog_closed_reports : forall ops ops' : list bop,
  let s1 := fst (brun binit ops) in
  let s2 := fst (brun binit (ops ++ ops')) in
  snd (bstep s1 BIsClosed) = BOBool (bhas_close ops) /\
  (In BClose ops ->
     snd (bstep s2 BIsClosed) = BOBool true /\
     (bslot s1 = None -> snd (bstep s2 BGet) = BOClosed)).
Proof. exact backlog_closed_reports. Qed.
Print Assumptions C15_backlog_closed_reports.

Example C15_backlog_closed_example :
  let ops := [BPut 1; BPut 2; BClose; BGet]%Z in
  let ops' := [BPut 3; BLoad; BClose; BLoad]%Z in
  In BClose ops /\ bslot (fst (brun binit ops)) = None /\ bhas_close ops = true /\
  snd (brun binit (ops ++ ops' ++ [BGet; BIsClosed])) =
    [BOUnit; BOUnit; BOUnit; BOVal 1; BOUnit; BOUnit; BOUnit; BOUnit; BOClosed; BOBool true]%Z /\
  snd (bstep (fst (brun binit [BPut 1; BGet]%Z)) BIsClosed) = BOBool false.
Proof. vm_compute. repeat split. right; right; left; reflexivity. Qed.

(* ======================================================================================
   lfq part: toolkit/queues/lock_free.go (LFQueue, Michael–Scott lock-free queue) — layer-A machine
   MV.C15.LfqModel: one step per atomic.LoadPointer / CompareAndSwapPointer of Push and Pop, heap of
   nodes numbered in allocation order, any number of producer and consumer goroutines spawned by the
   environment thread, every schedule ([reach qinit]). The abstract queue [absq] is the list of values
   of the nodes reachable from head.next. Modelling assumptions: sync/atomic is sequentially
   consistent; a node is never reused while a goroutine still holds a pointer to it (garbage
   collection), hence no ABA.
   ====================================================================================== *)
From MV Require Import Lib.Sched C15.LfqModel C15.LfqProofs.

(* Linearization of Push: the step in which a producer's CAS on tail.next succeeds appends exactly the
   value that producer is pushing to the abstract queue (and changes nothing else of it). *)
Theorem C15_ms_push_linearizes : forall (st : state Lfq) i c (st' : state Lfq) t n,
  reach qinit st -> gstep st i c = Some (st', QEvCasNext t n true) ->
  exists v rest, nth_error (snd st) i = Some (Some (QPCasNext n v t rest)) /\
                 absq (fst st') = absq (fst st) ++ [v].
Proof. exact ms_push_linearizes. Qed.
Print Assumptions C15_ms_push_linearizes.

Example C15_ms_push_linearizes_example :
  reach qinit ex_state_before_link /\ absq (fst ex_state_before_link) = [7] /\
  exists st', gstep ex_state_before_link 2 QCNone = Some (st', QEvCasNext 1 2 true) /\ absq (fst st') = [7; 8].
Proof.
  split; [exact ex_reach_link|]. split; [vm_compute; reflexivity|].
  eexists. split; vm_compute; reflexivity.
Qed.

(* Linearization of Pop: the step in which a consumer's CAS on head succeeds removes exactly the first
   element of the abstract queue, and that element is the value this Pop returns (its next step is the
   return of [Some v]). *)
Theorem C15_ms_pop_linearizes : forall (st : state Lfq) i c (st' : state Lfq) h x,
  reach qinit st -> gstep st i c = Some (st', QEvCasHead h x true) ->
  exists v k, nth_error (snd st) i = Some (Some (QCCasHead h x v k)) /\
              absq (fst st) = v :: absq (fst st') /\
              nth_error (snd st') i = Some (Some (QCRet (Some v) false k)).
Proof. exact ms_pop_linearizes. Qed.
Print Assumptions C15_ms_pop_linearizes.

Example C15_ms_pop_linearizes_example :
  reach qinit ex_state_before_pop /\ absq (fst ex_state_before_pop) = [7; 8] /\
  exists st', gstep ex_state_before_pop 3 QCNone = Some (st', QEvCasHead 0 1 true) /\ absq (fst st') = [8] /\
              nth_error (snd st') 3 = Some (Some (QCRet (Some 7) false 0)).
Proof.
  split; [exact ex_reach_pop|]. split; [vm_compute; reflexivity|].
  eexists. split; [vm_compute; reflexivity|]. split; vm_compute; reflexivity.
Qed.

(* Every other step — loads, failed CASes, CASes on tail (including helping), allocation, spawning of
   goroutines, returns — leaves the abstract queue unchanged: the two CASes above are the only
   linearization points. *)
Theorem C15_ms_other_steps_keep_queue : forall (st : state Lfq) i c (st' : state Lfq) e,
  reach qinit st -> gstep st i c = Some (st', e) -> is_lin e = false -> absq (fst st') = absq (fst st).
Proof. exact ms_other_steps_keep_queue. Qed.
Print Assumptions C15_ms_other_steps_keep_queue.

Example C15_ms_other_steps_example :
  exists st' e, gstep ex_state_before_pop 2 QCNone = Some (st', e) /\ e = QEvCasTail 1 2 true /\
                is_lin e = false /\ absq (fst st') = [7; 8].
Proof.
  eexists. eexists. split; [vm_compute; reflexivity|]. split; [reflexivity|]. split; vm_compute; reflexivity.
Qed.

(* A nil return implies the abstract queue was empty when this Pop loaded head.next: a consumer that is
   about to return nil carries the ghost flag [true]; the flag is written only by the load of
   head.next, as "absq = [] now" (second theorem), and is carried unchanged to the return (third). *)
Theorem C15_ms_nil_means_was_empty : forall (st : state Lfq) i we k,
  reach qinit st -> nth_error (snd st) i = Some (Some (QCRet None we k)) -> we = true.
Proof. exact ms_nil_means_was_empty. Qed.
Print Assumptions C15_ms_nil_means_was_empty.

Theorem C15_ms_flag_set_at_next_load : forall (st : state Lfq) i c (st' : state Lfq) e h t k,
  nth_error (snd st) i = Some (Some (QCLdNext h t k)) -> gstep st i c = Some (st', e) ->
  nth_error (snd st') i = Some (Some (QCChk h t (nxt_of (qheap (fst st)) h) (is_nil (absq (fst st))) k)).
Proof. exact ms_flag_set_at_next_load. Qed.
Print Assumptions C15_ms_flag_set_at_next_load.

Theorem C15_ms_flag_carried : forall (st : state Lfq) i c (st' : state Lfq) e h t nx we k r we' k',
  nth_error (snd st) i = Some (Some (QCChk h t nx we k)) -> gstep st i c = Some (st', e) ->
  nth_error (snd st') i = Some (Some (QCRet r we' k')) -> r = None /\ we' = we /\ k' = k.
Proof. exact ms_flag_carried. Qed.
Print Assumptions C15_ms_flag_carried.

Example C15_ms_nil_example :
  reach qinit ex_state_nil /\ nth_error (snd ex_state_nil) 1 = Some (Some (QCRet None true 0)).
Proof. split; [exact ex_reach_nil|vm_compute; reflexivity]. Qed.

(* FIFO, exactly once, nothing invented: in every reachable state the values linked by the successful
   CASes on tail.next (in that order) are the values removed by the successful CASes on head (in that
   order) followed by the abstract queue. With the two linearization theorems: what the Pops return,
   in linearization order, is a prefix of what the Pushes inserted, in linearization order; a
   producer's own Pushes are sequential steps of one thread, so per-producer order is kept. *)
Theorem C15_ms_fifo_exactly_once : forall st : state Lfq,
  reach qinit st -> qpushed (fst st) = qpopped (fst st) ++ absq (fst st).
Proof. exact ms_fifo. Qed.
Print Assumptions C15_ms_fifo_exactly_once.

Example C15_ms_fifo_example :
  exists st' e, gstep ex_state_before_pop 3 QCNone = Some (st', e) /\
    qpushed (fst st') = [7; 8] /\ qpopped (fst st') = [7] /\ absq (fst st') = [8].
Proof.
  eexists. eexists. split; [vm_compute; reflexivity|]. split; [vm_compute; reflexivity|]. split; vm_compute; reflexivity.
Qed.

(* Pop never dereferences a nil next pointer (the plain read next.value is safe), and head never
   overtakes tail in link order. *)
Theorem C15_ms_no_nil_deref : forall (st : state Lfq) i,
  reach qinit st -> nth_error (snd st) i <> Some (Some QCCrash).
Proof. exact ms_no_nil_deref. Qed.
Print Assumptions C15_ms_no_nil_deref.

Theorem C15_ms_head_behind_tail : forall st : state Lfq, reach qinit st ->
  qhidx (fst st) <= qtidx (fst st) /\
  nth_error (qchain (fst st)) (qhidx (fst st)) = Some (qhead (fst st)) /\
  nth_error (qchain (fst st)) (qtidx (fst st)) = Some (qtail (fst st)).
Proof. exact ms_head_behind_tail. Qed.
Print Assumptions C15_ms_head_behind_tail.

(* ======================================================================================================
   RingUnbounded (toolkit/buffer/ring_unbounded.go): ring + mutex + cond + RWMutex + pump goroutine.
   Machine MV.C15.RuPumpModel.RuPump over MV.Lib.Sched; [RuPump true] = the code with
   fixes/C15-ringunbounded-close.patch applied (the pump re-reads the ring after cond.Wait),
   [RuPump false] = the code as it is. Quantification: every reachable state = every schedule of any
   number of concurrent Write(v) and Close() callers (spawned at will by the environment thread), the
   pump and one consumer; every channel capacity n. All names are qualified (no clash with other parts). *)
From MV Require Import Lib.Sched C15.RuPumpModel C15.RuPumpProofs.

(* Loss-free FIFO, exactly once, nothing invented: in every reachable state the sequence of accepted
   elements (in the order of their ring.Write steps) is exactly: what the consumer has received, then
   what is in the channel, then what the pump holds in its local slice, then what is in the ring.
   Hence the received sequence is always an initial segment of the accepted one. *)
Theorem C15_rupump_prefix : forall (n : nat) (st : Sched.state (RuPumpModel.RuPump true)),
  Sched.reach (RuPumpModel.init true n) st ->
  RuPumpModel.accepted (fst st) =
    RuPumpModel.received (fst st) ++ RuPumpModel.rc (fst st) ++ RuPumpModel.held (snd st) ++ RuPumpModel.ring (fst st).
Proof. exact RuPumpProofs.rupump_prefix. Qed.
Print Assumptions C15_rupump_prefix.

(* non-vacuity: three Writes; 7 has been received, the pump holds 8 in its slice, 9 is in the ring *)
Example C15_rupump_prefix_example :
  exists st es,
    Sched.run (RuPumpModel.init true 0)
      ([(0, RuPumpModel.CWrite 7); (0, RuPumpModel.CWrite 8); (0, RuPumpModel.CWrite 9)]
       ++ repeat (3, RuPumpModel.CNone) 7 ++ repeat (1, RuPumpModel.CNone) 9 ++ [(2, RuPumpModel.CNone)]
       ++ repeat (4, RuPumpModel.CNone) 7 ++ repeat (1, RuPumpModel.CNone) 9
       ++ repeat (5, RuPumpModel.CNone) 7)%nat = Some (st, es) /\
    RuPumpModel.accepted (fst st) = [7; 8; 9]%nat /\ RuPumpModel.received (fst st) = [7]%nat /\
    RuPumpModel.rc (fst st) = [] /\ RuPumpModel.held (snd st) = [8]%nat /\ RuPumpModel.ring (fst st) = [9]%nat.
Proof. vm_compute. eexists. eexists. split; [reflexivity|]. cbn. repeat split; reflexivity. Qed.

(* Elements accepted before closing can still be read, after which the output ends: whenever the output
   channel has been closed, the ring is empty and the pump holds nothing, so every accepted element has
   been received or is still readable from the (closed, buffered) channel; closed = true holds. *)
Theorem C15_rupump_drains_after_close : forall (n : nat) (st : Sched.state (RuPumpModel.RuPump true)),
  Sched.reach (RuPumpModel.init true n) st -> RuPumpModel.rc_closed (fst st) = true ->
  RuPumpModel.ring (fst st) = [] /\ RuPumpModel.held (snd st) = [] /\ RuPumpModel.closed (fst st) = true /\
  RuPumpModel.accepted (fst st) = RuPumpModel.received (fst st) ++ RuPumpModel.rc (fst st).
Proof. exact RuPumpProofs.rupump_drains. Qed.
Print Assumptions C15_rupump_drains_after_close.

(* ... and closed = true is stable; from then on no Write is accepted any more. *)
Theorem C15_rupump_closed_stable : forall (n : nat) (st : Sched.state (RuPumpModel.RuPump true)) i c st' e,
  Sched.reach (RuPumpModel.init true n) st -> RuPumpModel.closed (fst st) = true ->
  Sched.gstep st i c = Some (st', e) ->
  RuPumpModel.closed (fst st') = true /\ RuPumpModel.accepted (fst st') = RuPumpModel.accepted (fst st).
Proof. exact RuPumpProofs.rupump_closed_stable. Qed.
Print Assumptions C15_rupump_closed_stable.

(* No element is stranded and the output does end: when Close has taken effect and no Write, Close, pump
   or consumer thread can take a step any more (each has returned or is blocked), the channel and the
   Close() signal are closed, the channel is drained and everything accepted has been received. *)
Theorem C15_rupump_closes_when_quiescent : forall (n : nat) (st : Sched.state (RuPumpModel.RuPump true)),
  Sched.reach (RuPumpModel.init true n) st -> RuPumpModel.closed (fst st) = true -> RuPumpModel.stuck st ->
  RuPumpModel.rc_closed (fst st) = true /\ RuPumpModel.sig_closed (fst st) = true /\
  RuPumpModel.rc (fst st) = [] /\ RuPumpModel.accepted (fst st) = RuPumpModel.received (fst st).
Proof. exact RuPumpProofs.rupump_quiescent. Qed.
Print Assumptions C15_rupump_closes_when_quiescent.

(* non-vacuity of the three theorems above: the schedule of Write(7); Close() on which the unrepaired code
   loses the element (pump parked in cond.Wait, then the Write, then Close, then the pump wakes up), run on
   the repaired machine to the end: the channel is closed, 7 was received, nobody can move *)
Example C15_rupump_close_example :
  exists st es,
    Sched.run (RuPumpModel.init true 0)
      (repeat (1, RuPumpModel.CNone) 6 ++ [(0, RuPumpModel.CWrite 7)] ++ repeat (3, RuPumpModel.CNone) 7
       ++ [(0, RuPumpModel.CClose)] ++ repeat (4, RuPumpModel.CNone) 7 ++ repeat (1, RuPumpModel.CNone) 18
       ++ repeat (2, RuPumpModel.CNone) 2)%nat = Some (st, es) /\
    RuPumpModel.closed (fst st) = true /\ RuPumpModel.rc_closed (fst st) = true /\ RuPumpModel.stuck st /\
    RuPumpModel.accepted (fst st) = [7]%nat /\ RuPumpModel.received (fst st) = [7]%nat.
Proof.
  vm_compute. eexists. eexists. split; [reflexivity|]. cbn. repeat split; try reflexivity.
  intros i l c Hn Hne. do 5 (destruct i as [|i]; [cbn in Hn; inversion Hn; congruence|]).
  destruct i; discriminate.
Qed.

(* The code AS IT IS in /repo violates the property: there is a run (the same Write(7); Close() schedule) at
   whose end every thread has returned, the output channel and the Close() signal are closed, the channel is
   empty, the element 7 was accepted, was never received and is still in the ring. Confirmed on the real
   code by harness/cmd/c15rupump (monitor kind rupump:lost-before-close). *)
Theorem C15_rupump_asis_refuted : forall n : nat,
  exists st : Sched.state (RuPumpModel.RuPump false),
    Sched.reach (RuPumpModel.init false n) st /\
    RuPumpModel.rc_closed (fst st) = true /\ RuPumpModel.sig_closed (fst st) = true /\
    snd st = [Some RuPumpModel.Env; None; None; None; None] /\
    RuPumpModel.accepted (fst st) = [7%nat] /\ RuPumpModel.received (fst st) = [] /\
    RuPumpModel.rc (fst st) = [] /\ RuPumpModel.ring (fst st) = [7%nat].
Proof. exact RuPumpProofs.rupump_asis_refuted. Qed.
Print Assumptions C15_rupump_asis_refuted.
(* ======================================================================================
   mpsc part: queues.MPSC (toolkit/queues/mpsc.go), Vyukov's intrusive multi-producer
   single-consumer queue — machine MV.C15.MpscModel (all names m/M-prefixed), one step per
   sync/atomic operation (Push: alloc, SwapPointer(&q.head), StorePointer(&prev.next);
   Pop: LoadPointer(&tail.next), return). Quantification: every reachable state of the
   interleaving semantics = every schedule, any number of producer goroutines (spawned at
   will by the environment thread), at most one consumer goroutine (Pop's precondition).
   [mswapped] = pushed values in the order of their Swap (linearization order of Push),
   [mpopped] = values returned by successful Pops, [mabsq] = swapped and not yet popped,
   [mlinked] = what is concretely reachable from q.tail through the next pointers.
   Assumptions of the model: sync/atomic sequentially consistent; nodes never reused (GC);
   q.tail / next.val touched by the single consumer only.
   ====================================================================================== *)
From MV Require Import Lib.Sched C15.MpscModel C15.MpscProofs.

(* FIFO, exactly once, nothing invented — as an invariant of every reachable state:
   (1) the swapped values are, in Swap order, the popped values followed by the abstract queue
       (no loss, no duplication, no reordering between the linearization order of the Pushes and
       the order of the Pops);
   (2) for every value v: (#occurrences of v in [mswapped]) + (#occurrences of v still pending in
       live producers) = (#occurrences of v handed to producers by the environment): a value is
       swapped in exactly as often as it was given to a producer, never invented, never twice;
   (3) there is never more than one consumer thread. *)
Theorem C15_mpsc_fifo_exactly_once : forall st, reach minit st ->
  mpopped (fst st) ++ mabsq (fst st) = mswapped (fst st) /\
  (forall v, (mcount (mswapped (fst st)) v + MpT (mcnt v) (snd st) = mcount (mgiven (fst st)) v)%Z) /\
  (MpT mis_cons (snd st) <= 1)%Z.
Proof. exact mpsc_fifo_exactly_once. Qed.
Print Assumptions C15_mpsc_fifo_exactly_once.

(* Corollary: no value is handed out (or still queued) more often than it was put in, and every value
   handed out was put in. *)
Theorem C15_mpsc_nothing_invented : forall st, reach minit st ->
  forall v, (mcount (mpopped (fst st)) v + mcount (mabsq (fst st)) v <= mcount (mgiven (fst st)) v)%Z /\
            (In v (mpopped (fst st)) -> In v (mgiven (fst st))).
Proof. exact mpsc_nothing_invented. Qed.
Print Assumptions C15_mpsc_nothing_invented.

(* The real content of (1): what every single step does to the two histories.
   - A Pop whose load of tail.next is non-nil returns exactly the FIRST element of the abstract queue
     and removes exactly it (its thread continues at "return (Some v)").
   - A Push appends exactly its own value to [mswapped] (hence to the end of the abstract queue) at
     its Swap step.
   - No other step (allocation, the Store that links the node, a nil load, returns, spawns) changes
     [mswapped] or [mpopped]. *)
Theorem C15_mpsc_step_effect : forall st i c st' e, reach minit st -> gstep st i c = Some (st', e) ->
  match e with
  | MEvLoadNext t (Some x) =>
      exists v rest k, nth_error (snd st) i = Some (Some (MCLoad k)) /\
        mabsq (fst st) = v :: rest /\ mabsq (fst st') = rest /\
        mpopped (fst st') = mpopped (fst st) ++ [v] /\ mswapped (fst st') = mswapped (fst st) /\
        nth_error (snd st') i = Some (Some (MCRet (Some v) k))
  | MEvSwap n old =>
      exists v rest, nth_error (snd st) i = Some (Some (MPSwap n v rest)) /\
        mswapped (fst st') = mswapped (fst st) ++ [v] /\ mpopped (fst st') = mpopped (fst st) /\
        mabsq (fst st') = mabsq (fst st) ++ [v] /\
        nth_error (snd st') i = Some (Some (MPStore old n rest))
  | _ => mswapped (fst st') = mswapped (fst st) /\ mpopped (fst st') = mpopped (fst st)
  end.
Proof. exact mpsc_step_effect. Qed.
Print Assumptions C15_mpsc_step_effect.

(* Per-producer order: a step of a producer thread either leaves [mswapped] and the thread's list of
   pending values unchanged, or moves exactly the FIRST pending value to the end of [mswapped]. Steps of
   other threads do not touch the thread (C15_mpsc_frame), and a producer spawned with [MCProd vs] starts
   with pending = vs (C15_mpsc_spawn). So the values of one producer enter [mswapped] — and by
   C15_mpsc_fifo_exactly_once leave the queue — in its program order. *)
Theorem C15_mpsc_producer_program_order : forall (st : state Mpsc) i c st' e l,
  nth_error (snd st) i = Some (Some l) -> mis_prod l -> gstep st i c = Some (st', e) ->
  (mswapped (fst st') = mswapped (fst st) /\ mpending_at (snd st') i = mpending l) \/
  (exists v, mpending l = v :: mpending_at (snd st') i /\ mswapped (fst st') = mswapped (fst st) ++ [v]).
Proof. exact mpsc_producer_program_order. Qed.
Print Assumptions C15_mpsc_producer_program_order.

Theorem C15_mpsc_frame : forall (st : state Mpsc) i c st' e j,
  gstep st i c = Some (st', e) -> j <> i -> j < length (snd st) -> nth_error (snd st') j = nth_error (snd st) j.
Proof. exact mpsc_other_threads_unchanged. Qed.
Print Assumptions C15_mpsc_frame.

Theorem C15_mpsc_spawn : forall (st : state Mpsc) c st' e vs,
  gstep st 0 c = Some (st', e) -> nth_error (snd st) 0 = Some (Some MEnv) -> c = MCProd vs ->
  snd st' = upd 0 (Some MEnv) (snd st) ++ [Some (match vs with v :: r => MPAlloc v r | [] => MEnv end)] /\
  mpending_at (snd st') (length (snd st)) = vs /\ mgiven (fst st') = mgiven (fst st) ++ vs.
Proof. exact mpsc_spawned_producer_pending. Qed.
Print Assumptions C15_mpsc_spawn.

(* The concretely linked list behind tail is always a PREFIX of the abstract queue, and it is the whole
   abstract queue whenever no producer is between its Swap and its Store. *)
Theorem C15_mpsc_linked_prefix : forall st, reach minit st ->
  (exists rest, mabsq (fst st) = mlinked (fst st) ++ rest) /\
  (min_window st = 0%Z -> mlinked (fst st) = mabsq (fst st)).
Proof. exact mpsc_linked_prefix. Qed.
Print Assumptions C15_mpsc_linked_prefix.

(* The link invariant behind both: two consecutive nodes (a, b) of the chain (stub first, then the nodes in
   Swap order) are either linked, and then no thread is at MPStore a b, or a.next is still nil, and then
   EXACTLY ONE thread — b's producer — is at MPStore a b. *)
Theorem C15_mpsc_link_or_exactly_one : forall st, reach minit st ->
  forall i, S i < length (mfull (fst st)) ->
    let a := nth i (mfull (fst st)) O in let b := nth (S i) (mfull (fst st)) O in
    (mnxt_of (mheap (fst st)) a = Some b /\ MpT (mat_pair a b) (snd st) = 0%Z) \/
    (mnxt_of (mheap (fst st)) a = None /\ MpT (mat_pair a b) (snd st) = 1%Z).
Proof. exact mpsc_link_or_exactly_one. Qed.
Print Assumptions C15_mpsc_link_or_exactly_one.

(* The ALLOWED window. A Pop returns nil (its load of tail.next finds nil) only when the abstract queue
   is empty, OR the producer of its first element is at MPStore (tail, b): it has swapped b in and has not
   yet stored tail.next := b. In that window the consumer is told "empty" although a Push has passed its
   linearization point; property C15 allows this: the report loses nothing — the step changes no part of
   the shared state, the element stays first in the abstract queue, and by C15_mpsc_step_effect it is
   what the next successful Pop returns (by C15_mpsc_nothing_stranded at the latest when the producers
   have finished). *)
Theorem C15_mpsc_nil_allowed_window : forall st i c st' t, reach minit st ->
  gstep st i c = Some (st', MEvLoadNext t None) ->
  fst st' = fst st /\
  (exists k, nth_error (snd st) i = Some (Some (MCLoad k)) /\ nth_error (snd st') i = Some (Some (MCRet None k))) /\
  (mabsq (fst st) = [] \/
   exists j b rest, nth_error (snd st) j = Some (Some (MPStore (mtail (fst st)) b rest)) /\
                    hd_error (mabsq (fst st)) = Some (mval_of (mheap (fst st)) b)).
Proof. exact mpsc_nil_allowed_window. Qed.
Print Assumptions C15_mpsc_nil_allowed_window.

(* Nothing is stranded: when no producer thread is live any more, everything swapped and not yet popped is
   linked behind tail in order, and every value ever handed to a producer has been swapped in exactly
   once ... *)
Theorem C15_mpsc_nothing_stranded : forall st, reach minit st -> mno_producer st ->
  mlinked (fst st) = mabsq (fst st) /\
  (forall v, mcount (mswapped (fst st)) v = mcount (mgiven (fst st)) v).
Proof. exact mpsc_nothing_stranded. Qed.
Print Assumptions C15_mpsc_nothing_stranded.

(* ... and the consumer gets all of it: if the consumer is about to Pop and has at least |absq| Pops left,
   then running it alone (2 steps per Pop) succeeds, the Pops return exactly the remaining values in
   order, and the queue is empty afterwards. *)
Theorem C15_mpsc_drain : forall n st i k, reach minit st -> mno_producer st ->
  length (mabsq (fst st)) = n ->
  nth_error (snd st) i = Some (Some (MCLoad k)) -> n <= S k ->
  exists st' es, Sched.run st (repeat (i, MCNone) (2 * n)) = Some (st', es) /\
    mpopped (fst st') = mpopped (fst st) ++ mabsq (fst st) /\ mabsq (fst st') = [] /\
    mrets es = map Some (mabsq (fst st)).
Proof. exact mpsc_drain. Qed.
Print Assumptions C15_mpsc_drain.

(* non-vacuity. Threads: 0 = environment, 1 = producer of [11], 2 = producer of [21], 3 = consumer (3 Pops).
   Producer 1 swaps node 1 in and is descheduled before its Store; producer 2 swaps node 2 in and links it
   behind node 1. Now two values are in the abstract queue and NOTHING is reachable from tail. *)
Definition mp_example_sched : list (nat * mchoice) :=
  [(0, MCProd [11]); (0, MCProd [21]); (0, MCCons 2); (1, MCNone); (2, MCNone);
   (1, MCNone); (2, MCNone); (2, MCNone)].

Example C15_mpsc_window_example :
  exists st st' es, Sched.run minit mp_example_sched = Some (st, es) /\
    mabsq (fst st) = [11; 21] /\ mlinked (fst st) = [] /\ min_window st = 1%Z /\
    gstep st 3 MCNone = Some (st', MEvLoadNext 0 None) /\ fst st' = fst st.
Proof. eexists. eexists. eexists. split; [vm_compute; reflexivity|]. vm_compute. repeat split. Qed.

(* ... producer 1 then performs its Store: both values are linked; no producer is live; the consumer's
   pending nil return and two further Pops deliver 11 then 21 *)
Example C15_mpsc_fifo_example :
  exists st es, Sched.run minit (mp_example_sched ++ [(3, MCNone); (1, MCNone); (3, MCNone); (3, MCNone); (3, MCNone); (3, MCNone); (3, MCNone)])
                = Some (st, es) /\
    mrets es = [None; Some 11; Some 21] /\ mpopped (fst st) = [11; 21] /\ mabsq (fst st) = [] /\
    mswapped (fst st) = [11; 21] /\ mgiven (fst st) = [11; 21] /\ snd st = [Some MEnv; None; None; None].
Proof. eexists. eexists. split; [vm_compute; reflexivity|]. vm_compute. repeat split. Qed.

Example C15_mpsc_stranded_example :
  exists st es, Sched.run minit (mp_example_sched ++ [(3, MCNone); (1, MCNone); (3, MCNone)]) = Some (st, es) /\
    mno_producer st /\ mlinked (fst st) = [11; 21] /\ mabsq (fst st) = [11; 21] /\
    nth_error (snd st) 3 = Some (Some (MCLoad 1)) /\
    exists st' es', Sched.run st (repeat (3, MCNone) 4) = Some (st', es') /\ mrets es' = [Some 11; Some 21].
Proof.
  eexists. eexists. split; [vm_compute; reflexivity|]. split.
  { intros i l Hi. destruct i as [|[|[|[|[|i]]]]]; vm_compute in Hi; inversion Hi; subst; cbn; tauto. }
  vm_compute. repeat split. eexists. eexists. split; reflexivity.
Qed.

(* ======================================================================================================
   channels.UnboundedRing (toolkit/channels/unbounded_ring.go): layer-A machine MV.C15.UrPumpModel.
   [UrPump true] is the code repaired by fixes/C15-unboundedring-cancel.patch, [UrPump false] the code as it
   is. Quantification: every schedule, any number of concurrent Put and Close calls (spawned by the
   environment thread at will), cancellation of the context at any moment, every channel capacity [cap],
   one consumer that may start at any time. *)
From MV Require Import Lib.Sched C15.UrPumpModel C15.UrPumpProofs.

(* FIFO, exactly once, nothing invented: in every reachable state the values written by accepted Puts are, in
   write order, the values received so far, followed by the channel buffer, by what the pump holds locally
   (still to be sent), by the contents of the ring. *)
Theorem C15_urpump_prefix : forall (cap : nat) (st : Sched.state (UrPump true)),
  Sched.reach (ur_init true cap) st ->
  ur_accepted (fst st) = ur_received (fst st) ++ ur_ch (fst st) ++ ur_held st ++ ur_ring (fst st).
Proof. exact (ur_prefix true). Qed.
Print Assumptions C15_urpump_prefix.

(* the same, per class of values (one producer's): the received values of the class are a prefix, in order, of
   the accepted values of the class — the form checked on every recorded run (UrPumpRun) *)
Theorem C15_urpump_prefix_per_producer : forall (cap : nat) (st : Sched.state (UrPump true)) (f : nat -> bool),
  Sched.reach (ur_init true cap) st ->
  exists rest, filter f (ur_accepted (fst st)) = filter f (ur_received (fst st)) ++ rest.
Proof. exact (ur_filter_prefix true). Qed.
Print Assumptions C15_urpump_prefix_per_producer.

Example C15_urpump_prefix_example :
  exists st es,
    Sched.run (ur_init true 1)
      [(0, UrCPut [1; 2]); (4, UrCNone); (4, UrCNone); (4, UrCNone); (4, UrCNone); (4, UrCNone); (4, UrCNone);
       (1, UrCNone); (1, UrCNone); (1, UrCNone); (1, UrCNone); (1, UrCNone);
       (0, UrCPut [3]); (5, UrCNone); (5, UrCNone); (5, UrCNone)]%nat = Some (st, es)
    /\ ur_accepted (fst st) = [1; 2; 3]%nat /\ ur_received (fst st) = [] /\ ur_ch (fst st) = [1]%nat
    /\ ur_held st = [2]%nat /\ ur_ring (fst st) = [3]%nat.
Proof. eexists. eexists. split; [vm_compute; reflexivity | vm_compute; repeat split]. Qed.

(* Elements accepted before Close()/cancellation can still be read, after which the output ends — safety half:
   whenever the output channel is closed, Close() had been called (by the client or by the watcher on
   cancellation), the ring is empty and the pump holds nothing, so every accepted element has been received or
   sits in the channel buffer, where the consumer reads it before it sees the end. *)
Theorem C15_urpump_drains_after_close : forall (cap : nat) (st : Sched.state (UrPump true)),
  Sched.reach (ur_init true cap) st -> ur_chclosed (fst st) = true ->
  ur_closed (fst st) = true /\ ur_ring (fst st) = [] /\ ur_held st = [] /\
  ur_accepted (fst st) = ur_received (fst st) ++ ur_ch (fst st).
Proof. exact (ur_drains true). Qed.
Print Assumptions C15_urpump_drains_after_close.

(* ... and nothing is accepted afterwards: once [closed] is set it stays set, no Put is accepted any more (Put
   returns its error), and a closed output channel stays closed. *)
Theorem C15_urpump_closed_is_final : forall (cap : nat) (st st' : Sched.state (UrPump true)),
  Sched.reach (ur_init true cap) st -> Sched.reach st st' -> ur_closed (fst st) = true ->
  ur_closed (fst st') = true /\ ur_accepted (fst st') = ur_accepted (fst st) /\
  (ur_chclosed (fst st) = true -> ur_chclosed (fst st') = true).
Proof. exact (ur_closed_stable true). Qed.
Print Assumptions C15_urpump_closed_is_final.

(* the pump never sends on, and never closes, an already closed channel (either would panic): every pump
   thread that has not yet executed close(ch) lives in a state where the channel is open *)
Theorem C15_urpump_no_panic : forall (cap : nat) (st : Sched.state (UrPump true)) (i : nat) (l : urpc),
  Sched.reach (ur_init true cap) st -> nth_error (snd st) i = Some (Some l) -> ur_act l = 1%Z ->
  ur_chclosed (fst st) = false.
Proof. exact (ur_no_chan_panic true). Qed.
Print Assumptions C15_urpump_no_panic.

(* ... liveness half, in the no-stranded style of C01/C02: if Close() has been called or the context has been
   cancelled, and no thread other than the environment can take a step any more (the consumer included: it
   has ended, or it would be blocked on an open, empty channel), then the output channel IS closed and the
   consumer has received every accepted element. (Not a termination proof: a schedule that starves a thread
   for ever is outside this statement; the repaired code has no spinning loop.) *)
Theorem C15_urpump_closes_when_quiescent : forall (cap : nat) (st : Sched.state (UrPump true)),
  (1 <= cap)%nat -> Sched.reach (ur_init true cap) st -> ur_quiescent st ->
  ur_closed (fst st) = true \/ ur_cancelled (fst st) = true ->
  ur_chclosed (fst st) = true /\ ur_received (fst st) = ur_accepted (fst st).
Proof. intros cap st. exact (ur_closes_when_quiescent true cap st eq_refl). Qed.
Print Assumptions C15_urpump_closes_when_quiescent.

(* non-vacuity of the three statements above: Put(1,2) is accepted, the context is cancelled, the watcher
   closes, the pump delivers both values and closes the channel, the consumer reads 1, 2 and the end;
   the final state is quiescent (only the environment is left) *)
Definition C15_urpump_cancel_run : list (nat * urchoice) :=
  [(0, UrCPut [1; 2]); (4, UrCNone); (4, UrCNone); (4, UrCNone); (4, UrCNone); (4, UrCNone); (4, UrCNone);
   (0, UrCCancel);
   (3, UrCNone); (3, UrCNone); (3, UrCNone); (3, UrCNone); (3, UrCNone);
   (1, UrCNone); (1, UrCNone); (1, UrCNone); (1, UrCNone); (1, UrCNone); (1, UrCNone); (1, UrCNone);
   (2, UrCNone);
   (1, UrCNone); (1, UrCNone); (1, UrCNone); (1, UrCNone); (1, UrCNone); (1, UrCNone);
   (2, UrCNone); (2, UrCNone)]%nat.

Example C15_urpump_drains_example :
  exists st es,
    Sched.run (ur_init true 2) C15_urpump_cancel_run = Some (st, es)
    /\ ur_cancelled (fst st) = true /\ ur_chclosed (fst st) = true
    /\ ur_accepted (fst st) = [1; 2]%nat /\ ur_received (fst st) = [1; 2]%nat
    /\ snd st = [Some UrEnv; None; None; None; None]
    /\ ur_quiescent st.
Proof.
  eexists. eexists. split; [vm_compute; reflexivity|].
  repeat split; try (vm_compute; reflexivity).
  intros i l c Hn Hne. cbn [snd] in Hn.
  do 5 (destruct i as [|i]; [simpl in Hn; try discriminate; inversion Hn; subst; congruence|]).
  destruct i; discriminate.
Qed.

(* The code AS IT IS violates the clause "elements accepted before cancellation can still be read, after which
   the output ends": there is a reachable state — Put(1) accepted and in the ring, context cancelled — from
   which, on every continuation (any schedule, further Puts and explicit Close() calls included), the output
   channel is never closed ... *)
Theorem C15_urpump_asis_refuted : forall (cap : nat),
  exists st : Sched.state (UrPump false),
    Sched.reach (ur_init false cap) st /\ ur_ring (fst st) <> [] /\ ur_cancelled (fst st) = true /\
    forall st', Sched.reach st st' -> ur_chclosed (fst st') = false.
Proof. exact ur_asis_refuted. Qed.
Print Assumptions C15_urpump_asis_refuted.

(* ... and the accepted element is never received. *)
Theorem C15_urpump_asis_never_delivered_refuted : forall (cap : nat),
  exists st : Sched.state (UrPump false),
    Sched.reach (ur_init false cap) st /\ ur_accepted (fst st) = [1%nat] /\ ur_ring (fst st) <> [] /\
    ur_cancelled (fst st) = true /\
    forall st', Sched.reach st st' -> ur_chclosed (fst st') = false /\ ur_received (fst st') = [].
Proof. exact ur_asis_stuck. Qed.
Print Assumptions C15_urpump_asis_never_delivered_refuted.

(* the witness is the run  Put(1) ; cancel  with the pump not yet scheduled *)
Example C15_urpump_asis_example :
  exists st es, Sched.run (ur_init false 8) ur_asis_sched = Some (st, es)
    /\ ur_accepted (fst st) = [1%nat] /\ ur_ring (fst st) = [1%nat] /\ ur_cancelled (fst st) = true
    /\ nth_error (snd st) 1 = Some (Some UrPmSelect).
Proof. eexists. eexists. split; [vm_compute; reflexivity | vm_compute; repeat split]. Qed.
