(* MV.C15.Properties — the statements of property C15 and nothing else.
   Every theorem is closed by [exact <lemma>] and followed by Print Assumptions. *)
From MV Require Import Lib.ListX C15.RingModel C15.RingProofs.

(* Ring buffer: for every initial capacity and every sequence of
   write/read/read-n/read-all/peek/is-empty/cap/len/reset operations, every output of the ring
   (cursor arithmetic, growth, wrap-around as in ring.go) equals the output of a plain FIFO list,
   and what the ring still holds afterwards is exactly what the FIFO list holds. *)
Theorem C15_ring_refines_fifo : forall (n : Z) (ops : list op),
  outs_rel [] ops (snd (run (new_ring n) ops)) (snd (spec_run [] ops)) /\
  contents (fst (run (new_ring n) ops)) = fst (spec_run [] ops).
Proof. exact ring_refines_fifo. Qed.
Print Assumptions C15_ring_refines_fifo.

(* non-vacuity: a concrete run that grows, wraps and bulk-reads across the wrap *)
Example C15_ring_example :
  snd (run (new_ring 4) [Write 1; Write 2; Write 3; ReadMulti 3; Write 4; Write 5; ReadMulti 1; ReadAll; Len])
  = [OUnit; OUnit; OUnit; OMulti false [1; 2; 3]; OUnit; OUnit; OMulti false [4]; OList [5]; ONat 0]%Z.
Proof. vm_compute. reflexivity. Qed.
