(* MV.C15.LfqRun — tie T2 for toolkit/queues/lock_free.go: replay of schedules recorded from the
   instrumented CURRENT source under the controlled scheduler. Each log entry = (thread id, choice,
   event observed in the Go code); the machine MV.C15.LfqModel must be able to take that step and
   must predict exactly that event (which pointer was loaded, whether the CAS succeeded, what Pop
   returned). At the end the values still linked behind head in the real queue are compared with the
   machine's abstract queue. *)
From MV Require Import Lib.ListX Lib.Sched C15.LfqModel.

Definition lq_choice_eqb (a b : qchoice) : bool :=
  match a, b with
  | QCNone, QCNone => true
  | QCPush l, QCPush l' => list_eqb Nat.eqb l l'
  | QCPop k, QCPop k' => Nat.eqb k k'
  | _, _ => false
  end.

Definition lq_event_eqb (a b : qevent) : bool :=
  match a, b with
  | QEvSpawn c, QEvSpawn c' => lq_choice_eqb c c'
  | QEvAlloc n v, QEvAlloc n' v' => Nat.eqb n n' && Nat.eqb v v'
  | QEvLdHead r, QEvLdHead r' => Nat.eqb r r'
  | QEvLdTail r, QEvLdTail r' => Nat.eqb r r'
  | QEvLdNext n r, QEvLdNext n' r' => Nat.eqb n n' && opt_eqb Nat.eqb r r'
  | QEvCasNext n x o, QEvCasNext n' x' o' => Nat.eqb n n' && Nat.eqb x x' && Bool.eqb o o'
  | QEvCasTail a1 b1 o, QEvCasTail a2 b2 o' => Nat.eqb a1 a2 && Nat.eqb b1 b2 && Bool.eqb o o'
  | QEvCasHead a1 b1 o, QEvCasHead a2 b2 o' => Nat.eqb a1 a2 && Nat.eqb b1 b2 && Bool.eqb o o'
  | QEvRet r, QEvRet r' => opt_eqb Nat.eqb r r'
  | QEvExit, QEvExit => true
  | _, _ => false
  end.

(* None = the whole log is a run of the machine with equal events; Some k = first diverging step *)
Fixpoint lq_replay (st : state Lfq) (log : list (nat * qchoice * qevent)) (k : nat) : option nat :=
  match log with
  | [] => None
  | (i, c, QEvExit) :: t =>
      match nth_error (snd st) i with
      | Some None => lq_replay st t (S k)
      | _ => Some k
      end
  | (i, c, e) :: t =>
      match gstep st i c with
      | Some (st', e') => if lq_event_eqb e e' then lq_replay st' t (S k) else Some k
      | None => Some k
      end
  end.

Fixpoint lq_final (st : state Lfq) (log : list (nat * qchoice * qevent)) : option (state Lfq) :=
  match log with
  | [] => Some st
  | (i, c, QEvExit) :: t => lq_final st t
  | (i, c, _) :: t => match gstep st i c with Some (st', _) => lq_final st' t | None => None end
  end.

Record lqcase := { lqid : nat; lqlog : list (nat * qchoice * qevent);
                   lqend : option (list nat) (* values still in the real queue at the end, walked from head.next *) }.

Definition lq_case_ok (c : lqcase) : bool :=
  match lq_replay qinit (lqlog c) 0 with
  | Some _ => false
  | None =>
      match lqend c, lq_final qinit (lqlog c) with
      | None, _ => true
      | Some l, Some st => list_eqb Nat.eqb (absq (fst st)) l
      | Some _, None => false
      end
  end.

Definition lqmismatches (cs : list lqcase) : list nat := fail_ids lq_case_ok lqid cs.
Definition lq_divergence (c : lqcase) : option nat := lq_replay qinit (lqlog c) 0.
