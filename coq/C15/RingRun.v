(* MV.C15.RingRun — evaluation of recorded implementation runs against the model
   (correspondence tie T1). A case = initial size, operation list, outputs the Go code produced. *)
From MV Require Import Lib.ListX C15.RingModel.

Definition out_eqb (a b : out) : bool :=
  match a, b with
  | OUnit, OUnit => true
  | OVal x, OVal y => opt_eqb Z.eqb x y
  | OMulti e1 l1, OMulti e2 l2 => Bool.eqb e1 e2 && list_eqb Z.eqb l1 l2
  | OList l1, OList l2 => list_eqb Z.eqb l1 l2
  | OBool x, OBool y => Bool.eqb x y
  | ONat x, ONat y => Nat.eqb x y
  | _, _ => false
  end.

(* compressed form of long scripts (emitted by the harness for runs of consecutive writes) *)
Fixpoint writes (start : Z) (n : nat) : list op :=
  match n with O => [] | S k => Write start :: writes (start + 1) k end.
Definition units (n : nat) : list out := repeat OUnit n.

Record case := { cid : nat; cinit : Z; cops : list op; cimpl : list out }.

Definition model_outs (c : case) : list out := snd (run (new_ring (cinit c)) (cops c)).
Definition case_ok (c : case) : bool := list_eqb out_eqb (model_outs c) (cimpl c).
Definition mismatches (cs : list case) : list nat := fail_ids case_ok cid cs.
