(* MV.C15.MpscProofs — invariants of the MPSC machine (MV.C15.MpscModel) over every reachable state:
   every schedule, any number of producer threads, at most one consumer thread. *)
From MV Require Import Lib.ListX Lib.Sched C15.MpscModel.
From Coq Require Import ZifyBool.
Open Scope nat_scope.
Arguments Z.add : simpl never.
Arguments Z.sub : simpl never.
Arguments Z.of_nat : simpl never.
Arguments Nat.ltb : simpl never.

(* ------------------------------------------------------------------ lists, heap *)

Lemma mp_nth_error_upd_same {A} i (v : A) l : i < length l -> nth_error (upd i v l) i = Some v.
Proof. revert i; induction l as [|h t IH]; intros [|i] H; simpl in *; try lia; auto. apply IH; lia. Qed.

Lemma mp_nth_error_upd_other {A} i j (v : A) l : i <> j -> nth_error (upd i v l) j = nth_error l j.
Proof. revert i j; induction l as [|h t IH]; intros [|i] [|j] H; simpl in *; try lia; auto. Qed.

Lemma mp_nth_error_upd_None {A} i (v : A) l : length l <= i -> upd i v l = l.
Proof. revert i; induction l as [|h t IH]; intros [|i] H; simpl in *; try lia; auto. f_equal. apply IH; lia. Qed.

Lemma mnxt_of_app h t n : n < length h -> mnxt_of (h ++ t) n = mnxt_of h n.
Proof. intros H. unfold mnxt_of. rewrite nth_error_app1 by exact H. reflexivity. Qed.
Lemma mval_of_app h t n : n < length h -> mval_of (h ++ t) n = mval_of h n.
Proof. intros H. unfold mval_of. rewrite nth_error_app1 by exact H. reflexivity. Qed.
Lemma mnxt_of_new h d : mnxt_of (h ++ [d]) (length h) = mnxt d.
Proof. unfold mnxt_of. rewrite nth_error_app2 by lia. rewrite Nat.sub_diag. reflexivity. Qed.
Lemma mval_of_new h d : mval_of (h ++ [d]) (length h) = mval d.
Proof. unfold mval_of. rewrite nth_error_app2 by lia. rewrite Nat.sub_diag. reflexivity. Qed.

Lemma mset_nxt_length h a b : length (mset_nxt h a b) = length h.
Proof. unfold mset_nxt. apply upd_length. Qed.

Lemma mval_of_set h a b x : mval_of (mset_nxt h a b) x = mval_of h x.
Proof.
  unfold mset_nxt. destruct (Nat.eq_dec a x) as [->|Hne].
  - destruct (Nat.lt_ge_cases x (length h)) as [Hl|Hl].
    + unfold mval_of at 1. rewrite mp_nth_error_upd_same by exact Hl. reflexivity.
    + rewrite mp_nth_error_upd_None by exact Hl. reflexivity.
  - unfold mval_of at 1 3. rewrite mp_nth_error_upd_other by exact Hne. reflexivity.
Qed.

Lemma mnxt_of_set_same h a b : a < length h -> mnxt_of (mset_nxt h a b) a = Some b.
Proof. intros Hl. unfold mset_nxt, mnxt_of. rewrite mp_nth_error_upd_same by exact Hl. reflexivity. Qed.

Lemma mnxt_of_set_other h a b x : x <> a -> mnxt_of (mset_nxt h a b) x = mnxt_of h x.
Proof. intros Hne. unfold mset_nxt, mnxt_of. rewrite mp_nth_error_upd_other by auto. reflexivity. Qed.

(* ------------------------------------------------------------------ pools *)


Lemma mp_nth_error_upd_pool {A} i j (x : A) p :
  nth_error (upd i x p) j = if Nat.eqb i j then (if Nat.ltb i (length p) then Some x else None) else nth_error p j.
Proof.
  destruct (Nat.eqb_spec i j) as [->|Hne].
  - destruct (Nat.ltb_spec j (length p)) as [Hl|Hl].
    + apply mp_nth_error_upd_same; exact Hl.
    + rewrite mp_nth_error_upd_None by exact Hl. apply nth_error_None. exact Hl.
  - apply mp_nth_error_upd_other; exact Hne.
Qed.

(* after a step of thread i: every live thread satisfies Q, given that it satisfied P before *)
Lemma mp_all_live_step (P Q : mpc -> Prop) (p : pool Mpsc) i (ol : option mpc) (sp : list mpc) :
  @all_live Mpsc P p -> (forall l, P l -> Q l) ->
  (forall l, ol = Some l -> Q l) -> (forall l, In l sp -> Q l) ->
  @all_live Mpsc Q (upd i ol p ++ map Some sp).
Proof.
  intros HP HPQ Hol Hsp j l Hj.
  destruct (Nat.lt_ge_cases j (length (upd i ol p))) as [Hl|Hl].
  - rewrite nth_error_app1 in Hj by exact Hl. rewrite mp_nth_error_upd_pool in Hj.
    destruct (Nat.eqb_spec i j) as [->|Hne].
    + revert Hj. match goal with |- context [if ?c then _ else _] => destruct c end; [|discriminate]. intros Hj. inversion Hj; subst. apply Hol. reflexivity.
    + apply HPQ. apply (HP j). exact Hj.
  - rewrite nth_error_app2 in Hj by exact Hl. apply Hsp.
    apply nth_error_In in Hj. apply in_map_iff in Hj. destruct Hj as (l' & Hl' & Hin). inversion Hl'; subst. exact Hin.
Qed.

Lemma mp_total_pos_exists (f : mpc -> Z) (p : pool Mpsc) :
  (forall l, 0 <= f l)%Z -> (0 < MpT f p)%Z -> exists i l, nth_error p i = Some (Some l) /\ (0 < f l)%Z.
Proof.
  intros Hf. unfold MpT. induction p as [|[l|] t IH]; simpl; intros H.
  - lia.
  - destruct (Z.ltb_spec 0 (f l)) as [Hp|Hp].
    + exists 0, l. split; [reflexivity|exact Hp].
    + specialize (Hf l). destruct IH as (i & l' & Hn & Hl'); [lia|]. exists (S i), l'. split; assumption.
  - destruct IH as (i & l' & Hn & Hl'); [lia|]. exists (S i), l'. split; assumption.
Qed.

Lemma mp_total_zero_of_live (f : mpc -> Z) (p : pool Mpsc) :
  @all_live Mpsc (fun l => f l = 0%Z) p -> MpT f p = 0%Z.
Proof.
  unfold MpT, all_live. induction p as [|[l|] t IH]; simpl; intros H; auto.
  - rewrite (H 0 l eq_refl). rewrite IH; [reflexivity|]. intros i l' Hn. apply (H (S i)). exact Hn.
  - apply IH. intros i l' Hn. apply (H (S i)). exact Hn.
Qed.

(* ------------------------------------------------------------------ indicators *)

(* thread owns node n: allocated, not yet swapped in *)
Definition mown (n : nat) (l : mpc) : Z :=
  match l with MPSwap n' _ _ => if Nat.eqb n n' then 1%Z else 0%Z | _ => 0%Z end.

Lemma mp_nn_mown n l : (0 <= mown n l)%Z.
Proof. destruct l; simpl; try lia. destruct (Nat.eqb n n0); lia. Qed.
Lemma mp_nn_mat_pair a b l : (0 <= mat_pair a b l)%Z.
Proof. destruct l; simpl; try lia. destruct (Nat.eqb a prev && Nat.eqb b n); lia. Qed.
Lemma mp_nn_mcnt v l : (0 <= mcnt v l)%Z.
Proof. unfold mcnt. lia. Qed.
Lemma mp_nn_mat_store l : (0 <= mat_store l)%Z.
Proof. destruct l; simpl; lia. Qed.
Lemma mp_nn_mis_cons l : (0 <= mis_cons l)%Z.
Proof. destruct l; simpl; lia. Qed.
Lemma mat_pair_le_store a b l : (mat_pair a b l <= mat_store l)%Z.
Proof. destruct l; simpl; try lia. destruct (Nat.eqb a prev && Nat.eqb b n); lia. Qed.

(* ------------------------------------------------------------------ the invariant *)

(* what a thread's pc says about the shared state *)
Definition mpc_ok (s : msh) (l : mpc) : Prop :=
  match l with
  | MPSwap n v _ => mnxt_of (mheap s) n = None /\ mval_of (mheap s) n = v
  | MPStore a b _ => exists i, S i < length (mfull s) /\ nth i (mfull s) O = a /\ nth (S i) (mfull s) O = b
  | _ => True
  end.


Definition MInv (st : state Mpsc) : Prop :=
  let s := fst st in let p := snd st in
  (* head is the last node of the chain, tail the node at position |popped| *)
  mhead s = nth (length (mchain s)) (mfull s) O /\
  length (mpopped s) <= length (mchain s) /\
  mtail s = nth (length (mpopped s)) (mfull s) O /\
  (* the chain's values are the swapped values; popped is a prefix of swapped *)
  map (mval_of (mheap s)) (mchain s) = mswapped s /\
  mpopped s = firstn (length (mpopped s)) (mswapped s) /\
  (* every node is in the chain at most once or owned by at most one producer about to swap it, never both;
     and only allocated nodes are *)
  (forall n, (MpT (mown n) p + mcount (mfull s) n <= if Nat.ltb n (length (mheap s)) then 1 else 0)%Z) /\
  (* consecutive nodes (a, b) of the chain are linked and no thread is at MPStore a b, unless the producer of
     b is still between its Swap and its Store: then a.next is still nil and EXACTLY ONE thread is at MPStore a b *)
  (forall i, S i < length (mfull s) ->
     (mnxt_of (mheap s) (nth i (mfull s) O) = Some (nth (S i) (mfull s) O) /\
      MpT (mat_pair (nth i (mfull s) O) (nth (S i) (mfull s) O)) p = 0%Z) \/
     (mnxt_of (mheap s) (nth i (mfull s) O) = None /\
      MpT (mat_pair (nth i (mfull s) O) (nth (S i) (mfull s) O)) p = 1%Z)) /\
  mnxt_of (mheap s) (mhead s) = None /\
  @all_live Mpsc (mpc_ok s) p /\
  (* every value handed to a producer is either still pending in that producer or has been swapped in, once *)
  (forall v, (mcount (mswapped s) v + MpT (mcnt v) p = mcount (mgiven s) v)%Z) /\
  (* single consumer *)
  (MpT mis_cons p <= if mcons s then 1 else 0)%Z.

Lemma minv_init : MInv minit.
Proof.
  unfold MInv, minit, MpT, mcount, mfull; cbn [fst snd minit_sh mheap mhead mtail mcons mchain mswapped mpopped mgiven].
  repeat split; try reflexivity; try (simpl; lia).
  - intros n. destruct n as [|n]; [vm_compute; discriminate|].
    destruct (Nat.ltb_spec (S n) (length [{| mval := 0; mnxt := None |}])) as [Hl|Hl]; [simpl in Hl; lia|].
    cbn [total mown count_occ]. destruct (Nat.eq_dec 0 (S n)); [lia|]. cbn. lia.
  - intros i l Hn. destruct i as [|[|i]]; simpl in Hn; try discriminate. inversion Hn; subst. exact I.
Qed.

(* ---- consequences of the counting clause *)
Section MpDerived.
Variables (s : msh) (p : pool Mpsc).
Hypothesis H5 : forall n, (MpT (mown n) p + mcount (mfull s) n <= if Nat.ltb n (length (mheap s)) then 1 else 0)%Z.

Lemma mpd_nodup : NoDup (mfull s).
Proof.
  apply (NoDup_count_occ Nat.eq_dec). intros x. specialize (H5 x).
  pose proof (total_nonneg Mpsc (mown x) p (mp_nn_mown x)). unfold MpT, mcount in *.
  destruct (Nat.ltb x (length (mheap s))); lia.
Qed.

Lemma mpd_in_lt x : In x (mfull s) -> x < length (mheap s).
Proof.
  intros Hin. apply (count_occ_In Nat.eq_dec) in Hin. specialize (H5 x).
  pose proof (total_nonneg Mpsc (mown x) p (mp_nn_mown x)). unfold MpT, mcount in *.
  destruct (Nat.ltb_spec x (length (mheap s))); [assumption|lia].
Qed.

Lemma mpd_nth_lt i : i < length (mfull s) -> nth i (mfull s) O < length (mheap s).
Proof. intros Hi. apply mpd_in_lt. apply nth_In. exact Hi. Qed.

Lemma mpd_own i n v r : nth_error p i = Some (Some (MPSwap n v r)) -> ~ In n (mfull s) /\ n < length (mheap s).
Proof.
  intros Hn. pose proof (total_ge_nth Mpsc (mown n) p i _ (mp_nn_mown n) Hn) as G.
  cbn [mown] in G. rewrite Nat.eqb_refl in G. specialize (H5 n). unfold MpT, mcount in *.
  split.
  - apply (count_occ_not_In Nat.eq_dec). destruct (Nat.ltb n (length (mheap s))); lia.
  - destruct (Nat.ltb_spec n (length (mheap s))); [assumption|lia].
Qed.

Lemma mpd_nth_inj i j : i < length (mfull s) -> j < length (mfull s) -> nth i (mfull s) O = nth j (mfull s) O -> i = j.
Proof. intros Hi Hj He. exact (proj1 (NoDup_nth (mfull s) O) mpd_nodup i j Hi Hj He). Qed.
End MpDerived.

Ltac mp_split := repeat match goal with |- _ /\ _ => split end.
Ltac mp_tot Hn :=
  unfold MpT in *; rewrite ?total_app, ?(total_upd _ _ _ _ _ _ Hn);
  cbn [total fo map mown mat_pair mis_cons]; unfold mcnt in *; cbn [mpending].

Lemma mfull_length s : length (mfull s) = S (length (mchain s)).
Proof. reflexivity. Qed.

Lemma minv_env_prod s p i v vs : MInv (s, p) -> nth_error p i = Some (Some MEnv) ->
  MInv (mgive (v :: vs) s, upd i (Some MEnv) p ++ map Some [MPAlloc v vs]).
Proof.
  unfold MInv; cbn [fst snd]. intros (H1 & H2 & H2b & H3 & H4 & H5 & H6 & H7 & H8 & H9 & H10) Hn.
  change (mfull (mgive (v :: vs) s)) with (mfull s).
  cbn [mgive mheap mhead mtail mcons mchain mswapped mpopped mgiven].
  mp_split; try assumption.
  - intros n. mp_tot Hn. specialize (H5 n). lia.
  - intros j Hj. mp_tot Hn. specialize (H6 j Hj). destruct H6 as [[H6 H6b]|[H6 H6b]]; [left|right]; (split; [exact H6|lia]).
  - apply (mp_all_live_step (mpc_ok s)); try assumption.
    + intros l Hl. destruct l; exact Hl.
    + intros l Hl. inversion Hl; subst. exact I.
    + intros l [Hl|[]]. subst. exact I.
  - intros v0. mp_tot Hn. specialize (H9 v0). unfold mcount, mcnt in *. cbn [mpending]. rewrite count_occ_app. lia.
  - mp_tot Hn. lia.
Qed.

Lemma mpc_ok_same_heap_chain s s' l :
  mheap s' = mheap s -> mchain s' = mchain s -> mpc_ok s l -> mpc_ok s' l.
Proof. intros Hh Hc. unfold mpc_ok, mfull. rewrite Hh, Hc. auto. Qed.

Lemma minv_env_cons s p i k : MInv (s, p) -> nth_error p i = Some (Some MEnv) -> mcons s = false ->
  MInv (mstart_cons s, upd i (Some MEnv) p ++ map Some [MCLoad k]).
Proof.
  unfold MInv; cbn [fst snd]. intros (H1 & H2 & H2b & H3 & H4 & H5 & H6 & H7 & H8 & H9 & H10) Hn Hc.
  change (mfull (mstart_cons s)) with (mfull s).
  cbn [mstart_cons mheap mhead mtail mcons mchain mswapped mpopped mgiven].
  mp_split; try assumption.
  - intros n. mp_tot Hn. specialize (H5 n). lia.
  - intros j Hj. mp_tot Hn. specialize (H6 j Hj). destruct H6 as [[H6 H6b]|[H6 H6b]]; [left|right]; (split; [exact H6|lia]).
  - apply (mp_all_live_step (mpc_ok s)); try assumption.
    + intros l Hl. destruct l; exact Hl.
    + intros l Hl. inversion Hl; subst. exact I.
    + intros l [Hl|[]]. subst. exact I.
  - intros v0. mp_tot Hn. specialize (H9 v0). unfold mcount, mcnt in *. cbn [mpending count_occ]. lia.
  - mp_tot Hn. rewrite Hc in H10. lia.
Qed.

(* steps that change neither the shared state nor any indicator: MCLoad (nil) and MCRet *)
Lemma minv_cons_silent s p i l ol : MInv (s, p) -> nth_error p i = Some (Some l) ->
  mis_cons l = 1%Z -> (forall l', ol = Some l' -> mis_cons l' = 1%Z /\ mpc_ok s l') ->
  (forall n, mown n l = 0%Z /\ @fo Mpsc (mown n) ol = 0%Z) ->
  (forall a b, mat_pair a b l = 0%Z /\ @fo Mpsc (mat_pair a b) ol = 0%Z) ->
  (forall v, mcnt v l = 0%Z /\ @fo Mpsc (mcnt v) ol = 0%Z) ->
  MInv (s, upd i ol p ++ map Some []).
Proof.
  unfold MInv; cbn [fst snd]. intros (H1 & H2 & H2b & H3 & H4 & H5 & H6 & H7 & H8 & H9 & H10) Hn Hc Hol Ho Hp Hv.
  mp_split; try assumption.
  - intros n. mp_tot Hn. specialize (H5 n). destruct (Ho n) as [E1 E2]. rewrite E1, E2. lia.
  - intros j Hj. mp_tot Hn. specialize (H6 j Hj).
    destruct (Hp (nth j (mfull s) 0) (nth (S j) (mfull s) 0)) as [E1 E2].
    destruct H6 as [[H6 H6b]|[H6 H6b]]; [left|right]; (split; [exact H6|rewrite E1, E2; lia]).
  - apply (mp_all_live_step (mpc_ok s)); try assumption; auto.
    + intros l' Hl'. apply Hol. exact Hl'.
    + intros l' [].
  - intros v0. mp_tot Hn. specialize (H9 v0). destruct (Hv v0) as [E1 E2]. rewrite E1, E2. lia.
  - mp_tot Hn. rewrite Hc. destruct ol as [l'|]; cbn [fo]; [destruct (Hol l' eq_refl) as [E _]; rewrite E|]; lia.
Qed.

Lemma minv_alloc s p i v rest : MInv (s, p) -> nth_error p i = Some (Some (MPAlloc v rest)) ->
  MInv (mset_heap (mheap s ++ [{| mval := v; mnxt := None |}]) s,
        upd i (Some (MPSwap (length (mheap s)) v rest)) p ++ map Some []).
Proof.
  unfold MInv; cbn [fst snd]. intros (H1 & H2 & H2b & H3 & H4 & H5 & H6 & H7 & H8 & H9 & H10) Hn.
  pose proof (mpd_in_lt s p H5) as Dlt. pose proof (mpd_nth_lt s p H5) as Dnth.
  set (d := {| mval := v; mnxt := None |}).
  change (mfull (mset_heap (mheap s ++ [d]) s)) with (mfull s).
  cbn [mset_heap mheap mhead mtail mcons mchain mswapped mpopped mgiven].
  mp_split; try assumption.
  - rewrite <- H3. apply map_ext_in. intros x Hx. apply mval_of_app. apply Dlt. right. exact Hx.
  - intros n. mp_tot Hn. specialize (H5 n). rewrite app_length. cbn [length].
    destruct (Nat.eqb_spec n (length (mheap s))) as [->|Hne].
    + destruct (Nat.ltb_spec (length (mheap s)) (length (mheap s))); [lia|].
      destruct (Nat.ltb_spec (length (mheap s)) (length (mheap s) + 1)); lia.
    + destruct (Nat.ltb_spec n (length (mheap s))); destruct (Nat.ltb_spec n (length (mheap s) + 1)); lia.
  - intros j Hj. mp_tot Hn. specialize (H6 j Hj).
    rewrite mnxt_of_app by (apply Dnth; lia).
    destruct H6 as [[H6 H6b]|[H6 H6b]]; [left|right]; (split; [exact H6|lia]).
  - rewrite mnxt_of_app; [exact H7|]. rewrite H1. apply Dnth. rewrite mfull_length. lia.
  - apply (mp_all_live_step (fun l => mpc_ok s l /\ forall n v r, l = MPSwap n v r -> n < length (mheap s))).
    + intros j l Hl. split; [exact (H8 j l Hl)|]. intros n v0 r ->. exact (proj2 (mpd_own s p H5 j n v0 r Hl)).
    + intros l [Hl Hb]. destruct l; try exact Hl.
      * cbn [mpc_ok mset_heap mheap] in *. specialize (Hb n v0 rest0 eq_refl).
        rewrite mnxt_of_app, mval_of_app by exact Hb. exact Hl.
    + intros l Hl. inversion Hl; subst. cbn [mpc_ok mset_heap mheap]. rewrite mnxt_of_new, mval_of_new. split; reflexivity.
    + intros l [].
  - intros v0. mp_tot Hn. specialize (H9 v0). lia.
  - mp_tot Hn. lia.
Qed.

Lemma mfull_swap n v s : mfull (mswap n v s) = mfull s ++ [n].
Proof. reflexivity. Qed.

Lemma minv_swap s p i n v rest : MInv (s, p) -> nth_error p i = Some (Some (MPSwap n v rest)) ->
  MInv (mswap n v s, upd i (Some (MPStore (mhead s) n rest)) p ++ map Some []).
Proof.
  unfold MInv; cbn [fst snd]. intros (H1 & H2 & H2b & H3 & H4 & H5 & H6 & H7 & H8 & H9 & H10) Hn.
  destruct (H8 i _ Hn) as [Hnx Hvl]. cbn beta in Hnx, Hvl.
  destruct (mpd_own s p H5 i n v rest Hn) as [Hnin _].
  assert (Hlen : length (mswapped s) = length (mchain s)) by (rewrite <- H3; apply map_length).
  assert (Hz : MpT (mat_pair (mhead s) n) p = 0%Z).
  { apply mp_total_zero_of_live. intros i' l' Hl'. specialize (H8 i' l' Hl'). destruct l'; try reflexivity.
    cbn [mpc_ok] in H8. destruct H8 as (j & Hj & _ & Hb). cbn [mat_pair].
    destruct (Nat.eqb_spec n n0) as [->|]; [|rewrite andb_false_r; reflexivity].
    exfalso. apply Hnin. rewrite <- Hb. apply nth_In. lia. }
  rewrite mfull_swap. pose proof (mfull_length s) as Hfl.
  cbn [mswap mheap mhead mtail mcons mchain mswapped mpopped mgiven].
  mp_split.
  - rewrite app_length. cbn [length]. rewrite app_nth2 by lia.
    replace (length (mchain s) + 1 - length (mfull s)) with 0 by lia. reflexivity.
  - rewrite app_length. lia.
  - rewrite app_nth1 by lia. exact H2b.
  - rewrite map_app, H3. cbn [map]. rewrite Hvl. reflexivity.
  - rewrite firstn_app. replace (length (mpopped s) - length (mswapped s)) with 0 by lia.
    cbn [firstn]. rewrite app_nil_r. exact H4.
  - intros n0. mp_tot Hn. specialize (H5 n0). unfold mcount in *. rewrite count_occ_app. cbn [count_occ].
    destruct (Nat.eqb_spec n0 n) as [->|Hne].
    + destruct (Nat.eq_dec n n); [|congruence]. lia.
    + destruct (Nat.eq_dec n n0); [congruence|]. lia.
  - intros j Hj. rewrite app_length in Hj. cbn [length] in Hj. mp_tot Hn.
    destruct (Nat.eq_dec (S j) (length (mfull s))) as [He|Hne].
    + right. rewrite app_nth1 by lia. rewrite (app_nth2 _ _ _ (n:=S j)) by lia.
      replace (S j - length (mfull s)) with 0 by lia. cbn [nth].
      replace j with (length (mchain s)) by lia. rewrite <- H1. split; [exact H7|].
      rewrite !Nat.eqb_refl. cbn [andb]. unfold MpT in Hz. lia.
    + rewrite !app_nth1 by lia. specialize (H6 j ltac:(lia)).
      assert (Hbn : Nat.eqb (nth (S j) (mfull s) 0) n = false).
      { apply Nat.eqb_neq. intros He. apply Hnin. rewrite <- He. apply nth_In. lia. }
      rewrite Hbn, andb_false_r.
      destruct H6 as [[H6 H6b]|[H6 H6b]]; [left|right]; (split; [exact H6|lia]).
  - exact Hnx.
  - apply (mp_all_live_step (mpc_ok s)); try assumption.
    + intros l Hl. destruct l; try exact Hl.
      cbn [mpc_ok] in *. rewrite mfull_swap. destruct Hl as (j & Hj & Ha & Hb). exists j.
      rewrite app_length. cbn [length]. rewrite !app_nth1 by lia. repeat split; [lia|exact Ha|exact Hb].
    + intros l Hl. inversion Hl; subst. cbn [mpc_ok]. rewrite mfull_swap. exists (length (mchain s)).
      rewrite app_length. cbn [length]. rewrite app_nth1 by lia. rewrite app_nth2 by lia.
      replace (S (length (mchain s)) - length (mfull s)) with 0 by lia. repeat split; [lia|symmetry; exact H1].
    + intros l [].
  - intros v0. mp_tot Hn. specialize (H9 v0). unfold mcount in *. rewrite count_occ_app. cbn [count_occ] in *.
    destruct (Nat.eq_dec v v0); lia.
  - mp_tot Hn. lia.
Qed.

Lemma minv_store s p i a b rest : MInv (s, p) -> nth_error p i = Some (Some (MPStore a b rest)) ->
  MInv (mset_heap (mset_nxt (mheap s) a b) s, upd i (mpnext rest) p ++ map Some []).
Proof.
  unfold MInv; cbn [fst snd]. intros (H1 & H2 & H2b & H3 & H4 & H5 & H6 & H7 & H8 & H9 & H10) Hn.
  pose proof (mpd_nth_lt s p H5) as Dnth. pose proof (mpd_nth_inj s p H5) as Dinj.
  destruct (H8 i _ Hn) as (i0 & Hi0 & Ha & Hb). cbn beta in *.
  pose proof (mfull_length s) as Hfl.
  change (mfull (mset_heap (mset_nxt (mheap s) a b) s)) with (mfull s).
  cbn [mset_heap mheap mhead mtail mcons mchain mswapped mpopped mgiven].
  assert (Hpn : forall f : mpc -> Z, (forall v r, f (MPAlloc v r) = 0%Z) -> @fo Mpsc f (mpnext rest) = 0%Z).
  { intros f Hf. destruct rest; cbn [mpnext fo]; auto. }
  mp_split; try assumption.
  - rewrite <- H3. apply map_ext. intros x. apply mval_of_set.
  - intros n. rewrite mset_nxt_length. mp_tot Hn. specialize (H5 n).
    rewrite (Hpn (mown n)) by reflexivity. lia.
  - intros j Hj. mp_tot Hn. specialize (H6 j Hj).
    destruct (Nat.eq_dec j i0) as [->|Hne].
    + left. rewrite Ha, Hb. split; [apply mnxt_of_set_same; rewrite <- Ha; apply Dnth; lia|].
      rewrite (Hpn (mat_pair _ _)) by reflexivity. rewrite !Nat.eqb_refl. cbn [andb].
      pose proof (total_ge_nth Mpsc (mat_pair a b) p i _ (mp_nn_mat_pair a b) Hn) as G.
      cbn [mat_pair] in G. rewrite !Nat.eqb_refl in G. cbn [andb] in G.
      rewrite Ha, Hb in H6. destruct H6 as [[_ H6]|[_ H6]]; lia.
    + assert (Hna : nth j (mfull s) 0 <> a).
      { intros He. apply Hne. apply Dinj; [lia|lia|]. rewrite He, Ha. reflexivity. }
      rewrite mnxt_of_set_other by exact Hna.
      rewrite (Hpn (mat_pair _ _)) by reflexivity.
      destruct (Nat.eqb_spec (nth j (mfull s) 0) a); [contradiction|]. cbn [andb].
      destruct H6 as [[H6 H6b]|[H6 H6b]]; [left|right]; (split; [exact H6|lia]).
  - rewrite mnxt_of_set_other; [exact H7|]. rewrite H1, <- Ha. intros He. apply Dinj in He; lia.
  - apply (mp_all_live_step (fun l => mpc_ok s l /\ forall n v r, l = MPSwap n v r -> ~ In n (mfull s))).
    + intros j l Hl. split; [exact (H8 j l Hl)|]. intros n v0 r ->. exact (proj1 (mpd_own s p H5 j n v0 r Hl)).
    + intros l [Hl Hb']. destruct l; try exact Hl.
      cbn [mpc_ok mset_heap mheap] in *. specialize (Hb' n v rest0 eq_refl).
      rewrite mval_of_set, mnxt_of_set_other; [exact Hl|].
      intros ->. apply Hb'. rewrite <- Ha. apply nth_In. lia.
    + intros l Hl. destruct rest; cbn [mpnext] in Hl; inversion Hl; subst. exact I.
    + intros l [].
  - intros v0. mp_tot Hn. specialize (H9 v0).
    destruct rest; cbn [mpnext fo mpending]; cbn beta; cbn [mpending]; [cbn [count_occ]|]; lia.
  - mp_tot Hn. rewrite (Hpn mis_cons) by reflexivity. lia.
Qed.

(* what a successful load of tail.next finds: the next node of the chain, holding the first value of
   the abstract queue *)
Lemma mload_some_fact s p x : MInv (s, p) -> mnxt_of (mheap s) (mtail s) = Some x ->
  length (mpopped s) < length (mchain s) /\ x = nth (length (mpopped s)) (mchain s) O /\
  mval_of (mheap s) x = nth (length (mpopped s)) (mswapped s) O.
Proof.
  unfold MInv; cbn [fst snd]. intros (H1 & H2 & H2b & H3 & H4 & H5 & H6 & H7 & H8 & H9 & H10) Hx.
  assert (Hlt : length (mpopped s) < length (mchain s)).
  { destruct (Nat.eq_dec (length (mpopped s)) (length (mchain s))) as [He|Hne]; [|lia].
    rewrite He, <- H1 in H2b. rewrite H2b, H7 in Hx. discriminate. }
  split; [exact Hlt|].
  specialize (H6 (length (mpopped s))). rewrite mfull_length in H6. specialize (H6 ltac:(lia)).
  rewrite <- H2b in H6. rewrite Hx in H6.
  assert (Hxe : x = nth (length (mpopped s)) (mchain s) 0).
  { destruct H6 as [[H6 _]|[H6 _]]; [|discriminate]. inversion H6. reflexivity. }
  split; [exact Hxe|].
  rewrite <- H3. rewrite (nth_indep _ 0 (mval_of (mheap s) 0)) by (rewrite map_length; exact Hlt).
  rewrite map_nth. rewrite Hxe. reflexivity.
Qed.

Lemma minv_load_some s p i k x : MInv (s, p) -> nth_error p i = Some (Some (MCLoad k)) ->
  mnxt_of (mheap s) (mtail s) = Some x ->
  MInv (madvance x s, upd i (Some (MCRet (Some (mval_of (mheap s) x)) k)) p ++ map Some []).
Proof.
  intros HI Hn Hx. destruct (mload_some_fact s p x HI Hx) as (Hlt & Hxe & Hv).
  revert HI. unfold MInv; cbn [fst snd]. intros (H1 & H2 & H2b & H3 & H4 & H5 & H6 & H7 & H8 & H9 & H10).
  assert (Hlen : length (mswapped s) = length (mchain s)) by (rewrite <- H3; apply map_length).
  change (mfull (madvance x s)) with (mfull s).
  cbn [madvance mheap mhead mtail mcons mchain mswapped mpopped mgiven].
  rewrite app_length. cbn [length]. replace (length (mpopped s) + 1) with (S (length (mpopped s))) by lia.
  mp_split; try assumption.
  - rewrite (firstn_succ_nth _ _ 0) by lia. rewrite <- H4, Hv. reflexivity.
  - intros n. mp_tot Hn. specialize (H5 n). lia.
  - intros j Hj. mp_tot Hn. specialize (H6 j Hj). destruct H6 as [[H6 H6b]|[H6 H6b]]; [left|right]; (split; [exact H6|lia]).
  - apply (mp_all_live_step (mpc_ok s)); try assumption.
    + intros l Hl. destruct l; exact Hl.
    + intros l Hl. inversion Hl; subst. exact I.
    + intros l [].
  - intros v0. mp_tot Hn. specialize (H9 v0). cbn [count_occ]. lia.
  - mp_tot Hn. lia.
Qed.

Lemma minv_step st i c st' e : MInv st -> gstep st i c = Some (st', e) -> MInv st'.
Proof.
  destruct st as [s p]. unfold gstep. cbn [fst snd]. intros HI.
  destruct (nth_error p i) as [[l|]|] eqn:Hn; try discriminate.
  cbn [tstep Mpsc]. destruct l; cbn [mpstep].
  - destruct c as [|[|v vs]|k]; try discriminate.
    + intros H; inversion H; subst. apply minv_env_prod; assumption.
    + destruct (mcons s) eqn:Hc; [discriminate|]. intros H; inversion H; subst. apply minv_env_cons; assumption.
  - intros H; inversion H; subst. apply minv_alloc; assumption.
  - intros H; inversion H; subst. apply minv_swap; assumption.
  - intros H; inversion H; subst. apply minv_store; assumption.
  - destruct (mnxt_of (mheap s) (mtail s)) as [x|] eqn:Hx; intros H; inversion H; subst.
    + apply minv_load_some; assumption.
    + apply (minv_cons_silent s p i (MCLoad k)); try assumption; try reflexivity.
      * intros l' Hl'. inversion Hl'; subst. split; [reflexivity|exact I].
      * intros n. split; reflexivity.
      * intros a b. split; reflexivity.
      * intros v. split; reflexivity.
  - intros H; inversion H; subst.
    apply (minv_cons_silent s p i (MCRet r k)); try assumption; try reflexivity.
    + intros l' Hl'. destruct k; inversion Hl'; subst. split; [reflexivity|exact I].
    + intros n. split; [reflexivity|destruct k; reflexivity].
    + intros a b. split; [reflexivity|destruct k; reflexivity].
    + intros v. split; [reflexivity|destruct k; reflexivity].
Qed.

Theorem minv_reachable st : reach minit st -> MInv st.
Proof. apply inv_reach; [exact minv_init | exact minv_step]. Qed.

(* ================================================================== theorems *)

Lemma mp_nth_error_self (p : pool Mpsc) i (ol : option mpc) (l : mpc) (sp : list mpc) :
  nth_error p i = Some (Some l) -> nth_error (upd i ol p ++ map Some sp) i = Some ol.
Proof.
  intros Hn. assert (Hl : i < length p) by (apply nth_error_Some; rewrite Hn; discriminate).
  rewrite nth_error_app1 by (rewrite upd_length; exact Hl). apply mp_nth_error_upd_same. exact Hl.
Qed.

Lemma mchain_val s p j : MInv (s, p) -> j < length (mchain s) ->
  mval_of (mheap s) (nth j (mchain s) O) = nth j (mswapped s) O.
Proof.
  unfold MInv; cbn [fst snd]. intros (_ & _ & _ & H3 & _) Hj.
  rewrite <- H3. rewrite (nth_indep (map (mval_of (mheap s)) (mchain s)) 0 (mval_of (mheap s) 0)) by (rewrite map_length; exact Hj).
  rewrite map_nth. reflexivity.
Qed.

Lemma mswapped_length s p : MInv (s, p) -> length (mswapped s) = length (mchain s).
Proof. unfold MInv; cbn [fst snd]. intros (_ & _ & _ & H3 & _). rewrite <- H3. apply map_length. Qed.

(* ---- C15 (MPSC): conservation / exactly once, as a state invariant *)
Theorem mpsc_fifo_exactly_once st : reach minit st ->
  (* FIFO: what was swapped in is, in Swap order, what was popped followed by what is still queued *)
  mpopped (fst st) ++ mabsq (fst st) = mswapped (fst st) /\
  (* exactly once / nothing invented on the push side: each occurrence of a value handed to a producer
     is either still pending in a live producer or has been swapped in — and never both, never twice *)
  (forall v, (mcount (mswapped (fst st)) v + MpT (mcnt v) (snd st) = mcount (mgiven (fst st)) v)%Z) /\
  (* at most one consumer thread exists *)
  (MpT mis_cons (snd st) <= 1)%Z.
Proof.
  intros Hr. pose proof (minv_reachable st Hr) as HI. destruct st as [s p].
  unfold MInv in HI; cbn [fst snd] in *. destruct HI as (H1 & H2 & H2b & H3 & H4 & H5 & H6 & H7 & H8 & H9 & H10).
  mp_split.
  - unfold mabsq. rewrite H4 at 1. apply firstn_skipn.
  - exact H9.
  - destruct (mcons s); lia.
Qed.

(* ---- every step's effect on the two histories: a successful Pop takes exactly the first element of
   the abstract queue; a Push appends exactly its own value at its Swap; nothing else touches them *)
Theorem mpsc_step_effect st i c st' e : reach minit st -> gstep st i c = Some (st', e) ->
  match e with
  | MEvLoadNext t (Some x) =>
      exists v rest k, nth_error (snd st) i = Some (Some (MCLoad k)) /\
        mabsq (fst st) = v :: rest /\ mabsq (fst st') = rest /\
        mpopped (fst st') = mpopped (fst st) ++ [v] /\ mswapped (fst st') = mswapped (fst st) /\
        nth_error (snd st') i = Some (Some (MCRet (Some v) k))
  | MEvSwap n old =>
      exists v rest, nth_error (snd st) i = Some (Some (MPSwap n v rest)) /\
        mswapped (fst st') = mswapped (fst st) ++ [v] /\ mpopped (fst st') = mpopped (fst st) /\
        mabsq (fst st') = mabsq (fst st) ++ [v] /\
        nth_error (snd st') i = Some (Some (MPStore old n rest))
  | _ => mswapped (fst st') = mswapped (fst st) /\ mpopped (fst st') = mpopped (fst st)
  end.
Proof.
  intros Hr. pose proof (minv_reachable st Hr) as HI. destruct st as [s p].
  unfold gstep. cbn [fst snd].
  destruct (nth_error p i) as [[l|]|] eqn:Hn; try discriminate.
  cbn [tstep Mpsc]. destruct l; cbn [mpstep].
  - destruct c as [|[|v vs]|k]; try discriminate.
    + intros H; inversion H; subst. split; reflexivity.
    + destruct (mcons s); [discriminate|]. intros H; inversion H; subst. split; reflexivity.
  - intros H; inversion H; subst. split; reflexivity.
  - intros H; inversion H; subst. cbn [fst snd]. exists v, rest. mp_split; try reflexivity.
    + unfold mabsq. cbn [mswap mpopped mswapped]. rewrite skipn_app.
      pose proof (mswapped_length s p HI). unfold MInv in HI; cbn [fst snd] in HI.
      replace (length (mpopped s) - length (mswapped s)) with 0 by lia. reflexivity.
    + apply (mp_nth_error_self p i _ _ [] Hn).
  - intros H; inversion H; subst. split; reflexivity.
  - destruct (mnxt_of (mheap s) (mtail s)) as [x|] eqn:Hx; intros H; inversion H; subst; [|split; reflexivity].
    destruct (mload_some_fact s p x HI Hx) as (Hlt & Hxe & Hv). cbn [fst snd].
    pose proof (mswapped_length s p HI) as Hlen.
    exists (mval_of (mheap s) x), (skipn (S (length (mpopped s))) (mswapped s)), k.
    mp_split; try reflexivity.
    + unfold mabsq. rewrite Hv. apply skipn_nth_cons. lia.
    + unfold mabsq. cbn [madvance mpopped mswapped]. rewrite app_length. cbn [length].
      replace (length (mpopped s) + 1) with (S (length (mpopped s))) by lia. reflexivity.
    + apply (mp_nth_error_self p i _ _ [] Hn).
  - intros H; inversion H; subst. split; reflexivity.
Qed.

(* ---- per-producer order: the values of one producer enter [mswapped] in its program order. A step of a
   producer thread either leaves both [mswapped] and the thread's list of pending values unchanged, or
   moves exactly the FIRST pending value to the end of [mswapped]; a step of another thread does not
   touch the thread's pc (frame lemma below); a producer spawned with [MCProd vs] starts with pending = vs. *)

Theorem mpsc_producer_program_order (st : state Mpsc) i c st' e l :
  nth_error (snd st) i = Some (Some l) -> mis_prod l -> gstep st i c = Some (st', e) ->
  (mswapped (fst st') = mswapped (fst st) /\ mpending_at (snd st') i = mpending l) \/
  (exists v, mpending l = v :: mpending_at (snd st') i /\ mswapped (fst st') = mswapped (fst st) ++ [v]).
Proof.
  destruct st as [s p]. unfold gstep. cbn [fst snd]. intros Hn Hp. rewrite Hn.
  cbn [tstep Mpsc]. unfold mpending_at.
  destruct l; cbn [mis_prod] in Hp; try contradiction; cbn [mpstep]; intros H; inversion H; subst; cbn [fst snd];
    rewrite (mp_nth_error_self p i _ _ [] Hn).
  - left. split; reflexivity.
  - right. exists v. split; reflexivity.
  - left. split; [reflexivity|]. destruct rest; reflexivity.
Qed.

Theorem mpsc_spawned_producer_pending (st : state Mpsc) c st' e vs :
  gstep st 0 c = Some (st', e) -> nth_error (snd st) 0 = Some (Some MEnv) -> c = MCProd vs ->
  snd st' = upd 0 (Some MEnv) (snd st) ++ [Some (match vs with v :: r => MPAlloc v r | [] => MEnv end)] /\
  mpending_at (snd st') (length (snd st)) = vs /\ mgiven (fst st') = mgiven (fst st) ++ vs.
Proof.
  destruct st as [s p]. unfold gstep. cbn [fst snd]. intros H Hn ->. rewrite Hn in H.
  cbn [tstep Mpsc mpstep] in H. destruct vs as [|v vs]; [discriminate|]. inversion H; subst. cbn [fst snd map].
  split; [reflexivity|]. split; [|reflexivity].
  destruct p as [|o t]; [discriminate Hn|]. unfold mpending_at. cbn [length app nth_error].
  rewrite nth_error_app2 by apply Nat.le_refl. rewrite Nat.sub_diag. reflexivity.
Qed.

(* frame: a step of thread i leaves the pc of every other existing thread unchanged *)
Theorem mpsc_other_threads_unchanged (st : state Mpsc) i c st' e j :
  gstep st i c = Some (st', e) -> j <> i -> j < length (snd st) -> nth_error (snd st') j = nth_error (snd st) j.
Proof.
  destruct st as [s p]. unfold gstep. cbn [fst snd].
  destruct (nth_error p i) as [[l|]|]; try discriminate.
  destruct (tstep Mpsc s l c) as [[[[s' ol] sp] e']|]; [|discriminate].
  intros H Hne Hj. inversion H; subst. cbn [snd].
  rewrite nth_error_app1 by (rewrite upd_length; exact Hj). apply mp_nth_error_upd_other. auto.
Qed.

(* ---- the allowed window: a Pop returns nil only when the abstract queue is empty OR the producer of its
   first element is between its Swap and its Store (has swapped, has not yet linked). Such a Pop changes
   nothing: the element stays in the abstract queue. *)
Theorem mpsc_nil_allowed_window st i c st' t : reach minit st ->
  gstep st i c = Some (st', MEvLoadNext t None) ->
  fst st' = fst st /\
  (exists k, nth_error (snd st) i = Some (Some (MCLoad k)) /\ nth_error (snd st') i = Some (Some (MCRet None k))) /\
  (mabsq (fst st) = [] \/
   exists j b rest, nth_error (snd st) j = Some (Some (MPStore (mtail (fst st)) b rest)) /\
                    hd_error (mabsq (fst st)) = Some (mval_of (mheap (fst st)) b)).
Proof.
  intros Hr. pose proof (minv_reachable st Hr) as HI. destruct st as [s p].
  unfold gstep. cbn [fst snd].
  destruct (nth_error p i) as [[l|]|] eqn:Hn; try discriminate.
  cbn [tstep Mpsc]. destruct l; cbn [mpstep]; try (intros H; inversion H; fail).
  - destruct c as [|[|v vs]|k]; try discriminate.
    destruct (mcons s); discriminate.
  - destruct (mnxt_of (mheap s) (mtail s)) as [x|] eqn:Hx; intros H; inversion H; subst.
    cbn [fst snd]. split; [reflexivity|]. split.
    { exists k. split; [reflexivity|]. apply (mp_nth_error_self p i _ _ [] Hn). }
    pose proof (mswapped_length s p HI) as Hlen. pose proof (mchain_val s p) as Hcv. pose proof HI as HI0.
    unfold MInv in HI; cbn [fst snd] in HI. destruct HI as (H1 & H2 & H2b & H3 & H4 & H5 & H6 & H7 & H8 & H9 & H10).
    destruct (Nat.eq_dec (length (mpopped s)) (length (mchain s))) as [He|Hne].
    + left. unfold mabsq. apply skipn_all2. lia.
    + right. specialize (H6 (length (mpopped s))). rewrite mfull_length in H6. specialize (H6 ltac:(lia)).
      rewrite <- H2b in H6. rewrite Hx in H6. destruct H6 as [[H6 _]|[_ H6]]; [discriminate|].
      destruct (mp_total_pos_exists (mat_pair (mtail s) (nth (S (length (mpopped s))) (mfull s) 0)) p (mp_nn_mat_pair _ _) ltac:(lia)) as (j & l & Hj & Hl).
      destruct l; cbn [mat_pair] in Hl; try lia.
      destruct (Nat.eqb_spec (mtail s) prev) as [<-|]; [|cbn [andb] in Hl; lia].
      destruct (Nat.eqb_spec (nth (S (length (mpopped s))) (mfull s) 0) n) as [<-|]; [|cbn [andb] in Hl; lia].
      exists j, (nth (S (length (mpopped s))) (mfull s) 0), rest. split; [exact Hj|].
      unfold mabsq. rewrite (skipn_nth_cons _ _ 0) by lia. cbn [hd_error]. f_equal.
      symmetry. apply Hcv; [exact HI0|lia].
Qed.

Corollary mpsc_nil_window_total st i c st' t : reach minit st ->
  gstep st i c = Some (st', MEvLoadNext t None) -> mabsq (fst st) = [] \/ (1 <= min_window st)%Z.
Proof.
  intros Hr Hs. destruct (mpsc_nil_allowed_window st i c st' t Hr Hs) as (_ & _ & [He|(j & b & rest & Hj & _)]); [left; exact He|right].
  unfold min_window. pose proof (total_ge_nth Mpsc mat_store (snd st) j _ mp_nn_mat_store Hj) as G. exact G.
Qed.

(* ---- the concretely linked list from tail versus the abstract queue *)
Lemma mfollow_chain (h : list mnode) (full : list nat) (Q P : nat -> nat -> Prop) :
  (forall i, S i < length full ->
     (mnxt_of h (nth i full O) = Some (nth (S i) full O) /\ Q (nth i full O) (nth (S i) full O)) \/
     (mnxt_of h (nth i full O) = None /\ P (nth i full O) (nth (S i) full O))) ->
  mnxt_of h (nth (length full - 1) full O) = None ->
  forall fuel j, j < length full -> length full <= j + fuel ->
  exists rest, map (mval_of h) (skipn (S j) full) = mfollow h fuel (nth j full O) ++ rest /\
               ((forall i, S i < length full -> mnxt_of h (nth i full O) = Some (nth (S i) full O)) -> rest = []).
Proof.
  intros HL Hlast. induction fuel as [|f IH]; intros j Hj Hf; [lia|].
  cbn [mfollow]. destruct (Nat.eq_dec (S j) (length full)) as [He|Hne].
  - replace j with (length full - 1) by lia. rewrite Hlast.
    rewrite skipn_all2 by lia. exists []. split; [reflexivity|auto].
  - assert (Hj' : S j < length full) by lia.
    rewrite (skipn_nth_cons _ _ 0 Hj'). cbn [map].
    destruct (HL j Hj') as [[Hs _]|[Hnone _]].
    + rewrite Hs. destruct (IH (S j) Hj' ltac:(lia)) as (rest & Hr & Hall).
      exists rest. split; [|exact Hall]. cbn [app]. rewrite Hr. reflexivity.
    + rewrite Hnone. eexists. split; [reflexivity|].
      intros Hall. rewrite (Hall j Hj') in Hnone. discriminate.
Qed.

Lemma mfull_le_heap s p : MInv (s, p) -> length (mfull s) <= length (mheap s).
Proof.
  unfold MInv; cbn [fst snd]. intros (_ & _ & _ & _ & _ & H5 & _).
  rewrite <- (seq_length (length (mheap s)) 0). apply NoDup_incl_length; [exact (mpd_nodup s p H5)|].
  intros x Hx. apply in_seq. pose proof (mpd_in_lt s p H5 x Hx). lia.
Qed.

Theorem mpsc_linked_prefix st : reach minit st ->
  (exists rest, mabsq (fst st) = mlinked (fst st) ++ rest) /\
  (min_window st = 0%Z -> mlinked (fst st) = mabsq (fst st)).
Proof.
  intros Hr. pose proof (minv_reachable st Hr) as HI. destruct st as [s p]. cbn [fst snd].
  pose proof (mfull_le_heap s p HI) as Hle. pose proof (mfull_length s) as Hfl.
  unfold MInv in HI; cbn [fst snd] in HI. destruct HI as (H1 & H2 & H2b & H3 & H4 & H5 & H6 & H7 & H8 & H9 & H10).
  assert (Hlast : mnxt_of (mheap s) (nth (length (mfull s) - 1) (mfull s) 0) = None).
  { rewrite Hfl. replace (S (length (mchain s)) - 1) with (length (mchain s)) by lia. rewrite <- H1. exact H7. }
  destruct (mfollow_chain (mheap s) (mfull s) (fun a b => MpT (mat_pair a b) p = 0%Z) (fun a b => MpT (mat_pair a b) p = 1%Z) H6 Hlast
              (length (mheap s)) (length (mpopped s)) ltac:(lia) ltac:(lia)) as (rest & Hr' & Hall).
  rewrite <- H2b in Hr'. fold (mlinked s) in Hr'.
  assert (Habs : map (mval_of (mheap s)) (skipn (S (length (mpopped s))) (mfull s)) = mabsq s).
  { unfold mabsq, mfull. cbn [skipn]. rewrite <- skipn_map, H3. reflexivity. }
  rewrite Habs in Hr'. split.
  - exists rest. exact Hr'.
  - intros Hw. rewrite Hr', Hall, app_nil_r; [reflexivity|].
    intros j Hj. destruct (H6 j Hj) as [[Hs _]|[_ Hp]]; [exact Hs|].
    unfold min_window in Hw. cbn [snd] in Hw.
    pose proof (total_le Mpsc (mat_pair (nth j (mfull s) 0) (nth (S j) (mfull s) 0)) mat_store p
                  (mat_pair_le_store _ _)) as G. unfold MpT in Hp. lia.
Qed.

(* ---- the link invariant itself: two consecutive nodes (a, b) of the chain are either linked, and then no
   thread is at MPStore a b, or a.next is still nil, and then EXACTLY ONE thread is at MPStore a b *)
Theorem mpsc_link_or_exactly_one st : reach minit st ->
  forall i, S i < length (mfull (fst st)) ->
    let a := nth i (mfull (fst st)) O in let b := nth (S i) (mfull (fst st)) O in
    (mnxt_of (mheap (fst st)) a = Some b /\ MpT (mat_pair a b) (snd st) = 0%Z) \/
    (mnxt_of (mheap (fst st)) a = None /\ MpT (mat_pair a b) (snd st) = 1%Z).
Proof.
  intros Hr. pose proof (minv_reachable st Hr) as HI. destruct st as [s p].
  unfold MInv in HI; cbn [fst snd] in *. destruct HI as (_ & _ & _ & _ & _ & _ & H6 & _). exact H6.
Qed.

(* ---- nothing is stranded: once every producer thread has finished, everything that was pushed and
   not yet popped is linked behind tail, in order *)
Lemma mno_producer_window st : mno_producer st -> min_window st = 0%Z.
Proof.
  unfold mno_producer, min_window. intros H. apply mp_total_zero_of_live.
  intros i l Hl. specialize (H i l Hl). cbn beta in H. destruct l; cbn [mis_prod mat_store] in *; tauto.
Qed.

Theorem mpsc_nothing_stranded st : reach minit st -> mno_producer st ->
  mlinked (fst st) = mabsq (fst st) /\
  (forall v, mcount (mswapped (fst st)) v = mcount (mgiven (fst st)) v).
Proof.
  intros Hr Hnp. split.
  - apply (proj2 (mpsc_linked_prefix st Hr)). apply mno_producer_window. exact Hnp.
  - intros v. destruct (mpsc_fifo_exactly_once st Hr) as (_ & H9 & _). specialize (H9 v).
    assert (E : MpT (mcnt v) (snd st) = 0%Z).
    { apply mp_total_zero_of_live. intros i l Hl. specialize (Hnp i l Hl). cbn beta in Hnp.
      destruct l; cbn [mis_prod] in Hnp; try tauto; reflexivity. }
    lia.
Qed.

(* ---- ... and the consumer gets all of it: with no producer left, |absq| further Pops of the consumer
   (run alone: 2 steps per Pop) return exactly the remaining values, in order, and empty the queue *)

Lemma mno_producer_cons_step (st : state Mpsc) i c st' e l :
  nth_error (snd st) i = Some (Some l) -> mis_cons l = 1%Z -> gstep st i c = Some (st', e) ->
  mno_producer st -> mno_producer st'.
Proof.
  destruct st as [s p]. unfold gstep, mno_producer. cbn [fst snd]. intros Hn Hc. rewrite Hn.
  cbn [tstep Mpsc]. destruct l; cbn [mis_cons] in Hc; try lia; cbn [mpstep].
  - destruct (mnxt_of (mheap s) (mtail s)); intros H Hnp; inversion H; subst; cbn [snd];
      (apply (mp_all_live_step (fun l => ~ mis_prod l) _ p i _ []);
       [exact Hnp | auto | intros l1 Hl1; inversion Hl1; subst; cbn [mis_prod]; tauto | intros l1 []]).
  - intros H Hnp; inversion H; subst; cbn [snd].
    apply (mp_all_live_step (fun l => ~ mis_prod l) _ p i _ []);
      [exact Hnp | auto | intros l1 Hl1; destruct k; inversion Hl1; subst; cbn [mis_prod]; tauto | intros l1 []].
Qed.

Theorem mpsc_drain : forall n st i k, reach minit st -> mno_producer st ->
  length (mabsq (fst st)) = n ->
  nth_error (snd st) i = Some (Some (MCLoad k)) -> n <= S k ->
  exists st' es, Sched.run st (repeat (i, MCNone) (2 * n)) = Some (st', es) /\
    mpopped (fst st') = mpopped (fst st) ++ mabsq (fst st) /\ mabsq (fst st') = [] /\
    mrets es = map Some (mabsq (fst st)).
Proof.
  induction n as [|n IH]; intros st i k Hr Hnp Hlen Hn Hk.
  - exists st, []. cbn [Nat.mul repeat Sched.run]. destruct (mabsq (fst st)); [|discriminate].
    rewrite app_nil_r. repeat split; reflexivity.
  - destruct (mabsq (fst st)) as [|v rest] eqn:Habs; [discriminate|]. cbn [length] in Hlen.
    pose proof (proj1 (mpsc_nothing_stranded st Hr Hnp)) as Hlk. rewrite Habs in Hlk.
    destruct st as [s p]. cbn [fst snd] in *.
    assert (Hx : exists x, mnxt_of (mheap s) (mtail s) = Some x).
    { unfold mlinked in Hlk. destruct (length (mheap s)); cbn [mfollow] in Hlk; [discriminate|].
      destruct (mnxt_of (mheap s) (mtail s)) as [x|]; [eauto|discriminate]. }
    destruct Hx as [x Hx].
    assert (G1 : gstep (s, p) i MCNone =
                 Some ((madvance x s, upd i (Some (MCRet (Some (mval_of (mheap s) x)) k)) p ++ map Some []),
                       MEvLoadNext (mtail s) (Some x))).
    { unfold gstep. cbn [fst snd]. rewrite Hn. cbn [tstep Mpsc mpstep]. rewrite Hx. reflexivity. }
    pose proof (mpsc_step_effect _ _ _ _ _ Hr G1) as E1. cbn beta iota in E1.
    destruct E1 as (v' & rest' & k' & _ & Ea & Eb & Ec & Ed & Ee). cbn [fst snd] in *.
    assert (Hvr : v' = v /\ rest' = rest) by (rewrite Habs in Ea; inversion Ea; auto).
    destruct Hvr as [-> ->]. clear Ea.
    set (st1 := (madvance x s, upd i (Some (MCRet (Some (mval_of (mheap s) x)) k)) p ++ map Some []) : state Mpsc) in *.
    assert (Hr1 : reach minit st1) by (econstructor; [exact Hr|exact G1]).
    assert (Hnp1 : mno_producer st1) by (apply (mno_producer_cons_step (s, p) i MCNone st1 _ (MCLoad k) Hn eq_refl G1 Hnp)).
    assert (Hk' : k' = k).
    { unfold st1 in Ee. cbn [snd] in Ee. rewrite (mp_nth_error_self p i _ _ [] Hn) in Ee. inversion Ee. reflexivity. }
    subst k'.
    set (st2 := (fst st1, upd i (match k with O => None | S k1 => Some (MCLoad k1) end) (snd st1) ++ map Some []) : state Mpsc).
    assert (G2 : gstep st1 i MCNone = Some (st2, MEvRet (Some v))).
    { unfold gstep, st2, st1. cbn [fst snd]. rewrite Ee. cbn [tstep Mpsc mpstep]. reflexivity. }
    assert (Hr2 : reach minit st2) by (econstructor; [exact Hr1|exact G2]).
    assert (Hnp2 : mno_producer st2) by (apply (mno_producer_cons_step st1 i MCNone st2 _ _ Ee eq_refl G2 Hnp1)).
    replace (2 * S n) with (S (S (2 * n))) by lia. cbn [repeat Sched.run]. rewrite G1, G2.
    destruct n as [|n'].
    + exists st2, [(i, MEvLoadNext (mtail s) (Some x)); (i, MEvRet (Some v))].
      cbn [Nat.mul repeat Sched.run]. destruct rest; [|discriminate].
      unfold st2, st1. cbn [fst]. mp_split; [reflexivity|exact Ec|exact Eb|reflexivity].
    + destruct k as [|k1]; [lia|].
      assert (Hn2 : nth_error (snd st2) i = Some (Some (MCLoad k1))).
      { unfold st2. cbn [snd]. apply (mp_nth_error_self _ i _ _ [] Ee). }
      destruct (IH st2 i k1 Hr2 Hnp2) as (st' & es & Hrun & Hp & Hq & Hre).
      * unfold st2, st1. cbn [fst]. rewrite Eb. lia.
      * exact Hn2.
      * lia.
      * rewrite Hrun. exists st', ((i, MEvLoadNext (mtail s) (Some x)) :: (i, MEvRet (Some v)) :: es).
        unfold st2, st1 in Hp, Hq, Hre. cbn [fst] in Hp, Hq, Hre. rewrite Eb in Hp, Hre. rewrite Ec in Hp.
        mp_split; [reflexivity| |exact Hq|].
        -- rewrite Hp, <- app_assoc. reflexivity.
        -- unfold mrets in *. cbn [flat_map snd app map]. rewrite Hre. reflexivity.
Qed.

(* ---- never an element that was not put in, never more often than it was put in *)
Corollary mpsc_nothing_invented st : reach minit st ->
  forall v, (mcount (mpopped (fst st)) v + mcount (mabsq (fst st)) v <= mcount (mgiven (fst st)) v)%Z /\
            (In v (mpopped (fst st)) -> In v (mgiven (fst st))).
Proof.
  intros Hr v. destruct (mpsc_fifo_exactly_once st Hr) as (H1 & H2 & _). specialize (H2 v).
  pose proof (total_nonneg Mpsc (mcnt v) (snd st) (mp_nn_mcnt v)) as G. unfold MpT in H2.
  assert (E : (mcount (mpopped (fst st)) v + mcount (mabsq (fst st)) v = mcount (mswapped (fst st)) v)%Z).
  { unfold mcount. rewrite <- H1, count_occ_app. lia. }
  split; [lia|].
  intros Hin. apply (count_occ_In Nat.eq_dec) in Hin. apply (count_occ_In Nat.eq_dec).
  unfold mcount in *. lia.
Qed.
