(* MV.C15.BacklogRun — evaluation of recorded implementation runs against the model
   (correspondence tie T1).  A case = operation list + the outputs the Go code produced
   (buffer.Unbounded[int64] or channels.UnboundedBacklog[int64]: the same model serves both). *)
From MV Require Import Lib.ListX C15.BacklogModel.

Definition bout_eqb (a b : bout) : bool :=
  match a, b with
  | BOUnit, BOUnit => true
  | BOVal x, BOVal y => Z.eqb x y
  | BOEmpty, BOEmpty => true
  | BOClosed, BOClosed => true
  | BOBool x, BOBool y => Bool.eqb x y
  | _, _ => false            (* in particular BOBad equals nothing *)
  end.

Record bcase := { bcid : nat; bcops : list bop; bcimpl : list bout }.

Definition bmodel_outs (c : bcase) : list bout := snd (brun binit (bcops c)).
Definition bcase_ok (c : bcase) : bool := list_eqb bout_eqb (bmodel_outs c) (bcimpl c).
Definition bmismatches (cs : list bcase) : list nat := fail_ids bcase_ok bcid cs.
