(* MV.C11.GateProofs — invariants of the sender gate over every reachable state
   (every schedule, any number of packer threads, stream failure at any Send). *)
From MV Require Import Lib.ListX Lib.Sched C11.CutModel C11.CutProofs C11.Subseq C11.GateModel.
From Coq Require Import ZifyBool NArith.
Open Scope Z_scope.
Arguments Z.add : simpl never.
Arguments Z.sub : simpl never.
Arguments Z.of_nat : simpl never.
Arguments Z.ltb : simpl never.
Arguments Z.eqb : simpl never.

Definition b2z (b : bool) : Z := if b then 1 else 0.
Definition len (l : list msg) : Z := Z.of_nat (length l).

(* the gate token, split in two: holder is at Send / holder is anywhere else inside send() or before the store of Idle *)
Definition at_send (l : pc) : Z := match l with SSend => 1 | _ => 0 end.
Definition tokns (l : pc) : Z :=
  match l with SLock | SUnlock | SClosed | SDetach | SFLock | SFUnlock | SIdle => 1 | _ => 0 end.
(* holders of the write lock / of a read lock *)
Definition wh (l : pc) : Z := match l with PUnlock _ | SUnlock | SFUnlock => 1 | _ => 0 end.
Definition rh (l : pc) : Z := match l with SRUnlock => 1 | _ => 0 end.
(* threads that are certain to attempt the Idle->Active CAS if the queue is not empty when they look *)
Definition poised (l : pc) : Z := match l with PCas | SRLock | SRUnlock | SCas => 1 | _ => 0 end.
(* inside the failure branch *)
Definition infail (l : pc) : Z := match l with SClosed | SDetach | SFLock | SFUnlock => 1 | _ => 0 end.

Section G.
Variable limit : nat.
Notation M := (Gate limit).
Definition T (f : pc -> Z) (p : pool M) : Z := @total M f p.

Definition Inv (st : state M) : Prop :=
  let s := fst st in let p := snd st in
  T tokns p + T at_send p = b2z (active s) /\
  T wh p = b2z (wr s) /\
  T rh p = rd s /\
  (wr s = true -> rd s = 0) /\
  (active s = false -> 0 < len (q s) -> 1 <= T poised p) /\
  (T at_send p = 0 -> held s = []) /\
  (up s = true -> T infail p = 0) /\
  packed s = taken s ++ q s /\
  (up s = true -> taken s = wire s ++ held s) /\
  Subseq (wire s ++ held s) (taken s) /\
  concat (sentb s) = wire s /\
  (length (held s) <= limit)%nat /\
  Forall (fun b => (length b <= limit)%nat) (sentb s).

Lemma inv_init : Inv (init limit).
Proof.
  unfold Inv, init, T, len; simpl. repeat split; intros; try lia; try reflexivity; try constructor.
Qed.

Lemma len_app l m : len (l ++ [m]) = len l + 1.
Proof. unfold len. rewrite app_length. simpl. lia. Qed.
Lemma len_nil : len [] = 0. Proof. reflexivity. Qed.
Lemma len_cons m l : len (m :: l) = len l + 1.
Proof. unfold len. simpl length. lia. Qed.
Lemma len_nonneg l : 0 <= len l. Proof. unfold len. lia. Qed.

Lemma nn_tokns l : 0 <= tokns l. Proof. destruct l; simpl; lia. Qed.
Lemma nn_at l : 0 <= at_send l. Proof. destruct l; simpl; lia. Qed.
Lemma nn_wh l : 0 <= wh l. Proof. destruct l; simpl; lia. Qed.
Lemma nn_rh l : 0 <= rh l. Proof. destruct l; simpl; lia. Qed.
Lemma nn_poised l : 0 <= poised l. Proof. destruct l; simpl; lia. Qed.
Lemma nn_infail l : 0 <= infail l. Proof. destruct l; simpl; lia. Qed.

Ltac projs :=
  cbn [active wr rd q held up closedflag detached packed taken wire sentb
       set_active set_wr set_rd set_q set_held set_up set_closedflag set_detached set_packed set_taken set_wire set_sentb] in *.

Lemma inv_step st i c st' e : Inv st -> gstep st i c = Some (st', e) -> Inv st'.
Proof.
  destruct st as [s p]. unfold Inv, gstep. cbn [fst snd].
  intros (Htok & Hwh & Hrh & Hwr & Hpo & Hheld & Hfail & Hpk & Hup & Hsub & Hcat & Hhl & Hall).
  destruct (nth_error p i) as [[l|]|] eqn:Hn; try discriminate.
  pose proof (total_ge_nth M tokns p i l nn_tokns Hn) as Gtok.
  pose proof (total_ge_nth M at_send p i l nn_at Hn) as Gat.
  pose proof (total_ge_nth M wh p i l nn_wh Hn) as Gwh.
  pose proof (total_ge_nth M rh p i l nn_rh Hn) as Grh.
  pose proof (total_ge_nth M poised p i l nn_poised Hn) as Gpo.
  pose proof (total_ge_nth M infail p i l nn_infail Hn) as Gfa.
  pose proof (total_nonneg M tokns p nn_tokns) as Ntok.
  pose proof (total_nonneg M at_send p nn_at) as Nat_.
  pose proof (total_nonneg M poised p nn_poised) as Npo.
  pose proof (total_nonneg M infail p nn_infail) as Nfa.
  pose proof (total_nonneg M rh p nn_rh) as Nrh.
  pose proof (len_nonneg (q s)) as Nq.
  unfold T in *. cbn [tstep Gate].
  destruct l; cbn [mstep]; cbn [tokns at_send wh rh poised infail] in Gtok, Gat, Gwh, Grh, Gpo, Gfa.
  all: unfold lock_free.
  all: repeat match goal with
  | |- context [match ?c with CNone => _ | _ => _ end] => destruct c
  | |- context [if active ?s then _ else _] => let H := fresh "Ha" in destruct (active s) eqn:H
  | |- context [negb (wr ?s)] => let H := fresh "Hw" in destruct (wr s) eqn:H; cbn [negb andb]
  | |- context [if wr ?s then _ else _] => let H := fresh "Hw" in destruct (wr s) eqn:H
  | |- context [rd ?s =? 0] => destruct (Z.eqb_spec (rd s) 0)
  | |- context [match up ?s with _ => _ end] => let H := fresh "Hu" in destruct (up s) eqn:H
  | |- context [is_nil (q ?s)] => let H := fresh "Hq" in destruct (q s) eqn:H; cbn [is_nil]
  end; try discriminate.
  (* SUnlock is handled apart (it is the only step that computes on the queue) *)
  all: try match goal with
  | |- context [take limit (q ?s0)] =>
      pose proof (take_app limit (q s0)) as Ta; pose proof (take_len limit (q s0)) as Tl;
      destruct (take limit (q s0)) as [b rest] eqn:Et; cbn [fst snd] in Ta, Tl;
      assert (Hh0 : held s0 = []) by (apply Hheld; unfold b2z in Htok; destruct (active s0); lia);
      destruct b as [|b0 b']; cbn [is_nil]; cbv beta iota zeta
  end.
  all: intros Hstep; inversion Hstep; subst; clear Hstep; cbn [fst snd]; projs;
    repeat rewrite total_app; repeat rewrite (total_upd _ _ _ _ _ _ Hn);
    cbn [total fo map tokns at_send wh rh poised infail];
    rewrite ?len_app, ?len_cons, ?len_nil in *; unfold b2z in *;
    repeat match goal with Hx : active ?s = _ |- _ => rewrite Hx in * end;
    repeat match goal with Hx : wr ?s = _ |- _ => rewrite Hx in * end;
    repeat match goal with Hx : up ?s = _ |- _ => rewrite Hx in * end.
  all: repeat match goal with |- _ /\ _ => split end; intros.
  all: try lia.
  all: try congruence.
  all: try assumption.
  all: try (apply Hheld; lia).
  all: try (apply Hup; assumption).
  all: try (specialize (Hpo ltac:(first [assumption|reflexivity|congruence]) ltac:(lia)); lia).
  all: try (specialize (Hfail ltac:(first [assumption|reflexivity|congruence])); lia).
  all: rewrite ?app_nil_r in *.
  all: try (rewrite Hh0 in *; rewrite ?app_nil_r in * ).
  all: try match goal with Ta : _ ++ _ = q _ |- _ => cbn [app] in Ta end.
  all: try (rewrite Hpk; rewrite <- ?app_assoc; subst; reflexivity).
  all: try (rewrite Hpk, <- Ta, <- ?app_assoc; reflexivity).
  all: try (rewrite (Hup ltac:(assumption)); rewrite ?Hh0, ?app_nil_r; reflexivity).
  all: try assumption.
  all: try (cbn [length]; lia).
  all: try (apply subseq_app_both; assumption).
  all: try (apply subseq_app_r; assumption).
  all: try (eapply subseq_prefix; eassumption).
  all: try (rewrite concat_app, Hcat; cbn [concat]; rewrite app_nil_r; reflexivity).
  all: try (apply Forall_app; split; [assumption|constructor; [assumption|constructor]]).
  all: try match goal with Hq : q ?s = [], H0 : 0 < len (q ?s) |- _ => rewrite Hq in H0; unfold len in H0; cbn [length] in H0; lia end.
Qed.

Theorem inv_reachable st : reach (init limit) st -> Inv st.
Proof. apply inv_reach; [exact inv_init | exact inv_step]. Qed.

Lemma in_send_split l : in_send l = tokns l + at_send l.
Proof. destruct l; reflexivity. Qed.

Lemma total_split (f g h : pc -> Z) (p : pool M) :
  (forall l, f l = g l + h l) -> T f p = T g p + T h p.
Proof.
  intros E. unfold T. induction p as [|[l|] t IH]; simpl; try lia. rewrite (E l). lia.
Qed.

(* at most one thread is inside send() (between a won CAS and its store of Idle): a single sender at a time *)
Theorem single_sender st : reach (init limit) st -> senders st <= 1.
Proof.
  intros Hr. destruct (inv_reachable st Hr) as (Ht & _). unfold senders.
  pose proof (total_split in_send tokns at_send (snd st) in_send_split) as E. unfold T in *.
  unfold b2z in Ht. destruct (active (fst st)); lia.
Qed.

(* the queue is accessed under the lock: at most one writer, and no reader while a writer holds it *)
Theorem lock_exclusive st : reach (init limit) st ->
  T wh (snd st) <= 1 /\ (T wh (snd st) = 1 -> T rh (snd st) = 0).
Proof.
  intros Hr. destruct (inv_reachable st Hr) as (_ & Hw & Hrd & Hwr & _). unfold T in *. unfold b2z in Hw.
  destruct (wr (fst st)); split; intros; try lia; try (rewrite Hrd; apply Hwr; reflexivity).
Qed.

(* FIFO, no loss, no duplication while the stream is up: what was packed (in the order of the appends
   under the lock) is exactly what has been handed to the stream, followed by the batch the sender holds,
   followed by what is still queued *)
Theorem fifo_up st : reach (init limit) st -> up (fst st) = true ->
  packed (fst st) = wire (fst st) ++ held (fst st) ++ q (fst st).
Proof.
  intros Hr Hu. destruct (inv_reachable st Hr) as (_ & _ & _ & _ & _ & _ & _ & Hpk & Hup & _).
  rewrite Hpk, (Hup Hu), app_assoc. reflexivity.
Qed.

(* whatever happens to the stream: the bytes handed to it are an order-preserving, duplicate-free
   sub-sequence of what was packed *)
Theorem wire_subseq st : reach (init limit) st -> Subseq (wire (fst st)) (packed (fst st)).
Proof.
  intros Hr. destruct (inv_reachable st Hr) as (_ & _ & _ & _ & _ & _ & _ & Hpk & _ & Hsub & _).
  rewrite Hpk. apply subseq_app_r. eapply subseq_prefix. exact Hsub.
Qed.

(* the batches handed to the stream concatenate to the wire and respect the limit *)
Theorem batches_bounded st : reach (init limit) st ->
  concat (sentb (fst st)) = wire (fst st) /\ Forall (fun b => (length b <= limit)%nat) (sentb (fst st)).
Proof.
  intros Hr. destruct (inv_reachable st Hr) as (_ & _ & _ & _ & _ & _ & _ & _ & _ & _ & Hc & _ & Ha). auto.
Qed.

Lemma total_all_env (f : pc -> Z) (p : pool M) :
  @all_live M is_env p -> f Env = 0 -> T f p = 0.
Proof.
  unfold T, all_live, is_env. intros Hq Hf. induction p as [|[l|] t IH]; simpl; auto.
  - rewrite (Hq 0%nat l eq_refl), Hf. rewrite IH; [reflexivity|].
    intros i l' Hn. apply (Hq (S i)). exact Hn.
  - apply IH. intros i l' Hn. apply (Hq (S i)). exact Hn.
Qed.

(* when no packer and no sender goroutine is executing any more, nothing is stranded: the queue is empty,
   no batch is held, the gate is idle and the lock is free *)
Theorem no_stranded st : reach (init limit) st -> quiescent st ->
  q (fst st) = [] /\ held (fst st) = [] /\ active (fst st) = false /\ wr (fst st) = false /\ rd (fst st) = 0.
Proof.
  intros Hr Hq. destruct (inv_reachable st Hr) as (Ht & Hw & Hrd & _ & Hpo & Hh & _).
  assert (Hz : forall f, f Env = 0 -> T f (snd st) = 0) by (intros f Hf; apply total_all_env; assumption).
  unfold T in *.
  rewrite (Hz tokns eq_refl), (Hz at_send eq_refl) in Ht. rewrite (Hz wh eq_refl) in Hw.
  rewrite (Hz rh eq_refl) in Hrd. rewrite (Hz poised eq_refl) in Hpo. rewrite (Hz at_send eq_refl) in Hh.
  unfold b2z in *.
  assert (Ha : active (fst st) = false) by (destruct (active (fst st)); [lia|reflexivity]).
  assert (Hwf : wr (fst st) = false) by (destruct (wr (fst st)); [lia|reflexivity]).
  repeat split; auto.
  destruct (q (fst st)) as [|m t] eqn:E; [reflexivity|].
  specialize (Hpo Ha). unfold len in Hpo. cbn [length] in Hpo. lia.
Qed.

End G.
