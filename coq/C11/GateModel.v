(* MV.C11.GateModel — layer-A machine transcribing engine/prc/shared_stream_process.go: the per-peer
   sender gate. One [mstep] per statement that touches shared memory (the queue `batches` is only
   touched under `lock`, so the queue operation is folded into the Unlock that ends its critical section):

     packMessage:  c.lock.Lock() ; c.batches = append(c.batches, dm) + c.lock.Unlock() ; activation()
     activation:   c.state.CompareAndSwap(Idle, Active)  -> go func(){ sender loop }
     sender loop:  for { c.send(); c.state.Store(Idle); c.lock.RLock(); empty := len(c.batches)==0; c.lock.RUnlock();
                         if empty {break} else if !c.state.CompareAndSwap(Idle, Active) {break} }
     send:         for { c.lock.Lock(); take at most `limit` + c.lock.Unlock(); if len(messages)==0 {break};
                         if err := c.stream.Send(batch); err != nil {
                             c.closed.Store(true)             (* repaired code, fixes/C11-stale-stream-reference.patch *)
                             c.shared.detachStream(c.address)
                             c.lock.Lock(); c.batches = nil + c.lock.Unlock(); break } }

   sync.RWMutex = writer flag + reader count; Lock is enabled only while free, RLock only while no writer
   holds it (a blocked thread has no step). The environment thread spawns packers at will (unbounded
   threads); the outcome of stream.Send is a choice (a stream that failed once keeps failing).
   Ghost history (never read by the algorithm): packed, taken, wire, sentb.
   `held` is the sender goroutine's local slice `messages`, kept in the shared record because only the
   single token holder (theorem gate_single_sender) writes and reads it.
   No proofs in this file. *)
From MV Require Import Lib.ListX Lib.Sched C11.CutModel.
From Coq Require Import NArith.
Open Scope Z_scope.

Definition msg := N.

Inductive pc :=
| Env                    (* spawns packers at will *)
| PLock (m : msg)        (* packMessage: about to c.lock.Lock() *)
| PUnlock (m : msg)      (* holds the lock: append m, c.lock.Unlock() *)
| PCas                   (* activation(): CompareAndSwap(Idle, Active) *)
| SLock                  (* send(): c.lock.Lock() *)
| SUnlock                (* holds the lock: take a batch, c.lock.Unlock() *)
| SSend                  (* c.stream.Send(batch) *)
| SClosed                (* failure branch: c.closed.Store(true) *)
| SDetach                (* c.shared.detachStream(c.address) *)
| SFLock                 (* c.lock.Lock() *)
| SFUnlock               (* c.batches = nil, c.lock.Unlock() *)
| SIdle                  (* c.state.Store(Idle) *)
| SRLock                 (* c.lock.RLock() *)
| SRUnlock               (* empty := len(c.batches) == 0, c.lock.RUnlock() *)
| SCas.                  (* CompareAndSwap(Idle, Active) of the loop *)

Inductive choice := CNone | CPack (m : msg) | CFail.

Inductive event :=
| EvSpawn (c : choice)
| EvLock
| EvUnlockW (removed appended : list msg)   (* effect of the critical section on the queue *)
| EvCas (ok : bool)
| EvSend (ok : bool) (b : list msg)
| EvStoreClosed
| EvDetach
| EvStoreIdle
| EvRLock
| EvRUnlock (empty : bool)
| EvExit                                     (* pseudo-event of the replay log: the thread's code has ended *)
| EvOther (n : nat).                         (* an operation the machine does not have; never produced by [mstep] *)

Record sh := { active : bool; wr : bool; rd : Z; q : list msg; held : list msg; up : bool; closedflag : bool; detached : bool; packed : list msg; taken : list msg; wire : list msg; sentb : list (list msg) }.

Definition init_sh : sh :=
  {| active := false; wr := false; rd := 0; q := []; held := []; up := true; closedflag := false; detached := false;
     packed := []; taken := []; wire := []; sentb := [] |}.

Definition set_active v s := {| active := v; wr := wr s; rd := rd s; q := q s; held := held s; up := up s; closedflag := closedflag s; detached := detached s; packed := packed s; taken := taken s; wire := wire s; sentb := sentb s |}.
Definition set_wr v s := {| active := active s; wr := v; rd := rd s; q := q s; held := held s; up := up s; closedflag := closedflag s; detached := detached s; packed := packed s; taken := taken s; wire := wire s; sentb := sentb s |}.
Definition set_rd v s := {| active := active s; wr := wr s; rd := v; q := q s; held := held s; up := up s; closedflag := closedflag s; detached := detached s; packed := packed s; taken := taken s; wire := wire s; sentb := sentb s |}.
Definition set_q v s := {| active := active s; wr := wr s; rd := rd s; q := v; held := held s; up := up s; closedflag := closedflag s; detached := detached s; packed := packed s; taken := taken s; wire := wire s; sentb := sentb s |}.
Definition set_held v s := {| active := active s; wr := wr s; rd := rd s; q := q s; held := v; up := up s; closedflag := closedflag s; detached := detached s; packed := packed s; taken := taken s; wire := wire s; sentb := sentb s |}.
Definition set_up v s := {| active := active s; wr := wr s; rd := rd s; q := q s; held := held s; up := v; closedflag := closedflag s; detached := detached s; packed := packed s; taken := taken s; wire := wire s; sentb := sentb s |}.
Definition set_closedflag v s := {| active := active s; wr := wr s; rd := rd s; q := q s; held := held s; up := up s; closedflag := v; detached := detached s; packed := packed s; taken := taken s; wire := wire s; sentb := sentb s |}.
Definition set_detached v s := {| active := active s; wr := wr s; rd := rd s; q := q s; held := held s; up := up s; closedflag := closedflag s; detached := v; packed := packed s; taken := taken s; wire := wire s; sentb := sentb s |}.
Definition set_packed v s := {| active := active s; wr := wr s; rd := rd s; q := q s; held := held s; up := up s; closedflag := closedflag s; detached := detached s; packed := v; taken := taken s; wire := wire s; sentb := sentb s |}.
Definition set_taken v s := {| active := active s; wr := wr s; rd := rd s; q := q s; held := held s; up := up s; closedflag := closedflag s; detached := detached s; packed := packed s; taken := v; wire := wire s; sentb := sentb s |}.
Definition set_wire v s := {| active := active s; wr := wr s; rd := rd s; q := q s; held := held s; up := up s; closedflag := closedflag s; detached := detached s; packed := packed s; taken := taken s; wire := v; sentb := sentb s |}.
Definition set_sentb v s := {| active := active s; wr := wr s; rd := rd s; q := q s; held := held s; up := up s; closedflag := closedflag s; detached := detached s; packed := packed s; taken := taken s; wire := wire s; sentb := v |}.

Definition R := (sh * option pc * list pc * event)%type.

Definition lock_free (s : sh) : bool := negb (wr s) && (rd s =? 0).
Definition is_nil {A} (l : list A) : bool := match l with [] => true | _ => false end.

Definition mstep (limit : nat) (s : sh) (l : pc) (c : choice) : option R :=
  match l with
  | Env =>
      match c with
      | CPack m => Some (s, Some Env, [PLock m], EvSpawn c)
      | _ => None
      end
  | PLock m => if lock_free s then Some (set_wr true s, Some (PUnlock m), [], EvLock) else None
  | PUnlock m =>
      Some (set_wr false (set_q (q s ++ [m]) (set_packed (packed s ++ [m]) s)), Some PCas, [], EvUnlockW [] [m])
  | PCas =>
      if active s then Some (s, None, [], EvCas false)
      else Some (set_active true s, None, [SLock], EvCas true)
  | SLock => if lock_free s then Some (set_wr true s, Some SUnlock, [], EvLock) else None
  | SUnlock =>
      let '(b, rest) := take limit (q s) in
      Some (set_wr false (set_q rest (set_held b (set_taken (taken s ++ b) s))),
            Some (if is_nil b then SIdle else SSend), [], EvUnlockW b [])
  | SSend =>
      match c, up s with
      | CFail, _ | _, false =>
          Some (set_up false (set_held [] s), Some SClosed, [], EvSend false (held s))
      | _, true =>
          Some (set_held [] (set_wire (wire s ++ held s) (set_sentb (sentb s ++ [held s]) s)), Some SLock, [], EvSend true (held s))
      end
  | SClosed => Some (set_closedflag true s, Some SDetach, [], EvStoreClosed)
  | SDetach => Some (set_detached true s, Some SFLock, [], EvDetach)
  | SFLock => if lock_free s then Some (set_wr true s, Some SFUnlock, [], EvLock) else None
  | SFUnlock =>
      Some (set_wr false (set_q [] (set_taken (taken s ++ q s) s)), Some SIdle, [], EvUnlockW (q s) [])
  | SIdle => Some (set_active false s, Some SRLock, [], EvStoreIdle)
  | SRLock => if wr s then None else Some (set_rd (rd s + 1) s, Some SRUnlock, [], EvRLock)
  | SRUnlock =>
      if is_nil (q s) then Some (set_rd (rd s - 1) s, None, [], EvRUnlock true)
      else Some (set_rd (rd s - 1) s, Some SCas, [], EvRUnlock false)
  | SCas =>
      if active s then Some (s, None, [], EvCas false)
      else Some (set_active true s, Some SLock, [], EvCas true)
  end.

Definition Gate (limit : nat) : machine :=
  {| shared := sh; local := pc; Sched.choice := choice; ev := event; tstep := mstep limit |}.

Definition init (limit : nat) : state (Gate limit) := (init_sh, [Some Env]).

(* ---- observables used by the statements ---- *)
(* inside send() or about to release the gate: from a won CAS up to and including the pending store of Idle *)
Definition in_send (l : pc) : Z :=
  match l with SLock | SUnlock | SSend | SClosed | SDetach | SFLock | SFUnlock | SIdle => 1 | _ => 0 end.
Definition senders {limit} (st : state (Gate limit)) : Z := @total (Gate limit) in_send (snd st).

Definition is_env (l : pc) : Prop := l = Env.
Definition quiescent {limit} (st : state (Gate limit)) : Prop := @all_live (Gate limit) is_env (snd st).
