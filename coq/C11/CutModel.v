(* MV.C11.CutModel — layer C: the batch loop of the stream sender
   (engine/prc/shared_stream_process.go, func (c *sharedStreamProcess) send()):

     for {
       c.lock.Lock()
       n := len(c.batches)
       if n < sharedStreamBatchLimit { messages = c.batches; c.batches = nil }
       else { messages = c.batches[:limit]; c.batches = c.batches[limit:] }
       c.lock.Unlock()
       if len(messages) == 0 { break }
       ... c.stream.Send(one SharedMessage carrying `messages`) ...
     }

   [take limit q] is one iteration's effect on the queue (what is taken, what remains);
   [cut limit q] is the list of batches the loop sends when nobody appends meanwhile.
   The limit is a parameter: the value the code uses today is read from the source on every run
   (translate/c11consts -> Extracted.v) and the theorems are instantiated with it.
   No proofs in this file. *)
From MV Require Import Lib.ListX.

Section Cut.
Context {A : Type}.

Definition take (limit : nat) (q : list A) : list A * list A :=
  if length q <? limit then (q, []) else (firstn limit q, skipn limit q).

(* explicit fuel (the Go loop has none); [cut] supplies enough and the theorems show that the
   result does not depend on it *)
Fixpoint cut_fuel (fuel limit : nat) (q : list A) : list (list A) :=
  match fuel with
  | O => []
  | S f =>
      let '(b, rest) := take limit q in
      match b with
      | [] => []                                  (* len(messages) == 0: break *)
      | _ => b :: cut_fuel f limit rest
      end
  end.

Definition cut (limit : nat) (q : list A) : list (list A) := cut_fuel (S (length q)) limit q.

End Cut.
