(* MV.C11.LinkRun — tie T1: evaluation of the runs recorded by harness/cmd/c11link on the REAL code
   (two nodes over loopback gRPC). A case lists the flows (one sender -> one receiver, one class); per
   flow: how many sequence-numbered messages were sent (0..n-1 in order), the arrival sequence observed
   by the receiver (compressed into runs [lo,hi)), the ranges sent while the link was verified up, and
   the number of link breaks of the scenario.
   - no break: the link model (LinkModel: send in cuts of the batch limit, receive until drained)
     predicts the arrival sequence; it must be equal to the observed one.
   - with breaks: the observed sequence must be accepted by the verified checker: an order-preserving,
     duplicate-free sub-sequence of the sent one that contains every must-arrive range. *)
From MV Require Import Lib.ListX C11.CutModel C11.CutProofs C11.Subseq C11.LinkModel C11.LinkProofs.
From Coq Require Import NArith.

Record flowc := { fsent : N; fdeliv : list (N * N); fmust : list (N * N); fbreaks : nat }.
Record case := { cid : nat; cflows : list flowc }.

Fixpoint nseq_from (lo : N) (k : nat) : list N :=
  match k with O => [] | S k' => lo :: nseq_from (N.succ lo) k' end.
Definition nseq (lo hi : N) : list N := nseq_from lo (N.to_nat (hi - lo)).
Definition expand (ivs : list (N * N)) : list N := flat_map (fun iv => nseq (fst iv) (snd iv)) ivs.

(* greedy sub-sequence matcher *)
Fixpoint subseqb {A} (eqb : A -> A -> bool) (d s : list A) : bool :=
  match s with
  | [] => match d with [] => true | _ => false end
  | y :: s' =>
      match d with
      | [] => true
      | x :: t => if eqb x y then subseqb eqb t s' else subseqb eqb d s'
      end
  end.

Definition run_limit : nat := 1024.

Definition model_delivery (n : N) : list N :=
  delivered (drain (lrun link0 (send_all run_limit (nseq 0 n)))).

Definition flow_ok (f : flowc) : bool :=
  let d := expand (fdeliv f) in
  match fbreaks f with
  | O => list_eqb N.eqb (model_delivery (fsent f)) d
  | _ => subseqb N.eqb d (nseq 0 (fsent f)) && subseqb N.eqb (expand (fmust f)) d
  end.

Definition case_ok (c : case) : bool := forallb flow_ok (cflows c).
Definition mismatches (cs : list case) : list nat := fail_ids case_ok cid cs.

(* ---- the checker is sound *)
Lemma subseqb_sound {A} (eqb : A -> A -> bool) :
  (forall a b, eqb a b = true -> a = b) -> forall s d, subseqb eqb d s = true -> Subseq d s.
Proof.
  intros He. induction s as [|y s IH]; intros d H; cbn [subseqb] in H.
  - destruct d; [constructor|discriminate].
  - destruct d as [|x t]; [constructor|].
    destruct (eqb x y) eqn:E.
    + apply He in E. subst. constructor. apply IH. exact H.
    + constructor. apply IH. exact H.
Qed.

Lemma nseq_from_ge k : forall lo x, In x (nseq_from lo k) -> (lo <= x)%N.
Proof.
  induction k as [|k IH]; intros lo x H; cbn [nseq_from] in H; [contradiction|].
  destruct H as [<-|H]; [lia|]. apply IH in H. lia.
Qed.

Lemma nseq_NoDup lo hi : NoDup (nseq lo hi).
Proof.
  unfold nseq. generalize (N.to_nat (hi - lo)) as k. intros k. revert lo.
  induction k as [|k IH]; intros lo; cbn [nseq_from]; constructor; [|apply IH].
  intros H. apply nseq_from_ge in H. lia.
Qed.

Lemma Neqb_eq a b : N.eqb a b = true -> a = b.
Proof. apply N.eqb_eq. Qed.

Theorem flow_ok_sound f : flow_ok f = true ->
  let d := expand (fdeliv f) in
  Subseq d (nseq 0 (fsent f)) /\ NoDup d /\ (fbreaks f = O -> d = nseq 0 (fsent f)) /\
  (fbreaks f <> O -> Subseq (expand (fmust f)) d).
Proof.
  unfold flow_ok. cbv zeta. intros H. set (d := expand (fdeliv f)) in *.
  destruct (fbreaks f) as [|k].
  - assert (E : model_delivery (fsent f) = d).
    { apply (proj1 (list_eqb_eq N.eqb (fun a b => N.eqb_eq a b) _ _)). exact H. }
    unfold model_delivery in E. rewrite batched_delivery in E by (unfold run_limit; lia).
    rewrite <- E. repeat split; try congruence.
    + apply subseq_refl.
    + apply nseq_NoDup.
  - apply andb_true_iff in H as [H1 H2].
    apply (subseqb_sound N.eqb Neqb_eq) in H1. apply (subseqb_sound N.eqb Neqb_eq) in H2.
    repeat split; auto; try congruence.
    eapply subseq_NoDup; [exact H1|apply nseq_NoDup].
Qed.
