(* MV.C11.GateRun — tie T2: replay of schedules recorded from the instrumented CURRENT text of
   engine/prc/shared_stream_process.go (sync/atomic and sync redirected to the controlled scheduler,
   the gRPC stream replaced by a fake whose Send is a scheduler step). Each log entry = (thread id,
   choice, event observed in the Go code); the machine must be able to take that step and must predict
   exactly that event. For "burst" cases (all packs happen before the sender takes its first step and the
   stream never fails) the batches the code sent are additionally compared with [cut limit packed]. *)
From MV Require Import Lib.ListX Lib.Sched C11.CutModel C11.GateModel.
From Coq Require Import NArith.
Open Scope Z_scope.

Definition choice_eqb (a b : choice) : bool :=
  match a, b with
  | CNone, CNone | CFail, CFail => true
  | CPack m, CPack m' => N.eqb m m'
  | _, _ => false
  end.

Definition lmsg_eqb : list msg -> list msg -> bool := list_eqb N.eqb.

Definition event_eqb (a b : event) : bool :=
  match a, b with
  | EvSpawn c, EvSpawn c' => choice_eqb c c'
  | EvLock, EvLock | EvStoreClosed, EvStoreClosed | EvDetach, EvDetach | EvStoreIdle, EvStoreIdle
  | EvRLock, EvRLock | EvExit, EvExit => true
  | EvUnlockW r a, EvUnlockW r' a' => lmsg_eqb r r' && lmsg_eqb a a'
  | EvCas o, EvCas o' => Bool.eqb o o'
  | EvSend o b, EvSend o' b' => Bool.eqb o o' && lmsg_eqb b b'
  | EvRUnlock e, EvRUnlock e' => Bool.eqb e e'
  | _, _ => false
  end.

Section Replay.
Variable limit : nat.
Notation M := (Gate limit).

(* None = the whole log is a run of the machine with equal events; Some k = first diverging step *)
Fixpoint replay (st : state M) (log : list (nat * choice * event)) (k : nat) : option nat :=
  match log with
  | [] => None
  | (i, c, EvExit) :: t =>
      match nth_error (snd st) i with
      | Some None => replay st t (S k)
      | _ => Some k
      end
  | (i, c, e) :: t =>
      match @gstep M st i c with
      | Some (st', e') => if event_eqb e e' then replay st' t (S k) else Some k
      | None => Some k
      end
  end.

Fixpoint final (st : state M) (log : list (nat * choice * event)) : option (state M) :=
  match log with
  | [] => Some st
  | (i, c, EvExit) :: t => final st t
  | (i, c, _) :: t => match @gstep M st i c with Some (st', _) => final st' t | None => None end
  end.
End Replay.

Record case := {
  cid : nat; climit : nat; clog : list (nat * choice * event);
  cend : option (N * N);     (* at quiescence: |queue|, number of messages the stream accepted *)
  cburst : bool              (* all packs precede the first sender step, no failure: sent batches = cut *)
}.

Definition packs_of (log : list (nat * choice * event)) : list msg :=
  flat_map (fun x => match snd x with EvUnlockW [] a => a | _ => [] end) log.
Definition sends_of (log : list (nat * choice * event)) : list (list msg) :=
  flat_map (fun x => match snd x with EvSend true b => [b] | _ => [] end) log.

Definition case_ok (c : case) : bool :=
  match replay (climit c) (init (climit c)) (clog c) 0 with
  | Some _ => false
  | None =>
      (match cend c, final (climit c) (init (climit c)) (clog c) with
       | None, _ => true
       | Some (nq, nw), Some st =>
           N.eqb (N.of_nat (length (q (fst st)))) nq && N.eqb (N.of_nat (length (wire (fst st)))) nw
       | Some _, None => false
       end)
      && (if cburst c then list_eqb lmsg_eqb (sends_of (clog c)) (cut (climit c) (packs_of (clog c))) else true)
  end.

Definition mismatches (cs : list case) : list nat := fail_ids case_ok cid cs.
Definition divergence (c : case) : option nat := replay (climit c) (init (climit c)) (clog c) 0.
