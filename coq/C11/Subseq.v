(* MV.C11.Subseq — order-preserving, duplicate-free embedding of one list into another:
   [Subseq d s] = d is obtained from s by deleting elements. This is the exact meaning of
   "may lose messages but never duplicates or reorders delivered ones". *)
From MV Require Import Lib.ListX.

Inductive Subseq {A} : list A -> list A -> Prop :=
| sub_nil l : Subseq [] l
| sub_keep x l1 l2 : Subseq l1 l2 -> Subseq (x :: l1) (x :: l2)
| sub_skip x l1 l2 : Subseq l1 l2 -> Subseq l1 (x :: l2).

Section SubseqFacts.
Context {A : Type}.
Implicit Types a b c d : list A.

Lemma subseq_refl a : Subseq a a.
Proof. induction a; constructor; auto. Qed.

Lemma subseq_nil_r a : Subseq a [] -> a = [].
Proof. inversion 1; reflexivity. Qed.

Lemma subseq_app_r a b c : Subseq a b -> Subseq a (b ++ c).
Proof. induction 1; simpl; constructor; auto. Qed.

Lemma subseq_app_l a b c : Subseq a b -> Subseq a (c ++ b).
Proof. intros H. induction c; simpl; [exact H|]. constructor. exact IHc. Qed.

Lemma subseq_app_both a b c : Subseq a b -> Subseq (a ++ c) (b ++ c).
Proof.
  induction 1; simpl.
  - apply subseq_app_l. apply subseq_refl.
  - constructor; auto.
  - constructor; auto.
Qed.

Lemma subseq_app a b c d : Subseq a b -> Subseq c d -> Subseq (a ++ c) (b ++ d).
Proof.
  induction 1; intros Hc; simpl.
  - apply subseq_app_l. exact Hc.
  - constructor; auto.
  - constructor; auto.
Qed.

Lemma subseq_cons_l x a b : Subseq (x :: a) b -> Subseq a b.
Proof.
  intros H. remember (x :: a) as xa eqn:E. revert x a E.
  induction H; intros y a' E; try discriminate.
  - inversion E; subst. constructor. exact H.
  - constructor. eapply IHSubseq. exact E.
Qed.

(* dropping a suffix of the embedded list *)
Lemma subseq_prefix a b c : Subseq (a ++ b) c -> Subseq a c.
Proof.
  revert c. induction a as [|x a IH]; intros c H; simpl in *; [constructor|].
  remember (x :: a ++ b) as l eqn:E. revert E.
  induction H; intros E; try discriminate.
  - inversion E; subst. constructor. apply IH. exact H.
  - constructor. apply IHSubseq. exact E.
Qed.

Lemma subseq_trans a b c : Subseq a b -> Subseq b c -> Subseq a c.
Proof.
  intros Hab Hbc. revert a Hab. induction Hbc; intros a Hab.
  - apply subseq_nil_r in Hab. subst. constructor.
  - inversion Hab; subst; constructor; auto.
  - constructor. auto.
Qed.

Lemma subseq_length a b : Subseq a b -> length a <= length b.
Proof. induction 1; simpl; lia. Qed.

Lemma subseq_In a b x : Subseq a b -> In x a -> In x b.
Proof. induction 1; simpl; intros Hi; [contradiction| |]; intuition. Qed.

Lemma subseq_NoDup a b : Subseq a b -> NoDup b -> NoDup a.
Proof.
  induction 1; intros Hn.
  - constructor.
  - inversion Hn; subst. constructor; [|auto]. intros Hi. apply H2. eapply subseq_In; eauto.
  - inversion Hn; subst. auto.
Qed.

Lemma subseq_filter (f : A -> bool) a b : Subseq a b -> Subseq (filter f a) (filter f b).
Proof.
  induction 1; simpl.
  - constructor.
  - destruct (f x); [constructor|]; auto.
  - destruct (f x); [constructor|]; auto.
Qed.

(* equal length embedding is equality: nothing was lost *)
Lemma subseq_same_length a b : Subseq a b -> length a = length b -> a = b.
Proof.
  induction 1; simpl; intros Hl.
  - destruct l; [reflexivity|discriminate].
  - f_equal. apply IHSubseq. lia.
  - apply subseq_length in H. lia.
Qed.

End SubseqFacts.

Lemma subseq_map {A B} (f : A -> B) a b : Subseq a b -> Subseq (map f a) (map f b).
Proof. induction 1; simpl; constructor; auto. Qed.

Lemma subseq_concat_drop {A} (pre : list A) (bs : list (list A)) :
  Subseq pre (pre ++ concat bs).
Proof. apply subseq_app_r. apply subseq_refl. Qed.
