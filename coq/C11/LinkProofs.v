(* MV.C11.LinkProofs — theorems about the link, the envelope, reply routing, the reference cache,
   and the refutation for parallel streams. *)
From MV Require Import Lib.ListX C11.CutModel C11.CutProofs C11.Subseq C11.LinkModel.
From Coq Require Import NArith.

(* ------------------------------------------------------------------ (1) link *)
Section LinkFacts.
Context {E : Type}.
Notation link := (link E).
Notation lev := (lev E).
Notation link0 := (@link0 E).

(* the conservation invariant: delivered, then what is in flight, embeds into what was sent — and is
   exactly what was sent as long as nothing broke *)
Definition linv (l : link) : Prop := Subseq (delivered l ++ concat (inflight l)) (sent l).
Definition linv_eq (l : link) : Prop := delivered l ++ concat (inflight l) = sent l.

Lemma linv0 : linv link0 /\ linv_eq link0.
Proof. split; [constructor|reflexivity]. Qed.

Lemma lstep_inv l e : linv l -> linv (lstep l e).
Proof.
  unfold linv. intros H. destruct e as [b| | |]; cbn [lstep].
  - destruct (up l); cbn [delivered inflight sent]; [|exact H].
    rewrite concat_app. cbn [concat]. rewrite app_nil_r, app_assoc. apply subseq_app_both. exact H.
  - destruct (inflight l) as [|b t] eqn:Ei; cbn [delivered inflight sent]; [rewrite Ei; exact H|].
    cbn [concat] in H. rewrite <- app_assoc. exact H.
  - cbn [delivered inflight sent concat]. rewrite app_nil_r. eapply subseq_prefix. exact H.
  - cbn [delivered inflight sent concat]. rewrite app_nil_r. eapply subseq_prefix. exact H.
Qed.

(* events that cannot lose data: everything but Break, and Reopen only on an idle wire *)
Definition lossless (l : link) (e : lev) : bool :=
  match e with LBreak => false | LReopen => match inflight l with [] => true | _ => false end | _ => true end.

Lemma lstep_inv_eq l e : up l = true -> lossless l e = true -> linv_eq l -> linv_eq (lstep l e) /\ up (lstep l e) = true.
Proof.
  unfold linv_eq. intros Hu Hb H. destruct e as [b| | |]; cbn [lstep lossless] in *; try discriminate.
  - rewrite Hu. cbn [delivered inflight sent up]. split; [|reflexivity].
    rewrite concat_app. cbn [concat]. rewrite app_nil_r, app_assoc, H. reflexivity.
  - destruct (inflight l) as [|b t] eqn:Ei; cbn [delivered inflight sent up]; [rewrite Ei; auto|].
    split; [|exact Hu]. cbn [concat] in H. rewrite <- app_assoc. exact H.
  - destruct (inflight l) as [|b t] eqn:Ei; [|discriminate].
    cbn [delivered inflight sent up concat]. split; [|reflexivity]. cbn [concat] in H. exact H.
Qed.

Theorem lrun_subseq es : forall l, linv l -> linv (lrun l es).
Proof. induction es as [|e t IH]; intros l H; cbn [lrun fold_left]; [exact H|]. apply IH. apply lstep_inv. exact H. Qed.

(* an event list without Break or Reopen *)
Definition steady (es : list lev) : Prop :=
  forallb (fun e => match e with LBreak | LReopen => false | _ => true end) es = true.

Theorem lrun_eq es : steady es -> forall l, up l = true -> linv_eq l -> linv_eq (lrun l es) /\ up (lrun l es) = true.
Proof.
  unfold steady. induction es as [|e t IH]; intros Hs l Hu H; cbn [lrun fold_left]; [auto|].
  cbn [forallb] in Hs. apply andb_true_iff in Hs as [He Ht].
  assert (Hl : lossless l e = true) by (destruct e; cbn [lossless]; congruence).
  destruct (lstep_inv_eq l e Hu Hl H) as [H1 H2]. apply IH; assumption.
Qed.

(* any Break/Reopen sequence: what was delivered is an order-preserving, duplicate-free sub-sequence of
   what was sent *)
Theorem never_dup_or_reorder es : Subseq (delivered (lrun link0 es)) (sent (lrun link0 es)).
Proof.
  pose proof (lrun_subseq es link0 (proj1 linv0)) as H. unfold linv in H. eapply subseq_prefix. exact H.
Qed.

(* no Break (and no Reopen): delivered followed by the in-flight batches is exactly what was sent; once the
   receiving loop has caught up, delivered = sent: exactly once, in order *)
Theorem exactly_once_link_up es : steady es ->
  delivered (lrun link0 es) ++ concat (inflight (lrun link0 es)) = sent (lrun link0 es).
Proof. intros Hs. exact (proj1 (lrun_eq es Hs link0 eq_refl (proj2 linv0))). Qed.

Lemma drain_spec (l : link) : delivered (drain l) = delivered l ++ concat (inflight l) /\ inflight (drain l) = []
  /\ sent (drain l) = sent l /\ up (drain l) = up l.
Proof.
  unfold drain. remember (length (inflight l)) as n eqn:En. revert l En.
  induction n as [|n IH]; intros l En; cbn [repeat lrun fold_left].
  - destruct (inflight l); [|discriminate]. cbn [concat]. rewrite app_nil_r. auto.
  - destruct (inflight l) as [|b t] eqn:Ei; [discriminate|]. cbn [lstep]. rewrite Ei.
    fold (lrun {| up := up l; inflight := t; sent := sent l; delivered := delivered l ++ b |} (repeat LRecv n)).
    specialize (IH {| up := up l; inflight := t; sent := sent l; delivered := delivered l ++ b |}).
    cbn [inflight delivered sent up] in IH. destruct (IH ltac:(cbn [length] in En; lia)) as (H1 & H2 & H3 & H4).
    rewrite H1, H2, H3, H4. cbn [concat]. rewrite app_assoc. auto.
Qed.

Theorem exactly_once_drained es : steady es ->
  delivered (drain (lrun link0 es)) = sent (lrun link0 es) /\ inflight (drain (lrun link0 es)) = [].
Proof.
  intros Hs. destruct (drain_spec (lrun link0 es)) as (H1 & H2 & _). split; [|exact H2].
  rewrite H1. apply exactly_once_link_up. exact Hs.
Qed.

(* per sender -> receiver (any projection of the messages): order and multiplicity are kept per flow *)
Theorem per_flow_subseq (sel : E -> bool) es :
  Subseq (filter sel (delivered (lrun link0 es))) (filter sel (sent (lrun link0 es))).
Proof. apply subseq_filter. apply never_dup_or_reorder. Qed.

Theorem per_flow_exactly_once (sel : E -> bool) es : steady es ->
  filter sel (delivered (drain (lrun link0 es))) = filter sel (sent (lrun link0 es)).
Proof. intros Hs. rewrite (proj1 (exactly_once_drained es Hs)). reflexivity. Qed.

(* the batches of the stream sender: handing a queue over in cuts of at most [limit] and letting the
   receiving loop run delivers the queue, whole and in order, whatever the limit *)
Lemma lrun_send_all limit (qu : list E) (l : link) : up l = true ->
  let l' := lrun l (send_all limit qu) in
  up l' = true /\ sent l' = sent l ++ concat (cut limit qu) /\ inflight l' = inflight l ++ cut limit qu /\ delivered l' = delivered l.
Proof.
  unfold send_all. generalize (cut limit qu) as bs. intros bs. revert l.
  induction bs as [|b t IH]; intros l Hu; cbn [map lrun fold_left concat].
  - rewrite !app_nil_r. auto.
  - cbn [lstep]. rewrite Hu.
    specialize (IH {| up := true; inflight := inflight l ++ [b]; sent := sent l ++ b; delivered := delivered l |} eq_refl).
    cbn [up inflight sent delivered] in IH. destruct IH as (H1 & H2 & H3 & H4).
    unfold lrun in *. rewrite H1, H2, H3, H4. rewrite <- !app_assoc. auto.
Qed.

Theorem batched_delivery limit (qu : list E) : 0 < limit ->
  delivered (drain (lrun link0 (send_all limit qu))) = qu.
Proof.
  intros Hl. destruct (lrun_send_all limit qu link0 eq_refl) as (_ & Hs & Hi & Hd).
  destruct (drain_spec (lrun link0 (send_all limit qu))) as (H1 & _).
  rewrite H1, Hd, Hi. cbn [delivered inflight link0 app]. apply cut_concat. exact Hl.
Qed.

End LinkFacts.

(* ------------------------------------------------------------------ (2),(3) envelope and reply routing *)
Section EnvelopeFacts.
Variables Msg TName Bytes : Type.
Variable encode : Msg -> option (TName * Bytes).
Variable decode : TName -> Bytes -> option Msg.
Hypothesis codec_roundtrip : forall m t b, encode m = Some (t, b) -> decode t b = Some m.

Notation pack := (pack Msg TName Bytes encode).
Notation unpack := (unpack Msg TName Bytes decode).
Notation intended := (intended Msg).

(* content, sender identity, receiver identity and the user/system class survive the wire *)
Theorem envelope_roundtrip receiver sender system o e :
  pack receiver sender system o = Some e -> unpack e = Some (intended receiver sender system o).
Proof.
  unfold LinkModel.pack, LinkModel.unpack. intros H.
  destruct (encode (d_msg Msg (intended receiver sender system o))) as [[t b]|] eqn:En; [|discriminate].
  inversion H; subst; clear H. cbn [e_type e_data e_sender e_receiver e_system].
  rewrite (codec_roundtrip _ _ _ En). destruct o; reflexivity.
Qed.

Variables addrA addrB : nat.
Hypothesis distinct : addrA <> addrB.
Notation tell := (tell Msg TName Bytes encode addrA addrB).
Notation pump := (pump Msg TName Bytes decode).
Notation net := (net Msg TName Bytes).

Lemma eqb_AB : Nat.eqb addrB addrA = false /\ Nat.eqb addrA addrB = false.
Proof. split; apply Nat.eqb_neq; congruence. Qed.

(* An asker on node A (registry entry [fid]: an actor or a future) asks a process of node B; the message
   carries the asker as sender; B's process replies to the carried sender; the reply comes back through
   B's resolver and the link B->A and is handed to the asker's registry entry, intact, together with the
   identity of the replier. Both messages are encodable; the links are up and idle. *)
Theorem reply_reaches_asker (n : net) (fid tgt : nat) (ask rep : Msg) :
  up (lAB _ _ _ n) = true -> inflight (lAB _ _ _ n) = [] ->
  up (lBA _ _ _ n) = true -> inflight (lBA _ _ _ n) = [] ->
  encode ask <> None -> encode rep <> None ->
  let asker := {| phys := addrA; logi := fid |} in
  let target := {| phys := addrB; logi := tgt |} in
  let n1 := tell A (Some asker) target false (Wrapped _ (Some asker) (Some target) ask) n in
  let n2 := pump A n1 in
  let n3 := tell B (Some target) asker false (Wrapped _ (Some target) (Some asker) rep) n2 in
  let n4 := pump B n3 in
  regB _ _ _ n2 tgt = regB _ _ _ n tgt ++ [{| d_sender := Some asker; d_receiver := Some target; d_system := false; d_msg := ask |}] /\
  regA _ _ _ n4 fid = regA _ _ _ n fid ++ [{| d_sender := Some target; d_receiver := Some asker; d_system := false; d_msg := rep |}].
Proof.
  intros UAB IAB UBA IBA Ea Er asker target.
  destruct eqb_AB as [EBA EAB].
  destruct (encode ask) as [[ta ba]|] eqn:Eask; [|congruence].
  destruct (encode rep) as [[tr br]|] eqn:Erep; [|congruence].
  pose proof (codec_roundtrip _ _ _ Eask) as Da. pose proof (codec_roundtrip _ _ _ Erep) as Dr.
  destruct n as [rA rB lab lba]. cbn [lAB lBA regA regB] in *.
  subst asker target. cbv zeta.
  assert (Hn2 : pump A (tell A (Some {| phys := addrA; logi := fid |}) {| phys := addrB; logi := tgt |} false
                   (Wrapped Msg (Some {| phys := addrA; logi := fid |}) (Some {| phys := addrB; logi := tgt |}) ask)
                   {| regA := rA; regB := rB; lAB := lab; lBA := lba |}) =
                {| regA := rA;
                   regB := hand Msg rB {| d_sender := Some {| phys := addrA; logi := fid |}; d_receiver := Some {| phys := addrB; logi := tgt |};
                                          d_system := false; d_msg := ask |};
                   lAB := {| up := true; inflight := []; sent := sent lab ++ [ {| e_sender := Some {| phys := addrA; logi := fid |};
                              e_receiver := Some {| phys := addrB; logi := tgt |}; e_system := false; e_type := ta; e_data := ba |} ];
                             delivered := delivered lab ++ [ {| e_sender := Some {| phys := addrA; logi := fid |};
                              e_receiver := Some {| phys := addrB; logi := tgt |}; e_system := false; e_type := ta; e_data := ba |} ] |};
                   lBA := lba |}).
  { unfold LinkModel.tell. cbn [phys logi addr other]. rewrite EBA, Nat.eqb_refl.
    unfold LinkModel.pack. cbn [LinkModel.intended d_msg d_sender d_receiver]. rewrite Eask.
    cbn [set_out_link out_link lstep lAB]. rewrite UAB, IAB. cbn [app].
    unfold LinkModel.pump. cbn [out_link inflight lAB set_out_link lstep up sent delivered set_reg reg other regA regB lBA fold_left].
    unfold LinkModel.unpack. cbn [e_type e_data e_sender e_receiver e_system]. rewrite Da. reflexivity. }
  rewrite Hn2. cbn [regB]. split.
  - unfold hand. cbn [d_receiver logi]. rewrite Nat.eqb_refl. reflexivity.
  - unfold LinkModel.tell. cbn [phys logi addr other]. rewrite EAB, Nat.eqb_refl.
    unfold LinkModel.pack. cbn [LinkModel.intended d_msg d_sender d_receiver]. rewrite Erep.
    cbn [set_out_link out_link lstep lBA]. rewrite UBA, IBA. cbn [app].
    unfold LinkModel.pump. cbn [out_link inflight lBA set_out_link lstep up sent delivered set_reg reg other regA regB lAB fold_left].
    unfold LinkModel.unpack. cbn [e_type e_data e_sender e_receiver e_system]. rewrite Dr.
    unfold hand at 1. cbn [d_receiver logi regA]. rewrite Nat.eqb_refl. reflexivity.
Qed.

End EnvelopeFacts.

(* ------------------------------------------------------------------ (4) the reference cache *)
(* With the repair: a reference that cached the stream of before the outage re-resolves and the first
   message sent through it after the re-open arrives. *)
Lemma memb_false_lt k l : (forall x, In x l -> x < k) -> memb k l = false.
Proof.
  intros H. unfold memb. destruct (existsb (Nat.eqb k) l) eqn:Em; [|reflexivity].
  apply existsb_exists in Em as (x & Hx & Ex). apply Nat.eqb_eq in Ex. subst. specialize (H _ Hx). lia.
Qed.

Theorem redelivers_after_reopen p0 ok1 c1 p1 ok2 c2 p3 :
  cur p0 = None -> listening p0 = true -> (forall k, In k (dead p0) -> k < fresh p0) ->
  send_via true None p0 = (ok1, c1, p1) ->                          (* the reference is obtained and used: link up *)
  send_via true c1 (reopen_peer (break_peer p1)) = (ok2, c2, p3) -> (* outage: Close(), later Share(); then the SAME reference *)
  ok1 = true /\ ok2 = true.
Proof.
  intros Hc Hl Hd. unfold send_via, get_process, resolve. rewrite Hc, Hl.
  cbn [arrives dead]. rewrite (memb_false_lt _ _ Hd). cbn [negb].
  intros H1. inversion H1; subst; clear H1.
  cbn [break_peer reopen_peer cur dead fresh listening andb memb existsb]. rewrite Nat.eqb_refl. cbn [orb].
  cbn [arrives dead memb existsb].
  assert (Nat.eqb (S (fresh p0)) (fresh p0) = false) as -> by (apply Nat.eqb_neq; lia). cbn [orb].
  fold (memb (S (fresh p0)) (dead p0)).
  rewrite (memb_false_lt (S (fresh p0)) (dead p0)) by (intros x Hx; specialize (Hd x Hx); lia).
  intros H2. inversion H2. auto.
Qed.

(* Without the repair (IsTerminated constantly false) the same reference keeps the dead stream: nothing
   sent through it after the outage ever arrives. This is the defect the patch removes. *)
Definition resend (repaired : bool) (x : bool * option nat * peer) : bool * option nat * peer :=
  send_via repaired (snd (fst x)) (snd x).

Theorem unrepaired_reference_never_redelivers :
  let first := send_via false None peer0 in
  let p2 := reopen_peer (break_peer (snd first)) in
  fst (fst first) = true /\
  forall n, fst (fst (Nat.iter (S n) (resend false) (false, snd (fst first), p2))) = false.
Proof.
  cbn zeta. split; [reflexivity|].
  assert (H : forall n, Nat.iter (S n) (resend false) (false, snd (fst (send_via false None peer0)), reopen_peer (break_peer (snd (send_via false None peer0))))
                        = (false, Some 0, reopen_peer (break_peer (snd (send_via false None peer0))))).
  { induction n as [|n IH]; [reflexivity|]. change (Nat.iter (S (S n)) ?f ?x) with (f (Nat.iter (S n) f x)). rewrite IH. reflexivity. }
  intros n. rewrite H. reflexivity.
Qed.

(* the same scenario with the repair: the first message after the re-open arrives *)
Example repaired_reference_redelivers :
  let first := send_via true None peer0 in
  let p2 := reopen_peer (break_peer (snd first)) in
  fst (fst (resend true (false, snd (fst first), p2))) = true.
Proof. reflexivity. Qed.

(* ------------------------------------------------------------------ (5) parallel streams: refutation *)
(* With two live streams between the same nodes the delivered sequence of ONE flow need not be a
   sub-sequence of what was sent: message 1 overtakes message 0. (Open finding.) *)
Theorem order_across_parallel_streams_refuted :
  exists es : list (pev (E:=nat)),
    let n := prun {| streams := [[]; []]; plog := []; psent := [] |} es in
    psent n = [0; 1] /\ plog n = [1; 0] /\ ~ Subseq (plog n) (psent n).
Proof.
  exists [PSend 0 0; PSend 1 1; PRecv 1; PRecv 0]. cbn. repeat split.
  intros H. inversion H as [| |x l1 l2 H1]; subst. inversion H1 as [|x l1 l2 H2|x l1 l2 H2]; subst.
  - inversion H2.
  - inversion H2.
Qed.
