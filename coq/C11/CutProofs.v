(* MV.C11.CutProofs — the batch loop neither loses, duplicates nor reorders, and respects the limit. *)
From MV Require Import Lib.ListX C11.CutModel.

Section CutProofs.
Context {A : Type}.
Implicit Types q b : list A.

Lemma take_app limit q : fst (take limit q) ++ snd (take limit q) = q.
Proof.
  unfold take. destruct (Nat.ltb_spec (length q) limit); cbn [fst snd].
  - apply app_nil_r.
  - apply firstn_skipn.
Qed.

Lemma take_len limit q : length (fst (take limit q)) <= limit.
Proof.
  unfold take. destruct (Nat.ltb_spec (length q) limit); cbn [fst snd].
  - lia.
  - rewrite firstn_length. lia.
Qed.

Lemma take_rest_len limit q : 0 < limit -> q <> [] -> length (snd (take limit q)) < length q.
Proof.
  intros Hl Hq. unfold take. destruct (Nat.ltb_spec (length q) limit); cbn [fst snd].
  - destruct q; [congruence|]. simpl. lia.
  - rewrite skipn_length. destruct q; [congruence|]. cbn [length] in *. lia.
Qed.

Lemma take_nil_iff limit q : 0 < limit -> (fst (take limit q) = [] <-> q = []).
Proof.
  intros Hl. unfold take. destruct (Nat.ltb_spec (length q) limit); cbn [fst snd].
  - tauto.
  - split; intros H0.
    + destruct q as [|a t]; [reflexivity|]. destruct limit; [lia|]. discriminate.
    + subst. simpl in *. lia.
Qed.

(* a batch is either the whole (short) queue or exactly [limit] elements *)
Lemma take_full_or_last limit q :
  (length (fst (take limit q)) = limit /\ limit <= length q) \/ (snd (take limit q) = [] /\ length q < limit).
Proof.
  unfold take. destruct (Nat.ltb_spec (length q) limit); cbn [fst snd].
  - right. split; [reflexivity|lia].
  - left. rewrite firstn_length. lia.
Qed.

Lemma cut_fuel_concat limit : 0 < limit ->
  forall fuel q, length q < fuel -> concat (cut_fuel fuel limit q) = q.
Proof.
  intros Hl. induction fuel as [|f IH]; intros q Hf; [lia|].
  cbn [cut_fuel]. destruct (take limit q) as [b rest] eqn:E.
  pose proof (take_app limit q) as Ha. pose proof (take_nil_iff limit q Hl) as Hn.
  rewrite E in Ha, Hn. cbn [fst snd] in Ha, Hn.
  destruct b as [|x b'].
  - simpl. symmetry. apply Hn. reflexivity.
  - cbn [concat]. rewrite IH.
    + exact Ha.
    + assert (Hq : q <> []) by (intros ->; destruct Hn as [_ Hn]; specialize (Hn eq_refl); discriminate).
      pose proof (take_rest_len limit q Hl Hq) as Hr. rewrite E in Hr. cbn [snd] in Hr. lia.
Qed.

Lemma cut_fuel_bounds limit : 0 < limit ->
  forall fuel q, Forall (fun b => b <> [] /\ length b <= limit) (cut_fuel fuel limit q).
Proof.
  intros Hl. induction fuel as [|f IH]; intros q; [constructor|].
  cbn [cut_fuel]. destruct (take limit q) as [b rest] eqn:E.
  pose proof (take_len limit q) as Hlen. rewrite E in Hlen. cbn [fst] in Hlen.
  destruct b as [|x b']; constructor.
  - split; [discriminate|exact Hlen].
  - apply IH.
Qed.

(* every batch but possibly the last one is full: the loop takes as much as the limit allows *)
Fixpoint all_but_last_full (limit : nat) (bs : list (list A)) : Prop :=
  match bs with
  | [] => True
  | [_] => True
  | b :: t => length b = limit /\ all_but_last_full limit t
  end.

Lemma cut_fuel_full limit : 0 < limit ->
  forall fuel q, all_but_last_full limit (cut_fuel fuel limit q).
Proof.
  intros Hl. induction fuel as [|f IH]; intros q; [exact I|].
  cbn [cut_fuel]. destruct (take limit q) as [b rest] eqn:E.
  destruct b as [|x b']; [exact I|].
  specialize (IH rest).
  destruct (cut_fuel f limit rest) as [|b2 t] eqn:E2; [exact I|].
  cbn [all_but_last_full]. split; [|exact IH].
  destruct (take_full_or_last limit q) as [[H1 _]|[H1 _]]; rewrite E in H1; cbn [fst snd] in H1.
  - exact H1.
  - (* rest = [] but a second batch exists: impossible *)
    subst rest. destruct f; [discriminate|]. cbn [cut_fuel] in E2.
    unfold take in E2. cbn [length] in E2. destruct (Nat.ltb_spec 0 limit); [|lia]. discriminate.
Qed.

Theorem cut_concat limit q : 0 < limit -> concat (cut limit q) = q.
Proof. intros Hl. unfold cut. apply cut_fuel_concat; [exact Hl|lia]. Qed.

Theorem cut_bounds limit q : 0 < limit ->
  Forall (fun b => b <> [] /\ length b <= limit) (cut limit q).
Proof. intros Hl. unfold cut. apply cut_fuel_bounds. exact Hl. Qed.

Theorem cut_full limit q : 0 < limit -> all_but_last_full limit (cut limit q).
Proof. intros Hl. unfold cut. apply cut_fuel_full. exact Hl. Qed.

End CutProofs.
