(* MV.C11.Properties — statements of property C11 ("cross-node messages arrive intact, once, in order;
   replies find their way back") on the models of MV.C11:
     CutModel   the batch loop of the stream sender (engine/prc/shared_stream_process.go, send)
     GateModel  the per-peer sender gate, one step per shared-memory statement of shared_stream_process.go
     LinkModel  the link (in-flight batches, Break/Reopen), the envelope with an abstract codec, two
                registries with the resolver, the per-reference cache, parallel streams
   The batch limit is a parameter everywhere; the value the code uses now is re-read from the source
   on every run and the cut theorems are re-instantiated with it (checks/c11.py, translate/c11consts). *)
From MV Require Import Lib.ListX Lib.Sched C11.CutModel C11.CutProofs C11.Subseq C11.GateModel C11.GateProofs
  C11.LinkModel C11.LinkProofs C11.LinkRun.
From Coq Require Import NArith.
Open Scope Z_scope.

(* ------------------------------------------------------------------ cut: batches in order *)
Theorem C11_cut_concat : forall (A : Type) (n : nat) (l : list A), (0 < n)%nat -> concat (cut n l) = l.
Proof. intros A n l H. apply cut_concat. exact H. Qed.
Print Assumptions C11_cut_concat.

Theorem C11_cut_bounds : forall (A : Type) (n : nat) (l : list A), (0 < n)%nat ->
  Forall (fun b => b <> [] /\ (length b <= n)%nat) (cut n l).
Proof. intros A n l H. apply cut_bounds. exact H. Qed.
Print Assumptions C11_cut_bounds.

(* every batch but the last is full *)
Theorem C11_cut_full : forall (A : Type) (n : nat) (l : list A), (0 < n)%nat -> all_but_last_full n (cut n l).
Proof. intros A n l H. apply cut_full. exact H. Qed.
Print Assumptions C11_cut_full.

Example C11_cut_example : cut 3 [1;2;3;4;5;6;7]%nat = [[1;2;3];[4;5;6];[7]]%nat /\ cut 3 [1;2;3]%nat = [[1;2;3]]%nat /\ cut 0 [1]%nat = [].
Proof. repeat split. Qed.

(* ------------------------------------------------------------------ the sender gate (any number of packers, any schedule) *)
(* at most one thread is inside send() at any time *)
Theorem C11_gate_single_sender : forall limit st, reach (init limit) st -> senders st <= 1.
Proof. exact single_sender. Qed.
Print Assumptions C11_gate_single_sender.

(* the queue is only touched in exclusive critical sections *)
Theorem C11_gate_lock_exclusive : forall limit st, reach (init limit) st ->
  T limit wh (snd st) <= 1 /\ (T limit wh (snd st) = 1 -> T limit rh (snd st) = 0).
Proof. exact lock_exclusive. Qed.
Print Assumptions C11_gate_lock_exclusive.

(* while the stream is up: handed to the stream ++ held by the sender ++ queued = packed order *)
Theorem C11_gate_fifo : forall limit st, reach (init limit) st -> GateModel.up (fst st) = true ->
  packed (fst st) = wire (fst st) ++ held (fst st) ++ q (fst st).
Proof. exact fifo_up. Qed.
Print Assumptions C11_gate_fifo.

(* whatever the stream does: no duplicate, no reordering of what reaches the stream *)
Theorem C11_gate_wire_subseq : forall limit st, reach (init limit) st -> Subseq (wire (fst st)) (packed (fst st)).
Proof. exact wire_subseq. Qed.
Print Assumptions C11_gate_wire_subseq.

Theorem C11_gate_batches_bounded : forall limit st, reach (init limit) st ->
  concat (sentb (fst st)) = wire (fst st) /\ Forall (fun b => (length b <= limit)%nat) (sentb (fst st)).
Proof. exact batches_bounded. Qed.
Print Assumptions C11_gate_batches_bounded.

(* no stranded message at quiescence *)
Theorem C11_gate_no_stranded : forall limit st, reach (init limit) st -> quiescent st ->
  q (fst st) = [] /\ held (fst st) = [] /\ active (fst st) = false /\ wr (fst st) = false /\ rd (fst st) = 0.
Proof. exact no_stranded. Qed.
Print Assumptions C11_gate_no_stranded.

(* the same over runs *)
Theorem C11_gate_fifo_runs : forall limit sched st es, run (init limit) sched = Some (st, es) -> GateModel.up (fst st) = true ->
  packed (fst st) = wire (fst st) ++ held (fst st) ++ q (fst st).
Proof. intros limit sched st es H. apply fifo_up. eapply run_reach; [constructor|exact H]. Qed.
Print Assumptions C11_gate_fifo_runs.

(* non-vacuity: limit 2; three packers; the first one wins the CAS; the sender takes [1;2] while 3 is
   queued behind, sends, takes [3], a fourth message is packed while the sender holds [3] *)
Example C11_gate_example :
  exists st es,
    run (init 2) [(0, CPack 1%N); (0, CPack 2%N); (0, CPack 3%N);
                  (1, CNone); (1, CNone); (1, CNone);          (* packer 1: lock, append+unlock, CAS ok -> spawns sender (tid 4) *)
                  (2, CNone); (2, CNone); (2, CNone);          (* packer 2: CAS fails *)
                  (3, CNone); (3, CNone); (3, CNone);
                  (4, CNone); (4, CNone); (4, CNone);          (* sender: lock, take [1;2], send *)
                  (4, CNone); (4, CNone);                      (* lock, take [3] *)
                  (0, CPack 4%N); (5, CNone); (5, CNone)]%nat = Some (st, es)
    /\ wire (fst st) = [1;2]%N /\ held (fst st) = [3]%N /\ q (fst st) = [4]%N /\ senders st = 1.
Proof. eexists. eexists. split; [vm_compute; reflexivity|]. vm_compute. repeat split. Qed.

(* ------------------------------------------------------------------ the link *)
Theorem C11_exactly_once_link_up : forall (E : Type) (es : list (lev E)), steady es ->
  delivered (lrun link0 es) ++ concat (inflight (lrun link0 es)) = sent (lrun link0 es) /\
  delivered (drain (lrun link0 es)) = sent (lrun link0 es).
Proof. intros E es H. split; [apply exactly_once_link_up|apply exactly_once_drained]; exact H. Qed.
Print Assumptions C11_exactly_once_link_up.

Theorem C11_never_dup_or_reorder : forall (E : Type) (es : list (lev E)),
  Subseq (delivered (lrun link0 es)) (sent (lrun link0 es)).
Proof. intros. apply never_dup_or_reorder. Qed.
Print Assumptions C11_never_dup_or_reorder.

(* per sender -> receiver (any selection of the messages) *)
Theorem C11_per_flow : forall (E : Type) (sel : E -> bool) (es : list (lev E)),
  Subseq (filter sel (delivered (lrun link0 es))) (filter sel (sent (lrun link0 es))) /\
  (steady es -> filter sel (delivered (drain (lrun link0 es))) = filter sel (sent (lrun link0 es))).
Proof. intros. split; [apply per_flow_subseq|apply per_flow_exactly_once]. Qed.
Print Assumptions C11_per_flow.

(* order is kept across batching boundaries: queue -> cuts of at most limit -> wire -> receiver loop *)
Theorem C11_batched_delivery : forall (E : Type) (limit : nat) (qu : list E), (0 < limit)%nat ->
  delivered (drain (lrun link0 (send_all limit qu))) = qu.
Proof. intros. apply batched_delivery. assumption. Qed.
Print Assumptions C11_batched_delivery.

Example C11_link_example :
  let l := lrun link0 [LSend [1;2]; LSend [3]; LRecv; LBreak; LSend [4]; LReopen; LSend [5;6]; LRecv]%nat in
  sent l = [1;2;3;5;6]%nat /\ delivered l = [1;2;5;6]%nat.
Proof. split; reflexivity. Qed.

(* ------------------------------------------------------------------ envelope and reply routing *)
Theorem C11_envelope_roundtrip :
  forall (Msg TName Bytes : Type) (encode : Msg -> option (TName * Bytes)) (decode : TName -> Bytes -> option Msg),
  (forall m t b, encode m = Some (t, b) -> decode t b = Some m) ->
  forall receiver sender system o e,
  pack Msg TName Bytes encode receiver sender system o = Some e ->
  unpack Msg TName Bytes decode e = Some (intended Msg receiver sender system o).
Proof. intros. eapply envelope_roundtrip; eauto. Qed.
Print Assumptions C11_envelope_roundtrip.

Theorem C11_reply_reaches_asker :
  forall (Msg TName Bytes : Type) (encode : Msg -> option (TName * Bytes)) (decode : TName -> Bytes -> option Msg),
  (forall m t b, encode m = Some (t, b) -> decode t b = Some m) ->
  forall addrA addrB, addrA <> addrB ->
  forall (n : net Msg TName Bytes) (fid tgt : nat) (ask rep : Msg),
  LinkModel.up (lAB _ _ _ n) = true -> inflight (lAB _ _ _ n) = [] ->
  LinkModel.up (lBA _ _ _ n) = true -> inflight (lBA _ _ _ n) = [] ->
  encode ask <> None -> encode rep <> None ->
  let asker := {| phys := addrA; logi := fid |} in
  let target := {| phys := addrB; logi := tgt |} in
  let n1 := tell Msg TName Bytes encode addrA addrB A (Some asker) target false (Wrapped _ (Some asker) (Some target) ask) n in
  let n2 := pump Msg TName Bytes decode A n1 in
  let n3 := tell Msg TName Bytes encode addrA addrB B (Some target) asker false (Wrapped _ (Some target) (Some asker) rep) n2 in
  let n4 := pump Msg TName Bytes decode B n3 in
  regB _ _ _ n2 tgt = regB _ _ _ n tgt ++ [{| d_sender := Some asker; d_receiver := Some target; d_system := false; d_msg := ask |}] /\
  regA _ _ _ n4 fid = regA _ _ _ n fid ++ [{| d_sender := Some target; d_receiver := Some asker; d_system := false; d_msg := rep |}].
Proof. intros Msg TName Bytes encode decode Hc addrA addrB Hd. exact (reply_reaches_asker Msg TName Bytes encode decode Hc addrA addrB Hd). Qed.
Print Assumptions C11_reply_reaches_asker.

(* ------------------------------------------------------------------ references across an outage *)
(* repaired code (fixes/C11-stale-stream-reference.patch): the SAME reference delivers again *)
Theorem C11_redelivers_after_reopen : forall p0 ok1 c1 p1 ok2 c2 p3,
  cur p0 = None -> listening p0 = true -> (forall k, In k (dead p0) -> (k < fresh p0)%nat) ->
  send_via true None p0 = (ok1, c1, p1) ->
  send_via true c1 (reopen_peer (break_peer p1)) = (ok2, c2, p3) ->
  ok1 = true /\ ok2 = true.
Proof. exact redelivers_after_reopen. Qed.
Print Assumptions C11_redelivers_after_reopen.

(* the code before the repair (IsTerminated constantly false): never again *)
Theorem C11_unrepaired_reference_never_redelivers :
  let first := send_via false None peer0 in
  let p2 := reopen_peer (break_peer (snd first)) in
  fst (fst first) = true /\
  forall n, fst (fst (Nat.iter (S n) (resend false) (false, snd (fst first), p2))) = false.
Proof. exact unrepaired_reference_never_redelivers. Qed.
Print Assumptions C11_unrepaired_reference_never_redelivers.

(* ------------------------------------------------------------------ open finding: several live streams between two nodes *)
Theorem C11_order_across_parallel_streams_refuted :
  exists es : list (pev (E:=nat)),
    let n := prun {| streams := [[]; []]; plog := []; psent := [] |} es in
    psent n = [0; 1]%nat /\ plog n = [1; 0]%nat /\ ~ Subseq (plog n) (psent n).
Proof. exact order_across_parallel_streams_refuted. Qed.
Print Assumptions C11_order_across_parallel_streams_refuted.

(* ------------------------------------------------------------------ the checker applied to the runs of the real code *)
Theorem C11_checker_sound : forall f, flow_ok f = true ->
  let d := expand (fdeliv f) in
  Subseq d (nseq 0 (fsent f)) /\ NoDup d /\ (fbreaks f = O -> d = nseq 0 (fsent f)) /\
  (fbreaks f <> O -> Subseq (expand (fmust f)) d).
Proof. exact flow_ok_sound. Qed.
Print Assumptions C11_checker_sound.

Example C11_checker_example :
  flow_ok {| fsent := 5%N; fdeliv := [(0,5)]%N; fmust := [(0,5)]%N; fbreaks := 0 |} = true /\
  flow_ok {| fsent := 5%N; fdeliv := [(0,2);(3,5)]%N; fmust := [(0,1);(4,5)]%N; fbreaks := 1 |} = true /\
  flow_ok {| fsent := 5%N; fdeliv := [(0,2);(1,3)]%N; fmust := []; fbreaks := 1 |} = false /\
  flow_ok {| fsent := 5%N; fdeliv := [(0,4)]%N; fmust := [(0,5)]%N; fbreaks := 0 |} = false.
Proof. vm_compute. repeat split. Qed.
