(* MV.C11.LinkModel — layers C/B: what happens to a message between the stream sender of one node and
   the registry of the other (engine/prc/shared.go, shared_stream_process.go, resource_controller.go).

   (1) link: per direction a FIFO of in-flight batches. Send appends a batch (a broken stream accepts
       nothing), Recv = one iteration of Shared.streaming: take the oldest batch and deliver its elements
       one after the other (onBatchDeliveryMessage), Break loses whatever is in flight, Reopen = a fresh
       stream.
   (2) envelope: DeliveryMessage{sender, receiver, system, type name, bytes}; the codec is a section
       parameter that only has to satisfy the round-trip law (codec/protobuf.go is validated against it
       on random messages by the T1 harness on every run).
   (3) two nodes with registries and the physical-address resolver: reply routing.
   (4) the per-reference process cache of ResourceController.GetProcess (stale stream after an outage).
   (5) several live streams between the same two nodes (racing dials): the open finding.
   No proofs in this file. *)
From MV Require Import Lib.ListX C11.CutModel.
From Coq Require Import NArith.

(* ------------------------------------------------------------------ (1) one direction of a link *)
Section Link.
Context {E : Type}.

Record link := { up : bool; inflight : list (list E); sent : list E; delivered : list E }.
Definition link0 : link := {| up := true; inflight := []; sent := []; delivered := [] |}.

Inductive lev := LSend (b : list E) | LRecv | LBreak | LReopen.

Definition lstep (l : link) (e : lev) : link :=
  match e with
  | LSend b =>
      if up l then {| up := true; inflight := inflight l ++ [b]; sent := sent l ++ b; delivered := delivered l |}
      else l                                          (* stream.Send fails: nothing enters the wire *)
  | LRecv =>
      match inflight l with
      | [] => l
      | b :: t => {| up := up l; inflight := t; sent := sent l; delivered := delivered l ++ b |}
      end
  | LBreak => {| up := false; inflight := []; sent := sent l; delivered := delivered l |}
  | LReopen => {| up := true; inflight := []; sent := sent l; delivered := delivered l |}
  end.

Definition lrun (l : link) (es : list lev) : link := fold_left lstep es l.

Definition is_break (e : lev) : bool := match e with LBreak => true | _ => false end.
Definition no_break (es : list lev) : Prop := forallb (fun e => negb (is_break e)) es = true.

(* the stream sender hands a queue over in batches of at most [limit] (CutModel) *)
Definition send_all (limit : nat) (qu : list E) : list lev := map LSend (cut limit qu).
(* the receiving loop runs until nothing is in flight *)
Definition drain (l : link) : link := lrun l (repeat LRecv (length (inflight l))).

End Link.
Arguments link E : clear implicits.
Arguments lev E : clear implicits.

(* ------------------------------------------------------------------ (2) envelope *)
Record pid := { phys : nat; logi : nat }.
Definition pid_eqb (a b : pid) : bool := Nat.eqb (phys a) (phys b) && Nat.eqb (logi a) (logi b).

Section Envelope.
Variables Msg TName Bytes : Type.
Variable encode : Msg -> option (TName * Bytes).      (* None: not encodable (packMessage panics) *)
Variable decode : TName -> Bytes -> option Msg.

Record envelope := { e_sender : option pid; e_receiver : option pid; e_system : bool; e_type : TName; e_data : Bytes }.

(* what packMessage is handed: a bare message, or the *MessageWrapper vivid always uses *)
Inductive outgoing := Raw (m : Msg) | Wrapped (ws wr : option pid) (m : Msg).

Record delivery := { d_sender : option pid; d_receiver : option pid; d_system : bool; d_msg : Msg }.

(* what the receiving process must be handed for an outgoing message *)
Definition intended (receiver sender : option pid) (system : bool) (o : outgoing) : delivery :=
  match o with
  | Raw m => {| d_sender := sender; d_receiver := receiver; d_system := system; d_msg := m |}
  | Wrapped ws wr m => {| d_sender := ws; d_receiver := wr; d_system := system; d_msg := m |}
  end.

Definition pack (receiver sender : option pid) (system : bool) (o : outgoing) : option envelope :=
  let d := intended receiver sender system o in
  match encode (d_msg d) with
  | Some (t, b) => Some {| e_sender := d_sender d; e_receiver := d_receiver d; e_system := system; e_type := t; e_data := b |}
  | None => None
  end.

(* onDeliveryMessage *)
Definition unpack (e : envelope) : option delivery :=
  match decode (e_type e) (e_data e) with
  | Some m => Some {| d_sender := e_sender e; d_receiver := e_receiver e; d_system := e_system e; d_msg := m |}
  | None => None
  end.

(* ------------------------------------------------------------------ (3) two nodes *)
Inductive side := A | B.
Definition other (x : side) : side := match x with A => B | B => A end.

Variables addrA addrB : nat.
Definition addr (x : side) : nat := match x with A => addrA | B => addrB end.

Definition registry := nat -> list delivery.            (* logical address -> what that process was handed, in order *)
Definition reg0 : registry := fun _ => [].
Definition hand (r : registry) (d : delivery) : registry :=
  match d_receiver d with
  | Some p => fun a => if Nat.eqb a (logi p) then r a ++ [d] else r a
  | None => r                                              (* not-found substitute *)
  end.

Record net := { regA : registry; regB : registry; lAB : link envelope; lBA : link envelope }.
Definition net0 : net := {| regA := reg0; regB := reg0; lAB := link0; lBA := link0 |}.
Definition reg (x : side) (n : net) : registry := match x with A => regA n | B => regB n end.

Definition set_reg (x : side) (r : registry) (n : net) : net :=
  match x with
  | A => {| regA := r; regB := regB n; lAB := lAB n; lBA := lBA n |}
  | B => {| regA := regA n; regB := r; lAB := lAB n; lBA := lBA n |}
  end.
Definition out_link (x : side) (n : net) : link envelope := match x with A => lAB n | B => lBA n end.
Definition set_out_link (x : side) (l : link envelope) (n : net) : net :=
  match x with
  | A => {| regA := regA n; regB := regB n; lAB := l; lBA := lBA n |}
  | B => {| regA := regA n; regB := regB n; lAB := lAB n; lBA := l |}
  end.

(* rc.GetProcess(target).Delivery…Message(target, sender, nil, message) issued on node x *)
Definition tell (x : side) (sender : option pid) (target : pid) (system : bool) (o : outgoing) (n : net) : net :=
  if Nat.eqb (phys target) (addr x) then
    set_reg x (hand (reg x n) (intended (Some target) sender system o)) n       (* local process *)
  else if Nat.eqb (phys target) (addr (other x)) then
    match pack (Some target) sender system o with
    | Some e => set_out_link x (lstep (out_link x n) (LSend [e])) n            (* resolver -> stream *)
    | None => n
    end
  else n.

(* one iteration of the receiving loop of node (other x) on the stream coming from x *)
Definition pump (x : side) (n : net) : net :=
  match inflight (out_link x n) with
  | [] => n
  | b :: _ =>
      let n1 := set_out_link x (lstep (out_link x n) LRecv) n in
      let r := fold_left (fun r e => match unpack e with Some d => hand r d | None => r end) b (reg (other x) n1) in
      set_reg (other x) r n1
  end.

End Envelope.

(* ------------------------------------------------------------------ (4) the per-reference cache *)
(* Streams to one peer are numbered. [cur] is the stream attached under the peer's address, [dead] the
   streams that were detached. [repaired] = the detached stream reports IsTerminated() = true
   (fixes/C11-stale-stream-reference.patch); false = the code before the repair (constantly false). *)
Record peer := { cur : option nat; dead : list nat; fresh : nat; listening : bool }.
Definition peer0 : peer := {| cur := None; dead := []; fresh := 0; listening := true |}.
Definition memb (k : nat) (l : list nat) : bool := existsb (Nat.eqb k) l.

Definition resolve (p : peer) : option nat * peer :=
  match cur p with
  | Some k => (Some k, p)
  | None => if listening p
            then (Some (fresh p), {| cur := Some (fresh p); dead := dead p; fresh := S (fresh p); listening := true |})
            else (None, p)
  end.

(* ResourceController.GetProcess through a reference with a cache *)
Definition get_process (repaired : bool) (cache : option nat) (p : peer) : option nat * option nat * peer :=
  match cache with
  | Some k => if repaired && memb k (dead p)
              then let '(r, p') := resolve p in (r, r, p')
              else (Some k, Some k, p)
  | None => let '(r, p') := resolve p in (r, r, p')
  end.

Definition break_peer (p : peer) : peer :=
  match cur p with
  | Some k => {| cur := None; dead := k :: dead p; fresh := fresh p; listening := false |}
  | None => {| cur := None; dead := dead p; fresh := fresh p; listening := false |}
  end.
Definition reopen_peer (p : peer) : peer := {| cur := cur p; dead := dead p; fresh := fresh p; listening := true |}.

(* a message handed to stream k arrives iff that stream is alive *)
Definition arrives (r : option nat) (p : peer) : bool :=
  match r with Some k => negb (memb k (dead p)) | None => false end.

(* send one message through a reference: (did it arrive, new cache, new peer state) *)
Definition send_via (repaired : bool) (cache : option nat) (p : peer) : bool * option nat * peer :=
  let '(r, c', p') := get_process repaired cache p in (arrives r p', c', p').

(* ------------------------------------------------------------------ (5) several live streams *)
(* Racing dials leave more than one live stream between two nodes; the messages of one flow may be
   spread over them (the reference cache is overwritten, or a re-dial happens while the tail of the old
   stream is still being delivered), and each stream has its own receiving loop. *)
Section Parallel.
Context {E : Type}.
Record pnet := { streams : list (list E); plog : list E; psent : list E }.
Inductive pev := PSend (k : nat) (x : E) | PRecv (k : nat).
Definition pstep (n : pnet) (e : pev) : pnet :=
  match e with
  | PSend k x => {| streams := upd k (nth k (streams n) [] ++ [x]) (streams n); plog := plog n; psent := psent n ++ [x] |}
  | PRecv k => match nth k (streams n) [] with
               | [] => n
               | x :: t => {| streams := upd k t (streams n); plog := plog n ++ [x]; psent := psent n |}
               end
  end.
Definition prun (n : pnet) (es : list pev) : pnet := fold_left pstep es n.
End Parallel.
